import J5V.Walker.PP.Elems
/-!
# Print/parse, seventh slice: `service NAME { basePath = … method … }`

`contBlock_exact` (a block without tags that enters a container property: `request { … }`),
`anonBody_exact` (the fields of an `AnonymousObject`), `method_appends`, `service_appends`.
-/
namespace J5V.Walker
open J5V.Bcl

/-- `kw { body }` where `kw` is a container-typed property (slot `i`) of the block found, not touched yet -/
theorem contBlock_exact {sc : Scope} {kw : Str} (hkw : isAscii kw = true) {s : Schema} {spec : BlockSpec}
    {c : Addr} {i : Nat} {og : Option (Str × List Nat)} {sD : Schema} {specD : BlockSpec}
    (hfb : findBlock kw sc.blockSet = some (cfOf s spec c, [kw]))
    (hpi : propInfo j5Env s kw = some (i, og, .container sD))
    (hspecD : ∀ c, specOf j5Env ⟨c, .msg sD⟩ = .ok specD)
    (hname : specD.name = none) (hts : specD.typeSelect = none)
    {t : List Bool} {vs : List Node} (ht : t[i]? = some false) (hv : vs[i]? = some .absent)
    (hconf : NoConflictAt s i og vs) {isOpen : Bool} {body : List Statement} {final : Node}
    (hbody : Exact (doBody j5Env (Scope.newChild (cfOf sD specD (c ++ [i]))) body) (c ++ [i]) (freshMsg sD) () final) :
    Exact (doStatement j5Env sc (blockStmt kw [] [] isOpen body)) c (.msg t vs) ()
      (.msg (t.set i true) (vs.set i final)) := by
  have hlt : i < vs.length := (List.getElem?_eq_some_iff.mp hv).1
  have hl : Lens (fun Y => Node.msg (t.set i true) (vs.set i Y)) [i] := Lens.slot (t.set i true) vs hlt
  refine blockStmt_exact hkw
    (childBlock_of_walkPath hfb
      (walkPath_container (propInfo_hasProperty hpi) (propSetValue_build' false hpi ht hv hconf) (walkRest_nil _ _ _))
      (setSpecs_cons (hspecD _) (setSpecs_nil _)))
    (Exact.lens hl (doBlockHead_exact (spec2 := specD) rfl (walkTags_nil_none _ _ hname hts)
      (walkQualifiers_nil _ _ _ _)))
    (Exact.lens hl hbody)

/-! ## Tables -/

def sService : Schema := j5_schema_lit% "j5.sourcedef.v1.Service"
def specService : BlockSpec := j5_spec_lit% "j5.sourcedef.v1.Service"
def sAPIMethod : Schema := j5_schema_lit% "j5.sourcedef.v1.APIMethod"
def specAPIMethod : BlockSpec := j5_spec_lit% "j5.sourcedef.v1.APIMethod"
def sAnonObject : Schema := j5_schema_lit% "j5.sourcedef.v1.AnonymousObject"
def specAnonObject : BlockSpec := j5_spec_lit% "j5.sourcedef.v1.AnonymousObject"
theorem schemaOf_Service : j5Env.schemaOf b!"j5.sourcedef.v1.Service" = sService := by
  rw [j5Env_nf]; decide +kernel
theorem schemaOf_APIMethod : j5Env.schemaOf b!"j5.sourcedef.v1.APIMethod" = sAPIMethod := by
  rw [j5Env_nf]; decide +kernel
theorem schemaOf_AnonObject : j5Env.schemaOf b!"j5.sourcedef.v1.AnonymousObject" = sAnonObject := by
  rw [j5Env_nf]; decide +kernel
theorem specOf_Service (c : Addr) : specOf j5Env ⟨c, .msg sService⟩ = .ok specService := by
  apply specOf_of_nil; rw [j5Env_nf]; decide +kernel
theorem specOf_APIMethod (c : Addr) : specOf j5Env ⟨c, .msg sAPIMethod⟩ = .ok specAPIMethod := by
  apply specOf_of_nil; rw [j5Env_nf]; decide +kernel
theorem specOf_AnonObject (c : Addr) : specOf j5Env ⟨c, .msg sAnonObject⟩ = .ok specAnonObject := by
  apply specOf_of_nil; rw [j5Env_nf]; decide +kernel

theorem pi_RootElement_service :
    propInfo j5Env sRootElement b!"service" = some (5, some gRootElement, .container sService) := by
  rw [j5Env_nf]; decide +kernel
theorem pi_Service_name : propInfo j5Env sService wName = some (0, none, .scalar (.scalar .string) true) := by
  rw [j5Env_nf]; decide +kernel
theorem pi_Service_basePath :
    propInfo j5Env sService b!"basePath" = some (1, none, .scalar (.scalar .string) true) := by
  rw [j5Env_nf]; decide +kernel
theorem pi_Service_methods :
    propInfo j5Env sService b!"methods" = some (3, none, .arrayOfContainer sAPIMethod) := by
  rw [j5Env_nf]; decide +kernel
theorem pi_APIMethod_name : propInfo j5Env sAPIMethod wName = some (0, none, .scalar (.scalar .string) false) := by
  rw [j5Env_nf]; decide +kernel
theorem pi_APIMethod_httpPath :
    propInfo j5Env sAPIMethod b!"httpPath" = some (1, none, .scalar (.scalar .string) false) := by
  rw [j5Env_nf]; decide +kernel
theorem pi_APIMethod_httpMethod : propInfo j5Env sAPIMethod b!"httpMethod" =
    some (3, none, .scalar (.enum b!"j5.client.v1.HTTPMethod") false) := by
  rw [j5Env_nf]; decide +kernel
theorem pi_APIMethod_request :
    propInfo j5Env sAPIMethod b!"request" = some (4, none, .container sAnonObject) := by
  rw [j5Env_nf]; decide +kernel
theorem pi_APIMethod_response :
    propInfo j5Env sAPIMethod b!"response" = some (5, none, .container sAnonObject) := by
  rw [j5Env_nf]; decide +kernel
theorem pi_AnonObject_properties :
    propInfo j5Env sAnonObject b!"properties" = some (0, none, .arrayOfContainer sObjectProperty) := by
  rw [j5Env_nf]; decide +kernel

theorem verb_scalar (v : J5V.Compile.Verb) :
    scalarFromAST j5Env (.enum b!"j5.client.v1.HTTPMethod") (.value (strValue (verbWord v))) =
      .ok (.enum (verbNumber v)) := by
  rw [j5Env_nf]; cases v <;> decide +kernel

theorem storeNode_verb (v : J5V.Compile.Verb) :
    storeNode false (.enum (verbNumber v)) = sEnum (verbNumber v) := by cases v <;> rfl

/-! ## `request { fields }` -/

theorem anonMsg_eq (props : List CProperty) :
    anonMsg j5Env props = .msg [!(propsMsg j5Env props).isEmpty] [listSlot (propsMsg j5Env props)] := by
  unfold anonMsg
  rw [mkMsg_of schemaOf_AnonObject]
  generalize propsMsg j5Env props = ps
  cases ps <;> rfl

/-- the fields of an anonymous object at `d` -/
theorem anonBody_exact (d : Addr) (props : List CProperty) (hps : ∀ p ∈ props, PropHas p) :
    Exact (doBody j5Env (Scope.newChild (cfOf sAnonObject specAnonObject d)) (propsBcl wField props)) d
      (freshMsg sAnonObject) () (anonMsg j5Env props) := by
  rw [anonMsg_eq]
  have hprops := props_appendsAll2 (kw := wField) (by decide)
    (sc := Scope.newChild (cfOf sAnonObject specAnonObject d))
    (findBlock_alias' (show aliasLookup wField specAnonObject.aliases = some [b!"properties"] by decide +kernel))
    pi_AnonObject_properties props hps
  have h := appends_fold hprops [] [false] [.absent] rfl rfl
  rw [List.nil_append] at h
  exact h

/-- every property list of the covered fragment has the facts -/
theorem propsHas_all {ps : List CProperty} (h : propsOk j5Env ps = true) : ∀ p ∈ ps, PropHas p :=
  propsHas5 ps (propsOk5_of_propsOk ps h)

/-! ## `method NAME { httpMethod = … httpPath = … request { … } [response { … }] }` -/

/-- the `APIMethod` message -/
def methodNode (name path : Str) (verb : J5V.Compile.Verb) (req : Node) (resp : Option Node) : Node :=
  .msg [true, true, false, true, true, resp.isSome, false, false, false]
    [sStr name, sStr path, .absent, sEnum (verbNumber verb), req, resp.getD .absent, .absent, .absent, .absent]

theorem methodMsg_eq (m : J5V.Compile.Method) :
    methodMsg j5Env m = methodNode m.name m.path m.verb (anonMsg j5Env (m.request.getD []))
      (m.response.map (anonMsg j5Env)) := by
  unfold methodMsg
  rw [mkMsg_of schemaOf_APIMethod]
  cases m.response <;> rfl

/-- the service block at `d` -/
abbrev serviceCF (d : Addr) : ContainerField := cfOf sService specService d

theorem method_appends (d : Addr) {m : J5V.Compile.Method} (hm : methodOk j5Env m = true) :
    Appends j5Env (Scope.newChild (serviceCF d)) d 3 (methodBcl m) (methodMsg j5Env m) := by
  obtain ⟨name, verb, path, request, response, mopt⟩ := m
  simp only [methodOk, Bool.and_eq_true] at hm
  obtain ⟨⟨⟨⟨⟨hname, _⟩, hpath⟩, _⟩, hreq⟩, hresp⟩ := hm
  cases request with
  | none => cases hreq
  | some reqPs =>
    have hreq' : propsOk j5Env reqPs = true := hreq
    rw [methodMsg_eq]
    refine arrayDecl_appends (kw := b!"method") (by decide)
      (findBlock_alias' (show aliasLookup b!"method" specService.aliases = some [b!"methods"] by decide +kernel))
      pi_Service_methods specOf_APIMethod
      (show specAPIMethod.name = some ⟨wName, none, none, true, false⟩ by decide +kernel)
      (show specAPIMethod.typeSelect = none by decide +kernel)
      (show aliasLookup wName specAPIMethod.aliases = none by decide +kernel) pi_APIMethod_name
      (tD := [false, false, false, false, false, false, false, false, false])
      (vsD := [.absent, .absent, .absent, .absent, .absent, .absent, .absent, .absent, .absent]) rfl rfl rfl
      hname ?_
    intro dm
    rw [storeNode_str]
    let msc : Scope := Scope.newChild (cfOf sAPIMethod specAPIMethod dm)
    have hfbOf : ∀ (n : Str), aliasLookup n specAPIMethod.aliases = none → sAPIMethod.hasProperty n = true →
        findBlock n msc.blockSet = some (cfOf sAPIMethod specAPIMethod dm, [n]) :=
      fun n h1 h2 => findBlock_prop' h1 h2
    -- `httpMethod = "GET"`
    have h1 : Exact (doStatement j5Env msc (assignStmt [b!"httpMethod"] (strValue (verbWord verb)))) dm
        (.msg [true, false, false, false, false, false, false, false, false]
          [sStr name, .absent, .absent, .absent, .absent, .absent, .absent, .absent, .absent]) ()
        (.msg [true, false, false, true, false, false, false, false, false]
          [sStr name, .absent, .absent, sEnum (verbNumber verb), .absent, .absent, .absent, .absent, .absent]) := by
      refine doStatement_assign ?_
      refine (setAttr_direct (n := b!"httpMethod") (pos := some Span.zero) (cur := .absent)
        (combinePath_ident (by decide) [])
        (hfbOf _ (by decide +kernel) (propInfo_hasProperty pi_APIMethod_httpMethod))
        pi_APIMethod_httpMethod rfl rfl (.inl rfl) (asArray_strValue _) (verb_scalar verb)).conv ?_
      rw [storeNode_verb]; rfl
    -- `httpPath = "…"`
    have h2 : Exact (doStatement j5Env msc (assignStmt [b!"httpPath"] (strValue path))) dm
        (.msg [true, false, false, true, false, false, false, false, false]
          [sStr name, .absent, .absent, sEnum (verbNumber verb), .absent, .absent, .absent, .absent, .absent]) ()
        (.msg [true, true, false, true, false, false, false, false, false]
          [sStr name, sStr path, .absent, sEnum (verbNumber verb), .absent, .absent, .absent, .absent, .absent]) := by
      refine doStatement_assign ?_
      refine (setAttr_direct (n := b!"httpPath") (pos := some Span.zero) (cur := .absent) (v := .str path)
        (combinePath_ident (by decide) [])
        (hfbOf _ (by decide +kernel) (propInfo_hasProperty pi_APIMethod_httpPath))
        pi_APIMethod_httpPath rfl rfl (.inl rfl) (asArray_strValue _)
        (by simp only [scalarFromAST, asString_strValue (isAscii_of_okString hpath)]; rfl)).conv ?_
      rw [storeNode_str]; rfl
    -- `request { fields }`
    have h3 : Exact (doStatement j5Env msc (anonBcl b!"request" reqPs)) dm
        (.msg [true, true, false, true, false, false, false, false, false]
          [sStr name, sStr path, .absent, sEnum (verbNumber verb), .absent, .absent, .absent, .absent, .absent]) ()
        (.msg [true, true, false, true, true, false, false, false, false]
          [sStr name, sStr path, .absent, sEnum (verbNumber verb), anonMsg j5Env reqPs, .absent, .absent, .absent,
            .absent]) :=
      contBlock_exact (kw := b!"request") (by decide)
        (hfbOf _ (by decide +kernel) (propInfo_hasProperty pi_APIMethod_request)) pi_APIMethod_request
        specOf_AnonObject (by decide +kernel) (by decide +kernel) rfl rfl (fun g hg => by cases hg)
        (anonBody_exact _ reqPs (propsHas_all hreq'))
    have hbase : ∀ (X : Node), Exact (doBody j5Env msc
        (match response with | none => [] | some ps => [anonBcl b!"response" ps])) dm
        (.msg [true, true, false, true, true, false, false, false, false]
          [sStr name, sStr path, .absent, sEnum (verbNumber verb), anonMsg j5Env reqPs, .absent, .absent, .absent,
            .absent]) () X →
        Exact (doBody j5Env msc ([assignStmt [b!"httpMethod"] (strValue (verbWord verb)),
          assignStmt [b!"httpPath"] (strValue path), anonBcl b!"request" reqPs] ++
          (match response with | none => [] | some ps => [anonBcl b!"response" ps]))) dm
        (.msg [true, false, false, false, false, false, false, false, false]
          [sStr name, .absent, .absent, .absent, .absent, .absent, .absent, .absent, .absent]) () X :=
      fun X h4 => doBody_cons h1 (doBody_cons h2 (doBody_cons h3 h4))
    cases response with
    | none => exact hbase _ (doBody_nil _ _ _)
    | some respPs =>
      have hresp' : propsOk j5Env respPs = true := hresp
      refine hbase _ (doBody_cons ?_ (doBody_nil _ _ _))
      exact contBlock_exact (kw := b!"response") (by decide)
        (hfbOf _ (by decide +kernel) (propInfo_hasProperty pi_APIMethod_response)) pi_APIMethod_response
        specOf_AnonObject (by decide +kernel) (by decide +kernel) rfl rfl (fun g hg => by cases hg)
        (anonBody_exact _ respPs (propsHas_all hresp'))

/-! ## `service NAME { [basePath = "…"] methods }` -/

theorem elemMsg_service_eq (sv : J5V.Compile.Service) :
    elemMsg j5Env (.service sv) = oneofMsg 6 5 (serviceMsg j5Env sv) := by
  simp only [elemMsg, rootOneof]
  rw [mkMsg_of schemaOf_RootElement]
  rfl

/-- the `Service` message -/
def serviceNode (hasName : Bool) (name : Node) (bp : Option Str) (ms : List Node) : Node :=
  .msg [hasName, bp.isSome, false, !ms.isEmpty, false]
    [name, match bp with | some p => pStr p | none => .absent, .absent, listSlot ms, .absent]

theorem serviceMsg_eq (sv : J5V.Compile.Service) :
    serviceMsg j5Env sv =
      serviceNode (sv.name.getD [] != []) (if sv.name.getD [] != [] then pStr (sv.name.getD []) else .absent)
        sv.basePath (sv.methods.map (methodMsg j5Env)) := by
  unfold serviceMsg
  rw [mkMsg_of schemaOf_Service]
  generalize sv.methods.map (methodMsg j5Env) = ms
  cases hn : (sv.name.getD [] != []) <;> cases sv.basePath <;> cases ms <;> rfl

/-- the optional `basePath = "…"` line -/
def basePathBcl : Option Str → List Statement
  | none => []
  | some p => [assignStmt [b!"basePath"] (strValue p)]

def bpNode : Option Str → Node
  | some p => pStr p
  | none => .absent

/-- the body of a service / command block at `d`, after the name -/
theorem serviceBody_exact (d : Addr) (t0 : Bool) (nm : Node) (bp : Option Str) (methods : List J5V.Compile.Method)
    (hbp : ∀ p, bp = some p → okString p = true)
    (hms : methods.all (methodOk j5Env) = true) :
    Exact (doBody j5Env (Scope.newChild (serviceCF d)) (basePathBcl bp ++ methods.map methodBcl)) d
      (.msg [t0, false, false, false, false] [nm, .absent, .absent, .absent, .absent]) ()
      (serviceNode t0 nm bp (methods.map (methodMsg j5Env))) := by
  have h1 : Exact (doBody j5Env (Scope.newChild (serviceCF d)) (basePathBcl bp)) d
      (.msg [t0, false, false, false, false] [nm, .absent, .absent, .absent, .absent]) ()
      (.msg [t0, bp.isSome, false, false, false] [nm, bpNode bp, .absent, .absent, .absent]) := by
    cases bp with
    | none => exact doBody_nil _ _ _
    | some p =>
      have hp : okString p = true := hbp p rfl
      refine doBody_cons (doStatement_assign ?_) (doBody_nil _ _ _)
      exact setAttr_direct (n := b!"basePath") (pos := some Span.zero) (cur := .absent) (v := .str p)
        (combinePath_ident (by decide) [])
        (findBlock_prop' (show aliasLookup b!"basePath" specService.aliases = none by decide +kernel)
          (propInfo_hasProperty pi_Service_basePath))
        pi_Service_basePath rfl rfl (.inl rfl) (asArray_strValue _)
        (by simp only [scalarFromAST, asString_strValue (isAscii_of_okString hp)]; rfl)
  have hmeth : AppendsAll j5Env (Scope.newChild (serviceCF d)) d 3 (methods.map methodBcl)
      (methods.map (methodMsg j5Env)) :=
    appendsAll_map _ _ _ (fun m hm => method_appends d (List.all_eq_true.mp hms m hm))
  have h2 := appends_fold hmeth [] [t0, bp.isSome, false, false, false]
    [nm, bpNode bp, .absent, .absent, .absent] rfl rfl
  refine (doBody_append h1 h2).conv ?_
  rw [List.nil_append]
  cases bp <;> rfl

theorem service_appends {sv : J5V.Compile.Service} (hs : serviceOk j5Env true sv = true) :
    Appends j5Env rootScope [] 3 (elemBcl (.service sv)) (elemMsg j5Env (.service sv)) := by
  obtain ⟨name, basePath, methods, sopt⟩ := sv
  simp only [serviceOk, Bool.and_eq_true] at hs
  obtain ⟨⟨⟨_, hname⟩, hbp⟩, hms⟩ := hs
  cases name with
  | none => simp at hname
  | some n =>
    have hn : isIdent n = true := by simpa using hname
    have hne : (n != []) = true := by
      cases n with
      | nil => cases hn
      | cons c cs => rfl
    rw [elemMsg_service_eq, serviceMsg_eq]
    simp only [Option.getD_some, hne, if_true]
    refine memberDecl_appends' (kw := b!"service") (by decide)
      (findBlock_alias' (show aliasLookup b!"service" specSourceFile.aliases = some [b!"elements", b!"service"]
        by decide +kernel))
      pi_SourceFile_elements pi_RootElement_service specOf_RootElement specOf_Service fresh_RootElement rfl rfl rfl
      (show specService.name = some ⟨wName, none, none, true, false⟩ by decide +kernel)
      (show specService.typeSelect = none by decide +kernel)
      (show aliasLookup wName specService.aliases = none by decide +kernel) pi_Service_name
      (tD := [false, false, false, false, false]) (vsD := [.absent, .absent, .absent, .absent, .absent])
      rfl rfl rfl hn ?_
    intro d
    have hb := serviceBody_exact d true (pStr n) basePath methods
      (fun p hp => by subst hp; exact hbp) hms
    have he : serviceBody true ⟨some n, basePath, methods, sopt⟩ = basePathBcl basePath ++ methods.map methodBcl := by
      cases basePath <;> rfl
    rw [he]
    exact hb

end J5V.Walker
