import J5V.Walker.PP.J5Tables
import J5V.Walker.PP.Strings
/-!
# Print/parse, first slice: tables of the scalar field kinds

`fieldOk1` (the field kinds of the first slice), the member of `j5.schema.v1.Field` a field kind selects
(`kindIdx`, `kindSchema`, `kindSpec` with `kind_pi`, `kind_spec`), `propInfo` facts of the type schemas.
-/
namespace J5V.Walker
open J5V.Bcl

/-! ## The sub-fragment -/

/-- the scalar field kinds without rules and without list rules (first slice) -/
def fieldOk1 : CField → Bool
  | .string rules l => rules.isEmpty && !l
  | .bool rules l => rules.isEmpty && !l
  | .bytes rules => rules.isEmpty
  | .date rules l => rules.isEmpty && !l
  | .decimal rules l => rules.isEmpty && !l
  | .timestamp rules => rules.isEmpty
  | .any => true
  | .integer _ rules l => rules.isEmpty && !l
  | .float _ rules l => rules.isEmpty && !l
  | .key fmt ek rules l =>
    rules.isEmpty && !l && keyFmtOk fmt &&
      (match ek with
       | .nokey => true
       | .ek .plain none => true
       | _ => false)
  | _ => false

/-! ## Tables: the member of the oneof `j5.schema.v1.Field` -/

def kindIdx : CField → Nat
  | .any => 0
  | .oneofRef .. => 1 | .oneofInl .. => 1
  | .objectRef .. => 2 | .objectInl .. => 2
  | .enumRef .. => 3 | .enumInl .. => 3
  | .array .. => 4 | .map .. => 5
  | .string .. => 6 | .integer .. => 7 | .float .. => 8 | .bool .. => 9 | .bytes .. => 10
  | .decimal .. => 11 | .date .. => 12 | .timestamp .. => 13 | .key .. => 14

def kindSchema : CField → Schema
  | .string .. => sStringField | .bool .. => sBoolField | .bytes .. => sBytesField
  | .date .. => sDateField | .decimal .. => sDecimalField | .timestamp .. => sTimestampField
  | .integer .. => sIntegerField | .float .. => sFloatField | .key .. => sKeyField
  | .any => sAnyField
  | .objectRef .. => sObjectField | .objectInl .. => sObjectField
  | .oneofRef .. => sOneofField | .oneofInl .. => sOneofField
  | .enumRef .. => sEnumField | .enumInl .. => sEnumField
  | .array .. => sArrayField | .map .. => sMapField

def kindSpec : CField → BlockSpec
  | .string .. => specStringField | .bool .. => specBoolField | .bytes .. => specBytesField
  | .date .. => specDateField | .decimal .. => specDecimalField | .timestamp .. => specTimestampField
  | .integer .. => specIntegerField | .float .. => specFloatField | .key .. => specKeyField
  | .any => specAnyField
  | .objectRef .. => specObjectField | .objectInl .. => specObjectField
  | .oneofRef .. => specOneofField | .oneofInl .. => specOneofField
  | .enumRef .. => specEnumField | .enumInl .. => specEnumField
  | .array .. => specArrayField | .map .. => specMapField

/-- the proto oneof of `j5.schema.v1.Field` -/
def gField : Str × List Nat := (b!"j5.schema.v1.Field.type", [])

theorem kind_pi {f : CField} (h : fieldOk1 f = true) :
    propInfo j5Env sField (fieldKind f) = some (kindIdx f, some gField, .container (kindSchema f)) := by
  rw [j5Env_nf]
  cases f <;> first | (cases h; done) | (dsimp only [fieldKind, kindIdx, kindSchema]; decide +kernel)

theorem kind_spec {f : CField} (h : fieldOk1 f = true) (c : Addr) :
    specOf j5Env ⟨c, .msg (kindSchema f)⟩ = .ok (kindSpec f) := by
  apply specOf_of_nil
  cases f <;> first
    | (cases h; done)
    | exact specOf_StringField0 | exact specOf_BoolField0 | exact specOf_BytesField0
    | exact specOf_DateField0 | exact specOf_DecimalField0 | exact specOf_TimestampField0
    | exact specOf_AnyField0 | exact specOf_IntegerField0 | exact specOf_FloatField0
    | exact specOf_KeyField0

theorem kind_lt (f : CField) : kindIdx f < 15 := by cases f <;> (dsimp only [kindIdx]; decide)

theorem kind_ascii (f : CField) : isAscii (fieldKind f) = true := by
  cases f <;> (dsimp only [fieldKind, wObject, wOneof, wEnum]; decide)

theorem kindSpec_name {f : CField} : (kindSpec f).name = none := by
  cases f <;> (dsimp only [kindSpec]; decide +kernel)
theorem kindSpec_typeSelect {f : CField} : (kindSpec f).typeSelect = none := by
  cases f <;> (dsimp only [kindSpec]; decide +kernel)

/-! ## Table facts of the type schemas -/

theorem pi_IntegerField_format : propInfo j5Env sIntegerField b!"format" =
    some (0, none, .scalar (.enum b!"j5.schema.v1.IntegerField_Format") false) := by
  rw [j5Env_nf]; decide +kernel
theorem pi_FloatField_format : propInfo j5Env sFloatField b!"format" =
    some (0, none, .scalar (.enum b!"j5.schema.v1.FloatField_Format") false) := by
  rw [j5Env_nf]; decide +kernel
theorem pi_KeyField_format : propInfo j5Env sKeyField b!"format" = some (1, none, .container sKeyFormat) := by
  rw [j5Env_nf]; decide +kernel

/-- the proto oneof of `j5.schema.v1.KeyFormat` -/
def gKeyFormat : Str × List Nat := (b!"j5.schema.v1.KeyFormat.type", [])

theorem pi_KeyFormat_informal : propInfo j5Env sKeyFormat b!"informal" =
    some (0, some gKeyFormat, .container sKeyFormatInformal) := by rw [j5Env_nf]; decide +kernel
theorem pi_KeyFormat_custom : propInfo j5Env sKeyFormat b!"custom" =
    some (1, some gKeyFormat, .container sKeyFormatCustom) := by rw [j5Env_nf]; decide +kernel
theorem pi_KeyFormat_uuid : propInfo j5Env sKeyFormat b!"uuid" =
    some (2, some gKeyFormat, .container sKeyFormatUUID) := by rw [j5Env_nf]; decide +kernel
theorem pi_KeyFormat_id62 : propInfo j5Env sKeyFormat b!"id62" =
    some (3, some gKeyFormat, .container sKeyFormatID62) := by rw [j5Env_nf]; decide +kernel
theorem pi_KeyFormatCustom_pattern : propInfo j5Env sKeyFormatCustom b!"pattern" =
    some (0, none, .scalar (.scalar .string) false) := by rw [j5Env_nf]; decide +kernel

end J5V.Walker
