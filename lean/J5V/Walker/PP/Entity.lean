import J5V.Walker.PP.EntityParts
/-!
# Print/parse: `entity NAME { baseUrlPath keys data statuses events commands summaries query nested }`,
and the theorem for the whole covered fragment

`entity_appends`: the entity block appends `<entity={…}>` to `elements`; the body is nine runs, one per slot of
the `Entity` message (`entityNode`), in the order `entityBcl` prints them. `C07W_print_parse`.
-/
namespace J5V.Walker
open J5V.Bcl

/-- statements that append to the untouched array slot `i`: the slot becomes the list of their messages -/
theorem fold_step {sc : Scope} {c : Addr} {i : Nat} {sts : List Statement} {ms : List Node} {t : List Bool}
    {vs : List Node} {X' : Node} (h : AppendsAll j5Env sc c i sts ms) (ht : t[i]? = some false)
    (hv : vs[i]? = some .absent) (hX : X' = .msg (t.set i (!ms.isEmpty)) (vs.set i (listSlot ms))) :
    Exact (doBody j5Env sc sts) c (.msg t vs) () X' := by
  have h' := appends_fold h [] t vs ht hv
  rw [List.nil_append] at h'
  rw [hX]
  exact h'

/-- the body of an entity block at `d`, after the name -/
theorem entityBody_exact (d : Addr) (nm : Node) {e : J5V.Compile.Entity} (he : entityOk j5Env e = true) :
    Exact (doBody j5Env (entityScope d)
      ((if e.baseUrl = [] then [] else [assignStmt [b!"baseUrlPath"] (strValue e.baseUrl)]) ++
        e.keys.map keyBcl ++ propsBcl b!"data" e.data ++ e.statuses.map statusBcl ++
        e.events.map (objectBcl b!"event" wField) ++ e.commands.map commandBcl ++ e.summaries.map summaryBcl ++
        (match e.query with | none => [] | some q => [queryBcl q]) ++ nestedBcl e.nested)) d
      (entityNode nm [] none [] [] [] [] [] [] []) ()
      (entityNode nm e.baseUrl (e.query.map (queryMsg j5Env))
        (e.statuses.map (enumOptionMsg j5Env)) (e.keys.map (keyMsg j5Env)) (propsMsg j5Env e.data)
        (e.events.map (objectMsg j5Env false)) (nestedMsg j5Env e.nested) (e.commands.map (serviceMsg j5Env))
        (e.summaries.map (summaryMsg j5Env))) := by
  obtain ⟨name, baseUrl, keys, data, statuses, events, commands, summaries, query, nested⟩ := e
  simp only [entityOk, Bool.and_eq_true] at he
  obtain ⟨⟨⟨⟨⟨⟨⟨⟨⟨_, hbu⟩, hkeys⟩, hdata⟩, hst⟩, hev⟩, hcmd⟩, hsum⟩, hq⟩, hnested⟩ := he
  dsimp only
  generalize hks : keys.map (keyMsg j5Env) = ks
  generalize hds : propsMsg j5Env data = ds
  generalize hsts : statuses.map (enumOptionMsg j5Env) = sts
  generalize hevs : events.map (objectMsg j5Env false) = evs
  generalize hcs : commands.map (serviceMsg j5Env) = cs
  generalize hsms : summaries.map (summaryMsg j5Env) = sms
  generalize hns : nestedMsg j5Env nested = ns
  -- 1. `baseUrlPath = "…"`
  have h1 : Exact (doBody j5Env (entityScope d)
      (if baseUrl = [] then [] else [assignStmt [b!"baseUrlPath"] (strValue baseUrl)])) d
      (entityNode nm [] none [] [] [] [] [] [] []) () (entityNode nm baseUrl none [] [] [] [] [] [] []) := by
    by_cases hp : baseUrl = []
    · subst hp; exact doBody_nil _ _ _
    · rw [if_neg hp]
      have hne : (baseUrl != []) = true := by simpa using hp
      refine doBody_cons (doStatement_assign ?_) (doBody_nil _ _ _)
      refine (setAttr_direct (n := b!"baseUrlPath") (pos := some Span.zero)
        (t := [true, false, false, false, false, false, false, false, false, false, false])
        (vs := [nm, .absent, .absent, .absent, .absent, .absent, .absent, .absent, .absent, .absent, .absent])
        (cur := .absent) (v := .str baseUrl) (combinePath_ident (by decide) [])
        (findBlock_prop' (show aliasLookup b!"baseUrlPath" specEntity.aliases = none by decide +kernel)
          (propInfo_hasProperty pi_Entity_baseUrlPath))
        pi_Entity_baseUrlPath rfl rfl (.inl rfl) (asArray_strValue _)
        (by simp only [scalarFromAST, asString_strValue (isAscii_of_okString hbu)]; rfl)).conv ?_
      rw [storeNode_str]
      unfold entityNode
      rw [hne]
      rfl
  -- 2. keys
  have h2 : Exact (doBody j5Env (entityScope d) (keys.map keyBcl)) d
      (entityNode nm baseUrl none [] [] [] [] [] [] []) () (entityNode nm baseUrl none [] ks [] [] [] [] []) := by
    rw [← hks]
    exact fold_step (appendsAll_map _ _ _ (fun k hk => key_appends d (List.all_eq_true.mp hkeys k hk))) rfl rfl rfl
  -- 3. data
  have h3 : Exact (doBody j5Env (entityScope d) (propsBcl b!"data" data)) d
      (entityNode nm baseUrl none [] ks [] [] [] [] []) () (entityNode nm baseUrl none [] ks ds [] [] [] []) := by
    rw [← hds]
    exact fold_step (props_appendsAll2 (kw := b!"data") (by decide)
      (findBlock_alias' (show aliasLookup b!"data" specEntity.aliases = some [b!"data"] by decide +kernel))
      pi_Entity_data data (propsHas_all hdata)) rfl rfl rfl
  -- 4. statuses
  have h4 : Exact (doBody j5Env (entityScope d) (statuses.map statusBcl)) d
      (entityNode nm baseUrl none [] ks ds [] [] [] []) () (entityNode nm baseUrl none sts ks ds [] [] [] []) := by
    rw [← hsts]
    exact fold_step (appendsAll_map _ _ _ (fun s hs => status_appends d (List.all_eq_true.mp hst s hs))) rfl rfl rfl
  -- 5. events
  have h5 : Exact (doBody j5Env (entityScope d) (events.map (objectBcl b!"event" wField))) d
      (entityNode nm baseUrl none sts ks ds [] [] [] []) () (entityNode nm baseUrl none sts ks ds evs [] [] []) := by
    rw [← hevs]
    exact fold_step (appendsAll_map _ _ _ (fun o ho => event_appends d (List.all_eq_true.mp hev o ho))) rfl rfl rfl
  -- 6. commands
  have h6 : Exact (doBody j5Env (entityScope d) (commands.map commandBcl)) d
      (entityNode nm baseUrl none sts ks ds evs [] [] []) () (entityNode nm baseUrl none sts ks ds evs [] cs []) := by
    rw [← hcs]
    exact fold_step (appendsAll_map _ _ _ (fun s hs => command_appends d (List.all_eq_true.mp hcmd s hs))) rfl rfl rfl
  -- 7. summaries
  have h7 : Exact (doBody j5Env (entityScope d) (summaries.map summaryBcl)) d
      (entityNode nm baseUrl none sts ks ds evs [] cs []) () (entityNode nm baseUrl none sts ks ds evs [] cs sms) := by
    rw [← hsms]
    refine fold_step (i := 10) (appendsAll_map summaryBcl (summaryMsg j5Env) summaries (fun s hs => ?_)) rfl rfl rfl
    have h := List.all_eq_true.mp hsum s hs
    simp only [Bool.and_eq_true] at h
    exact summary_appends d h.1 h.2
  -- 8. query
  have h8 : Exact (doBody j5Env (entityScope d)
      (match (generalizing := false) query with | none => [] | some q => [queryBcl q])) d
      (entityNode nm baseUrl none sts ks ds evs [] cs sms) ()
      (entityNode nm baseUrl (query.map (queryMsg j5Env)) sts ks ds evs [] cs sms) := by
    cases query with
    | none => exact doBody_nil _ _ _
    | some q => exact doBody_cons (query_exact d hq rfl rfl) (doBody_nil _ _ _)
  -- 9. nested schemas
  have h9 : Exact (doBody j5Env (entityScope d) (nestedBcl nested)) d
      (entityNode nm baseUrl (query.map (queryMsg j5Env)) sts ks ds evs [] cs sms) ()
      (entityNode nm baseUrl (query.map (queryMsg j5Env)) sts ks ds evs ns cs sms) := by
    rw [← hns]
    exact fold_step (nestedE nested hnested d) rfl rfl rfl
  exact doBody_append (doBody_append (doBody_append (doBody_append (doBody_append (doBody_append (doBody_append
    (doBody_append h1 h2) h3) h4) h5) h6) h7) h8) h9

theorem entity_appends {e : J5V.Compile.Entity} (he : entityOk j5Env e = true) :
    Appends j5Env rootScope [] 3 (elemBcl (.entity e)) (elemMsg j5Env (.entity e)) := by
  have hname : isIdent e.name = true := by
    simp only [entityOk, Bool.and_eq_true] at he
    exact he.1.1.1.1.1.1.1.1.1
  rw [elemMsg_entity_eq, entityMsg_eq]
  exact memberDecl_appends (kw := b!"entity") (by decide)
    (findBlock_alias' (show aliasLookup b!"entity" specSourceFile.aliases = some [b!"elements", b!"entity"]
      by decide +kernel))
    pi_SourceFile_elements pi_RootElement_entity specOf_RootElement specOf_Entity fresh_RootElement rfl rfl rfl
    (show specEntity.name = some ⟨wName, none, none, false, false⟩ by decide +kernel)
    (show specEntity.typeSelect = none by decide +kernel)
    (show aliasLookup wName specEntity.aliases = none by decide +kernel) pi_Entity_name
    (tD := [false, false, false, false, false, false, false, false, false, false, false])
    (vsD := [.absent, .absent, .absent, .absent, .absent, .absent, .absent, .absent, .absent, .absent, .absent])
    rfl rfl rfl hname (fun d => entityBody_exact d (sStr e.name) he)

/-- every element of the covered fragment appends its message to `elements` -/
theorem elem_appends_all {e : J5V.Compile.Elem} (hok : elemOk j5Env e = true) :
    Appends j5Env rootScope [] 3 (elemBcl e) (elemMsg j5Env e) := by
  cases e with
  | entity en => exact entity_appends hok
  | object o => exact elem_appends hok rfl
  | oneof o => exact elem_appends hok rfl
  | enum en => exact elem_appends hok rfl
  | service sv => exact elem_appends hok rfl
  | topic t => exact elem_appends hok rfl

/-- **print/parse (C07W)**: for every source file of the covered fragment, the walker run on the printed BCL
tree, from the file stub, yields exactly the message of the AST -/
theorem C07W_print_parse (filename : Str) (ast : J5V.Compile.SrcFile) (h : supported ast = true) :
    walkSchema j5Env (toBcl ast) (stub j5Env filename) = .ok (toMsg filename ast) := by
  cases ast with
  | proto _ _ _ => cases h
  | j5s path imports elems decl =>
    simp only [supported, supportedEnv, Bool.and_eq_true, List.all_eq_true] at h
    obtain ⟨⟨hdecl, himports⟩, helems⟩ := h
    refine print_parse_of filename path decl imports elems hdecl himports ?_
    exact appendsAll_map _ _ _ (fun e he => elem_appends_all (helems e he))

end J5V.Walker
