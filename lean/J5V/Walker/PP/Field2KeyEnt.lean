import J5V.Walker.PP.Field2Scalars
import J5V.Walker.PP.Split
import J5V.Walker.PP.Lens
import J5V.Walker.PP.Refs
/-!
# Print/parse: the entity-key options of a `key` field

`entity.primaryKey = true|false`, `foreign = "pkg.entity"` (alias `foreign → entity.foreignKey`, scalar
split of `j5.schema.v1.EntityRef`), `entity.tenantKey = "…"` — `entKey_exact`: the lines `entKeyBcl pfx false ek`
fill the `entity` slot of the `KeyField` message with `entKeyNode ek`.
-/
namespace J5V.Walker
open J5V.Bcl

/-! ## Tables -/

def sEntityKeyMsg : Schema := j5_schema_lit% "j5.schema.v1.EntityKey"
def specEntityKeyMsg : BlockSpec := j5_spec_lit% "j5.schema.v1.EntityKey"
def sEntityRef : Schema := j5_schema_lit% "j5.schema.v1.EntityRef"
def specEntityRef : BlockSpec := j5_spec_lit% "j5.schema.v1.EntityRef"
theorem schemaOf_EntityKeyMsg : j5Env.schemaOf nEntityKey = sEntityKeyMsg := by rw [j5Env_nf]; decide +kernel
theorem schemaOf_EntityRef : j5Env.schemaOf nEntityRef = sEntityRef := by rw [j5Env_nf]; decide +kernel
theorem specOf_EntityKeyMsg (c : Addr) : specOf j5Env ⟨c, .msg sEntityKeyMsg⟩ = .ok specEntityKeyMsg := by
  apply specOf_of_nil; rw [j5Env_nf]; decide +kernel
theorem specOf_EntityRef (c : Addr) : specOf j5Env ⟨c, .msg sEntityRef⟩ = .ok specEntityRef := by
  apply specOf_of_nil; rw [j5Env_nf]; decide +kernel

/-- the proto oneof of `j5.schema.v1.EntityKey` -/
def gEntityKeyType : Str × List Nat := (b!"j5.schema.v1.EntityKey.type", [])

theorem pi_KeyField_entity : propInfo j5Env sKeyField b!"entity" = some (4, none, .container sEntityKeyMsg) := by
  rw [j5Env_nf]; decide +kernel
theorem pi_EntityKeyMsg_primaryKey : propInfo j5Env sEntityKeyMsg b!"primaryKey" =
    some (0, some gEntityKeyType, .scalar (.scalar .bool) true) := by rw [j5Env_nf]; decide +kernel
theorem pi_EntityKeyMsg_foreignKey : propInfo j5Env sEntityKeyMsg b!"foreignKey" =
    some (1, some gEntityKeyType, .container sEntityRef) := by rw [j5Env_nf]; decide +kernel
theorem pi_EntityKeyMsg_tenantKey : propInfo j5Env sEntityKeyMsg b!"tenantKey" =
    some (2, none, .scalar (.scalar .string) true) := by rw [j5Env_nf]; decide +kernel
theorem pi_EntityRef_package : propInfo j5Env sEntityRef b!"package" =
    some (0, none, .scalar (.scalar .string) false) := by rw [j5Env_nf]; decide +kernel
theorem pi_EntityRef_entity : propInfo j5Env sEntityRef b!"entity" =
    some (1, none, .scalar (.scalar .string) false) := by rw [j5Env_nf]; decide +kernel

/-! ## `Scope.Field` through an alias of two steps -/

/-- `Scope.Field(n)` when `n` is an alias `[c1, final]`: the container `c1` is entered, `final` is its property -/
theorem scopeField_alias2 {env : Env} {ps : Scope} {n c1 final : Str} {s : Schema} {spec : BlockSpec} {c : Addr}
    {existingIsOk : Bool} {a : Addr} {X X1 X2 : Node} {i1 : Nat} {s1 : Schema} {spec1 : BlockSpec} {fld : Field}
    (hfb : findBlock n ps.blockSet = some (cfOf s spec c, [c1, final]))
    (hwp : Exact (walkPath env (cfOf s spec c) [c1]) a X [cf0 s1 (c ++ [i1])] X1)
    (hspec1 : specOf env ⟨c ++ [i1], .msg s1⟩ = .ok spec1)
    (hhas : s1.hasProperty final = true)
    (hval : Exact (propSetValue env (c ++ [i1]) s1 final (!existingIsOk)) a X1 fld X2) :
    Exact (scopeField env ps n existingIsOk) a X fld X2 := by
  unfold scopeField
  rw [hfb]
  dsimp only
  rw [if_neg (by simp)]
  have hl : ([c1, final] : List Str).getLast? = some final := rfl
  have hd : ([c1, final] : List Str).dropLast = [c1] := rfl
  rw [hl, hd]
  dsimp only
  unfold walkToChild
  rw [if_neg (by simp)]
  refine Exact.bind (Exact.bind hwp (Exact.bind (Exact.liftRes (setSpecs_cons hspec1 (setSpecs_nil _)))
    (Exact.pure _ _ _))) ?_
  have : (cfOf s1 spec1 (c ++ [i1])).container.hasProperty final = true := hhas
  refine Exact.ite_neg (by simp [this]) ?_
  exact hval.mapErr _

/-! ## The scalar split of `EntityRef` -/

theorem no_dot_of_hasDot {s : Str} (h : hasDot s = false) : ∀ b ∈ s, b ≠ 46 := by
  intro b hb e
  subst e
  simp [hasDot, List.contains_eq_mem, hb] at h

/-- `"pkg.entity"` set into a fresh `EntityRef` -/
theorem entRefSplit_exact {pkg ent : Str} (hp : okString pkg = true) (he : okString ent = true)
    (hnd : hasDot ent = false) (fuel : Nat) (r : Addr) :
    Exact (setContainerFromScalar j5Env (fuel + 1 + 1) (Scope.newChild (cfOf sEntityRef specEntityRef r))
      specEntityRef (.value (strValue (pkg ++ [46] ++ ent)))) r (.msg [false, false] [.absent, .absent]) ()
      (.msg [true, true] [sStr pkg, sStr ent]) := by
  have hfbE : findBlock b!"entity" (Scope.newChild (cfOf sEntityRef specEntityRef r)).blockSet =
      some (cfOf sEntityRef specEntityRef r, [b!"entity"]) :=
    findBlock_prop' (show aliasLookup b!"entity" specEntityRef.aliases = none from rfl)
      (propInfo_hasProperty pi_EntityRef_entity)
  have hfbP : findBlock b!"package" (Scope.newChild (cfOf sEntityRef specEntityRef r)).blockSet =
      some (cfOf sEntityRef specEntityRef r, [b!"package"]) :=
    findBlock_prop' (show aliasLookup b!"package" specEntityRef.aliases = none from rfl)
      (propInfo_hasProperty pi_EntityRef_package)
  have hascii : isAscii (pkg ++ [46] ++ ent) = true := by
    rw [isAscii_append, isAscii_append, isAscii_of_okString hp, isAscii_of_okString he]; rfl
  have hsplit : stringsSplit (pkg ++ [46] ++ ent) [46] = J5V.Compile.splitOnByte 46 pkg ++ [ent] := by
    rw [stringsSplit_byte, List.append_assoc, List.singleton_append, splitOnByte_append_sep,
      splitOnByte_no_sep (no_dot_of_hasDot hnd)]
  refine setContainerFromScalar_split1 (delim := [46]) (req := [b!"entity"]) (rem := [b!"package"])
    (parts := J5V.Compile.splitOnByte 46 pkg) (lastPart := ent)
    (X1 := .msg [false, true] [.absent, sStr ent])
    (show specEntityRef.scalarSplit = _ by decide +kernel) (asString_strValue hascii) hsplit ?_ ?_
  · refine (setAttr_direct' (n := b!"entity") (pos := none) (cur := .absent) (v := .str ent) rfl hfbE
      pi_EntityRef_entity rfl rfl (.inl rfl) rfl rfl).conv ?_
    rw [storeNode_str]; rfl
  · rw [if_neg (splitOnByte_ne_nil 46 pkg)]
    intro sp
    rw [stringsJoin_split]
    refine (setAttr_direct' (n := b!"package") (pos := none) (cur := .absent) (v := .str pkg) rfl hfbP
      pi_EntityRef_package rfl rfl (.inl rfl) rfl rfl).conv ?_
    rw [storeNode_str]; rfl

/-! ## The lines -/

/-- the `entity` message of a key field -/
def entKeyNode : J5V.Compile.EntKey → Option Node
  | .nokey => none
  | .ek .plain none => none
  | .ek kind tenant =>
    some (.msg
      [match kind with | .primary _ => true | _ => false, match kind with | .foreign _ _ => true | _ => false,
        tenant.isSome]
      [match kind with | .primary b => pBool b | _ => .absent,
        match kind with | .foreign pkg ent => .msg [true, true] [sStr pkg, sStr ent] | _ => .absent,
        match tenant with | some t => pStr t | none => .absent])

section
variable {sc : Scope} {pfx : List Str} {a b : Addr} {C : Option Node → Node} {P : Str → Prop}

/-- `pfx.foreign = "pkg.entity"`: the alias `foreign → entity.foreignKey`, then the split of `EntityRef` -/
theorem foreignLine_exact (hr : BodyReach sc pfx sKeyField specKeyField a b C P) (hn : P b!"foreign")
    {tK : List Bool} {vsK : List Node} (ht : tK[4]? = some false) (hv : vsK[4]? = some .absent)
    {pkg ent : Str} (hp : okString pkg = true) (he : okString ent = true) (hnd : hasDot ent = false) :
    Exact (doStatement j5Env sc (assignStmt (pfx ++ [b!"foreign"]) (strValue (pkg ++ [46] ++ ent)))) a
      (C (some (.msg tK vsK))) ()
      (C (some (.msg (tK.set 4 true) (vsK.set 4
        (.msg [false, true, false] [.absent, .msg [true, true] [sStr pkg, sStr ent], .absent]))))) := by
  obtain ⟨sc', hwalk, hfind⟩ := hr.walk
  have hlt : 4 < vsK.length := (List.getElem?_eq_some_iff.mp hv).1
  have hltt : 4 < tK.length := (List.getElem?_eq_some_iff.mp ht).1
  have hLC : Lens (fun Y => C (some Y)) b := ⟨hr.get, hr.set⟩
  have hL4 : Lens (fun Y => C (some (.msg (tK.set 4 true) (vsK.set 4 Y)))) (b ++ [4]) :=
    Lens.comp hLC (Lens.slot (tK.set 4 true) vsK hlt)
  have hfb : findBlock b!"foreign" sc'.blockSet =
      some (cfOf sKeyField specKeyField (a ++ b), [b!"entity", b!"foreignKey"]) := by
    rw [hfind _ hn]
    exact findBlock_alias' (show aliasLookup b!"foreign" specKeyField.aliases = _ by decide +kernel)
  have hw := hwalk (some (.msg tK vsK))
  -- `Scope.Field`: the entity container is built, then the foreign-key container
  have hwp1 : Exact (walkPath j5Env (cfOf sKeyField specKeyField (a ++ b)) [b!"entity"]) a (C (some (.msg tK vsK)))
      [cf0 sEntityKeyMsg (a ++ b ++ [4])]
      (C (some (.msg (tK.set 4 true) (vsK.set 4 (freshMsg sEntityKeyMsg))))) :=
    walkPath_container (propInfo_hasProperty pi_KeyField_entity)
      (Exact.lens hLC (propSetValue_build (c := a ++ b) (cur := .absent) false pi_KeyField_entity ht hv (.inl rfl)))
      (walkRest_nil _ _ _)
  have haddr4 : a ++ b ++ [4] = a ++ (b ++ [4]) := List.append_assoc _ _ _
  have hval : Exact (propSetValue j5Env (a ++ b ++ [4]) sEntityKeyMsg b!"foreignKey" (!false)) a
      (C (some (.msg (tK.set 4 true) (vsK.set 4 (freshMsg sEntityKeyMsg)))))
      ⟨a ++ b ++ [4] ++ [1], .container sEntityRef⟩
      (C (some (.msg (tK.set 4 true) (vsK.set 4
        (.msg [false, true, false] [.absent, freshMsg sEntityRef, .absent]))))) := by
    have h := propSetValue_build (c := a ++ (b ++ [4])) (t := [false, false, false])
      (vs := [.absent, .absent, .absent]) (cur := .absent) true pi_EntityKeyMsg_foreignKey rfl rfl (.inr rfl)
    rw [haddr4]
    exact Exact.lens hL4 h
  have hsf := scopeField_alias2 (existingIsOk := false) hfb hwp1 (specOf_EntityKeyMsg _)
    (propInfo_hasProperty pi_EntityKeyMsg_foreignKey) hval
  -- the second walk: both cached
  have hwp2 : Exact (walkPath j5Env (cfOf sKeyField specKeyField (a ++ b)) [b!"entity", b!"foreignKey"]) a
      (C (some (.msg (tK.set 4 true) (vsK.set 4 (.msg [false, true, false] [.absent, freshMsg sEntityRef, .absent])))))
      ([cf0 sEntityRef (a ++ b ++ [4] ++ [1])] ++ [cf0 sEntityKeyMsg (a ++ b ++ [4])])
      (C (some (.msg (tK.set 4 true) (vsK.set 4 (.msg [false, true, false] [.absent, freshMsg sEntityRef, .absent]))))) := by
    refine walkPath_container (propInfo_hasProperty pi_KeyField_entity)
      (Exact.lens hLC (propSetValue_cached (c := a ++ b) pi_KeyField_entity
        (show (tK.set 4 true)[4]? = some true by rw [List.getElem?_set_self hltt])))
      (walkRest_cons ?_)
    refine walkPath_container (spec := BlockSpec.empty) (propInfo_hasProperty pi_EntityKeyMsg_foreignKey) ?_
      (walkRest_nil _ _ _)
    have h := propSetValue_cached (c := a ++ (b ++ [4])) (t := [false, true, false])
      (vs := [.absent, freshMsg sEntityRef, .absent]) pi_EntityKeyMsg_foreignKey rfl
    rw [haddr4]
    exact Exact.lens hL4 h
  have hcb := childBlock_of_walkPath hfb hwp2
    (setSpecs_cons (specOf_EntityRef _) (setSpecs_cons (specOf_EntityKeyMsg _) (setSpecs_nil _)))
  -- the split, inside the `EntityRef`
  have hLR : Lens (fun Y => C (some (.msg (tK.set 4 true) (vsK.set 4
      (.msg [false, true, false] ([Node.absent, .absent, .absent].set 1 Y)))))) (b ++ [4] ++ [1]) :=
    Lens.comp hL4 (Lens.slot [false, true, false] [.absent, .absent, .absent] (by decide))
  have haddrR : a ++ b ++ [4] ++ [1] = a ++ (b ++ [4] ++ [1]) := by simp
  have hset := Exact.lens hLR
    (entRefSplit_exact hp he hnd (2 * j5Env.given.length + j5Env.schemas.length + 5) (a ++ (b ++ [4] ++ [1])))
  rw [← haddrR] at hset
  refine doStatement_assign ?_
  rw [fuelOf_succ3]
  exact setAttribute_container (last := pathElem b!"foreign")
    (combinePath_refOf_concat hr.ascii (by decide)) hw hsf hcb hset

/-- the entity-key lines of a key field (written through `pfx`, not as a directly typed entity key) -/
theorem entKey_exact (hr : BodyReach sc pfx sKeyField specKeyField a b C P) (hnE : P b!"entity")
    (hnF : P b!"foreign") {tK : List Bool} {vsK : List Node} (ht : tK[4]? = some false)
    (hv : vsK[4]? = some .absent) {ek : J5V.Compile.EntKey} (hok : entKeyOk ek = true) :
    Exact (doBody j5Env sc (entKeyBcl pfx false ek)) a (C (some (.msg tK vsK))) ()
      (C (some (.msg (tK.set 4 (entKeyNode ek).isSome) (vsK.set 4 ((entKeyNode ek).getD .absent))))) := by
  have hfbE : findBlock b!"entity" [cfOf sKeyField specKeyField (a ++ b)] =
      some (cfOf sKeyField specKeyField (a ++ b), [b!"entity"]) :=
    findBlock_prop' (show aliasLookup b!"entity" specKeyField.aliases = none by decide +kernel)
      (propInfo_hasProperty pi_KeyField_entity)
  have hrE := hr.child (some (.msg tK vsK)) rfl hnE (by decide) hfbE pi_KeyField_entity specOf_EntityKeyMsg ht hv
    (fun g hg => by cases hg)
  have hfbP : findBlock b!"primaryKey" [cfOf sEntityKeyMsg specEntityKeyMsg (a ++ (b ++ [4]))] =
      some (cfOf sEntityKeyMsg specEntityKeyMsg (a ++ (b ++ [4])), [b!"primaryKey"]) :=
    findBlock_prop' (show aliasLookup b!"primaryKey" specEntityKeyMsg.aliases = none from rfl)
      (propInfo_hasProperty pi_EntityKeyMsg_primaryKey)
  have hfbT : findBlock b!"tenantKey" [cfOf sEntityKeyMsg specEntityKeyMsg (a ++ (b ++ [4]))] =
      some (cfOf sEntityKeyMsg specEntityKeyMsg (a ++ (b ++ [4])), [b!"tenantKey"]) :=
    findBlock_prop' (show aliasLookup b!"tenantKey" specEntityKeyMsg.aliases = none from rfl)
      (propInfo_hasProperty pi_EntityKeyMsg_tenantKey)
  have hkeyP : pfx ++ [b!"entity"] ++ [b!"primaryKey"] = pfx ++ [b!"entity", b!"primaryKey"] := by simp
  have hkeyT : pfx ++ [b!"entity"] ++ [b!"tenantKey"] = pfx ++ [b!"entity", b!"tenantKey"] := by simp
  -- the tenant line, from any state of the entity message
  have htenant : ∀ (o : Option Node) (t0 t1 : Bool) (v0 v1 : Node) (tn : Str), okString tn = true →
      o.getD (freshMsg sEntityKeyMsg) = .msg [t0, t1, false] [v0, v1, .absent] →
      Exact (doStatement j5Env sc (assignStmt (pfx ++ [b!"entity", b!"tenantKey"]) (strValue tn))) a
        ((fun o' => C (match o' with
          | none => some (.msg tK vsK)
          | some Y => some (.msg (tK.set 4 true) (vsK.set 4 Y)))) o) ()
        (C (some (.msg (tK.set 4 true) (vsK.set 4 (.msg [t0, t1, true] [v0, v1, pStr tn]))))) := by
    intro o t0 t1 v0 v1 tn htn hM
    have h := hrE.attr o hM (n := b!"tenantKey") trivial (by decide) hfbT pi_EntityKeyMsg_tenantKey
      (cur := .absent) rfl rfl (.inl rfl) (val := strValue tn) (v := .str tn) (asArray_strValue _)
      (by simp only [scalarFromAST, asString_strValue (isAscii_of_okString htn)]; rfl)
    rw [hkeyT] at h
    exact h
  cases ek with
  | nokey =>
    rw [list_set_self (show tK[4]? = some (entKeyNode .nokey).isSome from ht),
      list_set_self (show vsK[4]? = some ((entKeyNode .nokey).getD .absent) from hv)]
    exact doBody_nil _ _ _
  | ek kind tenant =>
    simp only [entKeyOk, Bool.and_eq_true] at hok
    obtain ⟨hkind, hten⟩ := hok
    cases kind with
    | plain =>
      cases tenant with
      | none =>
        rw [list_set_self (show tK[4]? = some (entKeyNode (.ek .plain none)).isSome from ht),
          list_set_self (show vsK[4]? = some ((entKeyNode (.ek .plain none)).getD .absent) from hv)]
        exact doBody_nil _ _ _
      | some tn =>
        exact doBody_cons (htenant none false false .absent .absent tn hten rfl) (doBody_nil _ _ _)
    | primary bb =>
      have h1 := hrE.attr none (t := [false, false, false]) (vs := [.absent, .absent, .absent]) rfl
        (n := b!"primaryKey") trivial (by decide) hfbP pi_EntityKeyMsg_primaryKey (cur := .absent) rfl rfl
        (.inr rfl) (val := boolValue bb) (v := .bool bb) (asArray_boolValue _)
        (by simp only [scalarFromAST, asBool_boolValue]; rfl)
      rw [hkeyP] at h1
      cases tenant with
      | none => exact doBody_cons h1 (doBody_nil _ _ _)
      | some tn =>
        exact doBody_cons h1 (doBody_cons
          (htenant (some (.msg [true, false, false] [pBool bb, .absent, .absent])) true false (pBool bb) .absent tn
            hten rfl) (doBody_nil _ _ _))
    | foreign pkg ent =>
      simp only [Bool.and_eq_true, Bool.not_eq_true'] at hkind
      obtain ⟨⟨hp, he⟩, hnd⟩ := hkind
      have h1 := foreignLine_exact hr hnF ht hv hp he hnd
      cases tenant with
      | none => exact doBody_cons h1 (doBody_nil _ _ _)
      | some tn =>
        exact doBody_cons h1 (doBody_cons
          (htenant (some (.msg [false, true, false] [.absent, .msg [true, true] [sStr pkg, sStr ent], .absent]))
            false true .absent (.msg [true, true] [sStr pkg, sStr ent]) tn hten rfl) (doBody_nil _ _ _))

end

theorem entKeyVals_eq (ek : J5V.Compile.EntKey) :
    entKeyVals j5Env ek = match entKeyNode ek with
      | none => []
      | some N => [(b!"entity", N)] := by
  cases ek with
  | nokey => rfl
  | ek kind tenant =>
    cases kind <;> cases tenant <;> first
      | rfl
      | (simp only [entKeyVals]; rw [mkMsg_of schemaOf_EntityKeyMsg]; rfl)
      | (simp only [entKeyVals]; rw [mkMsg_of schemaOf_EntityKeyMsg, mkMsg_of schemaOf_EntityRef]; rfl)

end J5V.Walker
