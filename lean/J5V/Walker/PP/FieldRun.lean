import J5V.Walker.PP.FieldMsg
import J5V.Walker.PP.GenWalk
/-!
# Print/parse, first slice (c): qualifiers and body of a field, per field kind

`FieldRun f`: in the scope `outer ++ [type block at d]` (the blocks of `outer` know none of the names the
field's lines use: `fieldNames f`), the qualifiers `fieldQuals f` and then the body `fieldBody f [] false`
run exactly inside the type's message at `d`, from the fresh message to `typeMsg f`.
One lemma per field kind: `fieldRun_plain` (no qualifier, no line), `fieldRun_integer`, `fieldRun_float`,
`fieldRun_key`; `fieldRun` collects them.
-/
namespace J5V.Walker
open J5V.Bcl

deriving instance DecidableEq for PathElement

/-- the scope after a type-select / block qualifier: the outer blocks, then the selected block -/
def typeScope (outer : List ContainerField) (tcf : ContainerField) (root : Option ContainerField) : Scope :=
  ⟨outer ++ [tcf], tcf, root⟩

/-- the names a field's qualifiers and body lines look up in the scope -/
def fieldNames : CField → List Str
  | .integer .. => [b!"format"]
  | .float .. => [b!"format"]
  | .key .. => [b!"format"]
  | _ => []

/-- the exact run of qualifiers and body of the field `f` inside its type message -/
def FieldRun (f : CField) : Prop :=
  ∀ (outer : List ContainerField) (root : Option ContainerField) (d : Addr),
    (∀ n ∈ fieldNames f, ∀ o ∈ outer, Misses o n) →
    ∃ (sc2 : Scope) (spec2 : BlockSpec) (Q : Node) (tail : List ContainerField),
      sc2.blockSet = outer ++ tail ∧
      Exact (walkQualifiers j5Env (fieldQuals f)
        (typeScope outer (cfOf (kindSchema f) (kindSpec f) d) root) (kindSpec f)) d
        (freshMsg (kindSchema f)) (sc2, spec2) Q ∧
      Exact (doBody j5Env sc2 (fieldBody f [] false)) d Q () (typeMsg f)

/-- a field kind without qualifier and without body line -/
theorem fieldRun_plain {f : CField} (hq : fieldQuals f = []) (hb : fieldBody f [] false = [])
    (hm : freshMsg (kindSchema f) = typeMsg f) : FieldRun f := by
  intro outer root d _
  refine ⟨typeScope outer (cfOf (kindSchema f) (kindSpec f) d) root, kindSpec f, freshMsg (kindSchema f),
    [cfOf (kindSchema f) (kindSpec f) d], rfl, ?_, ?_⟩
  · rw [hq]; exact walkQualifiers_nil _ _ _ _
  · rw [hb, hm]; exact doBody_nil _ _ _

/-! ## `integer:FMT`, `float:FMT` -/

theorem intFmt_scalar (fmt : J5V.Compile.IntFmt) :
    scalarFromAST j5Env (.enum b!"j5.schema.v1.IntegerField_Format")
      (.tag (tagRef .none (refOf [intFmtWord fmt]))) = .ok (.enum (intFmtNumber fmt)) := by
  rw [j5Env_nf]; cases fmt <;> decide +kernel

theorem floatFmt_scalar (fmt : J5V.Compile.FloatFmt) :
    scalarFromAST j5Env (.enum b!"j5.schema.v1.FloatField_Format")
      (.tag (tagRef .none (refOf [floatFmtWord fmt]))) = .ok (.enum (floatFmtNumber fmt)) := by
  rw [j5Env_nf]; cases fmt <;> decide +kernel

theorem storeNode_intFmt (fmt : J5V.Compile.IntFmt) :
    storeNode false (.enum (intFmtNumber fmt)) = sEnum (intFmtNumber fmt) := by cases fmt <;> rfl

theorem storeNode_floatFmt (fmt : J5V.Compile.FloatFmt) :
    storeNode false (.enum (floatFmtNumber fmt)) = sEnum (floatFmtNumber fmt) := by cases fmt <;> rfl

theorem fieldRun_integer (fmt : J5V.Compile.IntFmt) (l : Bool) : FieldRun (.integer fmt [] l) := by
  intro outer root d hmiss
  refine ⟨typeScope outer (cfOf sIntegerField specIntegerField d) root, specIntegerField,
    typeMsg (.integer fmt [] l), [cfOf sIntegerField specIntegerField d], rfl, ?_, ?_⟩
  · refine walkQualifiers_attr (tagSpec := ⟨b!"format", none, none, false, false⟩)
      (show specIntegerField.qualifier = _ by decide +kernel) rfl (checkBang_none _ _ rfl) ?_
    refine (setAttr_direct (n := b!"format") (pos := none) (t := [false, false, false, false])
      (vs := [.absent, .absent, .absent, .absent]) (cur := .absent) rfl
      ((findBlock_skip_all (hmiss _ (by simp [fieldNames]))).trans
        (findBlock_prop' (show aliasLookup b!"format" specIntegerField.aliases = none by decide +kernel)
          (show sIntegerField.hasProperty b!"format" = true by decide +kernel)))
      pi_IntegerField_format rfl rfl (.inl rfl) (asArray_tag _) (intFmt_scalar fmt)).conv ?_
    rw [storeNode_intFmt]; rfl
  · exact doBody_nil _ _ _

theorem fieldRun_float (fmt : J5V.Compile.FloatFmt) (l : Bool) : FieldRun (.float fmt [] l) := by
  intro outer root d hmiss
  refine ⟨typeScope outer (cfOf sFloatField specFloatField d) root, specFloatField,
    typeMsg (.float fmt [] l), [cfOf sFloatField specFloatField d], rfl, ?_, ?_⟩
  · refine walkQualifiers_attr (tagSpec := ⟨b!"format", none, none, false, false⟩)
      (show specFloatField.qualifier = _ by decide +kernel) rfl (checkBang_none _ _ rfl) ?_
    refine (setAttr_direct (n := b!"format") (pos := none) (t := [false, false, false, false])
      (vs := [.absent, .absent, .absent, .absent]) (cur := .absent) rfl
      ((findBlock_skip_all (hmiss _ (by simp [fieldNames]))).trans
        (findBlock_prop' (show aliasLookup b!"format" specFloatField.aliases = none by decide +kernel)
          (show sFloatField.hasProperty b!"format" = true by decide +kernel)))
      pi_FloatField_format rfl rfl (.inl rfl) (asArray_tag _) (floatFmt_scalar fmt)).conv ?_
    rw [storeNode_floatFmt]; rfl
  · exact doBody_nil _ _ _

/-! ## `key`, `key:informal|uuid|id62|custom` -/

/-- the `KeyField` block at `d` -/
abbrev keyCF (d : Addr) : ContainerField := cfOf sKeyField specKeyField d

/-- the key message after the format qualifier selected member `j` -/
def keyNode (j : Nat) (v : Node) : Node :=
  .msg [false, true, false, false, false] [.absent, oneofMsg 4 j v, .absent, .absent, .absent]

theorem findBlock_format_key {outer : List ContainerField} (hmiss : ∀ o ∈ outer, Misses o b!"format") (d : Addr)
    (rest : List ContainerField) :
    findBlock b!"format" (outer ++ (keyCF d :: rest)) = some (keyCF d, [b!"format"]) :=
  (findBlock_skip_all hmiss).trans
    (findBlock_prop' (show aliasLookup b!"format" specKeyField.aliases = none by decide +kernel)
      (show sKeyField.hasProperty b!"format" = true by decide +kernel))

/-- the block qualifier `:w` of a key field selects member `j` of `KeyField.format` -/
theorem keyFmt_select {w : Str} {j : Nat} {sw : Schema} {specw : BlockSpec}
    (hw : isAscii w = true)
    (hpi : propInfo j5Env sKeyFormat w = some (j, some gKeyFormat, .container sw))
    (hspec : ∀ c, specOf j5Env ⟨c, .msg sw⟩ = .ok specw)
    (ht : (List.replicate 4 false)[j]? = some false) (hv : (List.replicate 4 Node.absent)[j]? = some .absent)
    {outer : List ContainerField} (hmiss : ∀ o ∈ outer, Misses o b!"format") (root : Option ContainerField)
    (d : Addr) :
    Exact (walkQualifiers j5Env [tagRef .none (refOf [w])] (typeScope outer (keyCF d) root) specKeyField) d
      (freshMsg sKeyField)
      ((typeScope outer (keyCF d) root).mergeScope (Scope.newChild (cfOf sw specw (d ++ [1, j]))), specw)
      (keyNode j (freshMsg sw)) := by
  -- `format`
  have h1 : Exact (childBlock j5Env (typeScope outer (keyCF d) root) b!"format") d (freshMsg sKeyField)
      (Scope.newChild (cfOf sKeyFormat specKeyFormat (d ++ [1])))
      (.msg [false, true, false, false, false] [.absent, freshMsg sKeyFormat, .absent, .absent, .absent]) :=
    childBlock_of_walkPath (findBlock_format_key hmiss d [])
      (walkPath_container (propInfo_hasProperty pi_KeyField_format)
        (propSetValue_build false pi_KeyField_format (t := [false, false, false, false, false])
          (vs := [.absent, .absent, .absent, .absent, .absent]) (cur := .absent) rfl rfl (.inl rfl))
        (walkRest_nil _ _ _))
      (setSpecs_cons (specOf_KeyFormat _) (setSpecs_nil _))
  -- the member
  have h2' : Exact (childBlock j5Env (Scope.newChild (cfOf sKeyFormat specKeyFormat (d ++ [1]))) w) (d ++ [1])
      (freshMsg sKeyFormat) (Scope.newChild (cfOf sw specw (d ++ [1] ++ [j])))
      (oneofMsg 4 j (freshMsg sw)) :=
    childBlock_of_walkPath
      (findBlock_prop' (show aliasLookup w specKeyFormat.aliases = none from rfl) (propInfo_hasProperty hpi))
      (walkPath_container (propInfo_hasProperty hpi)
        (propSetValue_build false hpi (t := List.replicate 4 false) (vs := List.replicate 4 .absent)
          (cur := .absent) ht hv (.inr rfl))
        (walkRest_nil _ _ _))
      (setSpecs_cons (hspec _) (setSpecs_nil _))
  have h2 : Exact (childBlock j5Env (Scope.newChild (cfOf sKeyFormat specKeyFormat (d ++ [1]))) w) d
      (.msg [false, true, false, false, false] [.absent, freshMsg sKeyFormat, .absent, .absent, .absent])
      (Scope.newChild (cfOf sw specw (d ++ [1, j]))) (keyNode j (freshMsg sw)) := by
    have h := Exact.lift_prop (t := [false, true, false, false, false])
      (vs := [.absent, freshMsg sKeyFormat, .absent, .absent, .absent]) (i := 1) (a := d) rfl h2'
    rw [List.append_assoc] at h
    exact h
  refine walkQualifiers_block (tagSpec := ⟨b!"format", none, none, false, true⟩) (ref := refOf [w])
    (show specKeyField.qualifier = _ by decide +kernel) rfl rfl
    (buildScope_keep_run (combinePath_ident hw [b!"format"]) (walkScope_cons h1 (walkScope_cons h2 (walkScope_nil _ _ _))))
    (checkBang_none _ _ rfl) ?_
  exact walkQualifiers_nil _ _ _ _

theorem specOf_KeyFormatInformal (c : Addr) :
    specOf j5Env ⟨c, .msg sKeyFormatInformal⟩ = .ok specKeyFormatInformal := specOf_of_nil specOf_KeyFormatInformal0 c
theorem specOf_KeyFormatCustom (c : Addr) :
    specOf j5Env ⟨c, .msg sKeyFormatCustom⟩ = .ok specKeyFormatCustom := specOf_of_nil specOf_KeyFormatCustom0 c
theorem specOf_KeyFormatUUID (c : Addr) :
    specOf j5Env ⟨c, .msg sKeyFormatUUID⟩ = .ok specKeyFormatUUID := specOf_of_nil specOf_KeyFormatUUID0 c
theorem specOf_KeyFormatID62 (c : Addr) :
    specOf j5Env ⟨c, .msg sKeyFormatID62⟩ = .ok specKeyFormatID62 := specOf_of_nil specOf_KeyFormatID620 c

/-- the key formats without body line -/
theorem fieldRun_key_simple {fmt : J5V.Compile.KeyFmt} {ek : J5V.Compile.EntKey} {l : Bool}
    {w : Str} {j : Nat} {sw : Schema} {specw : BlockSpec}
    (hq : keyFmtQuals fmt = [tagRef .none (refOf [w])]) (hb : keyFmtBody [] fmt = [])
    (hek : entKeyBcl [] false ek = [])
    (hw : isAscii w = true)
    (hpi : propInfo j5Env sKeyFormat w = some (j, some gKeyFormat, .container sw))
    (hspec : ∀ c, specOf j5Env ⟨c, .msg sw⟩ = .ok specw)
    (ht : (List.replicate 4 false)[j]? = some false) (hv : (List.replicate 4 Node.absent)[j]? = some .absent)
    (hm : keyNode j (freshMsg sw) = typeMsg (.key fmt ek [] l)) :
    FieldRun (.key fmt ek [] l) := by
  intro outer root d hmiss
  have hmiss' : ∀ o ∈ outer, Misses o b!"format" := hmiss _ (by simp [fieldNames])
  refine ⟨(typeScope outer (keyCF d) root).mergeScope (Scope.newChild (cfOf sw specw (d ++ [1, j]))), specw,
    keyNode j (freshMsg sw), [keyCF d, cfOf sw specw (d ++ [1, j])], ?_, ?_, ?_⟩
  · simp [typeScope, Scope.mergeScope, Scope.newChild]
  · show Exact (walkQualifiers j5Env (keyFmtQuals fmt) _ _) _ _ _ _
    rw [hq]
    exact keyFmt_select hw hpi hspec ht hv hmiss' root d
  · show Exact (doBody j5Env _ ([] ++ keyFmtBody [] fmt ++ entKeyBcl [] false ek)) _ _ _ _
    rw [hb, hek, hm]
    exact doBody_nil _ _ _

/-- `key:custom { format.custom.pattern = "p" }` -/
theorem fieldRun_key_custom {p : Str} {ek : J5V.Compile.EntKey} {l : Bool} (hp : okString p = true)
    (hek : entKeyBcl [] false ek = []) : FieldRun (.key (.custom p) ek [] l) := by
  intro outer root d hmiss
  have hmiss' : ∀ o ∈ outer, Misses o b!"format" := hmiss _ (by simp [fieldNames])
  let customCF : ContainerField := cfOf sKeyFormatCustom specKeyFormatCustom (d ++ [1, 1])
  let sc2 : Scope := (typeScope outer (keyCF d) root).mergeScope (Scope.newChild customCF)
  let Q : Node := keyNode 1 (freshMsg sKeyFormatCustom)
  have hbs : sc2.blockSet = outer ++ [keyCF d, customCF] := by
    simp [sc2, typeScope, Scope.mergeScope, Scope.newChild]
  refine ⟨sc2, specKeyFormatCustom, Q, [keyCF d, customCF], hbs, ?_, ?_⟩
  · exact keyFmt_select (by decide) pi_KeyFormat_custom specOf_KeyFormatCustom rfl rfl hmiss' root d
  · show Exact (doBody j5Env sc2 ([] ++ [assignStmt [b!"format", b!"custom", b!"pattern"] (strValue p)] ++
      entKeyBcl [] false ek)) _ _ _ _
    rw [hek]
    refine doBody_cons (doStatement_assign ?_) (doBody_nil _ _ _)
    -- `format` again: the cached wrapper
    have h1 : Exact (childBlock j5Env sc2 b!"format") d Q
        (Scope.newChild (cfOf sKeyFormat specKeyFormat (d ++ [1]))) Q :=
      childBlock_of_walkPath (by rw [hbs]; exact findBlock_format_key hmiss' d _)
        (walkPath_container (propInfo_hasProperty pi_KeyField_format)
          (propSetValue_cached pi_KeyField_format (t := [false, true, false, false, false]) rfl)
          (walkRest_nil _ _ _))
        (setSpecs_cons (specOf_KeyFormat _) (setSpecs_nil _))
    have h2' : Exact (childBlock j5Env (Scope.newChild (cfOf sKeyFormat specKeyFormat (d ++ [1]))) b!"custom")
        (d ++ [1]) (oneofMsg 4 1 (freshMsg sKeyFormatCustom))
        (Scope.newChild (cfOf sKeyFormatCustom specKeyFormatCustom (d ++ [1] ++ [1])))
        (oneofMsg 4 1 (freshMsg sKeyFormatCustom)) :=
      childBlock_of_walkPath
        (findBlock_prop' (show aliasLookup b!"custom" specKeyFormat.aliases = none from rfl)
          (propInfo_hasProperty pi_KeyFormat_custom))
        (walkPath_container (propInfo_hasProperty pi_KeyFormat_custom)
          (propSetValue_cached pi_KeyFormat_custom (t := [false, true, false, false]) rfl)
          (walkRest_nil _ _ _))
        (setSpecs_cons (specOf_KeyFormatCustom _) (setSpecs_nil _))
    have h2 : Exact (childBlock j5Env (Scope.newChild (cfOf sKeyFormat specKeyFormat (d ++ [1]))) b!"custom") d Q
        (Scope.newChild customCF) Q := by
      have h := Exact.lift_prop (t := [false, true, false, false, false])
        (vs := [.absent, oneofMsg 4 1 (freshMsg sKeyFormatCustom), .absent, .absent, .absent]) (i := 1) (a := d)
        rfl h2'
      rw [List.append_assoc] at h
      exact h
    have h3 := setAttr_walk (env := j5Env) (sc := sc2) (path := []) (ref := (refOf [b!"format", b!"custom", b!"pattern"]).idents)
      (val := .value (strValue p)) (pre := [⟨b!"format", some Span.zero⟩, ⟨b!"custom", some Span.zero⟩])
      (n := b!"pattern") (pos := some Span.zero) (a := d) (b := [1, 1]) (t := [false]) (vs := [.absent])
      (cur := .absent) (v := .str p)
      (by decide +kernel) (walkScope_cons h1 (walkScope_cons h2 (walkScope_nil _ _ _)))
      (findBlock_prop' (show aliasLookup b!"pattern" specKeyFormatCustom.aliases = none from rfl)
        (propInfo_hasProperty pi_KeyFormatCustom_pattern))
      pi_KeyFormatCustom_pattern rfl rfl rfl (.inl rfl) (asArray_strValue _)
      (by simp only [scalarFromAST, asString_strValue (isAscii_of_okString hp)]; rfl)
    refine h3.conv ?_
    rw [storeNode_str]
    rfl

theorem entKeyBcl_nil {ek : J5V.Compile.EntKey}
    (h : (match ek with
       | .nokey => true
       | .ek .plain none => true
       | _ => false) = true) : entKeyBcl [] false ek = [] := by
  cases ek with
  | nokey => rfl
  | ek k t => cases k <;> cases t <;> first | rfl | cases h

/-- every field of the first slice -/
theorem fieldRun {f : CField} (h : fieldOk1 f = true) : FieldRun f := by
  cases f with
  | string rules l =>
    simp only [fieldOk1, Bool.and_eq_true, Bool.not_eq_true'] at h
    cases rules_nil_of_isEmpty h.1
    exact fieldRun_plain rfl rfl rfl
  | bool rules l =>
    simp only [fieldOk1, Bool.and_eq_true, Bool.not_eq_true'] at h
    cases rules_nil_of_isEmpty h.1
    exact fieldRun_plain rfl rfl rfl
  | bytes rules =>
    simp only [fieldOk1] at h
    cases rules_nil_of_isEmpty h
    exact fieldRun_plain rfl rfl rfl
  | date rules l =>
    simp only [fieldOk1, Bool.and_eq_true, Bool.not_eq_true'] at h
    cases rules_nil_of_isEmpty h.1
    exact fieldRun_plain rfl rfl rfl
  | decimal rules l =>
    simp only [fieldOk1, Bool.and_eq_true, Bool.not_eq_true'] at h
    cases rules_nil_of_isEmpty h.1
    exact fieldRun_plain rfl rfl rfl
  | timestamp rules =>
    simp only [fieldOk1] at h
    cases rules_nil_of_isEmpty h
    exact fieldRun_plain rfl rfl rfl
  | any => exact fieldRun_plain rfl rfl rfl
  | integer fmt rules l =>
    simp only [fieldOk1, Bool.and_eq_true, Bool.not_eq_true'] at h
    cases rules_nil_of_isEmpty h.1
    exact fieldRun_integer fmt l
  | float fmt rules l =>
    simp only [fieldOk1, Bool.and_eq_true, Bool.not_eq_true'] at h
    cases rules_nil_of_isEmpty h.1
    exact fieldRun_float fmt l
  | key fmt ek rules l =>
    simp only [fieldOk1, Bool.and_eq_true, Bool.not_eq_true'] at h
    obtain ⟨⟨⟨h1, _⟩, h3⟩, h4⟩ := h
    cases rules_nil_of_isEmpty h1
    have hek := entKeyBcl_nil h4
    cases fmt with
    | none =>
      refine fieldRun_plain rfl ?_ rfl
      show [] ++ [] ++ entKeyBcl [] false ek = []
      rw [hek]; rfl
    | informal =>
      exact fieldRun_key_simple (w := b!"informal") rfl rfl hek (by decide) pi_KeyFormat_informal
        specOf_KeyFormatInformal rfl rfl rfl
    | uuid =>
      exact fieldRun_key_simple (w := b!"uuid") rfl rfl hek (by decide) pi_KeyFormat_uuid
        specOf_KeyFormatUUID rfl rfl rfl
    | id62 =>
      exact fieldRun_key_simple (w := b!"id62") rfl rfl hek (by decide) pi_KeyFormat_id62
        specOf_KeyFormatID62 rfl rfl rfl
    | custom p => exact fieldRun_key_custom h3 hek
  | _ => cases h

end J5V.Walker
