import J5V.Walker.PP.FieldTables
/-!
# Print/parse: the member of `j5.schema.v1.Field` of the container field kinds
(object, oneof, enum, array, map) — `kind_pi_c`, `kind_spec_c`
-/
namespace J5V.Walker

def isContainerKind : CField → Bool
  | .objectRef .. => true | .objectInl .. => true | .oneofRef .. => true | .oneofInl .. => true
  | .enumRef .. => true | .enumInl .. => true | .array .. => true | .map .. => true
  | _ => false

theorem pi_Field_object : propInfo j5Env sField wObject = some (2, some gField, .container sObjectField) := by
  rw [j5Env_nf]; decide +kernel
theorem pi_Field_oneof : propInfo j5Env sField wOneof = some (1, some gField, .container sOneofField) := by
  rw [j5Env_nf]; decide +kernel
theorem pi_Field_enum : propInfo j5Env sField wEnum = some (3, some gField, .container sEnumField) := by
  rw [j5Env_nf]; decide +kernel
theorem pi_Field_array : propInfo j5Env sField b!"array" = some (4, some gField, .container sArrayField) := by
  rw [j5Env_nf]; decide +kernel
theorem pi_Field_map : propInfo j5Env sField b!"map" = some (5, some gField, .container sMapField) := by
  rw [j5Env_nf]; decide +kernel

theorem kind_pi_c {f : CField} (h : isContainerKind f = true) :
    propInfo j5Env sField (fieldKind f) = some (kindIdx f, some gField, .container (kindSchema f)) := by
  cases f with
  | objectRef _ _ _ _ => exact pi_Field_object
  | objectInl _ _ _ _ => exact pi_Field_object
  | oneofRef _ _ _ _ => exact pi_Field_oneof
  | oneofInl _ _ _ _ => exact pi_Field_oneof
  | enumRef _ _ _ _ => exact pi_Field_enum
  | enumInl _ _ _ => exact pi_Field_enum
  | array _ _ => exact pi_Field_array
  | map _ _ => exact pi_Field_map
  | _ => cases h

theorem kind_spec_c {f : CField} (h : isContainerKind f = true) (c : Addr) :
    specOf j5Env ⟨c, .msg (kindSchema f)⟩ = .ok (kindSpec f) := by
  apply specOf_of_nil
  cases f with
  | objectRef _ _ _ _ => exact specOf_ObjectField0
  | objectInl _ _ _ _ => exact specOf_ObjectField0
  | oneofRef _ _ _ _ => exact specOf_OneofField0
  | oneofInl _ _ _ _ => exact specOf_OneofField0
  | enumRef _ _ _ _ => exact specOf_EnumField0
  | enumInl _ _ _ => exact specOf_EnumField0
  | array _ _ => exact specOf_ArrayField0
  | map _ _ => exact specOf_MapField0
  | _ => cases h

end J5V.Walker
