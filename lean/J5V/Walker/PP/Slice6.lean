import J5V.Walker.PP.Elems
/-!
# Print/parse, sixth slice: + top-level `oneof` and `enum` elements, objects nested in objects
-/
namespace J5V.Walker
open J5V.Bcl

/-! ## `oneof NAME { options }` -/

theorem elemMsg_oneof_eq (o : J5V.Compile.ObjDecl) :
    elemMsg j5Env (.oneof o) = oneofMsg 6 1 (objectMsg j5Env true o) := by
  simp only [elemMsg, rootOneof]
  rw [mkMsg_of schemaOf_RootElement]
  rfl

theorem oneofDeclMsg_eq (name : Str) (props : List CProperty) (psm : Option J5V.Compile.Psm) :
    objectMsg j5Env true (.mk name props [] psm) =
      .msg [true, false, !(propsMsg j5Env props).isEmpty, false]
        [sStr name, .absent, listSlot (propsMsg j5Env props), .absent] := by
  simp only [objectMsg, nestedMsg, if_true]
  rw [mkMsg_of schemaOf_OneofDecl]
  generalize propsMsg j5Env props = ps
  cases ps <;> rfl

theorem oneofDecl_appends {name : Str} {props : List CProperty} {psm : Option J5V.Compile.Psm}
    (hname : isIdent name = true) (hps : ∀ p ∈ props, PropHas p) :
    Appends j5Env rootScope [] 3 (elemBcl (.oneof (.mk name props [] psm)))
      (elemMsg j5Env (.oneof (.mk name props [] psm))) := by
  rw [elemMsg_oneof_eq, oneofDeclMsg_eq]
  refine memberDecl_appends (kw := wOneof) (by decide)
    (findBlock_alias' (show aliasLookup wOneof specSourceFile.aliases = some [b!"elements", wOneof] by decide +kernel))
    pi_SourceFile_elements pi_RootElement_oneof specOf_RootElement specOf_OneofDecl fresh_RootElement rfl rfl rfl
    (show specOneofDecl.name = _ by decide +kernel) (show specOneofDecl.typeSelect = none by decide +kernel)
    (show aliasLookup wName specOneofDecl.aliases = none by decide +kernel) pi_OneofDecl_name
    (tD := [false, false, false, false]) (vsD := [.absent, .absent, .absent, .absent]) rfl rfl rfl hname ?_
  intro d
  have hprops := props_appendsAll2 (kw := wOption) (by decide)
    (sc := Scope.newChild (cfOf sOneofDecl specOneofDecl d))
    (findBlock_alias' (show aliasLookup wOption specOneofDecl.aliases = some [b!"properties"] by decide +kernel))
    pi_OneofDecl_properties props hps
  have h1 := appends_fold hprops [] [true, false, false, false] [sStr name, .absent, .absent, .absent] rfl rfl
  refine (doBody_append h1 (doBody_nil _ _ _)).conv ?_
  rw [List.nil_append]
  rfl

/-! ## `enum NAME { prefix = "…" option A … }` -/

theorem elemMsg_enum_eq (e : J5V.Compile.EnumDecl) :
    elemMsg j5Env (.enum e) = oneofMsg 6 3 (enumMsg j5Env e) := by
  simp only [elemMsg, rootOneof]
  rw [mkMsg_of schemaOf_RootElement]
  rfl

theorem enumDeclMsg_eq (name pfx : Str) (opts : List Str) (hn : isIdent name = true) :
    enumMsg j5Env ⟨name, pfx, opts⟩ =
      .msg [true, false, pfx != [], !(opts.map (enumOptionMsg j5Env)).isEmpty, false]
        [sStr name, .absent, if pfx != [] then sStr pfx else .absent,
          listSlot (opts.map (enumOptionMsg j5Env)), .absent] := by
  simp only [enumMsg]
  rw [mkMsg_of schemaOf_SEnum]
  cases name with
  | nil => cases hn
  | cons c cs => cases pfx <;> cases opts <;> rfl

/-- the enum declaration block at `d` -/
abbrev enumCF (d : Addr) : ContainerField := cfOf sSEnum specSEnum d

theorem option_appends (d : Addr) {o : Str} (ho : isIdent o = true) :
    Appends j5Env (Scope.newChild (enumCF d)) d 3 (optionBcl o) (enumOptionMsg j5Env o) := by
  intro xs t vs ht hv
  have hlt : 3 < vs.length := (List.getElem?_eq_some_iff.mp hv).1
  have hl : Lens (fun Y => Node.msg (t.set 3 true) (vs.set 3 (.list (xs ++ [Y])))) ([3] ++ [xs.length]) :=
    Lens.comp (Lens.slot (t.set 3 true) vs hlt) (Lens.last xs)
  exact optionBlock_exact ho hl
    (childBlock_of_walkPath
      (findBlock_alias' (show aliasLookup wOption specSEnum.aliases = some [b!"options"] by decide +kernel))
      (walkPath_array_exact pi_SEnum_options ht hv (walkRest_nil _ _ _))
      (setSpecs_cons (specOf_EnumOption _) (setSpecs_nil _)))

theorem enumDecl_appends {e : J5V.Compile.EnumDecl} (he : enumDeclOk true e = true) :
    Appends j5Env rootScope [] 3 (elemBcl (.enum e)) (elemMsg j5Env (.enum e)) := by
  obtain ⟨name, pfx, opts⟩ := e
  simp only [enumDeclOk, if_true, Bool.and_eq_true] at he
  obtain ⟨⟨hname, hpfx⟩, hopts⟩ := he
  rw [elemMsg_enum_eq, enumDeclMsg_eq name pfx opts hname]
  refine memberDecl_appends (kw := wEnum) (by decide)
    (findBlock_alias' (show aliasLookup wEnum specSourceFile.aliases = some [b!"elements", wEnum] by decide +kernel))
    pi_SourceFile_elements pi_RootElement_enum specOf_RootElement specOf_SEnum fresh_RootElement rfl rfl rfl
    (show specSEnum.name = _ by decide +kernel) (show specSEnum.typeSelect = none by decide +kernel)
    (show aliasLookup wName specSEnum.aliases = none by decide +kernel) pi_SEnum_name
    (tD := [false, false, false, false, false]) (vsD := [.absent, .absent, .absent, .absent, .absent])
    rfl rfl rfl hname ?_
  intro d
  -- the prefix line
  have h1 : Exact (doBody j5Env (Scope.newChild (enumCF d))
      (if pfx = [] then [] else [assignStmt [b!"prefix"] (strValue pfx)])) d
      (.msg [true, false, false, false, false] [sStr name, .absent, .absent, .absent, .absent]) ()
      (.msg [true, false, pfx != [], false, false]
        [sStr name, .absent, if pfx != [] then sStr pfx else .absent, .absent, .absent]) := by
    by_cases hp : pfx = []
    · subst hp; exact doBody_nil _ _ _
    · rw [if_neg hp]
      have hne : (pfx != []) = true := by simpa using hp
      rw [hne]
      refine doBody_cons (doStatement_assign ?_) (doBody_nil _ _ _)
      refine (setAttr_direct (n := b!"prefix") (pos := some Span.zero) (cur := .absent) (v := .str pfx)
        (combinePath_ident (by decide) [])
        (findBlock_prop' (show aliasLookup b!"prefix" specSEnum.aliases = none by decide +kernel)
          (propInfo_hasProperty pi_SEnum_prefix))
        pi_SEnum_prefix rfl rfl (.inl rfl) (asArray_strValue _)
        (by simp only [scalarFromAST, asString_strValue (isAscii_of_okString hpfx)]; rfl)).conv ?_
      rw [storeNode_str]; rfl
  -- the options
  have hopt : AppendsAll j5Env (Scope.newChild (enumCF d)) d 3 (opts.map optionBcl)
      (opts.map (enumOptionMsg j5Env)) :=
    appendsAll_map _ _ _ (fun o ho => option_appends d (List.all_eq_true.mp hopts o ho))
  have h2 := appends_fold hopt [] [true, false, pfx != [], false, false]
    [sStr name, .absent, if pfx != [] then sStr pfx else .absent, .absent, .absent] rfl rfl
  refine (doBody_append h1 h2).conv ?_
  rw [List.nil_append]
  rfl

/-! ## The sub-fragment and the theorem -/

def elemOk6 : J5V.Compile.Elem → Bool
  | .object o => objDeclOk6 o
  | .oneof (.mk name props nested psm) => isIdent name && psm.isNone && propsOk5 props && nested.isEmpty
  | .enum e => enumDeclOk true e
  | _ => false

/-- the sixth slice of `supported` -/
def supported6 : J5V.Compile.SrcFile → Bool
  | .j5s _ imports elems decl => isDotted decl && imports.all importOk && elems.all elemOk6
  | .proto .. => false

mutual
theorem objDeclOk_of_objDeclOk6 : (o : J5V.Compile.ObjDecl) → objDeclOk6 o = true → objDeclOk j5Env false o = true
  | .mk name props nested psm, h => by
    simp only [objDeclOk6, Bool.and_eq_true] at h
    simp only [objDeclOk, Bool.and_eq_true, Bool.false_eq_true, if_false]
    exact ⟨⟨h.1.1, propsOk_of_propsOk5 props h.1.2⟩, nestedOk_of_nestedOk6 nested h.2⟩

theorem nestedOk_of_nestedOk6 : (ns : List J5V.Compile.Nested) → nestedOk6 ns = true → nestedOk j5Env true ns = true
  | [], _ => rfl
  | .object o :: rest, h => by
    simp only [nestedOk6, Bool.and_eq_true] at h
    simp only [nestedOk, Bool.and_eq_true]
    exact ⟨objDeclOk_of_objDeclOk6 o h.1, nestedOk_of_nestedOk6 rest h.2⟩
  | .oneof _ :: _, h => by simp [nestedOk6] at h
  | .enum _ :: _, h => by simp [nestedOk6] at h
end

theorem supported6_supported {ast : J5V.Compile.SrcFile} (h : supported6 ast = true) : supported ast = true := by
  cases ast with
  | j5s path imports elems decl =>
    simp only [supported6, Bool.and_eq_true, List.all_eq_true] at h
    simp only [supported, supportedEnv, Bool.and_eq_true, List.all_eq_true]
    refine ⟨⟨h.1.1, h.1.2⟩, fun e he => ?_⟩
    have hok := h.2 e he
    cases e with
    | object o => exact objDeclOk_of_objDeclOk6 o hok
    | oneof o =>
      obtain ⟨name, props, nested, psm⟩ := o
      simp only [elemOk6, Bool.and_eq_true, List.isEmpty_iff] at hok
      obtain ⟨⟨⟨h1, h2⟩, h3⟩, h4⟩ := hok
      subst h4
      simp only [elemOk, objDeclOk, Bool.and_eq_true, if_true, List.isEmpty_nil]
      exact ⟨⟨⟨h1, h2⟩, propsOk_of_propsOk5 props h3⟩, trivial⟩
    | enum e => exact hok
    | _ => cases hok
  | proto _ _ _ => cases h

/-- **print/parse, sixth slice**: `package`, imports, top-level objects (with nested objects), oneofs and
enums; properties as in the fifth slice -/
theorem C07W_print_parse_slice6 (filename : Str) (ast : J5V.Compile.SrcFile) (h : supported6 ast = true) :
    walkSchema j5Env (toBcl ast) (stub j5Env filename) = .ok (toMsg filename ast) := by
  cases ast with
  | proto _ _ _ => cases h
  | j5s path imports elems decl =>
    simp only [supported6, Bool.and_eq_true, List.all_eq_true] at h
    obtain ⟨⟨hdecl, himports⟩, helems⟩ := h
    refine print_parse_of filename path decl imports elems hdecl himports ?_
    refine appendsAll_map _ _ _ (fun e he => ?_)
    have hok := helems e he
    cases e with
    | object o =>
      have h := objDecl6 o hok (sc := rootScope)
        (findBlock_alias' (show aliasLookup wObject specSourceFile.aliases = some [b!"elements", wObject] by decide +kernel))
        pi_SourceFile_elements pi_RootElement_object specOf_RootElement fresh_RootElement rfl rfl rfl
      rw [elemMsg_object_eq]
      exact h
    | oneof o =>
      obtain ⟨name, props, nested, psm⟩ := o
      simp only [elemOk6, Bool.and_eq_true, List.isEmpty_iff] at hok
      obtain ⟨⟨⟨hname, _⟩, hprops⟩, hnested⟩ := hok
      subst hnested
      exact oneofDecl_appends hname (propsHas5 props hprops)
    | enum e => exact enumDecl_appends hok
    | _ => cases hok

end J5V.Walker
