import J5V.Walker.PP.Decls
/-!
# Print/parse, first slice: the theorem

`supported1`: `package` + imports + top-level `object` elements whose properties are fields of the scalar
kinds (string, bool, bytes, date, decimal, timestamp, any, integer:FMT, float:FMT, key with its formats)
without rules, each with / without `!` and `?`. `supported1_supported`: it is a sub-fragment of
`supported`. `C07W_print_parse_slice1`: for such a file the walk of the printed tree over the stub returns
exactly the message the file denotes.
-/
namespace J5V.Walker
open J5V.Bcl

def elemOk1 : J5V.Compile.Elem → Bool
  | .object o => objDeclOk1 o
  | _ => false

/-- the first slice of `supported` -/
def supported1 : J5V.Compile.SrcFile → Bool
  | .j5s _ imports elems decl => isDotted decl && imports.all importOk && elems.all elemOk1
  | .proto .. => false

/-! ## `supported1` is a sub-fragment of `supported` -/

theorem rulesOk_nil (env : Env) (ts : Str) : rulesOk env ts [] = true := rfl

theorem fieldOk_of_fieldOk1 {f : CField} (h : fieldOk1 f = true) : fieldOk j5Env f = true := by
  cases f with
  | string rules l =>
    simp only [fieldOk1, Bool.and_eq_true, Bool.not_eq_true'] at h
    cases rules_nil_of_isEmpty h.1
    simp [fieldOk, h.2, rulesOk_nil]
  | bool rules l =>
    simp only [fieldOk1, Bool.and_eq_true, Bool.not_eq_true'] at h
    cases rules_nil_of_isEmpty h.1
    simp [fieldOk, h.2, rulesOk_nil]
  | bytes rules =>
    simp only [fieldOk1] at h
    cases rules_nil_of_isEmpty h
    simp [fieldOk, rulesOk_nil]
  | date rules l =>
    simp only [fieldOk1, Bool.and_eq_true, Bool.not_eq_true'] at h
    cases rules_nil_of_isEmpty h.1
    simp [fieldOk, h.2, rulesOk_nil]
  | decimal rules l =>
    simp only [fieldOk1, Bool.and_eq_true, Bool.not_eq_true'] at h
    cases rules_nil_of_isEmpty h.1
    simp [fieldOk, h.2, rulesOk_nil]
  | timestamp rules =>
    simp only [fieldOk1] at h
    cases rules_nil_of_isEmpty h
    simp [fieldOk, rulesOk_nil]
  | any => rfl
  | integer fmt rules l =>
    simp only [fieldOk1, Bool.and_eq_true, Bool.not_eq_true'] at h
    cases rules_nil_of_isEmpty h.1
    simp [fieldOk, h.2, rulesOk_nil]
  | float fmt rules l =>
    simp only [fieldOk1, Bool.and_eq_true, Bool.not_eq_true'] at h
    cases rules_nil_of_isEmpty h.1
    simp [fieldOk, h.2, rulesOk_nil]
  | key fmt ek rules l =>
    simp only [fieldOk1, Bool.and_eq_true, Bool.not_eq_true'] at h
    obtain ⟨⟨⟨h1, h2⟩, h3⟩, h4⟩ := h
    cases rules_nil_of_isEmpty h1
    have hek : entKeyOk ek = true := by
      cases ek with
      | nokey => rfl
      | ek k t => cases k <;> cases t <;> first | rfl | cases h4
    simp [fieldOk, h2, h3, hek, rulesOk_nil]
  | _ => cases h

theorem propsOk_of_propsOk1 {ps : List CProperty} (h : propsOk1 ps = true) : propsOk j5Env ps = true := by
  induction ps with
  | nil => rfl
  | cons p ps ih =>
    obtain ⟨name, req, opt, f⟩ := p
    simp only [propsOk1, propOk1, Bool.and_eq_true] at h
    simp only [propsOk, propOk, Bool.and_eq_true]
    exact ⟨⟨h.1.1, fieldOk_of_fieldOk1 h.1.2⟩, ih h.2⟩

theorem elemOk_of_elemOk1 {e : J5V.Compile.Elem} (h : elemOk1 e = true) : elemOk j5Env e = true := by
  cases e with
  | object o =>
    obtain ⟨name, props, nested, psm⟩ := o
    simp only [elemOk1, objDeclOk1, Bool.and_eq_true, List.isEmpty_iff] at h
    obtain ⟨⟨⟨h1, h2⟩, h3⟩, h4⟩ := h
    subst h4
    simp only [elemOk, objDeclOk, Bool.and_eq_true, Bool.false_eq_true, if_false, nestedOk]
    exact ⟨⟨⟨h1, h2⟩, propsOk_of_propsOk1 h3⟩, trivial⟩
  | _ => cases h

/-- the first slice is part of the covered fragment -/
theorem supported1_supported {ast : J5V.Compile.SrcFile} (h : supported1 ast = true) : supported ast = true := by
  cases ast with
  | j5s path imports elems decl =>
    simp only [supported1, Bool.and_eq_true, List.all_eq_true] at h
    simp only [supported, supportedEnv, Bool.and_eq_true, List.all_eq_true]
    exact ⟨⟨h.1.1, h.1.2⟩, fun e he => elemOk_of_elemOk1 (h.2 e he)⟩
  | proto _ _ _ => cases h

/-! ## The stub and the final message, explicit -/

theorem propSchema_package : propSchema j5Env sSourceFile (str "package") = sPackage := by
  rw [j5Env_nf]; decide +kernel
theorem propSchema_sourceLocations : propSchema j5Env sSourceFile (str "sourceLocations") = sSourceLocation := by
  rw [j5Env_nf]; decide +kernel
theorem propSchema_sourceLocations' : propSchema j5Env sSourceFile b!"sourceLocations" = sSourceLocation := by
  rw [j5Env_nf]; decide +kernel
theorem str_path : str "path" = b!"path" := by decide +kernel
theorem str_package : str "package" = b!"package" := by decide +kernel
theorem str_sourceLocations : str "sourceLocations" = b!"sourceLocations" := by decide +kernel

theorem stub_eq (filename : Str) :
    stub j5Env filename =
      rootNode (stringNode filename) (.msg [false] [stringNode (stubPackage filename)]) false .absent false .absent
        (freshMsg sSourceLocation) false := by
  unfold stub
  rw [j5Env_root, schemaOf_SourceFile]
  dsimp only
  rw [propSchema_package, propSchema_sourceLocations, str_path, str_package, str_sourceLocations]
  rfl

theorem rootMsg_eq (filename decl : Str) (imports elems : List Node) :
    rootMsg j5Env filename decl imports elems =
      rootNode (stringNode filename) (.msg [true] [sStr decl]) (!imports.isEmpty) (listSlot imports)
        (!elems.isEmpty) (listSlot elems) (freshMsg sSourceLocation) true := by
  unfold rootMsg
  rw [j5Env_root, schemaOf_SourceFile]
  dsimp only
  rw [propSchema_sourceLocations', mkMsg_of schemaOf_Package]
  cases imports <;> cases elems <;> rfl

/-! ## The theorem -/

/-- the file level: `package`, imports, then elements that append to `elements` -/
theorem print_parse_of (filename path decl : Str) (imports : List J5V.Compile.Import)
    (elems : List J5V.Compile.Elem) (hdecl : isDotted decl = true) (himports : ∀ i ∈ imports, importOk i = true)
    (hel : AppendsAll j5Env rootScope [] 3 (elems.map elemBcl) (elems.map (elemMsg j5Env))) :
    walkSchema j5Env (toBcl (.j5s path imports elems decl)) (stub j5Env filename) =
      .ok (toMsg filename (.j5s path imports elems decl)) := by
  have himp : AppendsAll j5Env rootScope [] 2 (imports.map importBcl) (imports.map (importMsg j5Env)) :=
    appendsAll_map _ _ _ (fun i hi => import_appends (himports i hi))
  have hrun : Exact (doBody j5Env rootScope (toBcl (.j5s path imports elems decl))) []
      (stub j5Env filename) () (toMsg filename (.j5s path imports elems decl)) := by
    rw [stub_eq]
    simp only [toBcl, toMsg, toMsgEnv]
    rw [rootMsg_eq]
    refine doBody_cons (package_exact hdecl _ _ _ _ _ _ _) ?_
    refine doBody_append (appends_fold himp [] _ _ rfl rfl) ?_
    refine (appends_fold hel [] _ _ rfl rfl).conv ?_
    rw [List.nil_append, List.nil_append]
    rfl
  unfold walkSchema
  rw [newRootSchemaWalker_j5]
  dsimp only
  rw [hrun.run_root]

/-- **print/parse, first slice**: for a file of `package`, imports and top-level objects with scalar
fields, the walk of the printed tree over the file stub returns exactly the message the file denotes -/
theorem C07W_print_parse_slice1 (filename : Str) (ast : J5V.Compile.SrcFile) (h : supported1 ast = true) :
    walkSchema j5Env (toBcl ast) (stub j5Env filename) = .ok (toMsg filename ast) := by
  cases ast with
  | proto _ _ _ => cases h
  | j5s path imports elems decl =>
    simp only [supported1, Bool.and_eq_true, List.all_eq_true] at h
    obtain ⟨⟨hdecl, himports⟩, helems⟩ := h
    refine print_parse_of filename path decl imports elems hdecl himports ?_
    refine appendsAll_map _ _ _ (fun e he => ?_)
    have hok := helems e he
    cases e with
    | object o => exact object_appends hok
    | _ => cases hok

end J5V.Walker
