import J5V.Walker.PP.Field2
/-!
# Print/parse, second slice: `FieldFacts` of the scalar field kinds (with rules)

`plainFacts` (a kind whose only lines are rules: string, bool, bytes, date, decimal, timestamp),
`anyFacts`, `integerFacts`, `floatFacts`, `keyFacts`; `scalarFacts : fieldOk2 f → FieldFacts f`.
-/
namespace J5V.Walker
open J5V.Bcl

theorem propInfo_lt {env : Env} {s : Schema} {n : Str} {i : Nat} {og : Option (Str × List Nat)} {k : FieldKind}
    (h : propInfo env s n = some (i, og, k)) : i < s.props.length := by
  obtain ⟨p, hf, _⟩ := propInfo_spec h
  obtain ⟨j, hj, hp, _⟩ := findProp_spec hf
  have := (List.getElem?_eq_some_iff.mp hp).1
  omega

theorem findBlock_rules_self {sT : Schema} {specT : BlockSpec} (d : Addr)
    (ha : aliasLookup wRules specT.aliases = none) (hp : sT.hasProperty wRules = true) :
    findBlock wRules [cfOf sT specT d] = some (cfOf sT specT d, [wRules]) :=
  findBlock_prop' ha hp

/-- a field kind without qualifier whose only lines are its rules -/
def plainFacts {f : CField} (hs : isScalarKind f = true) (hq : fieldQuals f = [])
    (rules : J5V.Compile.Rules) (hb : ∀ pfx, fieldBody f pfx false = rulesBcl pfx rules)
    {sR : Schema} {specR : BlockSpec} {ri : Nat} (hR : RulesSchemaOK sR specR)
    (hpiR : propInfo j5Env (kindSchema f) wRules = some (ri, none, .container sR))
    (hspecR : ∀ c, specOf j5Env ⟨c, .msg sR⟩ = .ok specR)
    (halias : aliasLookup wRules (kindSpec f).aliases = none)
    (hok : rules.all (fun r => ruleOk sR r && strOk r.lit) = true)
    (hdist : distinct (rules.map (·.name)) = true)
    (hmsg : fieldMsg j5Env f = oneofMsg 15 (kindIdx f)
      (.msg ((List.replicate (kindSchema f).props.length false).set ri (!rules.isEmpty))
        ((List.replicate (kindSchema f).props.length Node.absent).set ri (rulesNode sR rules)))) :
    FieldFacts f where
  qualNames := []
  bodyNames := [wRules]
  blockNames := []
  tailP := fun _ _ => True
  qualVal := freshMsg (kindSchema f)
  typeVal := .msg ((List.replicate (kindSchema f).props.length false).set ri (!rules.isEmpty))
    ((List.replicate (kindSchema f).props.length Node.absent).set ri (rulesNode sR rules))
  pi := kind_pi2 hs
  spec := kind_spec2 hs
  specName := kindSpec_name
  specTypeSelect := kindSpec_typeSelect
  msg := hmsg
  namesSub := by
    intro n hn
    simp only [List.not_mem_nil, List.mem_singleton, false_or] at hn
    subst hn; decide
  qualSub := by intro _ n hn; cases hn
  blockSub := by intro kw hkw; cases hkw
  found := by
    intro d n hn
    simp only [List.mem_singleton] at hn
    subst hn
    rw [findBlock_rules_self d halias (propInfo_hasProperty hpiR)]; rfl
  runQ := by
    intro outer root d _
    refine ⟨typeScope outer (tcfOf f d) root, kindSpec f, [], rfl, trivial, ?_⟩
    rw [hq]; exact walkQualifiers_nil _ _ _ _
  runB := by
    intro sc pfx a b C hr _
    rw [hb]
    have hlt := propInfo_lt hpiR
    exact hr.rules (List.mem_singleton.mpr rfl) hR
      (findBlock_rules_self _ halias (propInfo_hasProperty hpiR)) hpiR hspecR
      (by rw [List.getElem?_replicate, if_pos hlt]) (by rw [List.getElem?_replicate, if_pos hlt]) rules hok hdist

/-! ## The kinds whose only lines are rules -/

def stringFacts (rules : J5V.Compile.Rules) (l : Bool) (h : rulesOk j5Env b!"j5.schema.v1.StringField" rules = true) :
    FieldFacts (.string rules l) :=
  have hu := rulesOk_unpack h rulesSchema_String schemaOf_StringRules
  plainFacts (f := .string rules l) rfl rfl rules (fun _ => rfl) rulesOK_String pi_String_rules specOf_StringRules
    (show aliasLookup wRules specStringField.aliases = none by decide +kernel) hu.1 hu.2 (by
      simp only [fieldMsg, fieldOneof, typeSchema]
      rw [rulesVals_eq rulesSchema_String schemaOf_StringRules, mkMsg_of schemaOf_Field, mkMsg_of schemaOf_StringField]
      cases rules <;> rfl)

def boolFacts (rules : J5V.Compile.Rules) (l : Bool) (h : rulesOk j5Env b!"j5.schema.v1.BoolField" rules = true) :
    FieldFacts (.bool rules l) :=
  have hu := rulesOk_unpack h rulesSchema_Bool schemaOf_BoolRules
  plainFacts (f := .bool rules l) rfl rfl rules (fun _ => rfl) rulesOK_Bool pi_Bool_rules specOf_BoolRules
    (show aliasLookup wRules specBoolField.aliases = none by decide +kernel) hu.1 hu.2 (by
      simp only [fieldMsg, fieldOneof, typeSchema]
      rw [rulesVals_eq rulesSchema_Bool schemaOf_BoolRules, mkMsg_of schemaOf_Field, mkMsg_of schemaOf_BoolField]
      cases rules <;> rfl)

def bytesFacts (rules : J5V.Compile.Rules) (h : rulesOk j5Env b!"j5.schema.v1.BytesField" rules = true) :
    FieldFacts (.bytes rules) :=
  have hu := rulesOk_unpack h rulesSchema_Bytes schemaOf_BytesRules
  plainFacts (f := .bytes rules) rfl rfl rules (fun _ => rfl) rulesOK_Bytes pi_Bytes_rules specOf_BytesRules
    (show aliasLookup wRules specBytesField.aliases = none by decide +kernel) hu.1 hu.2 (by
      simp only [fieldMsg, fieldOneof, typeSchema]
      rw [rulesVals_eq rulesSchema_Bytes schemaOf_BytesRules, mkMsg_of schemaOf_Field, mkMsg_of schemaOf_BytesField]
      cases rules <;> rfl)

def dateFacts (rules : J5V.Compile.Rules) (l : Bool) (h : rulesOk j5Env b!"j5.schema.v1.DateField" rules = true) :
    FieldFacts (.date rules l) :=
  have hu := rulesOk_unpack h rulesSchema_Date schemaOf_DateRules
  plainFacts (f := .date rules l) rfl rfl rules (fun _ => rfl) rulesOK_Date pi_Date_rules specOf_DateRules
    (show aliasLookup wRules specDateField.aliases = none by decide +kernel) hu.1 hu.2 (by
      simp only [fieldMsg, fieldOneof, typeSchema]
      rw [rulesVals_eq rulesSchema_Date schemaOf_DateRules, mkMsg_of schemaOf_Field, mkMsg_of schemaOf_DateField]
      cases rules <;> rfl)

def decimalFacts (rules : J5V.Compile.Rules) (l : Bool) (h : rulesOk j5Env b!"j5.schema.v1.DecimalField" rules = true) :
    FieldFacts (.decimal rules l) :=
  have hu := rulesOk_unpack h rulesSchema_Decimal schemaOf_DecimalRules
  plainFacts (f := .decimal rules l) rfl rfl rules (fun _ => rfl) rulesOK_Decimal pi_Decimal_rules specOf_DecimalRules
    (show aliasLookup wRules specDecimalField.aliases = none by decide +kernel) hu.1 hu.2 (by
      simp only [fieldMsg, fieldOneof, typeSchema]
      rw [rulesVals_eq rulesSchema_Decimal schemaOf_DecimalRules, mkMsg_of schemaOf_Field, mkMsg_of schemaOf_DecimalField]
      cases rules <;> rfl)

def timestampFacts (rules : J5V.Compile.Rules) (h : rulesOk j5Env b!"j5.schema.v1.TimestampField" rules = true) :
    FieldFacts (.timestamp rules) :=
  have hu := rulesOk_unpack h rulesSchema_Timestamp schemaOf_TimestampRules
  plainFacts (f := .timestamp rules) rfl rfl rules (fun _ => rfl) rulesOK_Timestamp pi_Timestamp_rules specOf_TimestampRules
    (show aliasLookup wRules specTimestampField.aliases = none by decide +kernel) hu.1 hu.2 (by
      simp only [fieldMsg, fieldOneof, typeSchema]
      rw [rulesVals_eq rulesSchema_Timestamp schemaOf_TimestampRules, mkMsg_of schemaOf_Field, mkMsg_of schemaOf_TimestampField]
      cases rules <;> rfl)

def anyFacts : FieldFacts .any where
  qualNames := []
  bodyNames := []
  blockNames := []
  tailP := fun _ _ => True
  qualVal := freshMsg sAnyField
  typeVal := freshMsg sAnyField
  pi := kind_pi2 rfl
  spec := kind_spec2 rfl
  specName := kindSpec_name
  specTypeSelect := kindSpec_typeSelect
  msg := by
    simp only [fieldMsg, fieldOneof, typeSchema]
    rw [mkMsg_of schemaOf_Field, mkMsg_of schemaOf_AnyField]
    rfl
  namesSub := by intro n hn; simp at hn
  qualSub := by intro _ n hn; cases hn
  blockSub := by intro kw hkw; cases hkw
  found := by intro d n hn; cases hn
  runQ := by
    intro outer root d _
    exact ⟨typeScope outer (tcfOf .any d) root, kindSpec .any, [], rfl, trivial, walkQualifiers_nil _ _ _ _⟩
  runB := by
    intro sc pfx a b C _ _
    exact doBody_nil _ _ _

/-! ## `integer:FMT`, `float:FMT` -/

def integerFacts (fmt : J5V.Compile.IntFmt) (rules : J5V.Compile.Rules) (l : Bool)
    (h : rulesOk j5Env b!"j5.schema.v1.IntegerField" rules = true) : FieldFacts (.integer fmt rules l) where
  qualNames := [b!"format"]
  bodyNames := [wRules]
  blockNames := []
  tailP := fun _ _ => True
  qualVal := .msg [true, false, false, false] [sEnum (intFmtNumber fmt), .absent, .absent, .absent]
  typeVal := .msg [true, !rules.isEmpty, false, false]
    [sEnum (intFmtNumber fmt), rulesNode sIntegerRules rules, .absent, .absent]
  pi := kind_pi2 rfl
  spec := kind_spec2 rfl
  specName := kindSpec_name
  specTypeSelect := kindSpec_typeSelect
  msg := by
    simp only [fieldMsg, fieldOneof, typeSchema]
    rw [rulesVals_eq rulesSchema_Integer schemaOf_IntegerRules, mkMsg_of schemaOf_Field,
      mkMsg_of schemaOf_IntegerField]
    cases rules <;> rfl
  namesSub := by
    intro n hn
    simp only [List.mem_singleton] at hn
    rcases hn with rfl | rfl <;> decide
  qualSub := by intro _ n hn; exact .inl (List.mem_singleton.mp hn)
  blockSub := by intro kw hkw; cases hkw
  found := by
    intro d n hn
    simp only [List.mem_singleton] at hn
    subst hn
    show (findBlock wRules [cfOf sIntegerField specIntegerField d]).isSome = true
    rw [findBlock_rules_self (sT := sIntegerField) (specT := specIntegerField) d
      (show aliasLookup wRules specIntegerField.aliases = none by decide +kernel) (propInfo_hasProperty pi_Integer_rules)]
    rfl
  runQ := by
    intro outer root d hmiss
    refine ⟨typeScope outer (cfOf sIntegerField specIntegerField d) root, specIntegerField, [], rfl, trivial, ?_⟩
    refine walkQualifiers_attr (tagSpec := ⟨b!"format", none, none, false, false⟩)
      (show specIntegerField.qualifier = _ by decide +kernel) rfl (checkBang_none _ _ rfl) ?_
    refine (setAttr_direct (n := b!"format") (pos := none) (t := [false, false, false, false])
      (vs := [.absent, .absent, .absent, .absent]) (cur := .absent) rfl
      ((findBlock_skip_all (hmiss _ (by simp))).trans
        (findBlock_prop' (show aliasLookup b!"format" specIntegerField.aliases = none by decide +kernel)
          (show sIntegerField.hasProperty b!"format" = true by decide +kernel)))
      pi_IntegerField_format rfl rfl (.inl rfl) (asArray_tag _) (intFmt_scalar fmt)).conv ?_
    rw [storeNode_intFmt]; rfl
  runB := by
    intro sc pfx a b C hr _
    have hu := rulesOk_unpack h rulesSchema_Integer schemaOf_IntegerRules
    exact hr.rules (List.mem_singleton.mpr rfl) rulesOK_Integer
      (findBlock_rules_self (sT := sIntegerField) (specT := specIntegerField) _
        (show aliasLookup wRules specIntegerField.aliases = none by decide +kernel)
        (propInfo_hasProperty pi_Integer_rules)) pi_Integer_rules
      specOf_IntegerRules (t := [true, false, false, false]) rfl rfl rules hu.1 hu.2

def floatFacts (fmt : J5V.Compile.FloatFmt) (rules : J5V.Compile.Rules) (l : Bool)
    (h : rulesOk j5Env b!"j5.schema.v1.FloatField" rules = true) : FieldFacts (.float fmt rules l) where
  qualNames := [b!"format"]
  bodyNames := [wRules]
  blockNames := []
  tailP := fun _ _ => True
  qualVal := .msg [true, false, false, false] [sEnum (floatFmtNumber fmt), .absent, .absent, .absent]
  typeVal := .msg [true, !rules.isEmpty, false, false]
    [sEnum (floatFmtNumber fmt), rulesNode sFloatRules rules, .absent, .absent]
  pi := kind_pi2 rfl
  spec := kind_spec2 rfl
  specName := kindSpec_name
  specTypeSelect := kindSpec_typeSelect
  msg := by
    simp only [fieldMsg, fieldOneof, typeSchema]
    rw [rulesVals_eq rulesSchema_Float schemaOf_FloatRules, mkMsg_of schemaOf_Field,
      mkMsg_of schemaOf_FloatField]
    cases rules <;> rfl
  namesSub := by
    intro n hn
    simp only [List.mem_singleton] at hn
    rcases hn with rfl | rfl <;> decide
  qualSub := by intro _ n hn; exact .inl (List.mem_singleton.mp hn)
  blockSub := by intro kw hkw; cases hkw
  found := by
    intro d n hn
    simp only [List.mem_singleton] at hn
    subst hn
    show (findBlock wRules [cfOf sFloatField specFloatField d]).isSome = true
    rw [findBlock_rules_self (sT := sFloatField) (specT := specFloatField) d
      (show aliasLookup wRules specFloatField.aliases = none by decide +kernel) (propInfo_hasProperty pi_Float_rules)]
    rfl
  runQ := by
    intro outer root d hmiss
    refine ⟨typeScope outer (cfOf sFloatField specFloatField d) root, specFloatField, [], rfl, trivial, ?_⟩
    refine walkQualifiers_attr (tagSpec := ⟨b!"format", none, none, false, false⟩)
      (show specFloatField.qualifier = _ by decide +kernel) rfl (checkBang_none _ _ rfl) ?_
    refine (setAttr_direct (n := b!"format") (pos := none) (t := [false, false, false, false])
      (vs := [.absent, .absent, .absent, .absent]) (cur := .absent) rfl
      ((findBlock_skip_all (hmiss _ (by simp))).trans
        (findBlock_prop' (show aliasLookup b!"format" specFloatField.aliases = none by decide +kernel)
          (show sFloatField.hasProperty b!"format" = true by decide +kernel)))
      pi_FloatField_format rfl rfl (.inl rfl) (asArray_tag _) (floatFmt_scalar fmt)).conv ?_
    rw [storeNode_floatFmt]; rfl
  runB := by
    intro sc pfx a b C hr _
    have hu := rulesOk_unpack h rulesSchema_Float schemaOf_FloatRules
    exact hr.rules (List.mem_singleton.mpr rfl) rulesOK_Float
      (findBlock_rules_self (sT := sFloatField) (specT := specFloatField) _
        (show aliasLookup wRules specFloatField.aliases = none by decide +kernel)
        (propInfo_hasProperty pi_Float_rules)) pi_Float_rules
      specOf_FloatRules (t := [true, false, false, false]) rfl rfl rules hu.1 hu.2

end J5V.Walker
