import J5V.Walker.Print
/-!
# Names and strings of the covered fragment: the lexer's round trips (print/parse proof)

ASCII byte strings are their own rune lists: `decodeRunes s = s`, `encodeRunes s = s`. So the string an
identifier tag (`refOf [name]`, `isIdent name`), a dotted reference (`dottedRef s`, `isDotted s`) or a
quoted string (`strValue s`, `okString s`) hands to the walker is the string of the AST.
-/
namespace J5V.Walker
open J5V.Bcl

/-- all bytes `< 128` -/
def isAscii (s : Str) : Bool := s.all fun b => b < 128

theorem decodeRunesFuel_ascii (s : Str) (h : isAscii s = true) (f : Nat) (hf : s.length ≤ f) :
    decodeRunesFuel f s = s := by
  induction s generalizing f with
  | nil => cases f <;> rfl
  | cons b bs ih =>
    cases f with
    | zero => simp at hf
    | succ f =>
      simp only [isAscii, List.all_cons, Bool.and_eq_true, decide_eq_true_eq] at h
      have hb : b < 0x80 := h.1
      simp only [decodeRunesFuel, decodeOne, hb, if_true, List.drop_succ_cons, List.drop_zero]
      rw [ih (by simpa [isAscii] using h.2) f (by simpa using hf)]

theorem decodeRunes_ascii {s : Str} (h : isAscii s = true) : decodeRunes s = s :=
  decodeRunesFuel_ascii s h _ (Nat.le_refl _)

theorem encodeRunes_ascii {s : Str} (h : isAscii s = true) : encodeRunes s = s := by
  induction s with
  | nil => rfl
  | cons b bs ih =>
    simp only [isAscii, List.all_cons, Bool.and_eq_true, decide_eq_true_eq] at h
    have hb : b < 0x80 := h.1
    simp only [encodeRunes, List.flatMap_cons, encodeRune, hb, if_true]
    have := ih (by simpa [isAscii] using h.2)
    simp only [encodeRunes] at this
    rw [this]; rfl

theorem encode_decode_ascii {s : Str} (h : isAscii s = true) : encodeRunes (decodeRunes s) = s := by
  rw [decodeRunes_ascii h, encodeRunes_ascii h]

theorem isAscii_of_okString {s : Str} (h : okString s = true) : isAscii s = true := by
  simp only [okString, List.all_eq_true, Bool.and_eq_true, decide_eq_true_eq] at h
  simp only [isAscii, List.all_eq_true, decide_eq_true_eq]
  exact fun b hb => (h b hb).1

theorem isAscii_of_isIdent {s : Str} (h : isIdent s = true) : isAscii s = true := by
  cases s with
  | nil => cases h
  | cons c rest =>
    simp only [isIdent, Bool.and_eq_true, List.all_eq_true, Bool.or_eq_true, decide_eq_true_eq] at h
    simp only [isAscii, List.all_cons, Bool.and_eq_true, decide_eq_true_eq, List.all_eq_true]
    refine ⟨?_, ?_⟩
    · have := h.1
      simp only [isAsciiLetter, Bool.or_eq_true, Bool.and_eq_true, decide_eq_true_eq] at this
      omega
    · intro b hb
      have := h.2 b hb
      simp only [isAsciiLetter, isAsciiDigit, Bool.or_eq_true, Bool.and_eq_true, decide_eq_true_eq] at this
      omega

/-- an identifier has no dot -/
theorem isIdent_no_dot {s : Str} (h : isIdent s = true) : ∀ b ∈ s, b ≠ 46 := by
  cases s with
  | nil => cases h
  | cons c rest =>
    simp only [isIdent, Bool.and_eq_true, List.all_eq_true, Bool.or_eq_true, decide_eq_true_eq] at h
    intro b hb
    rcases List.mem_cons.mp hb with rfl | hb
    · have := h.1
      simp only [isAsciiLetter, Bool.or_eq_true, Bool.and_eq_true, decide_eq_true_eq] at this
      omega
    · have := h.2 b hb
      simp only [isAsciiLetter, isAsciiDigit, Bool.or_eq_true, Bool.and_eq_true, decide_eq_true_eq] at this
      omega

/-! ## Splitting and joining on `.` -/

theorem splitOnByte_ne_nil (c : Nat) (s : Str) : J5V.Compile.splitOnByte c s ≠ [] := by
  induction s with
  | nil => simp [J5V.Compile.splitOnByte]
  | cons v rest ih =>
    simp only [J5V.Compile.splitOnByte]
    split
    · simp
    · split <;> simp

theorem joinWith_cons_cons (sep a : List Nat) (b : List Nat) (rest : List (List Nat)) :
    joinWith sep (a :: b :: rest) = a ++ sep ++ joinWith sep (b :: rest) := rfl

/-- `strings.Join(strings.Split(s, "."), ".") = s` -/
theorem joinWith_splitOnByte (c : Nat) (s : Str) : joinWith [c] (J5V.Compile.splitOnByte c s) = s := by
  induction s with
  | nil => rfl
  | cons v rest ih =>
    simp only [J5V.Compile.splitOnByte]
    split
    · rename_i hv
      subst hv
      cases hs : J5V.Compile.splitOnByte v rest with
      | nil => exact absurd hs (splitOnByte_ne_nil v rest)
      | cons p ps =>
        rw [joinWith_cons_cons, ← hs, ih]; rfl
    · cases hs : J5V.Compile.splitOnByte c rest with
      | nil => exact absurd hs (splitOnByte_ne_nil c rest)
      | cons p ps =>
        rw [hs] at ih
        dsimp only
        cases ps with
        | nil =>
          simp only [joinWith] at ih ⊢
          rw [ih]
        | cons q qs =>
          rw [joinWith_cons_cons] at ih ⊢
          rw [← ih]; simp

theorem isAscii_append {a b : Str} : isAscii (a ++ b) = (isAscii a && isAscii b) := by
  simp [isAscii, List.all_append]

theorem isAscii_joinWith_dot (parts : List Str) (h : ∀ p ∈ parts, isAscii p = true) :
    isAscii (joinWith [46] parts) = true := by
  induction parts with
  | nil => rfl
  | cons a rest ih =>
    cases rest with
    | nil => exact h a (by simp)
    | cons b rest =>
      rw [joinWith_cons_cons, isAscii_append, isAscii_append, h a (by simp),
        ih (fun p hp => h p (List.mem_cons_of_mem _ hp))]
      rfl

theorem isAscii_of_isDotted {s : Str} (h : isDotted s = true) : isAscii s = true := by
  rw [← joinWith_splitOnByte 46 s]
  apply isAscii_joinWith_dot
  intro p hp
  simp only [isDotted, List.all_eq_true] at h
  exact isAscii_of_isIdent (h p hp)

/-! ## What the walker reads from the printed nodes -/

/-- `Reference.String()` of a dotted reference, as a Go string -/
theorem dottedRef_string {s : Str} (h : isDotted s = true) : encodeRunes (dottedRef s).string = s := by
  have hparts : (J5V.Compile.splitOnByte 46 s).map decodeRunes = J5V.Compile.splitOnByte 46 s := by
    simp only [isDotted, List.all_eq_true] at h
    have : (J5V.Compile.splitOnByte 46 s).map decodeRunes = (J5V.Compile.splitOnByte 46 s).map id :=
      List.map_congr_left (fun p hp => decodeRunes_ascii (isAscii_of_isIdent (h p hp)))
    rw [this, List.map_id]
  simp only [dottedRef, refOf, Reference.string, List.map_map]
  have : ((fun x => x.value) ∘ identOf) = decodeRunes := by funext x; rfl
  rw [this, hparts]
  show encodeRunes (joinWith [46] _) = s
  rw [joinWith_splitOnByte, encodeRunes_ascii (isAscii_of_isDotted h)]

/-- `Reference.String()` of a one-identifier reference -/
theorem refOf_single_string {s : Str} (h : isAscii s = true) : encodeRunes (refOf [s]).string = s := by
  show encodeRunes (decodeRunes s) = s
  exact encode_decode_ascii h

/-- the path element of a one-identifier reference -/
theorem combinePath_ident {s : Str} (h : isAscii s = true) (path : PathSpec) :
    combinePath path (refOf [s]).idents = path.map (fun n => ⟨n, none⟩) ++ [⟨s, some Span.zero⟩] := by
  simp only [combinePath, refOf, List.map_cons, List.map_nil, identOf]
  rw [encode_decode_ascii h]

/-- `AsString()` of a tag that is a one-identifier reference -/
theorem asString_tagRef_single {s : Str} (h : isAscii s = true) (mark : TagMark) :
    (AV.tag (tagRef mark (refOf [s]))).asString = some s := by
  simp only [AV.asString, tagRef]
  rw [refOf_single_string h]

theorem asString_tagRef_dotted {s : Str} (h : isDotted s = true) (mark : TagMark) :
    (AV.tag (tagRef mark (dottedRef s))).asString = some s := by
  simp only [AV.asString, tagRef]
  rw [dottedRef_string h]

/-- `AsString()` of a quoted tag -/
theorem asString_tagStr {s : Str} (h : isAscii s = true) : (AV.tag (tagStr s)).asString = some s := by
  simp only [AV.asString, tagStr, strValue, valueAsString, valueToken, tok0]
  rw [encode_decode_ascii h]

/-- `AsString()` of a quoted value -/
theorem asString_strValue {s : Str} (h : isAscii s = true) : (AV.value (strValue s)).asString = some s := by
  simp only [AV.asString, strValue, valueAsString, valueToken, tok0]
  rw [encode_decode_ascii h]

theorem asArray_tag (t : TagValue) : (AV.tag t).asArray = none := rfl
theorem asArray_bool (b : Bool) : (AV.bool b).asArray = none := rfl
theorem asArray_strValue (s : Str) : (AV.value (strValue s)).asArray = none := rfl
theorem asArray_boolValue (b : Bool) : (AV.value (boolValue b)).asArray = none := rfl

theorem asBool_boolValue (b : Bool) : (AV.value (boolValue b)).asBool = some b := by
  cases b <;> rfl

end J5V.Walker
