import J5V.Walker.PP.Props
import J5V.Walker.PP.Fold
import J5V.Walker.PP.Slice1a
/-!
# Print/parse, first slice (e): property lists, top-level objects, imports

* `props_appendsAll`: the statements `propsBcl kw ps` append `propsMsg j5Env ps` (any enclosing block
  with an alias `kw → [pn]` to an array of `ObjectProperty`);
* `object_appends`: `object NAME { fields }` at top level appends `<object={…}>` to `elements`;
* `import_appends`: the three forms of `import` append `{path[, alias]}` to `imports`.
-/
namespace J5V.Walker
open J5V.Bcl

/-! ## Property lists -/

def propsOk1 : List CProperty → Bool
  | [] => true
  | p :: ps => propOk1 p && propsOk1 ps

theorem props_appendsAll {kw : Str} (hkw : isAscii kw = true) {sc : Scope} {s : Schema} {spec : BlockSpec}
    {c : Addr} {pn : Str} {i : Nat}
    (hfb : findBlock kw sc.blockSet = some (cfOf s spec c, [pn]))
    (hpi : propInfo j5Env s pn = some (i, none, .arrayOfContainer sObjectProperty))
    (ps : List CProperty) (hps : propsOk1 ps = true) :
    AppendsAll j5Env sc c i (propsBcl kw ps) (propsMsg j5Env ps) := by
  induction ps with
  | nil => exact .nil
  | cons p ps ih =>
    simp only [propsOk1, Bool.and_eq_true] at hps
    simp only [propsBcl, propsMsg]
    exact .cons (fun xs t vs ht hv => prop_stmt_exact hps.1 hkw hfb hpi ht hv) (ih hps.2)

/-! ## Table facts -/

theorem pi_SourceFile_imports :
    propInfo j5Env sSourceFile b!"imports" = some (2, none, .arrayOfContainer sImport) := by
  rw [j5Env_nf]; decide +kernel
theorem pi_SourceFile_elements :
    propInfo j5Env sSourceFile b!"elements" = some (3, none, .arrayOfContainer sRootElement) := by
  rw [j5Env_nf]; decide +kernel

/-- the proto oneof of `j5.sourcedef.v1.RootElement` -/
def gRootElement : Str × List Nat := (b!"j5.sourcedef.v1.RootElement.type", [])

theorem pi_RootElement_object :
    propInfo j5Env sRootElement wObject = some (2, some gRootElement, .container sObject) := by
  rw [j5Env_nf]; decide +kernel
theorem pi_Object_name : propInfo j5Env sObject wName = some (0, none, .scalar (.scalar .string) false) := by
  rw [j5Env_nf]; decide +kernel
theorem pi_Object_properties :
    propInfo j5Env sObject b!"properties" = some (3, none, .arrayOfContainer sObjectProperty) := by
  rw [j5Env_nf]; decide +kernel
theorem pi_Import_path : propInfo j5Env sImport b!"path" = some (0, none, .scalar (.scalar .string) false) := by
  rw [j5Env_nf]; decide +kernel
theorem pi_Import_alias : propInfo j5Env sImport b!"alias" = some (1, none, .scalar (.scalar .string) false) := by
  rw [j5Env_nf]; decide +kernel

/-! ## Top-level objects -/

/-- an object declaration of the first slice: fields only -/
def objDeclOk1 : J5V.Compile.ObjDecl → Bool
  | .mk name props nested psm => isIdent name && psm.isNone && propsOk1 props && nested.isEmpty

/-- `j5.sourcedef.v1.Object` with a name and the properties `ps` -/
def objNode (name : Str) (ps : List Node) : Node :=
  .msg [true, false, false, !ps.isEmpty, false, false] [sStr name, .absent, .absent, listSlot ps, .absent, .absent]

theorem objectMsg_eq (name : Str) (props : List CProperty) (psm : Option J5V.Compile.Psm) :
    objectMsg j5Env false (.mk name props [] psm) = objNode name (propsMsg j5Env props) := by
  simp only [objectMsg, nestedMsg, Bool.false_eq_true, if_false]
  rw [mkMsg_of schemaOf_Object]
  generalize propsMsg j5Env props = ps
  cases ps <;> rfl

theorem elemMsg_object_eq (o : J5V.Compile.ObjDecl) :
    elemMsg j5Env (.object o) = oneofMsg 6 2 (objectMsg j5Env false o) := by
  simp only [elemMsg, rootOneof]
  rw [mkMsg_of schemaOf_RootElement]
  rfl

/-- the object block at `d` -/
abbrev objCF (d : Addr) : ContainerField := cfOf sObject specObject d

/-- `object NAME { fields }`, given that the field statements append the property messages -/
theorem object_appends_of {name : Str} {props : List CProperty} {psm : Option J5V.Compile.Psm}
    (hname : isIdent name = true)
    (hall : ∀ d, AppendsAll j5Env (Scope.newChild (objCF d)) d 3 (propsBcl wField props) (propsMsg j5Env props)) :
    Appends j5Env rootScope [] 3 (elemBcl (.object (.mk name props [] psm)))
      (elemMsg j5Env (.object (.mk name props [] psm))) := by
  intro xs t vs ht hv
  rw [elemMsg_object_eq, objectMsg_eq]
  let d : Addr := [] ++ [3, xs.length, 2]
  -- the head: the name tag
  have hhead : Exact (doBlockHead j5Env (Scope.newChild (objCF d)) specObject
      ⟨refOf [wObject], [nameTag name], [], none, true, src0⟩) d (freshMsg sObject) (Scope.newChild (objCF d))
      (objNode name []) := by
    refine doBlockHead_exact (spec2 := specObject) rfl
      (walkTags_name (ns := ⟨wName, none, none, false, false⟩) (by decide +kernel) (by decide +kernel)
        (applyNameTag_exact (checkBang_none _ _ rfl) ?_)) (walkQualifiers_nil _ _ _ _)
    refine (setAttr_direct (n := wName) (pos := none) (t := [false, false, false, false, false, false])
      (vs := [.absent, .absent, .absent, .absent, .absent, .absent]) (cur := .absent) (v := .str name) rfl
      (findBlock_prop' (show aliasLookup wName specObject.aliases = none by decide +kernel)
        (propInfo_hasProperty pi_Object_name))
      pi_Object_name rfl rfl (.inl rfl) (asArray_tag _)
      (by simp only [scalarFromAST, nameTag, asString_tagRef_single (isAscii_of_isIdent hname)]; rfl)).conv ?_
    rw [storeNode_str]; rfl
  -- the body: the fields
  have hbody : Exact (doBody j5Env (Scope.newChild (objCF d)) (propsBcl wField props ++ nestedBcl [])) d
      (objNode name []) () (objNode name (propsMsg j5Env props)) := by
    refine doBody_append ((appends_fold (hall d) [] _ _ rfl rfl).conv ?_) (doBody_nil _ _ _)
    rw [List.nil_append]; rfl
  exact arrayMemberBlock_exact (kw := wObject) (by decide)
    (findBlock_alias' (show aliasLookup wObject specSourceFile.aliases = some [b!"elements", wObject] by decide +kernel))
    pi_SourceFile_elements pi_RootElement_object (specOf_RootElement _) (specOf_Object _) ht hv
    fresh_RootElement rfl rfl rfl hhead hbody

theorem findBlock_field_objCF (d : Addr) :
    findBlock wField (Scope.newChild (objCF d)).blockSet = some (objCF d, [b!"properties"]) :=
  findBlock_alias' (show aliasLookup wField specObject.aliases = some [b!"properties"] by decide +kernel)

/-- `object NAME { fields }` -/
theorem object_appends {o : J5V.Compile.ObjDecl} (ho : objDeclOk1 o = true) :
    Appends j5Env rootScope [] 3 (elemBcl (.object o)) (elemMsg j5Env (.object o)) := by
  obtain ⟨name, props, nested, psm⟩ := o
  simp only [objDeclOk1, Bool.and_eq_true, List.isEmpty_iff] at ho
  obtain ⟨⟨⟨hname, _⟩, hprops⟩, hnested⟩ := ho
  subst hnested
  exact object_appends_of hname (fun d =>
    props_appendsAll (kw := wField) (by decide) (findBlock_field_objCF d) pi_Object_properties props hprops)

/-! ## Imports -/

/-- `j5.sourcedef.v1.Import` -/
def importNode (path : Str) (hasAlias : Bool) (alias : Str) : Node :=
  .msg [true, hasAlias] [sStr path, if hasAlias then sStr alias else .absent]

theorem importMsg_eq (i : J5V.Compile.Import) :
    importMsg j5Env i = importNode i.path (!i.path.contains 47 && i.alias != []) i.alias := by
  simp only [importMsg]
  rw [mkMsg_of schemaOf_Import]
  cases (!i.path.contains 47 && i.alias != []) <;> rfl

/-- the import block at `e` -/
abbrev importCF (e : Addr) : ContainerField := cfOf sImport specImport e

theorem import_setPath {e : Addr} {tag : TagValue} {path : Str}
    (has : (AV.tag tag).asString = some path) :
    Exact (applyNameTag j5Env (Scope.newChild (importCF e)) ⟨b!"path", none, none, false, false⟩ tag) e
      (freshMsg sImport) () (.msg [true, false] [sStr path, .absent]) ∨ tag.mark ≠ .none := by
  by_cases hm : tag.mark = .none
  · left
    refine applyNameTag_exact (checkBang_none _ _ hm) ?_
    refine (setAttr_direct (n := b!"path") (pos := none) (t := [false, false]) (vs := [.absent, .absent])
      (cur := .absent) (v := .str path) rfl
      (findBlock_prop' (show aliasLookup b!"path" specImport.aliases = none from rfl)
        (propInfo_hasProperty pi_Import_path))
      pi_Import_path rfl rfl (.inl rfl) (asArray_tag _)
      (by simp only [scalarFromAST, has]; rfl)).conv ?_
    rw [storeNode_str]; rfl
  · right; exact hm

/-- `import "a/b.proto"`, `import a.b`, `import a.b:alias` -/
theorem import_appends {i : J5V.Compile.Import} (hi : importOk i = true) :
    Appends j5Env rootScope [] 2 (importBcl i) (importMsg j5Env i) := by
  intro xs t vs ht hv
  rw [importMsg_eq]
  have hfb : findBlock b!"import" rootScope.blockSet = some (rootCF, [b!"imports"]) :=
    findBlock_alias' (show aliasLookup b!"import" specSourceFile.aliases = some [b!"imports"] by decide +kernel)
  have hn : specImport.name = some ⟨b!"path", none, none, false, false⟩ := by decide +kernel
  have hts : specImport.typeSelect = none := by decide +kernel
  unfold importBcl
  unfold importOk at hi
  by_cases hslash : i.path.contains 47 = true
  · -- a quoted path
    rw [if_pos hslash] at hi ⊢
    rw [hslash]
    have hp := (import_setPath (e := [] ++ [2, xs.length]) (asString_tagStr (isAscii_of_okString hi))).resolve_right
      (by simp [tagStr])
    exact arrayBlock_exact (kw := b!"import") (by decide) hfb pi_SourceFile_imports (specOf_Import _) ht hv
      (doBlockHead_exact (spec2 := specImport) rfl (walkTags_name hn hts hp) (walkQualifiers_nil _ _ _ _))
      (doBody_nil _ _ _)
  · rw [if_neg hslash] at hi ⊢
    simp only [Bool.and_eq_true, Bool.or_eq_true, decide_eq_true_eq] at hi
    obtain ⟨hpath, halias⟩ := hi
    have hslash' : i.path.contains 47 = false := by simpa using hslash
    rw [hslash']
    have hp := (import_setPath (e := [] ++ [2, xs.length])
      (asString_tagRef_dotted hpath .none)).resolve_right (by simp [tagRef])
    by_cases hal : i.alias = []
    · -- no alias
      rw [if_pos hal, hal]
      exact arrayBlock_exact (kw := b!"import") (by decide) hfb pi_SourceFile_imports (specOf_Import _) ht hv
        (doBlockHead_exact (spec2 := specImport) rfl (walkTags_name hn hts hp) (walkQualifiers_nil _ _ _ _))
        (doBody_nil _ _ _)
    · -- an alias: the qualifier
      rw [if_neg hal]
      have hid : isIdent i.alias = true := halias.resolve_left hal
      have hne : (i.alias != []) = true := by simpa using hal
      rw [hne]
      have hq : Exact (walkQualifiers j5Env [tagRef .none (refOf [i.alias])]
          (Scope.newChild (importCF ([] ++ [2, xs.length]))) specImport) ([] ++ [2, xs.length])
          (.msg [true, false] [sStr i.path, .absent])
          (Scope.newChild (importCF ([] ++ [2, xs.length])), specImport)
          (importNode i.path true i.alias) := by
        refine walkQualifiers_attr (tagSpec := ⟨b!"alias", none, none, false, false⟩) (by decide +kernel) rfl
          (checkBang_none _ _ rfl) ?_
        refine (setAttr_direct (n := b!"alias") (pos := none) (t := [true, false]) (vs := [sStr i.path, .absent])
          (cur := .absent) (v := .str i.alias) rfl
          (findBlock_prop' (show aliasLookup b!"alias" specImport.aliases = none from rfl)
            (propInfo_hasProperty pi_Import_alias))
          pi_Import_alias rfl rfl (.inl rfl) (asArray_tag _)
          (by simp only [scalarFromAST, asString_tagRef_single (isAscii_of_isIdent hid)]; rfl)).conv ?_
        rw [storeNode_str]; rfl
      exact arrayBlock_exact (kw := b!"import") (by decide) hfb pi_SourceFile_imports (specOf_Import _) ht hv
        (doBlockHead_exact (spec2 := specImport) rfl (walkTags_name hn hts hp) hq)
        (doBody_nil _ _ _)

end J5V.Walker
