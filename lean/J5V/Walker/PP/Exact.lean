import J5V.Walker.Hoare
import J5V.Walker.Walk
/-!
# Exact, local runs of the state monad `M` (print/parse proof, part 1)

`Exact m a X r X'`: started in ANY tree whose subtree at address `a` is `X`, the computation `m`
succeeds with result `r` and leaves `X'` at `a`; the rest of the tree is untouched. This is the relation
for symbolic execution of the walker on a concrete statement: control flow is concrete, names and list
lengths are symbolic, and the state stays in the normal form `S.set a X`.

Rules: `pure`, `bind`, `lift` (to a parent address), `getNode`, `setNode`, `liftRes`, `mapErr`,
`addPosition`, `tryCatch` (identity on a successful run), `conv` (rewrite the final subtree), `congr`
(rewrite the computation). Node algebra: `Node.set_set`, `Node.set_get_self`, `Node.set_append`,
`get?`/`set` on `.msg` / `.list` children (`Node.get?_msg_cons`, `Node.set_msg_cons`, …) and on the
last element of a list (`…_concat`).
-/
namespace J5V.Walker

/-! ## `modifyNth`, `Node.set` algebra -/

theorem modifyNth_modifyNth (f g : Node → Node) (l : List Node) (i : Nat) :
    modifyNth f (modifyNth g l i) i = modifyNth (fun c => f (g c)) l i := by
  induction l generalizing i with
  | nil => rfl
  | cons c cs ih => cases i <;> simp [modifyNth, ih]

theorem modifyNth_congr {f g : Node → Node} (l : List Node) (i : Nat)
    (h : ∀ c, l[i]? = some c → f c = g c) : modifyNth f l i = modifyNth g l i := by
  induction l generalizing i with
  | nil => rfl
  | cons c cs ih =>
    cases i with
    | zero => simp [modifyNth, h c]
    | succ i =>
      simp only [modifyNth]
      rw [ih i (fun c hc => h c (by simpa using hc))]

theorem modifyNth_id (l : List Node) (i : Nat) (f : Node → Node)
    (h : ∀ c, l[i]? = some c → f c = c) : modifyNth f l i = l := by
  induction l generalizing i with
  | nil => rfl
  | cons c cs ih =>
    cases i with
    | zero => simp [modifyNth, h c]
    | succ i =>
      simp only [modifyNth]
      rw [ih i (fun c hc => h c (by simpa using hc))]

theorem modifyNth_concat_length (f : Node → Node) (xs : List Node) (x : Node) :
    modifyNth f (xs ++ [x]) xs.length = xs ++ [f x] := by
  induction xs with
  | nil => rfl
  | cons c cs ih => simp [modifyNth, ih]

/-- writing twice at one address: the second write wins -/
theorem Node.set_set (S : Node) (a : Addr) (X Y : Node) : (S.set a X).set a Y = S.set a Y := by
  induction a generalizing S with
  | nil => simp
  | cons i rest ih =>
    cases S <;> simp only [Node.set] <;> rw [modifyNth_modifyNth] <;>
      simp only [ih]

/-- writing back what is there changes nothing -/
theorem Node.set_get_self {S : Node} {a : Addr} {X : Node} (h : S.get? a = some X) : S.set a X = S := by
  induction a generalizing S with
  | nil => simp at h; simp [h]
  | cons i rest ih =>
    rw [Node.get?_cons] at h
    cases hc : S.children[i]? with
    | none => simp [hc] at h
    | some c =>
      simp only [hc, Option.bind_some] at h
      cases S <;> simp only [Node.children] at hc <;> simp only [Node.set] <;>
        first
        | (congr 1; apply modifyNth_id; intro c' hc'; rw [hc] at hc'; cases hc'; exact ih h)
        | simp at hc

/-- a write below `a` is a write at `a` of the updated subtree -/
theorem Node.set_append {S : Node} {a : Addr} {X : Node} (h : S.get? a = some X) (b : Addr) (Y : Node) :
    S.set (a ++ b) Y = S.set a (X.set b Y) := by
  induction a generalizing S with
  | nil => simp at h; simp [h]
  | cons i rest ih =>
    rw [Node.get?_cons] at h
    cases hc : S.children[i]? with
    | none => simp [hc] at h
    | some c =>
      simp only [hc, Option.bind_some] at h
      cases S <;> simp only [Node.children] at hc <;> simp only [List.cons_append, Node.set] <;>
        first
        | (congr 1; apply modifyNth_congr; intro c' hc'; rw [hc] at hc'; cases hc'; exact ih h)
        | simp at hc

theorem Node.get?_set_self' {S : Node} {a : Addr} {X : Node} (h : S.get? a = some X) (Y : Node) :
    (S.set a Y).get? a = some Y :=
  Node.get?_set_same S a Y (by rw [h]; rfl)

/-! ### Children of explicit nodes -/

@[simp] theorem Node.get?_msg_cons (t : List Bool) (ps : List Node) (i : Nat) (rest : Addr) :
    (Node.msg t ps).get? (i :: rest) = (ps[i]?).bind (fun c => c.get? rest) :=
  Node.get?_cons _ _ _

@[simp] theorem Node.get?_list_cons (xs : List Node) (i : Nat) (rest : Addr) :
    (Node.list xs).get? (i :: rest) = (xs[i]?).bind (fun c => c.get? rest) :=
  Node.get?_cons _ _ _

theorem Node.set_msg_cons (t : List Bool) (ps : List Node) (i : Nat) (rest : Addr) (v c : Node)
    (h : ps[i]? = some c) : (Node.msg t ps).set (i :: rest) v = .msg t (ps.set i (c.set rest v)) := by
  simp only [Node.set]; rw [modifyNth_eq_set _ _ _ _ h]

theorem Node.set_list_cons (xs : List Node) (i : Nat) (rest : Addr) (v c : Node)
    (h : xs[i]? = some c) : (Node.list xs).set (i :: rest) v = .list (xs.set i (c.set rest v)) := by
  simp only [Node.set]; rw [modifyNth_eq_set _ _ _ _ h]

theorem Node.set_list_concat (xs : List Node) (x : Node) (rest : Addr) (v : Node) :
    (Node.list (xs ++ [x])).set (xs.length :: rest) v = .list (xs ++ [x.set rest v]) := by
  simp only [Node.set]; rw [modifyNth_concat_length]

theorem Node.get?_list_concat (xs : List Node) (x : Node) (rest : Addr) :
    (Node.list (xs ++ [x])).get? (xs.length :: rest) = x.get? rest := by
  rw [Node.get?_list_cons, List.getElem?_concat_length]; rfl

/-- the last element of the list in slot `i` of a message -/
theorem Node.get?_msg_list_last (t : List Bool) (ps : List Node) (i : Nat) (xs : List Node) (x : Node)
    (h : ps[i]? = some (.list (xs ++ [x]))) : (Node.msg t ps).get? [i, xs.length] = some x := by
  rw [Node.get?_msg_cons, h, Option.bind_some, Node.get?_list_concat]; rfl

theorem Node.set_msg_list_last (t : List Bool) (ps : List Node) (i : Nat) (xs : List Node) (x v : Node)
    (h : ps[i]? = some (.list (xs ++ [x]))) :
    (Node.msg t ps).set [i, xs.length] v = .msg t (ps.set i (.list (xs ++ [v]))) := by
  rw [Node.set_msg_cons _ _ _ _ _ _ h, Node.set_list_concat, Node.set_nil]

theorem Node.get?_msg_single (t : List Bool) (ps : List Node) (i : Nat) (x : Node)
    (h : ps[i]? = some x) : (Node.msg t ps).get? [i] = some x := by
  rw [Node.get?_msg_cons, h]; rfl

theorem Node.set_msg_single (t : List Bool) (ps : List Node) (i : Nat) (x v : Node)
    (h : ps[i]? = some x) : (Node.msg t ps).set [i] v = .msg t (ps.set i v) := by
  rw [Node.set_msg_cons _ _ _ _ _ _ h, Node.set_nil]

/-! ## The relation -/

/-- started in any tree whose subtree at `a` is `X`, `m` returns `r` and leaves `X'` at `a` -/
def Exact {α : Type} (m : M α) (a : Addr) (X : Node) (r : α) (X' : Node) : Prop :=
  ∀ S, S.get? a = some X → m S = .ok (r, S.set a X')

namespace Exact
variable {α β : Type}

theorem pure (a : Addr) (X : Node) (r : α) : Exact (Pure.pure r : M α) a X r X := by
  intro S hS; rw [Node.set_get_self hS]; rfl

theorem bind {m : M α} {k : α → M β} {a : Addr} {X X1 X2 : Node} {r : α} {r' : β}
    (h1 : Exact m a X r X1) (h2 : Exact (k r) a X1 r' X2) : Exact (m >>= k) a X r' X2 := by
  intro S hS
  rw [M.bind_apply, h1 S hS]
  show k r (S.set a X1) = _
  rw [h2 _ (Node.get?_set_self' hS X1), Node.set_set]

/-- rewrite the final subtree -/
theorem conv {m : M α} {a : Addr} {X X1 X1' : Node} {r : α}
    (h : Exact m a X r X1) (e : X1 = X1') : Exact m a X r X1' := e ▸ h

/-- rewrite the result -/
theorem conv_res {m : M α} {a : Addr} {X X1 : Node} {r r' : α}
    (h : Exact m a X r X1) (e : r = r') : Exact m a X r' X1 := e ▸ h

/-- rewrite the computation -/
theorem congr {m m' : M α} {a : Addr} {X X1 : Node} {r : α}
    (h : Exact m a X r X1) (e : m' = m) : Exact m' a X r X1 := e ▸ h

/-- a run below `a ++ b` is a run below `a` -/
theorem lift {m : M α} {a b : Addr} {X Y Y' : Node} {r : α}
    (h : Exact m (a ++ b) Y r Y') (hX : X.get? b = some Y) : Exact m a X r (X.set b Y') := by
  intro S hS
  have : S.get? (a ++ b) = some Y := by rw [Node.get?_append, hS]; exact hX
  rw [h S this, Node.set_append hS]

/-- `lift` with the final subtree given -/
theorem lift' {m : M α} {a b : Addr} {X Y Y' X' : Node} {r : α}
    (h : Exact m (a ++ b) Y r Y') (hX : X.get? b = some Y) (e : X.set b Y' = X') : Exact m a X r X' :=
  (h.lift hX).conv e

theorem getNode {a b : Addr} {X Y : Node} (h : X.get? b = some Y) :
    Exact (J5V.Walker.getNode (a ++ b)) a X Y X := by
  intro S hS
  have : S.get? (a ++ b) = some Y := by rw [Node.get?_append, hS]; exact h
  rw [getNode_apply, this, Node.set_get_self hS]

theorem getNode_self {a : Addr} {X : Node} : Exact (J5V.Walker.getNode a) a X X X := by
  intro S hS
  rw [getNode_apply, hS, Node.set_get_self hS]

theorem setNode {a b : Addr} {X : Node} (v : Node) :
    Exact (J5V.Walker.setNode (a ++ b) v) a X () (X.set b v) := by
  intro S hS
  rw [setNode_apply, Node.set_append hS]

theorem setNode_self {a : Addr} {X : Node} (v : Node) : Exact (J5V.Walker.setNode a v) a X () v := by
  intro S _; rfl

theorem liftRes {a : Addr} {X : Node} {r : α} {res : Res α} (h : res = .ok r) :
    Exact (M.lift res) a X r X := by
  subst h; exact Exact.pure a X r

theorem mapErr {m : M α} {a : Addr} {X X1 : Node} {r : α} (h : Exact m a X r X1) (g : WErr → WErr) :
    Exact (m.mapErr g) a X r X1 := by
  intro S hS; rw [M.mapErr_apply, h S hS]

theorem addPosition {m : M α} {a : Addr} {X X1 : Node} {r : α} (h : Exact m a X r X1)
    (p : J5V.Bcl.Span) : Exact (m.addPosition p) a X r X1 := h.mapErr _

theorem tryCatch {m : M α} {a : Addr} {X X1 : Node} {r : α} (h : Exact m a X r X1)
    (g : WErr → M α) : Exact (m.tryCatch g) a X r X1 := by
  intro S hS; show (match m S with | .ok r => Res.ok r | .err e => g e S | .panic w => .panic w) = _
  rw [h S hS]

theorem ite_pos {c : Prop} [Decidable c] {m1 m2 : M α} {a : Addr} {X X1 : Node} {r : α}
    (hc : c) (h : Exact m1 a X r X1) : Exact (if c then m1 else m2) a X r X1 := by
  rw [if_pos hc]; exact h

theorem ite_neg {c : Prop} [Decidable c] {m1 m2 : M α} {a : Addr} {X X1 : Node} {r : α}
    (hc : ¬ c) (h : Exact m2 a X r X1) : Exact (if c then m1 else m2) a X r X1 := by
  rw [if_neg hc]; exact h

/-- a run inside property `i` of the message at `a` -/
theorem lift_prop {m : M α} {a : Addr} {t : List Bool} {vs : List Node} {i : Nat} {Y Y' : Node} {r : α}
    (hv : vs[i]? = some Y) (h : Exact m (a ++ [i]) Y r Y') :
    Exact m a (.msg t vs) r (.msg t (vs.set i Y')) :=
  (h.lift (X := .msg t vs) (Node.get?_msg_single t vs i Y hv)).conv (Node.set_msg_single t vs i Y Y' hv)

/-- a run inside the LAST element of the list in property `i` of the message at `a` -/
theorem lift_elem {m : M α} {a : Addr} {t : List Bool} {vs : List Node} {i : Nat} {xs : List Node}
    {E E' : Node} {r : α}
    (hv : vs[i]? = some (.list (xs ++ [E]))) (h : Exact m (a ++ [i, xs.length]) E r E') :
    Exact m a (.msg t vs) r (.msg t (vs.set i (.list (xs ++ [E'])))) :=
  (h.lift (X := .msg t vs) (Node.get?_msg_list_last t vs i xs E hv)).conv
    (Node.set_msg_list_last t vs i xs E E' hv)

/-- elimination at the root -/
theorem run_root {m : M α} {X X' : Node} {r : α} (h : Exact m [] X r X') : m X = .ok (r, X') := by
  have := h X (by simp); simpa using this

end Exact

end J5V.Walker
