import J5V.Walker.PP.GenWalk
import J5V.Walker.PP.MkMsg
import J5V.Walker.PP.Lits
/-!
# Print/parse: `rules.NAME = LIT` lines

`ruleLine_exact`: one line, given the exact walk from the scope to the `rules` container (so that the
same lemma serves the direct field and array / map items, whose lines carry a prefix);
`rulesBody_exact`: the list `rulesBcl pfx rules`, with the accumulator "the rules message holds `vals`".
The rules message is the symbolic `mkMsgS sR vals` (`MkMsg.lean`).
-/
namespace J5V.Walker
open J5V.Bcl

/-- what the tables must say about a rules schema `sR`: names distinct, no proto oneof, no alias -/
structure RulesSchemaOK (sR : Schema) (specR : BlockSpec) : Prop where
  distinct : sR.namesDistinct = true
  noOneof : sR.props.all (fun p => p.oneofGroup.isNone) = true
  noAlias : specR.aliases = []

theorem findProp_mem {n : Str} {k : Nat} {props : List Property} {i : Nat} {p : Property}
    (h : findProp n k props = some (i, p)) : p ∈ props := by
  obtain ⟨j, _, hp, _⟩ := findProp_spec h
  exact List.mem_of_getElem? hp

/-- the path elements of a reference written with ASCII identifiers -/
theorem combinePath_refOf {l : List Str} (h : ∀ s ∈ l, isAscii s = true) :
    combinePath [] (refOf l).idents = l.map fun s => ⟨s, some Span.zero⟩ := by
  simp only [combinePath, refOf, List.map_nil, List.nil_append, List.map_map]
  apply List.map_congr_left
  intro s hs
  simp only [Function.comp, identOf]
  rw [encode_decode_ascii (h s hs)]

/-- one rule line, given the walk to the rules container at `a ++ b` holding `mkMsgS sR vals` (the scope
reached looks names up in the rules block) -/
theorem ruleLine_exact {sR : Schema} {specR : BlockSpec} (hR : RulesSchemaOK sR specR)
    {sc ps : Scope} {key : List Str} {pre : List PathElement} {a b : Addr} {X X1 : Node}
    {vals : List (Str × Node)} {r : J5V.Compile.Rule}
    (hfp : combinePath [] (refOf key).idents = pre ++ [⟨r.name, some Span.zero⟩])
    (hws : Exact (walkScope j5Env sc pre) a X ps X1)
    (hps : ∀ n, findBlock n ps.blockSet = findBlock n [cfOf sR specR (a ++ b)])
    (hX1 : X1.get? b = some (mkMsgS sR vals))
    (hok : ruleOk sR r = true) (hstr : strOk r.lit = true) (hnew : lookupVal r.name vals = none) :
    Exact (doStatement j5Env sc (assignStmt key (litValue r.lit))) a X ()
      (X1.set b (mkMsgS sR (vals ++ [ruleVal sR r]))) := by
  simp only [ruleOk, Bool.and_eq_true] at hok
  obtain ⟨_, hok2⟩ := hok
  cases hf : findProp r.name 0 sR.props with
  | none => rw [hf] at hok2; cases hok2
  | some ip =>
    obtain ⟨i, p⟩ := ip
    rw [hf] at hok2
    dsimp only at hok2
    have hrv : ruleVal sR r = (r.name, (litNode p r.lit).getD .absent) := by
      simp only [ruleVal, hf]
    have hog : p.oneofGroup = none := by
      have := List.all_eq_true.mp hR.noOneof p (findProp_mem hf)
      simpa using this
    have hfb : findBlock r.name ps.blockSet = some (cfOf sR specR (a ++ b), [r.name]) :=
      (hps r.name).trans (findBlock_prop' (by rw [hR.noAlias]; rfl) (by simp [Schema.hasProperty, hf]))
    refine doStatement_assign ?_
    dsimp only [assignStmt]
    -- the literal, by the type of the rule's property
    cases hn : litNode p r.lit with
    | none => rw [hn] at hok2; cases hok2
    | some node =>
      rw [hrv, hn, Option.getD_some]
      obtain ⟨t, vs, hmk, ht, hv, hfin⟩ := mkMsgS_touch hR.distinct hf hnew node
      rw [hmk] at hX1
      rw [← hfin]
      unfold litNode at hn
      split at hn
      · -- a string list
        rename_i x xs hty hlit
        cases hn
        have hpi : propInfo j5Env sR r.name = some (i, p.oneofGroup, .arrayOfScalar (.scalar .string)) :=
          propInfo_of hf (by simp only [classify, hty])
        rw [hlit] at hstr ⊢
        exact setAttr_walk_strs hfp hws hfb hpi hX1 ht hv (.inl hog) hstr
      · cases hn
      · -- a scalar
        rename_i ty lit hna1 hna2
        cases hls : litScalar p.type r.lit with
        | none => rw [hls] at hn; cases hn
        | some v =>
          rw [hls] at hn
          simp only [Option.some.injEq] at hn
          subst hn
          -- `litScalar` is defined for scalar types only
          have hty : ∃ k, p.type = .scalar k := by
            unfold litScalar at hls
            split at hls <;> first | exact ⟨_, by assumption⟩ | cases hls
          obtain ⟨k, hk⟩ := hty
          have hpi : propInfo j5Env sR r.name = some (i, p.oneofGroup, .scalar p.type p.presence) :=
            propInfo_of hf (by simp only [classify, hk])
          exact setAttr_walk hfp hws hfb hpi hX1 ht hv (.inl hog)
            (asArray_litValue (litScalar_isScalar hls)) (scalarFromAST_litValue j5Env hls hstr)

theorem ruleVal_fst (s : Schema) (r : J5V.Compile.Rule) : (ruleVal s r).1 = r.name := by
  unfold ruleVal; split <;> rfl

theorem lookupVal_append_pair_ne {n m : Str} (hne : m ≠ n) (vals : List (Str × Node)) (kv : Str × Node)
    (hk : kv.1 = n) : lookupVal m (vals ++ [kv]) = lookupVal m vals := by
  obtain ⟨k, v⟩ := kv
  simp only at hk
  subst hk
  exact lookupVal_append_ne hne vals v

end J5V.Walker
