import J5V.Walker.PP.GenWalk
import J5V.Walker.PP.MkMsg
import J5V.Walker.PP.Lits
/-!
# Print/parse: `rules.NAME = LIT` lines

`ruleLine_exact`: one line, given the exact walk from the scope to the `rules` container (so that the
same lemma serves the direct field and array / map items, whose lines carry a prefix);
`rulesBody_exact`: the list `rulesBcl pfx rules`, with the accumulator "the rules message holds `vals`".
The rules message is the symbolic `mkMsgS sR vals` (`MkMsg.lean`).
-/
namespace J5V.Walker
open J5V.Bcl

/-- what the tables must say about a rules schema `sR`: names distinct, no proto oneof, no alias -/
structure RulesSchemaOK (sR : Schema) (specR : BlockSpec) : Prop where
  distinct : sR.namesDistinct = true
  noOneof : sR.props.all (fun p => p.oneofGroup.isNone) = true
  noAlias : specR.aliases = []

theorem findProp_mem {n : Str} {k : Nat} {props : List Property} {i : Nat} {p : Property}
    (h : findProp n k props = some (i, p)) : p ∈ props := by
  obtain ⟨j, _, hp, _⟩ := findProp_spec h
  exact List.mem_of_getElem? hp

/-- the path elements of a reference written with ASCII identifiers -/
theorem combinePath_refOf {l : List Str} (h : ∀ s ∈ l, isAscii s = true) :
    combinePath [] (refOf l).idents = l.map fun s => ⟨s, some Span.zero⟩ := by
  simp only [combinePath, refOf, List.map_nil, List.nil_append, List.map_map]
  apply List.map_congr_left
  intro s hs
  simp only [Function.comp, identOf]
  rw [encode_decode_ascii (h s hs)]

/-- one rule line, given the walk to the rules container at `a ++ b` holding `mkMsgS sR vals` -/
theorem ruleLine_exact {sR : Schema} {specR : BlockSpec} (hR : RulesSchemaOK sR specR)
    {sc : Scope} {key : List Str} {pre : List PathElement} {a b : Addr} {X X1 : Node}
    {vals : List (Str × Node)} {r : J5V.Compile.Rule}
    (hfp : combinePath [] (refOf key).idents = pre ++ [⟨r.name, some Span.zero⟩])
    (hws : Exact (walkScope j5Env sc pre) a X (Scope.newChild (cfOf sR specR (a ++ b))) X1)
    (hX1 : X1.get? b = some (mkMsgS sR vals))
    (hok : ruleOk sR r = true) (hstr : strOk r.lit = true) (hnew : lookupVal r.name vals = none) :
    Exact (doStatement j5Env sc (assignStmt key (litValue r.lit))) a X ()
      (X1.set b (mkMsgS sR (vals ++ [ruleVal sR r]))) := by
  simp only [ruleOk, Bool.and_eq_true] at hok
  obtain ⟨_, hok2⟩ := hok
  cases hf : findProp r.name 0 sR.props with
  | none => rw [hf] at hok2; cases hok2
  | some ip =>
    obtain ⟨i, p⟩ := ip
    rw [hf] at hok2
    dsimp only at hok2
    have hrv : ruleVal sR r = (r.name, (litNode p r.lit).getD .absent) := by
      simp only [ruleVal, hf]
    have hog : p.oneofGroup = none := by
      have := List.all_eq_true.mp hR.noOneof p (findProp_mem hf)
      simpa using this
    have hfb : findBlock r.name (Scope.newChild (cfOf sR specR (a ++ b))).blockSet =
        some (cfOf sR specR (a ++ b), [r.name]) :=
      findBlock_prop' (by rw [hR.noAlias]; rfl) (by simp [Schema.hasProperty, hf])
    refine doStatement_assign ?_
    dsimp only [assignStmt]
    -- the literal, by the type of the rule's property
    cases hn : litNode p r.lit with
    | none => rw [hn] at hok2; cases hok2
    | some node =>
      rw [hrv, hn, Option.getD_some]
      obtain ⟨t, vs, hmk, ht, hv, hfin⟩ := mkMsgS_touch hR.distinct hf hnew node
      rw [hmk] at hX1
      rw [← hfin]
      unfold litNode at hn
      split at hn
      · -- a string list
        rename_i x xs hty hlit
        cases hn
        have hpi : propInfo j5Env sR r.name = some (i, p.oneofGroup, .arrayOfScalar (.scalar .string)) :=
          propInfo_of hf (by simp only [classify, hty])
        rw [hlit] at hstr ⊢
        exact setAttr_walk_strs hfp hws hfb hpi hX1 ht hv (.inl hog) hstr
      · cases hn
      · -- a scalar
        rename_i ty lit hna1 hna2
        cases hls : litScalar p.type r.lit with
        | none => rw [hls] at hn; cases hn
        | some v =>
          rw [hls] at hn
          simp only [Option.some.injEq] at hn
          subst hn
          -- `litScalar` is defined for scalar types only
          have hty : ∃ k, p.type = .scalar k := by
            unfold litScalar at hls
            split at hls <;> first | exact ⟨_, by assumption⟩ | cases hls
          obtain ⟨k, hk⟩ := hty
          have hpi : propInfo j5Env sR r.name = some (i, p.oneofGroup, .scalar p.type p.presence) :=
            propInfo_of hf (by simp only [classify, hk])
          exact setAttr_walk hfp hws hfb hpi hX1 ht hv (.inl hog)
            (asArray_litValue (litScalar_isScalar hls)) (scalarFromAST_litValue j5Env hls hstr)

theorem ruleVal_fst (s : Schema) (r : J5V.Compile.Rule) : (ruleVal s r).1 = r.name := by
  unfold ruleVal; split <;> rfl

theorem lookupVal_append_pair_ne {n m : Str} (hne : m ≠ n) (vals : List (Str × Node)) (kv : Str × Node)
    (hk : kv.1 = n) : lookupVal m (vals ++ [kv]) = lookupVal m vals := by
  obtain ⟨k, v⟩ := kv
  simp only at hk
  subst hk
  exact lookupVal_append_ne hne vals v

/-- the rule lines of a field, with the accumulator `vals0` (what the rules message holds already).
`St vals` is the state below `a` when the rules message holds `vals` (not created yet for `[]`), `St1 vals`
the state after the walk to the rules container -/
theorem rulesBody_exact {sR : Schema} {specR : BlockSpec} (hR : RulesSchemaOK sR specR)
    {sc : Scope} {pfx : List Str} {a b : Addr} {St St1 : List (Str × Node) → Node}
    (hpfx : ∀ s ∈ pfx, isAscii s = true)
    (hws : ∀ vals, Exact (walkScope j5Env sc ((pfx ++ [wRules]).map fun s => ⟨s, some Span.zero⟩)) a (St vals)
      (Scope.newChild (cfOf sR specR (a ++ b))) (St1 vals))
    (hget : ∀ vals, (St1 vals).get? b = some (mkMsgS sR vals))
    (hset : ∀ vals kv, (St1 vals).set b (mkMsgS sR (vals ++ [kv])) = St (vals ++ [kv]))
    (rules : J5V.Compile.Rules)
    (hok : rules.all (fun r => ruleOk sR r && strOk r.lit) = true)
    (hdist : distinct (rules.map (·.name)) = true)
    (vals0 : List (Str × Node)) (hfresh : ∀ r ∈ rules, lookupVal r.name vals0 = none) :
    Exact (doBody j5Env sc (rulesBcl pfx rules)) a (St vals0) () (St (vals0 ++ rules.map (ruleVal sR))) := by
  induction rules generalizing vals0 with
  | nil => rw [List.map_nil, List.append_nil]; exact doBody_nil _ _ _
  | cons r rest ih =>
    simp only [List.all_cons, Bool.and_eq_true] at hok
    obtain ⟨⟨hrok, hrstr⟩, hrest⟩ := hok
    simp only [List.map_cons, distinct, Bool.and_eq_true, Bool.not_eq_true', List.contains_eq_mem,
      decide_eq_false_iff_not] at hdist
    have hident : isIdent r.name = true := by
      simp only [ruleOk, Bool.and_eq_true] at hrok; exact hrok.1
    have hfp : combinePath [] (refOf (pfx ++ [wRules, r.name])).idents =
        ((pfx ++ [wRules]).map fun s => (⟨s, some Span.zero⟩ : PathElement)) ++ [⟨r.name, some Span.zero⟩] := by
      rw [combinePath_refOf]
      · simp
      · intro s hs
        simp only [List.mem_append, List.mem_cons, List.not_mem_nil, or_false] at hs
        rcases hs with hs | rfl | rfl
        · exact hpfx s hs
        · decide
        · exact isAscii_of_isIdent hident
    have h1 := ruleLine_exact hR hfp (hws vals0) (hget vals0) hrok hrstr (hfresh r (by simp))
    rw [hset] at h1
    have h2 := ih hrest hdist.2 (vals0 ++ [ruleVal sR r]) (by
      intro r' hr'
      rw [lookupVal_append_pair_ne _ _ _ (ruleVal_fst sR r)]
      · exact hfresh r' (List.mem_cons_of_mem _ hr')
      · intro e
        exact hdist.1 (by rw [← e]; exact List.mem_map_of_mem hr'))
    rw [List.append_assoc] at h2
    simp only [rulesBcl, List.map_cons]
    exact doBody_cons h1 h2

/-- the rule lines of a directly typed field: the type block `cfOf sT specT d` is where the scope finds
`rules`; the type message has its `rules` slot `ri` untouched -/
theorem rulesDirect_exact {sR : Schema} {specR : BlockSpec} (hR : RulesSchemaOK sR specR)
    {sc : Scope} {sT : Schema} {specT : BlockSpec} {d : Addr} {ri : Nat} {t : List Bool} {vs : List Node}
    (hfb : findBlock wRules sc.blockSet = some (cfOf sT specT d, [wRules]))
    (hpi : propInfo j5Env sT wRules = some (ri, none, .container sR))
    (hspec : ∀ c, specOf j5Env ⟨c, .msg sR⟩ = .ok specR)
    (ht : t[ri]? = some false) (hv : vs[ri]? = some .absent)
    (rules : J5V.Compile.Rules)
    (hok : rules.all (fun r => ruleOk sR r && strOk r.lit) = true)
    (hdist : distinct (rules.map (·.name)) = true) :
    Exact (doBody j5Env sc (rulesBcl [] rules)) d (.msg t vs) ()
      (.msg (t.set ri (!rules.isEmpty)) (vs.set ri (contSlot sR (rules.map (ruleVal sR))))) := by
  have hlt : ri < t.length := (List.getElem?_eq_some_iff.mp ht).1
  have hlv : ri < vs.length := (List.getElem?_eq_some_iff.mp hv).1
  let St : List (Str × Node) → Node := fun vals =>
    .msg (t.set ri (!vals.isEmpty)) (vs.set ri (contSlot sR vals))
  let St1 : List (Str × Node) → Node := fun vals => .msg (t.set ri true) (vs.set ri (mkMsgS sR vals))
  have h := rulesBody_exact hR (sc := sc) (pfx := []) (a := d) (b := [ri]) (St := St) (St1 := St1)
    (by simp) ?_ ?_ ?_ rules hok hdist [] (fun _ _ => rfl)
  · have e0 : St [] = .msg t vs := by
      show Node.msg (t.set ri (![].isEmpty)) (vs.set ri (contSlot sR [])) = _
      rw [list_set_self (show t[ri]? = some (!([] : List (Str × Node)).isEmpty) from ht),
        list_set_self (show vs[ri]? = some (contSlot sR []) from hv)]
    rw [e0, List.nil_append] at h
    have e1 : (rules.map (ruleVal sR)).isEmpty = rules.isEmpty := by cases rules <;> rfl
    rw [← e1]
    exact h
  · intro vals
    have hc := childBlock_of_walkPath hfb
      (walkPath_container (propInfo_hasProperty hpi)
        (propSetValue_contSlot (c := d) (t := t.set ri (!vals.isEmpty)) (vs := vs.set ri (contSlot sR vals))
          (vals := vals) hpi (by rw [List.getElem?_set_self hlt]) (by rw [List.getElem?_set_self hlv]))
        (walkRest_nil _ _ _))
      (setSpecs_cons (hspec _) (setSpecs_nil _))
    rw [List.set_set, List.set_set] at hc
    exact walkScope_cons hc (walkScope_nil _ _ _)
  · intro vals
    exact Node.get?_msg_single _ _ _ _ (by rw [List.getElem?_set_self hlv])
  · intro vals kv
    show (Node.msg (t.set ri true) (vs.set ri (mkMsgS sR vals))).set [ri] _ = _
    rw [Node.set_msg_single _ _ _ (mkMsgS sR vals) _ (by rw [List.getElem?_set_self hlv]), List.set_set]
    show _ = Node.msg (t.set ri (!(vals ++ [kv]).isEmpty)) (vs.set ri (contSlot sR (vals ++ [kv])))
    have : (vals ++ [kv]).isEmpty = false := by simp
    rw [this]
    simp only [contSlot, this, Bool.not_false, Bool.false_eq_true, if_false]

end J5V.Walker
