import J5V.Walker.PP.Inline
import J5V.Walker.PP.Field2Refs2
/-!
# Print/parse, fifth slice: inline object / oneof fields (`field x object { … fields … }`)

`objectInlFacts`, `oneofInlFacts`: `FieldFacts` of an inline declaration from `PropHas` of its properties
(the recursion of the AST: the caller supplies the facts of the nested fields).
-/
namespace J5V.Walker
open J5V.Bcl

/-! ## Tables: `j5.schema.v1.Object`, `j5.schema.v1.Oneof` -/

def sSObject : Schema := j5_schema_lit% "j5.schema.v1.Object"
def specSObject : BlockSpec := j5_spec_lit% "j5.schema.v1.Object"
def sSOneof : Schema := j5_schema_lit% "j5.schema.v1.Oneof"
def specSOneof : BlockSpec := j5_spec_lit% "j5.schema.v1.Oneof"
theorem schemaOf_SObject : j5Env.schemaOf nSObject = sSObject := by rw [j5Env_nf]; decide +kernel
theorem schemaOf_SOneof : j5Env.schemaOf nSOneof = sSOneof := by rw [j5Env_nf]; decide +kernel
theorem specOf_SObject (c : Addr) : specOf j5Env ⟨c, .msg sSObject⟩ = .ok specSObject := by
  apply specOf_of_nil; rw [j5Env_nf]; decide +kernel
theorem specOf_SOneof (c : Addr) : specOf j5Env ⟨c, .msg sSOneof⟩ = .ok specSOneof := by
  apply specOf_of_nil; rw [j5Env_nf]; decide +kernel
theorem pi_ObjectField_object :
    propInfo j5Env sObjectField wObject = some (1, some gObjectFieldSchema, .container sSObject) := by
  rw [j5Env_nf]; decide +kernel
theorem pi_OneofField_oneof :
    propInfo j5Env sOneofField wOneof = some (1, some gOneofFieldSchema, .container sSOneof) := by
  rw [j5Env_nf]; decide +kernel
theorem pi_SObject_name : propInfo j5Env sSObject wName = some (0, none, .scalar (.scalar .string) false) := by
  rw [j5Env_nf]; decide +kernel
theorem pi_SObject_properties :
    propInfo j5Env sSObject b!"properties" = some (3, none, .arrayOfContainer sObjectProperty) := by
  rw [j5Env_nf]; decide +kernel
theorem pi_SOneof_name : propInfo j5Env sSOneof wName = some (0, none, .scalar (.scalar .string) false) := by
  rw [j5Env_nf]; decide +kernel
theorem pi_SOneof_properties :
    propInfo j5Env sSOneof b!"properties" = some (2, none, .arrayOfContainer sObjectProperty) := by
  rw [j5Env_nf]; decide +kernel

/-- the keyword of the blocks is found in the type block (alias), behind the blocks of `pre` -/
theorem findBlock_of_scopeAt {sc : Scope} {sT : Schema} {specT : BlockSpec} {d : Addr} {kw : Str}
    {names : List Str} {tailP : List ContainerField → Prop} {p : PathSpec}
    (h : ScopeAt sc (cfOf sT specT d) names tailP) (hkw : kw ∈ names)
    (ha : aliasLookup kw specT.aliases = some p) :
    findBlock kw sc.blockSet = some (cfOf sT specT d, p) := by
  obtain ⟨pre, tail, hbs, hpre, _⟩ := h
  rw [hbs, findBlock_skip_all (hpre kw hkw)]
  exact findBlock_alias' ha

theorem propsMsg_isEmpty (env : Env) (props : List CProperty) :
    props.isEmpty = (propsMsg env props).isEmpty := by
  cases props <;> rfl

/-! ## `object { fields }` -/

/-- the inner `j5.schema.v1.Object` once the name line ran -/
def inlObjNamed (name : Str) : Option Node :=
  if name = [] then none else some (.msg [true, false, false, false, false] [sStr name, .absent, .absent, .absent, .absent])

/-- the final inner `j5.schema.v1.Object` -/
def inlObjFinal (name : Str) (ps : List Node) : Option Node :=
  if name = [] then innerOpt none [false, false, false, false, false] [.absent, .absent, .absent, .absent, .absent] 3 ps
  else innerOpt (inlObjNamed name) [true, false, false, false, false]
    [sStr name, .absent, .absent, .absent, .absent] 3 ps

/-- the `ObjectField` message while the body of an inline object runs: `rules` and `flatten` done -/
abbrev objInlT (rules : J5V.Compile.Rules) (flatten : Bool) : List Bool :=
  [false, false, !rules.isEmpty, false, flatten, false]
abbrev objInlVs (rules : J5V.Compile.Rules) (flatten : Bool) : List Node :=
  [.absent, .absent, rulesNode sObjectRules rules, .absent, if flatten then bTrue else .absent, .absent]

/-- the body of an inline object field, given how the keyword `field` enters a new property element -/
theorem objInl_body_exact {sc : Scope} {pfx : List Str} {a b : Addr} {C : Option Node → Node}
    {name : Str} {props : List CProperty} {flatten : Bool} {rules : J5V.Compile.Rules}
    (h : rulesOk j5Env b!"j5.schema.v1.ObjectField" rules = true) (hname : okString name = true)
    (hps : ∀ p ∈ props, PropHas p)
    (hr : BodyReach sc pfx sObjectField specObjectField a b C (· ∈ [wRules, b!"flatten", wObject]))
    (hentry : ∀ (oI0 : Option Node) (tI : List Bool) (vsI : List Node),
      oI0.getD (freshMsg sSObject) = .msg tI vsI → tI[3]? = some false → vsI[3]? = some .absent → ∀ xs,
      Exact (childBlock j5Env sc wField) a
        (C (some (holder (objInlT rules flatten) (objInlVs rules flatten) 1 (innerOpt oI0 tI vsI 3 xs))))
        (Scope.newChild (propCF (a ++ (b ++ ([1] ++ ([3] ++ [xs.length]))))))
        (C (some (holder (objInlT rules flatten) (objInlVs rules flatten) 1
          (some (.msg (tI.set 3 true) (vsI.set 3 (.list (xs ++ [freshMsg sObjectProperty]))))))))) :
    Exact (doBody j5Env sc (fieldBody (.objectInl name props flatten rules) pfx false)) a
      (C (some (objFieldNode false .absent false .absent false))) ()
      (C (some (holder (objInlT rules flatten) (objInlVs rules flatten) 1
        (inlObjFinal name (propsMsg j5Env props))))) := by
  have hu := rulesOk_unpack h rulesSchema_Object schemaOf_ObjectRules
  have hfbR : findBlock wRules [cfOf sObjectField specObjectField (a ++ b)] =
      some (cfOf sObjectField specObjectField (a ++ b), [wRules]) :=
    findBlock_prop' (show aliasLookup wRules specObjectField.aliases = none by decide +kernel)
      (propInfo_hasProperty pi_Object_rules)
  have hfbF : findBlock b!"flatten" [cfOf sObjectField specObjectField (a ++ b)] =
      some (cfOf sObjectField specObjectField (a ++ b), [b!"flatten"]) :=
    findBlock_prop' (show aliasLookup b!"flatten" specObjectField.aliases = none by decide +kernel)
      (propInfo_hasProperty pi_ObjectField_flatten)
  have hfbO : findBlock wObject [cfOf sObjectField specObjectField (a ++ b)] =
      some (cfOf sObjectField specObjectField (a ++ b), [wObject]) :=
    findBlock_prop' (show aliasLookup wObject specObjectField.aliases = none by decide +kernel)
      (propInfo_hasProperty pi_ObjectField_object)
  let tT : List Bool := [false, false, !rules.isEmpty, false, flatten, false]
  let vsT : List Node :=
    [.absent, .absent, rulesNode sObjectRules rules, .absent, if flatten then bTrue else .absent, .absent]
  have hconf : NoConflictAt sObjectField 1 (some gObjectFieldSchema) vsT := by
    intro g hg; cases hg; rfl
  show Exact (doBody j5Env sc (rulesBcl pfx rules ++ flattenBcl pfx flatten ++ inlNameBcl pfx wObject name ++
    propsBcl wField props)) _ _ _ _
  -- rules, flatten
  have h12 := doBody_append
    (hr.rules (show wRules ∈ [wRules, b!"flatten", wObject] by simp) rulesOK_Object hfbR pi_Object_rules
      specOf_ObjectRules (t := [false, false, false, false, false, false])
      (vs := [.absent, .absent, .absent, .absent, .absent, .absent]) rfl rfl rules hu.1 hu.2)
    (flatten_exact hr (show b!"flatten" ∈ [wRules, b!"flatten", wObject] by simp) hfbF
      pi_ObjectField_flatten (t := [false, false, !rules.isEmpty, false, false, false])
      (vs := [.absent, .absent, rulesNode sObjectRules rules, .absent, .absent, .absent]) rfl rfl flatten)
  -- the name of the inline object
  have h3 : Exact (doBody j5Env sc (inlNameBcl pfx wObject name)) a (C (some (.msg tT vsT))) ()
      (C (some (holder tT vsT 1 (inlObjNamed name)))) := by
    unfold inlNameBcl inlObjNamed
    by_cases hn : name = []
    · rw [if_pos hn, if_pos hn]
      exact doBody_nil _ _ _
    · rw [if_neg hn, if_neg hn]
      have hrO := hr.child (some (.msg tT vsT)) rfl (n := wObject)
        (show wObject ∈ [wRules, b!"flatten", wObject] by simp) (by decide) hfbO pi_ObjectField_object
        specOf_SObject rfl rfl hconf
      have hfbN : findBlock wName [cfOf sSObject specSObject (a ++ (b ++ [1]))] =
          some (cfOf sSObject specSObject (a ++ (b ++ [1])), [wName]) :=
        findBlock_prop' (show aliasLookup wName specSObject.aliases = none by decide +kernel)
          (propInfo_hasProperty pi_SObject_name)
      have h := hrO.attr none (t := [false, false, false, false, false])
        (vs := [.absent, .absent, .absent, .absent, .absent]) rfl (n := wName) trivial (by decide) hfbN
        pi_SObject_name (cur := .absent) rfl rfl (.inl rfl) (val := strValue name) (v := .str name)
        (asArray_strValue _)
        (by simp only [scalarFromAST, asString_strValue (isAscii_of_okString hname)]; rfl)
      have hkey : pfx ++ [wObject] ++ [wName] = pfx ++ [wObject, wName] := by simp
      rw [hkey, storeNode_str] at h
      exact doBody_cons h (doBody_nil _ _ _)
  -- the fields
  have hl : Lens (fun Y => C (some Y)) b := ⟨hr.get, hr.set⟩
  by_cases hn : name = []
  · subst hn
    have hsteps := inlProps_steps (kw := wField) (by decide) hl (ci := 1) (ai := 3) (tT := tT) (vsT := vsT)
      (by simp [vsT]) (oI0 := none) (tI := [false, false, false, false, false])
      (vsI := [.absent, .absent, .absent, .absent, .absent]) (by decide)
      (hentry none _ _ rfl rfl rfl) props hps
    have h4 := steps_fold hsteps []
    rw [List.nil_append] at h4
    exact doBody_append (doBody_append h12 h3) h4
  · have hsteps := inlProps_steps (kw := wField) (by decide) hl (ci := 1) (ai := 3) (tT := tT) (vsT := vsT)
      (by simp [vsT]) (oI0 := inlObjNamed name) (tI := [true, false, false, false, false])
      (vsI := [sStr name, .absent, .absent, .absent, .absent]) (by simp)
      (hentry (inlObjNamed name) _ _ (by unfold inlObjNamed; rw [if_neg hn]; rfl) rfl rfl) props hps
    have h4 := steps_fold hsteps []
    rw [List.nil_append] at h4
    refine doBody_append (doBody_append h12 h3) (h4.conv ?_)
    unfold inlObjFinal
    rw [if_neg hn]


def objectInlFacts (name : Str) (props : List CProperty) (flatten : Bool) (rules : J5V.Compile.Rules)
    (h : rulesOk j5Env b!"j5.schema.v1.ObjectField" rules = true) (hname : okString name = true)
    (hps : ∀ p ∈ props, PropHas p) : FieldFacts (.objectInl name props flatten rules) where
  qualNames := []
  bodyNames := [wRules, b!"flatten", wObject]
  blockNames := [wField]
  tailP := fun _ _ => True
  qualVal := objFieldNode false .absent false .absent false
  typeVal := holder [false, false, !rules.isEmpty, false, flatten, false]
    [.absent, .absent, rulesNode sObjectRules rules, .absent, if flatten then bTrue else .absent, .absent] 1
    (inlObjFinal name (propsMsg j5Env props))
  pi := kind_pi_c rfl
  spec := kind_spec_c rfl
  specName := kindSpec_name
  specTypeSelect := kindSpec_typeSelect
  msg := by
    simp only [fieldMsg, fieldOneof]
    rw [rulesVals_eq rulesSchema_Object schemaOf_ObjectRules, mkMsg_of schemaOf_Field,
      mkMsg_of schemaOf_ObjectField, mkMsg_of schemaOf_SObject, propsMsg_isEmpty j5Env props]
    generalize propsMsg j5Env props = ps
    cases rules <;> cases flatten <;> cases name <;> cases ps <;> rfl
  namesSub := by
    intro n hn
    simp only [List.mem_cons, List.not_mem_nil, or_false, false_or] at hn
    rcases hn with rfl | rfl | rfl <;> decide
  qualSub := by intro _ n hn; cases hn
  blockSub := by intro kw hkw; exact .inl (List.mem_singleton.mp hkw)
  found := by
    intro d n hn
    show (findBlock n [cfOf sObjectField specObjectField d]).isSome = true
    simp only [List.mem_cons, List.not_mem_nil, or_false] at hn
    rcases hn with rfl | rfl | rfl
    · rw [findBlock_prop' (show aliasLookup wRules specObjectField.aliases = none by decide +kernel)
        (propInfo_hasProperty pi_Object_rules)]; rfl
    · rw [findBlock_prop' (show aliasLookup b!"flatten" specObjectField.aliases = none by decide +kernel)
        (propInfo_hasProperty pi_ObjectField_flatten)]; rfl
    · rw [findBlock_prop' (show aliasLookup wObject specObjectField.aliases = none by decide +kernel)
        (propInfo_hasProperty pi_ObjectField_object)]; rfl
  runQ := by
    intro outer root d _
    exact ⟨typeScope outer (cfOf sObjectField specObjectField d) root, specObjectField, [], rfl, trivial,
      walkQualifiers_nil _ _ _ _⟩
  runB := by
    intro sc pfx a b C hr hsc
    have hfb := findBlock_of_scopeAt hsc (List.mem_singleton.mpr rfl)
      (show aliasLookup wField specObjectField.aliases = some [wObject, b!"properties"] by decide +kernel)
    have hl : Lens (fun Y => C (some Y)) b := ⟨hr.get, hr.set⟩
    exact objInl_body_exact h hname hps hr (fun oI0 tI vsI hMI htI hvI =>
      inlEntry_direct hl hfb pi_ObjectField_object pi_SObject_properties specOf_SObject specOf_ObjectProperty
        rfl rfl (by intro g hg; cases hg; rfl) hMI htI hvI)

/-! ## `oneof { options }` -/

def inlOneofNamed (name : Str) : Option Node :=
  if name = [] then none else some (.msg [true, false, false] [sStr name, .absent, .absent])

def inlOneofFinal (name : Str) (ps : List Node) : Option Node :=
  if name = [] then innerOpt none [false, false, false] [.absent, .absent, .absent] 2 ps
  else innerOpt (inlOneofNamed name) [true, false, false] [sStr name, .absent, .absent] 2 ps

def oneofInlFacts (name : Str) (props : List CProperty) (hname : okString name = true)
    (hps : ∀ p ∈ props, PropHas p) : FieldFacts (.oneofInl name props [] false) where
  qualNames := []
  bodyNames := [wOneof]
  blockNames := [wOption]
  tailP := fun _ _ => True
  qualVal := .msg [false, false, false, false, false] [.absent, .absent, .absent, .absent, .absent]
  typeVal := holder [false, false, false, false, false] [.absent, .absent, .absent, .absent, .absent] 1
    (inlOneofFinal name (propsMsg j5Env props))
  pi := kind_pi_c rfl
  spec := kind_spec_c rfl
  specName := kindSpec_name
  specTypeSelect := kindSpec_typeSelect
  msg := by
    simp only [fieldMsg, fieldOneof]
    rw [rulesVals_eq rulesSchema_Oneof schemaOf_OneofRules, mkMsg_of schemaOf_Field,
      mkMsg_of schemaOf_OneofField, mkMsg_of schemaOf_SOneof, propsMsg_isEmpty j5Env props]
    generalize propsMsg j5Env props = ps
    cases name <;> cases ps <;> rfl
  namesSub := by
    intro n hn
    simp only [List.mem_singleton, List.not_mem_nil, false_or] at hn
    subst hn; decide
  qualSub := by intro _ n hn; cases hn
  blockSub := by intro kw hkw; exact .inr (List.mem_singleton.mp hkw)
  found := by
    intro d n hn
    show (findBlock n [cfOf sOneofField specOneofField d]).isSome = true
    simp only [List.mem_singleton] at hn
    subst hn
    rw [findBlock_prop' (show aliasLookup wOneof specOneofField.aliases = none by decide +kernel)
      (propInfo_hasProperty pi_OneofField_oneof)]; rfl
  runQ := by
    intro outer root d _
    exact ⟨typeScope outer (cfOf sOneofField specOneofField d) root, specOneofField, [], rfl, trivial,
      walkQualifiers_nil _ _ _ _⟩
  runB := by
    intro sc pfx a b C hr hsc
    have hfbO : findBlock wOneof [cfOf sOneofField specOneofField (a ++ b)] =
        some (cfOf sOneofField specOneofField (a ++ b), [wOneof]) :=
      findBlock_prop' (show aliasLookup wOneof specOneofField.aliases = none by decide +kernel)
        (propInfo_hasProperty pi_OneofField_oneof)
    let tT : List Bool := [false, false, false, false, false]
    let vsT : List Node := [.absent, .absent, .absent, .absent, .absent]
    have hconf : NoConflictAt sOneofField 1 (some gOneofFieldSchema) vsT := by
      intro g hg; cases hg; rfl
    show Exact (doBody j5Env sc (rulesBcl pfx [] ++ inlNameBcl pfx wOneof name ++ propsBcl wOption props)) _ _ _ _
    rw [show rulesBcl pfx [] = [] from rfl, List.nil_append]
    have h3 : Exact (doBody j5Env sc (inlNameBcl pfx wOneof name)) a (C (some (.msg tT vsT))) ()
        (C (some (holder tT vsT 1 (inlOneofNamed name)))) := by
      unfold inlNameBcl inlOneofNamed
      by_cases hn : name = []
      · rw [if_pos hn, if_pos hn]
        exact doBody_nil _ _ _
      · rw [if_neg hn, if_neg hn]
        have hrO := hr.child (some (.msg tT vsT)) rfl (n := wOneof) (List.mem_singleton.mpr rfl) (by decide) hfbO
          pi_OneofField_oneof specOf_SOneof rfl rfl hconf
        have hfbN : findBlock wName [cfOf sSOneof specSOneof (a ++ (b ++ [1]))] =
            some (cfOf sSOneof specSOneof (a ++ (b ++ [1])), [wName]) :=
          findBlock_prop' (show aliasLookup wName specSOneof.aliases = none by decide +kernel)
            (propInfo_hasProperty pi_SOneof_name)
        have h := hrO.attr none (t := [false, false, false]) (vs := [.absent, .absent, .absent]) rfl
          (n := wName) trivial (by decide) hfbN pi_SOneof_name (cur := .absent) rfl rfl (.inl rfl)
          (val := strValue name) (v := .str name) (asArray_strValue _)
          (by simp only [scalarFromAST, asString_strValue (isAscii_of_okString hname)]; rfl)
        have hkey : pfx ++ [wOneof] ++ [wName] = pfx ++ [wOneof, wName] := by simp
        rw [hkey, storeNode_str] at h
        exact doBody_cons h (doBody_nil _ _ _)
    have hfb := findBlock_of_scopeAt hsc (List.mem_singleton.mpr rfl)
      (show aliasLookup wOption specOneofField.aliases = some [wOneof, b!"properties"] by decide +kernel)
    have hl : Lens (fun Y => C (some Y)) b := ⟨hr.get, hr.set⟩
    by_cases hn : name = []
    · subst hn
      have hsteps := inlProps_steps (kw := wOption) (by decide) hl (ci := 1) (ai := 2) (tT := tT) (vsT := vsT)
        (by decide) (oI0 := none) (tI := [false, false, false]) (vsI := [.absent, .absent, .absent]) (by decide)
        (inlEntry_direct hl hfb pi_OneofField_oneof pi_SOneof_properties specOf_SOneof specOf_ObjectProperty
          rfl rfl hconf rfl rfl rfl) props hps
      have h4 := steps_fold hsteps []
      rw [List.nil_append] at h4
      exact doBody_append h3 h4
    · have hsteps := inlProps_steps (kw := wOption) (by decide) hl (ci := 1) (ai := 2) (tT := tT) (vsT := vsT)
        (by decide) (oI0 := inlOneofNamed name) (tI := [true, false, false])
        (vsI := [sStr name, .absent, .absent]) (by simp)
        (inlEntry_direct hl hfb pi_OneofField_oneof pi_SOneof_properties specOf_SOneof specOf_ObjectProperty
          rfl rfl hconf (by unfold inlOneofNamed; rw [if_neg hn]; rfl) rfl rfl) props hps
      have h4 := steps_fold hsteps []
      rw [List.nil_append] at h4
      refine doBody_append h3 (h4.conv ?_)
      unfold inlOneofFinal
      rw [if_neg hn]

end J5V.Walker
