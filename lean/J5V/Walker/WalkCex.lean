import J5V.Walker.WFj5
import J5V.Walker.Walk
/-!
# `walkSchema` panics on a block with an EMPTY type reference

Checked counterexample to `∀ body, walkSchema env body msg ≠ .panic _` (for the well-formed `j5Env` and
the well-typed stub): the statement list must satisfy `bodyTypesOK` (`WalkRules.lean`), which holds for
the output of the parser (`J5V.Bcl.newReference` needs an ident).
-/
namespace J5V.Walker
open J5V.Bcl

/-- `<empty reference> { | description }` -/
def cexBody : List Statement :=
  [.block ⟨⟨[], ⟨⟨0, 0⟩, ⟨0, 0⟩⟩⟩, [], [], none, true, ⟨⟨0, 0⟩, ⟨0, 0⟩, none⟩⟩
    [.desc ⟨[], [], ⟨⟨0, 0⟩, ⟨0, 0⟩⟩⟩]]

def Res.isPanic {α : Type} : Res α → Bool
  | .panic _ => true
  | _ => false

theorem walkSchema_panics_on_empty_type_reference :
    (walkSchema j5Env cexBody (stub j5Env [97])).isPanic = true := by
  rw [j5Env_nf]; decide +kernel

end J5V.Walker
