import J5V.Walker.OrderWalk
import J5V.Walker.WalkJ5
/-!
# The span of a walk error is not reversed

`walkSchema_specS` (`OrderWalk.lean`) with `S := SpanOrd` (`sp.start ≤ sp.end_`): a `BodyOrdered` statement
list (`OrderDefs.lean`) whose block type references have an ident (`bodyTypesOK`) satisfies `StmtInS SpanOrd` —
node spans are ordered by hypothesis, point spans by reflexivity, the zero span trivially, and the hull of
any sublist of spans in source order is ordered (`HullOK.hull`).

* `C07W_walk_error_span_ordered`: general form;
* `C07W_j5_walk_error_span_ordered`: for `j5Env` and the file stub.
-/
namespace J5V.Walker
open J5V.Bcl

theorem spanOrd_zero : SpanOrd Span.zero := Pos.le_refl _

theorem spanOrd_point (p : Pos) : SpanOrd (pointSpan p) := Pos.le_refl _

/-- spans whose earlier-to-later hulls are ordered: every sublist hull is an ordered span -/
theorem HullOK.hullsIn {l : List Span} (h : HullOK l) : HullsIn SpanOrd l :=
  fun _ hs _ _ hf hl => (h.sublist hs).hull hf hl

mutual
theorem ValueOrdered.valueInS : ∀ v : Value, ValueOrdered v → ValueInS SpanOrd v
  | .scalar tok sp, h => by
    unfold ValueOrdered at h
    exact .scalar tok sp h
  | .array vs sp, h => by
    unfold ValueOrdered at h
    refine .array vs sp h.1 (ValuesOrdered.valuesInS vs h.2.1) ?_
    refine (hullOK_of_inOrder ?_ h.2.2).hullsIn
    intro a ha
    obtain ⟨v, hv, rfl⟩ := List.mem_map.mp ha
    exact (h.2.1.mem v hv).span
theorem ValuesOrdered.valuesInS : ∀ vs : List Value, ValuesOrdered vs → ∀ v, v ∈ vs → ValueInS SpanOrd v
  | [], _, _, hv => nomatch hv
  | x :: xs, h, v, hv => by
    unfold ValuesOrdered at h
    rcases List.mem_cons.mp hv with hx | hv
    · rw [hx]; exact ValueOrdered.valueInS x h.1
    · exact ValuesOrdered.valuesInS xs h.2 v hv
end

theorem TagOrdered.tagInS {t : TagValue} (h : TagOrdered t) : TagInS SpanOrd t :=
  ⟨h.1, spanOrd_point _, h.2⟩

/-- tags (or qualifiers) in source order, each with an ordered span: all sublist hulls are ordered -/
theorem tags_hullsIn {ts : List TagValue} (h1 : ∀ t, t ∈ ts → TagOrdered t)
    (h2 : InOrder (ts.map (·.span))) : HullsIn SpanOrd (ts.map (·.span)) := by
  refine (hullOK_of_inOrder ?_ h2).hullsIn
  intro a ha
  obtain ⟨t, ht, rfl⟩ := List.mem_map.mp ha
  exact (h1 t ht).1

theorem HeaderOrdered.headerInS {h : BlockHeader} (hh : HeaderOrdered h) (hne : h.type.idents ≠ []) :
    HeaderInS SpanOrd h where
  typeNonempty := hne
  typeIdents := hh.typeIdents
  typeEnd := spanOrd_point _
  tags := fun t ht => (hh.tags t ht).tagInS
  tagsHull := tags_hullsIn hh.tags hh.tagsInOrder
  qualifiers := fun t ht => (hh.qualifiers t ht).tagInS
  qualifiersHull := tags_hullsIn hh.qualifiers hh.qualifiersInOrder
  description := hh.description
  span := hh.src

mutual
theorem StmtOrdered.stmtInS : ∀ s : Statement, StmtOrdered s → statementTypesOK s = true →
    StmtInS SpanOrd s
  | .desc d, h, _ => by
    unfold StmtOrdered at h
    exact .desc d h
  | .assign a, h, _ => by
    unfold StmtOrdered at h
    exact .assign a h.1 h.2.1 (ValueOrdered.valueInS a.value h.2.2)
  | .block hd body, h, ht => by
    unfold StmtOrdered at h
    simp only [statementTypesOK, Bool.and_eq_true, Bool.not_eq_true', List.isEmpty_eq_false_iff] at ht
    exact .block hd body (h.1.headerInS ht.1) (BodyOrdered.bodyInS body h.2 ht.2)
theorem BodyOrdered.bodyInS : ∀ body : List Statement, BodyOrdered body → bodyTypesOK body = true →
    ∀ s, s ∈ body → StmtInS SpanOrd s
  | [], _, _, _, hs => nomatch hs
  | x :: xs, h, ht, s, hs => by
    unfold BodyOrdered at h
    simp only [bodyTypesOK, Bool.and_eq_true] at ht
    rcases List.mem_cons.mp hs with hx | hs
    · rw [hx]; exact StmtOrdered.stmtInS x h.1 ht.1
    · exact BodyOrdered.bodyInS xs h.2 ht.2 s hs
end

/-- **C07W, error span order.** Over a `BodyOrdered` statement list (every node span `start ≤ end_`; tags,
qualifiers and array elements in source order) an error of the walk proper carries a span with
`start ≤ end_`. -/
theorem C07W_walk_error_span_ordered {env : Env} (hwf : env.WF = true) {msg : Node} (hmsg : TreeOK env msg)
    (body : List Statement) (hb : bodyTypesOK body = true) (hord : BodyOrdered body) {e : WErr}
    (h : walkSchema env body msg = .err e) (hroot : newRootSchemaWalker env ≠ .err e) :
    ∃ sp, e.pos = some sp ∧ sp.start ≤ sp.end_ := by
  have := walkSchema_specS hwf SpanOrd spanOrd_zero body msg (BodyOrdered.bodyInS body hord hb) hmsg
  rw [h] at this
  rcases this with h1 | ⟨_, h2⟩
  · exact h1
  · exact absurd h2 hroot

/-- **C07W for j5s files**: every error carries a span with `start ≤ end_` -/
theorem C07W_j5_walk_error_span_ordered (filename : Str) (body : List Statement)
    (hb : bodyTypesOK body = true) (hord : BodyOrdered body) {e : WErr}
    (h : walkSchema j5Env body (stub j5Env filename) = .err e) :
    ∃ sp, e.pos = some sp ∧ sp.start ≤ sp.end_ :=
  C07W_walk_error_span_ordered j5Env_WF (j5_stub_treeOK filename) body hb hord h (j5Env_root_walker e)

end J5V.Walker
