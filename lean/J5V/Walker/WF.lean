import J5V.Walker.Scope
import J5V.Walker.Stub
/-!
# Well-formedness of an `Env` (core only, executable)

`Env.WF env` is a decidable conjunction under which no function of `State.lean`, `Spec.lean`,
`Scope.lean` reaches a `.panic` arm on a well-typed tree (`Hoare.lean`: `TreeOK`), and under which
`stub env filename` is well typed. `WFj5.lean` proves `j5Env.WF = true` in the kernel.

* `Env.closed` (Types.lean): no dangling schema / enum reference.
* `Env.typesOK`: for every property of every schema of the table, the type is not `unknown`, an
  `object` reference resolves to a non-oneof schema and a `oneof` reference to a oneof schema (the type
  assertions of `resolveRef`), array / map items are object / oneof / scalar / enum / any (the
  `"invalid schema for message field"` arms of `classify`).
* `Env.rootOK`: the root schema is in the table and is an object schema.
* `Env.stubOK`: the three properties `FileStub` presets (`path`, `package` + its `name`,
  `sourceLocations`), IF the root schema has them, have a type that admits the preset value.
* `Env.splitOK`: prepared for `Walk.lean` (not used by the foundations): every path of every scalar
  split of a given block is non-empty and, followed from the block's own schema the way
  `walkScope` / `childBlock` / `scopeField` would in a scope made of that single block (alias before
  property, `walkPath` along the alias path), ends at a field that `classify` makes a `.scalar`.
* `Env.mapNamesFresh` (Spec.lean): the name of a map container (`<owner schema>.<property>`) is neither
  a schema name nor the name of a given block — so a map container has the empty given spec, in
  particular no scalar split (`splitOK` only looks at message containers).
-/
namespace J5V.Walker

/-- object / oneof / array / map: the types whose values have children -/
def FieldType.isContainer : FieldType → Bool
  | .object _ => true
  | .oneof _ => true
  | .array _ => true
  | .map _ => true
  | _ => false

/-- scalar / enum: what `classify` makes a `.scalar` field, an `.arrayOfScalar` item, a leaf map item -/
def FieldType.isLeaf : FieldType → Bool
  | .scalar _ => true
  | .enum _ => true
  | _ => false

/-- a type that may be the item of an array / a map (and so also a property type) -/
def FieldType.itemOK (env : Env) : FieldType → Bool
  | .object r => !(env.schemaOf r).isOneof
  | .oneof r => (env.schemaOf r).isOneof
  | .scalar _ => true
  | .enum _ => true
  | .any => true
  | _ => false

/-- a property type on which `classify` does not panic -/
def FieldType.ok (env : Env) : FieldType → Bool
  | .array item => item.itemOK env
  | .map item => item.itemOK env
  | t => t.itemOK env

def Schema.typesOK (env : Env) (s : Schema) : Bool := s.props.all fun p => p.type.ok env

def Env.typesOK (env : Env) : Bool := env.schemas.all fun s => s.typesOK env

def Env.rootOK (env : Env) : Bool :=
  (findSchema env.root env.schemas).isSome && !(env.schemaOf env.root).isOneof

/-! ## The stub -/

/-- property `name` of `s`, if there is one, has a type satisfying `f` -/
def stubPropOK (s : Schema) (name : Str) (f : FieldType → Bool) : Bool :=
  match findProp name 0 s.props with
  | some (_, p) => f p.type
  | none => true

def Env.stubOK (env : Env) : Bool :=
  let root := env.schemaOf env.root
  stubPropOK root (str "path") (fun t => !t.isContainer) &&
  stubPropOK root (str "package") (fun t =>
    match t with
    | .object r => stubPropOK (env.schemaOf r) (str "name") (fun t => !t.isContainer)
    | .oneof r => stubPropOK (env.schemaOf r) (str "name") (fun t => !t.isContainer)
    | .array _ => false
    | .map _ => false
    | _ => true) &&
  stubPropOK root (str "sourceLocations") (fun t =>
    match t with
    | .array _ => false
    | .map _ => false
    | _ => true)

/-! ## Scalar splits: the walk of a spec path at the level of container kinds

The state-free shadow of `Cont.value`, `walkPath`, `findBlock` (single block), `childBlock`,
`scopeField`: which KIND of container / field they end at. -/

/-- the container `walkPath` enters through a field of this kind -/
def FieldKind.asContKind : FieldKind → Option ContKind
  | .container s => some (.msg s)
  | .arrayOfContainer s => some (.msg s)
  | .map n item => some (.map n item)
  | _ => none

/-- the kind of the field `Cont.value env ⟨_, k⟩ name _` returns -/
def kindOfValue (env : Env) (k : ContKind) (name : Str) : Option FieldKind :=
  match k with
  | .msg s =>
    match findProp name 0 s.props with
    | none => none
    | some (_, p) =>
      match classify env s.name p with
      | .ok fk => some fk
      | _ => none
  | .map _ item =>
    match item with
    | .object r => match resolveRef env false r with
      | .ok s => some (.container s) | _ => none
    | .oneof r => match resolveRef env true r with
      | .ok s => some (.container s) | _ => none
    | .scalar _ => some (.scalar item true)
    | .enum _ => some (.scalar item true)
    | _ => none

/-- the kind of the leaf of `walkPath` (`[]`: `walkToChild` stays) -/
def walkKinds (env : Env) : ContKind → List Str → Option ContKind
  | k, [] => some k
  | k, name :: rest =>
    if !(Cont.hasProperty ⟨[], k⟩ name) then none
    else
      match kindOfValue env k name with
      | none => none
      | some fk =>
        match fk.asContKind with
        | none => none
        | some k' => walkKinds env k' rest

/-- `findBlock name [b]` for the block of kind `k` with its own spec -/
def resolveName (env : Env) (k : ContKind) (name : Str) : Option PathSpec :=
  match specOf env ⟨[], k⟩ with
  | .ok spec =>
    match aliasLookup name spec.aliases with
    | some p => some p
    | none => if Cont.hasProperty ⟨[], k⟩ name then some [name] else none
  | _ => none

/-- `childBlock` in the scope `[block of kind k]` -/
def childKind (env : Env) (k : ContKind) (name : Str) : Option ContKind :=
  match resolveName env k name with
  | some path => walkKinds env k path
  | none => none

/-- `scopeField` in the scope `[block of kind k]` -/
def fieldKindOf (env : Env) (k : ContKind) (name : Str) : Option FieldKind :=
  match resolveName env k name with
  | none => none
  | some path =>
    match path.getLast? with
    | none => none
    | some final =>
      match walkKinds env k path.dropLast with
      | none => none
      | some k' => if Cont.hasProperty ⟨[], k'⟩ final then kindOfValue env k' final else none

/-- `setAttribute sc path [] v false` in the scope `[block of kind k]` reaches a scalar field -/
def splitPathOK (env : Env) : ContKind → PathSpec → Bool
  | _, [] => false
  | k, [last] =>
    match fieldKindOf env k last with
    | some (.scalar _ _) => true
    | _ => false
  | k, name :: rest =>
    match childKind env k name with
    | some k' => splitPathOK env k' rest
    | none => false

def ScalarSplit.paths (ss : ScalarSplit) : List PathSpec :=
  ss.required ++ ss.optional ++ ss.remainder.toList

def Env.splitOK (env : Env) : Bool :=
  env.given.all fun g =>
    match g.spec.scalarSplit with
    | none => true
    | some ss => ss.paths.all (splitPathOK env (.msg (env.schemaOf g.schemaName)))

/-- the well-formedness of an environment -/
def Env.WF (env : Env) : Bool :=
  env.closed && env.typesOK && env.rootOK && env.stubOK && env.splitOK && env.mapNamesFresh

end J5V.Walker
