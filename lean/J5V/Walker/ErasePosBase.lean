import J5V.Walker.Walk
import J5V.Bcl.EraseProofs
/-!
# Source positions only position errors (1): the relation, its rules, values, paths, `walkScope`

`MRel R m' m`: at every state the two computations both succeed (results related by `R`, SAME state),
both fail (same `kind`, same `what`; positions may differ) or both panic (same reason).
-/
namespace J5V.Walker
open J5V.Bcl

/-- forget the position of an error -/
def Res.dropPos {α} : Res α → Res α
  | .ok a => .ok a
  | .err e => .err { e with pos := none }
  | .panic w => .panic w

/-- errors equal up to their position -/
def ERel (e' e : WErr) : Prop := e'.kind = e.kind ∧ e'.what = e.what

theorem ERel.refl (e : WErr) : ERel e e := ⟨rfl, rfl⟩

theorem ERel.addPosition {e' e : WErr} (h : ERel e' e) (p' p : Span) :
    ERel (e'.addPosition p') (e.addPosition p) := by
  unfold WErr.addPosition
  split <;> split <;> exact h

theorem ERel.wrapped {e' e : WErr} (h : ERel e' e) : ERel e'.wrapped e.wrapped := ⟨rfl, h.2⟩

def ResRel {α : Type} (R : α → α → Prop) : Res (α × Node) → Res (α × Node) → Prop
  | .ok (a', s'), .ok (a, s) => R a' a ∧ s' = s
  | .err e', .err e => ERel e' e
  | .panic w', .panic w => w' = w
  | _, _ => False

theorem ResRel.refl {α : Type} (r : Res (α × Node)) : ResRel Eq r r := by
  cases r with
  | ok r => obtain ⟨a, s⟩ := r; exact ⟨rfl, rfl⟩
  | err e => exact ERel.refl e
  | panic w => exact rfl

theorem ResRel.dropPos {α : Type} {r' r : Res (α × Node)} (h : ResRel Eq r' r) :
    r'.dropPos = r.dropPos := by
  cases r' with
  | ok r' =>
    cases r with
    | ok r =>
      obtain ⟨a', s'⟩ := r'; obtain ⟨a, s⟩ := r
      obtain ⟨h1, h2⟩ := h; subst h1; subst h2; rfl
    | err e => exact absurd h id
    | panic w => exact absurd h id
  | err e' =>
    cases r with
    | ok r => exact absurd h id
    | err e =>
      obtain ⟨p', k', w'⟩ := e'; obtain ⟨p, k, w⟩ := e
      obtain ⟨h1, h2⟩ := h
      simp only at h1 h2
      subst h1; subst h2; rfl
    | panic w => exact absurd h id
  | panic w' =>
    cases r with
    | ok r => exact absurd h id
    | err e => exact absurd h id
    | panic w => have : w' = w := h; subst this; rfl

def MRel {α : Type} (R : α → α → Prop) (m' m : M α) : Prop := ∀ st, ResRel R (m' st) (m st)

theorem MRel.refl {α : Type} (m : M α) : MRel Eq m m := fun st => ResRel.refl (m st)

theorem MRel.pure {α : Type} {R : α → α → Prop} {a' a : α} (h : R a' a) :
    MRel R (pure a' : M α) (pure a) := fun _ => ⟨h, rfl⟩

theorem MRel.err {α : Type} {R : α → α → Prop} {e' e : WErr} (h : ERel e' e) :
    MRel R (M.err e' : M α) (M.err e) := fun _ => h

theorem MRel.panic {α : Type} {R : α → α → Prop} (w : String) :
    MRel R (M.panic w : M α) (M.panic w) := fun _ => rfl

theorem MRel.errAt {α : Type} {R : α → α → Prop} (what : String) (p' p : Span) :
    MRel R (errAt what p' : M α) (errAt what p) := fun _ => ⟨rfl, rfl⟩

theorem MRel.wrapErr {α : Type} {R : α → α → Prop} {e' e : WErr} (h : ERel e' e) (p' p : Span) :
    MRel R (M.lift (wrapErr (some e') p') : M α) (M.lift (wrapErr (some e) p)) :=
  fun _ => h.wrapped.addPosition p' p

theorem MRel.bind {α β : Type} {R : α → α → Prop} {S : β → β → Prop} {m' m : M α} {f' f : α → M β}
    (hm : MRel R m' m) (hf : ∀ a' a, R a' a → MRel S (f' a') (f a)) :
    MRel S (m' >>= f') (m >>= f) := by
  intro st
  have h := hm st
  show ResRel S (M.bind m' f' st) (M.bind m f st)
  unfold M.bind
  cases h' : m' st with
  | ok r' =>
    cases h0 : m st with
    | ok r =>
      obtain ⟨a', s'⟩ := r'; obtain ⟨a, s⟩ := r
      rw [h', h0] at h
      obtain ⟨h1, h2⟩ := h; subst h2
      exact hf a' a h1 s'
    | err e => rw [h', h0] at h; exact absurd h id
    | panic w => rw [h', h0] at h; exact absurd h id
  | err e' =>
    cases h0 : m st with
    | ok r => rw [h', h0] at h; exact absurd h id
    | err e => rw [h', h0] at h; exact h
    | panic w => rw [h', h0] at h; exact absurd h id
  | panic w' =>
    cases h0 : m st with
    | ok r => rw [h', h0] at h; exact absurd h id
    | err e => rw [h', h0] at h; exact absurd h id
    | panic w => rw [h', h0] at h; exact h

/-- both sides the same computation, continuations related -/
theorem MRel.bindEq {α β : Type} {S : β → β → Prop} {m : M α} {f' f : α → M β}
    (hf : ∀ a, MRel S (f' a) (f a)) : MRel S (m >>= f') (m >>= f) :=
  MRel.bind (MRel.refl m) (fun a' a h => by subst h; exact hf a')

theorem MRel.bind' {α β : Type} {S : β → β → Prop} {m' m : M α} {f' f : α → M β}
    (hm : MRel Eq m' m) (hf : ∀ a, MRel S (f' a) (f a)) : MRel S (m' >>= f') (m >>= f) :=
  MRel.bind hm (fun a' a h => by subst h; exact hf a')

theorem MRel.ite {α : Type} {R : α → α → Prop} {c : Prop} [Decidable c] {a' a b' b : M α}
    (ha : c → MRel R a' a) (hb : ¬c → MRel R b' b) :
    MRel R (if c then a' else b') (if c then a else b) := by
  by_cases hc : c
  · simp only [hc, if_true]; exact ha hc
  · simp only [hc, if_false]; exact hb hc

theorem MRel.mapErr {α : Type} {R : α → α → Prop} {m' m : M α} {h' h : WErr → WErr}
    (hm : MRel R m' m) (hh : ∀ e' e, ERel e' e → ERel (h' e') (h e)) :
    MRel R (m'.mapErr h') (m.mapErr h) := by
  intro st
  have h1 := hm st
  unfold M.mapErr
  cases h' : m' st with
  | ok r' =>
    cases h0 : m st with
    | ok r => rw [h', h0] at h1; exact h1
    | err e => rw [h', h0] at h1; exact absurd h1 id
    | panic w => rw [h', h0] at h1; exact absurd h1 id
  | err e' =>
    cases h0 : m st with
    | ok r => rw [h', h0] at h1; exact absurd h1 id
    | err e => rw [h', h0] at h1; exact hh e' e h1
    | panic w => rw [h', h0] at h1; exact absurd h1 id
  | panic w' =>
    cases h0 : m st with
    | ok r => rw [h', h0] at h1; exact absurd h1 id
    | err e => rw [h', h0] at h1; exact absurd h1 id
    | panic w => rw [h', h0] at h1; exact h1

/-- `addPosition` is invisible -/
theorem MRel.addPosition {α : Type} {R : α → α → Prop} {m' m : M α} (hm : MRel R m' m)
    (p' p : Span) : MRel R (m'.addPosition p') (m.addPosition p) :=
  MRel.mapErr hm (fun _ _ h => h.addPosition p' p)

theorem MRel.tryCatch {α : Type} {R : α → α → Prop} {m' m : M α} {h' h : WErr → M α}
    (hm : MRel R m' m) (hh : ∀ e' e, ERel e' e → MRel R (h' e') (h e)) :
    MRel R (m'.tryCatch h') (m.tryCatch h) := by
  intro st
  have h1 := hm st
  unfold M.tryCatch
  cases h' : m' st with
  | ok r' =>
    cases h0 : m st with
    | ok r => rw [h', h0] at h1; exact h1
    | err e => rw [h', h0] at h1; exact absurd h1 id
    | panic w => rw [h', h0] at h1; exact absurd h1 id
  | err e' =>
    cases h0 : m st with
    | ok r => rw [h', h0] at h1; exact absurd h1 id
    | err e => rw [h', h0] at h1; exact hh e' e h1 st
    | panic w => rw [h', h0] at h1; exact absurd h1 id
  | panic w' =>
    cases h0 : m st with
    | ok r => rw [h', h0] at h1; exact absurd h1 id
    | err e => rw [h', h0] at h1; exact absurd h1 id
    | panic w => rw [h', h0] at h1; exact h1

/-! ## Values -/

/-- the zero span, spelled out (`J5V.Bcl.Span.zero` and `J5V.Walker.Span.zero` are both this) -/
abbrev zsp : Span := ⟨⟨0, 0⟩, ⟨0, 0⟩⟩

def AV.erase : AV → AV
  | .value v => .value v.erase
  | .tag t => .tag t.erase
  | .str s _ => .str s zsp
  | .bool b => .bool b

theorem AV.erase_span (a : AV) : a.erase.span = zsp := by
  cases a with
  | value v => exact Value.erase_span v
  | tag t => rfl
  | str s sp => rfl
  | bool b => rfl

theorem valueToken_erase (v : Value) : valueToken v.erase = (valueToken v).erase := by
  cases v with
  | scalar tok sp => simp [Value.erase, valueToken]
  | array vs sp => simp [Value.erase, valueToken]; rfl

theorem valueAsString_erase (v : Value) : valueAsString v.erase = valueAsString v := by
  simp only [valueAsString, valueToken_erase, Token.erase_ty, Token.erase_lit]

theorem AV.asString_erase (a : AV) : a.erase.asString = a.asString := by
  cases a with
  | value v => exact valueAsString_erase v
  | tag t =>
    obtain ⟨mark, mt, r, v, sp⟩ := t
    cases v with
    | some v => simp [AV.erase, AV.asString, TagValue.erase, valueAsString_erase]
    | none =>
      cases r with
      | some r => simp [AV.erase, AV.asString, TagValue.erase]
      | none => simp [AV.erase, AV.asString, TagValue.erase]
  | str s sp => rfl
  | bool b => rfl

theorem AV.asBool_erase (a : AV) : a.erase.asBool = a.asBool := by
  cases a with
  | value v => simp only [AV.erase, AV.asBool, valueToken_erase, Token.erase_ty, Token.erase_lit]
  | tag t => rfl
  | str s sp => rfl
  | bool b => rfl

theorem AV.asInt_erase (a : AV) (bits : Nat) : a.erase.asInt bits = a.asInt bits := by
  cases a with
  | value v => simp only [AV.erase, AV.asInt, valueToken_erase, Token.erase_ty, Token.erase_lit]
  | tag t => rfl
  | str s sp => rfl
  | bool b => rfl

theorem AV.asUint_erase (a : AV) (bits : Nat) : a.erase.asUint bits = a.asUint bits := by
  cases a with
  | value v => simp only [AV.erase, AV.asUint, valueToken_erase, Token.erase_ty, Token.erase_lit]
  | tag t => rfl
  | str s sp => rfl
  | bool b => rfl

theorem AV.asFloatLit_erase (a : AV) : a.erase.asFloatLit = a.asFloatLit := by
  cases a with
  | value v => simp only [AV.erase, AV.asFloatLit, valueToken_erase, Token.erase_ty, Token.erase_lit]
  | tag t => rfl
  | str s sp => rfl
  | bool b => rfl

theorem AV.asArray_erase (a : AV) : a.erase.asArray = a.asArray.map (List.map AV.erase) := by
  cases a with
  | value v =>
    cases v with
    | scalar tok sp => simp [AV.erase, Value.erase, AV.asArray]
    | array vs sp =>
      cases vs with
      | nil => simp [AV.erase, Value.erase, Value.eraseList, AV.asArray]
      | cons x xs =>
        simp [AV.erase, Value.erase, Value.eraseList, AV.asArray, Value.eraseList_eq_map,
          Function.comp_def]
  | tag t => rfl
  | str s sp => rfl
  | bool b => rfl

theorem scalarFromAST_erase (env : Env) (t : FieldType) (a : AV) :
    scalarFromAST env t a.erase = scalarFromAST env t a := by
  simp only [scalarFromAST, AV.asBool_erase, AV.asString_erase, AV.asInt_erase, AV.asUint_erase,
    AV.asFloatLit_erase]

/-! ## Paths -/

def PathElement.erase (p : PathElement) : PathElement := ⟨p.name, p.position.map fun _ => zsp⟩

theorem combinePath_erase (path : PathSpec) (ref : List Ident) :
    combinePath path (ref.map Ident.erase) = (combinePath path ref).map PathElement.erase := by
  simp [combinePath, PathElement.erase, Function.comp_def, Ident.erase, J5V.Bcl.Span.zero]

theorem walkScope_erase (env : Env) : ∀ (path : List PathElement) (scope : Scope),
    MRel Eq (walkScope env scope (path.map PathElement.erase)) (walkScope env scope path) := by
  intro path
  induction path with
  | nil => intro scope; exact MRel.refl _
  | cons ident rest ih =>
    intro scope st
    show ResRel Eq (walkScope env scope (ident.erase :: rest.map PathElement.erase) st)
      (walkScope env scope (ident :: rest) st)
    simp only [walkScope]
    have hn : ident.erase.name = ident.name := rfl
    rw [hn]
    cases hr : childBlock env scope ident.name st with
    | ok r => obtain ⟨next, st1⟩ := r; exact ih next st1
    | panic w => exact rfl
    | err werr =>
      cases hp : ident.position with
      | none => simp only [PathElement.erase, hp, Option.map]; exact ⟨rfl, rfl⟩
      | some pos =>
        simp only [PathElement.erase, hp, Option.map]
        split
        · exact rfl
        · exact ⟨rfl, rfl⟩

theorem buildScope_erase (env : Env) (sc : Scope) (schemaPath : PathSpec) (userPath : List Ident)
    (flag : ScopeFlag) :
    MRel Eq (buildScope env sc schemaPath (userPath.map Ident.erase) flag)
      (buildScope env sc schemaPath userPath flag) := by
  unfold buildScope
  simp only [combinePath_erase, List.isEmpty_map]
  apply MRel.ite
  · intro _; exact MRel.refl _
  · intro _
    exact MRel.bind' (walkScope_erase env _ sc) (fun a => MRel.refl _)

end J5V.Walker
