import J5V.Walker.State
import J5V.Go.Hex
/-!
# Canonical dump of PROTOCOL-walker.md §3 (core only)

Driven by the schema: j5 property names in schema order, only populated properties, no spaces.
`{…}` object, `<…>` oneof, `[…]` array, `(HEXKEY:v,…)` map sorted by key bytes, scalars by kind.
The root property `sourceLocations` is skipped (`skipRoot`). A node whose shape does not fit its
type prints `?` (never happens for a tree built by the walk over the same `Env`).
-/
namespace J5V.Walker
open J5V.Go

/-- lower-case hex of `n`, zero padded to `w` digits -/
def hexPad (w n : Nat) : String :=
  let ds := Nat.toDigits 16 n
  String.ofList (List.replicate (w - ds.length) '0' ++ ds)

def findOptionByNumber (n : Int) : List EnumOption → Option EnumOption
  | [] => none
  | o :: rest => if o.number = n then some o else findOptionByNumber n rest

/-- SCALAR of the protocol -/
def dumpScalar (env : Env) (t : FieldType) (v : Scalar) : String :=
  match t, v with
  | .scalar .string, .str s => "s:" ++ toHexW s
  | .scalar .key, .str s => "k:" ++ toHexW s
  | .scalar .bytes, .str s => "y:" ++ toHexW s
  | .scalar .bool, .bool b => if b then "b:t" else "b:f"
  | .scalar .int32, .int i => "i32:" ++ toString i
  | .scalar .int64, .int i => "i64:" ++ toString i
  | .scalar .uint32, .uint n => "u32:" ++ toString n
  | .scalar .uint64, .uint n => "u64:" ++ toString n
  | .scalar .float32, .f32 b => "f32:" ++ hexPad 8 b
  | .scalar .float64, .f64 b => "f64:" ++ hexPad 16 b
  | .enum ref, .enum n =>
    match findOptionByNumber n (env.enumOf ref).options with
    | some o => "e:" ++ o.name.show
    | none => "e:#" ++ toString n
  | _, _ => "?"

/-- lexicographic order on byte strings (`sort.Strings`) -/
def strLt : Str → Str → Bool
  | [], [] => false
  | [], _ :: _ => true
  | _ :: _, [] => false
  | a :: as, b :: bs => if a < b then true else if b < a then false else strLt as bs

def insertEntry (e : Str × String) : List (Str × String) → List (Str × String)
  | [] => [e]
  | x :: rest => if strLt e.1 x.1 then e :: x :: rest else x :: insertEntry e rest

def sortEntries : List (Str × String) → List (Str × String)
  | [] => []
  | e :: rest => insertEntry e (sortEntries rest)

def commaJoin : List String → String
  | [] => ""
  | [a] => a
  | a :: b :: rest => a ++ "," ++ commaJoin (b :: rest)

mutual
/-- VALUE of the protocol for a populated node of type `t` -/
def dumpValue (env : Env) : FieldType → Node → String
  | .object r, .msg _ ps => "{" ++ commaJoin (dumpProps env [] (env.schemaOf r).props ps) ++ "}"
  | .oneof r, .msg _ ps => "<" ++ commaJoin (dumpProps env [] (env.schemaOf r).props ps) ++ ">"
  | .array item, .list xs => "[" ++ commaJoin (dumpItems env item xs) ++ "]"
  | .map item, .map ks vs =>
    "(" ++ commaJoin ((sortEntries (dumpEntries env item ks vs)).map fun e => toHexW e.1 ++ ":" ++ e.2) ++ ")"
  -- message-typed values the walker can create but never fill (cannot occur in the closure of SourceFile)
  | .any, .msg _ _ => "a:-:-"
  | .scalar .timestamp, .msg _ _ => "t:0:0"
  | .scalar .date, .msg _ _ => "d:0:0:0"
  | .scalar .decimal, .msg _ _ => "c:-"
  | t, .scalar v => dumpScalar env t v
  | _, _ => "?"

/-- PROPS: the populated properties in schema order, without the names in `skip` -/
def dumpProps (env : Env) (skip : List Str) : List Property → List Node → List String
  | p :: ps, v :: vs =>
    if skip.contains p.name ∨ !v.populated then dumpProps env skip ps vs
    else (p.name.show ++ "=" ++ dumpValue env p.type v) :: dumpProps env skip ps vs
  | _, _ => []

def dumpItems (env : Env) (item : FieldType) : List Node → List String
  | [] => []
  | x :: xs => dumpValue env item x :: dumpItems env item xs

def dumpEntries (env : Env) (item : FieldType) : List Str → List Node → List (Str × String)
  | k :: ks, v :: vs => (k, dumpValue env item v) :: dumpEntries env item ks vs
  | _, _ => []
end

/-- the root property the protocol excludes -/
def skipRoot : List Str := [str "sourceLocations"]

/-- DUMP: the root object of schema `env.root` -/
def dump (env : Env) (root : Node) : String :=
  match root with
  | .msg _ ps => "{" ++ commaJoin (dumpProps env skipRoot (env.schemaOf env.root).props ps) ++ "}"
  | _ => "?"

end J5V.Walker
