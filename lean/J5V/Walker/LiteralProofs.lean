import J5V.Walker.Hoare
import J5V.Walker.Literal
/-!
# Spec of `Literal.lean`: `scalarFromAST` never panics (whatever the environment, type and value) and its
errors carry no position (`Walk.lean` adds the span of the value / element).
-/
namespace J5V.Walker

/-- the local `opt` of `scalarFromAST` -/
def optRes (what : String) (o : Option Scalar) : Res Scalar :=
  match o with
  | some s => .ok s
  | none => .err (.mk0 what)

theorem scalarFromAST_opt (what : String) (o : Option Scalar) :
    (∀ w, optRes what o ≠ .panic w) ∧ (∀ e, optRes what o = .err e → NoPos e) := by
  unfold optRes
  cases o with
  | some s => exact ⟨by simp, by simp⟩
  | none =>
    refine ⟨by simp, ?_⟩
    intro e h; simp only [Res.err.injEq] at h; subst h; rfl

theorem scalarFromAST_spec (env : Env) (t : FieldType) (v : AV) :
    (∀ w, scalarFromAST env t v ≠ .panic w) ∧ (∀ e, scalarFromAST env t v = .err e → NoPos e) := by
  have herr : ∀ (what : String),
      (∀ w, (Res.err (.mk0 what) : Res Scalar) ≠ .panic w) ∧
      (∀ e, (Res.err (.mk0 what) : Res Scalar) = .err e → NoPos e) := by
    intro what
    refine ⟨by simp, ?_⟩
    intro e h; simp only [Res.err.injEq] at h; subst h; rfl
  unfold scalarFromAST
  cases t with
  | scalar k =>
    cases k with
    | float32 =>
      simp only
      cases v.asFloatLit with
      | none => exact herr _
      | some lit => exact scalarFromAST_opt _ _
    | float64 =>
      simp only
      cases v.asFloatLit with
      | none => exact herr _
      | some lit => exact scalarFromAST_opt _ _
    | bool => exact scalarFromAST_opt _ _
    | string => exact scalarFromAST_opt _ _
    | key => exact scalarFromAST_opt _ _
    | int32 => exact scalarFromAST_opt _ _
    | int64 => exact scalarFromAST_opt _ _
    | uint32 => exact scalarFromAST_opt _ _
    | uint64 => exact scalarFromAST_opt _ _
    | bytes => exact herr _
    | date => exact herr _
    | timestamp => exact herr _
    | decimal => exact herr _
  | enum ref =>
    simp only
    cases v.asString with
    | none => exact herr _
    | some s =>
      simp only
      cases enumOptionByName (env.enumOf ref) s with
      | some o => exact ⟨by simp, by simp⟩
      | none => exact herr _
  | object r => exact herr _
  | oneof r => exact herr _
  | any => exact herr _
  | array i => exact herr _
  | map i => exact herr _
  | unknown => exact herr _

theorem scalarFromAST_no_panic (env : Env) (t : FieldType) (v : AV) (w : String) :
    scalarFromAST env t v ≠ .panic w := (scalarFromAST_spec env t v).1 w

theorem scalarFromAST_err_noPos {env : Env} {t : FieldType} {v : AV} {e : WErr}
    (h : scalarFromAST env t v = .err e) : NoPos e := (scalarFromAST_spec env t v).2 e h

end J5V.Walker
