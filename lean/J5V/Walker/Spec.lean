import J5V.Walker.State
/-!
# Block specs: `SchemaSet.blockSpec` / `_buildSpec` (`schema/schemaset.go`) — walker-semantics §4

`specOf env c` is the spec of the container `c`: the given block of its schema name (the LAST of
that name) completed by the automatic name / description tags and the automatic aliases (single
form, array of objects).

**Why a pure function is exact although Go mutates and caches.** `_buildSpec` takes the given
`*BlockSpec` itself (not a copy), writes `Name`, `Description`, `Aliases` into it and stores it in
`cachedSpecs[name]`. (1) Everything it writes is a function of (the given block of that name, the
property list of the node); (2) two nodes with the same `SchemaName()` have the same property list:
for messages the name determines the j5 schema; for maps the name is `<owner schema>.<property>`,
which determines the item schema, and is assumed not to collide with a schema name
(`Env.mapNamesFresh`: in `j5Env` the only map is `j5.bcl.v1.SourceLocation.children`); (3) a spec is
built at most once per name (cache), and nothing else ever writes to a `BlockSpec` or to a given
block of ANOTHER name; `containerField.spec` is a struct copy sharing the `Aliases` map and the tag
pointers, which are never written after `_buildSpec` returns. So the cache is memoisation of
`specOf`, whatever the order in which containers are first met — also across files of one parser.
The harness oracle `walker-cache-dependent` checks this on the real code.
-/
namespace J5V.Walker

/-- what `RangePropertySchemas` yields: the client properties in order; a `mapContainer` yields the
single pseudo property `"*"` with the item schema -/
def Cont.rangeProps (c : Cont) : List Property :=
  match c.kind with
  | .msg s => s.props
  | .map _ item =>
    [{ name := str "*", required := false, type := item, singleForm := none, arrayAlias := none,
       presence := false, oneofGroup := none }]

def strName : Str := str "name"
def strDescription : Str := str "description"

/-- the callback of `_buildSpec` over the properties in order: `spec` is the block being completed,
`newAliases` Go's local map -/
def buildSpecLoop : List Property → BlockSpec → List (Str × PathSpec) →
    Res (BlockSpec × List (Str × PathSpec))
  | [], spec, na => .ok (spec, na)
  | p :: rest, spec, na =>
    match p.type with
    | .object _ => buildSpecLoop rest spec na
    | .oneof _ => buildSpecLoop rest spec na
    | .scalar .string =>
      let spec1 :=
        if p.name = strName ∧ spec.name.isNone then
          { spec with name := some ⟨strName, none, none, !p.required, false⟩ }
        else spec
      let spec2 :=
        if p.name = strDescription ∧ spec1.description.isNone then
          { spec1 with description := some strDescription }
        else spec1
      buildSpecLoop rest spec2 na
    | .scalar _ => buildSpecLoop rest spec na     -- bool, integer, float, key, bytes, date, timestamp, decimal
    | .enum _ => buildSpecLoop rest spec na
    | .array item =>
      match p.singleForm with
      | some sf => buildSpecLoop rest spec (aliasInsert sf [p.name] na)
      | none =>
        match item, p.arrayAlias with
        | .object _, some a => buildSpecLoop rest spec (aliasInsert a [p.name] na)
        | _, _ => buildSpecLoop rest spec na
    | .map _ =>
      match p.singleForm with
      | some sf => buildSpecLoop rest spec (aliasInsert sf [p.name] na)
      | none => buildSpecLoop rest spec na
    | .any => .err (.mk0 "unimplemented schema type")
    | .unknown => .err (.mk0 "unimplemented schema type")

/-- `for alias, path := range newAliases { if _, ok := Aliases[alias]; !ok { Aliases[alias] = path } }`
(each alias is merged independently: the map iteration order does not matter) -/
def mergeAliases : List (Str × PathSpec) → List (Str × PathSpec) → List (Str × PathSpec)
  | [], acc => acc
  | (a, p) :: rest, acc =>
    match aliasLookup a acc with
    | some _ => mergeAliases rest acc
    | none => mergeAliases rest (acc ++ [(a, p)])

/-- `_buildSpec(node)` -/
def buildSpec (env : Env) (c : Cont) : Res BlockSpec :=
  let spec := match findGiven c.schemaName env.given with
    | some g => g
    | none => BlockSpec.empty
  if spec.onlyDefined then .ok spec
  else
    match buildSpecLoop c.rangeProps spec [] with
    | .ok (spec1, na) => .ok { spec1 with aliases := mergeAliases na spec1.aliases }
    | .err e => .err e
    | .panic w => .panic w

/-- `SchemaSet.blockSpec(node)`: the cache is memoisation (see the header) -/
def specOf (env : Env) (c : Cont) : Res BlockSpec := buildSpec env c

/-- no map container name is also the name of a schema or of a given block (assumption (2) of the
header) -/
def Env.mapNamesFresh (env : Env) : Bool :=
  env.schemas.all fun s => s.props.all fun p =>
    match p.type with
    | .map _ =>
      let n := s.name ++ [46] ++ p.name
      (findSchema n env.schemas).isNone && (findGiven n env.given).isNone
    | _ => true

end J5V.Walker
