import J5V.Walker.Hoare
/-!
# Specs of `State.lean`

Under `env.WF = true`, on a well-typed tree: no function panics, the tree stays well typed and only
grows, the returned `Field` / `Cont` is valid in the new state, errors carry no position.
-/
namespace J5V.Walker

/-! ## `resolveRef`, `classify` -/

theorem resolveRef_ok {env : Env} {w : Bool} {r : Str} {s : Schema} (h : resolveRef env w r = .ok s) :
    s = env.schemaOf r := by
  by_cases hh : (env.schemaOf r).isOneof = w
  · simp [resolveRef, hh] at h; exact h.symm
  · simp [resolveRef, hh] at h

theorem resolveRef_ne_err {env : Env} {w : Bool} {r : Str} {e : WErr} : resolveRef env w r ≠ .err e := by
  by_cases hh : (env.schemaOf r).isOneof = w <;> simp [resolveRef, hh]

theorem resolveRef_eq_ok {env : Env} {w : Bool} {r : Str} (h : (env.schemaOf r).isOneof = w) :
    resolveRef env w r = .ok (env.schemaOf r) := by
  simp [resolveRef, h]

theorem resolveRef_object {env : Env} {r : Str} (h : (FieldType.object r).itemOK env = true) :
    resolveRef env false r = .ok (env.schemaOf r) :=
  resolveRef_eq_ok (by simpa [FieldType.itemOK] using h)

theorem resolveRef_oneof {env : Env} {r : Str} (h : (FieldType.oneof r).itemOK env = true) :
    resolveRef env true r = .ok (env.schemaOf r) :=
  resolveRef_eq_ok (by simpa [FieldType.itemOK] using h)

/-- the wrapper kind `k` is one `classify` builds for a slot of type `t` -/
def KindFits (env : Env) (t : FieldType) (k : FieldKind) : Prop :=
  match k with
  | .container s => t.msgSchema env = some s
  | .arrayOfContainer s => ∃ item, t = .array item ∧ item.msgSchema env = some s
  | .arrayOfScalar item => t = .array item ∧ item.isLeaf = true
  | .map _ item => t = .map item ∧ item.isMapItem = true
  | .scalar t' _ => t' = t ∧ t.isLeaf = true
  | .any => t.isContainer = false

/-- the node has the shape the wrapper kind expects -/
def NodeFits (k : FieldKind) (n : Node) : Prop :=
  match k with
  | .container _ => ∃ tc ps, n = .msg tc ps
  | .arrayOfContainer _ => ∃ xs, n = .list xs
  | .arrayOfScalar _ => ∃ xs, n = .list xs
  | .map _ _ => ∃ ks vs, n = .map ks vs
  | .scalar _ _ => True
  | .any => True

/-- `classify` is total on the types `Env.WF` admits -/
theorem classify_total {env : Env} {owner : Str} {p : Property} (h : p.type.ok env = true) :
    (∃ k, classify env owner p = .ok k) ∨ (∃ e, classify env owner p = .err e) := by
  unfold classify
  cases ht : p.type with
  | object r =>
    rw [ht] at h
    simp only [resolveRef_object (by simpa [FieldType.ok] using h)]
    exact .inl ⟨_, rfl⟩
  | oneof r =>
    rw [ht] at h
    simp only [resolveRef_oneof (by simpa [FieldType.ok] using h)]
    exact .inl ⟨_, rfl⟩
  | enum r => exact .inl ⟨_, rfl⟩
  | any => exact .inl ⟨_, rfl⟩
  | scalar k => exact .inl ⟨_, rfl⟩
  | unknown => rw [ht] at h; simp [FieldType.ok, FieldType.itemOK] at h
  | array item =>
    rw [ht] at h
    simp only [FieldType.ok] at h
    cases item with
    | object r => simp only [resolveRef_object h]; exact .inl ⟨_, rfl⟩
    | oneof r => simp only [resolveRef_oneof h]; exact .inl ⟨_, rfl⟩
    | enum r => exact .inl ⟨_, rfl⟩
    | any => exact .inr ⟨_, rfl⟩
    | scalar k => exact .inl ⟨_, rfl⟩
    | unknown => simp [FieldType.itemOK] at h
    | array _ => simp [FieldType.itemOK] at h
    | map _ => simp [FieldType.itemOK] at h
  | map item =>
    rw [ht] at h
    simp only [FieldType.ok] at h
    cases item with
    | object r => simp only [resolveRef_object h]; exact .inl ⟨_, rfl⟩
    | oneof r => simp only [resolveRef_oneof h]; exact .inl ⟨_, rfl⟩
    | enum r => exact .inl ⟨_, rfl⟩
    | any => exact .inr ⟨_, rfl⟩
    | scalar k => exact .inl ⟨_, rfl⟩
    | unknown => simp [FieldType.itemOK] at h
    | array _ => simp [FieldType.itemOK] at h
    | map _ => simp [FieldType.itemOK] at h

theorem classify_no_panic {env : Env} {owner : Str} {p : Property} (h : p.type.ok env = true) (w : String) :
    classify env owner p ≠ .panic w := by
  rcases classify_total (owner := owner) h with ⟨k, hk⟩ | ⟨e, he⟩
  · rw [hk]; simp
  · rw [he]; simp

/-- what `classify` answers fits the property type (whatever the environment) -/
theorem classify_fits {env : Env} {owner : Str} {p : Property} {k : FieldKind}
    (h : classify env owner p = .ok k) : KindFits env p.type k := by
  unfold classify at h
  cases ht : p.type with
  | object r =>
    rw [ht] at h; simp only at h
    cases hr : resolveRef env false r with
    | ok s => rw [hr] at h; cases h; cases resolveRef_ok hr; simp [KindFits, FieldType.msgSchema]
    | err e => rw [hr] at h; cases h
    | panic w => rw [hr] at h; cases h
  | oneof r =>
    rw [ht] at h; simp only at h
    cases hr : resolveRef env true r with
    | ok s => rw [hr] at h; cases h; cases resolveRef_ok hr; simp [KindFits, FieldType.msgSchema]
    | err e => rw [hr] at h; cases h
    | panic w => rw [hr] at h; cases h
  | enum r => rw [ht] at h; cases h; simp [KindFits, FieldType.isLeaf]
  | any => rw [ht] at h; cases h; simp [KindFits, FieldType.isContainer]
  | scalar sk => rw [ht] at h; cases h; simp [KindFits, FieldType.isLeaf]
  | unknown => rw [ht] at h; cases h
  | array item =>
    rw [ht] at h; simp only at h
    cases item with
    | object r =>
      simp only at h
      cases hr : resolveRef env false r with
      | ok s => rw [hr] at h; cases h; cases resolveRef_ok hr; exact ⟨_, rfl, rfl⟩
      | err e => rw [hr] at h; cases h
      | panic w => rw [hr] at h; cases h
    | oneof r =>
      simp only at h
      cases hr : resolveRef env true r with
      | ok s => rw [hr] at h; cases h; cases resolveRef_ok hr; exact ⟨_, rfl, rfl⟩
      | err e => rw [hr] at h; cases h
      | panic w => rw [hr] at h; cases h
    | enum r => cases h; exact ⟨rfl, rfl⟩
    | scalar sk => cases h; exact ⟨rfl, rfl⟩
    | any => cases h
    | unknown => cases h
    | array _ => cases h
    | map _ => cases h
  | map item =>
    rw [ht] at h; simp only at h
    cases item with
    | object r =>
      simp only at h
      cases hr : resolveRef env false r with
      | ok s => rw [hr] at h; cases h; exact ⟨rfl, rfl⟩
      | err e => rw [hr] at h; cases h
      | panic w => rw [hr] at h; cases h
    | oneof r =>
      simp only at h
      cases hr : resolveRef env true r with
      | ok s => rw [hr] at h; cases h; exact ⟨rfl, rfl⟩
      | err e => rw [hr] at h; cases h
      | panic w => rw [hr] at h; cases h
    | enum r => cases h; exact ⟨rfl, rfl⟩
    | scalar sk => cases h; exact ⟨rfl, rfl⟩
    | any => cases h
    | unknown => cases h
    | array _ => cases h
    | map _ => cases h

/-- the name `classify` gives a map wrapper -/
theorem classify_map_name {env : Env} {owner : Str} {p : Property} {nm : Str} {item : FieldType}
    (h : classify env owner p = .ok (.map nm item)) : nm = owner ++ [46] ++ p.name := by
  unfold classify at h
  cases ht : p.type with
  | object r =>
    rw [ht] at h; simp only at h
    cases hr : resolveRef env false r <;> rw [hr] at h <;> cases h
  | oneof r =>
    rw [ht] at h; simp only at h
    cases hr : resolveRef env true r <;> rw [hr] at h <;> cases h
  | enum r => rw [ht] at h; cases h
  | any => rw [ht] at h; cases h
  | scalar sk => rw [ht] at h; cases h
  | unknown => rw [ht] at h; cases h
  | array item' =>
    rw [ht] at h; simp only at h
    cases item' with
    | object r =>
      simp only at h
      cases hr : resolveRef env false r <;> rw [hr] at h <;> cases h
    | oneof r =>
      simp only at h
      cases hr : resolveRef env true r <;> rw [hr] at h <;> cases h
    | enum r => cases h
    | scalar sk => cases h
    | any => cases h
    | unknown => cases h
    | array _ => cases h
    | map _ => cases h
  | map item' =>
    rw [ht] at h; simp only at h
    cases item' with
    | object r =>
      simp only at h
      cases hr : resolveRef env false r <;> rw [hr] at h <;> cases h
      rfl
    | oneof r =>
      simp only at h
      cases hr : resolveRef env true r <;> rw [hr] at h <;> cases h
      rfl
    | enum r => cases h; rfl
    | scalar sk => cases h; rfl
    | any => cases h
    | unknown => cases h
    | array _ => cases h
    | map _ => cases h

/-- the errors of `classify` carry no position -/
theorem classify_err_noPos {env : Env} {owner : Str} {p : Property} {e : WErr}
    (h : classify env owner p = .err e) : NoPos e := by
  unfold classify at h
  cases ht : p.type with
  | object r =>
    rw [ht] at h; simp only at h
    cases hr : resolveRef env false r with
    | ok s => rw [hr] at h; cases h
    | err e => exact absurd hr resolveRef_ne_err
    | panic w => rw [hr] at h; cases h
  | oneof r =>
    rw [ht] at h; simp only at h
    cases hr : resolveRef env true r with
    | ok s => rw [hr] at h; cases h
    | err e => exact absurd hr resolveRef_ne_err
    | panic w => rw [hr] at h; cases h
  | enum r => rw [ht] at h; cases h
  | any => rw [ht] at h; cases h
  | scalar sk => rw [ht] at h; cases h
  | unknown => rw [ht] at h; cases h
  | array item =>
    rw [ht] at h; simp only at h
    cases item with
    | object r =>
      simp only at h
      cases hr : resolveRef env false r with
      | ok s => rw [hr] at h; cases h
      | err e => exact absurd hr resolveRef_ne_err
      | panic w => rw [hr] at h; cases h
    | oneof r =>
      simp only at h
      cases hr : resolveRef env true r with
      | ok s => rw [hr] at h; cases h
      | err e => exact absurd hr resolveRef_ne_err
      | panic w => rw [hr] at h; cases h
    | any => cases h; rfl
    | enum r => cases h
    | scalar sk => cases h
    | unknown => cases h
    | array _ => cases h
    | map _ => cases h
  | map item =>
    rw [ht] at h; simp only at h
    cases item with
    | object r =>
      simp only at h
      cases hr : resolveRef env false r with
      | ok s => rw [hr] at h; cases h
      | err e => exact absurd hr resolveRef_ne_err
      | panic w => rw [hr] at h; cases h
    | oneof r =>
      simp only at h
      cases hr : resolveRef env true r with
      | ok s => rw [hr] at h; cases h
      | err e => exact absurd hr resolveRef_ne_err
      | panic w => rw [hr] at h; cases h
    | any => cases h; rfl
    | enum r => cases h
    | scalar sk => cases h
    | unknown => cases h
    | array _ => cases h
    | map _ => cases h

/-! ## `builtValue` -/

theorem VOK.untouch {env : Env} {t : FieldType} {b : Bool} {n : Node} (h : VOK env t b n) :
    VOK env t false n := by
  cases h with
  | absent => exact .absent _
  | leaf _ _ _ hl => exact .leaf _ _ _ hl
  | msg _ s _ _ _ h0 h1 h2 h3 => exact .msg _ s _ _ _ h0 h1 h2 h3
  | arr _ _ _ h => exact .arr _ _ _ h
  | map _ _ _ _ h1 h2 => exact .map _ _ _ _ h1 h2

theorem VOK.msg_shape {env : Env} {t : FieldType} {s : Schema} {b : Bool} {n : Node}
    (h : VOK env t b n) (ht : t.msgSchema env = some s) :
    (n = .absent ∧ b = false) ∨ ∃ tc ps, n = .msg tc ps := by
  cases h with
  | absent => exact .inl ⟨rfl, rfl⟩
  | leaf _ _ _ hl => rw [FieldType.isContainer_of_msgSchema ht] at hl; cases hl
  | msg _ _ _ tc ps => exact .inr ⟨tc, ps, rfl⟩
  | arr => simp [FieldType.msgSchema] at ht
  | map => simp [FieldType.msgSchema] at ht

theorem VOK.list_shape {env : Env} {item : FieldType} {b : Bool} {n : Node}
    (h : VOK env (.array item) b n) : (n = .absent ∧ b = false) ∨ ∃ xs, n = .list xs := by
  cases h with
  | absent => exact .inl ⟨rfl, rfl⟩
  | leaf _ _ _ hl => cases hl
  | msg _ _ _ _ _ h0 => simp [FieldType.msgSchema] at h0
  | arr _ _ xs => exact .inr ⟨xs, rfl⟩

theorem VOK.map_shape {env : Env} {item : FieldType} {b : Bool} {n : Node}
    (h : VOK env (.map item) b n) : (n = .absent ∧ b = false) ∨ ∃ ks vs, n = .map ks vs := by
  cases h with
  | absent => exact .inl ⟨rfl, rfl⟩
  | leaf _ _ _ hl => cases hl
  | msg _ _ _ _ _ h0 => simp [FieldType.msgSchema] at h0
  | map _ _ ks vs => exact .inr ⟨ks, vs, rfl⟩

theorem nodeFits_builtValue (k : FieldKind) (cur : Node) : NodeFits k (builtValue k cur) := by
  cases k <;> cases cur <;> simp [NodeFits, builtValue, freshMsg]

/-- a touched slot holds a node of the wrapper's shape -/
theorem nodeFits_of_touched {env : Env} {t : FieldType} {k : FieldKind} {n : Node}
    (h : VOK env t true n) (hk : KindFits env t k) : NodeFits k n := by
  cases k with
  | container s =>
    rcases h.msg_shape hk with ⟨_, hb⟩ | hm
    · cases hb
    · exact hm
  | arrayOfContainer s =>
    obtain ⟨item, rfl, _⟩ := hk
    rcases h.list_shape with ⟨_, hb⟩ | hm
    · cases hb
    · exact hm
  | arrayOfScalar item =>
    obtain ⟨rfl, _⟩ := hk
    rcases h.list_shape with ⟨_, hb⟩ | hm
    · cases hb
    · exact hm
  | map nm item =>
    obtain ⟨rfl, _⟩ := hk
    rcases h.map_shape with ⟨_, hb⟩ | hm
    · cases hb
    · exact hm
  | scalar _ _ => trivial
  | any => trivial

/-- a message seen through a fresh property set is still a message of the schema -/
theorem MsgOK.retouch {env : Env} {s : Schema} {tc : List Bool} {ps : List Node} (h : MsgOK env s tc ps) :
    MsgOK env s (List.replicate ps.length false) ps := by
  obtain ⟨h1, h2, h3⟩ := h
  refine ⟨by simp [h2], h2, ?_⟩
  intro i p tb c hp htb hc
  rw [List.getElem?_replicate] at htb
  have hi : i < tc.length := by
    rw [h1]
    rcases Nat.lt_or_ge i s.props.length with h | h
    · exact h
    · rw [List.getElem?_eq_none h] at hp; cases hp
  split at htb
  · cases htb
    exact (h3 i p tc[i] c hp (List.getElem?_eq_getElem hi) hc).untouch
  · cases htb

theorem VOK_builtValue {env : Env} {t : FieldType} {b : Bool} {k : FieldKind} {cur : Node}
    (h : VOK env t b cur) (hk : KindFits env t k) : VOK env t true (builtValue k cur) := by
  cases k with
  | container s =>
    rcases h.msg_shape hk with ⟨rfl, _⟩ | ⟨tc, ps, rfl⟩
    · exact VOK.freshMsg true hk
    · exact VOK.of_msgOK hk (h.msg_inv hk).retouch
  | arrayOfContainer s =>
    obtain ⟨item, rfl, _⟩ := hk
    rcases h.list_shape with ⟨rfl, _⟩ | ⟨xs, rfl⟩
    · exact .arr _ _ _ (by simp)
    · exact h.strengthen (by simp)
  | arrayOfScalar item =>
    obtain ⟨rfl, _⟩ := hk
    rcases h.list_shape with ⟨rfl, _⟩ | ⟨xs, rfl⟩
    · exact .arr _ _ _ (by simp)
    · exact h.strengthen (by simp)
  | map nm item =>
    obtain ⟨rfl, _⟩ := hk
    rcases h.map_shape with ⟨rfl, _⟩ | ⟨ks, vs, rfl⟩
    · exact .map _ _ _ _ rfl (by simp)
    · exact h.strengthen (by simp)
  | scalar t' pr =>
    obtain ⟨rfl, hl⟩ := hk
    exact .leaf _ _ _ (FieldType.isContainer_of_isLeaf hl)
  | any => exact .leaf _ _ _ hk

theorem ExtFrom_builtValue {env : Env} {t : FieldType} {b : Bool} {k : FieldKind} {cur : Node}
    (h : VOK env t b cur) (hk : KindFits env t k) : ExtFrom env t cur (builtValue k cur) := by
  cases k with
  | container s =>
    rcases h.msg_shape hk with ⟨rfl, _⟩ | ⟨tc, ps, rfl⟩
    · exact ExtFrom.absent _ _ _
    · apply ExtFrom.of_children
      · intro _; exact ⟨_, _, rfl⟩
      · intro i t' c _ hc; exact ⟨c, hc, ExtFrom.refl _ _ _⟩
  | arrayOfContainer s =>
    obtain ⟨item, rfl, _⟩ := hk
    rcases h.list_shape with ⟨rfl, _⟩ | ⟨xs, rfl⟩
    · exact ExtFrom.absent _ _ _
    · exact ExtFrom.refl _ _ _
  | arrayOfScalar item =>
    obtain ⟨rfl, _⟩ := hk
    rcases h.list_shape with ⟨rfl, _⟩ | ⟨xs, rfl⟩
    · exact ExtFrom.absent _ _ _
    · exact ExtFrom.refl _ _ _
  | map nm item =>
    obtain ⟨rfl, _⟩ := hk
    rcases h.map_shape with ⟨rfl, _⟩ | ⟨ks, vs, rfl⟩
    · exact ExtFrom.absent _ _ _
    · exact ExtFrom.refl _ _ _
  | scalar t' pr => exact ExtFrom.refl _ _ _
  | any => exact ExtFrom.leaf env hk _ _

/-- a wrapper of a fitting kind over a node of the right shape is a valid field -/
theorem FieldOK.intro {env : Env} {st n : Node} {a : Addr} {t : FieldType} {k : FieldKind}
    (ht : env.typeAt a = some t) (hk : KindFits env t k)
    (hname : ∀ nm item, k = .map nm item → MapNameOK env a nm)
    (hg : st.get? a = some n) (hn : NodeFits k n) :
    FieldOK env st ⟨a, k⟩ := by
  cases k with
  | container s => obtain ⟨tc, ps, rfl⟩ := hn; exact ⟨⟨t, ht, hk⟩, tc, ps, hg⟩
  | arrayOfContainer s =>
    obtain ⟨item, rfl, hs⟩ := hk
    obtain ⟨xs, rfl⟩ := hn
    exact ⟨⟨item, ht, hs⟩, xs, hg⟩
  | arrayOfScalar item =>
    obtain ⟨rfl, hs⟩ := hk
    obtain ⟨xs, rfl⟩ := hn
    exact ⟨⟨ht, hs⟩, xs, hg⟩
  | map nm item =>
    obtain ⟨rfl, hs⟩ := hk
    obtain ⟨ks, vs, rfl⟩ := hn
    exact ⟨⟨ht, hs, hname nm item rfl⟩, ks, vs, hg⟩
  | scalar t' pr =>
    obtain ⟨rfl, hs⟩ := hk
    exact ⟨⟨ht, hs⟩, n, hg⟩
  | any => trivial

/-! ## `buildValue`, `propSetValue` -/

theorem getElem?_of_props {α : Type} {s : Schema} {i : Nat} {p : Property} {l : List α}
    (hp : s.props[i]? = some p) (hl : l.length = s.props.length) : ∃ x, l[i]? = some x := by
  have hi : i < l.length := by
    rw [hl]
    rcases Nat.lt_or_ge i s.props.length with h | h
    · exact h
    · rw [List.getElem?_eq_none h] at hp; cases hp
  exact ⟨l[i], List.getElem?_eq_getElem hi⟩

/-- replacing the value of one property by a touched value of its type -/
theorem MsgOK.set_prop {env : Env} {s : Schema} {tc : List Bool} {ps : List Node} {i : Nat} {p : Property}
    {v : Node} (h : MsgOK env s tc ps) (hp : s.props[i]? = some p) (hv : VOK env p.type true v) :
    MsgOK env s (tc.set i true) (ps.set i v) := by
  obtain ⟨h1, h2, h3⟩ := h
  refine ⟨by simp [h1], by simp [h2], ?_⟩
  intro j q tb c hq htb hc
  rw [List.getElem?_set] at htb hc
  by_cases hj : i = j
  · subst hj
    rw [hp] at hq; cases hq
    simp only [if_true] at htb hc
    split at hc
    · cases hc; exact hv.weaken
    · cases hc
  · simp only [hj, if_false] at htb hc
    exact h3 j q tb c hq htb hc

theorem ExtFrom.msg_set_prop {env : Env} {t : FieldType} {s : Schema} {tc tc' : List Bool} {ps : List Node}
    {i : Nat} {p : Property} {cur v : Node} (hs : t.msgSchema env = some s) (hp : s.props[i]? = some p)
    (hcur : ps[i]? = some cur) (hv : ExtFrom env p.type cur v) :
    ExtFrom env t (.msg tc ps) (.msg tc' (ps.set i v)) := by
  apply ExtFrom.of_children
  · intro _; exact ⟨_, _, rfl⟩
  · intro j t' c ht' hc
    simp only [Node.children] at hc ⊢
    rw [List.getElem?_set]
    by_cases hj : i = j
    · subst hj
      rw [hcur] at hc; cases hc
      rw [FieldType.child_msgSchema hs, hp] at ht'
      cases ht'
      have hi : i < ps.length := (List.getElem?_eq_some_iff.mp hcur).1
      exact ⟨v, by simp [hi], hv⟩
    · simp only [hj, if_false]
      exact ⟨c, hc, ExtFrom.refl _ _ _⟩

theorem buildValue_spec {env : Env} (hwf : env.WF = true) {c : Addr} {s : Schema} {i : Nat} {p : Property}
    (hp : s.props[i]? = some p) :
    MSpec env (buildValue env c s i p) (fun st => ContOK env st ⟨c, .msg s⟩)
      (fun f _ st' => FieldOK env st' f ∧ f.addr = c ++ [i] ∧ classify env s.name p = .ok f.kind)
      NoPos := by
  intro st hst hpre
  obtain ⟨tc, ps, hg, hm⟩ := hpre.msgOK hst
  obtain ⟨⟨t, ht, hs⟩, _⟩ := hpre
  simp only at ht
  simp only [buildValue, bind, M.bind, getNode, hg]
  have hpt : env.typeAt (c ++ [i]) = some p.type := Env.typeAt_prop ht hs hp
  have hok := WF_typeAt_ok hwf hpt
  obtain ⟨cur, hcur⟩ := getElem?_of_props hp hm.2.1
  obtain ⟨tb, htb⟩ := getElem?_of_props hp hm.1
  have hvcur := hm.2.2 i p tb cur hp htb hcur
  split <;> split <;> first | exact NoPos_mk0 _ _ | skip
  all_goals
    rcases classify_total (owner := s.name) hok with ⟨k, hk⟩ | ⟨e, he⟩
    · have hfit := classify_fits hk
      simp only [hk, M.lift, M.pure, M.bind, hcur, setNode, pure]
      have hv : VOK env t true (.msg (tc.set i true) (ps.set i (builtValue k cur))) :=
        VOK.of_msgOK hs (hm.set_prop hp (VOK_builtValue hvcur hfit))
      refine ⟨hst.set ht hv, Ext.set hg ht (ExtFrom.msg_set_prop hs hp hcur (ExtFrom_builtValue hvcur hfit)),
        ?_, rfl, rfl⟩
      apply FieldOK.intro hpt hfit
        (fun nm item hk' => ⟨c, i, t, s, p, rfl, ht, hs, hp, classify_map_name (hk' ▸ hk)⟩) _
        (nodeFits_builtValue k cur)
      rw [Node.get?_set_append _ _ _ _ (by simp [hg])]
      have hi : i < ps.length := (List.getElem?_eq_some_iff.mp hcur).1
      simp [Node.get?_cons, Node.children, hi]
    · simp only [he, M.lift, M.err, M.bind]
      exact classify_err_noPos he

theorem findProp_some {name : Str} {k : Nat} {ps : List Property} {i : Nat} {p : Property}
    (h : findProp name k ps = some (i, p)) : k ≤ i ∧ ps[i - k]? = some p ∧ p.name = name := by
  induction ps generalizing k with
  | nil => cases h
  | cons q rest ih =>
    simp only [findProp] at h
    split at h
    · cases h; simp_all
    · obtain ⟨h1, h2, h3⟩ := ih h
      refine ⟨by omega, ?_, h3⟩
      have : i - k = (i - (k + 1)) + 1 := by omega
      rw [this]; simpa using h2

theorem findProp_zero {name : Str} {ps : List Property} {i : Nat} {p : Property}
    (h : findProp name 0 ps = some (i, p)) : ps[i]? = some p ∧ p.name = name := by
  have := findProp_some h
  simpa using this.2

/-- `propSet.GetOrCreateValue` / `NewValue` -/
theorem propSetValue_spec {env : Env} (hwf : env.WF = true) {c : Addr} {s : Schema} {name : Str}
    {mustBeNew : Bool} :
    MSpec env (propSetValue env c s name mustBeNew) (fun st => ContOK env st ⟨c, .msg s⟩)
      (fun f _ st' => FieldOK env st' f ∧
        ∃ i p, findProp name 0 s.props = some (i, p) ∧ f.addr = c ++ [i] ∧
          classify env s.name p = .ok f.kind)
      NoPos := by
  intro st hst hpre
  unfold propSetValue
  cases hf : findProp name 0 s.props with
  | none => exact NoPos_mk0 _ _
  | some ip =>
    obtain ⟨i, p⟩ := ip
    have hp := (findProp_zero hf).1
    obtain ⟨tc, ps, hg, hm⟩ := hpre.msgOK hst
    obtain ⟨⟨t, ht, hs⟩, _⟩ := id hpre
    simp only at ht
    simp only [bind, M.bind, getNode, hg]
    split
    · rename_i htouched
      split
      · exact NoPos_mk0 _ _
      · have hpt : env.typeAt (c ++ [i]) = some p.type := Env.typeAt_prop ht hs hp
        have hok := WF_typeAt_ok hwf hpt
        obtain ⟨cur, hcur⟩ := getElem?_of_props hp hm.2.1
        have hvcur := hm.2.2 i p true cur hp htouched hcur
        rcases classify_total (owner := s.name) hok with ⟨k, hk⟩ | ⟨e, he⟩
        · simp only [hk, M.lift, pure]
          refine ⟨hst, Ext.refl _ _, ?_, i, p, rfl, rfl, hk⟩
          apply FieldOK.intro hpt (classify_fits hk)
            (fun nm item hk' => ⟨c, i, t, s, p, rfl, ht, hs, hp, classify_map_name (hk' ▸ hk)⟩) _
            (nodeFits_of_touched hvcur (classify_fits hk))
          rw [Node.get?_append, hg]
          simp [Node.get?_cons, Node.children, hcur]
        · simp only [he, M.lift]
          exact classify_err_noPos he
    · have := buildValue_spec hwf hp st hst hpre
      revert this
      cases buildValue env c s i p st with
      | ok r =>
        obtain ⟨f, st'⟩ := r
        intro h
        exact ⟨h.1, h.2.1, h.2.2.1, i, p, rfl, h.2.2.2⟩
      | err e => exact id
      | panic w => exact id

end J5V.Walker
