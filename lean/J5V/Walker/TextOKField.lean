import J5V.Walker.TextOKBase
/-!
# `toBcl` text shape: rules, field bodies, properties (core only)

`fieldOk env f → BodyTextOK cls (fieldBody f pfx ek)`, `propOk env p → StmtTextOK cls (propBcl kw p)`,
for every field kind and qualifier form (mutual structural recursion over `Field` / `Property`).
-/
namespace J5V.Walker
open J5V.Bcl

variable {cls : Cls}

/-! ## rules -/

theorem litScalar_neg (t : FieldType) (n : Nat) : litScalar t (.neg n) = none := by
  cases t <;> try rfl
  rename_i k; cases k <;> rfl

theorem litNode_neg (p : Property) (n : Nat) : litNode p (.neg n) = none := by
  unfold litNode
  split
  · rename_i h; cases h
  · rfl
  · rw [litScalar_neg]

theorem topWF_lit (hc : ClsAscii cls) : ∀ l : J5V.Compile.Lit, (∀ n, l ≠ .neg n) → TopValueWF cls (litValue l) none
  | .int n, _ => topWF_int hc n
  | .str s, _ => topWF_str cls s
  | .bool b, _ => topWF_bool hc b
  | .neg n, h => absurd rfl (h n)
  | .strs l, _ => topWF_strs cls l

theorem rulesOk_text {env : Env} {ts : Str} {rules : J5V.Compile.Rules} (h : rulesOk env ts rules = true) :
    ∀ r ∈ rules, isIdent r.name = true ∧ ∀ n, r.lit ≠ .neg n := by
  simp only [rulesOk, Bool.and_eq_true, List.all_eq_true] at h
  intro r hr
  have h1 := (h.1 r hr).1
  simp only [ruleOk, Bool.and_eq_true] at h1
  refine ⟨h1.1, ?_⟩
  intro n hn
  have h2 := h1.2
  rw [hn] at h2
  split at h2
  · simp [litNode_neg] at h2
  · cases h2

theorem rulesBcl_ok (hc : ClsAscii cls) {pfx : List Str} (hp : PfxOK pfx) : ∀ rules : J5V.Compile.Rules,
    (∀ r ∈ rules, isIdent r.name = true ∧ ∀ n, r.lit ≠ .neg n) → BodyTextOK cls (rulesBcl pfx rules)
  | [], _ => bodyOK_nil cls
  | r :: rs, h => by
    simp only [rulesBcl]
    have hr := h r (by simp)
    exact bodyOK_cons (stmtOK_assign hc (KeyOK.pfx2 hp (by decide) hr.1) (topWF_lit hc r.lit hr.2))
      (rulesBcl_ok hc hp rs (fun x hx => h x (by simp [hx])))

theorem rules_ok (hc : ClsAscii cls) {pfx : List Str} (hp : PfxOK pfx) {env : Env} {ts : Str}
    {rules : J5V.Compile.Rules} (h : rulesOk env ts rules = true) : BodyTextOK cls (rulesBcl pfx rules) :=
  rulesBcl_ok hc hp rules (rulesOk_text h)

/-! ## the parts of a field body -/

theorem refQuals_ok (hc : ClsAscii cls) {pkg schema : Str} (h : refOk pkg schema = true) :
    ∀ t ∈ refQuals pkg schema, TagWF cls t := by
  unfold refQuals
  split
  · exact forall_mem_nil _
  · rename_i hd
    unfold refOk at h
    rw [if_neg hd] at h
    simp only [Bool.and_eq_true, Bool.or_eq_true, decide_eq_true_eq] at h
    exact forall_mem_one (tagWF_tagRef .none (refWF_dottedRef hc (tx_isDotted_refString h.1 h.2)))

theorem refBody_ok (hc : ClsAscii cls) {pfx : List Str} (hp : PfxOK pfx) (pkg schema : Str) :
    BodyTextOK cls (refBody pfx pkg schema) := by
  unfold refBody
  split
  · exact bodyOK_append
      (bodyOK_ite' _ (bodyOK_assign hc (KeyOK.pfx2 hp (by decide) (by decide)) (topWF_str cls _)))
      (bodyOK_assign hc (KeyOK.pfx2 hp (by decide) (by decide)) (topWF_str cls _))
  · exact bodyOK_nil cls

theorem flattenBcl_ok (hc : ClsAscii cls) {pfx : List Str} (hp : PfxOK pfx) (b : Bool) :
    BodyTextOK cls (flattenBcl pfx b) :=
  bodyOK_ite _ (bodyOK_assign hc (KeyOK.pfx1 hp (by decide)) (topWF_bool hc _))

theorem inlNameBcl_ok (hc : ClsAscii cls) {pfx : List Str} (hp : PfxOK pfx) {kind : Str}
    (hk : isIdent kind = true) (name : Str) : BodyTextOK cls (inlNameBcl pfx kind name) :=
  bodyOK_ite' _ (bodyOK_assign hc (KeyOK.pfx2 hp hk (by decide)) (topWF_str cls _))

theorem listRulesBcl_ok (hc : ClsAscii cls) {pfx : List Str} (hp : PfxOK pfx) :
    ∀ lr : Option (List Str), BodyTextOK cls (listRulesBcl pfx lr)
  | none => bodyOK_nil cls
  | some fs => by
    simp only [listRulesBcl]
    exact bodyOK_cons (stmtOK_assign hc (KeyOK.pfx3 hp (by decide) (by decide) (by decide)) (topWF_bool hc _))
      (bodyOK_ite' _ (bodyOK_assign hc (KeyOK.pfx3 hp (by decide) (by decide) (by decide)) (topWF_strs cls _)))

theorem optionBcl_ok (hc : ClsAscii cls) {o : Str} (h : isIdent o = true) : StmtTextOK cls (optionBcl o) :=
  stmtOK_block hc (by decide) (forall_mem_one (tagWF_nameTag hc h)) (forall_mem_nil _) (fun _ => rfl)
    (bodyOK_nil cls)

theorem optsBcl_ok (hc : ClsAscii cls) {opts : List Str} (h : opts.all isIdent = true) :
    BodyTextOK cls (opts.map optionBcl) :=
  bodyOK_map _ _ (fun o ho => optionBcl_ok hc (List.all_eq_true.1 h o ho))

theorem enumInlBcl_ok (hc : ClsAscii cls) {pfx : List Str} (hp : PfxOK pfx) {e : J5V.Compile.EnumDecl}
    (h : e.opts.all isIdent = true) : BodyTextOK cls (enumInlBcl pfx e) := by
  unfold enumInlBcl
  exact bodyOK_append (bodyOK_append (inlNameBcl_ok hc hp (by decide) _)
    (bodyOK_ite' _ (bodyOK_assign hc (KeyOK.pfx2 hp (by decide) (by decide)) (topWF_str cls _))))
    (optsBcl_ok hc h)

theorem entKeyBcl_ok (hc : ClsAscii cls) {pfx : List Str} (hp : PfxOK pfx) (entityKey : Bool) :
    ∀ ek : J5V.Compile.EntKey, BodyTextOK cls (entKeyBcl pfx entityKey ek)
  | .nokey => bodyOK_nil cls
  | .ek kind tenant => by
    simp only [entKeyBcl]
    refine bodyOK_append ?_ ?_
    · cases kind with
      | plain => exact bodyOK_nil cls
      | primary b =>
        refine bodyOK_assign hc ?_ (topWF_bool hc _)
        split
        · exact KeyOK.one (by decide)
        · exact KeyOK.pfx2 hp (by decide) (by decide)
      | «foreign» pkg ent => exact bodyOK_assign hc (KeyOK.pfx1 hp (by decide)) (topWF_str cls _)
    · cases tenant with
      | none => exact bodyOK_nil cls
      | some t =>
        refine bodyOK_assign hc ?_ (topWF_str cls _)
        split
        · exact KeyOK.one (by decide)
        · exact KeyOK.pfx2 hp (by decide) (by decide)

theorem keyFmtQuals_ok (hc : ClsAscii cls) : ∀ fmt : J5V.Compile.KeyFmt, ∀ t ∈ keyFmtQuals fmt, TagWF cls t
  | .none => forall_mem_nil _
  | .informal => forall_mem_one (tagWF_word hc _ (by decide))
  | .uuid => forall_mem_one (tagWF_word hc _ (by decide))
  | .id62 => forall_mem_one (tagWF_word hc _ (by decide))
  | .custom _ => forall_mem_one (tagWF_word hc _ (by decide))

theorem keyFmtBody_ok (hc : ClsAscii cls) {pfx : List Str} (hp : PfxOK pfx) :
    ∀ fmt : J5V.Compile.KeyFmt, BodyTextOK cls (keyFmtBody pfx fmt)
  | .none => bodyOK_nil cls
  | .informal => bodyOK_nil cls
  | .uuid => bodyOK_nil cls
  | .id62 => bodyOK_nil cls
  | .custom _ => bodyOK_assign hc (KeyOK.pfx3 hp (by decide) (by decide) (by decide)) (topWF_str cls _)

theorem fieldKind_ident (f : CField) : isIdent (fieldKind f) = true := by
  cases f <;> rfl

theorem intFmtWord_ident (f : J5V.Compile.IntFmt) : isIdent (intFmtWord f) = true := by
  cases f <;> decide

theorem floatFmtWord_ident (f : J5V.Compile.FloatFmt) : isIdent (floatFmtWord f) = true := by
  cases f <;> decide

/-! ## qualifier chains -/

theorem fieldQuals_ok_flat (hc : ClsAscii cls) (env : Env) (f : CField) (hf : fieldOk env f = true)
    (hn : isCollection f = false) : ∀ t ∈ fieldQuals f, TagWF cls t := by
  cases f with
  | integer fmt _ _ => exact forall_mem_one (tagWF_word hc _ (intFmtWord_ident fmt))
  | float fmt _ _ => exact forall_mem_one (tagWF_word hc _ (floatFmtWord_ident fmt))
  | key fmt _ _ _ => exact keyFmtQuals_ok hc fmt
  | objectRef pkg schema _ _ =>
    simp only [fieldOk, Bool.and_eq_true] at hf
    exact refQuals_ok hc hf.2
  | oneofRef pkg schema _ _ =>
    simp only [fieldOk, Bool.and_eq_true] at hf
    exact refQuals_ok hc hf.2
  | enumRef pkg schema _ _ =>
    simp only [fieldOk, Bool.and_eq_true] at hf
    exact refQuals_ok hc hf.2
  | array _ _ => simp [isCollection] at hn
  | map _ _ => simp [isCollection] at hn
  | _ => exact forall_mem_nil _

theorem fieldQuals_ok (hc : ClsAscii cls) (env : Env) (f : CField) (hf : fieldOk env f = true) :
    ∀ t ∈ fieldQuals f, TagWF cls t := by
  cases hcol : isCollection f with
  | false => exact fieldQuals_ok_flat hc env f hf hcol
  | true =>
    cases f with
    | array items _ =>
      simp only [fieldOk, Bool.and_eq_true, Bool.not_eq_true'] at hf
      simp only [fieldQuals]
      intro t ht
      rcases List.mem_cons.1 ht with rfl | ht
      · exact tagWF_word hc _ (fieldKind_ident items)
      · exact fieldQuals_ok_flat hc env items hf.2 hf.1.2 t ht
    | map items _ =>
      simp only [fieldOk, Bool.and_eq_true, Bool.not_eq_true'] at hf
      simp only [fieldQuals]
      intro t ht
      rcases List.mem_cons.1 ht with rfl | ht
      · exact tagWF_word hc _ (fieldKind_ident items)
      · exact fieldQuals_ok_flat hc env items hf.2 hf.1.2 t ht
    | _ => simp [isCollection] at hcol

/-! ## field bodies and properties -/

theorem open_body (l : List Statement) (b : Bool) (h : (!l.isEmpty || b) = false) : l = [] := by
  cases l with
  | nil => rfl
  | cons a rest => simp at h

mutual
theorem fieldBody_ok (hc : ClsAscii cls) (env : Env) : ∀ (f : CField) (pfx : List Str) (ek : Bool),
    fieldOk env f = true → PfxOK pfx → BodyTextOK cls (fieldBody f pfx ek)
  | .string rules l, pfx, _, h, hp => by
    simp only [fieldOk, Bool.and_eq_true] at h
    simp only [fieldBody]
    exact rules_ok hc hp h.2
  | .bool rules l, pfx, _, h, hp => by
    simp only [fieldOk, Bool.and_eq_true] at h
    simp only [fieldBody]
    exact rules_ok hc hp h.2
  | .bytes rules, pfx, _, h, hp => by
    simp only [fieldOk] at h
    simp only [fieldBody]
    exact rules_ok hc hp h
  | .date rules l, pfx, _, h, hp => by
    simp only [fieldOk, Bool.and_eq_true] at h
    simp only [fieldBody]
    exact rules_ok hc hp h.2
  | .decimal rules l, pfx, _, h, hp => by
    simp only [fieldOk, Bool.and_eq_true] at h
    simp only [fieldBody]
    exact rules_ok hc hp h.2
  | .timestamp rules, pfx, _, h, hp => by
    simp only [fieldOk] at h
    simp only [fieldBody]
    exact rules_ok hc hp h
  | .any, _, _, _, _ => by
    simp only [fieldBody]
    exact bodyOK_nil cls
  | .integer _ rules l, pfx, _, h, hp => by
    simp only [fieldOk, Bool.and_eq_true] at h
    simp only [fieldBody]
    exact rules_ok hc hp h.2
  | .float _ rules l, pfx, _, h, hp => by
    simp only [fieldOk, Bool.and_eq_true] at h
    simp only [fieldBody]
    exact rules_ok hc hp h.2
  | .key fmt ek rules l, pfx, entityKey, h, hp => by
    simp only [fieldOk, Bool.and_eq_true] at h
    simp only [fieldBody]
    exact bodyOK_append (bodyOK_append (rules_ok hc hp h.1.1.2) (keyFmtBody_ok hc hp fmt))
      (entKeyBcl_ok hc hp entityKey ek)
  | .objectRef pkg schema flatten rules, pfx, _, h, hp => by
    simp only [fieldOk, Bool.and_eq_true] at h
    simp only [fieldBody]
    exact bodyOK_append (bodyOK_append (rules_ok hc hp h.1) (flattenBcl_ok hc hp flatten))
      (refBody_ok hc hp pkg schema)
  | .objectInl name props flatten rules, pfx, _, h, hp => by
    simp only [fieldOk, Bool.and_eq_true] at h
    simp only [fieldBody]
    exact bodyOK_append (bodyOK_append (bodyOK_append (rules_ok hc hp h.1.1) (flattenBcl_ok hc hp flatten))
      (inlNameBcl_ok hc hp (by decide) name)) (propsBcl_ok hc env wField props (by decide) h.2)
  | .oneofRef pkg schema rules l, pfx, _, h, hp => by
    simp only [fieldOk, Bool.and_eq_true] at h
    simp only [fieldBody]
    exact bodyOK_append (rules_ok hc hp h.1.2) (refBody_ok hc hp pkg schema)
  | .oneofInl name props rules l, pfx, _, h, hp => by
    simp only [fieldOk, Bool.and_eq_true] at h
    simp only [fieldBody]
    exact bodyOK_append (bodyOK_append (rules_ok hc hp h.1.1.2) (inlNameBcl_ok hc hp (by decide) name))
      (propsBcl_ok hc env wOption props (by decide) h.2)
  | .enumRef pkg schema rules lr, pfx, _, h, hp => by
    simp only [fieldOk, Bool.and_eq_true] at h
    simp only [fieldBody]
    exact bodyOK_append (bodyOK_append (rules_ok hc hp h.1.1) (listRulesBcl_ok hc hp lr))
      (refBody_ok hc hp pkg schema)
  | .enumInl e rules lr, pfx, _, h, hp => by
    simp only [fieldOk, enumDeclOk, Bool.and_eq_true] at h
    simp only [fieldBody]
    exact bodyOK_append (bodyOK_append (rules_ok hc hp h.1.1) (listRulesBcl_ok hc hp lr))
      (enumInlBcl_ok hc hp h.2.2)
  | .array items rules, pfx, _, h, hp => by
    simp only [fieldOk, Bool.and_eq_true] at h
    simp only [fieldBody]
    exact bodyOK_append (rules_ok hc hp h.1.1)
      (fieldBody_ok hc env items _ false h.2
        (hp.append (PfxOK.cons (by decide) (PfxOK.cons (fieldKind_ident items) PfxOK.nil))))
  | .map items rules, pfx, _, h, hp => by
    simp only [fieldOk, Bool.and_eq_true] at h
    simp only [fieldBody]
    exact bodyOK_append (rules_ok hc hp h.1.1)
      (fieldBody_ok hc env items _ false h.2
        (hp.append (PfxOK.cons (by decide) (PfxOK.cons (fieldKind_ident items) PfxOK.nil))))

theorem propBcl_ok (hc : ClsAscii cls) (env : Env) : ∀ (kw : Str) (p : CProperty),
    isIdent kw = true → propOk env p = true → StmtTextOK cls (propBcl kw p)
  | kw, .mk name required optional f, hkw, h => by
    simp only [propOk, Bool.and_eq_true] at h
    simp only [propBcl]
    refine stmtOK_block hc hkw (forall_mem_two (tagWF_nameTag hc h.1) (tagWF_word hc _ (fieldKind_ident f)))
      (fieldQuals_ok hc env f h.2) (open_body _ _) ?_
    exact bodyOK_append (bodyOK_ite _ (bodyOK_assign hc (KeyOK.one (by decide)) (topWF_bool hc _)))
      (fieldBody_ok hc env f [] false h.2 PfxOK.nil)

theorem propsBcl_ok (hc : ClsAscii cls) (env : Env) : ∀ (kw : Str) (ps : List CProperty),
    isIdent kw = true → propsOk env ps = true → BodyTextOK cls (propsBcl kw ps)
  | _, [], _, _ => by
    simp only [propsBcl]
    exact bodyOK_nil cls
  | kw, p :: ps, hkw, h => by
    simp only [propsOk, Bool.and_eq_true] at h
    simp only [propsBcl]
    exact bodyOK_cons (propBcl_ok hc env kw p hkw h.1) (propsBcl_ok hc env kw ps hkw h.2)
end

end J5V.Walker
