import J5V.Walker.WalkProofs
/-!
# The two theorems about the walk

* `C07W_walk_no_panic`: under `env.WF`, from a well-typed message, over statements whose block type
  references have an ident (`bodyTypesOK`, decidable; true of parser output), `walkSchema` never panics.
* `C07W_walk_error_position`: an error of the walk carries a span whose two ends are positions of the
  statements (`BodyPos`: the least set of positions that contains `0:0` and makes every span of the
  statements a span between two of its positions) — unless the spec of the root schema cannot be built
  (`newRootSchemaWalker env = .err e`, decidable on `env`; never for `j5Env`).
-/
namespace J5V.Walker
open J5V.Bcl

mutual
theorem valueIn_all (S : Span → Prop) (hS : ∀ sp, S sp) : ∀ v : Value, ValueIn S v
  | .scalar tok sp => .scalar tok sp (hS sp)
  | .array vs sp => .array vs sp (hS sp) (valuesIn_all S hS vs)
theorem valuesIn_all (S : Span → Prop) (hS : ∀ sp, S sp) : ∀ (vs : List Value) (v : Value), v ∈ vs → ValueIn S v
  | [], _, h => nomatch h
  | x :: xs, v, h => by
    rcases List.mem_cons.mp h with hx | h
    · rw [hx]; exact valueIn_all S hS x
    · exact valuesIn_all S hS xs v h
end

mutual
theorem stmtIn_of_typesOK : ∀ s : Statement, statementTypesOK s = true → StmtIn (fun _ => True) s
  | .desc d, _ => .desc d ⟨trivial, trivial⟩
  | .assign a, _ =>
    .assign a ⟨trivial, trivial⟩ (fun _ _ => ⟨trivial, trivial⟩) (valueIn_all _ (fun _ => ⟨trivial, trivial⟩) _)
  | .block h body, hb => by
    simp only [statementTypesOK, Bool.and_eq_true, Bool.not_eq_true', List.isEmpty_eq_false_iff] at hb
    refine .block h body ⟨hb.1, fun _ _ => ⟨trivial, trivial⟩, trivial,
      fun _ _ => ⟨⟨trivial, trivial⟩, fun _ _ _ _ => ⟨trivial, trivial⟩⟩,
      fun _ _ => ⟨⟨trivial, trivial⟩, fun _ _ _ _ => ⟨trivial, trivial⟩⟩,
      fun _ _ => ⟨trivial, trivial⟩, ⟨trivial, trivial⟩⟩ (bodyIn_of_typesOK body hb.2)
theorem bodyIn_of_typesOK : ∀ body : List Statement, bodyTypesOK body = true →
    ∀ s, s ∈ body → StmtIn (fun _ => True) s
  | [], _, _, h => nomatch h
  | x :: xs, hb, s, h => by
    simp only [bodyTypesOK, Bool.and_eq_true] at hb
    rcases List.mem_cons.mp h with hx | h
    · rw [hx]; exact stmtIn_of_typesOK x hb.1
    · exact bodyIn_of_typesOK xs hb.2 s h
end

/-- **C07W, no panic.** -/
theorem C07W_walk_no_panic {env : Env} (hwf : env.WF = true) {msg : Node} (hmsg : TreeOK env msg)
    (body : List Statement) (hb : bodyTypesOK body = true) (why : String) :
    walkSchema env body msg ≠ .panic why := by
  intro h
  have := walkSchema_spec hwf (fun _ => True) trivial body msg (bodyIn_of_typesOK body hb) hmsg
  rw [h] at this
  exact this

/-- the result of a successful walk is a well-typed tree that extends the message -/
theorem C07W_walk_ok {env : Env} (hwf : env.WF = true) {msg tree : Node} (hmsg : TreeOK env msg)
    (body : List Statement) (hb : bodyTypesOK body = true) (h : walkSchema env body msg = .ok tree) :
    TreeOK env tree ∧ Ext env msg tree := by
  have := walkSchema_spec hwf (fun _ => True) trivial body msg (bodyIn_of_typesOK body hb) hmsg
  rw [h] at this
  exact this

/-- the positions of the statements: the least set that contains `0:0` (the span of the synthetic `true`
of a `!` / `?` mark) and makes every span of the statements a span between two of its members -/
def BodyPos (body : List Statement) (p : Pos) : Prop :=
  ∀ P : Pos → Prop, P ⟨0, 0⟩ → (∀ s, s ∈ body → StmtIn P s) → P p

/-- **C07W, error positions.** An error of the walk proper carries a span, and both ends of the span are
positions of the statements. (`newRootSchemaWalker env` fails before the walk iff the spec of the root
schema cannot be built: a property of `env` alone.) -/
theorem C07W_walk_error_position {env : Env} (hwf : env.WF = true) {msg : Node} (hmsg : TreeOK env msg)
    (body : List Statement) (hb : bodyTypesOK body = true) {e : WErr}
    (h : walkSchema env body msg = .err e) (hroot : newRootSchemaWalker env ≠ .err e) :
    ∃ sp, e.pos = some sp ∧ BodyPos body sp.start ∧ BodyPos body sp.end_ := by
  have key : ∀ P : Pos → Prop, P ⟨0, 0⟩ → (∀ s, s ∈ body → StmtIn P s) → HasPosIn (SpanOf P) e := by
    intro P hz hP
    have := walkSchema_spec hwf P hz body msg hP hmsg
    rw [h] at this
    rcases this with h1 | ⟨_, h2⟩
    · exact h1
    · exact absurd h2 hroot
  obtain ⟨sp, hsp, _⟩ := key (fun _ => True) trivial (bodyIn_of_typesOK body hb)
  refine ⟨sp, hsp, ?_, ?_⟩
  · intro P hz hP
    obtain ⟨sp', hsp', h1, _⟩ := key P hz hP
    rw [hsp] at hsp'; cases hsp'; exact h1
  · intro P hz hP
    obtain ⟨sp', hsp', _, h2⟩ := key P hz hP
    rw [hsp] at hsp'; cases hsp'; exact h2

end J5V.Walker
