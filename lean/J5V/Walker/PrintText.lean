import J5V.Bcl.TreeText
import J5V.Walker.Print
/-!
# The plain style of the harness printer as a function of the syntax tree (core only)

`printJ5s ast` = the text `j5sgen.PrintFile(f, pkg, 0)` writes (style 0: every `p.chance(…)` of
`harness/tree/internal/verifh/j5sgen/print.go` is `false`), as runes: the generic tree printer
`J5V.Bcl.renderFile` (one fragment per line, two spaces per open block, the BCL formatter's token text,
a `}` line for every open block, one final blank line) applied to `toBcl ast` under the blank-line rule
`plainGap`. Checked on every op of the stream `walker.print` (field `text=`, PROTOCOL-walker.md §8): the
UTF-8 bytes of `printJ5s ast` must equal the Go printer's text byte for byte.

The only `p.blank()` calls reachable in style 0:
* `PrintFile`: after the `package` line, after the imports (if there are imports), after every element;
* `object()` (prints the `object` / `oneof` declarations, top level and nested): in front of every
  nested element. `entity()` prints its events' and its own nested elements WITHOUT a blank line.
`renderFile` supplies the last blank line; every other one is "in front of a statement".
-/
namespace J5V.Walker
open J5V.Bcl

/-- the words of a header's type reference -/
def headerWords (h : BlockHeader) : List (List Rune) := h.type.idents.map (·.value)

def rObject : List Rune := [111, 98, 106, 101, 99, 116]   -- "object"
def rOneof : List Rune := [111, 110, 101, 111, 102]        -- "oneof"
def rEnum : List Rune := [101, 110, 117, 109]              -- "enum"
def rImport : List Rune := [105, 109, 112, 111, 114, 116]  -- "import"

/-- the statement is a block whose type is the single word `w` -/
def isBlockOf (w : List Rune) : Statement → Bool
  | .block h _ => headerWords h == [w]
  | _ => false

/-- a declaration `object()` / `enum()` print: an `object`, `oneof` or `enum` block -/
def isSchemaBlock (s : Statement) : Bool := isBlockOf rObject s || isBlockOf rOneof s || isBlockOf rEnum s

/-- blank lines of the plain style. Top level: in front of every statement but the first (the `package`
line), except between two `import` lines. Inside an `object` / `oneof` block: in front of every nested
`object` / `oneof` / `enum` block. Nowhere else. -/
def plainGap : GapRule
  | none, none, _ => false
  | none, some prev, s => !(isBlockOf rImport prev && isBlockOf rImport s)
  | some h, _, s => (headerWords h == [rObject] || headerWords h == [rOneof]) && isSchemaBlock s

/-- the text of the plain style, as runes -/
def printJ5s (ast : J5V.Compile.SrcFile) : List Rune := renderFile plainGap (toBcl ast)

end J5V.Walker
