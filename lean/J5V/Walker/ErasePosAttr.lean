import J5V.Walker.ErasePosBase
/-!
# Source positions only position errors (2): `setAttribute ⇄ setContainerFromScalar`
-/
namespace J5V.Walker
open J5V.Bcl

theorem appendValues_erase (env : Env) (arr : Addr) (item : FieldType) : ∀ vs : List AV,
    MRel Eq (appendValues env arr item (vs.map AV.erase)) (appendValues env arr item vs) := by
  intro vs
  induction vs with
  | nil => exact MRel.refl _
  | cons v rest ih =>
    simp only [List.map, appendValues, scalarFromAST_erase]
    generalize scalarFromAST env item v = r
    cases r with
    | ok s => exact MRel.bindEq (fun _ => ih)
    | err e => exact MRel.wrapErr (ERel.refl e) _ _
    | panic w => exact MRel.panic w

theorem forEach2_erase {f' f : PathSpec → AV → M Unit}
    (hf : ∀ p v, MRel Eq (f' p v.erase) (f p v)) : ∀ (vs : List AV) (ps : List PathSpec),
    MRel Eq (forEach2 f' ps (vs.map AV.erase)) (forEach2 f ps vs) := by
  intro vs
  induction vs with
  | nil => intro ps; simp only [List.map, forEach2]; exact MRel.refl _
  | cons v rest ih =>
    intro ps
    cases ps with
    | nil => simp only [List.map, forEach2]; exact MRel.panic _
    | cons p ps =>
      simp only [List.map, forEach2]
      exact MRel.bind' (hf p v) (fun _ => ih ps)

theorem allAsString_erase : ∀ vs : List AV,
    MRel Eq (allAsString (vs.map AV.erase)) (allAsString vs) := by
  intro vs
  induction vs with
  | nil => exact MRel.refl _
  | cons v rest ih =>
    simp only [List.map, allAsString, AV.asString_erase]
    cases v.asString with
    | none => exact MRel.errAt _ _ _
    | some s => exact MRel.bind' ih (fun _ => MRel.refl _)

theorem ite_map_erase (c : Prop) [Decidable c] (x y : List AV) :
    (if c then x.map AV.erase else y.map AV.erase) = (if c then x else y).map AV.erase := by
  split <;> rfl

theorem ite_map_erase_nil (c : Prop) [Decidable c] (x : List AV) :
    (if c then x.map AV.erase else []) = (if c then x else []).map AV.erase := by
  split <;> rfl

theorem setAttribute_setContainer_erase (env : Env) : ∀ fuel : Nat,
    (∀ (sc : Scope) (path : PathSpec) (ref : List Ident) (val : AV) (app : Bool),
      MRel Eq (setAttribute env fuel sc path (ref.map Ident.erase) val.erase app)
        (setAttribute env fuel sc path ref val app)) ∧
    (∀ (sc : Scope) (bs : BlockSpec) (val : AV),
      MRel Eq (setContainerFromScalar env fuel sc bs val.erase)
        (setContainerFromScalar env fuel sc bs val)) := by
  intro fuel
  induction fuel with
  | zero =>
    refine ⟨fun sc path ref val app => ?_, fun sc bs val => ?_⟩
    · simp only [setAttribute]; exact MRel.panic _
    · simp only [setContainerFromScalar]; exact MRel.panic _
  | succ fuel ih =>
    refine ⟨fun sc path ref val app => ?_, fun sc bs val => ?_⟩
    · simp only [setAttribute, combinePath_erase, List.isEmpty_map, List.getLast?_map]
      apply MRel.ite
      · intro _; exact MRel.refl _
      intro _
      cases hl : (combinePath path ref).getLast? with
      | none => simp only [Option.map]; exact MRel.panic _
      | some last =>
        simp only [Option.map]
        apply MRel.bind' (by rw [← List.map_dropLast]; exact walkScope_erase env _ sc)
        intro parentScope
        have hn : last.erase.name = last.name := rfl
        simp only [hn, scalarFromAST_erase, AV.asArray_erase]
        apply MRel.bind'
        · apply MRel.tryCatch (MRel.refl _)
          intro e' e he
          cases hp : last.position with
          | none => simp only [PathElement.erase, hp, Option.map]; exact MRel.err he.wrapped
          | some pos => simp only [PathElement.erase, hp, Option.map]; exact MRel.wrapErr he _ _
        intro field
        cases hk : field.kind
        case container s =>
          simp only []
          apply MRel.ite
          · intro _; exact MRel.errAt _ _ _
          · intro _
            apply MRel.bind'
            · exact MRel.tryCatch (MRel.refl _) (fun e' e he => MRel.wrapErr he _ _)
            · intro cs; exact ih.2 cs _ val
        all_goals
          simp only []
          cases ha : val.asArray with
          | some vs =>
            simp only [Option.map]
            first
              | exact MRel.errAt _ _ _
              | (apply MRel.bindEq; intro len; apply MRel.ite
                 · intro _; exact MRel.errAt _ _ _
                 · intro _; exact appendValues_erase env _ _ vs)
          | none =>
            simp only [Option.map]
            cases app with
            | true =>
              simp only [↓reduceIte]
              first
                | exact MRel.errAt _ _ _
                | (apply MRel.bindEq; intro len; apply MRel.ite
                   · intro _; exact MRel.errAt _ _ _
                   · intro _; exact appendValues_erase env _ _ [val])
            | false =>
              simp only [↓reduceIte, Bool.false_eq_true]
              first
                | exact MRel.errAt _ _ _
                | (generalize scalarFromAST env _ val = r
                   cases r with
                   | ok s => exact MRel.refl _
                   | err e => exact MRel.wrapErr (ERel.refl e) _ _
                   | panic w => exact MRel.panic w)
    · simp only [setContainerFromScalar]
      cases hs : bs.scalarSplit with
      | none => simp only []; exact MRel.refl _
      | some ss =>
        simp only []
        apply MRel.bind (R := fun a' a => a' = a.map AV.erase)
        · cases hd : ss.delimiter with
          | some delim =>
            simp only [AV.asString_erase]
            cases val.asString with
            | none => exact MRel.errAt _ _ _
            | some s =>
              exact MRel.pure (by rw [List.map_map, AV.erase_span]; rfl)
          | none =>
            simp only [AV.asArray_erase]
            cases val.asArray with
            | none => exact MRel.err (ERel.refl _)
            | some vs => exact MRel.pure rfl
        · intro a' a h; subst h
          simp only [← List.map_reverse, ite_map_erase, ite_map_erase_nil, List.length_map,
            ← List.map_take, ← List.map_drop, List.isEmpty_map, List.head?_map, List.getLast?_map]
          generalize (if ss.rightToLeft = true then a.reverse else a) = sv
          generalize List.drop ss.required.length sv = rem
          generalize (if rem.length > ss.optional.length then List.drop ss.optional.length rem else []) = rem2
          generalize (if ss.rightToLeft = true then rem2.reverse else rem2) = X
          apply MRel.ite
          · intro _; exact MRel.refl _
          intro _
          apply MRel.bind' (forEach2_erase (fun p v => ih.1 sc p [] v false) _ _)
          intro _
          apply MRel.ite
          · intro _; exact MRel.refl _
          intro _
          apply MRel.bind' (forEach2_erase (fun p v => ih.1 sc p [] v false) _ _)
          intro _
          apply MRel.ite
          · intro _; exact MRel.refl _
          intro _
          cases ss.remainder with
          | none => exact MRel.refl _
          | some remainder =>
            simp only []
            apply MRel.bind' (allAsString_erase _)
            intro strs
            cases X.head? with
            | none => simp only [Option.map]; exact MRel.panic _
            | some first =>
              cases X.getLast? with
              | none => simp only [Option.map]; exact MRel.panic _
              | some last =>
                simp only [Option.map, AV.erase_span]
                exact ih.1 sc remainder [] (.str _ _) false

/-- `setAttribute` (`SetAttribute` / `AppendAttribute`) -/
theorem setAttribute_erase (env : Env) (fuel : Nat) (sc : Scope) (path : PathSpec) (ref : List Ident)
    (val : AV) (app : Bool) :
    MRel Eq (setAttribute env fuel sc path (ref.map Ident.erase) val.erase app)
      (setAttribute env fuel sc path ref val app) :=
  (setAttribute_setContainer_erase env fuel).1 sc path ref val app

/-- with no user path -/
theorem setAttribute_erase_nil (env : Env) (fuel : Nat) (sc : Scope) (path : PathSpec)
    (val : AV) (app : Bool) :
    MRel Eq (setAttribute env fuel sc path [] val.erase app) (setAttribute env fuel sc path [] val app) :=
  setAttribute_erase env fuel sc path [] val app

theorem setContainerFromScalar_erase (env : Env) (fuel : Nat) (sc : Scope) (bs : BlockSpec) (val : AV) :
    MRel Eq (setContainerFromScalar env fuel sc bs val.erase) (setContainerFromScalar env fuel sc bs val) :=
  (setAttribute_setContainer_erase env fuel).2 sc bs val

theorem setDescription_erase (env : Env) (sc : Scope) (d : AV) :
    MRel Eq (setDescription env sc d.erase) (setDescription env sc d) := by
  unfold setDescription
  cases sc.root with
  | none => exact MRel.panic _
  | some root =>
    simp only []
    cases root.spec.description with
    | none => exact MRel.refl _
    | some f => exact setAttribute_erase_nil env _ sc _ d false

end J5V.Walker
