import J5V.Bcl.Parser
/-!
# Position erasure of a BCL tree, for the driver (core only)

Textual copy of the `erase` functions of `J5V/Bcl/Equiv.lean` (which lives above the BCL proof
files; the walker driver must not depend on them). `J5V/Walker/PrintEraseEq.lean` proves the copy
equal to the original (`eraseStmts = Statement.eraseList`).
-/
namespace J5V.Walker
open J5V.Bcl

def zspan : Span := ⟨⟨0, 0⟩, ⟨0, 0⟩⟩

def eraseTok (t : Token) : Token := ⟨t.ty, t.lit, ⟨0, 0⟩, ⟨0, 0⟩⟩

def eraseIdent (i : Ident) : Ident := ⟨eraseTok i.token, i.value, zspan⟩

def eraseRef (r : Reference) : Reference := ⟨r.idents.map eraseIdent, zspan⟩

mutual
def eraseValue : Value → Value
  | .scalar tok _ => .scalar (eraseTok tok) zspan
  | .array vs _ => .array (eraseValues vs) zspan
def eraseValues : List Value → List Value
  | [] => []
  | v :: vs => eraseValue v :: eraseValues vs
end

def eraseTag (t : TagValue) : TagValue :=
  ⟨t.mark, eraseTok t.markToken, t.reference.map eraseRef, t.value.map eraseValue, zspan⟩

def eraseDesc (d : Description) : Description := ⟨d.tokens.map eraseTok, d.value, zspan⟩

def eraseSrc (s : SourceNode) : SourceNode :=
  ⟨⟨0, 0⟩, ⟨0, 0⟩, s.comment.map fun c => ⟨c.value, zspan⟩⟩

def eraseHeader (h : BlockHeader) : BlockHeader :=
  ⟨eraseRef h.type, h.tags.map eraseTag, h.qualifiers.map eraseTag, h.description.map eraseDesc, h.isOpen,
    eraseSrc h.src⟩

def eraseAssign (a : Assignment) : Assignment := ⟨eraseRef a.key, eraseValue a.value, a.append, eraseSrc a.src⟩

mutual
def eraseStmt : Statement → Statement
  | .block h body => .block (eraseHeader h) (eraseStmts body)
  | .assign a => .assign (eraseAssign a)
  | .desc d => .desc (eraseDesc d)
def eraseStmts : List Statement → List Statement
  | [] => []
  | s :: ss => eraseStmt s :: eraseStmts ss
end

end J5V.Walker
