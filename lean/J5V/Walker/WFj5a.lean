import J5V.Walker.WFj5Lit
/-! # Normal form of `j5Env`, first half (kernel evaluation of `str` on every name: slow, hence split) -/
namespace J5V.Walker

theorem j5_root_nf : j5Env.root = j5_root_lit% := by decide +kernel
theorem j5_enums_nf : j5Env.enums = j5_enums_lit% := by decide +kernel
theorem j5_given_nf : j5Env.given = j5_given_lit% := by decide +kernel
theorem j5_chunk0_nf : j5Chunk 0 = j5_chunk_lit% 0 := by decide +kernel
theorem j5_chunk1_nf : j5Chunk 27 = j5_chunk_lit% 27 := by decide +kernel

end J5V.Walker
