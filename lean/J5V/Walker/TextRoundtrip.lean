import J5V.Bcl.TreeTextProofs
import J5V.Walker.PrintText
import J5V.Walker.TextOK
import J5V.Walker.ErasePos
import J5V.Walker.PP.Entity
/-!
# From source TEXT: the plain-style text of a supported file parses to its tree and denotes its message
-/
namespace J5V.Walker
open J5V.Bcl

/-- the text `printJ5s ast` is accepted by the BCL parser, and the tree is `toBcl ast` up to positions -/
theorem text_roundtrip (cls : Cls) (hcls : ClsAscii cls) (ast : J5V.Compile.SrcFile)
    (h : supported ast = true) (ff : Bool) :
    ∃ t, parseFile cls (printJ5s ast) ff = .tree t ∧
      Statement.eraseList t.body = Statement.eraseList (toBcl ast) :=
  tree_text_roundtrip cls hcls.clsOK plainGap (toBcl ast) (toBcl_textOK cls hcls ast h) ff

/-- … and walking that tree gives exactly the message the file denotes -/
theorem text_parse_walk (cls : Cls) (hcls : ClsAscii cls) (filename : Str) (ast : J5V.Compile.SrcFile)
    (h : supported ast = true) (ff : Bool) :
    ∃ t, parseFile cls (printJ5s ast) ff = .tree t ∧
      walkSchema j5Env t.body (stub j5Env filename) = .ok (toMsg filename ast) := by
  obtain ⟨t, ht, he⟩ := text_roundtrip cls hcls ast h ff
  exact ⟨t, ht, walkSchema_ok_of_erase_eq j5Env (toBcl ast) t.body _ _ he
    (C07W_print_parse filename ast h)⟩

end J5V.Walker
