import J5V.Walker.State
/-!
# `j5parse.FileStub(filename)` on bytes (core only) — walker-semantics §2, PROTOCOL-walker.md §2

`dir, _ := path.Split(name)` (everything up to and including the LAST `/`); `TrimSuffix(dir, "/")`
(one slash); `strings.Join(strings.Split(dir, "/"), ".")` (every `/` becomes `.`). The message:
`Path = name`, `Package = &Package{Name: pkg}`, `SourceLocations = &SourceLocation{}` — written
straight into the proto, so NOTHING is touched for the reflection layer. The file name is never
decoded (arbitrary bytes).

The three property names are those of `sourcedef_j5pb.SourceFile`; in another `Env` a missing property
is simply not preset.
-/
namespace J5V.Walker

/-- the `dir` of `path.Split(name)` -/
def pathDir (name : Str) : Str := (name.reverse.dropWhile (· ≠ 47)).reverse

/-- `strings.TrimSuffix(s, "/")` -/
def trimSlash (s : Str) : Str :=
  match s.getLast? with
  | some 47 => s.dropLast
  | _ => s

/-- the package name `FileStub` derives from the file name -/
def stubPackage (name : Str) : Str := (trimSlash (pathDir name)).map fun b => if b = 47 then 46 else b

/-- a proto3 string field without presence -/
def stringNode (s : Str) : Node := if s.isEmpty then .absent else .scalar (.str s)

/-- write `v` into property `name` of the message `n` of schema `s` (directly: not touched) -/
def presetProp (s : Schema) (name : Str) (v : Node) (n : Node) : Node :=
  match findProp name 0 s.props, n with
  | some (i, _), .msg t ps => .msg t (ps.set i v)
  | _, _ => n

/-- the schema an object-typed property refers to -/
def propSchema (env : Env) (s : Schema) (name : Str) : Schema :=
  match findProp name 0 s.props with
  | some (_, p) =>
    match p.type with
    | .object r => env.schemaOf r
    | .oneof r => env.schemaOf r
    | _ => ⟨[], false, []⟩
  | none => ⟨[], false, []⟩

/-- `FileStub(filename)` seen through the j5 schema -/
def stub (env : Env) (filename : Str) : Node :=
  let root := env.schemaOf env.root
  let pkgSchema := propSchema env root (str "package")
  let locSchema := propSchema env root (str "sourceLocations")
  let pkg := presetProp pkgSchema (str "name") (stringNode (stubPackage filename)) (freshMsg pkgSchema)
  freshMsg root
    |> presetProp root (str "path") (stringNode filename)
    |> presetProp root (str "package") pkg
    |> presetProp root (str "sourceLocations") (freshMsg locSchema)

end J5V.Walker
