import J5V.Compile.SourceDef
import J5V.Walker.Facts
import J5V.Walker.Walk
import J5V.Walker.Stub
import J5V.Walker.Dump
/-!
# The printer's text as a BCL tree, and the message it denotes (core only)

For an abstract j5s file `ast : J5V.Compile.SrcFile` (the compile cluster's AST = the harness
generator's AST `j5sgen/ast.go`):

* `toBcl ast` — the BCL syntax tree, all positions `0:0`, of the text `j5sgen.PrintFile(f, pkg, 0)`
  writes (style 0 = the plain style: every `p.chance(..)` of `print.go` is `false`, so no comments,
  no descriptions, `!` / `?` as marks, references as qualifiers, no `ref` block, no empty `{ }`);
* `toMsg filename ast` — the `sourcedef_j5pb.SourceFile` that text denotes, as the walker model's
  `Node` (with the reflection layer's "touched" flags as the walk leaves them), written from the
  meaning of the AST and the j5 schema (`j5Env`), not by running the walker;
* `supported ast` — the fragment both are claimed for. Outside it the printer's text is not
  accepted by the real parser, or has no tree of this shape (see `notes/walker.md`, "print op").

Target theorem (not proved here; validated by the stream `walker.print`, PROTOCOL-walker.md §8):
`supported ast → walkSchema j5Env (toBcl ast) (stub j5Env fn) = .ok (toMsg fn ast)`, and
`parseFile cls (decodeRunes (print ast)) true = .tree f` with `eraseStmts f.body = toBcl ast`.

Structure: one function per AST category on each side with the same recursion
(`fieldBody` / `fieldMsg`, `propBcl` / `propMsg`, `objectBcl` / `objectMsg`, …); the recursion over
`Field` / `Property` and over `ObjDecl` / `Nested` is mutual structural recursion.
-/
namespace J5V.Walker
open J5V.Bcl

abbrev CField := J5V.Compile.Field
abbrev CProperty := J5V.Compile.Property

/-! ## Lexical classes (ASCII only: the Unicode classifier of the lexer is a run-time table) -/

def isAsciiLetter (b : Nat) : Bool := (65 ≤ b && b ≤ 90) || (97 ≤ b && b ≤ 122)
def isAsciiDigit (b : Nat) : Bool := 48 ≤ b && b ≤ 57

/-- `[A-Za-z][A-Za-z0-9_]*`: lexed as ONE `IDENT` token (`true` / `false` as `BOOL`, which every
place that reads an identifier converts back, `Token.asIdent`) -/
def isIdent : Str → Bool
  | [] => false
  | c :: rest => isAsciiLetter c && rest.all fun b => isAsciiLetter b || isAsciiDigit b || b = 95

/-- identifiers joined by single dots (`foo.v1`, `Bar`): lexed as a reference -/
def isDotted (s : Str) : Bool := (J5V.Compile.splitOnByte 46 s).all isIdent

/-- a string the printer can quote (`Quote` escapes `"` and `\`) so that the lexer gives back the
same bytes: ASCII without a newline (then `decodeRunes s = s` and `encodeRunes` of it is `s`) -/
def okString (s : Str) : Bool := s.all fun b => b < 128 && b != 10

def hasDot (s : Str) : Bool := s.contains 46

/-! ## BCL nodes without positions -/

def tok0 (ty : TokenType) (lit : List Rune) : Token := ⟨ty, lit, ⟨0, 0⟩, ⟨0, 0⟩⟩

def identOf (s : Str) : Ident := ⟨tok0 .ident (decodeRunes s), decodeRunes s, Span.zero⟩

def refOf (segs : List Str) : Reference := ⟨segs.map identOf, Span.zero⟩

/-- `foo.v1.Bar` as the reference the parser reads -/
def dottedRef (s : Str) : Reference := refOf (J5V.Compile.splitOnByte 46 s)

def markTok : TagMark → Token
  | .none => Token.zero
  | .bang => tok0 .bang [33]
  | .question => tok0 .question [63]

/-- a tag / qualifier that is a reference, with its mark -/
def tagRef (mark : TagMark) (r : Reference) : TagValue := ⟨mark, markTok mark, some r, none, Span.zero⟩

def src0 : SourceNode := ⟨⟨0, 0⟩, ⟨0, 0⟩, none⟩

/-- a quoted string: `STRING` token holding the unescaped text -/
def strValue (s : Str) : Value := .scalar (tok0 .string (decodeRunes s)) Span.zero

/-- a tag that is a quoted string (`import "a/b.proto"`) -/
def tagStr (s : Str) : TagValue := ⟨.none, Token.zero, none, some (strValue s), Span.zero⟩

/-- `strconv.FormatUint(n, 10)` as runes -/
def natDigits (n : Nat) : List Rune := (Nat.toDigits 10 n).map Char.toNat

def intValue (n : Nat) : Value := .scalar (tok0 .int (natDigits n)) Span.zero

def boolValue (b : Bool) : Value := .scalar (tok0 .bool (if b then litTrue else litFalse)) Span.zero

/-- `["a", "b"]` (also `[]`) -/
def strsValue (l : List Str) : Value := .array (l.map strValue) Span.zero

/-- `a.b.c = value` -/
def assignStmt (key : List Str) (v : Value) : Statement := .assign ⟨refOf key, v, false, src0⟩

/-- `type tag… :qual… [{ body }]` -/
def blockStmt (type : Str) (tags quals : List TagValue) (isOpen : Bool) (body : List Statement) : Statement :=
  .block ⟨refOf [type], tags, quals, none, isOpen, src0⟩ body

def nameTag (name : Str) : TagValue := tagRef .none (refOf [name])

/-! ## Words of the language -/

def wRules : Str := b!"rules"
def wItems : Str := b!"items"
def wItemSchema : Str := b!"itemSchema"
def wObject : Str := b!"object"
def wOneof : Str := b!"oneof"
def wEnum : Str := b!"enum"
def wName : Str := b!"name"
def wField : Str := b!"field"
def wOption : Str := b!"option"

def intFmtWord : J5V.Compile.IntFmt → Str
  | .int32 => b!"INT32" | .int64 => b!"INT64" | .uint32 => b!"UINT32" | .uint64 => b!"UINT64"

def floatFmtWord : J5V.Compile.FloatFmt → Str
  | .float32 => b!"FLOAT32" | .float64 => b!"FLOAT64"

def verbWord : J5V.Compile.Verb → Str
  | .get => b!"GET" | .post => b!"POST" | .put => b!"PUT" | .patch => b!"PATCH" | .delete => b!"DELETE"
  | .unspecified => b!"UNSPECIFIED"

/-- the type word of a field (`f.Kind`) -/
def fieldKind : CField → Str
  | .string .. => b!"string" | .bool .. => b!"bool" | .bytes .. => b!"bytes" | .date .. => b!"date"
  | .decimal .. => b!"decimal" | .timestamp .. => b!"timestamp" | .any => b!"any"
  | .integer .. => b!"integer" | .float .. => b!"float" | .key .. => b!"key"
  | .objectRef .. => wObject | .objectInl .. => wObject
  | .oneofRef .. => wOneof | .oneofInl .. => wOneof
  | .enumRef .. => wEnum | .enumInl .. => wEnum
  | .array .. => b!"array" | .map .. => b!"map"

/-- `pkg.Schema` / `Schema` as written in a qualifier -/
def refString (pkg schema : Str) : Str := if pkg = [] then schema else pkg ++ [46] ++ schema

/-! ## `toBcl`: fields -/

def litValue : J5V.Compile.Lit → Value
  | .int n => intValue n
  | .str s => strValue s
  | .bool b => boolValue b
  | .neg n => .scalar (tok0 .invalid (45 :: natDigits n)) Span.zero   -- `-5` does not lex: outside `supported`
  | .strs l => strsValue l

/-- `rules.<name> = <lit>` lines, addressed from the property scope through `pfx` -/
def rulesBcl (pfx : List Str) : J5V.Compile.Rules → List Statement
  | [] => []
  | r :: rs => assignStmt (pfx ++ [wRules, r.name]) (litValue r.lit) :: rulesBcl pfx rs

/-- the reference qualifier of an object / oneof / enum field: a dotted schema name cannot be written
as a qualifier (the scalar is split right to left), the printer then writes attributes -/
def refQuals (pkg schema : Str) : List TagValue :=
  if hasDot schema then [] else [tagRef .none (dottedRef (refString pkg schema))]

def refBody (pfx : List Str) (pkg schema : Str) : List Statement :=
  if hasDot schema then
    (if pkg = [] then [] else [assignStmt (pfx ++ [b!"ref", b!"package"]) (strValue pkg)]) ++
      [assignStmt (pfx ++ [b!"ref", b!"schema"]) (strValue schema)]
  else []

def flattenBcl (pfx : List Str) (flatten : Bool) : List Statement :=
  if flatten then [assignStmt (pfx ++ [b!"flatten"]) (boolValue true)] else []

/-- `<kind>.name = "…"` of an inline type -/
def inlNameBcl (pfx : List Str) (kind name : Str) : List Statement :=
  if name = [] then [] else [assignStmt (pfx ++ [kind, wName]) (strValue name)]

def listRulesBcl (pfx : List Str) : Option (List Str) → List Statement
  | none => []
  | some fs =>
    assignStmt (pfx ++ [b!"listRules", b!"filtering", b!"filterable"]) (boolValue true) ::
      (if fs = [] then []
       else [assignStmt (pfx ++ [b!"listRules", b!"filtering", b!"defaultFilters"]) (strsValue fs)])

def optionBcl (o : Str) : Statement := blockStmt wOption [nameTag o] [] false []

def enumInlBcl (pfx : List Str) (e : J5V.Compile.EnumDecl) : List Statement :=
  inlNameBcl pfx wEnum e.name ++
    (if e.pfx = [] then [] else [assignStmt (pfx ++ [wEnum, b!"prefix"]) (strValue e.pfx)]) ++
    e.opts.map optionBcl

/-- `entityKey`: the property is an entity `key` and the field is addressed directly (`prefix == ""`):
the printer then uses the aliases `primary` / `tenant` of `j5.sourcedef.v1.EntityKey` -/
def entKeyBcl (pfx : List Str) (entityKey : Bool) : J5V.Compile.EntKey → List Statement
  | .nokey => []
  | .ek kind tenant =>
    let short := entityKey && pfx.isEmpty
    (match kind with
     | .plain => []
     | .primary b =>
       [assignStmt (if short then [b!"primary"] else pfx ++ [b!"entity", b!"primaryKey"]) (boolValue b)]
     | .foreign pkg ent => [assignStmt (pfx ++ [b!"foreign"]) (strValue (pkg ++ [46] ++ ent))]) ++
    (match tenant with
     | none => []
     | some t =>
       [assignStmt (if short then [b!"tenant"] else pfx ++ [b!"entity", b!"tenantKey"]) (strValue t)])

def keyFmtQuals : J5V.Compile.KeyFmt → List TagValue
  | .none => []
  | .informal => [tagRef .none (refOf [b!"informal"])]
  | .uuid => [tagRef .none (refOf [b!"uuid"])]
  | .id62 => [tagRef .none (refOf [b!"id62"])]
  | .custom _ => [tagRef .none (refOf [b!"custom"])]

def keyFmtBody (pfx : List Str) : J5V.Compile.KeyFmt → List Statement
  | .custom p => [assignStmt (pfx ++ [b!"format", b!"custom", b!"pattern"]) (strValue p)]
  | _ => []

/-- the qualifier chain after the type word: `integer:INT32`, `key:id62`, `object:foo.v1.Bar`,
`array:object:Bar` -/
def fieldQuals : CField → List TagValue
  | .integer fmt _ _ => [tagRef .none (refOf [intFmtWord fmt])]
  | .float fmt _ _ => [tagRef .none (refOf [floatFmtWord fmt])]
  | .key fmt _ _ _ => keyFmtQuals fmt
  | .objectRef pkg schema _ _ => refQuals pkg schema
  | .oneofRef pkg schema _ _ => refQuals pkg schema
  | .enumRef pkg schema _ _ => refQuals pkg schema
  | .array items _ => tagRef .none (refOf [fieldKind items]) :: fieldQuals items
  | .map items _ => tagRef .none (refOf [fieldKind items]) :: fieldQuals items
  | _ => []

/-- the printer gives the property a `{ … }` body because of an inline type, even an empty one
(`bodyItem{props: …}` / `bodyItem{opts: …}` count as body items) -/
def fieldInline : CField → Bool
  | .objectInl .. => true
  | .oneofInl .. => true
  | .enumInl .. => true
  | .array items _ => fieldInline items
  | .map items _ => fieldInline items
  | _ => false

mutual
/-- the body lines `fieldSpec(f, prefix, entityKey)` returns, in its order: rules, then the
attributes of the type, then inline properties / options -/
def fieldBody : CField → List Str → Bool → List Statement
  | .string rules _, pfx, _ => rulesBcl pfx rules
  | .bool rules _, pfx, _ => rulesBcl pfx rules
  | .bytes rules, pfx, _ => rulesBcl pfx rules
  | .date rules _, pfx, _ => rulesBcl pfx rules
  | .decimal rules _, pfx, _ => rulesBcl pfx rules
  | .timestamp rules, pfx, _ => rulesBcl pfx rules
  | .any, _, _ => []
  | .integer _ rules _, pfx, _ => rulesBcl pfx rules
  | .float _ rules _, pfx, _ => rulesBcl pfx rules
  | .key fmt ek rules _, pfx, entityKey => rulesBcl pfx rules ++ keyFmtBody pfx fmt ++ entKeyBcl pfx entityKey ek
  | .objectRef pkg schema flatten rules, pfx, _ =>
    rulesBcl pfx rules ++ flattenBcl pfx flatten ++ refBody pfx pkg schema
  | .objectInl name props flatten rules, pfx, _ =>
    rulesBcl pfx rules ++ flattenBcl pfx flatten ++ inlNameBcl pfx wObject name ++ propsBcl wField props
  | .oneofRef pkg schema rules _, pfx, _ => rulesBcl pfx rules ++ refBody pfx pkg schema
  | .oneofInl name props rules _, pfx, _ =>
    rulesBcl pfx rules ++ inlNameBcl pfx wOneof name ++ propsBcl wOption props
  | .enumRef pkg schema rules lr, pfx, _ => rulesBcl pfx rules ++ listRulesBcl pfx lr ++ refBody pfx pkg schema
  | .enumInl e rules lr, pfx, _ => rulesBcl pfx rules ++ listRulesBcl pfx lr ++ enumInlBcl pfx e
  | .array items rules, pfx, _ => rulesBcl pfx rules ++ fieldBody items (pfx ++ [wItems, fieldKind items]) false
  | .map items rules, pfx, _ => rulesBcl pfx rules ++ fieldBody items (pfx ++ [wItemSchema, fieldKind items]) false

/-- `prop(kw, pr)`: `kw NAME [!|?] TYPE:QUAL… [{ [optional = true] body }]` -/
def propBcl (kw : Str) : CProperty → Statement
  | .mk name required optional f =>
    let mark : TagMark := if required then .bang else if optional then .question else .none
    let pre := if required && optional then [assignStmt [b!"optional"] (boolValue true)] else []
    let body := pre ++ fieldBody f [] false
    blockStmt kw [nameTag name, tagRef mark (refOf [fieldKind f])] (fieldQuals f)
      (!body.isEmpty || fieldInline f) body

def propsBcl (kw : Str) : List CProperty → List Statement
  | [] => []
  | p :: ps => propBcl kw p :: propsBcl kw ps
end

/-! ## `toBcl`: declarations -/

def enumBcl (e : J5V.Compile.EnumDecl) : Statement :=
  blockStmt wEnum [nameTag e.name] [] true
    ((if e.pfx = [] then [] else [assignStmt [b!"prefix"] (strValue e.pfx)]) ++ e.opts.map optionBcl)

mutual
/-- `object NAME { fields nested }` / `oneof NAME { options nested }` (also `event NAME { … }`) -/
def objectBcl (kw pkw : Str) : J5V.Compile.ObjDecl → Statement
  | .mk name props nested _ => blockStmt kw [nameTag name] [] true (propsBcl pkw props ++ nestedBcl nested)

def nestedBcl : List J5V.Compile.Nested → List Statement
  | [] => []
  | .object o :: rest => objectBcl wObject wField o :: nestedBcl rest
  | .oneof o :: rest => objectBcl wOneof wOption o :: nestedBcl rest
  | .enum e :: rest => enumBcl e :: nestedBcl rest
end

/-- `request { fields }` and the like: a block without tags -/
def anonBcl (kw : Str) (props : List CProperty) : Statement := blockStmt kw [] [] true (propsBcl wField props)

def methodBcl (m : J5V.Compile.Method) : Statement :=
  blockStmt b!"method" [nameTag m.name] [] true
    ([assignStmt [b!"httpMethod"] (strValue (verbWord m.verb)),
      assignStmt [b!"httpPath"] (strValue m.path),
      anonBcl b!"request" (m.request.getD [])] ++
     (match m.response with
      | none => []
      | some ps => [anonBcl b!"response" ps]))

def serviceBody (named : Bool) (s : J5V.Compile.Service) : List Statement :=
  (if named || (s.name.getD []) = [] then [] else [assignStmt [wName] (strValue (s.name.getD []))]) ++
  (match s.basePath with
   | none => []
   | some bp => [assignStmt [b!"basePath"] (strValue bp)]) ++
  s.methods.map methodBcl

/-- top level: `service NAME { … }` -/
def serviceBcl (s : J5V.Compile.Service) : Statement :=
  blockStmt b!"service" [nameTag (s.name.getD [])] [] true (serviceBody true s)

/-- in an entity: `command { name = "…" … }` -/
def commandBcl (s : J5V.Compile.Service) : Statement :=
  blockStmt b!"command" [] [] true (serviceBody false s)

def topicMsgBcl (kw : Str) (m : J5V.Compile.TopicMsg) : Statement :=
  blockStmt kw (match m.name with | none => [] | some n => [nameTag n]) [] true (propsBcl wField m.props)

def topicKindWord : J5V.Compile.TopicType → Str
  | .publish _ => b!"publish" | .reqres _ _ => b!"reqres" | .upsert _ _ => b!"upsert" | .event _ _ => b!"event"

def topicBody : J5V.Compile.TopicType → List Statement
  | .publish msgs => msgs.map (topicMsgBcl b!"message")
  | .reqres reqs reps => reqs.map (topicMsgBcl b!"request") ++ reps.map (topicMsgBcl b!"reply")
  | .upsert _ msg => [topicMsgBcl b!"message" msg]
  | .event _ msg => [topicMsgBcl b!"message" msg]      -- the printer has no event topics: outside `supported`

def topicBcl (t : J5V.Compile.Topic) : Statement :=
  blockStmt b!"topic" [nameTag t.name, tagRef .none (refOf [topicKindWord t.type])] [] true (topicBody t.type)

/-- `key NAME [!|?] TYPE… { [optional = true] [shardKey = true] body }` -/
def keyBcl (k : J5V.Compile.EntityKeyDecl) : Statement :=
  match k.prop with
  | .mk name required optional f =>
    let mark : TagMark := if required then .bang else if optional then .question else .none
    let pre := (if required && optional then [assignStmt [b!"optional"] (boolValue true)] else []) ++
      (if k.shard then [assignStmt [b!"shardKey"] (boolValue true)] else [])
    let body := pre ++ fieldBody f [] true
    blockStmt b!"key" [nameTag name, tagRef mark (refOf [fieldKind f])] (fieldQuals f)
      (!body.isEmpty || fieldInline f) body

def summaryBcl (s : J5V.Compile.Summary) : Statement :=
  blockStmt b!"summary" [] [] true
    ((if s.name = [] then [] else [assignStmt [wName] (strValue s.name)]) ++ propsBcl wField s.props)

def queryBcl (q : J5V.Compile.EntityQuery) : Statement :=
  blockStmt b!"query" [] [] true
    ((if q.eventsInGet then [assignStmt [b!"eventsInGet"] (boolValue true)] else []) ++
     (if q.filters = [] then [] else [assignStmt [b!"defaultStatusFilter"] (strsValue q.filters)]))

def statusBcl (s : Str) : Statement := blockStmt b!"status" [nameTag s] [] false []

def entityBcl (e : J5V.Compile.Entity) : Statement :=
  blockStmt b!"entity" [nameTag e.name] [] true
    ((if e.baseUrl = [] then [] else [assignStmt [b!"baseUrlPath"] (strValue e.baseUrl)]) ++
     e.keys.map keyBcl ++
     propsBcl b!"data" e.data ++
     e.statuses.map statusBcl ++
     e.events.map (objectBcl b!"event" wField) ++
     e.commands.map commandBcl ++
     e.summaries.map summaryBcl ++
     (match e.query with | none => [] | some q => [queryBcl q]) ++
     nestedBcl e.nested)

def elemBcl : J5V.Compile.Elem → Statement
  | .object o => objectBcl wObject wField o
  | .oneof o => objectBcl wOneof wOption o
  | .enum e => enumBcl e
  | .service s => serviceBcl s
  | .topic t => topicBcl t
  | .entity e => entityBcl e

/-- `import "a/b.proto"` / `import foo.v1:alias` / `import foo.v1` -/
def importBcl (i : J5V.Compile.Import) : Statement :=
  if i.path.contains 47 then blockStmt b!"import" [tagStr i.path] [] false []
  else if i.alias = [] then blockStmt b!"import" [tagRef .none (dottedRef i.path)] [] false []
  else blockStmt b!"import" [tagRef .none (dottedRef i.path)] [tagRef .none (refOf [i.alias])] false []

def packageBcl (decl : Str) : Statement := blockStmt b!"package" [tagRef .none (dottedRef decl)] [] false []

/-- the tree of `PrintFile(f, pkg, 0)` (`decl` = the package name the printer writes) -/
def toBcl : J5V.Compile.SrcFile → List Statement
  | .j5s _ imports elems decl => packageBcl decl :: (imports.map importBcl ++ elems.map elemBcl)
  | .proto .. => []

/-! ## `toMsg`: the message, schema-directed -/

def lookupVal (n : Str) : List (Str × Node) → Option Node
  | [] => none
  | (k, v) :: rest => if k = n then some v else lookupVal n rest

/-- a message of schema `sn` after a walk that touched exactly the listed properties, leaving the
listed values (a touched property may still be `.absent`: a zero scalar without presence) -/
def mkMsg (env : Env) (sn : Str) (vals : List (Str × Node)) : Node :=
  let s := env.schemaOf sn
  .msg (s.props.map fun p => (lookupVal p.name vals).isSome)
       (s.props.map fun p => (lookupVal p.name vals).getD .absent)

/-- a string property without presence -/
def sStr (s : Str) : Node := stringNode s
/-- a string property with presence -/
def pStr (s : Str) : Node := .scalar (.str s)
def bTrue : Node := .scalar (.bool true)
/-- a bool property with presence -/
def pBool (b : Bool) : Node := .scalar (.bool b)
/-- an enum property without presence holding option number `n` -/
def sEnum (n : Nat) : Node := if n = 0 then .absent else .scalar (.enum n)

def intFmtNumber : J5V.Compile.IntFmt → Nat
  | .int32 => 1 | .int64 => 2 | .uint32 => 3 | .uint64 => 4

def floatFmtNumber : J5V.Compile.FloatFmt → Nat
  | .float32 => 1 | .float64 => 2

/-- `j5.client.v1.HTTPMethod` -/
def verbNumber : J5V.Compile.Verb → Nat
  | .unspecified => 0 | .get => 1 | .post => 2 | .put => 3 | .delete => 4 | .patch => 5

/-- `[a] if c` -/
def optVal (c : Bool) (n : Str) (v : Node) : List (Str × Node) := if c then [(n, v)] else []

/-- a non-empty repeated property -/
def listVal (n : Str) (items : List Node) : List (Str × Node) := if items.isEmpty then [] else [(n, .list items)]

/-! ### Schema names -/

def nField : Str := b!"j5.schema.v1.Field"
def nObjectProperty : Str := b!"j5.schema.v1.ObjectProperty"
def nRef : Str := b!"j5.schema.v1.Ref"
def nSObject : Str := b!"j5.schema.v1.Object"
def nSOneof : Str := b!"j5.schema.v1.Oneof"
def nSEnum : Str := b!"j5.schema.v1.Enum"
def nEnumOption : Str := b!"j5.schema.v1.Enum_Option"
def nKeyFormat : Str := b!"j5.schema.v1.KeyFormat"
def nEntityKey : Str := b!"j5.schema.v1.EntityKey"
def nEntityRef : Str := b!"j5.schema.v1.EntityRef"
def nFiltering : Str := b!"j5.list.v1.FilteringConstraint"
def nEnumRules : Str := b!"j5.list.v1.EnumRules"

/-- the schema of the member of `j5.schema.v1.Field` a field selects -/
def typeSchema : CField → Str
  | .string .. => b!"j5.schema.v1.StringField" | .bool .. => b!"j5.schema.v1.BoolField"
  | .bytes .. => b!"j5.schema.v1.BytesField" | .date .. => b!"j5.schema.v1.DateField"
  | .decimal .. => b!"j5.schema.v1.DecimalField" | .timestamp .. => b!"j5.schema.v1.TimestampField"
  | .any => b!"j5.schema.v1.AnyField"
  | .integer .. => b!"j5.schema.v1.IntegerField" | .float .. => b!"j5.schema.v1.FloatField"
  | .key .. => b!"j5.schema.v1.KeyField"
  | .objectRef .. => b!"j5.schema.v1.ObjectField" | .objectInl .. => b!"j5.schema.v1.ObjectField"
  | .oneofRef .. => b!"j5.schema.v1.OneofField" | .oneofInl .. => b!"j5.schema.v1.OneofField"
  | .enumRef .. => b!"j5.schema.v1.EnumField" | .enumInl .. => b!"j5.schema.v1.EnumField"
  | .array .. => b!"j5.schema.v1.ArrayField" | .map .. => b!"j5.schema.v1.MapField"

/-! ### Rules: the literal converted for the type of the rule's property -/

/-- the float nearest to the natural number `n` (what `strconv.ParseFloat` of its digits is) -/
def natF64 (n : Nat) : Option Nat := floatBits 53 11 (-1074) n 1
def natF32 (n : Nat) : Option Nat := floatBits 24 8 (-149) n 1

/-- the stored scalar for a literal assigned to a property of type `t`; `none` = the walker refuses
the literal (wrong kind, out of range, no conversion) -/
def litScalar : FieldType → J5V.Compile.Lit → Option Scalar
  | .scalar .string, .str s => some (.str s)
  | .scalar .key, .str s => some (.str s)
  | .scalar .bool, .bool b => some (.bool b)
  | .scalar .uint64, .int n => if n < 2 ^ 64 then some (.uint n) else none
  | .scalar .uint32, .int n => if n < 2 ^ 32 then some (.uint n) else none
  | .scalar .int64, .int n => if n < 2 ^ 63 then some (.int n) else none
  | .scalar .int32, .int n => if n < 2 ^ 31 then some (.int n) else none
  | .scalar .float64, .int n => (natF64 n).map .f64
  | .scalar .float32, .int n => (natF32 n).map .f32
  | _, _ => none

/-- the value a rule leaves in property `p` of the rules message -/
def litNode (p : Property) (l : J5V.Compile.Lit) : Option Node :=
  match p.type, l with
  | .array (.scalar .string), .strs (x :: xs) => some (.list ((x :: xs).map fun s => .scalar (.str s)))
  | .array _, _ => none
  | t, l =>
    match litScalar t l with
    | some v => some (if p.presence || !v.isZero then .scalar v else .absent)
    | none => none

/-- the schema of the `rules` property of a field type schema (`[]` if it has none) -/
def rulesSchema (env : Env) (ts : Str) : Str := (propSchema env (env.schemaOf ts) wRules).name

def ruleVal (s : Schema) (r : J5V.Compile.Rule) : Str × Node :=
  match findProp r.name 0 s.props with
  | some (_, p) => (r.name, (litNode p r.lit).getD .absent)
  | none => (r.name, .absent)

/-- `rules = {…}` when the field has rules -/
def rulesVals (env : Env) (ts : Str) (rules : J5V.Compile.Rules) : List (Str × Node) :=
  if rules.isEmpty then []
  else [(wRules, mkMsg env (rulesSchema env ts) (rules.map (ruleVal (env.schemaOf (rulesSchema env ts)))))]

def ruleOk (s : Schema) (r : J5V.Compile.Rule) : Bool :=
  isIdent r.name &&
  match findProp r.name 0 s.props with
  | some (_, p) => (litNode p r.lit).isSome
  | none => false

def strOk : J5V.Compile.Lit → Bool
  | .str s => okString s
  | .strs l => l.all okString
  | _ => true

def distinct : List Str → Bool
  | [] => true
  | a :: rest => !rest.contains a && distinct rest

/-- every rule names a property of the type's rules schema, with a literal the walker converts;
no rule twice ("already set") -/
def rulesOk (env : Env) (ts : Str) (rules : J5V.Compile.Rules) : Bool :=
  rules.all (fun r => ruleOk (env.schemaOf (rulesSchema env ts)) r && strOk r.lit) &&
  distinct (rules.map (·.name))

/-! ### Fields -/

/-- `j5.schema.v1.Ref`: `package` is written only when there is one -/
def refMsg (env : Env) (pkg schema : Str) : Node :=
  mkMsg env nRef (optVal (pkg != []) b!"package" (sStr pkg) ++ [(b!"schema", sStr schema)])

def flattenVals (flatten : Bool) : List (Str × Node) := optVal flatten b!"flatten" bTrue

def listRulesVals (env : Env) : Option (List Str) → List (Str × Node)
  | none => []
  | some fs =>
    [(b!"listRules", mkMsg env nEnumRules
      [(b!"filtering", mkMsg env nFiltering
        ((b!"filterable", bTrue) :: listVal b!"defaultFilters" (fs.map fun s => .scalar (.str s))))])]

def enumOptionMsg (env : Env) (o : Str) : Node := mkMsg env nEnumOption [(wName, sStr o)]

/-- `j5.schema.v1.Enum` (inline, nested and top level) -/
def enumMsg (env : Env) (e : J5V.Compile.EnumDecl) : Node :=
  mkMsg env nSEnum
    (optVal (e.name != []) wName (sStr e.name) ++ optVal (e.pfx != []) b!"prefix" (sStr e.pfx) ++
     listVal b!"options" (e.opts.map (enumOptionMsg env)))

def keyFmtVals (env : Env) : J5V.Compile.KeyFmt → List (Str × Node)
  | .none => []
  | .informal => [(b!"format", mkMsg env nKeyFormat [(b!"informal", mkMsg env b!"j5.schema.v1.KeyFormat_Informal" [])])]
  | .uuid => [(b!"format", mkMsg env nKeyFormat [(b!"uuid", mkMsg env b!"j5.schema.v1.KeyFormat_UUID" [])])]
  | .id62 => [(b!"format", mkMsg env nKeyFormat [(b!"id62", mkMsg env b!"j5.schema.v1.KeyFormat_ID62" [])])]
  | .custom p =>
    [(b!"format", mkMsg env nKeyFormat
      [(b!"custom", mkMsg env b!"j5.schema.v1.KeyFormat_Custom" [(b!"pattern", sStr p)])])]

/-- `KeyField.entity`; `.ek .plain none` prints nothing: the message has no `entity` then -/
def entKeyVals (env : Env) : J5V.Compile.EntKey → List (Str × Node)
  | .nokey => []
  | .ek .plain none => []
  | .ek kind tenant =>
    [(b!"entity", mkMsg env nEntityKey
      ((match kind with
        | .plain => []
        | .primary b => [(b!"primaryKey", pBool b)]
        | .foreign pkg ent =>
          [(b!"foreignKey", mkMsg env nEntityRef [(b!"entity", sStr ent), (b!"package", sStr pkg)])]) ++
       (match tenant with
        | none => []
        | some t => [(b!"tenantKey", pStr t)])))]

/-- one member of the oneof `j5.schema.v1.Field` -/
def fieldOneof (env : Env) (kind : Str) (v : Node) : Node := mkMsg env nField [(kind, v)]

mutual
/-- the value of a `schema` / `items` / `itemSchema` property: `<kind={…}>` -/
def fieldMsg (env : Env) : CField → Node
  | .string rules l => fieldOneof env b!"string" (mkMsg env (typeSchema (.string rules l)) (rulesVals env (typeSchema (.string rules l)) rules))
  | .bool rules l => fieldOneof env b!"bool" (mkMsg env (typeSchema (.bool rules l)) (rulesVals env (typeSchema (.bool rules l)) rules))
  | .bytes rules => fieldOneof env b!"bytes" (mkMsg env (typeSchema (.bytes rules)) (rulesVals env (typeSchema (.bytes rules)) rules))
  | .date rules l => fieldOneof env b!"date" (mkMsg env (typeSchema (.date rules l)) (rulesVals env (typeSchema (.date rules l)) rules))
  | .decimal rules l => fieldOneof env b!"decimal" (mkMsg env (typeSchema (.decimal rules l)) (rulesVals env (typeSchema (.decimal rules l)) rules))
  | .timestamp rules => fieldOneof env b!"timestamp" (mkMsg env (typeSchema (.timestamp rules)) (rulesVals env (typeSchema (.timestamp rules)) rules))
  | .any => fieldOneof env b!"any" (mkMsg env (typeSchema .any) [])
  | .integer fmt rules l =>
    fieldOneof env b!"integer" (mkMsg env (typeSchema (.integer fmt rules l))
      ((b!"format", sEnum (intFmtNumber fmt)) :: rulesVals env (typeSchema (.integer fmt rules l)) rules))
  | .float fmt rules l =>
    fieldOneof env b!"float" (mkMsg env (typeSchema (.float fmt rules l))
      ((b!"format", sEnum (floatFmtNumber fmt)) :: rulesVals env (typeSchema (.float fmt rules l)) rules))
  | .key fmt ek rules l =>
    fieldOneof env b!"key" (mkMsg env (typeSchema (.key fmt ek rules l))
      (rulesVals env (typeSchema (.key fmt ek rules l)) rules ++ keyFmtVals env fmt ++ entKeyVals env ek))
  | .objectRef pkg schema flatten rules =>
    fieldOneof env wObject (mkMsg env b!"j5.schema.v1.ObjectField"
      (rulesVals env b!"j5.schema.v1.ObjectField" rules ++ flattenVals flatten ++ [(b!"ref", refMsg env pkg schema)]))
  | .objectInl name props flatten rules =>
    fieldOneof env wObject (mkMsg env b!"j5.schema.v1.ObjectField"
      (rulesVals env b!"j5.schema.v1.ObjectField" rules ++ flattenVals flatten ++
       optVal (name != [] || !props.isEmpty) wObject
         (mkMsg env nSObject (optVal (name != []) wName (sStr name) ++ listVal b!"properties" (propsMsg env props)))))
  | .oneofRef pkg schema rules _ =>
    fieldOneof env wOneof (mkMsg env b!"j5.schema.v1.OneofField"
      (rulesVals env b!"j5.schema.v1.OneofField" rules ++ [(b!"ref", refMsg env pkg schema)]))
  | .oneofInl name props rules _ =>
    fieldOneof env wOneof (mkMsg env b!"j5.schema.v1.OneofField"
      (rulesVals env b!"j5.schema.v1.OneofField" rules ++
       optVal (name != [] || !props.isEmpty) wOneof
         (mkMsg env nSOneof (optVal (name != []) wName (sStr name) ++ listVal b!"properties" (propsMsg env props)))))
  | .enumRef pkg schema rules lr =>
    fieldOneof env wEnum (mkMsg env b!"j5.schema.v1.EnumField"
      (rulesVals env b!"j5.schema.v1.EnumField" rules ++ listRulesVals env lr ++ [(b!"ref", refMsg env pkg schema)]))
  | .enumInl e rules lr =>
    fieldOneof env wEnum (mkMsg env b!"j5.schema.v1.EnumField"
      (rulesVals env b!"j5.schema.v1.EnumField" rules ++ listRulesVals env lr ++
       optVal (e.name != [] || e.pfx != [] || !e.opts.isEmpty) wEnum (enumMsg env e)))
  | .array items rules =>
    fieldOneof env b!"array" (mkMsg env b!"j5.schema.v1.ArrayField"
      (rulesVals env b!"j5.schema.v1.ArrayField" rules ++ [(wItems, fieldMsg env items)]))
  | .map items rules =>
    fieldOneof env b!"map" (mkMsg env b!"j5.schema.v1.MapField"
      (rulesVals env b!"j5.schema.v1.MapField" rules ++ [(wItemSchema, fieldMsg env items)]))

/-- `j5.schema.v1.ObjectProperty` -/
def propMsg (env : Env) : CProperty → Node
  | .mk name required optional f =>
    mkMsg env nObjectProperty
      ([(b!"schema", fieldMsg env f), (wName, sStr name)] ++ optVal required b!"required" bTrue ++
       optVal optional b!"explicitlyOptional" bTrue)

def propsMsg (env : Env) : List CProperty → List Node
  | [] => []
  | p :: ps => propMsg env p :: propsMsg env ps
end

/-! ### Declarations -/

def nestedOneof (env : Env) (kind : Str) (v : Node) : Node := mkMsg env b!"j5.sourcedef.v1.NestedSchema" [(kind, v)]

mutual
/-- `j5.sourcedef.v1.Object` (`isOneof = false`; also entity events) / `j5.sourcedef.v1.Oneof` -/
def objectMsg (env : Env) (isOneof : Bool) : J5V.Compile.ObjDecl → Node
  | .mk name props nested _ =>
    mkMsg env (if isOneof then b!"j5.sourcedef.v1.Oneof" else b!"j5.sourcedef.v1.Object")
      ((wName, sStr name) :: (listVal b!"properties" (propsMsg env props) ++ listVal b!"schemas" (nestedMsg env nested)))

def nestedMsg (env : Env) : List J5V.Compile.Nested → List Node
  | [] => []
  | .object o :: rest => nestedOneof env wObject (objectMsg env false o) :: nestedMsg env rest
  | .oneof o :: rest => nestedOneof env wOneof (objectMsg env true o) :: nestedMsg env rest
  | .enum e :: rest => nestedOneof env wEnum (enumMsg env e) :: nestedMsg env rest
end

/-- `j5.sourcedef.v1.AnonymousObject` -/
def anonMsg (env : Env) (props : List CProperty) : Node :=
  mkMsg env b!"j5.sourcedef.v1.AnonymousObject" (listVal b!"properties" (propsMsg env props))

def methodMsg (env : Env) (m : J5V.Compile.Method) : Node :=
  mkMsg env b!"j5.sourcedef.v1.APIMethod"
    ([(wName, sStr m.name), (b!"httpMethod", sEnum (verbNumber m.verb)), (b!"httpPath", sStr m.path),
      (b!"request", anonMsg env (m.request.getD []))] ++
     (match m.response with
      | none => []
      | some ps => [(b!"response", anonMsg env ps)]))

/-- `j5.sourcedef.v1.Service`: `name` and `basePath` have presence -/
def serviceMsg (env : Env) (s : J5V.Compile.Service) : Node :=
  mkMsg env b!"j5.sourcedef.v1.Service"
    (optVal ((s.name.getD []) != []) wName (pStr (s.name.getD [])) ++
     (match s.basePath with
      | none => []
      | some bp => [(b!"basePath", pStr bp)]) ++
     listVal b!"methods" (s.methods.map (methodMsg env)))

/-- `j5.sourcedef.v1.TopicMethod`: `name` has presence -/
def topicMsgMsg (env : Env) (m : J5V.Compile.TopicMsg) : Node :=
  mkMsg env b!"j5.sourcedef.v1.TopicMethod"
    ((match m.name with | none => [] | some n => [(wName, pStr n)]) ++ listVal b!"fields" (propsMsg env m.props))

def topicTypeMsg (env : Env) : J5V.Compile.TopicType → Node
  | .publish msgs =>
    mkMsg env b!"j5.sourcedef.v1.TopicType" [(b!"publish", mkMsg env b!"j5.sourcedef.v1.TopicType_Publish"
      (listVal b!"messages" (msgs.map (topicMsgMsg env))))]
  | .reqres reqs reps =>
    mkMsg env b!"j5.sourcedef.v1.TopicType" [(b!"reqres", mkMsg env b!"j5.sourcedef.v1.TopicType_ReqRes"
      (listVal b!"request" (reqs.map (topicMsgMsg env)) ++ listVal b!"reply" (reps.map (topicMsgMsg env))))]
  | .upsert _ msg =>
    mkMsg env b!"j5.sourcedef.v1.TopicType" [(b!"upsert", mkMsg env b!"j5.sourcedef.v1.TopicType_Upsert"
      [(b!"message", topicMsgMsg env msg)])]
  | .event _ msg =>
    mkMsg env b!"j5.sourcedef.v1.TopicType" [(b!"event", mkMsg env b!"j5.sourcedef.v1.TopicType_Event"
      [(b!"message", topicMsgMsg env msg)])]

def topicMsg (env : Env) (t : J5V.Compile.Topic) : Node :=
  mkMsg env b!"j5.sourcedef.v1.Topic" [(wName, sStr t.name), (b!"type", topicTypeMsg env t.type)]

/-- `j5.sourcedef.v1.EntityKey` -/
def keyMsg (env : Env) (k : J5V.Compile.EntityKeyDecl) : Node :=
  match k.prop with
  | .mk name required optional f =>
    mkMsg env b!"j5.sourcedef.v1.EntityKey"
      ([(b!"schema", fieldMsg env f), (wName, sStr name)] ++ optVal required b!"required" bTrue ++
       optVal optional b!"explicitlyOptional" bTrue ++ optVal k.shard b!"shardKey" bTrue)

def summaryMsg (env : Env) (s : J5V.Compile.Summary) : Node :=
  mkMsg env b!"j5.sourcedef.v1.EntitySummary"
    (optVal (s.name != []) wName (sStr s.name) ++ listVal b!"fields" (propsMsg env s.props))

def queryMsg (env : Env) (q : J5V.Compile.EntityQuery) : Node :=
  mkMsg env b!"j5.sourcedef.v1.EntityQuery"
    (optVal q.eventsInGet b!"eventsInGet" bTrue ++
     listVal b!"defaultStatusFilter" (q.filters.map fun s => .scalar (.str s)))

def entityMsg (env : Env) (e : J5V.Compile.Entity) : Node :=
  mkMsg env b!"j5.sourcedef.v1.Entity"
    ((wName, sStr e.name) ::
     (optVal (e.baseUrl != []) b!"baseUrlPath" (sStr e.baseUrl) ++
      listVal b!"keys" (e.keys.map (keyMsg env)) ++
      listVal b!"data" (propsMsg env e.data) ++
      listVal b!"status" (e.statuses.map (enumOptionMsg env)) ++
      listVal b!"events" (e.events.map (objectMsg env false)) ++
      listVal b!"commands" (e.commands.map (serviceMsg env)) ++
      listVal b!"summaries" (e.summaries.map (summaryMsg env)) ++
      (match e.query with | none => [] | some q => [(b!"query", queryMsg env q)]) ++
      listVal b!"schemas" (nestedMsg env e.nested)))

def rootOneof (env : Env) (kind : Str) (v : Node) : Node := mkMsg env b!"j5.sourcedef.v1.RootElement" [(kind, v)]

def elemMsg (env : Env) : J5V.Compile.Elem → Node
  | .object o => rootOneof env wObject (objectMsg env false o)
  | .oneof o => rootOneof env wOneof (objectMsg env true o)
  | .enum e => rootOneof env wEnum (enumMsg env e)
  | .service s => rootOneof env b!"service" (serviceMsg env s)
  | .topic t => rootOneof env b!"topic" (topicMsg env t)
  | .entity e => rootOneof env b!"entity" (entityMsg env e)

def importMsg (env : Env) (i : J5V.Compile.Import) : Node :=
  mkMsg env b!"j5.sourcedef.v1.Import"
    ((b!"path", sStr i.path) :: optVal (!i.path.contains 47 && i.alias != []) b!"alias" (sStr i.alias))

/-- the root: `FileStub(filename)` (nothing touched, `path` and `sourceLocations` as preset) with
`package` overwritten by the declaration and `imports` / `elements` appended -/
def rootMsg (env : Env) (filename decl : Str) (imports elems : List Node) : Node :=
  let root := env.schemaOf env.root
  let locSchema := propSchema env root b!"sourceLocations"
  let vals : List (Str × Node) :=
    (b!"package", mkMsg env b!"j5.sourcedef.v1.Package" [(wName, sStr decl)]) ::
      (listVal b!"imports" imports ++ listVal b!"elements" elems)
  let preset : List (Str × Node) := [(b!"path", stringNode filename), (b!"sourceLocations", freshMsg locSchema)]
  .msg (root.props.map fun p => (lookupVal p.name vals).isSome)
       (root.props.map fun p => ((lookupVal p.name vals).orElse fun _ => lookupVal p.name preset).getD .absent)

/-- the message the printed file denotes -/
def toMsgEnv (env : Env) (filename : Str) : J5V.Compile.SrcFile → Node
  | .j5s _ imports elems decl => rootMsg env filename decl (imports.map (importMsg env)) (elems.map (elemMsg env))
  | .proto .. => .absent

def toMsg (filename : Str) (ast : J5V.Compile.SrcFile) : Node := toMsgEnv j5Env filename ast

/-! ## `supported`: the fragment -/

/-- a reference to a declared type: `Schema` / `pkg.Schema` as a qualifier, or — dotted schema name —
as `ref.package` / `ref.schema` strings -/
def refOk (pkg schema : Str) : Bool :=
  if hasDot schema then okString schema && okString pkg
  else isIdent schema && (pkg = [] || isDotted pkg)

def entKeyOk : J5V.Compile.EntKey → Bool
  | .nokey => true
  | .ek kind tenant =>
    (match kind with
     | .foreign pkg ent => okString pkg && okString ent && !hasDot ent
     | _ => true) &&
    (match tenant with
     | none => true
     | some t => okString t)

def keyFmtOk : J5V.Compile.KeyFmt → Bool
  | .custom p => okString p
  | _ => true

def enumDeclOk (named : Bool) (e : J5V.Compile.EnumDecl) : Bool :=
  (if named then isIdent e.name else okString e.name) && okString e.pfx && e.opts.all isIdent

def listRulesOk : Option (List Str) → Bool
  | none => true
  | some fs => fs.all okString

/-- the abstract syntax has no collection of collections (the wire decoder refuses them) -/
def isCollection : CField → Bool
  | .array .. => true
  | .map .. => true
  | _ => false

mutual
def fieldOk (env : Env) : CField → Bool
  | .string rules l => !l && rulesOk env (typeSchema (.string rules l)) rules
  | .bool rules l => !l && rulesOk env (typeSchema (.bool rules l)) rules
  | .bytes rules => rulesOk env (typeSchema (.bytes rules)) rules
  | .date rules l => !l && rulesOk env (typeSchema (.date rules l)) rules
  | .decimal rules l => !l && rulesOk env (typeSchema (.decimal rules l)) rules
  | .timestamp rules => rulesOk env (typeSchema (.timestamp rules)) rules
  | .any => true
  | .integer fmt rules l => !l && rulesOk env (typeSchema (.integer fmt rules l)) rules
  | .float fmt rules l => !l && rulesOk env (typeSchema (.float fmt rules l)) rules
  | .key fmt ek rules l => !l && rulesOk env (typeSchema (.key fmt ek rules l)) rules && keyFmtOk fmt && entKeyOk ek
  | .objectRef pkg schema _ rules => rulesOk env b!"j5.schema.v1.ObjectField" rules && refOk pkg schema
  | .objectInl name props _ rules =>
    rulesOk env b!"j5.schema.v1.ObjectField" rules && okString name && propsOk env props
  | .oneofRef pkg schema rules l => !l && rulesOk env b!"j5.schema.v1.OneofField" rules && refOk pkg schema
  | .oneofInl name props rules l =>
    !l && rulesOk env b!"j5.schema.v1.OneofField" rules && okString name && propsOk env props
  | .enumRef pkg schema rules lr =>
    rulesOk env b!"j5.schema.v1.EnumField" rules && listRulesOk lr && refOk pkg schema
  | .enumInl e rules lr => rulesOk env b!"j5.schema.v1.EnumField" rules && listRulesOk lr && enumDeclOk false e
  | .array items rules => rulesOk env b!"j5.schema.v1.ArrayField" rules && !isCollection items && fieldOk env items
  | .map items rules => rulesOk env b!"j5.schema.v1.MapField" rules && !isCollection items && fieldOk env items

def propOk (env : Env) : CProperty → Bool
  | .mk name _ _ f => isIdent name && fieldOk env f

def propsOk (env : Env) : List CProperty → Bool
  | [] => true
  | p :: ps => propOk env p && propsOk env ps
end

mutual
/-- `inObject`: the declaration is written inside an `object` (or `event`) block, where only `object`
may be nested (`j5.sourcedef.v1.Object` has no alias `enum` / `oneof`); a `oneof` block nests nothing -/
def objDeclOk (env : Env) (isOneof : Bool) : J5V.Compile.ObjDecl → Bool
  | .mk name props nested psm =>
    isIdent name && psm.isNone && propsOk env props && (if isOneof then nested.isEmpty else nestedOk env true nested)

def nestedOk (env : Env) (inObject : Bool) : List J5V.Compile.Nested → Bool
  | [] => true
  | .object o :: rest => objDeclOk env false o && nestedOk env inObject rest
  | .oneof o :: rest => !inObject && objDeclOk env true o && nestedOk env inObject rest
  | .enum e :: rest => !inObject && enumDeclOk true e && nestedOk env inObject rest
end

def methodOk (env : Env) (m : J5V.Compile.Method) : Bool :=
  isIdent m.name && m.verb != .unspecified && okString m.path && m.mopt == .none &&
  (match m.request with | none => false | some ps => propsOk env ps) &&
  (match m.response with | none => true | some ps => propsOk env ps)

def serviceOk (env : Env) (named : Bool) (s : J5V.Compile.Service) : Bool :=
  s.sopt == .none &&
  (match s.name with
   | none => !named
   | some n => if named then isIdent n else okString n) &&
  (match s.basePath with | none => true | some bp => okString bp) &&
  s.methods.all (methodOk env)

def topicMsgOk (env : Env) (m : J5V.Compile.TopicMsg) : Bool :=
  (match m.name with | none => true | some n => isIdent n) && propsOk env m.props

def topicOk (env : Env) (t : J5V.Compile.Topic) : Bool :=
  isIdent t.name &&
  match t.type with
  | .publish msgs => msgs.all (topicMsgOk env)
  | .reqres reqs reps => reqs.all (topicMsgOk env) && reps.all (topicMsgOk env)
  | .upsert en msg => en = [] && topicMsgOk env msg
  | .event _ _ => false

def keyOk (env : Env) (k : J5V.Compile.EntityKeyDecl) : Bool := propOk env k.prop

def entityOk (env : Env) (e : J5V.Compile.Entity) : Bool :=
  isIdent e.name && okString e.baseUrl && e.keys.all (keyOk env) && propsOk env e.data &&
  e.statuses.all isIdent && e.events.all (objDeclOk env false) && e.commands.all (serviceOk env false) &&
  e.summaries.all (fun s => okString s.name && propsOk env s.props) &&
  (match e.query with | none => true | some q => q.filters.all okString) &&
  nestedOk env false e.nested

def elemOk (env : Env) : J5V.Compile.Elem → Bool
  | .object o => objDeclOk env false o
  | .oneof o => objDeclOk env true o
  | .enum e => enumDeclOk true e
  | .service s => serviceOk env true s
  | .topic t => topicOk env t
  | .entity e => entityOk env e

def importOk (i : J5V.Compile.Import) : Bool :=
  if i.path.contains 47 then okString i.path
  else isDotted i.path && (i.alias = [] || isIdent i.alias)

def supportedEnv (env : Env) : J5V.Compile.SrcFile → Bool
  | .j5s _ imports elems decl => isDotted decl && imports.all importOk && elems.all (elemOk env)
  | .proto .. => false

/-- the covered fragment (decidable) -/
def supported (ast : J5V.Compile.SrcFile) : Bool := supportedEnv j5Env ast

end J5V.Walker
