import J5V.Walker.ScopeProofs
/-!
# From a valid block with a scalar split to `Env.splitOK`

`splitPaths_ok`: if a valid block (`ContainerFieldOK`) has a spec with a scalar split, its container is
a MESSAGE container of a schema `s`, and every path of the split satisfies `splitPathOK env (.msg s)`
(a map container has the empty given spec: `Env.mapNamesFresh`). Together with the kind clauses of
`childBlock_spec` / `scopeField_spec` (`walkKinds`, `kindOfValue`) and `findBlock_single` (`resolveName`)
this is what bounds the recursion `setAttribute → setContainerFromScalar → setAttribute` of `Walk.lean`.
-/
namespace J5V.Walker

theorem schemaOf_name (env : Env) (r : Str) : (env.schemaOf r).name = r := by
  unfold Env.schemaOf
  cases h : findSchema r env.schemas with
  | none => rfl
  | some s => exact (findSchema_mem h).2

/-- a schema `schemaOf` returns with at least one property is in the table -/
theorem schemaOf_mem {env : Env} {r : Str} {i : Nat} {p : Property}
    (hp : (env.schemaOf r).props[i]? = some p) : env.schemaOf r ∈ env.schemas := by
  unfold Env.schemaOf at hp ⊢
  cases h : findSchema r env.schemas with
  | none => simp [h] at hp
  | some s => exact (findSchema_mem h).1

theorem msgSchema_eq {env : Env} {t : FieldType} {s : Schema} (h : t.msgSchema env = some s) :
    s = env.schemaOf s.name := by
  cases t <;> simp [FieldType.msgSchema] at h <;> subst h <;> rw [schemaOf_name]

/-- the schema of a valid message container is the schema of its name -/
theorem ContOK.schema_eq {env : Env} {st : Node} {a : Addr} {s : Schema}
    (h : ContOK env st ⟨a, .msg s⟩) : s = env.schemaOf s.name := by
  obtain ⟨⟨t, _, hs⟩, _⟩ := h
  exact msgSchema_eq hs

theorem findGiven_mem {name : Str} {l : List GivenBlock} {spec : BlockSpec}
    (h : findGiven name l = some spec) : ∃ g, g ∈ l ∧ g.schemaName = name ∧ g.spec = spec := by
  induction l with
  | nil => cases h
  | cons g rest ih =>
    simp only [findGiven] at h
    cases hr : findGiven name rest with
    | some s' =>
      simp only [hr, Option.some.injEq] at h
      subst h
      obtain ⟨g', hg', h1, h2⟩ := ih hr
      exact ⟨g', List.mem_cons_of_mem _ hg', h1, h2⟩
    | none =>
      simp only [hr] at h
      split at h
      · rename_i hn
        cases h
        exact ⟨g, List.mem_cons_self, hn, rfl⟩
      · cases h

/-- a valid map container has no given block (`Env.mapNamesFresh`) -/
theorem givenSpec_map {env : Env} (hwf : env.WF = true) {st : Node} {a : Addr} {n : Str} {item : FieldType}
    (h : ContOK env st ⟨a, .map n item⟩) : givenSpec env ⟨a, .map n item⟩ = BlockSpec.empty := by
  obtain ⟨⟨hta, _, c, i, t, s, p, rfl, htc, hs, hp, rfl⟩, _⟩ := h
  have hpt := Env.typeAt_prop htc hs hp
  simp only at hta
  rw [hpt] at hta
  simp only [Option.some.injEq] at hta
  have hs' := msgSchema_eq hs
  have hmem : s ∈ env.schemas := by
    rw [hs'] at hp ⊢
    exact schemaOf_mem hp
  have hfresh := WF_mapNamesFresh hwf
  simp only [Env.mapNamesFresh, List.all_eq_true] at hfresh
  have := hfresh s hmem p (List.mem_of_getElem? hp)
  rw [hta] at this
  simp only [Bool.and_eq_true, Option.isNone_iff_eq_none] at this
  unfold givenSpec
  simp only [Cont.schemaName, this.2]

/-- the paths of the scalar split of a valid block are those `Env.splitOK` checked, and the block is a
message container -/
theorem splitPaths_ok {env : Env} (hwf : env.WF = true) {st : Node} {cf : ContainerField} {ss : ScalarSplit}
    (h : ContainerFieldOK env st cf) (hss : cf.spec.scalarSplit = some ss) :
    ∃ s, cf.container.kind = .msg s ∧ ∀ path, path ∈ ss.paths → splitPathOK env (.msg s) path = true := by
  obtain ⟨sn, ⟨a, k⟩, spec⟩ := cf
  obtain ⟨hc, _, hspec⟩ := h
  simp only at hc hspec hss ⊢
  have hk := (specOf_keeps hspec).2.2.1
  rw [hss] at hk
  cases k with
  | map n item =>
    rw [givenSpec_map hwf hc] at hk
    cases hk
  | msg s =>
    refine ⟨s, rfl, ?_⟩
    unfold givenSpec at hk
    cases hg : findGiven (Cont.schemaName ⟨a, .msg s⟩) env.given with
    | none => rw [hg] at hk; cases hk
    | some spec =>
      rw [hg] at hk
      obtain ⟨g, hgm, hgn, hgs⟩ := findGiven_mem hg
      have hso := WF_splitOK hwf
      simp only [Env.splitOK, List.all_eq_true] at hso
      have := hso g hgm
      rw [hgs, ← hk] at this
      simp only [List.all_eq_true] at this
      have hsch : env.schemaOf g.schemaName = s := by
        rw [hgn]; exact (ContOK.schema_eq hc).symm
      rw [hsch] at this
      exact this

end J5V.Walker
