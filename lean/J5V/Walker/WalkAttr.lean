import J5V.Walker.KindProofs
/-!
# `setAttribute` ⇄ `setContainerFromScalar`: no panic with fuel ≥ 4 (`fuelOf env ≥ 8`)

The recursion follows the spec. `setAttribute_body` / `setContainerFromScalar_body` verify ONE level of each
function from hypotheses about the level below; then, without any induction:

* **P1** `setAttribute_leaf` (fuel ≥ 1): in the one-block scope of a container, along a path checked by
  `Env.splitOK`, the field reached is a scalar: no deeper call;
* **P2** `setContainerFromScalar_single` (fuel ≥ 2): a container in its own one-block scope — its split paths
  are those of `Env.splitOK` (`splitPaths_ok`), each set by P1;
* **P3** `setAttribute_spec` (fuel ≥ 3): any valid scope; a container field is entered through `childBlock`
  (a one-block scope) and set by P2;
* **P4** `setContainerFromScalar_spec` (fuel ≥ 4): any valid scope (the call of `finishTags`, where the
  names of the split paths are looked up in ALL blocks of the merged scope): each path is set by P3.

Errors: `PosIn S` — no position, or a position of `S`, for any `S` closed under hulls that contains the
spans of the value (`AVIn`) and of the reference.
-/
namespace J5V.Walker
open J5V.Bcl

/-- every span of the value (nested array elements included) is in `S` -/
inductive ValueIn (S : Span → Prop) : Value → Prop where
  | scalar (tok : Token) (sp : Span) : S sp → ValueIn S (.scalar tok sp)
  | array (vs : List Value) (sp : Span) : S sp → (∀ v, v ∈ vs → ValueIn S v) → ValueIn S (.array vs sp)

/-- every span an error about this value may carry is in `S` -/
def AVIn (S : Span → Prop) : AV → Prop
  | .value v => ValueIn S v
  | .tag t => S t.span
  | .str _ sp => S sp
  | .bool _ => S Span.zero

theorem AVIn.span {S : Span → Prop} {v : AV} (h : AVIn S v) : S v.span := by
  cases v with
  | value x => cases h with
    | scalar _ _ h => exact h
    | array _ _ h _ => exact h
  | tag t => exact h
  | str s sp => exact h
  | bool b => exact h

theorem AVIn.asArray {S : Span → Prop} {v : AV} {vs : List AV} (h : AVIn S v) (ha : v.asArray = some vs) :
    ∀ x, x ∈ vs → AVIn S x := by
  cases v with
  | value x =>
    cases h with
    | scalar _ _ _ => simp [AV.asArray] at ha
    | array xs sp _ hall =>
      cases xs with
      | nil => simp [AV.asArray] at ha
      | cons y ys =>
        simp only [AV.asArray, Option.some.injEq] at ha
        subst ha
        intro x hx
        simp only [List.mem_map] at hx
        obtain ⟨z, hz, rfl⟩ := hx
        exact hall z hz
  | tag t => simp [AV.asArray] at ha
  | str s sp => simp [AV.asArray] at ha
  | bool b => simp [AV.asArray] at ha

variable {env : Env}

/-- `appendValues`: a failing element is reported at its span -/
theorem appendValues_spec (S : Span → Prop) (arr : Addr) (item : FieldType) :
    ∀ vs : List AV, (∀ x, x ∈ vs → AVIn S x) →
      MSpec env (appendValues env arr item vs) (fun st => FieldOK env st ⟨arr, .arrayOfScalar item⟩)
        (fun _ _ _ => True) (PosIn S) := by
  intro vs
  induction vs with
  | nil => intro _; exact MSpec.pure (fun _ _ _ => trivial)
  | cons v rest ih =>
    intro hvs
    unfold appendValues
    cases hr : scalarFromAST env item v with
    | panic w => exact absurd hr (scalarFromAST_no_panic env item v w)
    | err e =>
      exact MSpec.wrapErr (((scalarFromAST_err_noPos hr).wrapped.posIn S).addPosition
        (hvs v List.mem_cons_self).span).posIn
    | ok s =>
      simp only
      apply MSpec.bind (post1 := fun _ _ st' => FieldOK env st' ⟨arr, .arrayOfScalar item⟩)
      · exact appendScalar_spec.weaken_err (fun e h => h.posIn S)
      · intro _ st0
        exact (ih (fun x hx => hvs x (List.mem_cons_of_mem _ hx))).weaken_pre (fun _ _ h => h.2.2.2)

theorem setAttribute_body (hwf : env.WF = true) (S : Span → Prop) (fuel : Nat) (sc : Scope) (path : PathSpec)
    (ref : List Ident) (val : AV) (app : Bool) (Pre : Node → Prop) (Q : Scope → Prop)
    (K : FieldKind → Prop) (hv : AVIn S val)
    (h1 : MSpec env (walkScope env sc (combinePath path ref).dropLast) Pre
      (fun ps _ st' => ScopeOK env st' ps ∧ Q ps) (PosIn S))
    (h2 : ∀ ps last, (combinePath path ref).getLast? = some last → Q ps →
      MSpec env (scopeField env ps last.name app) (fun st => ScopeOK env st ps)
        (fun f _ st' => FieldOK env st' f ∧ K f.kind) NoPos)
    (hlast : ∀ last p, (combinePath path ref).getLast? = some last → last.position = some p → S p)
    (h3 : ∀ s, K (.container s) → ∀ cf,
      MSpec env (setContainerFromScalar env fuel (Scope.newChild cf) cf.spec val)
        (fun st => ContainerFieldOK env st cf) (fun _ _ _ => True) (PosIn S)) :
    MSpec env (setAttribute env (fuel + 1) sc path ref val app) Pre (fun _ _ _ => True) (PosIn S) := by
  rw [setAttribute]
  simp only
  apply MSpec.ite
  · intro _; exact MSpec.throw ((NoPos_mk0 _ _).posIn S)
  · intro hne
    cases hl : (combinePath path ref).getLast? with
    | none =>
      exfalso
      rw [List.getLast?_eq_none_iff] at hl
      rw [hl] at hne; simp at hne
    | some last =>
      simp only
      apply MSpec.bind h1
      intro parentScope st0
      apply MSpec.of_pre (P := Q parentScope) (fun _ _ h => h.2.2.2.2)
      intro hQ
      apply MSpec.bind_from (pre0 := fun st => ScopeOK env st parentScope)
        (post1 := fun f _ st' => ScopeOK env st' parentScope ∧ FieldOK env st' f ∧ K f.kind)
        (fun _ _ h => h.2.2.2.1)
      · refine MSpec.tryCatch (e1 := NoPos) ?_ ?_
        · exact ((h2 parentScope last hl hQ).frame (R := fun st => ScopeOK env st parentScope)
            (fun _ _ h he => h.ext he)).conseq (fun _ _ h => ⟨h, h⟩)
            (fun _ _ _ _ _ _ _ h => ⟨h.2, h.1⟩) (fun _ h => h)
        · intro e he
          cases hp : last.position with
          | some pos =>
            exact MSpec.wrapErr ((he.wrapped.posIn S).addPosition (hlast last pos hl hp)).posIn
          | none => exact MSpec.throw (he.wrapped.posIn S)
      · intro field st1
        obtain ⟨fa, fk⟩ := field
        cases fk with
        | container s =>
          simp only
          apply MSpec.ite
          · intro _; exact MSpec.errAt (HasPosIn.mk hv.span _ _).posIn
          · intro _
            apply MSpec.of_pre (P := K (.container s)) (fun _ _ h => h.2.2.2.2.2)
            intro hK
            apply MSpec.bind_from (pre0 := fun st => ScopeOK env st parentScope)
              (fun _ _ h => h.2.2.2.1)
            · exact MSpec.tryCatch (childBlock_spec hwf parentScope last.name)
                (fun e he => MSpec.wrapErr ((he.wrapped.posIn S).addPosition hv.span).posIn)
            · intro cs st2
              apply MSpec.of_pre (P := cs = Scope.newChild cs.leaf) (fun _ _ h => h.2.2.2.2.1)
              intro hcs
              rw [hcs]
              exact (h3 s hK cs.leaf).weaken_pre (fun _ _ h => h.2.2.2.1.2.2.1)
        | arrayOfScalar item =>
          simp only
          cases hva : val.asArray with
          | some vs =>
            simp only
            apply MSpec.bind_from (pre0 := fun st => FieldOK env st ⟨fa, .arrayOfScalar item⟩)
              (fun _ _ h => h.2.2.2.2.1)
            · exact listLength_spec.weaken_err (fun _ h => h.posIn S)
            · intro len st2
              apply MSpec.ite
              · intro _; exact MSpec.errAt (HasPosIn.mk hv.span _ _).posIn
              · intro _
                exact (appendValues_spec S fa item vs (hv.asArray hva)).weaken_pre
                  (fun _ _ h => by rw [h.2.2.2]; exact h.2.1)
          | none =>
            cases app with
            | true =>
              simp only
              apply MSpec.bind_from (pre0 := fun st => FieldOK env st ⟨fa, .arrayOfScalar item⟩)
                (fun _ _ h => h.2.2.2.2.1)
              · exact listLength_spec.weaken_err (fun _ h => h.posIn S)
              · intro len st2
                apply MSpec.ite
                · intro _; exact MSpec.errAt (HasPosIn.mk hv.span _ _).posIn
                · intro _
                  exact (appendValues_spec S fa item [val] (by
                    intro x hx; simp only [List.mem_singleton] at hx; subst hx; exact hv)).weaken_pre
                    (fun _ _ h => by rw [h.2.2.2]; exact h.2.1)
            | false => exact MSpec.errAt (HasPosIn.mk hv.span _ _).posIn
        | scalar t pr =>
          simp only
          cases hva : val.asArray with
          | some vs => exact MSpec.errAt (HasPosIn.mk hv.span _ _).posIn
          | none =>
            cases app with
            | true => exact MSpec.errAt (HasPosIn.mk hv.span _ _).posIn
            | false =>
              simp only
              cases hr : scalarFromAST env t val with
              | panic w => exact absurd hr (scalarFromAST_no_panic env t val w)
              | err e =>
                exact MSpec.wrapErr (((scalarFromAST_err_noPos hr).wrapped.posIn S).addPosition hv.span).posIn
              | ok sv =>
                exact (storeScalar_spec (t := t) (presence := pr)).conseq (fun _ _ h => h.2.2.2.2.1)
                  (fun _ _ _ _ _ _ _ _ => trivial) (fun _ h => h.posIn S)
        | arrayOfContainer s =>
          simp only
          cases hva : val.asArray with
          | some vs => exact MSpec.errAt (HasPosIn.mk hv.span _ _).posIn
          | none =>
            cases app with
            | true => exact MSpec.errAt (HasPosIn.mk hv.span _ _).posIn
            | false => exact MSpec.errAt (HasPosIn.mk hv.span _ _).posIn
        | map n item =>
          simp only
          cases hva : val.asArray with
          | some vs => exact MSpec.errAt (HasPosIn.mk hv.span _ _).posIn
          | none =>
            cases app with
            | true => exact MSpec.errAt (HasPosIn.mk hv.span _ _).posIn
            | false => exact MSpec.errAt (HasPosIn.mk hv.span _ _).posIn
        | any =>
          simp only
          cases hva : val.asArray with
          | some vs => exact MSpec.errAt (HasPosIn.mk hv.span _ _).posIn
          | none =>
            cases app with
            | true => exact MSpec.errAt (HasPosIn.mk hv.span _ _).posIn
            | false => exact MSpec.errAt (HasPosIn.mk hv.span _ _).posIn

theorem forEach2_spec {f : PathSpec → AV → M Unit} {Inv : Node → Prop} {E : WErr → Prop}
    (hI : ∀ st st', Inv st → Ext env st st' → Inv st') :
    ∀ (ps : List PathSpec) (vs : List AV), vs.length ≤ ps.length →
      (∀ p, p ∈ ps → ∀ v, v ∈ vs → MSpec env (f p v) Inv (fun _ _ _ => True) E) →
      MSpec env (forEach2 f ps vs) Inv (fun _ _ st' => Inv st') E := by
  intro ps vs
  induction vs generalizing ps with
  | nil =>
    intro _ _
    cases ps <;> exact MSpec.pure (fun _ _ h => h)
  | cons v rest ih =>
    intro hlen hf
    cases ps with
    | nil => simp at hlen
    | cons p ps' =>
      rw [forEach2]
      apply MSpec.bind ((hf p List.mem_cons_self v List.mem_cons_self).inv hI)
      intro _ st0
      refine (ih ps' (by simpa using hlen) ?_).weaken_pre (fun _ _ h => h.2.2.2.2)
      intro p' hp' v' hv'
      exact hf p' (List.mem_cons_of_mem _ hp') v' (List.mem_cons_of_mem _ hv')

theorem allAsString_spec (S : Span → Prop) {Pre : Node → Prop} :
    ∀ vs : List AV, (∀ v, v ∈ vs → AVIn S v) →
      MSpec env (allAsString vs) Pre (fun _ st st' => st' = st) (PosIn S) := by
  intro vs
  induction vs with
  | nil => intro _; exact MSpec.pure (fun _ _ _ => rfl)
  | cons v rest ih =>
    intro hvs
    rw [allAsString]
    cases v.asString with
    | none => exact MSpec.errAt (HasPosIn.mk (hvs v List.mem_cons_self).span _ _).posIn
    | some s =>
      simp only
      apply MSpec.bind (ih (fun x hx => hvs x (List.mem_cons_of_mem _ hx)))
      intro ss st0
      exact MSpec.pure (fun _ _ h => h.2.2.2)

theorem setContainerFromScalar_body (S : Span → Prop) (hull : ∀ a b, S a → S b → S ⟨a.start, b.end_⟩)
    (fuel : Nat) (sc : Scope) (bs : BlockSpec) (val : AV) (Inv : Node → Prop)
    (hI : ∀ st st', Inv st → Ext env st st' → Inv st') (hv : AVIn S val)
    (hA : ∀ ss, bs.scalarSplit = some ss → ∀ p, p ∈ ss.paths → ∀ v', AVIn S v' →
      MSpec env (setAttribute env fuel sc p [] v' false) Inv (fun _ _ _ => True) (PosIn S)) :
    MSpec env (setContainerFromScalar env (fuel + 1) sc bs val) Inv (fun _ _ _ => True) (PosIn S) := by
  rw [setContainerFromScalar]
  cases hss : bs.scalarSplit with
  | none => exact MSpec.throw ((NoPos_mk0 _ _).posIn S)
  | some ss =>
    simp only
    have hA' := hA ss hss
    have hreq : ∀ p, p ∈ ss.required → p ∈ ss.paths := fun p hp => by
      simp only [ScalarSplit.paths, List.mem_append]; exact .inl (.inl hp)
    have hopt : ∀ p, p ∈ ss.optional → p ∈ ss.paths := fun p hp => by
      simp only [ScalarSplit.paths, List.mem_append]; exact .inl (.inr hp)
    apply MSpec.bind (post1 := fun vs st st' => Inv st' ∧ ∀ v, v ∈ vs → AVIn S v)
    · -- setVals0
      cases ss.delimiter with
      | some delim =>
        simp only
        cases val.asString with
        | none => exact MSpec.errAt (HasPosIn.mk hv.span _ _).posIn
        | some strVal =>
          refine MSpec.pure (fun _ _ h => ⟨h, ?_⟩)
          intro v hv'
          simp only [List.mem_map] at hv'
          obtain ⟨s', _, rfl⟩ := hv'
          exact hv.span
      | none =>
        simp only
        cases hva : val.asArray with
        | none => exact MSpec.throw ((NoPos_mk0 _ _).posIn S)
        | some vs => exact MSpec.pure (fun _ _ h => ⟨h, hv.asArray hva⟩)
    · intro setVals0 st0
      apply MSpec.of_pre (P := ∀ v, v ∈ setVals0 → AVIn S v) (fun _ _ h => h.2.2.2.2)
      intro hvs0
      generalize hsv : (if ss.rightToLeft = true then setVals0.reverse else setVals0) = setVals
      have hvs : ∀ v, v ∈ setVals → AVIn S v := by
        intro v hv'
        rw [← hsv] at hv'
        split at hv'
        · exact hvs0 v (List.mem_reverse.mp hv')
        · exact hvs0 v hv'
      apply MSpec.ite
      · intro _; exact MSpec.throw ((NoPos_mk0 _ _).posIn S)
      · intro hlen
        have hlen' : ss.required.length ≤ setVals.length := Nat.le_of_not_lt hlen
        have hrem : ∀ v, v ∈ List.drop ss.required.length setVals → AVIn S v :=
          fun v h => hvs v (List.mem_of_mem_drop h)
        generalize List.drop ss.required.length setVals = remaining at hrem ⊢
        apply MSpec.bind_from (pre0 := Inv) (post1 := fun _ _ st' => Inv st') (fun _ _ h => h.2.2.2.1)
        · apply forEach2_spec hI
          · simp [List.length_take]; omega
          · intro p hp v hv'
            exact hA' p (hreq p hp) v (hvs v (List.mem_of_mem_take hv'))
        · intro _ st1
          apply MSpec.ite
          · intro _; exact MSpec.pure (fun _ _ _ => trivial)
          · intro _
            have hopt_mem : ∀ v, v ∈ (if remaining.length > ss.optional.length then
                List.take ss.optional.length remaining else remaining) → AVIn S v := by
              intro v h
              split at h
              · exact hrem v (List.mem_of_mem_take h)
              · exact hrem v h
            have hopt_len : (if remaining.length > ss.optional.length then
                List.take ss.optional.length remaining else remaining).length ≤ ss.optional.length := by
              split
              · simp [List.length_take]; omega
              · omega
            have hrem2 : ∀ v, v ∈ (if remaining.length > ss.optional.length then
                List.drop ss.optional.length remaining else []) → AVIn S v := by
              intro v h
              split at h
              · exact hrem v (List.mem_of_mem_drop h)
              · cases h
            generalize (if remaining.length > ss.optional.length then
                List.take ss.optional.length remaining else remaining) = optional at hopt_mem hopt_len ⊢
            generalize (if remaining.length > ss.optional.length then
                List.drop ss.optional.length remaining else []) = remaining2 at hrem2 ⊢
            apply MSpec.bind_from (pre0 := Inv) (post1 := fun _ _ st' => Inv st') (fun _ _ h => h.2.2.2)
            · apply forEach2_spec hI _ _ hopt_len
              intro p hp v hv'
              exact hA' p (hopt p hp) v (hopt_mem v hv')
            · intro _ st2
              apply MSpec.ite
              · intro _; exact MSpec.pure (fun _ _ _ => trivial)
              · intro hne
                cases hrm : ss.remainder with
                | none => exact MSpec.throw ((NoPos_mk0 _ _).posIn S)
                | some remainder =>
                  simp only
                  have hrem3 : ∀ v, v ∈ (if ss.rightToLeft = true then remaining2.reverse else remaining2) →
                      AVIn S v := by
                    intro v h
                    split at h
                    · exact hrem2 v (List.mem_reverse.mp h)
                    · exact hrem2 v h
                  have hne3 : (if ss.rightToLeft = true then remaining2.reverse else remaining2) ≠ [] := by
                    have : remaining2 ≠ [] := by simpa using hne
                    split
                    · simpa using this
                    · exact this
                  generalize (if ss.rightToLeft = true then remaining2.reverse else remaining2) = remaining3
                    at hrem3 hne3 ⊢
                  apply MSpec.bind_from (pre0 := Inv) (post1 := fun _ st st' => st' = st)
                    (fun _ _ h => h.2.2.2)
                  · exact allAsString_spec S remaining3 hrem3
                  · intro remainingStr st3
                    cases remaining3 with
                    | nil => exact absurd rfl hne3
                    | cons first rest =>
                      obtain ⟨last, hlast⟩ : ∃ last, (first :: rest).getLast? = some last :=
                        ⟨_, List.getLast?_eq_some_getLast (by simp)⟩
                      have hlm : last ∈ first :: rest := List.mem_of_getLast? hlast
                      simp only [List.head?_cons, hlast]
                      refine (hA' remainder ?_ _ ?_).weaken_pre (fun _ _ h => by rw [h.2.2.2]; exact h.2.1)
                      · simp [ScalarSplit.paths, hrm]
                      · exact hull _ _ (hrem3 first List.mem_cons_self).span (hrem3 last hlm).span

theorem combinePath_nil (path : PathSpec) :
    combinePath path [] = path.map (fun n => (⟨n, none⟩ : PathElement)) := by
  simp [combinePath]

/-- **P1**: an attribute along a path that `Env.splitOK` checked, in the one-block scope of the
container: ends at a scalar field, no recursion — fuel 1 is enough -/
theorem setAttribute_leaf (hwf : env.WF = true) (S : Span → Prop) (fuel : Nat) (cf : ContainerField)
    (path : PathSpec) (val : AV) (hv : AVIn S val)
    (hp : splitPathOK env cf.container.kind path = true) :
    MSpec env (setAttribute env (fuel + 1) (Scope.newChild cf) path [] val false)
      (fun st => ContainerFieldOK env st cf) (fun _ _ _ => True) (PosIn S) := by
  obtain ⟨lastn, k', t, pr, hgl, hwk, hfk⟩ := (splitPathOK_iff env _ _).mp hp
  have hdl : (combinePath path []).dropLast = path.dropLast.map (fun n => (⟨n, none⟩ : PathElement)) := by
    rw [combinePath_nil, List.dropLast_eq_take, List.dropLast_eq_take, List.map_take, List.length_map]
  have hgl' : (combinePath path []).getLast? = some ⟨lastn, none⟩ := by
    rw [combinePath_nil, List.getLast?_map, hgl]; rfl
  apply setAttribute_body hwf S fuel _ path [] val false _
    (fun ps => ps = Scope.newChild ps.leaf ∧ ps.leaf.container.kind = k')
    (fun k => ∃ t pr, k = .scalar t pr) hv
  · rw [hdl]
    refine (walkScope_single_spec hwf path.dropLast cf).conseq (fun _ _ h => h) ?_ (fun _ h => h.posIn S)
    rintro ps st st' _ _ _ _ ⟨h1, h2, h3⟩
    rw [hwk] at h3
    refine ⟨?_, h2, (Option.some.inj h3).symm⟩
    rw [h2]; exact ScopeOK.newChild h1
  · intro ps last hl ⟨hps, hk⟩
    rw [hgl'] at hl
    cases hl
    rw [hps]
    refine (scopeField_single_spec hwf ps.leaf lastn false).conseq (fun _ _ h => h.2.2.1) ?_ (fun _ h => h)
    rintro f st st' _ _ _ _ ⟨h1, h2⟩
    refine ⟨h1, t, pr, ?_⟩
    rw [hk, hfk] at h2
    exact (Option.some.inj h2).symm
  · intro last p hl hpos
    rw [hgl'] at hl; cases hl; cases hpos
  · rintro s ⟨t, pr, h⟩; cases h

/-- **P2**: a container set from a scalar, in its own one-block scope: fuel 2 is enough -/
theorem setContainerFromScalar_single (hwf : env.WF = true) (S : Span → Prop)
    (hull : ∀ a b, S a → S b → S ⟨a.start, b.end_⟩) (fuel : Nat) (cf : ContainerField) (val : AV)
    (hv : AVIn S val) :
    MSpec env (setContainerFromScalar env (fuel + 2) (Scope.newChild cf) cf.spec val)
      (fun st => ContainerFieldOK env st cf) (fun _ _ _ => True) (PosIn S) := by
  apply MSpec.of_pre
    (P := ∀ ss, cf.spec.scalarSplit = some ss → ∀ p, p ∈ ss.paths →
      splitPathOK env cf.container.kind p = true)
  · intro st _ h ss hss p hp
    obtain ⟨s, hk, hall⟩ := splitPaths_ok hwf h hss
    rw [hk]; exact hall p hp
  · intro hsplit
    apply setContainerFromScalar_body S hull (fuel + 1) _ _ val _ (fun _ _ h he => h.ext he) hv
    intro ss hss p hp v' hv'
    exact setAttribute_leaf hwf S fuel cf p v' hv' (hsplit ss hss p hp)

/-- **P3**: `setAttribute` in any valid scope: fuel 3 is enough -/
theorem setAttribute_spec (hwf : env.WF = true) (S : Span → Prop)
    (hull : ∀ a b, S a → S b → S ⟨a.start, b.end_⟩) (fuel : Nat) (sc : Scope) (path : PathSpec)
    (ref : List Ident) (val : AV) (app : Bool) (hv : AVIn S val) (hS : ∀ i, i ∈ ref → S i.span) :
    MSpec env (setAttribute env (fuel + 3) sc path ref val app)
      (fun st => ScopeOK env st sc) (fun _ _ _ => True) (PosIn S) := by
  have hpos := combinePath_positions (S := S) (path := path) hS
  apply setAttribute_body hwf S (fuel + 2) sc path ref val app _ (fun _ => True) (fun _ => True) hv
  · refine (walkScope_spec hwf S _ sc ?_).conseq (fun _ _ h => h) (fun _ _ _ _ _ _ _ h => ⟨h.1, trivial⟩)
      (fun _ h => h)
    intro el hel
    exact hpos el ((List.dropLast_sublist _).subset hel)
  · intro ps last _ _
    exact (scopeField_spec hwf ps last.name app).conseq (fun _ _ h => h)
      (fun _ _ _ _ _ _ _ h => ⟨h.1, trivial⟩) (fun _ h => h)
  · intro last p hl hp
    exact hpos last (List.mem_of_getLast? hl) p hp
  · intro s _ cf
    exact setContainerFromScalar_single hwf S hull fuel cf val hv

/-- **P4**: `setContainerFromScalar` in any valid scope (the call of `finishTags`): fuel 4 is enough -/
theorem setContainerFromScalar_spec (hwf : env.WF = true) (S : Span → Prop)
    (hull : ∀ a b, S a → S b → S ⟨a.start, b.end_⟩) (fuel : Nat) (sc : Scope) (bs : BlockSpec) (val : AV)
    (hv : AVIn S val) :
    MSpec env (setContainerFromScalar env (fuel + 4) sc bs val)
      (fun st => ScopeOK env st sc) (fun _ _ _ => True) (PosIn S) := by
  apply setContainerFromScalar_body S hull (fuel + 3) sc bs val _ (fun _ _ h he => h.ext he) hv
  intro ss _ p _ v' hv'
  exact setAttribute_spec hwf S hull fuel sc p [] v' false hv' (fun _ h => by cases h)

/-- the fuel `Walk.lean` passes is enough -/
theorem fuelOf_ge (env : Env) : ∃ n, fuelOf env = n + 4 :=
  ⟨2 * env.given.length + env.schemas.length + 4, by unfold fuelOf; omega⟩
end J5V.Walker
