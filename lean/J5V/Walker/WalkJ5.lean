import J5V.Walker.WFj5
import J5V.Walker.WalkMain
/-!
# The walker theorems for the j5 environment and the file stub

`walkSchema j5Env body (stub j5Env filename)` is what the driver (and `ParseAST` minus `validateFile`)
runs after parsing.
-/
namespace J5V.Walker
open J5V.Bcl

def Res.isOk {α : Type} : Res α → Bool
  | .ok _ => true
  | _ => false

theorem j5EnvNF_root_walker : (newRootSchemaWalker j5EnvNF).isOk = true := by decide +kernel

/-- the spec of the j5 root schema builds -/
theorem j5Env_root_walker (e : WErr) : newRootSchemaWalker j5Env ≠ .err e := by
  have := j5EnvNF_root_walker
  rw [← j5Env_nf] at this
  intro h; rw [h] at this; cases this

/-- the stub of a j5s file is a well-typed `SourceFile` -/
theorem j5_stub_treeOK (filename : Str) : TreeOK j5Env (stub j5Env filename) :=
  stub_treeOK j5Env_WF filename

/-- **C07W for j5s files**: the walk of parsed statements over the stub never panics -/
theorem C07W_j5_walk_no_panic (filename : Str) (body : List Statement) (hb : bodyTypesOK body = true)
    (why : String) : walkSchema j5Env body (stub j5Env filename) ≠ .panic why :=
  C07W_walk_no_panic j5Env_WF (j5_stub_treeOK filename) body hb why

/-- **C07W for j5s files**: every error carries a span between two positions of the statements (or `0:0`) -/
theorem C07W_j5_walk_error_position (filename : Str) (body : List Statement) (hb : bodyTypesOK body = true)
    {e : WErr} (h : walkSchema j5Env body (stub j5Env filename) = .err e) :
    ∃ sp, e.pos = some sp ∧ BodyPos body sp.start ∧ BodyPos body sp.end_ :=
  C07W_walk_error_position j5Env_WF (j5_stub_treeOK filename) body hb h (j5Env_root_walker e)

/-- **C07W for j5s files**: a successful walk returns a well-typed `SourceFile` that extends the stub -/
theorem C07W_j5_walk_ok (filename : Str) (body : List Statement) (hb : bodyTypesOK body = true)
    {tree : Node} (h : walkSchema j5Env body (stub j5Env filename) = .ok tree) :
    TreeOK j5Env tree ∧ Ext j5Env (stub j5Env filename) tree :=
  C07W_walk_ok j5Env_WF (j5_stub_treeOK filename) body hb h

end J5V.Walker
