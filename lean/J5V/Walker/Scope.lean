import J5V.Walker.Spec
/-!
# Package `schema`: `containerField`, `Scope` (`container_field.go`, `scope.go`) — walker-semantics §6

A `containerField` is a container (ADDRESS into the tree + schema) with its block spec; a `Scope` is
the list of containers searched for a name (`blockSet`, index 0 = outermost / oldest first), the
leaf and the root. Go shares slices between scopes but only ever extends a `blockSet` by `append`
into a NEW scope: immutable lists are exact (semantics §6.1).

Not modelled: source locations (`location`, `childSourceLocation`, `wrap`), `path`, `name`,
`transparentPath`, `isRoot` (text / logging / written but never read) and the text fields of
`WalkPathError` (`Available` = `listBlocks()` / `listChildren()` → `allChildFields`, pure).

Partial operations (explicit arms): `visitedFields[0]` in `walkToChild`, `popLast(spec.Path)` in
`field`; both are guarded in Go by construction / by the preceding length test.
-/
namespace J5V.Walker

/-- `schema.containerField` -/
structure ContainerField where
  schemaName : Str
  container : Cont
  spec : BlockSpec
  deriving Repr, Inhabited

/-- `schema.Scope`; `root = none` is Go's nil `rootBlock` (only after `TailScope`) -/
structure Scope where
  blockSet : List ContainerField
  leaf : ContainerField
  root : Option ContainerField
  deriving Repr, Inhabited

/-- `SchemaSet.wrapContainer(node, …)` -/
def wrapContainer (env : Env) (c : Cont) : Res ContainerField :=
  match specOf env c with
  | .ok spec => .ok ⟨c.schemaName, c, spec⟩
  | .err e => .err e
  | .panic w => .panic w

/-- `NewRootSchemaWalker(ss, root, loc)`; `root` = `refl.NewObject(msg)`: the root message with a
fresh propSet (`loc == nil` cannot happen: ParseAST passes `&SourceLocation{}`) -/
def newRootSchemaWalker (env : Env) : Res Scope :=
  match wrapContainer env ⟨[], .msg (env.schemaOf env.root)⟩ with
  | .ok c => .ok ⟨[c], c, some c⟩
  | .err e => .err e
  | .panic w => .panic w

/-- `Scope.newChild(container, true)` (the `false` variant is never used) -/
def Scope.newChild (c : ContainerField) : Scope := ⟨[c], c, some c⟩

/-- `Scope.MergeScope(other)` -/
def Scope.mergeScope (sw other : Scope) : Scope := ⟨sw.blockSet ++ other.blockSet, other.leaf, sw.root⟩

/-- `Scope.TailScope()`: `rootBlock` stays nil -/
def Scope.tailScope (sw : Scope) : Scope := ⟨[sw.leaf], sw.leaf, none⟩

/-- `Scope.findBlock(name)`: block by block, oldest first; in each block the alias BEFORE the property -/
def findBlock (name : Str) : List ContainerField → Option (ContainerField × PathSpec)
  | [] => none
  | b :: rest =>
    match aliasLookup name b.spec.aliases with
    | some path => some (b, path)
    | none =>
      if b.container.hasProperty name then some (b, [name])
      else findBlock name rest

/-- `containerField.walkPath(path, loc)`: the visited containers, LEAF FIRST. Each array of containers
on the way gets a NEW element. The children carry no spec yet (`walkToChild` sets it). -/
def walkPath (env : Env) (c : ContainerField) : List Str → M (List ContainerField)
  | [] => M.err (.mk0 "walkPath: empty path" .unknownPath)
  | name :: rest =>
    if !c.container.hasProperty name then M.err (.mk0 "no-field: node not found in schema" .nodeNotFound)
    else do
      -- err → unexpectedPathError(name, err)
      let val ← (c.container.value env name false).mapErr fun e => { e with kind := .unknownPath }
      let child ← (match val.kind with
        | .arrayOfContainer s => newContainerElement val.addr s
        | .container s => pure ⟨val.addr, .msg s⟩
        | .map n item => pure ⟨val.addr, .map n item⟩
        | _ => M.err (.mk0 "not-container: node is not a container" .nodeNotContainer) : M Cont)
      let childContainer : ContainerField := ⟨child.schemaName, child, BlockSpec.empty⟩
      if rest.isEmpty then pure [childContainer]
      else do
        let endField ← walkPath env childContainer rest
        pure (endField ++ [childContainer])

/-- the loop of `walkToChild`: `field.spec = *blockSpec(field.container)` for every visited container;
a failure becomes `unexpectedPathError(field.name, err)` -/
def setSpecs (env : Env) : List ContainerField → Res (List ContainerField)
  | [] => .ok []
  | f :: rest =>
    match specOf env f.container with
    | .err e => .err { e with kind := .unknownPath }
    | .panic w => .panic w
    | .ok spec =>
      match setSpecs env rest with
      | .ok rest' => .ok ({ f with spec := spec } :: rest')
      | .err e => .err e
      | .panic w => .panic w

/-- `Scope.walkToChild(block, path, loc)` -/
def walkToChild (env : Env) (block : ContainerField) (path : PathSpec) : M ContainerField :=
  if path.isEmpty then pure block
  else do
    let visited ← walkPath env block path
    let visited' ← M.lift (setSpecs env visited)
    match visited' with
    | [] => M.panic "index out of range [0] (visitedFields[0])"
    | mainField :: _ => pure mainField

/-- `Scope.ChildBlock(name, loc)` -/
def childBlock (env : Env) (sw : Scope) (name : Str) : M Scope :=
  match findBlock name sw.blockSet with
  | none => M.err (.mk0 "root-not-found: no such block" .rootNotFound)
  | some (root, path) => do
    let container ← walkToChild env root path
    pure (Scope.newChild container)

/-- `Scope.field(name, loc, existingIsOk)` (= `Scope.Field`) -/
def scopeField (env : Env) (sw : Scope) (name : Str) (existingIsOk : Bool) : M Field :=
  match findBlock name sw.blockSet with
  | none => M.err (.mk0 "root-not-found: no such attribute" .rootNotFound)
  | some (root, path) =>
    if path.isEmpty then M.err (.mk0 "empty path, spec issue" .unknownPath)
    else
      match path.getLast? with
      | none => M.panic "index out of range [-1] (popLast)"
      | some final => do
        let parentScope ← walkToChild env root path.dropLast
        if !parentScope.container.hasProperty final then
          M.err (.mk0 "no-field: alias path ends outside the schema" .nodeNotFound)
        else
          -- getOrSetValue / newValue; err → &WalkPathError{Type: UnknownPathError, Err: err}
          (parentScope.container.value env final (!existingIsOk)).mapErr
            fun e => { e with kind := .unknownPath }

end J5V.Walker
