import J5V.Bcl.ParseFileProofs
import J5V.Bcl.PosLines
import J5V.Bcl.FragWFProofs
import J5V.Bcl.PreserveProofs
import J5V.Walker.WalkJ5
/-!
# The parser's output meets the hypotheses of the walker theorems

The walker theorems (`WalkMain.lean`, `WalkJ5.lean`) speak about an arbitrary statement list `body` with
`bodyTypesOK body` (every block type reference has an ident) and give error positions in terms of
`BodyPos body`. Here `body` is tied to the parser model: for `parseFile cls src ff = .tree f`

* `parseFile_bodyTypesOK`: `bodyTypesOK f.body = true` — every block header of the tree is the header of a
  `.header` fragment (`fragmentsToFile_headers`, a general lemma about `fragsLoop` / `closeInto` /
  `closeAll`), and a header fragment of an accepted source has a non-empty type reference
  (`collectFragments_fragWF`: `popReference` pops at least one ident before `newReference`);
* `parseFile_stmtIn`: `StmtIn (InFileLC src) s` for every statement: every span the walker can put on an
  error is `start`/`end` inside the file (`C11`'s `Statement.okList (InFileLC src) f.body`; `Statement.ok`
  covers every span `StmtIn` asks for — nothing was missing);
* `parseFile_bodyPos`: `BodyPos f.body p → InFileLC src p`.
-/
namespace J5V.Walker
open J5V.Bcl

/-! ## every block header of `fragmentsToFile frags` is the header of a `.header` fragment -/

mutual
/-- `H` holds for the header of the statement if it is a block, and for every block below it -/
def stmtHeaders (H : BlockHeader → Prop) : Statement → Prop
  | .block h body => H h ∧ bodyHeaders H body
  | .assign _ => True
  | .desc _ => True
/-- `H` holds for the header of every block of the body, nested bodies included -/
def bodyHeaders (H : BlockHeader → Prop) : List Statement → Prop
  | [] => True
  | s :: ss => stmtHeaders H s ∧ bodyHeaders H ss
end

section
variable (H : BlockHeader → Prop)

theorem bodyHeaders_append (a b : List Statement) (ha : bodyHeaders H a) (hb : bodyHeaders H b) :
    bodyHeaders H (a ++ b) := by
  induction a with
  | nil => exact hb
  | cons v vs ih =>
    unfold bodyHeaders at ha
    show bodyHeaders H (v :: (vs ++ b))
    unfold bodyHeaders
    exact ⟨ha.1, ih ha.2⟩

theorem bodyHeaders_snoc (a : List Statement) (s : Statement) (ha : bodyHeaders H a)
    (hs : stmtHeaders H s) : bodyHeaders H (a ++ [s]) :=
  bodyHeaders_append H a [s] ha (by unfold bodyHeaders; exact ⟨hs, by unfold bodyHeaders; trivial⟩)

/-- an open block of the stack: its header and the statements collected so far -/
def openHeaders (b : OpenBlock) : Prop := H b.hdr ∧ bodyHeaders H b.stmts

theorem block_headers {h : BlockHeader} {body : List Statement} (hh : H h) (hb : bodyHeaders H body) :
    stmtHeaders H (.block h body) := by
  unfold stmtHeaders; exact ⟨hh, hb⟩

theorem closeInto_headers (root : List Statement) (hroot : bodyHeaders H root) :
    ∀ (stack : List OpenBlock) (blk : Statement), stmtHeaders H blk →
      (∀ b ∈ stack, openHeaders H b) → bodyHeaders H (closeInto root blk stack) := by
  intro stack
  induction stack with
  | nil => intro blk hb _; exact bodyHeaders_snoc H root blk hroot hb
  | cons p rest ih =>
    intro blk hb hs
    unfold closeInto
    have hp := hs p (by simp)
    exact ih _ (block_headers H hp.1 (bodyHeaders_snoc H _ _ hp.2 hb))
      (fun b hbm => hs b (by simp [hbm]))

theorem closeAll_headers (root : List Statement) (hroot : bodyHeaders H root)
    (stack : List OpenBlock) (hs : ∀ b ∈ stack, openHeaders H b) :
    bodyHeaders H (closeAll root stack) := by
  cases stack with
  | nil => exact hroot
  | cons b rest =>
    unfold closeAll
    have hb := hs b (by simp)
    exact closeInto_headers H root hroot rest _ (block_headers H hb.1 hb.2)
      (fun x hx => hs x (by simp [hx]))

theorem fragsLoop_headers : ∀ (frags : List Fragment) (root : List Statement) (stack : List OpenBlock)
    (errs : List Diag), (∀ h, Fragment.header h ∈ frags → H h) → bodyHeaders H root →
    (∀ b ∈ stack, openHeaders H b) →
    bodyHeaders H (fragsLoop frags root stack errs).1 ∧
      (∀ b ∈ (fragsLoop frags root stack errs).2.1, openHeaders H b) := by
  intro frags
  induction frags with
  | nil => intro root stack errs _ h1 h2; exact ⟨h1, h2⟩
  | cons f fs ih =>
    intro root stack errs hf hroot hstack
    have hfs : ∀ h, Fragment.header h ∈ fs → H h := fun x hx => hf x (by simp [hx])
    -- adding a finished statement to the innermost open block (or the root)
    have hadd : ∀ s, stmtHeaders H s →
        bodyHeaders H (match stack with
          | [] => (root ++ [s], ([] : List OpenBlock))
          | b :: rest => (root, ⟨b.hdr, b.stmts ++ [s]⟩ :: rest)).1 ∧
        ∀ b ∈ (match stack with
          | [] => (root ++ [s], ([] : List OpenBlock))
          | b :: rest => (root, ⟨b.hdr, b.stmts ++ [s]⟩ :: rest)).2, openHeaders H b := by
      intro s hs
      cases stack with
      | nil => exact ⟨bodyHeaders_snoc H _ _ hroot hs, fun b hb => by cases hb⟩
      | cons b rest =>
        refine ⟨hroot, ?_⟩
        intro x hx
        rcases List.mem_cons.mp hx with rfl | hx
        · have hb := hstack b (by simp)
          exact ⟨hb.1, bodyHeaders_snoc H _ _ hb.2 hs⟩
        · exact hstack x (by simp [hx])
    unfold fragsLoop
    cases f with
    | header h =>
      have hf0 : H h := hf h (by simp)
      simp only []
      split
      · apply ih _ _ _ hfs hroot _
        intro b hb
        rcases List.mem_cons.mp hb with rfl | hb
        · exact ⟨hf0, by unfold bodyHeaders; trivial⟩
        · exact hstack b hb
      · have := hadd (.block h []) (block_headers H hf0 (by unfold bodyHeaders; trivial))
        exact ih _ _ _ hfs this.1 this.2
    | assign a =>
      simp only []
      have := hadd (.assign a) (by unfold stmtHeaders; trivial)
      exact ih _ _ _ hfs this.1 this.2
    | desc d =>
      simp only []
      have := hadd (.desc d) (by unfold stmtHeaders; trivial)
      exact ih _ _ _ hfs this.1 this.2
    | comment c => exact ih _ _ _ hfs hroot hstack
    | close c =>
      simp only []
      cases stack with
      | nil =>
        simp only []
        exact ih _ _ _ hfs hroot hstack
      | cons b rest =>
        simp only []
        have hb := hstack b (by simp)
        cases rest with
        | nil =>
          simp only []
          exact ih _ _ _ hfs (bodyHeaders_snoc H _ _ hroot (block_headers H hb.1 hb.2))
            (fun x hx => by cases hx)
        | cons p rest' =>
          simp only []
          have hp := hstack p (by simp)
          apply ih _ _ _ hfs hroot _
          intro x hx
          rcases List.mem_cons.mp hx with rfl | hx
          · exact ⟨hp.1, bodyHeaders_snoc H _ _ hp.2 (block_headers H hb.1 hb.2)⟩
          · exact hstack x (by simp [hx])

/-- **headers of the tree are headers of fragments**: a predicate that holds for the header of every
`.header` fragment holds for the header of every block of `fragmentsToFile frags`, at any depth -/
theorem fragmentsToFile_headers (frags : List Fragment) (hf : ∀ h, Fragment.header h ∈ frags → H h) :
    bodyHeaders H (fragmentsToFile frags).body := by
  have := fragsLoop_headers H frags [] [] [] hf (by unfold bodyHeaders; trivial)
    (fun b hb => by cases hb)
  unfold fragmentsToFile
  generalize fragsLoop frags [] [] [] = res at this ⊢
  obtain ⟨root, stack, errs⟩ := res
  simp only at this ⊢
  exact closeAll_headers H root this.1 stack this.2

end

mutual
theorem statementTypesOK_of_headers : ∀ s : Statement,
    stmtHeaders (fun h => h.type.idents ≠ []) s → statementTypesOK s = true
  | .desc _, _ => rfl
  | .assign _, _ => rfl
  | .block h body, hs => by
    unfold stmtHeaders at hs
    simp only [statementTypesOK, Bool.and_eq_true, Bool.not_eq_true', List.isEmpty_eq_false_iff]
    exact ⟨hs.1, bodyTypesOK_of_headers body hs.2⟩
theorem bodyTypesOK_of_headers : ∀ body : List Statement,
    bodyHeaders (fun h => h.type.idents ≠ []) body → bodyTypesOK body = true
  | [], _ => rfl
  | s :: ss, hb => by
    unfold bodyHeaders at hb
    simp only [bodyTypesOK, Bool.and_eq_true]
    exact ⟨statementTypesOK_of_headers s hb.1, bodyTypesOK_of_headers ss hb.2⟩
end

/-- **the parser's trees have no empty block type reference** (both modes, every classifier, every
source): the hypothesis `bodyTypesOK` of the walker theorems holds for every `parseFile` tree -/
theorem parseFile_bodyTypesOK (cls : Cls) (src : List Rune) (ff : Bool) (f : File)
    (h : parseFile cls src ff = .tree f) : bodyTypesOK f.body = true := by
  obtain ⟨f1, h1, hb1⟩ := parseFile_tree_true cls src ff f h
  obtain ⟨ts, frags, hts, hwk, hf1, _⟩ := parseFile_true_inv cls src f1 h1
  have hcf := collectFragments_of cls src ts frags [] hts hwk
  have hwf := collectFragments_fragWF cls src frags hcf
  rw [← hb1, hf1]
  apply bodyTypesOK_of_headers
  apply fragmentsToFile_headers
  intro hd hmem
  have : HeaderWF cls hd := hwf _ hmem
  exact this.1.1

/-! ## `Statement.ok Q` (C11) gives `StmtIn Q` (walker) -/

section
variable {Q : Pos → Prop}

theorem spanOf_of_pair {s e : Pos} (h : PosPairOK Q s e) : SpanOf Q ⟨s, e⟩ := ⟨h.2.1, h.2.2⟩

theorem spanOf_of_ok {sp : Span} (h : Span.ok Q sp) : SpanOf Q sp := ⟨h.2.1, h.2.2⟩

mutual
theorem valueIn_of_ok : ∀ v : Value, Value.ok Q v → J5V.Walker.ValueIn (SpanOf Q) v
  | .scalar tok sp, h => by
    unfold Value.ok at h
    exact .scalar tok sp (spanOf_of_ok h.2)
  | .array vs sp, h => by
    unfold Value.ok at h
    exact .array vs sp (spanOf_of_ok h.2) (valuesIn_of_ok vs h.1)
theorem valuesIn_of_ok : ∀ vs : List Value, Value.okList Q vs →
    ∀ v, v ∈ vs → J5V.Walker.ValueIn (SpanOf Q) v
  | [], _, _, hv => nomatch hv
  | x :: xs, h, v, hv => by
    unfold Value.okList at h
    rcases List.mem_cons.mp hv with hx | hv
    · rw [hx]; exact valueIn_of_ok x h.1
    · exact valuesIn_of_ok xs h.2 v hv
end

theorem tagIn_of_ok {t : TagValue} (h : TagValue.ok Q t) : J5V.Walker.TagIn Q t :=
  ⟨spanOf_of_ok h.2.2.2, fun ref href i hi => spanOf_of_ok ((h.2.1 ref href).1 i hi).2⟩

theorem headerIn_of_ok {h : BlockHeader} (hh : BlockHeader.ok Q h) (hne : h.type.idents ≠ []) :
    HeaderIn Q h where
  typeNonempty := hne
  typeIdents := fun i hi => spanOf_of_ok (hh.1.1 i hi).2
  typeEnd := hh.1.2.2.2
  tags := fun t ht => tagIn_of_ok (hh.2.1 t ht)
  qualifiers := fun t ht => tagIn_of_ok (hh.2.2.1 t ht)
  description := fun d hd => spanOf_of_ok (hh.2.2.2.1 d hd).2
  span := spanOf_of_pair hh.2.2.2.2.1

mutual
theorem stmtIn_of_ok : ∀ s : Statement, Statement.ok Q s → statementTypesOK s = true → StmtIn Q s
  | .desc d, h, _ => by
    unfold Statement.ok at h
    exact .desc d (spanOf_of_ok h.2)
  | .assign a, h, _ => by
    unfold Statement.ok at h
    exact .assign a (spanOf_of_pair h.2.2.1) (fun i hi => spanOf_of_ok (h.1.1 i hi).2)
      (valueIn_of_ok a.value h.2.1)
  | .block hd body, h, ht => by
    unfold Statement.ok at h
    simp only [statementTypesOK, Bool.and_eq_true, Bool.not_eq_true', List.isEmpty_eq_false_iff] at ht
    exact .block hd body (headerIn_of_ok h.1 ht.1) (bodyIn_of_ok body h.2 ht.2)
theorem bodyIn_of_ok : ∀ body : List Statement, Statement.okList Q body → bodyTypesOK body = true →
    ∀ s, s ∈ body → StmtIn Q s
  | [], _, _, _, hs => nomatch hs
  | x :: xs, h, ht, s, hs => by
    unfold Statement.okList at h
    simp only [bodyTypesOK, Bool.and_eq_true] at ht
    rcases List.mem_cons.mp hs with hx | hs
    · rw [hx]; exact stmtIn_of_ok x h.1 ht.1
    · exact bodyIn_of_ok xs h.2 ht.2 s hs
end

end

/-- the origin `0:0` is a position of every file (also of the empty one) -/
theorem inFileLC_zero (src : List Rune) : InFileLC src ⟨0, 0⟩ := (inFile_zero src).toLC

/-- **every span of a parsed statement lies in the file** (in the form the walker theorems use): for a
`parseFile` tree every statement satisfies `StmtIn (InFileLC src)` -/
theorem parseFile_stmtIn (cls : Cls) (src : List Rune) (ff : Bool) (f : File)
    (h : parseFile cls src ff = .tree f) : ∀ s, s ∈ f.body → StmtIn (InFileLC src) s := by
  have hok : Statement.okList (InFileLC src) f.body := by
    have := parseFile_spec (InFileLC src) cls src ff (fun _ h => h.toLC)
    rw [h] at this; exact this
  exact bodyIn_of_ok f.body hok (parseFile_bodyTypesOK cls src ff f h)

/-- **positions of the statements are positions of the file** -/
theorem parseFile_bodyPos (cls : Cls) (src : List Rune) (ff : Bool) (f : File)
    (h : parseFile cls src ff = .tree f) : ∀ p, BodyPos f.body p → InFileLC src p :=
  fun _ hp => hp (InFileLC src) (inFileLC_zero src) (parseFile_stmtIn cls src ff f h)

/-! ## The walker theorems at source level (j5 environment, file stub) -/

/-- `ParseFile` answers with a non-empty list of diagnostics or with a tree (C11; never a panic) -/
theorem parseFile_total (cls : Cls) (src : List Rune) (ff : Bool) :
    (∃ es, es ≠ [] ∧ parseFile cls src ff = .errors es) ∨ (∃ f, parseFile cls src ff = .tree f) := by
  have := parseFile_spec (fun _ => True) cls src ff (fun _ _ => trivial)
  cases h : parseFile cls src ff with
  | tree f => exact Or.inr ⟨f, rfl⟩
  | errors es => rw [h] at this; exact Or.inl ⟨es, this.1, rfl⟩
  | panic s => rw [h] at this; exact this.elim

theorem parse_walk_no_panic (cls : Cls) (src : List Rune) (ff : Bool) (f : File) (filename : Str)
    (h : parseFile cls src ff = .tree f) (why : String) :
    walkSchema j5Env f.body (stub j5Env filename) ≠ .panic why :=
  C07W_j5_walk_no_panic filename f.body (parseFile_bodyTypesOK cls src ff f h) why

theorem parse_walk_error_position (cls : Cls) (src : List Rune) (ff : Bool) (f : File) (filename : Str)
    (h : parseFile cls src ff = .tree f) {e : WErr}
    (he : walkSchema j5Env f.body (stub j5Env filename) = .err e) :
    ∃ sp, e.pos = some sp ∧ InFileLC src sp.start ∧ InFileLC src sp.end_ := by
  obtain ⟨sp, h1, h2, h3⟩ :=
    C07W_j5_walk_error_position filename f.body (parseFile_bodyTypesOK cls src ff f h) he
  exact ⟨sp, h1, parseFile_bodyPos cls src ff f h _ h2, parseFile_bodyPos cls src ff f h _ h3⟩

theorem parse_walk_ok (cls : Cls) (src : List Rune) (ff : Bool) (f : File) (filename : Str)
    (h : parseFile cls src ff = .tree f) {tree : Node}
    (hw : walkSchema j5Env f.body (stub j5Env filename) = .ok tree) :
    TreeOK j5Env tree ∧ Ext j5Env (stub j5Env filename) tree :=
  C07W_j5_walk_ok filename f.body (parseFile_bodyTypesOK cls src ff f h) hw

/-- parse + walk of any source: diagnostics; or a tree whose walk is a well-typed extension of the stub
or an error positioned inside the file -/
theorem parse_walk_total (cls : Cls) (src : List Rune) (ff : Bool) (filename : Str) :
    (∃ es, es ≠ [] ∧ parseFile cls src ff = .errors es) ∨
    (∃ f, parseFile cls src ff = .tree f ∧
      ((∃ tree, walkSchema j5Env f.body (stub j5Env filename) = .ok tree ∧
          TreeOK j5Env tree ∧ Ext j5Env (stub j5Env filename) tree) ∨
       (∃ e sp, walkSchema j5Env f.body (stub j5Env filename) = .err e ∧
          e.pos = some sp ∧ InFileLC src sp.start ∧ InFileLC src sp.end_))) := by
  rcases parseFile_total cls src ff with h | ⟨f, h⟩
  · exact Or.inl h
  · refine Or.inr ⟨f, h, ?_⟩
    cases hw : walkSchema j5Env f.body (stub j5Env filename) with
    | ok tree => exact Or.inl ⟨tree, rfl, parse_walk_ok cls src ff f filename h hw⟩
    | err e =>
      obtain ⟨sp, h1, h2, h3⟩ := parse_walk_error_position cls src ff f filename h hw
      exact Or.inr ⟨e, sp, rfl, h1, h2, h3⟩
    | panic why => exact absurd hw (parse_walk_no_panic cls src ff f filename h why)

/-! ## Helpers for the non-vacuity examples (a closed Bool, evaluated by the kernel) -/

/-- the span of an error result -/
def Res.errPos {α : Type} : Res α → Option Span
  | .err e => e.pos
  | _ => none

/-- from the Bool the kernel evaluates to the statement it stands for -/
theorem tree_of_match {p : ParseOut} {P : File → Prop} [∀ f, Decidable (P f)]
    (h : (match p with | .tree f => decide (P f) | _ => false) = true) : ∃ f, p = .tree f ∧ P f := by
  cases p with
  | tree f => exact ⟨f, rfl, of_decide_eq_true h⟩
  | errors es => cases h
  | panic s => cases h

end J5V.Walker
