import J5V.Walker.StateProofs
/-!
# `stub env filename` is a well-typed tree (under `Env.stubOK`, a conjunct of `Env.WF`)
-/
namespace J5V.Walker

/-- presetting a property of an untouched message with a value of its type keeps it a message -/
theorem MsgOK.preset {env : Env} {s : Schema} {tc : List Bool} {ps : List Node} {name : Str} {v : Node}
    (h : MsgOK env s tc ps) (hnt : ∀ i : Nat, tc[i]? ≠ some true)
    (hv : ∀ i p, findProp name 0 s.props = some (i, p) → VOK env p.type false v) :
    ∃ ps', presetProp s name v (.msg tc ps) = .msg tc ps' ∧ MsgOK env s tc ps' := by
  unfold presetProp
  cases hf : findProp name 0 s.props with
  | none => exact ⟨ps, rfl, h⟩
  | some ip =>
    obtain ⟨i, p⟩ := ip
    refine ⟨ps.set i v, rfl, ?_⟩
    obtain ⟨h1, h2, h3⟩ := h
    refine ⟨h1, by simp [h2], ?_⟩
    intro j q tb c hq htb hc
    rw [List.getElem?_set] at hc
    by_cases hj : i = j
    · subst hj
      rw [(findProp_zero hf).1] at hq; cases hq
      simp only [if_true] at hc
      split at hc
      · cases hc
        cases tb with
        | false => exact hv i p hf
        | true => exact absurd htb (hnt i)
      · cases hc
    · simp only [hj, if_false] at hc
      exact h3 j q tb c hq htb hc

theorem replicate_false_untouched (n i : Nat) : (List.replicate n false)[i]? ≠ some true := by
  rw [List.getElem?_replicate]; split <;> simp

theorem stubPropOK_elim {s : Schema} {name : Str} {f : FieldType → Bool} (h : stubPropOK s name f = true)
    {i : Nat} {p : Property} (hf : findProp name 0 s.props = some (i, p)) : f p.type = true := by
  simpa [stubPropOK, hf] using h

/-- the stub is well typed -/
theorem stub_treeOK {env : Env} (hwf : env.WF = true) (filename : Str) : TreeOK env (stub env filename) := by
  have hso := WF_stubOK hwf
  simp only [Env.stubOK, Bool.and_eq_true] at hso
  obtain ⟨⟨hpath, hpkg⟩, hloc⟩ := hso
  unfold stub
  simp only
  -- the root, empty
  have h0 := MsgOK.fresh env (env.schemaOf env.root)
  have hnt := replicate_false_untouched (env.schemaOf env.root).props.length
  -- path
  obtain ⟨ps1, e1, h1⟩ := MsgOK.preset h0 (name := str "path") (v := stringNode filename) hnt (by
    intro i p hf
    have := stubPropOK_elim hpath hf
    exact .leaf _ _ _ (by simpa using this))
  -- package
  obtain ⟨ps2, e2, h2⟩ := MsgOK.preset h1 (name := str "package")
    (v := presetProp (propSchema env (env.schemaOf env.root) (str "package")) (str "name")
      (stringNode (stubPackage filename))
      (freshMsg (propSchema env (env.schemaOf env.root) (str "package")))) hnt (by
    intro i p hf
    have hok := stubPropOK_elim hpkg hf
    have hinner : ∀ r, stubPropOK (env.schemaOf r) (str "name") (fun t => !t.isContainer) = true →
        ∀ t, t.msgSchema env = some (env.schemaOf r) →
        VOK env t false (presetProp (env.schemaOf r) (str "name") (stringNode (stubPackage filename))
          (freshMsg (env.schemaOf r))) := by
      intro r hr t ht
      obtain ⟨ps', e', h'⟩ := MsgOK.preset (MsgOK.fresh env (env.schemaOf r)) (name := str "name")
        (v := stringNode (stubPackage filename)) (replicate_false_untouched _) (by
          intro i p hf
          have := stubPropOK_elim hr hf
          exact .leaf _ _ _ (by simpa using this))
      unfold freshMsg
      rw [e']
      exact VOK.of_msgOK ht h'
    cases ht : p.type with
    | object r =>
      rw [ht] at hok; simp only [propSchema, hf, ht]; exact hinner r hok (.object r) rfl
    | oneof r =>
      rw [ht] at hok; simp only [propSchema, hf, ht]; exact hinner r hok (.oneof r) rfl
    | array _ => rw [ht] at hok; simp at hok
    | map _ => rw [ht] at hok; simp at hok
    | enum _ => exact .leaf _ _ _ rfl
    | any => exact .leaf _ _ _ rfl
    | scalar _ => exact .leaf _ _ _ rfl
    | unknown => exact .leaf _ _ _ rfl)
  -- sourceLocations
  obtain ⟨ps3, e3, h3⟩ := MsgOK.preset h2 (name := str "sourceLocations")
    (v := freshMsg (propSchema env (env.schemaOf env.root) (str "sourceLocations"))) hnt (by
    intro i p hf
    have hok := stubPropOK_elim hloc hf
    cases ht : p.type with
    | object r => simp only [propSchema, hf, ht]; exact VOK.freshMsg (t := .object r) false rfl
    | oneof r => simp only [propSchema, hf, ht]; exact VOK.freshMsg (t := .oneof r) false rfl
    | array _ => rw [ht] at hok; simp at hok
    | map _ => rw [ht] at hok; simp at hok
    | enum _ => exact .leaf _ _ _ rfl
    | any => exact .leaf _ _ _ rfl
    | scalar _ => exact .leaf _ _ _ rfl
    | unknown => exact .leaf _ _ _ rfl)
  show VOK env (.object env.root) true _
  unfold freshMsg at e2 e3 ⊢
  rw [e1, e2, e3]
  exact VOK.of_msgOK rfl h3

end J5V.Walker
