import J5V.Walker.Types
import J5V.Generated.WalkerspecFacts
import J5V.Generated.WalkerschemaFacts
/-!
# Conversion of the generated facts into the model's `Env` (core only)

`WalkerschemaFacts.lean` (the j5 schema closure of `SourceFile`) and `WalkerspecFacts.lean` (the
literal `J5SchemaSpec`) are regenerated from the source on every check run; this file only CONVERTS
their values (strings to bytes, `RawBlock` to what `convertBlocks` builds). `j5Env` is the only
environment-specific definition of the model; nothing but the driver and examples refers to it.
-/
namespace J5V.Walker
open J5V.Generated

def convKind : Walkerschema.ScalarKind → ScalarKind
  | .string => .string | .bool => .bool | .bytes => .bytes | .date => .date
  | .timestamp => .timestamp | .decimal => .decimal | .float32 => .float32 | .float64 => .float64
  | .int32 => .int32 | .int64 => .int64 | .uint32 => .uint32 | .uint64 => .uint64 | .key => .key

def convType : Walkerschema.FieldType → FieldType
  | .object r => .object (str r)
  | .oneof r => .oneof (str r)
  | .enum r => .enum (str r)
  | .any => .any
  | .scalar k => .scalar (convKind k)
  | .array i => .array (convType i)
  | .map i => .map (convType i)
  | .unknown => .unknown

def convProperty (p : Walkerschema.Property) : Property where
  name := str p.name
  required := p.required
  type := convType p.type
  singleForm := p.singleForm.map str
  arrayAlias := p.arrayAlias.map str
  presence := p.presence
  oneofGroup := p.protoOneof.map fun g => (str g, p.protoNumbers.dropLast)

def convSchema (s : Walkerschema.Schema) : Schema :=
  ⟨str s.name, s.isOneof, s.props.map convProperty⟩

def convEnum (e : Walkerschema.Enum) : EnumDef :=
  ⟨str e.name, str e.prefix, e.options.map fun o => ⟨str o.name, o.number⟩⟩

/-- `convertTag` -/
def convTag (t : Walkerspec.RawTag) : Tag :=
  ⟨str t.fieldName, t.bang.map str, t.question.map str, t.optional, t.isBlock⟩

def convSplit (s : Walkerspec.RawSplit) : ScalarSplit :=
  ⟨s.delimiter.map str, s.rightToLeft, s.required.map (·.map str), s.optional.map (·.map str),
    s.remainder.map (·.map str)⟩

/-- the alias map of `convertBlocks`: `aliases[alias.Name] = alias.Path.Path` in literal order -/
def convAliases : List (String × List String) → List (Str × PathSpec) → List (Str × PathSpec)
  | [], acc => acc
  | (n, p) :: rest, acc => convAliases rest (aliasInsert (str n) (p.map str) acc)

/-- one iteration of `convertBlocks` -/
def convBlock (b : Walkerspec.RawBlock) : GivenBlock :=
  ⟨str b.schemaName,
    { description := b.description.map str
      aliases := convAliases b.aliases []
      name := b.name.map convTag
      typeSelect := b.typeSelect.map convTag
      qualifier := b.qualifier.map convTag
      onlyDefined := b.onlyExplicit
      scalarSplit := b.scalarSplit.map convSplit }⟩

/-- the environment of the j5s parser: `J5SchemaSpec` over the closure of `SourceFile` -/
def j5Env : Env where
  root := str Walkerschema.rootSchema
  schemas := Walkerschema.schemas.map convSchema
  enums := Walkerschema.enums.map convEnum
  given := Walkerspec.blocks.map convBlock

/-- what the extractors could not represent (the obligations want all three empty) -/
def factsProblems : List String :=
  Walkerschema.problems ++ Walkerspec.fileUnknown ++ Walkerspec.blocks.flatMap (·.unknown)

end J5V.Walker
