import Lean
import J5V.Walker.WF
import J5V.Walker.Facts
/-!
# Literals for the normal form of `j5Env` (see `WFj5.lean`)

`j5_…_lit%` elaborate to the VALUE of a part of `j5Env` written out as a literal: the elaborator evaluates
the imported definition and quotes the value with `ToExpr` (plain elaborator code; nothing is trusted —
every use is followed by a kernel-checked equation `part = literal`).
-/
namespace J5V.Walker
open Lean Elab Term Meta

deriving instance ToExpr for ScalarKind
deriving instance ToExpr for FieldType
deriving instance ToExpr for Property
deriving instance ToExpr for Schema
deriving instance ToExpr for EnumOption
deriving instance ToExpr for EnumDef
deriving instance ToExpr for Tag
deriving instance ToExpr for ScalarSplit
deriving instance ToExpr for BlockSpec
deriving instance ToExpr for GivenBlock

/-- the raw schemas `[a, a + 27)` converted -/
def j5Chunk (a : Nat) : List Schema :=
  ((J5V.Generated.Walkerschema.schemas.drop a).take 27).map convSchema

elab "j5_root_lit%" : term => return toExpr j5Env.root
elab "j5_chunk_lit%" n:num : term => return toExpr (j5Chunk n.getNat)
elab "j5_rest_lit%" n:num : term =>
  return toExpr ((J5V.Generated.Walkerschema.schemas.drop n.getNat).map convSchema)
elab "j5_enums_lit%" : term => return toExpr j5Env.enums
elab "j5_given_lit%" : term => return toExpr j5Env.given

end J5V.Walker
