import J5V.Bcl.Parser
import J5V.Bcl.Utf8
/-!
# BCL schema walker model — types (core only)

Mirrors the data the walker works with (`/repo/internal/bcl/internal/walker`,
`/repo/internal/bcl/internal/walker/schema`, `/repo/lib/j5reflect`, `/repo/lib/j5schema`);
reference: `/verif/notes/walker-semantics.md`.

* Go strings are byte sequences: `Str = List Nat`. Identifier values and token literals of the BCL
  model are rune lists; they become Go strings through `encodeRunes` (`J5V.Bcl.Utf8`), which is what
  Go's `string([]rune)` does. Every comparison the Go code makes on strings (property names, aliases,
  map keys, enum option names, `strings.Split`) is made here on bytes.
* `Env` = the j5 schema closure (`Schema`, `EnumDef`) + the given block specs (`GivenBlock`). It is a
  parameter of every function of the model; `Facts.lean` builds `j5Env` from the generated facts.
* `WErr` is an error with an OPTIONAL position — all the result line of the protocol observes of an
  `*errpos.Err` chain (walker-semantics §3): `AddPosition` never overwrites a position.
* `Res` = `.ok` / `.err` / `.panic` (a Go run-time panic, or a violated invariant of the model's own
  addressing, prefixed `model:`).
-/
namespace J5V.Walker
open J5V.Bcl

/-- a Go string (bytes) -/
abbrev Str := List Nat

/-- equality of byte strings, decided directly on `Nat`s. Same answers as the generic
`List.hasDecEq` (a `Decidable` proposition has one truth value); it only exists because the generic
instance compares elements through a closure, which dominated the driver's run time (schema, block
and property lookups by name). -/
def strDecEq : (a b : Str) → Decidable (a = b)
  | [], [] => isTrue rfl
  | [], _ :: _ => isFalse (fun h => nomatch h)
  | _ :: _, [] => isFalse (fun h => nomatch h)
  | a :: as, b :: bs =>
    if h : a = b then
      match strDecEq as bs with
      | isTrue h2 => isTrue (by rw [h, h2])
      | isFalse h2 => isFalse (fun h3 => h2 (List.cons.inj h3).2)
    else isFalse (fun h3 => h (List.cons.inj h3).1)

instance (priority := high) instDecidableEqStr : DecidableEq Str := strDecEq

/-- the UTF-8 bytes of a Lean string (through the model's own encoder rather than `String.toUTF8`,
so that the kernel can evaluate it: `decide` / `rfl` over `j5Env` see plain data) -/
def str (s : String) : Str := J5V.Bcl.encodeRunes (s.toList.map Char.toNat)

/-- for messages and the dump: bytes back to a Lean string (property names are ASCII) -/
def Str.show (s : Str) : String := String.ofList (s.map Char.ofNat)

/-! ## Schema (what `WalkerschemaFacts.lean` describes) -/

inductive ScalarKind where
  | string | bool | bytes | date | timestamp | decimal | float32 | float64
  | int32 | int64 | uint32 | uint64 | key
  deriving Repr, DecidableEq, Inhabited

inductive FieldType where
  | object (ref : Str)
  | oneof (ref : Str)
  | enum (ref : Str)
  | any
  | scalar (kind : ScalarKind)
  | array (item : FieldType)
  | map (item : FieldType)
  | unknown
  deriving Repr, DecidableEq, Inhabited

/-- one client property of an object / oneof schema (walker-semantics §9) -/
structure Property where
  name : Str
  required : Bool
  type : FieldType
  /-- `ext.singleForm` of an array / map -/
  singleForm : Option Str
  /-- arrays of objects: `strcase.ToLowerCamel(item ref schema name)` (library behaviour, from the facts) -/
  arrayAlias : Option Str
  /-- the final proto field has explicit presence -/
  presence : Bool
  /-- the real proto oneof containing the final proto field: its full name and the proto numbers of
  the flattened parents (members conflict only inside ONE message) -/
  oneofGroup : Option (Str × List Nat)
  deriving Repr, DecidableEq, Inhabited

structure Schema where
  name : Str
  isOneof : Bool
  props : List Property
  deriving Repr, DecidableEq, Inhabited

structure EnumOption where
  name : Str
  number : Int
  deriving Repr, DecidableEq, Inhabited

structure EnumDef where
  name : Str
  «prefix» : Str
  options : List EnumOption
  deriving Repr, DecidableEq, Inhabited

/-! ## Block specs (`schema/bclspec.go`) -/

/-- `schema.Tag` -/
structure Tag where
  fieldName : Str
  bangFieldName : Option Str
  questionFieldName : Option Str
  isOptional : Bool
  isBlock : Bool
  deriving Repr, DecidableEq, Inhabited

/-- `schema.PathSpec` -/
abbrev PathSpec := List Str

/-- `schema.ScalarSplit` -/
structure ScalarSplit where
  delimiter : Option Str
  rightToLeft : Bool
  required : List PathSpec
  optional : List PathSpec
  remainder : Option PathSpec
  deriving Repr, DecidableEq, Inhabited

/-- `schema.BlockSpec`. `aliases` is Go's `map[string]PathSpec` as an association list with unique
keys (built with `aliasInsert`, which overwrites like a map assignment); `DebugName`, `source`,
`schema`, `RunAfter` only feed message text / are unused. -/
structure BlockSpec where
  description : Option Str
  aliases : List (Str × PathSpec)
  name : Option Tag
  typeSelect : Option Tag
  qualifier : Option Tag
  onlyDefined : Bool
  scalarSplit : Option ScalarSplit
  deriving Repr, DecidableEq, Inhabited

/-- Go's `&BlockSpec{}` -/
def BlockSpec.empty : BlockSpec := ⟨none, [], none, none, none, false, none⟩

/-- `m[k]` lookup -/
def aliasLookup (k : Str) : List (Str × PathSpec) → Option PathSpec
  | [] => none
  | (k', p) :: rest => if k' = k then some p else aliasLookup k rest

/-- `m[k] = p` -/
def aliasInsert (k : Str) (p : PathSpec) : List (Str × PathSpec) → List (Str × PathSpec)
  | [] => [(k, p)]
  | (k', p') :: rest => if k' = k then (k, p) :: rest else (k', p') :: aliasInsert k p rest

/-- one `bcl_j5pb.Block` after `convertBlocks` -/
structure GivenBlock where
  schemaName : Str
  spec : BlockSpec
  deriving Repr, DecidableEq, Inhabited

/-- the environment of a walk: schema table + given specs -/
structure Env where
  root : Str
  schemas : List Schema
  enums : List EnumDef
  /-- literal order; of two blocks with one name the LATER wins (`givenBlocks[name] = block`) -/
  given : List GivenBlock
  deriving Repr, Inhabited

def findSchema (name : Str) : List Schema → Option Schema
  | [] => none
  | s :: rest => if s.name = name then some s else findSchema name rest

/-- the schema called `name`. A reference to a name outside the table behaves as a schema without
properties (the reflection layer cannot be built over a dangling reference; `Env.closed` says there
is none). -/
def Env.schemaOf (env : Env) (name : Str) : Schema :=
  match findSchema name env.schemas with
  | some s => s
  | none => ⟨name, false, []⟩

def findEnum (name : Str) : List EnumDef → Option EnumDef
  | [] => none
  | e :: rest => if e.name = name then some e else findEnum name rest

def Env.enumOf (env : Env) (name : Str) : EnumDef :=
  match findEnum name env.enums with
  | some e => e
  | none => ⟨name, [], []⟩

/-- `givenSpecs[name]`: the LAST block of that name -/
def findGiven (name : Str) : List GivenBlock → Option BlockSpec
  | [] => none
  | g :: rest =>
    match findGiven name rest with
    | some s => some s
    | none => if g.schemaName = name then some g.spec else none

/-- every schema / enum reference of a type is defined in the table -/
def FieldType.refsIn (env : Env) : FieldType → Bool
  | .object r => (findSchema r env.schemas).isSome
  | .oneof r => (findSchema r env.schemas).isSome
  | .enum r => (findEnum r env.enums).isSome
  | .array i => i.refsIn env
  | .map i => i.refsIn env
  | _ => true

/-- no dangling reference -/
def Env.closed (env : Env) : Bool :=
  env.schemas.all fun s => s.props.all fun p => p.type.refsIn env

/-! ## Errors and results -/

/-- the Go type of the error: `*schema.WalkPathError` carries a `Type`, everything else is a plain
`error`. Only `walkScope` looks at it (and only to choose a message, plus the nil-error arm). -/
inductive ErrKind where
  | plain
  | unknownPath | nodeNotContainer | nodeNotScalar | nodeNotScalarArray | nodeNotFound | rootNotFound
  deriving Repr, DecidableEq, Inhabited

/-- an error as the protocol observes it: the `Pos` of the (single) `*errpos.Err` on the chain, if
set. `what` names the site (never compared; the harness's `err.*` counters use similar classes). -/
structure WErr where
  pos : Option Span
  kind : ErrKind
  what : String
  deriving Repr, DecidableEq, Inhabited

/-- a fresh error without position (`fmt.Errorf`, `&WalkPathError{…}`) -/
def WErr.mk0 (what : String) (kind : ErrKind := .plain) : WErr := ⟨none, kind, what⟩

/-- `errpos.AddPosition(err, pos)` for a non-nil error: an existing position is never overwritten -/
def WErr.addPosition (e : WErr) (p : Span) : WErr :=
  match e.pos with
  | some _ => e
  | none => { e with pos := some p }

/-- wrapping that keeps the chain (`fmt.Errorf("…: %w", err)`, `newSchemaError`, `scopedError`,
`&WalkPathError{Err: err}` is NOT one of them: it has no `Unwrap`, but the wrapped reflection error
never carries a position): the position is unchanged, the error stops being a `*WalkPathError` -/
def WErr.wrapped (e : WErr) : WErr := { e with kind := .plain }

inductive Res (α : Type) where
  | ok (a : α)
  | err (e : WErr)
  | panic (why : String)
  deriving Repr, Inhabited

/-- the zero position `(0:0, 0:0)` (`BoolValue`, `IntValue` drop their position argument) -/
def Span.zero : Span := ⟨⟨0, 0⟩, ⟨0, 0⟩⟩

/-- `pointPosition` -/
def pointSpan (p : Pos) : Span := ⟨p, p⟩

end J5V.Walker
