import Lean
import J5V.Walker.Walk
import J5V.Walker.Stub
/-!
# Termination of the walker model: a check of HOW its functions are defined

Every Lean `def` that is not `partial` / `unsafe` is a total function; Lean accepts a recursive one either
by STRUCTURAL recursion (compiled to the recursor of the datatype) or by well-founded recursion
(`WellFounded.fix` with a measure and a proof that it decreases). The command below walks over every
constant that `walkSchema` and `stub` reach (definitions and their types; proofs are not entered) and FAILS
the build if a constant of the project (`J5V.*`) among them

* is defined through anything of the `WellFounded` namespace (`WellFounded.fix`, `WellFounded.Nat.fix`, …)
  or `Acc.rec`, or
* is `partial`, `unsafe` or an `opaque` constant (nothing the kernel cannot unfold).

So: every function of the model is a structural recursion — over the statements, the values, the lists of
the spec, or the explicit fuel of `setAttribute` ⇄ `setContainerFromScalar` (the only recursion that follows
the SPEC rather than the input; `C07W_terminates` shows that this fuel is never exhausted). The core-library
functions the model calls that ARE well-founded recursions (with their termination proofs in core) are
`Nat.bitwise` (`&&&`, `|||`, `^^^` on `Nat`) and `ByteArray.utf8Decode?.go` (string literals →
`String.toList`); the command reports a change of that list as an error too.
-/
open Lean Elab Command

run_cmd do
  let env ← getEnv
  let mut seen : NameSet := {}
  let mut todo : List Name := [`J5V.Walker.walkSchema, `J5V.Walker.stub]
  let mut bad : Array Name := #[]
  let mut core : Array Name := #[]
  while !todo.isEmpty do
    match todo with
    | [] => pure ()
    | c :: rest =>
      todo := rest
      if seen.contains c then continue
      seen := seen.insert c
      match env.find? c with
      | none => pure ()
      | some ci =>
        let deps := ci.type.getUsedConstants ++
          (match ci.value? with | some v => v.getUsedConstants | none => #[])
        if deps.any (fun d => d == ``Acc.rec || (`WellFounded).isPrefixOf d) then
          if (`J5V).isPrefixOf c then bad := bad.push c else core := core.push c
        if (`J5V).isPrefixOf c && (ci.isUnsafe || ci.isPartial || ci matches .opaqueInfo _) then
          bad := bad.push c
        if ci matches .thmInfo _ then continue
        for d in deps do
          if !seen.contains d then todo := d :: todo
  unless seen.contains `J5V.Walker.setAttribute && seen.contains `J5V.Walker.doBody do
    throwError "termination check: the walk no longer reaches setAttribute / doBody"
  unless bad.isEmpty do
    throwError "termination check: not a structural recursion (well-founded, partial, opaque or not safe): {bad}"
  let coreDefs := core.filter (fun n => !(`WellFounded).isPrefixOf n)
  unless coreDefs.all (fun n => n == `Nat.bitwise._unary || n == `ByteArray.utf8Decode?.go._unary) do
    throwError "termination check: core functions defined by well-founded recursion changed: {coreDefs}"
