import J5V.Walker.PrintErase
import J5V.Bcl.Equiv
/-! The driver's copy of the position erasure is the erasure of `J5V/Bcl/Equiv.lean`. -/
namespace J5V.Walker
open J5V.Bcl

theorem eraseTok_eq (t : Token) : eraseTok t = t.erase := rfl
theorem eraseIdent_eq (i : Ident) : eraseIdent i = i.erase := rfl
theorem eraseRef_eq (r : Reference) : eraseRef r = r.erase := rfl

mutual
theorem eraseValue_eq : ∀ v : Value, eraseValue v = v.erase
  | .scalar _ _ => rfl
  | .array vs _ => by simp only [eraseValue, Value.erase, eraseValues_eq vs]; rfl
theorem eraseValues_eq : ∀ vs : List Value, eraseValues vs = Value.eraseList vs
  | [] => rfl
  | v :: vs => by simp only [eraseValues, Value.eraseList, eraseValue_eq v, eraseValues_eq vs]
end

theorem eraseTag_eq (t : TagValue) : eraseTag t = t.erase := by
  cases t with
  | mk mark mt r v s =>
    simp only [eraseTag, TagValue.erase]
    congr 1
    cases v with
    | none => rfl
    | some v => simp [eraseValue_eq]

theorem eraseHeader_eq (h : BlockHeader) : eraseHeader h = h.erase := by
  simp only [eraseHeader, BlockHeader.erase]
  have : eraseTag = TagValue.erase := funext eraseTag_eq
  rw [this]; rfl

theorem eraseAssign_eq (a : Assignment) : eraseAssign a = a.erase := by
  simp only [eraseAssign, Assignment.erase, eraseValue_eq]; rfl

mutual
theorem eraseStmt_eq : ∀ s : Statement, eraseStmt s = s.erase
  | .block h body => by simp only [eraseStmt, Statement.erase, eraseHeader_eq, eraseStmts_eq body]
  | .assign a => by simp only [eraseStmt, Statement.erase, eraseAssign_eq]
  | .desc d => rfl
theorem eraseStmts_eq : ∀ ss : List Statement, eraseStmts ss = Statement.eraseList ss
  | [] => rfl
  | s :: ss => by simp only [eraseStmts, Statement.eraseList, eraseStmt_eq s, eraseStmts_eq ss]
end

end J5V.Walker
