import J5V.Walker.StateProofs2
import J5V.Walker.SpecProofs
/-!
# Specs of `Scope.lean`

Under `env.WF = true`: `wrapContainer`, `newRootSchemaWalker`, `findBlock`, `walkPath`, `setSpecs`,
`walkToChild`, `childBlock`, `scopeField` never panic, keep the tree well typed and growing, return
valid blocks / scopes / fields, raise errors without position. Each spec also says which KIND the
result has in terms of the state-free shadows of `WF.lean` (`walkKinds`, `kindOfValue`) — the link the
proof of `Walk.lean` needs between a scope and `Env.splitOK`.
-/
namespace J5V.Walker

/-! ## `wrapContainer`, `newRootSchemaWalker` -/

theorem wrapContainer_ok {env : Env} {c : Cont} {cf : ContainerField} (h : wrapContainer env c = .ok cf) :
    cf.container = c ∧ cf.schemaName = c.schemaName ∧ specOf env c = .ok cf.spec := by
  unfold wrapContainer at h
  cases hs : specOf env c with
  | ok spec => rw [hs] at h; cases h; exact ⟨rfl, rfl, rfl⟩
  | err e => rw [hs] at h; cases h
  | panic w => rw [hs] at h; cases h

theorem wrapContainer_no_panic (env : Env) (c : Cont) (w : String) : wrapContainer env c ≠ .panic w := by
  unfold wrapContainer
  cases hs : specOf env c with
  | ok spec => simp
  | err e => simp
  | panic w' => exact absurd hs (specOf_no_panic env c w')

theorem wrapContainer_err_noPos {env : Env} {c : Cont} {e : WErr} (h : wrapContainer env c = .err e) :
    NoPos e := by
  unfold wrapContainer at h
  cases hs : specOf env c with
  | ok spec => rw [hs] at h; cases h
  | err e' => rw [hs] at h; cases h; exact specOf_err_noPos hs
  | panic w => rw [hs] at h; cases h

/-- a wrapped valid container is a valid block -/
theorem wrapContainer_valid {env : Env} {st : Node} {c : Cont} {cf : ContainerField}
    (h : wrapContainer env c = .ok cf) (hc : ContOK env st c) : ContainerFieldOK env st cf := by
  obtain ⟨h1, h2, h3⟩ := wrapContainer_ok h
  exact ⟨h1 ▸ hc, h1 ▸ h2, h1 ▸ h3⟩

/-- the root of a well-typed tree is a valid container -/
theorem rootCont_ok {env : Env} {st : Node} (hst : TreeOK env st) :
    ContOK env st ⟨[], .msg (env.schemaOf env.root)⟩ := by
  refine ⟨⟨.object env.root, rfl, rfl⟩, ?_⟩
  rcases VOK.msg_shape hst (s := env.schemaOf env.root) rfl with ⟨_, hb⟩ | ⟨tc, ps, rfl⟩
  · cases hb
  · exact ⟨tc, ps, rfl⟩

theorem newRootSchemaWalker_no_panic (env : Env) (w : String) : newRootSchemaWalker env ≠ .panic w := by
  unfold newRootSchemaWalker
  cases hs : wrapContainer env ⟨[], .msg (env.schemaOf env.root)⟩ with
  | ok c => simp
  | err e => simp
  | panic w' => exact absurd hs (wrapContainer_no_panic env _ w')

theorem newRootSchemaWalker_err_noPos {env : Env} {e : WErr} (h : newRootSchemaWalker env = .err e) :
    NoPos e := by
  unfold newRootSchemaWalker at h
  cases hs : wrapContainer env ⟨[], .msg (env.schemaOf env.root)⟩ with
  | ok c => rw [hs] at h; cases h
  | err e' => rw [hs] at h; cases h; exact wrapContainer_err_noPos hs
  | panic w => rw [hs] at h; cases h

/-- the root scope is valid in every well-typed tree -/
theorem newRootSchemaWalker_valid {env : Env} {st : Node} {sc : Scope} (h : newRootSchemaWalker env = .ok sc)
    (hst : TreeOK env st) : ScopeOK env st sc ∧ sc.root.isSome = true := by
  unfold newRootSchemaWalker at h
  cases hs : wrapContainer env ⟨[], .msg (env.schemaOf env.root)⟩ with
  | ok c =>
    rw [hs] at h; cases h
    exact ⟨ScopeOK.newChild (wrapContainer_valid hs (rootCont_ok hst)), rfl⟩
  | err e => rw [hs] at h; cases h
  | panic w => rw [hs] at h; cases h

/-! ## `findBlock` -/

/-- the block found is one of the scope; the path is an alias of that block or the property itself -/
theorem findBlock_some {name : Str} {bs : List ContainerField} {b : ContainerField} {path : PathSpec}
    (h : findBlock name bs = some (b, path)) :
    b ∈ bs ∧ (aliasLookup name b.spec.aliases = some path ∨
      (aliasLookup name b.spec.aliases = none ∧ path = [name] ∧ b.container.hasProperty name = true)) := by
  induction bs with
  | nil => cases h
  | cons x rest ih =>
    simp only [findBlock] at h
    cases ha : aliasLookup name x.spec.aliases with
    | some p =>
      simp only [ha, Option.some.injEq, Prod.mk.injEq] at h
      obtain ⟨rfl, rfl⟩ := h
      exact ⟨List.mem_cons_self, .inl ha⟩
    | none =>
      simp only [ha] at h
      split at h
      · rename_i hp
        simp only [Option.some.injEq, Prod.mk.injEq] at h
        obtain ⟨rfl, rfl⟩ := h
        exact ⟨List.mem_cons_self, .inr ⟨ha, rfl, hp⟩⟩
      · obtain ⟨h1, h2⟩ := ih h
        exact ⟨List.mem_cons_of_mem _ h1, h2⟩

/-- `findBlock` in a one-block scope is the state-free `resolveName` -/
theorem findBlock_single {env : Env} {name : Str} {b : ContainerField}
    (hb : specOf env b.container = .ok b.spec) :
    (findBlock name [b]).map (·.2) = resolveName env b.container.kind name := by
  obtain ⟨sn, ⟨a, k⟩, spec⟩ := b
  simp only at hb
  have hb' : specOf env ⟨[], k⟩ = .ok spec := hb
  simp only [findBlock, resolveName, hb']
  cases aliasLookup name spec.aliases with
  | some p => rfl
  | none =>
    have hh : Cont.hasProperty ⟨[], k⟩ name = Cont.hasProperty ⟨a, k⟩ name := rfl
    rw [hh]
    by_cases hp : Cont.hasProperty ⟨a, k⟩ name = true
    · simp [hp]
    · simp [hp]

/-! ## `walkPath` -/

theorem walkKinds_cons {env : Env} {k k' : ContKind} {name : Str} {rest : List Str} {fk : FieldKind}
    (hp : Cont.hasProperty ⟨[], k⟩ name = true) (hk : kindOfValue env k name = some fk)
    (hc : fk.asContKind = some k') : walkKinds env k (name :: rest) = walkKinds env k' rest := by
  simp [walkKinds, hp, hk, hc]

theorem walkPath_spec {env : Env} (hwf : env.WF = true) : ∀ (path : List Str) (c : ContainerField),
    MSpec env (walkPath env c path) (fun st => ContOK env st c.container)
      (fun res _ st' => (∀ cf, cf ∈ res → ContainerFieldOK0 env st' cf) ∧
        ∃ leaf rest, res = leaf :: rest ∧ walkKinds env c.container.kind path = some leaf.container.kind)
      NoPos := by
  intro path
  induction path with
  | nil => intro c; exact MSpec.throw (NoPos_mk0 _ _)
  | cons name rest ih =>
    intro c
    unfold walkPath
    apply MSpec.ite
    · intro _; exact MSpec.throw (NoPos_mk0 _ _)
    · intro hprop
      have hprop' : Cont.hasProperty ⟨[], c.container.kind⟩ name = true := by
        have h2 : c.container.hasProperty name = true := by simpa using hprop
        exact h2
      apply MSpec.bind
        (post1 := fun val _ st1 => FieldOK env st1 val ∧ kindOfValue env c.container.kind name = some val.kind)
      · exact ((Cont.value_spec hwf).mapErr (fun e he => he.withKind _)).conseq (fun _ _ h => h)
          (fun _ _ _ _ _ _ _ h => ⟨h.1, h.2.2⟩) (fun _ h => h)
      · intro val st0
        apply MSpec.of_pre (P := kindOfValue env c.container.kind name = some val.kind)
          (fun _ _ h => h.2.2.2.2)
        intro hkv
        apply MSpec.bind
          (post1 := fun child _ st2 => ContOK env st2 child ∧ val.kind.asContKind = some child.kind)
        · obtain ⟨va, vk⟩ := val
          cases vk with
          | arrayOfContainer s =>
            exact newContainerElement_spec.conseq (fun _ _ h => h.2.2.2.1)
              (fun c0 _ _ _ _ _ _ h => ⟨h.1, by simp [FieldKind.asContKind, h.2.1]⟩) (fun _ h => h)
          | container s => exact MSpec.pure (fun _ _ h => ⟨h.2.2.2.1, rfl⟩)
          | map n item => exact MSpec.pure (fun _ _ h => ⟨h.2.2.2.1, rfl⟩)
          | arrayOfScalar _ => exact MSpec.throw (NoPos_mk0 _ _)
          | scalar _ _ => exact MSpec.throw (NoPos_mk0 _ _)
          | any => exact MSpec.throw (NoPos_mk0 _ _)
        · intro child st1
          apply MSpec.of_pre (P := val.kind.asContKind = some child.kind) (fun _ _ h => h.2.2.2.2)
          intro hck
          have hwk := walkKinds_cons (rest := rest) hprop' hkv hck
          apply MSpec.ite
          · intro hre
            have : rest = [] := by simpa using hre
            subst this
            apply MSpec.pure
            intro st _ h
            refine ⟨?_, _, [], rfl, ?_⟩
            · intro cf hcf
              simp only [List.mem_singleton] at hcf
              subst hcf
              exact ⟨h.2.2.2.1, rfl⟩
            · rw [hwk]; rfl
          · intro _
            apply MSpec.bind (post1 := fun res _ st' => (∀ cf, cf ∈ res → ContainerFieldOK0 env st' cf) ∧
              ∃ leaf rest', res = leaf :: rest' ∧ walkKinds env child.kind rest = some leaf.container.kind)
            · exact (ih ⟨child.schemaName, child, BlockSpec.empty⟩).weaken_pre (fun _ _ h => h.2.2.2.1)
            · intro endField st2
              apply MSpec.pure
              intro st _ h
              obtain ⟨_, ⟨_, _, _, hchild, _⟩, hext, hall, leaf, rest', hres, hk⟩ := h
              refine ⟨?_, leaf, rest' ++ [_], by rw [hres]; rfl, by rw [hwk]; exact hk⟩
              intro cf hcf
              rcases List.mem_append.mp hcf with hcf | hcf
              · exact hall cf hcf
              · simp only [List.mem_singleton] at hcf
                subst hcf
                exact ⟨hchild.ext hext, rfl⟩


/-! ## `setSpecs`, `walkToChild` -/

/-- what `setSpecs` does to one block -/
def SpecSet (env : Env) (f f' : ContainerField) : Prop :=
  f'.container = f.container ∧ f'.schemaName = f.schemaName ∧ specOf env f.container = .ok f'.spec

/-- `setSpecs` block by block -/
inductive SpecSetAll (env : Env) : List ContainerField → List ContainerField → Prop where
  | nil : SpecSetAll env [] []
  | cons {f f' : ContainerField} {l l' : List ContainerField} :
      SpecSet env f f' → SpecSetAll env l l' → SpecSetAll env (f :: l) (f' :: l')

theorem setSpecs_spec (env : Env) (l : List ContainerField) :
    (∀ w, setSpecs env l ≠ .panic w) ∧ (∀ e, setSpecs env l = .err e → NoPos e) ∧
    (∀ l', setSpecs env l = .ok l' → SpecSetAll env l l') := by
  induction l with
  | nil =>
    refine ⟨by simp [setSpecs], by simp [setSpecs], ?_⟩
    intro l' h; simp only [setSpecs, Res.ok.injEq] at h; subst h; exact .nil
  | cons f rest ih =>
    obtain ⟨ih1, ih2, ih3⟩ := ih
    unfold setSpecs
    cases hs : specOf env f.container with
    | panic w => exact absurd hs (specOf_no_panic env _ w)
    | err e =>
      refine ⟨by simp, ?_, by simp⟩
      intro e' h; simp only [Res.err.injEq] at h; subst h
      exact (specOf_err_noPos hs).withKind _
    | ok spec =>
      simp only
      cases hr : setSpecs env rest with
      | panic w => exact absurd hr (ih1 w)
      | err e =>
        refine ⟨by simp, ?_, by simp⟩
        intro e' h; simp only [Res.err.injEq] at h; subst h; exact ih2 e hr
      | ok rest' =>
        refine ⟨by simp, by simp, ?_⟩
        intro l' h; simp only [Res.ok.injEq] at h; subst h
        exact .cons ⟨rfl, rfl, hs⟩ (ih3 rest' hr)

theorem SpecSet.valid {env : Env} {st : Node} {f f' : ContainerField} (h : SpecSet env f f')
    (hf : ContainerFieldOK0 env st f) : ContainerFieldOK env st f' := by
  obtain ⟨h1, h2, h3⟩ := h
  refine ⟨h1 ▸ hf.1, ?_, h1 ▸ h3⟩
  rw [h2, h1]; exact hf.2

/-- `Scope.walkToChild`: the block reached is valid (with its spec) and of the kind `walkKinds`
predicts; the `visitedFields[0]` arm is dead -/
theorem walkToChild_spec {env : Env} (hwf : env.WF = true) (block : ContainerField) (path : PathSpec) :
    MSpec env (walkToChild env block path) (fun st => ContainerFieldOK env st block)
      (fun res _ st' => ContainerFieldOK env st' res ∧
        walkKinds env block.container.kind path = some res.container.kind)
      NoPos := by
  unfold walkToChild
  apply MSpec.ite
  · intro he
    have : path = [] := by simpa using he
    subst this
    exact MSpec.pure (fun _ _ h => ⟨h, rfl⟩)
  · intro _
    apply MSpec.bind (post1 := fun res _ st' => (∀ cf, cf ∈ res → ContainerFieldOK0 env st' cf) ∧
        ∃ leaf rest, res = leaf :: rest ∧ walkKinds env block.container.kind path = some leaf.container.kind)
    · exact (walkPath_spec hwf path block).weaken_pre (fun _ _ h => h.1)
    · intro visited st0
      apply MSpec.bind (post1 := fun visited' _ st2 => SpecSetAll env visited visited' ∧
          (∀ cf, cf ∈ visited → ContainerFieldOK0 env st2 cf) ∧
          ∃ leaf rest, visited = leaf :: rest ∧
            walkKinds env block.container.kind path = some leaf.container.kind)
      · apply MSpec.lift
        · intro l' h st _ hp
          exact ⟨(setSpecs_spec env visited).2.2 l' h, hp.2.2.2⟩
        · exact (setSpecs_spec env visited).2.1
        · exact (setSpecs_spec env visited).1
      · intro visited' st1
        apply MSpec.of_pre (P := SpecSetAll env visited visited' ∧
          ∃ leaf rest, visited = leaf :: rest ∧
            walkKinds env block.container.kind path = some leaf.container.kind)
          (fun _ _ h => ⟨h.2.2.2.1, h.2.2.2.2.2⟩)
        rintro ⟨hf2, leaf, rest, rfl, hk⟩
        cases hf2 with
        | cons hhead htail =>
          apply MSpec.pure
          intro st _ h
          refine ⟨hhead.valid (h.2.2.2.2.1 leaf List.mem_cons_self), ?_⟩
          rw [hhead.1]; exact hk

/-! ## `childBlock`, `scopeField` -/

/-- `Scope.ChildBlock`: a one-block scope over a valid block, with a root -/
theorem childBlock_spec {env : Env} (hwf : env.WF = true) (sw : Scope) (name : Str) :
    MSpec env (childBlock env sw name) (fun st => ScopeOK env st sw)
      (fun sc _ st' => ScopeOK env st' sc ∧ sc = Scope.newChild sc.leaf ∧
        ∃ root path, findBlock name sw.blockSet = some (root, path) ∧
          walkKinds env root.container.kind path = some sc.leaf.container.kind)
      NoPos := by
  unfold childBlock
  cases hfb : findBlock name sw.blockSet with
  | none => exact MSpec.throw (NoPos_mk0 _ _)
  | some rp =>
    obtain ⟨root, path⟩ := rp
    simp only
    have hmem := (findBlock_some hfb).1
    apply MSpec.bind (post1 := fun res _ st' => ContainerFieldOK env st' res ∧
        walkKinds env root.container.kind path = some res.container.kind)
    · exact (walkToChild_spec hwf root path).weaken_pre (fun _ _ h => h.2.1 root hmem)
    · intro container st0
      apply MSpec.pure
      intro st _ h
      exact ⟨ScopeOK.newChild h.2.2.2.1, rfl, root, path, rfl, h.2.2.2.2⟩

/-- `Scope.field`: the field is valid and of the kind `kindOfValue` predicts at the end of the walk along
all but the last element of the path; the `popLast` arm is dead -/
theorem scopeField_spec {env : Env} (hwf : env.WF = true) (sw : Scope) (name : Str) (existingIsOk : Bool) :
    MSpec env (scopeField env sw name existingIsOk) (fun st => ScopeOK env st sw)
      (fun f _ st' => FieldOK env st' f ∧
        ∃ root path final k', findBlock name sw.blockSet = some (root, path) ∧
          path.getLast? = some final ∧
          walkKinds env root.container.kind path.dropLast = some k' ∧
          kindOfValue env k' final = some f.kind)
      NoPos := by
  unfold scopeField
  cases hfb : findBlock name sw.blockSet with
  | none => exact MSpec.throw (NoPos_mk0 _ _)
  | some rp =>
    obtain ⟨root, path⟩ := rp
    simp only
    have hmem := (findBlock_some hfb).1
    apply MSpec.ite
    · intro _; exact MSpec.throw (NoPos_mk0 _ _)
    · intro hne
      cases hl : path.getLast? with
      | none =>
        exfalso
        rw [List.getLast?_eq_none_iff] at hl
        subst hl
        simp at hne
      | some final =>
        simp only
        apply MSpec.bind (post1 := fun res _ st' => ContainerFieldOK env st' res ∧
            walkKinds env root.container.kind path.dropLast = some res.container.kind)
        · exact (walkToChild_spec hwf root path.dropLast).weaken_pre (fun _ _ h => h.2.1 root hmem)
        · intro parentScope st0
          apply MSpec.of_pre
            (P := walkKinds env root.container.kind path.dropLast = some parentScope.container.kind)
            (fun _ _ h => h.2.2.2.2)
          intro hwk
          apply MSpec.ite
          · intro _; exact MSpec.throw (NoPos_mk0 _ _)
          · intro _
            exact ((Cont.value_spec hwf).mapErr (fun e he => he.withKind _)).conseq
              (fun _ _ h => h.2.2.2.1.1)
              (fun f _ _ _ _ _ _ h => ⟨h.1, root, path, final, _, rfl, hl, hwk, h.2.2⟩) (fun _ h => h)

end J5V.Walker
