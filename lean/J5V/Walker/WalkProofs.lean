import J5V.Walker.WalkAttr
/-!
# `Walk.lean` verified: tags, qualifiers, statements, `walkSchema`

Positions: `P : Pos → Prop` is "a position of the input tree" (with `P ⟨0, 0⟩`: the synthetic `true` of a
`!` / `?` mark has the span `0:0`), `SpanOf P` a span between two such positions (closed under the hulls
`walkTags` / `walkQualifiers` / `setContainerFromScalar` build). `StmtIn P s`: all spans of the statement are
such spans AND every block type reference has an ident (without that `walkSchema` panics: `WalkCex.lean`).
Below a statement errors satisfy `PosIn (SpanOf P)`; `doStatement` adds the statement span: `HasPosIn`.
The scope invariant is `ScopeOK` + `root.isSome` (`setDescription` dereferences the root).
-/
namespace J5V.Walker
open J5V.Bcl

/-- a span between two positions of `P` -/
def SpanOf (P : Pos → Prop) (sp : Span) : Prop := P sp.start ∧ P sp.end_

theorem SpanOf.hull {P : Pos → Prop} (a b : Span) (ha : SpanOf P a) (hb : SpanOf P b) :
    SpanOf P ⟨a.start, b.end_⟩ := ⟨ha.1, hb.2⟩

theorem SpanOf.point {P : Pos → Prop} {p : Pos} (h : P p) : SpanOf P (pointSpan p) := ⟨h, h⟩

theorem SpanOf.zero {P : Pos → Prop} (h : P ⟨0, 0⟩) : SpanOf P Span.zero := ⟨h, h⟩

/-- the spans of a tag: its own and those of the idents of its reference -/
def TagIn (P : Pos → Prop) (t : TagValue) : Prop :=
  SpanOf P t.span ∧ ∀ ref, t.reference = some ref → ∀ i, i ∈ ref.idents → SpanOf P i.span

set_option linter.unusedSectionVars false

/-- the spans of a block header are between positions of `P`; the type reference has an ident -/
structure HeaderIn (P : Pos → Prop) (h : BlockHeader) : Prop where
  typeNonempty : h.type.idents ≠ []
  typeIdents : ∀ i, i ∈ h.type.idents → SpanOf P i.span
  typeEnd : P h.type.span.end_
  tags : ∀ t, t ∈ h.tags → TagIn P t
  qualifiers : ∀ t, t ∈ h.qualifiers → TagIn P t
  description : ∀ d, h.description = some d → SpanOf P d.span
  span : SpanOf P (headerSpan h)

/-- every span of the statement is between positions of `P`, and every block type reference has an
ident (the parser guarantees it: `newReference`) -/
inductive StmtIn (P : Pos → Prop) : Statement → Prop where
  | desc (d : Description) : SpanOf P d.span → StmtIn P (.desc d)
  | assign (a : Assignment) : SpanOf P (assignSpan a) → (∀ i, i ∈ a.key.idents → SpanOf P i.span) →
      ValueIn (SpanOf P) a.value → StmtIn P (.assign a)
  | block (h : BlockHeader) (body : List Statement) : HeaderIn P h → (∀ s, s ∈ body → StmtIn P s) →
      StmtIn P (.block h body)

variable {env : Env}

section
variable (hwf : env.WF = true) (P : Pos → Prop) (hz : P ⟨0, 0⟩)
include hwf hz

theorem setAttr (sc : Scope) (path : PathSpec) (ref : List Ident) (val : AV) (app : Bool)
    (hv : AVIn (SpanOf P) val) (hS : ∀ i, i ∈ ref → SpanOf P i.span) :
    MSpec env (setAttribute env (fuelOf env) sc path ref val app)
      (fun st => ScopeOK env st sc) (fun _ _ st' => ScopeOK env st' sc) (PosIn (SpanOf P)) := by
  obtain ⟨n, hn⟩ := fuelOf_ge env
  rw [hn]
  exact ((setAttribute_spec hwf (SpanOf P) SpanOf.hull (n + 1) sc path ref val app hv hS).inv
    (fun _ _ h he => h.ext he)).conseq (fun _ _ h => h) (fun _ _ _ _ _ _ _ h => h.2) (fun _ h => h)

theorem setDescription_spec (sc : Scope) (d : AV) (hroot : sc.root.isSome = true)
    (hv : AVIn (SpanOf P) d) :
    MSpec env (setDescription env sc d) (fun st => ScopeOK env st sc)
      (fun _ _ st' => ScopeOK env st' sc) (PosIn (SpanOf P)) := by
  unfold setDescription
  cases hr : sc.root with
  | none => rw [hr] at hroot; cases hroot
  | some root =>
    simp only
    cases root.spec.description with
    | none => exact MSpec.throw ((NoPos_mk0 _ _).posIn _)
    | some descSpec => exact setAttr hwf P hz sc _ _ d false hv (fun _ h => by cases h)

theorem checkBang_spec (sc : Scope) (tagSpec : Tag) (gotTag : TagValue) (ht : TagIn P gotTag) :
    MSpec env (checkBang env sc tagSpec gotTag) (fun st => ScopeOK env st sc)
      (fun _ _ st' => ScopeOK env st' sc) (PosIn (SpanOf P)) := by
  unfold checkBang
  cases gotTag.mark with
  | none => exact MSpec.pure (fun _ _ h => h)
  | bang =>
    simp only
    cases tagSpec.bangFieldName with
    | none => exact MSpec.errAt (HasPosIn.mk ht.1 _ _).posIn
    | some f => exact setAttr hwf P hz sc _ _ _ false (SpanOf.zero hz) (fun _ h => by cases h)
  | question =>
    simp only
    cases tagSpec.questionFieldName with
    | none => exact MSpec.errAt (HasPosIn.mk ht.1 _ _).posIn
    | some f => exact setAttr hwf P hz sc _ _ _ false (SpanOf.zero hz) (fun _ h => by cases h)

theorem applyNameTag_spec (sc : Scope) (tagSpec : Tag) (gotTag : TagValue) (ht : TagIn P gotTag) :
    MSpec env (applyNameTag env sc tagSpec gotTag) (fun st => ScopeOK env st sc)
      (fun _ _ st' => ScopeOK env st' sc) (PosIn (SpanOf P)) := by
  unfold applyNameTag
  apply MSpec.bind (checkBang_spec hwf P hz sc tagSpec gotTag ht)
  intro _ st0
  exact (setAttr hwf P hz sc _ _ (.tag gotTag) false ht.1 (fun _ h => by cases h)).weaken_pre
    (fun _ _ h => h.2.2.2)

theorem buildScope_keep (sc : Scope) (schemaPath : PathSpec) (userPath : List Ident)
    (hS : ∀ i, i ∈ userPath → SpanOf P i.span) :
    MSpec env (buildScope env sc schemaPath userPath .keepScope) (fun st => ScopeOK env st sc)
      (fun res _ st' => ScopeOK env st' res ∧ res.root = sc.root) (PosIn (SpanOf P)) :=
  (buildScope_spec hwf (SpanOf P) sc schemaPath userPath .keepScope hS).conseq (fun _ _ h => h)
    (fun _ _ _ _ _ _ _ h => ⟨h.1, h.2.1 rfl⟩) (fun _ h => h)

theorem selectType_spec (sc : Scope) (tagSpec : Tag) (gotTag : TagValue) (ht : TagIn P gotTag) :
    MSpec env (selectType env sc tagSpec gotTag) (fun st => ScopeOK env st sc)
      (fun res _ st' => ScopeOK env st' res ∧ res.root = sc.root) (PosIn (SpanOf P)) := by
  unfold selectType
  cases href : gotTag.reference with
  | none => exact MSpec.throw ((NoPos_mk0 _ _).posIn _)
  | some ref =>
    simp only
    apply MSpec.bind (buildScope_keep hwf P hz sc _ ref.idents (ht.2 ref href))
    intro typeScope st0
    apply MSpec.of_pre (P := typeScope.root = sc.root) (fun _ _ h => h.2.2.2.2)
    intro hroot
    apply MSpec.bind_from (pre0 := fun st => ScopeOK env st typeScope) (fun _ _ h => h.2.2.2.1)
    · exact checkBang_spec hwf P hz typeScope tagSpec gotTag ht
    · intro _ st1
      exact MSpec.pure (fun _ _ h => ⟨h.2.2.2, hroot⟩)

theorem finishTags_spec (sc : Scope) (spec : BlockSpec) (items : List TagValue)
    (hi : ∀ t, t ∈ items → TagIn P t) :
    MSpec env (finishTags env sc spec items) (fun st => ScopeOK env st sc)
      (fun res _ st' => ScopeOK env st' res.1 ∧ res.1.root = sc.root) (PosIn (SpanOf P)) := by
  unfold finishTags
  cases items with
  | nil => exact MSpec.pure (fun _ _ h => ⟨h, rfl⟩)
  | cons first rest =>
    simp only
    cases hfind : (first :: rest).find? (fun t => t.mark != .none) with
    | some tag =>
      exact MSpec.errAt (HasPosIn.mk (hi tag (List.mem_of_find?_eq_some hfind)).1 _ _).posIn
    | none =>
      simp only
      cases spec.scalarSplit with
      | some _ =>
        simp only
        apply MSpec.ite
        · intro _; exact MSpec.throw ((NoPos_mk0 _ _).posIn _)
        · intro _
          obtain ⟨n, hn⟩ := fuelOf_ge env
          rw [hn]
          apply MSpec.bind ((setContainerFromScalar_spec hwf (SpanOf P) SpanOf.hull n sc spec (.tag first)
            (hi first List.mem_cons_self).1).inv (fun _ _ h he => h.ext he))
          intro _ st0
          exact MSpec.pure (fun _ _ h => ⟨h.2.2.2.2, rfl⟩)
      | none =>
        simp only
        cases hl : (first :: rest).getLast? with
        | none => simp at hl
        | some last =>
          exact MSpec.errAt (HasPosIn.mk (SpanOf.hull _ _ (hi first List.mem_cons_self).1
            (hi last (List.mem_of_getLast? hl)).1) _ _).posIn

theorem walkTags_aux : ∀ (n : Nat) (tags : List TagValue), tags.length ≤ n →
    ∀ (lastPosition : Pos) (sc : Scope) (spec : BlockSpec),
    P lastPosition → (∀ t, t ∈ tags → TagIn P t) →
    MSpec env (walkTags env tags lastPosition sc spec) (fun st => ScopeOK env st sc)
      (fun res _ st' => ScopeOK env st' res.1 ∧ res.1.root = sc.root) (PosIn (SpanOf P)) := by
  intro n
  induction n with
  | zero =>
    intro tags hlen lastPosition sc spec hp _
    have : tags = [] := List.length_eq_zero_iff.mp (Nat.le_zero.mp hlen)
    subst this
    rw [walkTags]
    cases spec.name with
    | some nameSpec =>
      simp only
      apply MSpec.ite
      · intro _; exact MSpec.pure (fun _ _ h => ⟨h, rfl⟩)
      · intro _; exact MSpec.errAt (HasPosIn.mk (SpanOf.point hp) _ _).posIn
    | none =>
      simp only
      cases spec.typeSelect with
      | some _ => exact MSpec.errAt (HasPosIn.mk (SpanOf.point hp) _ _).posIn
      | none => exact finishTags_spec hwf P hz sc spec [] (fun _ h => by cases h)
  | succ n ih =>
    intro tags hlen lastPosition sc spec hp ht
    cases tags with
    | nil => exact ih [] (Nat.zero_le _) lastPosition sc spec hp ht
    | cons gotTag rest =>
      have hgot := ht gotTag List.mem_cons_self
      have hrest : ∀ t, t ∈ rest → TagIn P t := fun t h => ht t (List.mem_cons_of_mem _ h)
      have hlen' : rest.length ≤ n := by simpa using hlen
      rw [walkTags]
      cases spec.name with
      | some nameSpec =>
        simp only
        apply MSpec.bind (applyNameTag_spec hwf P hz sc nameSpec gotTag hgot)
        intro _ st0
        apply MSpec.weaken_pre (pre := fun st => ScopeOK env st sc) _ (fun _ _ h => h.2.2.2)
        cases spec.typeSelect with
        | none => exact finishTags_spec hwf P hz sc spec rest hrest
        | some typeSpec =>
          simp only
          cases rest with
          | nil => exact MSpec.errAt (HasPosIn.mk (SpanOf.point hgot.1.2) _ _).posIn
          | cons typeTag rest2 =>
            simp only
            have htt := hrest typeTag List.mem_cons_self
            apply MSpec.bind (selectType_spec hwf P hz sc typeSpec typeTag htt)
            intro typeScope st1
            apply MSpec.of_pre (P := typeScope.root = sc.root) (fun _ _ h => h.2.2.2.2)
            intro hroot
            refine (ih rest2 (by simp at hlen'; omega) typeTag.span.end_ typeScope _ htt.1.2
              (fun t h => hrest t (List.mem_cons_of_mem _ h))).conseq (fun _ _ h => h.2.2.2.1)
              (fun _ _ _ _ _ _ _ h => ⟨h.1, h.2.trans hroot⟩) (fun _ h => h)
      | none =>
        simp only
        cases spec.typeSelect with
        | none => exact finishTags_spec hwf P hz sc spec (gotTag :: rest) ht
        | some typeSpec =>
          simp only
          apply MSpec.bind (selectType_spec hwf P hz sc typeSpec gotTag hgot)
          intro typeScope st1
          apply MSpec.of_pre (P := typeScope.root = sc.root) (fun _ _ h => h.2.2.2.2)
          intro hroot
          refine (ih rest hlen' gotTag.span.end_ typeScope _ hgot.1.2 hrest).conseq
            (fun _ _ h => h.2.2.2.1) (fun _ _ _ _ _ _ _ h => ⟨h.1, h.2.trans hroot⟩) (fun _ h => h)

theorem walkTags_spec (tags : List TagValue) (lastPosition : Pos) (sc : Scope) (spec : BlockSpec)
    (hp : P lastPosition) (ht : ∀ t, t ∈ tags → TagIn P t) :
    MSpec env (walkTags env tags lastPosition sc spec) (fun st => ScopeOK env st sc)
      (fun res _ st' => ScopeOK env st' res.1 ∧ res.1.root = sc.root) (PosIn (SpanOf P)) :=
  walkTags_aux hwf P hz tags.length tags (Nat.le_refl _) lastPosition sc spec hp ht

theorem walkQualifiers_spec : ∀ (quals : List TagValue) (sc : Scope) (spec : BlockSpec),
    (∀ t, t ∈ quals → TagIn P t) →
    MSpec env (walkQualifiers env quals sc spec) (fun st => ScopeOK env st sc)
      (fun res _ st' => ScopeOK env st' res.1 ∧ res.1.root = sc.root) (PosIn (SpanOf P)) := by
  intro quals
  induction quals with
  | nil => intro sc spec _; exact MSpec.pure (fun _ _ h => ⟨h, rfl⟩)
  | cons qualifier rest ih =>
    intro sc spec ht
    have hq := ht qualifier List.mem_cons_self
    have hrest : ∀ t, t ∈ rest → TagIn P t := fun t h => ht t (List.mem_cons_of_mem _ h)
    rw [walkQualifiers]
    cases spec.qualifier with
    | none => exact MSpec.errAt (HasPosIn.mk hq.1 _ _).posIn
    | some tagSpec =>
      simp only
      apply MSpec.ite
      · intro _
        apply MSpec.bind (checkBang_spec hwf P hz sc tagSpec qualifier hq)
        intro _ st0
        apply MSpec.bind_from (pre0 := fun st => ScopeOK env st sc) (fun _ _ h => h.2.2.2)
        · exact setAttr hwf P hz sc _ _ (.tag qualifier) false hq.1 (fun _ h => by cases h)
        · intro _ st1
          apply MSpec.ite
          · intro _; exact MSpec.pure (fun _ _ h => ⟨h.2.2.2, rfl⟩)
          · intro hne
            cases rest with
            | nil => simp at hne
            | cons first rest2 =>
              obtain ⟨last, hlast⟩ : ∃ last, (first :: rest2).getLast? = some last :=
                ⟨_, List.getLast?_eq_some_getLast (by simp)⟩
              simp only [List.head?_cons, hlast]
              exact MSpec.errAt (HasPosIn.mk (SpanOf.hull _ _ (hrest first List.mem_cons_self).1
                (hrest last (List.mem_of_getLast? hlast)).1) _ _).posIn
      · intro _
        cases href : qualifier.reference with
        | none => exact MSpec.throw ((NoPos_mk0 _ _).posIn _)
        | some ref =>
          simp only
          apply MSpec.bind (buildScope_keep hwf P hz sc _ ref.idents (hq.2 ref href))
          intro newScope st0
          apply MSpec.of_pre (P := newScope.root = sc.root) (fun _ _ h => h.2.2.2.2)
          intro hroot
          apply MSpec.bind_from (pre0 := fun st => ScopeOK env st newScope) (fun _ _ h => h.2.2.2.1)
          · exact checkBang_spec hwf P hz newScope tagSpec qualifier hq
          · intro _ st1
            refine (ih newScope _ hrest).conseq (fun _ _ h => h.2.2.2)
              (fun _ _ _ _ _ _ _ h => ⟨h.1, h.2.trans hroot⟩) (fun _ h => h)

theorem doAssign_spec (sc : Scope) (a : Assignment) (hk : ∀ i, i ∈ a.key.idents → SpanOf P i.span)
    (hv : ValueIn (SpanOf P) a.value) :
    MSpec env (doAssign env sc a) (fun st => ScopeOK env st sc)
      (fun _ _ st' => ScopeOK env st' sc) (PosIn (SpanOf P)) :=
  setAttr hwf P hz sc [] a.key.idents (.value a.value) a.append hv hk

theorem doDescription_spec (sc : Scope) (d : Description) (hroot : sc.root.isSome = true)
    (hd : SpanOf P d.span) :
    MSpec env (doDescription env sc d) (fun st => ScopeOK env st sc)
      (fun _ _ st' => ScopeOK env st' sc) (HasPosIn (SpanOf P)) :=
  MSpec.addPosition (setDescription_spec hwf P hz sc _ hroot hd) (fun _ h => h.addPosition hd)

theorem doBlockDescription_spec (sc : Scope) (rootBlockSpec : BlockSpec) (h : BlockHeader)
    (hh : HeaderIn P h) :
    MSpec env (doBlockDescription env sc rootBlockSpec h) (fun st => ScopeOK env st sc)
      (fun _ _ st' => ScopeOK env st' sc) (PosIn (SpanOf P)) := by
  unfold doBlockDescription
  cases hd : h.description with
  | none => exact MSpec.pure (fun _ _ h => h)
  | some desc =>
    simp only
    cases rootBlockSpec.description with
    | none => exact MSpec.errAt (HasPosIn.mk (hh.description desc hd) _ _).posIn
    | some f => exact setAttr hwf P hz sc _ _ _ false hh.span (fun _ h => by cases h)

theorem doBlockHead_spec (sc : Scope) (spec : BlockSpec) (h : BlockHeader) (hh : HeaderIn P h) :
    MSpec env (doBlockHead env sc spec h) (fun st => ScopeOK env st sc)
      (fun res _ st' => ScopeOK env st' res ∧ res.root = sc.root) (PosIn (SpanOf P)) := by
  unfold doBlockHead
  simp only
  apply MSpec.bind (walkTags_spec hwf P hz h.tags h.type.span.end_ sc spec hh.typeEnd hh.tags)
  intro r1 st0
  obtain ⟨sc1, spec1⟩ := r1
  simp only
  apply MSpec.of_pre (P := sc1.root = sc.root) (fun _ _ h => h.2.2.2.2)
  intro hr1
  apply MSpec.bind_from (pre0 := fun st => ScopeOK env st sc1) (fun _ _ h => h.2.2.2.1)
  · exact walkQualifiers_spec hwf P hz h.qualifiers sc1 spec1 hh.qualifiers
  · intro r2 st1
    obtain ⟨sc2, spec2⟩ := r2
    simp only
    apply MSpec.of_pre (P := sc2.root = sc1.root) (fun _ _ h => h.2.2.2.2)
    intro hr2
    apply MSpec.bind_from (pre0 := fun st => ScopeOK env st sc2) (fun _ _ h => h.2.2.2.1)
    · exact doBlockDescription_spec hwf P hz sc2 spec h hh
    · intro _ st2
      exact MSpec.pure (fun _ _ h => ⟨h.2.2.2, hr2.trans hr1⟩)

theorem doFullBlockHead_spec (sc : Scope) (h : BlockHeader) (hh : HeaderIn P h) :
    MSpec env (doFullBlockHead env sc h) (fun st => ScopeOK env st sc)
      (fun res _ st' => ScopeOK env st' res ∧ res.root.isSome = true) (PosIn (SpanOf P)) := by
  unfold doFullBlockHead
  apply MSpec.bind (buildScope_spec hwf (SpanOf P) sc [] h.type.idents .resetScope hh.typeIdents)
  intro newScope st0
  apply MSpec.of_pre (P := newScope.root.isSome = true)
  · intro _ _ hp
    have := hp.2.2.2.2.2 rfl (by
      simp only [combinePath, List.map_nil, List.nil_append, ne_eq, List.map_eq_nil_iff]
      exact hh.typeNonempty)
    rw [this]; rfl
  · intro hroot
    exact (doBlockHead_spec hwf P hz newScope _ h hh).conseq (fun _ _ h => h.2.2.2.1)
      (fun _ _ _ _ _ _ _ h => ⟨h.1, by rw [h.2]; exact hroot⟩) (fun _ h => h)

/-- `doBody` from the specs of its statements -/
theorem doBody_of_statements : ∀ (body : List Statement) (sc : Scope),
    (∀ s, s ∈ body → MSpec env (doStatement env sc s) (fun st => ScopeOK env st sc)
      (fun _ _ st' => ScopeOK env st' sc) (HasPosIn (SpanOf P))) →
    MSpec env (doBody env sc body) (fun st => ScopeOK env st sc)
      (fun _ _ st' => ScopeOK env st' sc) (HasPosIn (SpanOf P)) := by
  intro body
  induction body with
  | nil => intro sc _; rw [doBody]; exact MSpec.pure (fun _ _ h => h)
  | cons decl rest ih =>
    intro sc hs
    rw [doBody]
    apply MSpec.bind (hs decl List.mem_cons_self)
    intro _ st0
    exact (ih sc (fun s h => hs s (List.mem_cons_of_mem _ h))).weaken_pre (fun _ _ h => h.2.2.2)

theorem doStatement_spec (s : Statement) (hs : StmtIn P s) : ∀ (sc : Scope), sc.root.isSome = true →
    MSpec env (doStatement env sc s) (fun st => ScopeOK env st sc)
      (fun _ _ st' => ScopeOK env st' sc) (HasPosIn (SpanOf P)) := by
  induction hs with
  | desc d hd =>
    intro sc hroot
    rw [doStatement]
    exact MSpec.addPosition (doDescription_spec hwf P hz sc d hroot hd) (fun _ h => h.addPosition _)
  | assign a hsp hk hv =>
    intro sc hroot
    rw [doStatement]
    exact MSpec.addPosition (doAssign_spec hwf P hz sc a hk hv) (fun _ h => h.addPosition hsp)
  | block h body hh _ ih =>
    intro sc hroot
    rw [doStatement]
    apply MSpec.addPosition (epost := PosIn (SpanOf P)) _ (fun _ h => h.addPosition hh.span)
    apply MSpec.bind ((doFullBlockHead_spec hwf P hz sc h hh).inv (fun _ _ h he => h.ext he))
    intro bodyScope st0
    apply MSpec.of_pre (P := bodyScope.root.isSome = true) (fun _ _ h => h.2.2.2.1.2)
    intro hbroot
    refine (doBody_of_statements hwf P hz body bodyScope (fun s hs => ih s hs bodyScope hbroot)).conseq
      (fun _ _ h => h.2.2.2.1.1) (fun _ _ _ _ hp _ he _ => hp.2.2.2.2.ext he) (fun _ h => h.posIn)

theorem doBody_spec (body : List Statement) (hb : ∀ s, s ∈ body → StmtIn P s) (sc : Scope)
    (hroot : sc.root.isSome = true) :
    MSpec env (doBody env sc body) (fun st => ScopeOK env st sc)
      (fun _ _ st' => ScopeOK env st' sc) (HasPosIn (SpanOf P)) :=
  doBody_of_statements hwf P hz body sc (fun s hs => doStatement_spec hwf P hz s (hb s hs) sc hroot)

/-- **the walk**: from a well-typed message, over statements whose block type references have an ident,
`walkSchema` does not panic; the resulting tree is well typed and extends the message; an error of the
walk carries a position between two positions of `P` (the positions of the statements, and `0:0`); an
error of `newRootSchemaWalker` (the spec of the root schema cannot be built) carries none -/
theorem walkSchema_spec (body : List Statement) (msg : Node) (hb : ∀ s, s ∈ body → StmtIn P s)
    (hmsg : TreeOK env msg) :
    match walkSchema env body msg with
    | .ok tree => TreeOK env tree ∧ Ext env msg tree
    | .err e => HasPosIn (SpanOf P) e ∨ (NoPos e ∧ newRootSchemaWalker env = .err e)
    | .panic _ => False := by
  unfold walkSchema
  cases hr : newRootSchemaWalker env with
  | panic w => exact absurd hr (newRootSchemaWalker_no_panic env w)
  | err e => exact .inr ⟨newRootSchemaWalker_err_noPos hr, rfl⟩
  | ok scope =>
    simp only
    obtain ⟨hsc, hroot⟩ := newRootSchemaWalker_valid hr hmsg
    have := doBody_spec hwf P hz body hb scope hroot msg hmsg hsc
    cases hd : doBody env scope body msg with
    | ok r =>
      obtain ⟨u, tree⟩ := r
      rw [hd] at this
      exact ⟨this.1, this.2.1⟩
    | err e => rw [hd] at this; exact .inl this
    | panic w => rw [hd] at this; exact this
end
end J5V.Walker
