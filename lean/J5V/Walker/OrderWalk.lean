import J5V.Walker.WalkProofs
import J5V.Walker.OrderAttr
/-!
# `Walk.lean` verified once more, for a set of SPANS instead of a set of positions

`WalkProofs.lean` tracks the two END POINTS of an error span (`SpanOf P`, closed under hulls). Here
`S : Span → Prop` is any set of spans with `S Span.zero` (the span of the synthetic `true` of a `!` / `?`
mark); `StmtInS S s` says that every span the walker can take from the statement is in `S`:

* node spans (statement, key / type idents, tags and qualifiers with their reference idents, values incl.
  array elements, descriptions);
* the POINT spans `walkTags` builds: at the end of the type reference and at the end of every tag;
* the HULLS `⟨first.span.start, last.span.end_⟩` of every non-empty sublist of the tags (`finishTags`: a
  suffix), of the qualifiers (`walkQualifiers`: a suffix) and of the elements of every array value
  (`setContainerFromScalar`: `ValueInS`, `OrderAttr.lean`).

Result: `walkSchema_specS` — the statement of `walkSchema_spec` with `HasPosIn S`. Instantiated with
`S := SpanOrd` in `OrderMain.lean`. The proofs are those of `WalkProofs.lean`, with the hull steps taken from
`HullsIn` instead of `SpanOf.hull`.
-/
namespace J5V.Walker
open J5V.Bcl

/-- the spans of a tag: its own, the point at its end, and those of the idents of its reference -/
def TagInS (S : Span → Prop) (t : TagValue) : Prop :=
  S t.span ∧ S (pointSpan t.span.end_) ∧
    ∀ ref, t.reference = some ref → ∀ i, i ∈ ref.idents → S i.span

set_option linter.unusedSectionVars false

/-- every span the walker can take from the block header is in `S`; the type reference has an ident -/
structure HeaderInS (S : Span → Prop) (h : BlockHeader) : Prop where
  typeNonempty : h.type.idents ≠ []
  typeIdents : ∀ i, i ∈ h.type.idents → S i.span
  typeEnd : S (pointSpan h.type.span.end_)
  tags : ∀ t, t ∈ h.tags → TagInS S t
  tagsHull : HullsIn S (h.tags.map (·.span))
  qualifiers : ∀ t, t ∈ h.qualifiers → TagInS S t
  qualifiersHull : HullsIn S (h.qualifiers.map (·.span))
  description : ∀ d, h.description = some d → S d.span
  span : S (headerSpan h)

/-- every span the walker can take from the statement is in `S`, and every block type reference has an
ident -/
inductive StmtInS (S : Span → Prop) : Statement → Prop where
  | desc (d : Description) : S d.span → StmtInS S (.desc d)
  | assign (a : Assignment) : S (assignSpan a) → (∀ i, i ∈ a.key.idents → S i.span) →
      ValueInS S a.value → StmtInS S (.assign a)
  | block (h : BlockHeader) (body : List Statement) : HeaderInS S h → (∀ s, s ∈ body → StmtInS S s) →
      StmtInS S (.block h body)

theorem HullsIn.tail {S : Span → Prop} {x : Span} {l : List Span} (h : HullsIn S (x :: l)) : HullsIn S l :=
  HullsIn.sublist h (List.sublist_cons_self x l)

theorem hullsIn_nil (S : Span → Prop) : HullsIn S [] := by
  intro l' hs first last hf _
  rw [List.sublist_nil.mp hs] at hf; cases hf

variable {env : Env}

section
variable (hwf : env.WF = true) (S : Span → Prop) (hz : S Span.zero)
include hwf hz

theorem setAttrS (sc : Scope) (path : PathSpec) (ref : List Ident) (val : AV) (app : Bool)
    (hv : AVInS S val) (hS : ∀ i, i ∈ ref → S i.span) :
    MSpec env (setAttribute env (fuelOf env) sc path ref val app)
      (fun st => ScopeOK env st sc) (fun _ _ st' => ScopeOK env st' sc) (PosIn S) := by
  obtain ⟨n, hn⟩ := fuelOf_ge env
  rw [hn]
  exact ((setAttribute_specS hwf S (n + 1) sc path ref val app hv hS).inv
    (fun _ _ h he => h.ext he)).conseq (fun _ _ h => h) (fun _ _ _ _ _ _ _ h => h.2) (fun _ h => h)

theorem setDescription_specS (sc : Scope) (d : AV) (hroot : sc.root.isSome = true)
    (hv : AVInS S d) :
    MSpec env (setDescription env sc d) (fun st => ScopeOK env st sc)
      (fun _ _ st' => ScopeOK env st' sc) (PosIn S) := by
  unfold setDescription
  cases hr : sc.root with
  | none => rw [hr] at hroot; cases hroot
  | some root =>
    simp only
    cases root.spec.description with
    | none => exact MSpec.throw ((NoPos_mk0 _ _).posIn _)
    | some descSpec => exact setAttrS hwf S hz sc _ _ d false hv (fun _ h => by cases h)

theorem checkBang_specS (sc : Scope) (tagSpec : Tag) (gotTag : TagValue) (ht : TagInS S gotTag) :
    MSpec env (checkBang env sc tagSpec gotTag) (fun st => ScopeOK env st sc)
      (fun _ _ st' => ScopeOK env st' sc) (PosIn S) := by
  unfold checkBang
  cases gotTag.mark with
  | none => exact MSpec.pure (fun _ _ h => h)
  | bang =>
    simp only
    cases tagSpec.bangFieldName with
    | none => exact MSpec.errAt (HasPosIn.mk ht.1 _ _).posIn
    | some f => exact setAttrS hwf S hz sc _ _ _ false (show AVInS S (.bool true) from hz) (fun _ h => by cases h)
  | question =>
    simp only
    cases tagSpec.questionFieldName with
    | none => exact MSpec.errAt (HasPosIn.mk ht.1 _ _).posIn
    | some f => exact setAttrS hwf S hz sc _ _ _ false (show AVInS S (.bool true) from hz) (fun _ h => by cases h)

theorem applyNameTag_specS (sc : Scope) (tagSpec : Tag) (gotTag : TagValue) (ht : TagInS S gotTag) :
    MSpec env (applyNameTag env sc tagSpec gotTag) (fun st => ScopeOK env st sc)
      (fun _ _ st' => ScopeOK env st' sc) (PosIn S) := by
  unfold applyNameTag
  apply MSpec.bind (checkBang_specS hwf S hz sc tagSpec gotTag ht)
  intro _ st0
  exact (setAttrS hwf S hz sc _ _ (.tag gotTag) false (show AVInS S (.tag gotTag) from ht.1)
    (fun _ h => by cases h)).weaken_pre (fun _ _ h => h.2.2.2)

theorem buildScope_keepS (sc : Scope) (schemaPath : PathSpec) (userPath : List Ident)
    (hS : ∀ i, i ∈ userPath → S i.span) :
    MSpec env (buildScope env sc schemaPath userPath .keepScope) (fun st => ScopeOK env st sc)
      (fun res _ st' => ScopeOK env st' res ∧ res.root = sc.root) (PosIn S) :=
  (buildScope_spec hwf S sc schemaPath userPath .keepScope hS).conseq (fun _ _ h => h)
    (fun _ _ _ _ _ _ _ h => ⟨h.1, h.2.1 rfl⟩) (fun _ h => h)

theorem selectType_specS (sc : Scope) (tagSpec : Tag) (gotTag : TagValue) (ht : TagInS S gotTag) :
    MSpec env (selectType env sc tagSpec gotTag) (fun st => ScopeOK env st sc)
      (fun res _ st' => ScopeOK env st' res ∧ res.root = sc.root) (PosIn S) := by
  unfold selectType
  cases href : gotTag.reference with
  | none => exact MSpec.throw ((NoPos_mk0 _ _).posIn _)
  | some ref =>
    simp only
    apply MSpec.bind (buildScope_keepS hwf S hz sc _ ref.idents (ht.2.2 ref href))
    intro typeScope st0
    apply MSpec.of_pre (P := typeScope.root = sc.root) (fun _ _ h => h.2.2.2.2)
    intro hroot
    apply MSpec.bind_from (pre0 := fun st => ScopeOK env st typeScope) (fun _ _ h => h.2.2.2.1)
    · exact checkBang_specS hwf S hz typeScope tagSpec gotTag ht
    · intro _ st1
      exact MSpec.pure (fun _ _ h => ⟨h.2.2.2, hroot⟩)

/-- `finishTags` on a list of tags whose sublist hulls are in `S` -/
theorem finishTags_specS (sc : Scope) (spec : BlockSpec) (items : List TagValue)
    (hi : ∀ t, t ∈ items → TagInS S t) (hh : HullsIn S (items.map (·.span))) :
    MSpec env (finishTags env sc spec items) (fun st => ScopeOK env st sc)
      (fun res _ st' => ScopeOK env st' res.1 ∧ res.1.root = sc.root) (PosIn S) := by
  unfold finishTags
  cases items with
  | nil => exact MSpec.pure (fun _ _ h => ⟨h, rfl⟩)
  | cons first rest =>
    simp only
    cases hfind : (first :: rest).find? (fun t => t.mark != .none) with
    | some tag =>
      exact MSpec.errAt (HasPosIn.mk (hi tag (List.mem_of_find?_eq_some hfind)).1 _ _).posIn
    | none =>
      simp only
      cases spec.scalarSplit with
      | some _ =>
        simp only
        apply MSpec.ite
        · intro _; exact MSpec.throw ((NoPos_mk0 _ _).posIn _)
        · intro _
          obtain ⟨n, hn⟩ := fuelOf_ge env
          rw [hn]
          apply MSpec.bind ((setContainerFromScalar_specS hwf S n sc spec (.tag first)
            (show AVInS S (.tag first) from (hi first List.mem_cons_self).1)).inv (fun _ _ h he => h.ext he))
          intro _ st0
          exact MSpec.pure (fun _ _ h => ⟨h.2.2.2.2, rfl⟩)
      | none =>
        simp only
        cases hl : (first :: rest).getLast? with
        | none => simp at hl
        | some last =>
          refine MSpec.errAt (HasPosIn.mk ?_ _ _).posIn
          refine hh _ (List.Sublist.refl _) first.span last.span rfl ?_
          rw [List.getLast?_map, hl]; rfl

theorem walkTags_auxS : ∀ (n : Nat) (tags : List TagValue), tags.length ≤ n →
    ∀ (lastPosition : Pos) (sc : Scope) (spec : BlockSpec),
    S (pointSpan lastPosition) → (∀ t, t ∈ tags → TagInS S t) → HullsIn S (tags.map (·.span)) →
    MSpec env (walkTags env tags lastPosition sc spec) (fun st => ScopeOK env st sc)
      (fun res _ st' => ScopeOK env st' res.1 ∧ res.1.root = sc.root) (PosIn S) := by
  intro n
  induction n with
  | zero =>
    intro tags hlen lastPosition sc spec hp _ _
    have : tags = [] := List.length_eq_zero_iff.mp (Nat.le_zero.mp hlen)
    subst this
    rw [walkTags]
    cases spec.name with
    | some nameSpec =>
      simp only
      apply MSpec.ite
      · intro _; exact MSpec.pure (fun _ _ h => ⟨h, rfl⟩)
      · intro _; exact MSpec.errAt (HasPosIn.mk hp _ _).posIn
    | none =>
      simp only
      cases spec.typeSelect with
      | some _ => exact MSpec.errAt (HasPosIn.mk hp _ _).posIn
      | none => exact finishTags_specS hwf S hz sc spec [] (fun _ h => by cases h) (hullsIn_nil S)
  | succ n ih =>
    intro tags hlen lastPosition sc spec hp ht hh
    cases tags with
    | nil => exact ih [] (Nat.zero_le _) lastPosition sc spec hp ht hh
    | cons gotTag rest =>
      have hgot := ht gotTag List.mem_cons_self
      have hrest : ∀ t, t ∈ rest → TagInS S t := fun t h => ht t (List.mem_cons_of_mem _ h)
      have hhrest : HullsIn S (rest.map (·.span)) := HullsIn.tail hh
      have hlen' : rest.length ≤ n := by simpa using hlen
      rw [walkTags]
      cases spec.name with
      | some nameSpec =>
        simp only
        apply MSpec.bind (applyNameTag_specS hwf S hz sc nameSpec gotTag hgot)
        intro _ st0
        apply MSpec.weaken_pre (pre := fun st => ScopeOK env st sc) _ (fun _ _ h => h.2.2.2)
        cases spec.typeSelect with
        | none => exact finishTags_specS hwf S hz sc spec rest hrest hhrest
        | some typeSpec =>
          simp only
          cases rest with
          | nil => exact MSpec.errAt (HasPosIn.mk hgot.2.1 _ _).posIn
          | cons typeTag rest2 =>
            simp only
            have htt := hrest typeTag List.mem_cons_self
            apply MSpec.bind (selectType_specS hwf S hz sc typeSpec typeTag htt)
            intro typeScope st1
            apply MSpec.of_pre (P := typeScope.root = sc.root) (fun _ _ h => h.2.2.2.2)
            intro hroot
            refine (ih rest2 (by simp at hlen'; omega) typeTag.span.end_ typeScope _ htt.2.1
              (fun t h => hrest t (List.mem_cons_of_mem _ h)) (HullsIn.tail hhrest)).conseq
              (fun _ _ h => h.2.2.2.1)
              (fun _ _ _ _ _ _ _ h => ⟨h.1, h.2.trans hroot⟩) (fun _ h => h)
      | none =>
        simp only
        cases spec.typeSelect with
        | none => exact finishTags_specS hwf S hz sc spec (gotTag :: rest) ht hh
        | some typeSpec =>
          simp only
          apply MSpec.bind (selectType_specS hwf S hz sc typeSpec gotTag hgot)
          intro typeScope st1
          apply MSpec.of_pre (P := typeScope.root = sc.root) (fun _ _ h => h.2.2.2.2)
          intro hroot
          refine (ih rest hlen' gotTag.span.end_ typeScope _ hgot.2.1 hrest hhrest).conseq
            (fun _ _ h => h.2.2.2.1) (fun _ _ _ _ _ _ _ h => ⟨h.1, h.2.trans hroot⟩) (fun _ h => h)

theorem walkTags_specS (tags : List TagValue) (lastPosition : Pos) (sc : Scope) (spec : BlockSpec)
    (hp : S (pointSpan lastPosition)) (ht : ∀ t, t ∈ tags → TagInS S t)
    (hh : HullsIn S (tags.map (·.span))) :
    MSpec env (walkTags env tags lastPosition sc spec) (fun st => ScopeOK env st sc)
      (fun res _ st' => ScopeOK env st' res.1 ∧ res.1.root = sc.root) (PosIn S) :=
  walkTags_auxS hwf S hz tags.length tags (Nat.le_refl _) lastPosition sc spec hp ht hh

theorem walkQualifiers_specS : ∀ (quals : List TagValue) (sc : Scope) (spec : BlockSpec),
    (∀ t, t ∈ quals → TagInS S t) → HullsIn S (quals.map (·.span)) →
    MSpec env (walkQualifiers env quals sc spec) (fun st => ScopeOK env st sc)
      (fun res _ st' => ScopeOK env st' res.1 ∧ res.1.root = sc.root) (PosIn S) := by
  intro quals
  induction quals with
  | nil => intro sc spec _ _; exact MSpec.pure (fun _ _ h => ⟨h, rfl⟩)
  | cons qualifier rest ih =>
    intro sc spec ht hh
    have hq := ht qualifier List.mem_cons_self
    have hrest : ∀ t, t ∈ rest → TagInS S t := fun t h => ht t (List.mem_cons_of_mem _ h)
    have hhrest : HullsIn S (rest.map (·.span)) := HullsIn.tail hh
    rw [walkQualifiers]
    cases spec.qualifier with
    | none => exact MSpec.errAt (HasPosIn.mk hq.1 _ _).posIn
    | some tagSpec =>
      simp only
      apply MSpec.ite
      · intro _
        apply MSpec.bind (checkBang_specS hwf S hz sc tagSpec qualifier hq)
        intro _ st0
        apply MSpec.bind_from (pre0 := fun st => ScopeOK env st sc) (fun _ _ h => h.2.2.2)
        · exact setAttrS hwf S hz sc _ _ (.tag qualifier) false (show AVInS S (.tag qualifier) from hq.1)
            (fun _ h => by cases h)
        · intro _ st1
          apply MSpec.ite
          · intro _; exact MSpec.pure (fun _ _ h => ⟨h.2.2.2, rfl⟩)
          · intro hne
            cases rest with
            | nil => simp at hne
            | cons first rest2 =>
              obtain ⟨last, hlast⟩ : ∃ last, (first :: rest2).getLast? = some last :=
                ⟨_, List.getLast?_eq_some_getLast (by simp)⟩
              simp only [List.head?_cons, hlast]
              refine MSpec.errAt (HasPosIn.mk ?_ _ _).posIn
              refine hhrest _ (List.Sublist.refl _) first.span last.span rfl ?_
              rw [List.getLast?_map, hlast]; rfl
      · intro _
        cases href : qualifier.reference with
        | none => exact MSpec.throw ((NoPos_mk0 _ _).posIn _)
        | some ref =>
          simp only
          apply MSpec.bind (buildScope_keepS hwf S hz sc _ ref.idents (hq.2.2 ref href))
          intro newScope st0
          apply MSpec.of_pre (P := newScope.root = sc.root) (fun _ _ h => h.2.2.2.2)
          intro hroot
          apply MSpec.bind_from (pre0 := fun st => ScopeOK env st newScope) (fun _ _ h => h.2.2.2.1)
          · exact checkBang_specS hwf S hz newScope tagSpec qualifier hq
          · intro _ st1
            refine (ih newScope _ hrest hhrest).conseq (fun _ _ h => h.2.2.2)
              (fun _ _ _ _ _ _ _ h => ⟨h.1, h.2.trans hroot⟩) (fun _ h => h)

theorem doAssign_specS (sc : Scope) (a : Assignment) (hk : ∀ i, i ∈ a.key.idents → S i.span)
    (hv : ValueInS S a.value) :
    MSpec env (doAssign env sc a) (fun st => ScopeOK env st sc)
      (fun _ _ st' => ScopeOK env st' sc) (PosIn S) :=
  setAttrS hwf S hz sc [] a.key.idents (.value a.value) a.append hv hk

theorem doDescription_specS (sc : Scope) (d : Description) (hroot : sc.root.isSome = true)
    (hd : S d.span) :
    MSpec env (doDescription env sc d) (fun st => ScopeOK env st sc)
      (fun _ _ st' => ScopeOK env st' sc) (HasPosIn S) :=
  MSpec.addPosition (setDescription_specS hwf S hz sc _ hroot (show AVInS S (.str _ d.span) from hd))
    (fun _ h => h.addPosition hd)

theorem doBlockDescription_specS (sc : Scope) (rootBlockSpec : BlockSpec) (h : BlockHeader)
    (hh : HeaderInS S h) :
    MSpec env (doBlockDescription env sc rootBlockSpec h) (fun st => ScopeOK env st sc)
      (fun _ _ st' => ScopeOK env st' sc) (PosIn S) := by
  unfold doBlockDescription
  cases hd : h.description with
  | none => exact MSpec.pure (fun _ _ h => h)
  | some desc =>
    simp only
    cases rootBlockSpec.description with
    | none => exact MSpec.errAt (HasPosIn.mk (hh.description desc hd) _ _).posIn
    | some f =>
      exact setAttrS hwf S hz sc _ _ _ false (show AVInS S (.str _ (headerSpan h)) from hh.span)
        (fun _ h => by cases h)

theorem doBlockHead_specS (sc : Scope) (spec : BlockSpec) (h : BlockHeader) (hh : HeaderInS S h) :
    MSpec env (doBlockHead env sc spec h) (fun st => ScopeOK env st sc)
      (fun res _ st' => ScopeOK env st' res ∧ res.root = sc.root) (PosIn S) := by
  unfold doBlockHead
  simp only
  apply MSpec.bind (walkTags_specS hwf S hz h.tags h.type.span.end_ sc spec hh.typeEnd hh.tags hh.tagsHull)
  intro r1 st0
  obtain ⟨sc1, spec1⟩ := r1
  simp only
  apply MSpec.of_pre (P := sc1.root = sc.root) (fun _ _ h => h.2.2.2.2)
  intro hr1
  apply MSpec.bind_from (pre0 := fun st => ScopeOK env st sc1) (fun _ _ h => h.2.2.2.1)
  · exact walkQualifiers_specS hwf S hz h.qualifiers sc1 spec1 hh.qualifiers hh.qualifiersHull
  · intro r2 st1
    obtain ⟨sc2, spec2⟩ := r2
    simp only
    apply MSpec.of_pre (P := sc2.root = sc1.root) (fun _ _ h => h.2.2.2.2)
    intro hr2
    apply MSpec.bind_from (pre0 := fun st => ScopeOK env st sc2) (fun _ _ h => h.2.2.2.1)
    · exact doBlockDescription_specS hwf S hz sc2 spec h hh
    · intro _ st2
      exact MSpec.pure (fun _ _ h => ⟨h.2.2.2, hr2.trans hr1⟩)

theorem doFullBlockHead_specS (sc : Scope) (h : BlockHeader) (hh : HeaderInS S h) :
    MSpec env (doFullBlockHead env sc h) (fun st => ScopeOK env st sc)
      (fun res _ st' => ScopeOK env st' res ∧ res.root.isSome = true) (PosIn S) := by
  unfold doFullBlockHead
  apply MSpec.bind (buildScope_spec hwf S sc [] h.type.idents .resetScope hh.typeIdents)
  intro newScope st0
  apply MSpec.of_pre (P := newScope.root.isSome = true)
  · intro _ _ hp
    have := hp.2.2.2.2.2 rfl (by
      simp only [combinePath, List.map_nil, List.nil_append, ne_eq, List.map_eq_nil_iff]
      exact hh.typeNonempty)
    rw [this]; rfl
  · intro hroot
    exact (doBlockHead_specS hwf S hz newScope _ h hh).conseq (fun _ _ h => h.2.2.2.1)
      (fun _ _ _ _ _ _ _ h => ⟨h.1, by rw [h.2]; exact hroot⟩) (fun _ h => h)

/-- `doBody` from the specs of its statements -/
theorem doBody_of_statementsS : ∀ (body : List Statement) (sc : Scope),
    (∀ s, s ∈ body → MSpec env (doStatement env sc s) (fun st => ScopeOK env st sc)
      (fun _ _ st' => ScopeOK env st' sc) (HasPosIn S)) →
    MSpec env (doBody env sc body) (fun st => ScopeOK env st sc)
      (fun _ _ st' => ScopeOK env st' sc) (HasPosIn S) := by
  intro body
  induction body with
  | nil => intro sc _; rw [doBody]; exact MSpec.pure (fun _ _ h => h)
  | cons decl rest ih =>
    intro sc hs
    rw [doBody]
    apply MSpec.bind (hs decl List.mem_cons_self)
    intro _ st0
    exact (ih sc (fun s h => hs s (List.mem_cons_of_mem _ h))).weaken_pre (fun _ _ h => h.2.2.2)

theorem doStatement_specS (s : Statement) (hs : StmtInS S s) : ∀ (sc : Scope), sc.root.isSome = true →
    MSpec env (doStatement env sc s) (fun st => ScopeOK env st sc)
      (fun _ _ st' => ScopeOK env st' sc) (HasPosIn S) := by
  induction hs with
  | desc d hd =>
    intro sc hroot
    rw [doStatement]
    exact MSpec.addPosition (doDescription_specS hwf S hz sc d hroot hd) (fun _ h => h.addPosition _)
  | assign a hsp hk hv =>
    intro sc hroot
    rw [doStatement]
    exact MSpec.addPosition (doAssign_specS hwf S hz sc a hk hv) (fun _ h => h.addPosition hsp)
  | block h body hh _ ih =>
    intro sc hroot
    rw [doStatement]
    apply MSpec.addPosition (epost := PosIn S) _ (fun _ h => h.addPosition hh.span)
    apply MSpec.bind ((doFullBlockHead_specS hwf S hz sc h hh).inv (fun _ _ h he => h.ext he))
    intro bodyScope st0
    apply MSpec.of_pre (P := bodyScope.root.isSome = true) (fun _ _ h => h.2.2.2.1.2)
    intro hbroot
    refine (doBody_of_statementsS hwf S hz body bodyScope (fun s hs => ih s hs bodyScope hbroot)).conseq
      (fun _ _ h => h.2.2.2.1.1) (fun _ _ _ _ hp _ he _ => hp.2.2.2.2.ext he) (fun _ h => h.posIn)

theorem doBody_specS (body : List Statement) (hb : ∀ s, s ∈ body → StmtInS S s) (sc : Scope)
    (hroot : sc.root.isSome = true) :
    MSpec env (doBody env sc body) (fun st => ScopeOK env st sc)
      (fun _ _ st' => ScopeOK env st' sc) (HasPosIn S) :=
  doBody_of_statementsS hwf S hz body sc (fun s hs => doStatement_specS hwf S hz s (hb s hs) sc hroot)

/-- **the walk, for a set of spans**: from a well-typed message, over statements all of whose walker
spans (node spans, point spans, hulls of runs of tags / qualifiers / array elements) are in `S`, with
`S Span.zero`: no panic; a result is well typed and extends the message; an error of the walk carries a span
of `S`; an error of `newRootSchemaWalker` carries none -/
theorem walkSchema_specS (body : List Statement) (msg : Node) (hb : ∀ s, s ∈ body → StmtInS S s)
    (hmsg : TreeOK env msg) :
    match walkSchema env body msg with
    | .ok tree => TreeOK env tree ∧ Ext env msg tree
    | .err e => HasPosIn S e ∨ (NoPos e ∧ newRootSchemaWalker env = .err e)
    | .panic _ => False := by
  unfold walkSchema
  cases hr : newRootSchemaWalker env with
  | panic w => exact absurd hr (newRootSchemaWalker_no_panic env w)
  | err e => exact .inr ⟨newRootSchemaWalker_err_noPos hr, rfl⟩
  | ok scope =>
    simp only
    obtain ⟨hsc, hroot⟩ := newRootSchemaWalker_valid hr hmsg
    have := doBody_specS hwf S hz body hb scope hroot msg hmsg hsc
    cases hd : doBody env scope body msg with
    | ok r =>
      obtain ⟨u, tree⟩ := r
      rw [hd] at this
      exact ⟨this.1, this.2.1⟩
    | err e => rw [hd] at this; exact .inl this
    | panic w => rw [hd] at this; exact this
end
end J5V.Walker
