import J5V.Bcl.Parser
import J5V.Bcl.LexerProofs
/-!
# `BodyOrdered`: the ORDER facts about a BCL syntax tree the walker's error spans rest on

The walker (`Walk.lean`) puts on an error the span of ONE node, a POINT span, the zero span, or a HULL
`⟨first.span.start, last.span.end_⟩` of a non-empty run of tags / qualifiers (`finishTags`,
`walkQualifiers`) or of array elements (`setContainerFromScalar`, the `remaining` values). For
`start ≤ end_` of every such span it is enough that

* every node span the walker reads has `start ≤ end_` (`SpanOrd`), and
* the tags of a header, its qualifiers, and the elements of every array value (nested ones included) are in
  SOURCE ORDER: each one ends before every later one starts (`InOrder`, a `List.Pairwise`).

Only definitions (and the two facts about hulls) live here: the parser side (`J5V/Bcl/OrderProofs.lean`:
every `parseFile` tree is `BodyOrdered`) and the walker side (`OrderSpans.lean`, `OrderAttr.lean`,
`OrderWalk.lean`, `OrderMain.lean`) both import this file.
-/
namespace J5V.Walker
open J5V.Bcl

/-- the span is not reversed: `start ≤ end_` (lexicographic `Pos.le`) -/
def SpanOrd (sp : Span) : Prop := sp.start ≤ sp.end_

/-- spans in source order: each one ends before (or where) every later one starts -/
def InOrder (l : List Span) : Prop := l.Pairwise (fun a b => a.end_ ≤ b.start)

mutual
/-- every span of the value is not reversed, and the elements of every array (nested ones included) are in
source order -/
def ValueOrdered : Value → Prop
  | .scalar _ sp => SpanOrd sp
  | .array vs sp => SpanOrd sp ∧ ValuesOrdered vs ∧ InOrder (vs.map Value.span)
/-- `ValueOrdered` for every value of the list -/
def ValuesOrdered : List Value → Prop
  | [] => True
  | v :: vs => ValueOrdered v ∧ ValuesOrdered vs
end

/-- the spans of a tag the walker reads: its own and those of the idents of its reference -/
def TagOrdered (t : TagValue) : Prop :=
  SpanOrd t.span ∧ ∀ ref, t.reference = some ref → ∀ i, i ∈ ref.idents → SpanOrd i.span

/-- the spans of a block header the walker reads are not reversed; tags and qualifiers are in source
order -/
structure HeaderOrdered (h : BlockHeader) : Prop where
  typeIdents : ∀ i, i ∈ h.type.idents → SpanOrd i.span
  tags : ∀ t, t ∈ h.tags → TagOrdered t
  tagsInOrder : InOrder (h.tags.map (·.span))
  qualifiers : ∀ t, t ∈ h.qualifiers → TagOrdered t
  qualifiersInOrder : InOrder (h.qualifiers.map (·.span))
  description : ∀ d, h.description = some d → SpanOrd d.span
  src : h.src.start ≤ h.src.end_

mutual
/-- the order hypothesis on one statement -/
def StmtOrdered : Statement → Prop
  | .desc d => SpanOrd d.span
  | .assign a => a.src.start ≤ a.src.end_ ∧ (∀ i, i ∈ a.key.idents → SpanOrd i.span) ∧ ValueOrdered a.value
  | .block h body => HeaderOrdered h ∧ BodyOrdered body
/-- **the order hypothesis of `C07W_error_span_ordered`**: every statement, at any depth, is `StmtOrdered` -/
def BodyOrdered : List Statement → Prop
  | [] => True
  | s :: rest => StmtOrdered s ∧ BodyOrdered rest
end

theorem ValuesOrdered.mem {vs : List Value} (h : ValuesOrdered vs) : ∀ v, v ∈ vs → ValueOrdered v := by
  induction vs with
  | nil => intro v hv; cases hv
  | cons x xs ih =>
    intro v hv
    unfold ValuesOrdered at h
    rcases List.mem_cons.mp hv with rfl | hv
    · exact h.1
    · exact ih h.2 v hv

theorem ValuesOrdered.of_mem {vs : List Value} (h : ∀ v, v ∈ vs → ValueOrdered v) : ValuesOrdered vs := by
  induction vs with
  | nil => unfold ValuesOrdered; trivial
  | cons x xs ih =>
    unfold ValuesOrdered
    exact ⟨h x List.mem_cons_self, ih (fun v hv => h v (List.mem_cons_of_mem _ hv))⟩

theorem ValuesOrdered.append {a b : List Value} (ha : ValuesOrdered a) (hb : ValuesOrdered b) :
    ValuesOrdered (a ++ b) :=
  ValuesOrdered.of_mem (fun v hv => by
    rcases List.mem_append.mp hv with h | h
    · exact ha.mem v h
    · exact hb.mem v h)

theorem ValueOrdered.span {v : Value} (h : ValueOrdered v) : SpanOrd v.span := by
  cases v with
  | scalar tok sp => unfold ValueOrdered at h; exact h
  | array vs sp => unfold ValueOrdered at h; exact h.1

theorem BodyOrdered.mem {body : List Statement} (h : BodyOrdered body) : ∀ s, s ∈ body → StmtOrdered s := by
  induction body with
  | nil => intro s hs; cases hs
  | cons x xs ih =>
    intro s hs
    unfold BodyOrdered at h
    rcases List.mem_cons.mp hs with rfl | hs
    · exact h.1
    · exact ih h.2 s hs

theorem BodyOrdered.of_mem {body : List Statement} (h : ∀ s, s ∈ body → StmtOrdered s) : BodyOrdered body := by
  induction body with
  | nil => unfold BodyOrdered; trivial
  | cons x xs ih =>
    unfold BodyOrdered
    exact ⟨h x List.mem_cons_self, ih (fun s hs => h s (List.mem_cons_of_mem _ hs))⟩

theorem BodyOrdered.append {a b : List Statement} (ha : BodyOrdered a) (hb : BodyOrdered b) :
    BodyOrdered (a ++ b) :=
  BodyOrdered.of_mem (fun s hs => by
    rcases List.mem_append.mp hs with h | h
    · exact ha.mem s h
    · exact hb.mem s h)

theorem BodyOrdered.snoc {a : List Statement} {s : Statement} (ha : BodyOrdered a) (hs : StmtOrdered s) :
    BodyOrdered (a ++ [s]) :=
  ha.append (by unfold BodyOrdered; exact ⟨hs, by unfold BodyOrdered; trivial⟩)

/-! ## Hulls -/

/-- every span of the list is not reversed, and the hull `⟨a.start, b.end_⟩` of an earlier `a` and a later
`b` is not reversed either. Holds for spans in source order (`hullOK_of_inOrder`) and for copies of one
span (`hullOK_replicate`: the `strings.Split` pieces of ONE value all carry that value's span). Inherited
by sublists, and by the reverse of a sublist of the reverse. -/
def HullOK (l : List Span) : Prop :=
  (∀ a, a ∈ l → SpanOrd a) ∧ l.Pairwise (fun a b => a.start ≤ b.end_)

theorem hullOK_of_inOrder {l : List Span} (h1 : ∀ a, a ∈ l → SpanOrd a) (h2 : InOrder l) : HullOK l := by
  refine ⟨h1, ?_⟩
  unfold InOrder at h2
  induction l with
  | nil => exact List.Pairwise.nil
  | cons x xs ih =>
    rw [List.pairwise_cons] at h2 ⊢
    refine ⟨fun b hb => ?_, ih (fun a ha => h1 a (List.mem_cons_of_mem _ ha)) h2.2⟩
    exact Pos.le_trans (h1 x List.mem_cons_self)
      (Pos.le_trans (h2.1 b hb) (h1 b (List.mem_cons_of_mem _ hb)))

theorem hullOK_replicate (n : Nat) {sp : Span} (h : SpanOrd sp) : HullOK (List.replicate n sp) := by
  refine ⟨fun a ha => by rw [List.eq_of_mem_replicate ha]; exact h, ?_⟩
  rw [List.pairwise_replicate]
  exact Or.inr h

theorem HullOK.sublist {l l' : List Span} (h : HullOK l) (hs : l'.Sublist l) : HullOK l' :=
  ⟨fun a ha => h.1 a (hs.subset ha), h.2.sublist hs⟩

/-- the hull of the first and the last span of a non-empty list -/
theorem HullOK.hull {l : List Span} (h : HullOK l) {first last : Span} (hf : l.head? = some first)
    (hl : l.getLast? = some last) : SpanOrd ⟨first.start, last.end_⟩ := by
  cases l with
  | nil => cases hf
  | cons x xs =>
    simp only [List.head?_cons, Option.some.injEq] at hf
    subst hf
    cases xs with
    | nil =>
      simp only [List.getLast?_singleton, Option.some.injEq] at hl
      subst hl
      exact h.1 x List.mem_cons_self
    | cons y ys =>
      have hmem : last ∈ y :: ys := by
        rw [List.getLast?_cons_cons] at hl
        exact List.mem_of_getLast? hl
      exact (List.pairwise_cons.mp h.2).1 last hmem

end J5V.Walker
