import J5V.Walker.WFj5Lit
/-! # Normal form of `j5Env`, second half -/
namespace J5V.Walker

theorem j5_chunk2_nf : j5Chunk 54 = j5_chunk_lit% 54 := by decide +kernel
theorem j5_chunk3_nf : j5Chunk 81 = j5_chunk_lit% 81 := by decide +kernel
theorem j5_rest_nf :
    (J5V.Generated.Walkerschema.schemas.drop 108).map convSchema = j5_rest_lit% 108 := by
  decide +kernel

end J5V.Walker
