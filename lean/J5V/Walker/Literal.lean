import J5V.Walker.State
import J5V.Bcl.Utf8
import J5V.Compile.AstValue
/-!
# Literal conversion: `parser.ASTValue` → proto scalar (core only) — walker-semantics §1, §10

`AV` is the interface `parser.ASTValue` with its four implementations the walker meets (`Value`,
`TagValue`, `StringValue`, `BoolValue`; `IntValue` is never built). `scalarFromAST` is
`scalarReflectFromAST` (`lib/j5reflect/value_ast.go`) + `enumField.SetASTValue`.

`strconv.ParseInt / ParseUint` (base 10) are reused from the compile cluster's model
(`J5V.Compile.parseInt`, `parseUint`, on bytes — they fit exactly: the walker needs no more than the
number or "error"). That file does not cover floats, enums and the other `ASTValue`
implementations, which are modelled here.

`strconv.ParseFloat(s, bits)` on the literals the lexer can produce (`D+` or `D+ "." D*`; a non-ASCII
digit is a syntax error): the decimal value is the exact rational `N / 10^k`; `floatBits` rounds it to
nearest-even at the target precision by exact `Nat` arithmetic. Overflow (≥ 1/2 ULP beyond the
largest finite number) is an error; underflow gives a denormal or 0 without error. Go's own
algorithm truncates mantissas beyond 800 digits but keeps a sticky flag, which is enough for correct
rounding (library behaviour, trusted; the correspondence compares bits).
-/
namespace J5V.Walker
open J5V.Bcl

/-- `parser.ASTValue` -/
inductive AV where
  | value (v : Value)                 -- `parser.Value`
  | tag (t : TagValue)                -- `parser.TagValue`
  | str (s : Str) (span : Span)       -- `NewStringValue(s, node)`
  | bool (b : Bool)                   -- `NewBoolValue(b, _)`: the position argument is dropped
  deriving Repr, Inhabited

/-- `Position()` -/
def AV.span : AV → Span
  | .value v => v.span
  | .tag t => t.span
  | .str _ sp => sp
  | .bool _ => Span.zero

/-- the token of a `parser.Value`: an array (also the empty one) holds the zero token -/
def valueToken : Value → Token
  | .scalar tok _ => tok
  | .array _ _ => Token.zero

/-- `Value.AsString()` -/
def valueAsString (v : Value) : Option Str :=
  let tok := valueToken v
  match tok.ty with
  | .string => some (encodeRunes tok.lit)
  | .description => some (encodeRunes tok.lit)
  | .ident => some (encodeRunes tok.lit)
  | .regex => some (encodeRunes tok.lit)
  | _ => none

/-- `AsString()`; `none` = error -/
def AV.asString : AV → Option Str
  | .value v => valueAsString v
  | .tag t =>
    match t.value with
    | some v => valueAsString v
    | none =>
      match t.reference with
      | some r => some (encodeRunes r.string)
      | none => none                    -- "tag value is nil"
  | .str s _ => some s
  | .bool _ => none

/-- `AsBool()` -/
def AV.asBool : AV → Option Bool
  | .value v =>
    let tok := valueToken v
    if tok.ty = .bool then some (tok.lit = litTrue) else none
  | .bool b => some b
  | _ => none

/-- `AsArray()`: `len(v.array) > 0` -/
def AV.asArray : AV → Option (List AV)
  | .value (.array (x :: xs) _) => some ((x :: xs).map .value)
  | _ => none

/-- `AsInt(bits)` -/
def AV.asInt (v : AV) (bits : Nat) : Option Int :=
  match v with
  | .value val =>
    let tok := valueToken val
    if tok.ty = .int then J5V.Compile.parseInt (encodeRunes tok.lit) bits else none
  | _ => none

/-- `AsUint(bits)` -/
def AV.asUint (v : AV) (bits : Nat) : Option Nat :=
  match v with
  | .value val =>
    let tok := valueToken val
    if tok.ty = .int then J5V.Compile.parseUint (encodeRunes tok.lit) bits else none
  | _ => none

/-! ## strconv.ParseFloat -/

/-- the scanner of `readFloat` on a sign-less, exponent-less literal: `(mantissa N, number of fraction
digits k)`; `none` = syntax error (a byte that is neither an ASCII digit nor the first dot; no digit) -/
def scanDecimal : Str → Nat → Nat → Bool → Bool → Option (Nat × Nat)
  | [], n, k, _, sawDigit => if sawDigit then some (n, k) else none
  | c :: rest, n, k, sawDot, sawDigit =>
    if 48 ≤ c ∧ c ≤ 57 then scanDecimal rest (n * 10 + (c - 48)) (if sawDot then k + 1 else k) sawDot true
    else if c = 46 ∧ !sawDot then scanDecimal rest n k true sawDigit
    else none

/-- `num / den` rounded to nearest, ties to even -/
def divRoundEven (num den : Nat) : Nat :=
  let q := num / den
  let r := num % den
  if 2 * r > den ∨ (2 * r = den ∧ q % 2 = 1) then q + 1 else q

/-- IEEE-754 bits of `N / D` (`D > 0`) rounded to nearest-even in the binary format with precision
`p` (53 / 24), `expBits` exponent bits (11 / 8) and smallest ULP exponent `emin` (−1074 / −149);
`none` = overflow -/
def floatBits (p expBits : Nat) (emin : Int) (N D : Nat) : Option Nat :=
  if N = 0 then some 0
  else
    let scale (e : Int) : Nat × Nat :=
      if e ≥ 0 then (N, D * 2 ^ e.toNat) else (N * 2 ^ (-e).toNat, D)
    -- `N/D ∈ (2^(bn-bd-1), 2^(bn-bd+1))`: the ULP exponent is `e0` or `e0 - 1`
    let e0 : Int := (N.log2 : Int) - (D.log2 : Int) - ((p : Int) - 1)
    let s0 := scale e0
    let e1 : Int := if s0.1 / s0.2 < 2 ^ (p - 1) then e0 - 1 else e0
    let e2 : Int := if e1 < emin then emin else e1
    let s2 := scale e2
    let q := divRoundEven s2.1 s2.2
    let q' : Nat := if q = 2 ^ p then 2 ^ (p - 1) else q
    let e3 : Int := if q = 2 ^ p then e2 + 1 else e2
    if q' < 2 ^ (p - 1) then some q'              -- denormal or zero
    else
      let biased : Int := e3 - emin + 1
      if biased > (2 ^ expBits : Nat) - 2 then none
      else some (biased.toNat * 2 ^ (p - 1) + (q' - 2 ^ (p - 1)))

/-- `strconv.ParseFloat(s, 64)`: the bits, `none` = syntax or range error -/
def parseFloat64 (s : Str) : Option Nat :=
  match scanDecimal s 0 0 false false with
  | none => none
  | some (n, k) => floatBits 53 11 (-1074) n (10 ^ k)

/-- `float32(strconv.ParseFloat(s, 32))`: the value is already rounded to float32 -/
def parseFloat32 (s : Str) : Option Nat :=
  match scanDecimal s 0 0 false false with
  | none => none
  | some (n, k) => floatBits 24 8 (-149) n (10 ^ k)

/-- `AsFloat(bits)`: INT and DECIMAL tokens -/
def AV.asFloatLit : AV → Option Str
  | .value val =>
    let tok := valueToken val
    if tok.ty = .int ∨ tok.ty = .decimal then some (encodeRunes tok.lit) else none
  | _ => none

/-! ## Enums -/

def findOption (name : Str) : List EnumOption → Option EnumOption
  | [] => none
  | o :: rest => if o.name = name then some o else findOption name rest

/-- `strings.TrimPrefix` -/
def trimPrefix (s pre : Str) : Str := if pre.isPrefixOf s then s.drop pre.length else s

/-- `enumOptionByName(schema, name)`: the name as written, else `OptionByName` (prefix removed once) -/
def enumOptionByName (e : EnumDef) (name : Str) : Option EnumOption :=
  match findOption name e.options with
  | some o => some o
  | none => findOption (trimPrefix name e.prefix) e.options

/-! ## scalarReflectFromAST -/

/-- `scalarField.SetASTValue` / `enumField.SetASTValue` / `AppendASTValue` up to the store:
the proto value for a field of type `t`, or an error (`*TypeError`, `*strconv.NumError`,
"enum value not found", "unsupported scalar type") -/
def scalarFromAST (env : Env) (t : FieldType) (v : AV) : Res Scalar :=
  let opt (what : String) (o : Option Scalar) : Res Scalar :=
    match o with
    | some s => .ok s
    | none => .err (.mk0 what)
  match t with
  | .scalar .bool => opt "literal-type.bool" (v.asBool.map .bool)
  | .scalar .string => opt "literal-type.string" (v.asString.map .str)
  | .scalar .key => opt "literal-type.key" (v.asString.map .str)
  | .scalar .int32 => opt "literal.int32" ((v.asInt 32).map .int)
  | .scalar .int64 => opt "literal.int64" ((v.asInt 64).map .int)
  | .scalar .uint32 => opt "literal.uint32" ((v.asUint 32).map .uint)
  | .scalar .uint64 => opt "literal.uint64" ((v.asUint 64).map .uint)
  | .scalar .float32 =>
    match v.asFloatLit with
    | none => .err (.mk0 "literal-type.float32")
    | some lit => opt "literal-range.float32" ((parseFloat32 lit).map .f32)
  | .scalar .float64 =>
    match v.asFloatLit with
    | none => .err (.mk0 "literal-type.float64")
    | some lit => opt "literal-range.float64" ((parseFloat64 lit).map .f64)
  | .enum ref =>
    match v.asString with
    | none => .err (.mk0 "literal-type.enum")
    | some s =>
      match enumOptionByName (env.enumOf ref) s with
      | some o => .ok (.enum o.number)
      | none => .err (.mk0 "enum-value: enum value not found")
  | _ => .err (.mk0 "unsupported scalar type")      -- bytes, date, timestamp, decimal

end J5V.Walker
