import J5V.Bcl.OrderProofs
import J5V.Walker.OrderMain
import J5V.Walker.ParserLink
/-!
# The parser's output meets the order hypothesis; the source-level theorem

`J5V.Bcl.parseFile_bodyOrdered` (`J5V/Bcl/OrderProofs.lean`): every `parseFile` tree is `BodyOrdered` — the
walker of the parser reads tokens in source order (`WInv.ordered`), so consecutive tags / qualifiers / array
elements are in source order, and every node span has `start ≤ end_`. With `parseFile_bodyTypesOK` and
`parse_walk_error_position` (`ParserLink.lean`): the span of every walk error of a parsed file lies inside
the file AND is not reversed.
-/
namespace J5V.Walker
open J5V.Bcl

/-- an error of the walk of a parsed file carries a span that is not reversed -/
theorem parse_walk_error_span_le (cls : Cls) (src : List Rune) (ff : Bool) (f : File) (filename : Str)
    (h : parseFile cls src ff = .tree f) {e : WErr}
    (he : walkSchema j5Env f.body (stub j5Env filename) = .err e) :
    ∃ sp, e.pos = some sp ∧ sp.start ≤ sp.end_ :=
  C07W_j5_walk_error_span_ordered filename f.body (parseFile_bodyTypesOK cls src ff f h)
    (J5V.Bcl.parseFile_bodyOrdered cls src ff f h) he

/-- **source level**: the span of a walk error of a parsed file has both ends inside the file and
`start ≤ end_` -/
theorem parse_walk_error_span_ordered (cls : Cls) (src : List Rune) (ff : Bool) (f : File) (filename : Str)
    (h : parseFile cls src ff = .tree f) {e : WErr}
    (he : walkSchema j5Env f.body (stub j5Env filename) = .err e) :
    ∃ sp, e.pos = some sp ∧ InFileLC src sp.start ∧ InFileLC src sp.end_ ∧ sp.start ≤ sp.end_ := by
  obtain ⟨sp, h1, h2, h3⟩ := parse_walk_error_position cls src ff f filename h he
  obtain ⟨sp', h1', h4⟩ := parse_walk_error_span_le cls src ff f filename h he
  rw [h1] at h1'; cases h1'
  exact ⟨sp, h1, h2, h3, h4⟩

end J5V.Walker
