import J5V.Walker.StateProofs
/-!
# Specs of `State.lean`, second part: map elements, `Cont.value`, arrays, scalars
-/
namespace J5V.Walker

/-! ## `mapElement`, `Cont.value` -/

theorem findKey_some {k : Str} {n : Nat} {keys : List Str} {j : Nat} (h : findKey k n keys = some j) :
    j < n + keys.length ∧ n ≤ j := by
  induction keys generalizing n with
  | nil => cases h
  | cons k' rest ih =>
    simp only [findKey] at h
    split at h
    · cases h; simp
    · have := ih h
      simp only [List.length_cons]; omega

theorem ExtFrom.of_children_set {env : Env} {t : FieldType} {n n' : Node} {j : Nat} {cur v : Node}
    (hs : ShapeLe n n') (hch : n'.children = n.children.set j v) (hcur : n.children[j]? = some cur)
    (hv : ∀ tj, t.child env j = some tj → ExtFrom env tj cur v) : ExtFrom env t n n' := by
  apply ExtFrom.of_children
  · intro _; exact hs
  · intro i t' c ht' hc
    rw [hch, List.getElem?_set]
    by_cases hj : j = i
    · subst hj
      rw [hcur] at hc; cases hc
      have hi : j < n.children.length := (List.getElem?_eq_some_iff.mp hcur).1
      exact ⟨v, by simp [hi], hv t' ht'⟩
    · simp only [hj, if_false]
      exact ⟨c, hc, ExtFrom.refl _ _ _⟩

theorem ExtFrom.of_children_append {env : Env} {t : FieldType} {n n' : Node} {extra : List Node}
    (hs : ShapeLe n n') (hch : n'.children = n.children ++ extra) : ExtFrom env t n n' := by
  apply ExtFrom.of_children
  · intro _; exact hs
  · intro i t' c _ hc
    refine ⟨c, ?_, ExtFrom.refl _ _ _⟩
    rw [hch, List.getElem?_append_left (List.getElem?_eq_some_iff.mp hc).1]
    exact hc

theorem VOK.map_set {env : Env} {item : FieldType} {b : Bool} {ks : List Str} {vs : List Node} {j : Nat}
    {v : Node} (h : VOK env (.map item) b (.map ks vs))
    (hv : VOK env item true v) : VOK env (.map item) true (.map ks (vs.set j v)) := by
  obtain ⟨h1, h2⟩ := h.map_inv
  refine .map _ _ _ _ (by simp [h1]) ?_
  intro c hc
  rcases List.mem_or_eq_of_mem_set hc with hc | rfl
  · exact h2 c hc
  · exact hv

theorem VOK.map_append {env : Env} {item : FieldType} {b : Bool} {ks : List Str} {vs : List Node}
    {k : Str} {v : Node} (h : VOK env (.map item) b (.map ks vs))
    (hv : VOK env item true v) : VOK env (.map item) true (.map (ks ++ [k]) (vs ++ [v])) := by
  obtain ⟨h1, h2⟩ := h.map_inv
  refine .map _ _ _ _ (by simp [h1]) ?_
  intro c hc
  rcases List.mem_append.mp hc with hc | hc
  · exact h2 c hc
  · simp at hc; subst hc; exact hv

theorem VOK.list_append {env : Env} {item : FieldType} {b : Bool} {xs : List Node}
    {v : Node} (h : VOK env (.array item) b (.list xs))
    (hv : VOK env item true v) : VOK env (.array item) true (.list (xs ++ [v])) := by
  have h2 := h.list_inv
  refine .arr _ _ _ ?_
  intro c hc
  rcases List.mem_append.mp hc with hc | hc
  · exact h2 c hc
  · simp at hc; subst hc; exact hv

theorem typeAt_mapElem {env : Env} {c : Addr} {item : FieldType} (ht : env.typeAt c = some (.map item))
    (j : Nat) : env.typeAt (c ++ [j]) = some item := by
  rw [Env.typeAt_append, ht]; rfl

theorem typeAt_listElem {env : Env} {c : Addr} {item : FieldType} (ht : env.typeAt c = some (.array item))
    (j : Nat) : env.typeAt (c ++ [j]) = some item := by
  rw [Env.typeAt_append, ht]; rfl

/-- `MapField.NewElement` / `GetOrCreateElement` -/
theorem mapElement_spec {env : Env} (hwf : env.WF = true) {c : Addr} {nm : Str} {item : FieldType}
    {key : Str} {mustBeNew : Bool} :
    MSpec env (mapElement env c item key mustBeNew) (fun st => ContOK env st ⟨c, .map nm item⟩)
      (fun f _ st' => FieldOK env st' f ∧ ∃ j, f.addr = c ++ [j] ∧
        ((∃ s, item.msgSchema env = some s ∧ f.kind = .container s) ∨
         (item.isLeaf = true ∧ f.kind = .scalar item true)))
      NoPos := by
  intro st hst hpre
  obtain ⟨⟨ht, hmi, _⟩, ks, vs, hg⟩ := hpre
  simp only at ht hg
  obtain ⟨b, hv⟩ := hst.get ht hg
  obtain ⟨hlen, hall⟩ := hv.map_inv
  have hok := WF_typeAt_ok hwf ht
  simp only [FieldType.ok] at hok
  simp only [mapElement, bind, M.bind, getNode, hg]
  cases item with
  | object r =>
    simp only [resolveRef_object hok, M.lift, M.bind, M.pure]
    have hs : (FieldType.object r).msgSchema env = some (env.schemaOf r) := rfl
    cases hfk : findKey key 0 ks with
    | some j =>
      simp only
      split
      · exact NoPos_mk0 _ _
      · obtain ⟨cur, hcur⟩ : ∃ cur, vs[j]? = some cur := by
          have := (findKey_some hfk).1
          have hj : j < vs.length := by omega
          exact ⟨vs[j], List.getElem?_eq_getElem hj⟩
        have hvcur := hall cur (List.mem_of_getElem? hcur)
        simp only [hcur, pure]
        have hfit : KindFits env (FieldType.object r) (.container (env.schemaOf r)) := hs
        refine ⟨hst.set ht (VOK.map_set hv (VOK_builtValue hvcur hfit)),
          Ext.set hg ht (ExtFrom.of_children_set ⟨_, _, rfl⟩ rfl hcur
            (fun tj htj => by cases htj; exact ExtFrom_builtValue hvcur hfit)), ?_, j, rfl, .inl ⟨_, hs, rfl⟩⟩
        apply FieldOK.intro (typeAt_mapElem ht j) hfit (fun _ _ h => by cases h) _ (nodeFits_builtValue _ cur)
        rw [Node.get?_set_append _ _ _ _ (by simp [hg])]
        have hj : j < vs.length := (List.getElem?_eq_some_iff.mp hcur).1
        simp [Node.get?_cons, Node.children, hj]
    | none =>
      simp only [pure]
      have hfit : KindFits env (FieldType.object r) (.container (env.schemaOf r)) := hs
      refine ⟨hst.set ht (VOK.map_append hv (VOK.freshMsg true hs)),
        Ext.set hg ht (ExtFrom.of_children_append ⟨_, _, rfl⟩ (extra := [_]) rfl), ?_,
        ks.length, rfl, .inl ⟨_, hs, rfl⟩⟩
      apply FieldOK.intro (n := freshMsg (env.schemaOf r)) (typeAt_mapElem ht _) hfit (fun _ _ h => by cases h) _ ⟨_, _, rfl⟩
      rw [Node.get?_set_append _ _ _ _ (by simp [hg])]
      simp [Node.get?_cons, Node.children, hlen, freshMsg]

  | oneof r =>
    simp only [resolveRef_oneof hok, M.lift, M.bind, M.pure]
    have hs : (FieldType.oneof r).msgSchema env = some (env.schemaOf r) := rfl
    cases hfk : findKey key 0 ks with
    | some j =>
      simp only
      split
      · exact NoPos_mk0 _ _
      · obtain ⟨cur, hcur⟩ : ∃ cur, vs[j]? = some cur := by
          have := (findKey_some hfk).1
          have hj : j < vs.length := by omega
          exact ⟨vs[j], List.getElem?_eq_getElem hj⟩
        have hvcur := hall cur (List.mem_of_getElem? hcur)
        simp only [hcur, pure]
        have hfit : KindFits env (FieldType.oneof r) (.container (env.schemaOf r)) := hs
        refine ⟨hst.set ht (VOK.map_set hv (VOK_builtValue hvcur hfit)),
          Ext.set hg ht (ExtFrom.of_children_set ⟨_, _, rfl⟩ rfl hcur
            (fun tj htj => by cases htj; exact ExtFrom_builtValue hvcur hfit)), ?_, j, rfl, .inl ⟨_, hs, rfl⟩⟩
        apply FieldOK.intro (typeAt_mapElem ht j) hfit (fun _ _ h => by cases h) _ (nodeFits_builtValue _ cur)
        rw [Node.get?_set_append _ _ _ _ (by simp [hg])]
        have hj : j < vs.length := (List.getElem?_eq_some_iff.mp hcur).1
        simp [Node.get?_cons, Node.children, hj]
    | none =>
      simp only [pure]
      have hfit : KindFits env (FieldType.oneof r) (.container (env.schemaOf r)) := hs
      refine ⟨hst.set ht (VOK.map_append hv (VOK.freshMsg true hs)),
        Ext.set hg ht (ExtFrom.of_children_append ⟨_, _, rfl⟩ (extra := [_]) rfl), ?_,
        ks.length, rfl, .inl ⟨_, hs, rfl⟩⟩
      apply FieldOK.intro (n := freshMsg (env.schemaOf r)) (typeAt_mapElem ht _) hfit (fun _ _ h => by cases h) _ ⟨_, _, rfl⟩
      rw [Node.get?_set_append _ _ _ _ (by simp [hg])]
      simp [Node.get?_cons, Node.children, hlen, freshMsg]

  | scalar r =>
    have hl : (FieldType.scalar r).isLeaf = true := rfl
    cases hfk : findKey key 0 ks with
    | some j =>
      simp only
      split
      · exact NoPos_mk0 _ _
      · obtain ⟨cur, hcur⟩ : ∃ cur, vs[j]? = some cur := by
          have := (findKey_some hfk).1
          have hj : j < vs.length := by omega
          exact ⟨vs[j], List.getElem?_eq_getElem hj⟩
        simp only [pure, M.pure]
        refine ⟨hst, Ext.refl _ _, ?_, j, rfl, .inr ⟨hl, rfl⟩⟩
        refine ⟨⟨typeAt_mapElem ht j, hl⟩, cur, ?_⟩
        rw [Node.get?_append, hg]
        simp [Node.get?_cons, Node.children, hcur]
    | none =>
      simp only [setNode, pure, M.pure, M.bind]
      refine ⟨hst.set ht (VOK.map_append hv (.leaf _ _ _ (FieldType.isContainer_of_isLeaf hl))),
        Ext.set hg ht (ExtFrom.of_children_append ⟨_, _, rfl⟩ (extra := [_]) rfl), ?_,
        ks.length, rfl, .inr ⟨hl, rfl⟩⟩
      refine ⟨⟨typeAt_mapElem ht _, hl⟩, zeroOf (FieldType.scalar r), ?_⟩
      rw [Node.get?_set_append _ _ _ _ (by simp [hg])]
      simp [Node.get?_cons, Node.children, hlen]

  | enum r =>
    have hl : (FieldType.enum r).isLeaf = true := rfl
    cases hfk : findKey key 0 ks with
    | some j =>
      simp only
      split
      · exact NoPos_mk0 _ _
      · obtain ⟨cur, hcur⟩ : ∃ cur, vs[j]? = some cur := by
          have := (findKey_some hfk).1
          have hj : j < vs.length := by omega
          exact ⟨vs[j], List.getElem?_eq_getElem hj⟩
        simp only [pure, M.pure]
        refine ⟨hst, Ext.refl _ _, ?_, j, rfl, .inr ⟨hl, rfl⟩⟩
        refine ⟨⟨typeAt_mapElem ht j, hl⟩, cur, ?_⟩
        rw [Node.get?_append, hg]
        simp [Node.get?_cons, Node.children, hcur]
    | none =>
      simp only [setNode, pure, M.pure, M.bind]
      refine ⟨hst.set ht (VOK.map_append hv (.leaf _ _ _ (FieldType.isContainer_of_isLeaf hl))),
        Ext.set hg ht (ExtFrom.of_children_append ⟨_, _, rfl⟩ (extra := [_]) rfl), ?_,
        ks.length, rfl, .inr ⟨hl, rfl⟩⟩
      refine ⟨⟨typeAt_mapElem ht _, hl⟩, zeroOf (FieldType.enum r), ?_⟩
      rw [Node.get?_set_append _ _ _ _ (by simp [hg])]
      simp [Node.get?_cons, Node.children, hlen]

  | any => simp [FieldType.isMapItem] at hmi
  | unknown => simp [FieldType.isMapItem] at hmi
  | array _ => simp [FieldType.isMapItem] at hmi
  | map _ => simp [FieldType.isMapItem] at hmi

/-- `j5PropSet.GetOrCreateValue` / `NewValue`: the field is valid, sits directly below the container
and has the kind the state-free shadow `kindOfValue` predicts -/
theorem Cont.value_spec {env : Env} (hwf : env.WF = true) {c : Cont} {name : Str} {mustBeNew : Bool} :
    MSpec env (c.value env name mustBeNew) (fun st => ContOK env st c)
      (fun f _ st' => FieldOK env st' f ∧ (∃ j, f.addr = c.addr ++ [j]) ∧
        kindOfValue env c.kind name = some f.kind)
      NoPos := by
  obtain ⟨a, k⟩ := c
  cases k with
  | msg s =>
    refine (propSetValue_spec hwf (c := a) (s := s) (name := name) (mustBeNew := mustBeNew)).conseq
      (fun _ _ h => h) ?_ (fun _ h => h)
    rintro f st st' _ _ _ _ ⟨hf, i, p, hfp, ha, hk⟩
    exact ⟨hf, ⟨i, ha⟩, by simp [kindOfValue, hfp, hk]⟩
  | map nm item =>
    intro st hst hpre
    have hok := WF_typeAt_ok hwf hpre.1.1
    simp only [FieldType.ok] at hok
    have := mapElement_spec hwf (key := name) (mustBeNew := mustBeNew) st hst hpre
    show (mapElement env a item name mustBeNew st).Sat _ _
    revert this
    cases mapElement env a item name mustBeNew st with
    | ok r =>
      obtain ⟨f, st'⟩ := r
      rintro ⟨h1, h2, h3, j, hj, hk⟩
      refine ⟨h1, h2, h3, ⟨j, hj⟩, ?_⟩
      rcases hk with ⟨s, hs, hk⟩ | ⟨hl, hk⟩
      · cases item with
        | object r =>
          cases hs
          simp [kindOfValue, resolveRef_object hok, hk]
        | oneof r =>
          cases hs
          simp [kindOfValue, resolveRef_oneof hok, hk]
        | _ => simp [FieldType.msgSchema] at hs
      · cases item with
        | scalar sk => simp [kindOfValue, hk]
        | enum r => simp [kindOfValue, hk]
        | _ => simp [FieldType.isLeaf] at hl
    | err e => exact id
    | panic w => exact id

/-! ## Arrays and scalars -/

/-- `ArrayOfContainerField.NewContainerElement` -/
theorem newContainerElement_spec {env : Env} {f : Addr} {s : Schema} :
    MSpec env (newContainerElement f s) (fun st => FieldOK env st ⟨f, .arrayOfContainer s⟩)
      (fun c _ st' => ContOK env st' c ∧ c.kind = .msg s ∧ ∃ j, c.addr = f ++ [j])
      NoPos := by
  intro st hst hpre
  obtain ⟨⟨item, ht, hs⟩, xs, hg⟩ := hpre
  simp only at ht hg
  obtain ⟨b, hv⟩ := hst.get ht hg
  simp only [newContainerElement, bind, M.bind, getNode, hg, pure]
  refine ⟨hst.set ht (VOK.list_append hv (VOK.freshMsg true hs)),
    Ext.set hg ht (ExtFrom.of_children_append ⟨_, rfl⟩ (extra := [_]) rfl), ?_, rfl, _, rfl⟩
  refine ⟨⟨item, typeAt_listElem ht _, hs⟩, List.replicate s.props.length false,
    List.replicate s.props.length .absent, ?_⟩
  show (Node.set st f _).get? (f ++ [xs.length]) = _
  rw [Node.get?_set_append _ _ _ _ (by simp [hg])]
  simp [Node.get?_cons, Node.children, freshMsg]

/-- `ArrayField.Length`: no effect -/
theorem listLength_spec {env : Env} {f : Addr} {item : FieldType} :
    MSpec env (listLength f) (fun st => FieldOK env st ⟨f, .arrayOfScalar item⟩)
      (fun _ st st' => st' = st) NoPos := by
  intro st hst hpre
  obtain ⟨_, xs, hg⟩ := hpre
  simp only at hg
  simp only [listLength, bind, M.bind, getNode, hg, pure]
  exact ⟨hst, Ext.refl _ _, rfl⟩

/-- `leafArrayField.appendProtoValue` -/
theorem appendScalar_spec {env : Env} {f : Addr} {item : FieldType} {v : Scalar} :
    MSpec env (appendScalar f v) (fun st => FieldOK env st ⟨f, .arrayOfScalar item⟩)
      (fun _ _ st' => FieldOK env st' ⟨f, .arrayOfScalar item⟩) NoPos := by
  intro st hst hpre
  obtain ⟨⟨ht, hl⟩, xs, hg⟩ := hpre
  simp only at ht hg
  obtain ⟨b, hv⟩ := hst.get ht hg
  simp only [appendScalar, bind, M.bind, getNode, hg]
  refine ⟨hst.set ht (VOK.list_append hv (.leaf _ _ _ (FieldType.isContainer_of_isLeaf hl))),
    Ext.set hg ht (ExtFrom.of_children_append ⟨_, rfl⟩ (extra := [_]) rfl), ⟨ht, hl⟩,
    xs ++ [.scalar v], ?_⟩
  exact Node.get?_set_same _ _ _ (by simp [hg])

/-- `protoPair.setValue` / `protoMapValue.setValue` -/
theorem storeScalar_spec {env : Env} {f : Addr} {t : FieldType} {presence pr : Bool} {v : Scalar} :
    MSpec env (storeScalar f pr v) (fun st => FieldOK env st ⟨f, .scalar t presence⟩)
      (fun _ _ st' => FieldOK env st' ⟨f, .scalar t presence⟩) NoPos := by
  intro st hst hpre
  obtain ⟨⟨ht, hl⟩, n, hg⟩ := hpre
  simp only at ht hg
  have hc := FieldType.isContainer_of_isLeaf hl
  simp only [storeScalar]
  refine ⟨hst.set ht (.leaf _ _ _ hc), Ext.set hg ht (ExtFrom.leaf env hc _ _), ⟨ht, hl⟩,
    (if pr || !v.isZero then .scalar v else .absent), ?_⟩
  exact Node.get?_set_same _ _ _ (by simp [hg])

end J5V.Walker
