import J5V.Walker.WalkAttr
import J5V.Walker.OrderDefs
/-!
# `setAttribute` ⇄ `setContainerFromScalar` for a set of spans that is NOT closed under hulls

`WalkAttr.lean` verifies the two functions for any `S : Span → Prop` with
`hull : ∀ a b, S a → S b → S ⟨a.start, b.end_⟩`. The set of ordered spans (`SpanOrd`) is not closed under
hulls of ARBITRARY pairs, so here the hypothesis on a value is stronger instead: `AVInS S v` says that every
span of the value is in `S` AND that, for every array (nested ones included), the hull
`⟨first.span.start, last.span.end_⟩` of every non-empty SUBLIST of its elements is in `S` (`HullsIn`).
That is what `setContainerFromScalar` needs: its `remaining` values are a sublist of the values it split —
the elements of the array value (in source order; `rightToLeft` reverses twice), or `strings.Split` pieces of
ONE string value, which all carry that value's span.

`setAttribute_body` of `WalkAttr.lean` is reused as it stands (it forms no hull); `setContainerFromScalar_bodyS`
is the variant of `setContainerFromScalar_body`; P1–P4 are recomposed.
-/
namespace J5V.Walker
open J5V.Bcl

/-- the hull `⟨first.start, last.end_⟩` of the first and the last span of every non-empty sublist of `l`
is in `S` -/
def HullsIn (S : Span → Prop) (l : List Span) : Prop :=
  ∀ l' : List Span, l'.Sublist l → ∀ first last, l'.head? = some first → l'.getLast? = some last →
    S ⟨first.start, last.end_⟩

theorem HullsIn.sublist {S : Span → Prop} {l l' : List Span} (h : HullsIn S l) (hs : l'.Sublist l) :
    HullsIn S l' := fun l'' hs' => h l'' (hs'.trans hs)

/-- copies of one span of `S` -/
theorem hullsIn_const {S : Span → Prop} {l : List Span} {sp : Span} (hsp : S sp) (h : ∀ a, a ∈ l → a = sp) :
    HullsIn S l := by
  intro l' hs first last hf hl
  have h1 : first = sp := h first (hs.subset (List.mem_of_head? hf))
  have h2 : last = sp := h last (hs.subset (List.mem_of_getLast? hl))
  rw [h1, h2]; exact hsp

/-- every span of the value (nested array elements included) is in `S`, and so is the hull of every
non-empty sublist of the elements of every array -/
inductive ValueInS (S : Span → Prop) : Value → Prop where
  | scalar (tok : Token) (sp : Span) : S sp → ValueInS S (.scalar tok sp)
  | array (vs : List Value) (sp : Span) : S sp → (∀ v, v ∈ vs → ValueInS S v) →
      HullsIn S (vs.map Value.span) → ValueInS S (.array vs sp)

/-- every span an error about this value may carry is in `S` -/
def AVInS (S : Span → Prop) : AV → Prop
  | .value v => ValueInS S v
  | .tag t => S t.span
  | .str _ sp => S sp
  | .bool _ => S Span.zero

mutual
theorem ValueInS.valueIn {S : Span → Prop} : ∀ v : Value, ValueInS S v → ValueIn S v
  | .scalar tok sp, h => by cases h with | scalar _ _ h => exact .scalar tok sp h
  | .array vs sp, h => by
    cases h with
    | array _ _ h1 h2 _ => exact .array vs sp h1 (ValueInS.valuesIn vs h2)
theorem ValueInS.valuesIn {S : Span → Prop} : ∀ vs : List Value, (∀ v, v ∈ vs → ValueInS S v) →
    ∀ v, v ∈ vs → ValueIn S v
  | [], _, _, hv => nomatch hv
  | x :: xs, h, v, hv => by
    rcases List.mem_cons.mp hv with hx | hv
    · rw [hx]; exact ValueInS.valueIn x (h x List.mem_cons_self)
    · exact ValueInS.valuesIn xs (fun u hu => h u (List.mem_cons_of_mem _ hu)) v hv
end

theorem AVInS.avIn {S : Span → Prop} {v : AV} (h : AVInS S v) : AVIn S v := by
  cases v with
  | value x => exact ValueInS.valueIn x h
  | tag t => exact h
  | str s sp => exact h
  | bool b => exact h

theorem AVInS.span {S : Span → Prop} {v : AV} (h : AVInS S v) : S v.span := h.avIn.span

/-- the elements of an array value: each one is `AVInS`, and the hulls of their sublists are in `S` -/
theorem AVInS.asArray {S : Span → Prop} {v : AV} {vs : List AV} (h : AVInS S v) (ha : v.asArray = some vs) :
    (∀ x, x ∈ vs → AVInS S x) ∧ HullsIn S (vs.map AV.span) := by
  cases v with
  | value x =>
    cases h with
    | scalar _ _ _ => simp [AV.asArray] at ha
    | array xs sp _ hall hh =>
      cases xs with
      | nil => simp [AV.asArray] at ha
      | cons y ys =>
        simp only [AV.asArray, Option.some.injEq] at ha
        subst ha
        refine ⟨?_, ?_⟩
        · intro x hx
          simp only [List.mem_map] at hx
          obtain ⟨z, hz, rfl⟩ := hx
          exact hall z hz
        · have : List.map AV.span (List.map AV.value (y :: ys)) = List.map Value.span (y :: ys) := by
            rw [List.map_map]; rfl
          rw [this]; exact hh
  | tag t => simp [AV.asArray] at ha
  | str s sp => simp [AV.asArray] at ha
  | bool b => simp [AV.asArray] at ha

variable {env : Env}

/-- the variant of `setContainerFromScalar_body` without closure under hulls: the values split are tracked
with the hulls of their sublists (`HullsIn`), and `remaining` is a sublist of them -/
theorem setContainerFromScalar_bodyS (S : Span → Prop)
    (fuel : Nat) (sc : Scope) (bs : BlockSpec) (val : AV) (Inv : Node → Prop)
    (hI : ∀ st st', Inv st → Ext env st st' → Inv st') (hv : AVInS S val)
    (hA : ∀ ss, bs.scalarSplit = some ss → ∀ p, p ∈ ss.paths → ∀ v', AVInS S v' →
      MSpec env (setAttribute env fuel sc p [] v' false) Inv (fun _ _ _ => True) (PosIn S)) :
    MSpec env (setContainerFromScalar env (fuel + 1) sc bs val) Inv (fun _ _ _ => True) (PosIn S) := by
  rw [setContainerFromScalar]
  cases hss : bs.scalarSplit with
  | none => exact MSpec.throw ((NoPos_mk0 _ _).posIn S)
  | some ss =>
    simp only
    have hA' := hA ss hss
    have hreq : ∀ p, p ∈ ss.required → p ∈ ss.paths := fun p hp => by
      simp only [ScalarSplit.paths, List.mem_append]; exact .inl (.inl hp)
    have hopt : ∀ p, p ∈ ss.optional → p ∈ ss.paths := fun p hp => by
      simp only [ScalarSplit.paths, List.mem_append]; exact .inl (.inr hp)
    apply MSpec.bind (post1 := fun vs st st' => Inv st' ∧ (∀ v, v ∈ vs → AVInS S v) ∧
      HullsIn S (vs.map AV.span))
    · -- setVals0
      cases ss.delimiter with
      | some delim =>
        simp only
        cases val.asString with
        | none => exact MSpec.errAt (HasPosIn.mk hv.span _ _).posIn
        | some strVal =>
          refine MSpec.pure (fun _ _ h => ⟨h, ?_, ?_⟩)
          · intro v hv'
            simp only [List.mem_map] at hv'
            obtain ⟨s', _, rfl⟩ := hv'
            exact hv.span
          · apply hullsIn_const hv.span
            intro a ha
            simp only [List.mem_map] at ha
            obtain ⟨x, ⟨s', _, rfl⟩, rfl⟩ := ha
            rfl
      | none =>
        simp only
        cases hva : val.asArray with
        | none => exact MSpec.throw ((NoPos_mk0 _ _).posIn S)
        | some vs => exact MSpec.pure (fun _ _ h => ⟨h, hv.asArray hva⟩)
    · intro setVals0 st0
      apply MSpec.of_pre (P := (∀ v, v ∈ setVals0 → AVInS S v) ∧ HullsIn S (setVals0.map AV.span))
        (fun _ _ h => h.2.2.2.2)
      rintro ⟨hvs0, hhull0⟩
      generalize hsv : (if ss.rightToLeft = true then setVals0.reverse else setVals0) = setVals
      have hvs : ∀ v, v ∈ setVals → AVInS S v := by
        intro v hv'
        rw [← hsv] at hv'
        split at hv'
        · exact hvs0 v (List.mem_reverse.mp hv')
        · exact hvs0 v hv'
      apply MSpec.ite
      · intro _; exact MSpec.throw ((NoPos_mk0 _ _).posIn S)
      · intro hlen
        have hlen' : ss.required.length ≤ setVals.length := Nat.le_of_not_lt hlen
        have hrem : ∀ v, v ∈ List.drop ss.required.length setVals → AVInS S v :=
          fun v h => hvs v (List.mem_of_mem_drop h)
        have hremsub : (List.drop ss.required.length setVals).Sublist setVals := List.drop_sublist _ _
        generalize List.drop ss.required.length setVals = remaining at hrem hremsub ⊢
        apply MSpec.bind_from (pre0 := Inv) (post1 := fun _ _ st' => Inv st') (fun _ _ h => h.2.2.2.1)
        · apply forEach2_spec hI
          · simp [List.length_take]; omega
          · intro p hp v hv'
            exact (hA' p (hreq p hp) v (hvs v (List.mem_of_mem_take hv')))
        · intro _ st1
          apply MSpec.ite
          · intro _; exact MSpec.pure (fun _ _ _ => trivial)
          · intro _
            have hopt_mem : ∀ v, v ∈ (if remaining.length > ss.optional.length then
                List.take ss.optional.length remaining else remaining) → AVInS S v := by
              intro v h
              split at h
              · exact hrem v (List.mem_of_mem_take h)
              · exact hrem v h
            have hopt_len : (if remaining.length > ss.optional.length then
                List.take ss.optional.length remaining else remaining).length ≤ ss.optional.length := by
              split
              · simp [List.length_take]; omega
              · omega
            have hrem2 : ∀ v, v ∈ (if remaining.length > ss.optional.length then
                List.drop ss.optional.length remaining else []) → AVInS S v := by
              intro v h
              split at h
              · exact hrem v (List.mem_of_mem_drop h)
              · cases h
            have hrem2sub : (if remaining.length > ss.optional.length then
                List.drop ss.optional.length remaining else []).Sublist setVals := by
              split
              · exact (List.drop_sublist _ _).trans hremsub
              · exact List.nil_sublist _
            generalize (if remaining.length > ss.optional.length then
                List.take ss.optional.length remaining else remaining) = optional at hopt_mem hopt_len ⊢
            generalize (if remaining.length > ss.optional.length then
                List.drop ss.optional.length remaining else []) = remaining2 at hrem2 hrem2sub ⊢
            apply MSpec.bind_from (pre0 := Inv) (post1 := fun _ _ st' => Inv st') (fun _ _ h => h.2.2.2)
            · apply forEach2_spec hI _ _ hopt_len
              intro p hp v hv'
              exact hA' p (hopt p hp) v (hopt_mem v hv')
            · intro _ st2
              apply MSpec.ite
              · intro _; exact MSpec.pure (fun _ _ _ => trivial)
              · intro hne
                cases hrm : ss.remainder with
                | none => exact MSpec.throw ((NoPos_mk0 _ _).posIn S)
                | some remainder =>
                  simp only
                  have hrem3 : ∀ v, v ∈ (if ss.rightToLeft = true then remaining2.reverse else remaining2) →
                      AVInS S v := by
                    intro v h
                    split at h
                    · exact hrem2 v (List.mem_reverse.mp h)
                    · exact hrem2 v h
                  have hne3 : (if ss.rightToLeft = true then remaining2.reverse else remaining2) ≠ [] := by
                    have : remaining2 ≠ [] := by simpa using hne
                    split
                    · simpa using this
                    · exact this
                  -- `remaining` (re-reversed) is a sublist of the values in their ORIGINAL order
                  have hrem3sub : (if ss.rightToLeft = true then remaining2.reverse else remaining2).Sublist
                      setVals0 := by
                    rw [← hsv] at hrem2sub
                    split
                    · rename_i hr
                      rw [if_pos hr] at hrem2sub
                      have := List.reverse_sublist.mpr hrem2sub
                      rwa [List.reverse_reverse] at this
                    · rename_i hr
                      rw [if_neg hr] at hrem2sub
                      exact hrem2sub
                  generalize (if ss.rightToLeft = true then remaining2.reverse else remaining2) = remaining3
                    at hrem3 hne3 hrem3sub ⊢
                  apply MSpec.bind_from (pre0 := Inv) (post1 := fun _ st st' => st' = st)
                    (fun _ _ h => h.2.2.2)
                  · exact allAsString_spec S remaining3 (fun v h => (hrem3 v h).avIn)
                  · intro remainingStr st3
                    cases remaining3 with
                    | nil => exact absurd rfl hne3
                    | cons first rest =>
                      obtain ⟨last, hlast⟩ : ∃ last, (first :: rest).getLast? = some last :=
                        ⟨_, List.getLast?_eq_some_getLast (by simp)⟩
                      simp only [List.head?_cons, hlast]
                      refine (hA' remainder ?_ _ ?_).weaken_pre (fun _ _ h => by rw [h.2.2.2]; exact h.2.1)
                      · simp [ScalarSplit.paths, hrm]
                      · show S _
                        refine hhull0 ((first :: rest).map AV.span) (hrem3sub.map _) first.span last.span ?_ ?_
                        · rfl
                        · rw [List.getLast?_map, hlast]; rfl

/-- **P1**: an attribute along a path that `Env.splitOK` checked, in the one-block scope of the
container: ends at a scalar field, no recursion — fuel 1 is enough -/
theorem setAttribute_leafS (hwf : env.WF = true) (S : Span → Prop) (fuel : Nat) (cf : ContainerField)
    (path : PathSpec) (val : AV) (hv : AVInS S val)
    (hp : splitPathOK env cf.container.kind path = true) :
    MSpec env (setAttribute env (fuel + 1) (Scope.newChild cf) path [] val false)
      (fun st => ContainerFieldOK env st cf) (fun _ _ _ => True) (PosIn S) :=
  setAttribute_leaf hwf S fuel cf path val hv.avIn hp

/-- **P2**: a container set from a scalar, in its own one-block scope: fuel 2 is enough -/
theorem setContainerFromScalar_singleS (hwf : env.WF = true) (S : Span → Prop)
    (fuel : Nat) (cf : ContainerField) (val : AV) (hv : AVInS S val) :
    MSpec env (setContainerFromScalar env (fuel + 2) (Scope.newChild cf) cf.spec val)
      (fun st => ContainerFieldOK env st cf) (fun _ _ _ => True) (PosIn S) := by
  apply MSpec.of_pre
    (P := ∀ ss, cf.spec.scalarSplit = some ss → ∀ p, p ∈ ss.paths →
      splitPathOK env cf.container.kind p = true)
  · intro st _ h ss hss p hp
    obtain ⟨s, hk, hall⟩ := splitPaths_ok hwf h hss
    rw [hk]; exact hall p hp
  · intro hsplit
    apply setContainerFromScalar_bodyS S (fuel + 1) _ _ val _ (fun _ _ h he => h.ext he) hv
    intro ss hss p hp v' hv'
    exact setAttribute_leafS hwf S fuel cf p v' hv' (hsplit ss hss p hp)

/-- **P3**: `setAttribute` in any valid scope: fuel 3 is enough -/
theorem setAttribute_specS (hwf : env.WF = true) (S : Span → Prop)
    (fuel : Nat) (sc : Scope) (path : PathSpec)
    (ref : List Ident) (val : AV) (app : Bool) (hv : AVInS S val) (hS : ∀ i, i ∈ ref → S i.span) :
    MSpec env (setAttribute env (fuel + 3) sc path ref val app)
      (fun st => ScopeOK env st sc) (fun _ _ _ => True) (PosIn S) := by
  have hpos := combinePath_positions (S := S) (path := path) hS
  apply setAttribute_body hwf S (fuel + 2) sc path ref val app _ (fun _ => True) (fun _ => True) hv.avIn
  · refine (walkScope_spec hwf S _ sc ?_).conseq (fun _ _ h => h) (fun _ _ _ _ _ _ _ h => ⟨h.1, trivial⟩)
      (fun _ h => h)
    intro el hel
    exact hpos el ((List.dropLast_sublist _).subset hel)
  · intro ps last _ _
    exact (scopeField_spec hwf ps last.name app).conseq (fun _ _ h => h)
      (fun _ _ _ _ _ _ _ h => ⟨h.1, trivial⟩) (fun _ h => h)
  · intro last p hl hp
    exact hpos last (List.mem_of_getLast? hl) p hp
  · intro s _ cf
    exact setContainerFromScalar_singleS hwf S fuel cf val hv

/-- **P4**: `setContainerFromScalar` in any valid scope (the call of `finishTags`): fuel 4 is enough -/
theorem setContainerFromScalar_specS (hwf : env.WF = true) (S : Span → Prop)
    (fuel : Nat) (sc : Scope) (bs : BlockSpec) (val : AV) (hv : AVInS S val) :
    MSpec env (setContainerFromScalar env (fuel + 4) sc bs val)
      (fun st => ScopeOK env st sc) (fun _ _ _ => True) (PosIn S) := by
  apply setContainerFromScalar_bodyS S (fuel + 3) sc bs val _ (fun _ _ h he => h.ext he) hv
  intro ss _ p _ v' hv'
  exact setAttribute_specS hwf S fuel sc p [] v' false hv' (fun _ h => by cases h)

end J5V.Walker
