import J5V.Walker.Scope
import J5V.Walker.Literal
/-!
# Package `walker`: `walk_context.go` + `c2.go` (core only) — walker-semantics §7

Function by function after the Go code. What differs in FORM, not in behaviour:

* **Contexts.** A `walkContext` is `{scope, path, depth, blockLocation, verbose}`; `path`, `depth`,
  `verbose` only feed logging / message text and `blockLocation` is always the zero position
  (`SetLocation` is never called), so a context IS its `Scope`. `WithScope(newScope, fn)` runs `fn`
  with `(child context, newScope.leaf.spec)`: here the caller continues in `newScope` with
  `withScopeSpec newScope`. `run` wraps a new error into `scopedError{&errpos.Err{Err: err}}`; its
  `Unwrap` gives that `*Err`, so for the position rule (`WErr.addPosition`) `run`, `newSchemaError`
  and the `fmt.Errorf("…: %w")` wrappers are the identity (semantics §3).
* **Callbacks.** `walkTags(sc, spec, tags, k)` and `walkQualifiers(sc, spec, quals, k)` end with
  `k(sc', spec')` in the innermost child context. They have ONE call site each (`doBlock`) with a fixed
  `k`, so the model's `walkTags` / `walkQualifiers` RETURN `(sc', spec')` and `doBlock` goes on with
  it (qualifiers, header description, body). Errors raised in `k` pass through more `run`s in Go —
  the identity, see above.
* **Recursion.** `doBody` / `doStatement` / `doFullBlock` / `doBlock` are structural over the statement
  tree, `walkTags` / `walkQualifiers` over the tag list (the `popSet` is the remaining list + the last
  position), `walkScope` over the path. The recursion `setAttribute → setContainerFromScalar →
  SetAttribute → …` follows the SPEC: it takes fuel (`.panic "fuel"`); each level enters a container
  whose spec has a scalar split and sets the split paths inside it. For `j5Env` it stops after one
  level: the split paths of `Ref` / `EntityRef` (`schema`, `entity`, `package`) are string properties.
  `fuelOf env` is generous. A cyclic spec makes the Go code recurse until the stack overflows.

Partial operations of Go, as explicit arms here: `WrapErr` with a nil error; `walkScope` returning
`(nil, nil)` when the scope has no blocks (every caller dereferences the nil scope at once:
`WithScope` → `newScope.CurrentBlock()`, `MergeScope` → `other.blockSet`, `Field` → `sw.blockSet`);
`SetDescription` on a nil `rootBlock`; `fullPath[len-1]`; `gotTags.items[len-1]`;
`gotQualifiers.items[0]` / `items[len-1]`;
`remaining[0]` / `remaining[len-1]`; `ss.Required[idx]` / `ss.Optional[idx]`.
-/
namespace J5V.Walker
open J5V.Bcl

namespace M
/-- handle the error of `m` -/
def tryCatch {α} (m : M α) (h : WErr → M α) : M α := fun st =>
  match m st with
  | .ok r => .ok r
  | .err e => h e st
  | .panic w => .panic w
end M

/-- `walkContext.WrapErr(err, pos)`: `AddContext` (creates the `*errpos.Err` if there is none) then
`AddPosition` -/
def wrapErr {α} (err : Option WErr) (pos : Span) : Res α :=
  match err with
  | none => .panic "WrapErr called with nil error"
  | some e => .err (e.wrapped.addPosition pos)

/-- `sc.WrapErr(fmt.Errorf(what), pos)` / `errpos.AddPosition(fmt.Errorf(what), pos)` -/
def errAt {α} (what : String) (pos : Span) : M α := M.lift (wrapErr (some (.mk0 what)) pos)

/-- `pathElement`: `position = none` for an element supplied by the spec -/
structure PathElement where
  name : Str
  position : Option Span
  deriving Repr, Inhabited

/-- `combinePath(path, ref)` -/
def combinePath (path : PathSpec) (ref : List Ident) : List PathElement :=
  path.map (fun n => ⟨n, none⟩) ++ ref.map (fun i => ⟨encodeRunes i.value, some i.span⟩)

/-- `walkScope(scope, path, loc)` -/
def walkScope (env : Env) : Scope → List PathElement → M Scope
  | scope, [] => pure scope
  | scope, ident :: rest => fun st =>
    match childBlock env scope ident.name st with
    | .ok (next, st1) => walkScope env next rest st1
    | .panic w => .panic w
    | .err werr =>
      match ident.position with
      | none => .err werr.wrapped                         -- newSchemaError(werr)
      | some pos =>
        -- `switch werr.Type`: a fresh `fmt.Errorf` per case; RootNotFound with `len(blocks) == 0`
        -- leaves `err` nil, `AddPosition(nil)` is nil, and `(nil, nil)` is returned
        if werr.kind = .rootNotFound ∧ scope.blockSet.isEmpty then
          .panic "nil pointer dereference: walkScope returned (nil, nil)"
        else .err ⟨some pos, .plain, werr.what⟩

inductive ScopeFlag where
  | resetScope | keepScope
  deriving Repr, DecidableEq

/-- `walkContext.BuildScope(schemaPath, userPath, flag)` (Go's `default:` arm needs a third flag
value, which does not exist) -/
def buildScope (env : Env) (sc : Scope) (schemaPath : PathSpec) (userPath : List Ident)
    (flag : ScopeFlag) : M Scope :=
  let fullPath := combinePath schemaPath userPath
  if fullPath.isEmpty then
    match flag with
    | .keepScope => pure sc
    | .resetScope => pure sc.tailScope
  else do
    let container ← walkScope env sc fullPath
    match flag with
    | .resetScope => pure container
    | .keepScope => pure (sc.mergeScope container)

/-- `WithScope(newScope, fn)`: the spec `fn` receives (`lastBlock.Spec()`) -/
def withScopeSpec (newScope : Scope) : BlockSpec := newScope.leaf.spec

/-! ## strings.Split / strings.Join -/

/-- `genSplit(s, sep, 0, -1)` for `sep ≠ ""`: leftmost non-overlapping matches. `skip` = bytes of a
matched separator still to drop, `cur` = the part being collected (reversed). -/
def splitSepAux (sep : Str) : Str → Nat → Str → List Str
  | [], _, cur => [cur.reverse]
  | _ :: rest, skip + 1, cur => splitSepAux sep rest skip cur
  | c :: rest, 0, cur =>
    if sep.isPrefixOf (c :: rest) then cur.reverse :: splitSepAux sep rest (sep.length - 1) []
    else splitSepAux sep rest 0 (c :: cur)

/-- `explode(s, -1)` (empty separator): one part per UTF-8 sequence, an invalid byte alone -/
def explodeAux : Str → Nat → Str → List Str
  | [], _, cur => if cur.isEmpty then [] else [cur.reverse]
  | c :: rest, skip + 1, cur => explodeAux rest skip (c :: cur)
  | c :: rest, 0, cur =>
    let size := (decodeOne (c :: rest)).2
    (if cur.isEmpty then [] else [cur.reverse]) ++ explodeAux rest (size - 1) [c]

/-- `strings.Split(s, sep)` -/
def stringsSplit (s sep : Str) : List Str :=
  if sep.isEmpty then explodeAux s 0 [] else splitSepAux sep s 0 []

/-- `strings.Join(parts, sep)` -/
def stringsJoin (sep : Str) : List Str → Str
  | [] => []
  | [a] => a
  | a :: b :: rest => a ++ sep ++ stringsJoin sep (b :: rest)

/-! ## walk_context.go -/

/-- the loop `for _, val := range vals { fieldArray.AppendASTValue(val) }` of `setAttribute`; a
failing element is reported at the ELEMENT's span -/
def appendValues (env : Env) (arr : Addr) (item : FieldType) : List AV → M Unit
  | [] => pure ()
  | v :: rest =>
    match scalarFromAST env item v with
    | .ok s => do
      appendScalar arr s
      appendValues env arr item rest
    | .err e => M.lift (wrapErr (some e) v.span)
    | .panic w => M.panic w

/-- `for idx, val := range vals { sc.SetAttribute(paths[idx], nil, val) }` -/
def forEach2 (f : PathSpec → AV → M Unit) : List PathSpec → List AV → M Unit
  | _, [] => pure ()
  | [], _ :: _ => M.panic "index out of range (ss.Required[idx] / ss.Optional[idx])"
  | p :: ps, v :: vs => do
    f p v
    forEach2 f ps vs

/-- `remainingStr[idx], err = val.AsString()`; an error is wrapped at that value's span -/
def allAsString : List AV → M (List Str)
  | [] => pure []
  | v :: rest =>
    match v.asString with
    | none => errAt "literal-type.string (remainder)" v.span
    | some s => do
      let ss ← allAsString rest
      pure (s :: ss)

mutual
/-- `walkContext.setAttribute(path, ref, val, appendValue)` (`SetAttribute` / `AppendAttribute`) -/
def setAttribute (env : Env) : Nat → Scope → PathSpec → List Ident → AV → Bool → M Unit
  | 0, _, _, _, _, _ => M.panic "fuel"
  | fuel + 1, sc, path, ref, val, appendValue =>
    let fullPath := combinePath path ref
    if fullPath.isEmpty then M.err (.mk0 "empty path for SetAttribute")
    else
      match fullPath.getLast? with
      | none => M.panic "index out of range [-1] (fullPath[len(fullPath)-1])"
      | some last => do
        let parentScope ← walkScope env sc fullPath.dropLast
        let field ← (scopeField env parentScope last.name appendValue).tryCatch fun walkPathErr =>
          match last.position with
          | some pos => M.lift (wrapErr (some walkPathErr) pos)
          | none => M.err walkPathErr.wrapped                 -- newSchemaError(walkPathErr)
        match field.kind with
        | .container _ =>
          if appendValue then errAt "append-container: cannot append to container" val.span
          else do
            -- walks the alias path AGAIN (semantics §11 note A)
            let containerScope ← (childBlock env parentScope last.name).tryCatch fun e =>
              M.lift (wrapErr (some e) val.span)
            setContainerFromScalar env fuel containerScope (withScopeSpec containerScope) val
        | kind =>
          let vals : Option (List AV) :=
            match val.asArray with
            | some vs => some vs
            | none => if appendValue then some [val] else none
          match vals with
          | some vs =>
            match kind with
            | .arrayOfScalar item => do
              let len ← listLength field.addr
              if !appendValue ∧ len > 0 then errAt "value already set" val.span
              else appendValues env field.addr item vs
            | _ => errAt "badtype.ArrayOfScalar" val.span
          | none =>
            match kind with
            | .scalar t presence =>
              match scalarFromAST env t val with
              | .ok s => storeScalar field.addr presence s
              | .err e => M.lift (wrapErr (some e) val.span)
              | .panic w => M.panic w
            | _ => errAt "badtype.Scalar" val.span

/-- `walkContext.setContainerFromScalar(bs, val)`; runs in the scope of the container -/
def setContainerFromScalar (env : Env) : Nat → Scope → BlockSpec → AV → M Unit
  | 0, _, _, _ => M.panic "fuel"
  | fuel + 1, sc, bs, val =>
    match bs.scalarSplit with
    | none => M.err (.mk0 "no-scalar-split: container has no method to set from array")
    | some ss =>
      let setVals0 : M (List AV) :=
        match ss.delimiter with
        | some delim =>
          match val.asString with
          | none => errAt "literal-type.string (scalar split)" val.span
          | some strVal => pure ((stringsSplit strVal delim).map fun s => AV.str s val.span)
        | none =>
          match val.asArray with
          | none => M.err (.mk0 "container requires an array when setting from value")
          | some vs => pure vs
      do
        let setVals0 ← setVals0
        let setVals := if ss.rightToLeft then setVals0.reverse else setVals0
        if setVals.length < ss.required.length then M.err (.mk0 "split-too-few: container requires more values")
        else do
          let intoRequired := setVals.take ss.required.length
          let remaining := setVals.drop ss.required.length
          forEach2 (fun rr v => setAttribute env fuel sc rr [] v false) ss.required intoRequired
          if remaining.isEmpty then pure ()
          else do
            let optional := if remaining.length > ss.optional.length then remaining.take ss.optional.length else remaining
            let remaining := if remaining.length > ss.optional.length then remaining.drop ss.optional.length else []
            forEach2 (fun ro v => setAttribute env fuel sc ro [] v false) ss.optional optional
            if remaining.isEmpty then pure ()
            else
              match ss.remainder with
              | none => M.err (.mk0 "split-too-many: more array fields than we know what to do with")
              | some remainder => do
                let remaining := if ss.rightToLeft then remaining.reverse else remaining
                let remainingStr ← allAsString remaining
                let delim := match ss.delimiter with
                  | some d => d
                  | none => [46]
                let singleString := stringsJoin delim remainingStr
                match remaining.head?, remaining.getLast? with
                | some first, some last =>
                  setAttribute env fuel sc remainder []
                    (.str singleString ⟨first.span.start, last.span.end_⟩) false
                | _, _ => M.panic "index out of range (remaining[0])"
end

/-- fuel for the spec-following recursion: one level per container with a scalar split; never more
levels than given blocks with a split (+ slack) unless the spec is cyclic -/
def fuelOf (env : Env) : Nat := 2 * env.given.length + env.schemas.length + 8

/-- `walkContext.SetDescription(description)` -/
def setDescription (env : Env) (sc : Scope) (description : AV) : M Unit :=
  match sc.root with
  | none => M.panic "nil pointer dereference: Scope.rootBlock (after TailScope)"
  | some root =>
    match root.spec.description with
    | none => M.err (.mk0 "no-description: no description field")        -- newSchemaError
    | some descSpec => setAttribute env (fuelOf env) sc [descSpec] [] description false

/-! ## c2.go -/

/-- `checkBang(sc, tagSpec, gotTag)` -/
def checkBang (env : Env) (sc : Scope) (tagSpec : Tag) (gotTag : TagValue) : M Unit :=
  match gotTag.mark with
  | .none => pure ()
  | .bang =>
    match tagSpec.bangFieldName with
    | none => errAt "no-bang: tag does not support bang" gotTag.span
    | some f => setAttribute env (fuelOf env) sc [f] [] (.bool true) false
  | .question =>
    match tagSpec.questionFieldName with
    | none => errAt "no-question: tag does not support question" gotTag.span
    | some f => setAttribute env (fuelOf env) sc [f] [] (.bool true) false

/-- the Name part of `walkTags` once a tag has been popped -/
def applyNameTag (env : Env) (sc : Scope) (tagSpec : Tag) (gotTag : TagValue) : M Unit := do
  checkBang env sc tagSpec gotTag
  setAttribute env (fuelOf env) sc [tagSpec.fieldName] [] (.tag gotTag) false

/-- the TypeSelect part of `walkTags` once a tag has been popped: the scope `walkTags` recurses in
(`BuildScope(pathToType, ref, KeepScope)`, then `checkBang` inside `WithScope`) -/
def selectType (env : Env) (sc : Scope) (tagSpec : Tag) (gotTag : TagValue) : M Scope :=
  match gotTag.reference with
  | none => M.err (.mk0 "needs-reference: type-select needs to be a reference")
  | some ref => do
    let pathToType : PathSpec :=
      if tagSpec.fieldName = [] ∨ tagSpec.fieldName = [46] then [] else [tagSpec.fieldName]
    let typeScope ← buildScope env sc pathToType ref.idents .keepScope
    checkBang env typeScope tagSpec gotTag
    pure typeScope

/-- the end of `walkTags` (`if gotTags.hasMore() { … }`, then the callback) -/
def finishTags (env : Env) (sc : Scope) (spec : BlockSpec) (items : List TagValue) :
    M (Scope × BlockSpec) :=
  match items with
  | [] => pure (sc, spec)
  | first :: _ =>
    match items.find? (fun t => t.mark != .none) with
    | some tag => errAt "tag-mark: unexpected tag mark" tag.span
    | none =>
      match spec.scalarSplit with
      | some _ =>
        if items.length != 1 then M.err (.mk0 "split-tags: expected exactly one tag")
        else do
          setContainerFromScalar env (fuelOf env) sc spec (.tag first)
          pure (sc, spec)
      | none =>
        match items.getLast? with
        | none => M.panic "index out of range [-1] (gotTags.items[len-1])"
        | some last => errAt "extra-tags: no more tags expected" ⟨first.span.start, last.span.end_⟩

/-- `walkTags(sc, spec, gotTags, outerCallback)`; `gotTags = popSet{items, lastPosition}`. Returns
the `(sc, spec)` the callback is called with. -/
def walkTags (env : Env) : List TagValue → Pos → Scope → BlockSpec → M (Scope × BlockSpec)
  | [], lastPosition, sc, spec =>
    match spec.name with
    | some nameSpec =>
      if nameSpec.isOptional then pure (sc, spec)
      else errAt "expected-tag.name" (pointSpan lastPosition)
    | none =>
      match spec.typeSelect with
      | some _ => errAt "expected-tag.type-select" (pointSpan lastPosition)
      | none => finishTags env sc spec []
  | gotTag :: rest, _, sc, spec =>
    match spec.name with
    | some nameSpec => do
      applyNameTag env sc nameSpec gotTag
      match spec.typeSelect with
      | none => finishTags env sc spec rest
      | some typeSpec =>
        match rest with
        | [] => errAt "expected-tag.type-select" (pointSpan gotTag.span.end_)
        | typeTag :: rest2 => do
          let typeScope ← selectType env sc typeSpec typeTag
          walkTags env rest2 typeTag.span.end_ typeScope (withScopeSpec typeScope)
    | none =>
      match spec.typeSelect with
      | none => finishTags env sc spec (gotTag :: rest)
      | some typeSpec => do
        let typeScope ← selectType env sc typeSpec gotTag
        walkTags env rest gotTag.span.end_ typeScope (withScopeSpec typeScope)

/-- `walkQualifiers(sc, spec, gotQualifiers, outerCallback)`; returns the `(sc, spec)` the callback
is called with -/
def walkQualifiers (env : Env) : List TagValue → Scope → BlockSpec → M (Scope × BlockSpec)
  | [], sc, spec => pure (sc, spec)
  | qualifier :: rest, sc, spec =>
    match spec.qualifier with
    | none => errAt "no-qualifier: not expecting a qualifier" qualifier.span
    | some tagSpec =>
      if !tagSpec.isBlock then do
        checkBang env sc tagSpec qualifier
        setAttribute env (fuelOf env) sc [tagSpec.fieldName] [] (.tag qualifier) false
        if rest.isEmpty then pure (sc, spec)
        else
          match rest.head?, rest.getLast? with
          | some first, some last =>
            errAt "unexpected-qualifier" ⟨first.span.start, last.span.end_⟩
          | _, _ => M.panic "index out of range (gotQualifiers.items[0] / items[len-1])"
      else
        match qualifier.reference with
        | none => M.err (.mk0 "needs-reference: qualifier needs to be a reference to specify a block")
        | some ref => do
          let newScope ← buildScope env sc [tagSpec.fieldName] ref.idents .keepScope
          checkBang env newScope tagSpec qualifier
          walkQualifiers env rest newScope (withScopeSpec newScope)

/-- `doAssign(sc, a)` -/
def doAssign (env : Env) (sc : Scope) (a : Assignment) : M Unit :=
  setAttribute env (fuelOf env) sc [] a.key.idents (.value a.value) a.append

/-- `doDescription(sc, decl)` -/
def doDescription (env : Env) (sc : Scope) (decl : Description) : M Unit :=
  (setDescription env sc (.str (encodeRunes decl.value) decl.span)).addPosition decl.span

/-- the span of a block statement: `decl.Position()` = the header's `SourceNode` -/
def headerSpan (h : BlockHeader) : Span := ⟨h.src.start, h.src.end_⟩

def assignSpan (a : Assignment) : Span := ⟨a.src.start, a.src.end_⟩

/-- the innermost callback of `doBlock` up to `doBody`: the header description -/
def doBlockDescription (env : Env) (sc : Scope) (rootBlockSpec : BlockSpec) (h : BlockHeader) : M Unit :=
  match h.description with
  | none => pure ()
  | some desc =>
    match rootBlockSpec.description with
    | none => errAt "no-description: block has no description field" desc.span
    | some f =>
      -- `NewStringValue(bs.Description.Value, bs.SourceNode)`: the value's span is the HEADER span
      setAttribute env (fuelOf env) sc [f] [] (.str (encodeRunes desc.value) (headerSpan h)) false

/-- `doBlock(sc, spec, bs)` up to its last step `doBody(sc, bs.Body)`: tags, qualifiers and header
description; returns the scope (context) the body is walked in -/
def doBlockHead (env : Env) (sc : Scope) (spec : BlockSpec) (h : BlockHeader) : M Scope := do
  let rootBlockSpec := spec
  let (sc1, spec1) ← walkTags env h.tags h.type.span.end_ sc spec
  let (sc2, _) ← walkQualifiers env h.qualifiers sc1 spec1
  doBlockDescription env sc2 rootBlockSpec h
  pure sc2

/-- `doFullBlock(sc, decl)` up to the `doBody` at the end of `doBlock`:
`BuildScope(nil, type idents, ResetScope)`, then `WithScope(newScope, doBlock)` -/
def doFullBlockHead (env : Env) (sc : Scope) (h : BlockHeader) : M Scope := do
  let newScope ← buildScope env sc [] h.type.idents .resetScope
  doBlockHead env newScope (withScopeSpec newScope) h

mutual
/-- `doBody(sc, body)` -/
def doBody (env : Env) (sc : Scope) : List Statement → M Unit
  | [] => pure ()
  | decl :: rest => do
    doStatement env sc decl
    doBody env sc rest

/-- one iteration of the loop of `doBody`: the type switch (its `default:` arm needs a statement
type the parser does not have). The `*parser.Block` arm is `doFullBlock` → `doBlock`, whose last step
is `doBody(sc', decl.Body)`. -/
def doStatement (env : Env) (sc : Scope) : Statement → M Unit
  | .desc decl => (doDescription env sc decl).addPosition decl.span
  | .assign decl => (doAssign env sc decl).addPosition (assignSpan decl)
  | .block h body =>
    (do
      let bodyScope ← doFullBlockHead env sc h
      doBody env bodyScope body).addPosition (headerSpan h)
end

/-- `ParseAST` minus `validateFile`: `NewObject`, `NewRootSchemaWalker`, `WalkSchema(scope, body)` on
the message `msg`. `.ok tree` = the walk returned nil. -/
def walkSchema (env : Env) (body : List Statement) (msg : Node) : Res Node :=
  match newRootSchemaWalker env with
  | .err e => .err e
  | .panic w => .panic w
  | .ok scope =>
    match doBody env scope body msg with
    | .ok (_, tree) => .ok tree
    | .err e => .err e
    | .panic w => .panic w

end J5V.Walker
