import J5V.Walker.ErasePosAttr
/-!
# Source positions only position errors (3): tags, qualifiers, statements, `walkSchema`

`walkSchema_erase`: the walk over the position-erased body and the walk over the body itself give the
same tree, the same panic, or errors that differ in their position only.
`walkSchema_ok_of_erase_eq`: bodies equal up to positions are accepted with the same tree.
-/
namespace J5V.Walker
open J5V.Bcl

theorem checkBang_erase (env : Env) (sc : Scope) (tagSpec : Tag) (t : TagValue) :
    MRel Eq (checkBang env sc tagSpec t.erase) (checkBang env sc tagSpec t) := by
  unfold checkBang
  have hm : t.erase.mark = t.mark := rfl
  rw [hm]
  cases t.mark with
  | none => exact MRel.refl _
  | bang =>
    simp only []
    cases tagSpec.bangFieldName with
    | none => exact MRel.errAt _ _ _
    | some f => exact MRel.refl _
  | question =>
    simp only []
    cases tagSpec.questionFieldName with
    | none => exact MRel.errAt _ _ _
    | some f => exact MRel.refl _

theorem applyNameTag_erase (env : Env) (sc : Scope) (tagSpec : Tag) (t : TagValue) :
    MRel Eq (applyNameTag env sc tagSpec t.erase) (applyNameTag env sc tagSpec t) := by
  unfold applyNameTag
  exact MRel.bind' (checkBang_erase env sc tagSpec t)
    (fun _ => setAttribute_erase_nil env _ sc _ (.tag t) false)

theorem selectType_erase (env : Env) (sc : Scope) (tagSpec : Tag) (t : TagValue) :
    MRel Eq (selectType env sc tagSpec t.erase) (selectType env sc tagSpec t) := by
  unfold selectType
  have hr : t.erase.reference = t.reference.map Reference.erase := rfl
  rw [hr]
  cases t.reference with
  | none => exact MRel.refl _
  | some ref =>
    simp only [Option.map]
    exact MRel.bind' (buildScope_erase env sc _ ref.idents .keepScope)
      (fun ts => MRel.bind' (checkBang_erase env ts tagSpec t) (fun _ => MRel.refl _))

theorem find_mark_erase (l : List TagValue) :
    (l.map TagValue.erase).find? (fun t => t.mark != .none) =
      (l.find? (fun t => t.mark != .none)).map TagValue.erase := by
  rw [List.find?_map]; rfl

theorem finishTags_erase (env : Env) (sc : Scope) (spec : BlockSpec) (items : List TagValue) :
    MRel Eq (finishTags env sc spec (items.map TagValue.erase)) (finishTags env sc spec items) := by
  cases items with
  | nil => exact MRel.refl _
  | cons first rest =>
    have hf := find_mark_erase (first :: rest)
    have hg := List.getLast?_map (f := TagValue.erase) (l := first :: rest)
    simp only [List.map_cons] at hf hg
    simp only [List.map_cons, finishTags, hf, hg, List.length_cons, List.length_map]
    cases List.find? (fun t => t.mark != TagMark.none) (first :: rest) with
    | some tag => exact MRel.errAt _ _ _
    | none =>
      simp only [Option.map]
      cases spec.scalarSplit with
      | some ss =>
        simp only []
        apply MRel.ite
        · intro _; exact MRel.refl _
        · intro _
          exact MRel.bind' (setContainerFromScalar_erase env _ sc spec (.tag first))
            (fun _ => MRel.refl _)
      | none =>
        simp only []
        cases (first :: rest).getLast? with
        | none => exact MRel.panic _
        | some last => exact MRel.errAt _ _ _

theorem walkTags_erase_aux (env : Env) : ∀ (n : Nat) (tags : List TagValue), tags.length ≤ n →
    ∀ (lp' lp : Pos) (sc : Scope) (spec : BlockSpec),
      MRel Eq (walkTags env (tags.map TagValue.erase) lp' sc spec) (walkTags env tags lp sc spec) := by
  intro n
  induction n with
  | zero =>
    intro tags hlen lp' lp sc spec
    cases tags with
    | cons t ts => simp at hlen
    | nil =>
      simp only [List.map_nil, walkTags]
      cases spec.name with
      | some nameSpec =>
        simp only []
        apply MRel.ite
        · intro _; exact MRel.refl _
        · intro _; exact MRel.errAt _ _ _
      | none =>
        simp only []
        cases spec.typeSelect with
        | some _ => exact MRel.errAt _ _ _
        | none => exact MRel.refl _
  | succ n ih =>
    intro tags hlen lp' lp sc spec
    cases tags with
    | nil =>
      simp only [List.map_nil, walkTags]
      cases spec.name with
      | some nameSpec =>
        simp only []
        apply MRel.ite
        · intro _; exact MRel.refl _
        · intro _; exact MRel.errAt _ _ _
      | none =>
        simp only []
        cases spec.typeSelect with
        | some _ => exact MRel.errAt _ _ _
        | none => exact MRel.refl _
    | cons gotTag rest =>
      simp only [List.length_cons] at hlen
      simp only [List.map_cons, walkTags]
      cases spec.name with
      | some nameSpec =>
        simp only []
        apply MRel.bind' (applyNameTag_erase env sc nameSpec gotTag)
        intro _
        cases spec.typeSelect with
        | none => simp only []; exact finishTags_erase env sc spec rest
        | some typeSpec =>
          simp only []
          cases rest with
          | nil => simp only [List.map_nil]; exact MRel.errAt _ _ _
          | cons typeTag rest2 =>
            simp only [List.map_cons]
            apply MRel.bind' (selectType_erase env sc typeSpec typeTag)
            intro ts
            simp only [List.length_cons] at hlen
            exact ih rest2 (by omega) _ _ _ _
      | none =>
        simp only []
        cases spec.typeSelect with
        | none => simp only []; exact finishTags_erase env sc spec (gotTag :: rest)
        | some typeSpec =>
          simp only []
          apply MRel.bind' (selectType_erase env sc typeSpec gotTag)
          intro ts
          exact ih rest (by omega) _ _ _ _

/-- `walkTags`; the last position only positions errors -/
theorem walkTags_erase (env : Env) (tags : List TagValue) (lp' lp : Pos) (sc : Scope) (spec : BlockSpec) :
    MRel Eq (walkTags env (tags.map TagValue.erase) lp' sc spec) (walkTags env tags lp sc spec) :=
  walkTags_erase_aux env tags.length tags (Nat.le_refl _) lp' lp sc spec

theorem walkQualifiers_erase (env : Env) : ∀ (quals : List TagValue) (sc : Scope) (spec : BlockSpec),
    MRel Eq (walkQualifiers env (quals.map TagValue.erase) sc spec) (walkQualifiers env quals sc spec) := by
  intro quals
  induction quals with
  | nil => intro sc spec; exact MRel.refl _
  | cons qualifier rest ih =>
    intro sc spec
    simp only [List.map_cons, walkQualifiers]
    cases spec.qualifier with
    | none => exact MRel.errAt _ _ _
    | some tagSpec =>
      simp only []
      apply MRel.ite
      · intro _
        apply MRel.bind' (checkBang_erase env sc tagSpec qualifier)
        intro _
        apply MRel.bind' (setAttribute_erase_nil env _ sc _ (.tag qualifier) false)
        intro _
        simp only [List.isEmpty_map, List.head?_map, List.getLast?_map]
        apply MRel.ite
        · intro _; exact MRel.refl _
        · intro _
          cases rest.head? with
          | none => exact MRel.panic _
          | some first =>
            cases rest.getLast? with
            | none => exact MRel.panic _
            | some last => exact MRel.errAt _ _ _
      · intro _
        have hr : qualifier.erase.reference = qualifier.reference.map Reference.erase := rfl
        rw [hr]
        cases qualifier.reference with
        | none => exact MRel.refl _
        | some ref =>
          simp only [Option.map]
          exact MRel.bind' (buildScope_erase env sc _ ref.idents .keepScope)
            (fun ns => MRel.bind' (checkBang_erase env ns tagSpec qualifier) (fun _ => ih ns _))

theorem doAssign_erase (env : Env) (sc : Scope) (a : Assignment) :
    MRel Eq (doAssign env sc a.erase) (doAssign env sc a) :=
  setAttribute_erase env _ sc [] a.key.idents (.value a.value) a.append

theorem doDescription_erase (env : Env) (sc : Scope) (d : Description) :
    MRel Eq (doDescription env sc d.erase) (doDescription env sc d) :=
  MRel.addPosition (setDescription_erase env sc (.str (encodeRunes d.value) d.span)) _ _

theorem doBlockDescription_erase (env : Env) (sc : Scope) (root : BlockSpec) (h : BlockHeader) :
    MRel Eq (doBlockDescription env sc root h.erase) (doBlockDescription env sc root h) := by
  unfold doBlockDescription
  have hd : h.erase.description = h.description.map Description.erase := rfl
  rw [hd]
  cases h.description with
  | none => exact MRel.refl _
  | some desc =>
    simp only [Option.map]
    cases root.description with
    | none => exact MRel.errAt _ _ _
    | some f =>
      exact setAttribute_erase_nil env _ sc _ (.str (encodeRunes desc.value) (headerSpan h)) false

theorem doBlockHead_erase (env : Env) (sc : Scope) (spec : BlockSpec) (h : BlockHeader) :
    MRel Eq (doBlockHead env sc spec h.erase) (doBlockHead env sc spec h) := by
  unfold doBlockHead
  apply MRel.bind' (walkTags_erase env h.tags _ _ sc spec)
  intro p
  obtain ⟨sc1, spec1⟩ := p
  apply MRel.bind' (walkQualifiers_erase env h.qualifiers sc1 spec1)
  intro q
  obtain ⟨sc2, spec2⟩ := q
  exact MRel.bind' (doBlockDescription_erase env sc2 spec h) (fun _ => MRel.refl _)

theorem doFullBlockHead_erase (env : Env) (sc : Scope) (h : BlockHeader) :
    MRel Eq (doFullBlockHead env sc h.erase) (doFullBlockHead env sc h) := by
  unfold doFullBlockHead
  exact MRel.bind' (buildScope_erase env sc [] h.type.idents .resetScope)
    (fun ns => doBlockHead_erase env ns _ h)

mutual
theorem doBody_erase (env : Env) : ∀ (body : List Statement) (sc : Scope),
    MRel Eq (doBody env sc (Statement.eraseList body)) (doBody env sc body)
  | [], sc => by
    simp only [Statement.eraseList, doBody]; exact MRel.refl _
  | s :: rest, sc => by
    simp only [Statement.eraseList, doBody]
    exact MRel.bind' (doStatement_erase env s sc) (fun _ => doBody_erase env rest sc)
theorem doStatement_erase (env : Env) : ∀ (s : Statement) (sc : Scope),
    MRel Eq (doStatement env sc s.erase) (doStatement env sc s)
  | .desc d, sc => by
    simp only [Statement.erase, doStatement]
    exact MRel.addPosition (doDescription_erase env sc d) _ _
  | .assign a, sc => by
    simp only [Statement.erase, doStatement]
    exact MRel.addPosition (doAssign_erase env sc a) _ _
  | .block h body, sc => by
    simp only [Statement.erase, doStatement]
    exact MRel.addPosition
      (MRel.bind' (doFullBlockHead_erase env sc h) (fun bs => doBody_erase env body bs)) _ _
end

/-- positions of the statements, idents, tags and values only position the error of a walk -/
theorem walkSchema_erase (env : Env) (body : List J5V.Bcl.Statement) (msg : Node) :
    (walkSchema env (J5V.Bcl.Statement.eraseList body) msg).dropPos =
      (walkSchema env body msg).dropPos := by
  unfold walkSchema
  cases newRootSchemaWalker env with
  | err e => rfl
  | panic w => rfl
  | ok scope =>
    simp only []
    have h := doBody_erase env body scope msg
    cases h' : doBody env scope (Statement.eraseList body) msg with
    | ok r' =>
      cases h0 : doBody env scope body msg with
      | ok r =>
        rw [h', h0] at h
        obtain ⟨a', s'⟩ := r'; obtain ⟨a, s⟩ := r
        have h2 : s' = s := h.2
        subst h2; rfl
      | err e => rw [h', h0] at h; exact absurd h id
      | panic w => rw [h', h0] at h; exact absurd h id
    | err e' =>
      cases h0 : doBody env scope body msg with
      | ok r => rw [h', h0] at h; exact absurd h id
      | err e =>
        rw [h', h0] at h
        obtain ⟨p', k', w'⟩ := e'; obtain ⟨p, k, w⟩ := e
        obtain ⟨h1, h2⟩ := h
        simp only at h1 h2
        subst h1; subst h2; rfl
      | panic w => rw [h', h0] at h; exact absurd h id
    | panic w' =>
      cases h0 : doBody env scope body msg with
      | ok r => rw [h', h0] at h; exact absurd h id
      | err e => rw [h', h0] at h; exact absurd h id
      | panic w => rw [h', h0] at h; have : w' = w := h; subst this; rfl

theorem Res.eq_ok_of_dropPos {α : Type} {x : Res α} {r : α} (h : x.dropPos = .ok r) : x = .ok r := by
  cases x with
  | ok a => exact h
  | err e => cases h
  | panic w => cases h

/-- bodies equal up to positions: the same tree -/
theorem walkSchema_ok_of_erase_eq (env : Env) (body body' : List J5V.Bcl.Statement) (msg r : Node)
    (he : J5V.Bcl.Statement.eraseList body' = J5V.Bcl.Statement.eraseList body)
    (h : walkSchema env body msg = .ok r) : walkSchema env body' msg = .ok r := by
  apply Res.eq_ok_of_dropPos
  rw [← walkSchema_erase env body' msg, he, walkSchema_erase env body msg, h]
  rfl

/-- … and rejected together (an error for one is an error for the other, a panic a panic) -/
theorem walkSchema_dropPos_of_erase_eq (env : Env) (body body' : List J5V.Bcl.Statement) (msg : Node)
    (he : J5V.Bcl.Statement.eraseList body' = J5V.Bcl.Statement.eraseList body) :
    (walkSchema env body' msg).dropPos = (walkSchema env body msg).dropPos := by
  rw [← walkSchema_erase env body' msg, he, walkSchema_erase env body msg]

end J5V.Walker
