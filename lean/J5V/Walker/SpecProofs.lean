import J5V.Walker.Hoare
/-!
# Specs of `Spec.lean`: `buildSpecLoop`, `mergeAliases`, `buildSpec`, `specOf`

`specOf` never panics (whatever the environment), its errors carry no position, it depends on the KIND
of the container only, and the result keeps `typeSelect` / `qualifier` / `scalarSplit` / `onlyDefined`,
a given `name` / `description` and every given alias of the given block (`givenSpec`).
-/
namespace J5V.Walker

/-- the given block `_buildSpec` starts from -/
def givenSpec (env : Env) (c : Cont) : BlockSpec :=
  match findGiven c.schemaName env.given with
  | some g => g
  | none => BlockSpec.empty

/-- what `buildSpecLoop` keeps of the block it completes -/
structure SpecKeeps (spec spec' : BlockSpec) : Prop where
  typeSelect : spec'.typeSelect = spec.typeSelect
  qualifier : spec'.qualifier = spec.qualifier
  scalarSplit : spec'.scalarSplit = spec.scalarSplit
  onlyDefined : spec'.onlyDefined = spec.onlyDefined
  aliases : spec'.aliases = spec.aliases
  name : ∀ t, spec.name = some t → spec'.name = some t
  description : ∀ d, spec.description = some d → spec'.description = some d

theorem SpecKeeps.refl (spec : BlockSpec) : SpecKeeps spec spec :=
  ⟨rfl, rfl, rfl, rfl, rfl, fun _ h => h, fun _ h => h⟩

theorem SpecKeeps.trans {a b c : BlockSpec} (h1 : SpecKeeps a b) (h2 : SpecKeeps b c) : SpecKeeps a c :=
  ⟨h2.typeSelect.trans h1.typeSelect, h2.qualifier.trans h1.qualifier,
   h2.scalarSplit.trans h1.scalarSplit, h2.onlyDefined.trans h1.onlyDefined,
   h2.aliases.trans h1.aliases, fun t h => h2.name t (h1.name t h),
   fun d h => h2.description d (h1.description d h)⟩

/-- the automatic name tag (the `.scalar .string` step of the loop, first half) -/
def nameStep (p : Property) (spec : BlockSpec) : BlockSpec :=
  if p.name = strName ∧ spec.name.isNone then
    { spec with name := some ⟨strName, none, none, !p.required, false⟩ }
  else spec

/-- the automatic description (second half) -/
def descStep (p : Property) (spec1 : BlockSpec) : BlockSpec :=
  if p.name = strDescription ∧ spec1.description.isNone then
    { spec1 with description := some strDescription }
  else spec1

theorem SpecKeeps.nameStep (p : Property) (spec : BlockSpec) : SpecKeeps spec (nameStep p spec) := by
  unfold J5V.Walker.nameStep
  split
  · rename_i h
    refine ⟨rfl, rfl, rfl, rfl, rfl, ?_, fun _ h => h⟩
    intro t ht; rw [ht] at h; simp at h
  · exact SpecKeeps.refl _

theorem SpecKeeps.descStep (p : Property) (spec : BlockSpec) : SpecKeeps spec (descStep p spec) := by
  unfold J5V.Walker.descStep
  split
  · rename_i h
    refine ⟨rfl, rfl, rfl, rfl, rfl, fun _ h => h, ?_⟩
    intro d hd; rw [hd] at h; simp at h
  · exact SpecKeeps.refl _

theorem buildSpecLoop_spec (props : List Property) (spec : BlockSpec) (na : List (Str × PathSpec)) :
    (∀ w, buildSpecLoop props spec na ≠ .panic w) ∧
    (∀ e, buildSpecLoop props spec na = .err e → NoPos e) ∧
    (∀ spec' na', buildSpecLoop props spec na = .ok (spec', na') → SpecKeeps spec spec') := by
  induction props generalizing spec na with
  | nil =>
    refine ⟨by simp [buildSpecLoop], by simp [buildSpecLoop], ?_⟩
    intro spec' na' h
    simp only [buildSpecLoop, Res.ok.injEq, Prod.mk.injEq] at h
    rw [← h.1]; exact SpecKeeps.refl _
  | cons p rest ih =>
    unfold buildSpecLoop
    cases ht : p.type with
    | object r => exact ih spec na
    | oneof r => exact ih spec na
    | enum r => exact ih spec na
    | any =>
      refine ⟨by simp, ?_, by simp⟩
      intro e h; cases h; rfl
    | unknown =>
      refine ⟨by simp, ?_, by simp⟩
      intro e h; cases h; rfl
    | scalar k =>
      cases k with
      | string =>
        have hk := (SpecKeeps.nameStep p spec).trans (SpecKeeps.descStep p (nameStep p spec))
        obtain ⟨h1, h2, h3⟩ := ih (descStep p (nameStep p spec)) na
        exact ⟨h1, h2, fun spec' na' h => hk.trans (h3 spec' na' h)⟩
      | _ => exact ih spec na
    | array item =>
      simp only
      cases p.singleForm with
      | some sf => exact ih spec _
      | none =>
        simp only
        split
        · exact ih spec _
        · exact ih spec na
    | map item =>
      simp only
      cases p.singleForm with
      | some sf => exact ih spec _
      | none => exact ih spec na

theorem aliasLookup_append_left {k : Str} {l l' : List (Str × PathSpec)} {p : PathSpec}
    (h : aliasLookup k l = some p) : aliasLookup k (l ++ l') = some p := by
  induction l with
  | nil => cases h
  | cons x rest ih =>
    obtain ⟨k', p'⟩ := x
    simp only [aliasLookup, List.cons_append] at h ⊢
    split
    · rename_i hk; simpa [hk] using h
    · rename_i hk; simp only [hk, if_false] at h; exact ih h

/-- the automatic aliases never override a given one -/
theorem aliasLookup_mergeAliases {k : Str} {na acc : List (Str × PathSpec)} {p : PathSpec}
    (h : aliasLookup k acc = some p) : aliasLookup k (mergeAliases na acc) = some p := by
  induction na generalizing acc with
  | nil => exact h
  | cons x rest ih =>
    obtain ⟨a, q⟩ := x
    simp only [mergeAliases]
    split
    · exact ih h
    · exact ih (aliasLookup_append_left h)

theorem specOf_eq (env : Env) (c : Cont) :
    specOf env c =
      if (givenSpec env c).onlyDefined then .ok (givenSpec env c)
      else
        match buildSpecLoop c.rangeProps (givenSpec env c) [] with
        | .ok (spec1, na) => .ok { spec1 with aliases := mergeAliases na spec1.aliases }
        | .err e => .err e
        | .panic w => .panic w := rfl

/-- `specOf` is total and its errors carry no position -/
theorem specOf_no_panic (env : Env) (c : Cont) (w : String) : specOf env c ≠ .panic w := by
  rw [specOf_eq]
  have := (buildSpecLoop_spec c.rangeProps (givenSpec env c) []).1
  generalize givenSpec env c = g at this ⊢
  by_cases hod : g.onlyDefined = true
  · simp [hod]
  · simp only [hod]
    cases hl : buildSpecLoop c.rangeProps g [] with
    | ok r => simp
    | err e => simp
    | panic w' => exact absurd hl (this w')

theorem specOf_err_noPos {env : Env} {c : Cont} {e : WErr} (h : specOf env c = .err e) : NoPos e := by
  rw [specOf_eq] at h
  have := (buildSpecLoop_spec c.rangeProps (givenSpec env c) []).2.1
  generalize givenSpec env c = g at this h
  by_cases hod : g.onlyDefined = true
  · simp [hod] at h
  · simp only [hod] at h
    cases hl : buildSpecLoop c.rangeProps g [] with
    | ok r => rw [hl] at h; simp at h
    | err e' => rw [hl] at h; simp at h; subst h; exact this e' hl
    | panic w' => rw [hl] at h; simp at h

/-- what the spec of a container keeps of the given block: tags, split, `onlyDefined`; a given name /
description; every given alias -/
theorem specOf_keeps {env : Env} {c : Cont} {spec : BlockSpec} (h : specOf env c = .ok spec) :
    spec.typeSelect = (givenSpec env c).typeSelect ∧
    spec.qualifier = (givenSpec env c).qualifier ∧
    spec.scalarSplit = (givenSpec env c).scalarSplit ∧
    spec.onlyDefined = (givenSpec env c).onlyDefined ∧
    (∀ t, (givenSpec env c).name = some t → spec.name = some t) ∧
    (∀ d, (givenSpec env c).description = some d → spec.description = some d) ∧
    (∀ a p, aliasLookup a (givenSpec env c).aliases = some p → aliasLookup a spec.aliases = some p) := by
  rw [specOf_eq] at h
  have := (buildSpecLoop_spec c.rangeProps (givenSpec env c) []).2.2
  generalize givenSpec env c = g at this h ⊢
  by_cases hod : g.onlyDefined = true
  · simp [hod] at h
    subst h
    exact ⟨rfl, rfl, rfl, rfl, fun _ h => h, fun _ h => h, fun _ _ h => h⟩
  · simp only [hod] at h
    cases hl : buildSpecLoop c.rangeProps g [] with
    | ok r =>
      obtain ⟨spec1, na⟩ := r
      rw [hl] at h; simp at h; subst h
      have hk := this spec1 na hl
      refine ⟨hk.typeSelect, hk.qualifier, hk.scalarSplit, hk.onlyDefined, hk.name, hk.description, ?_⟩
      intro a p hp
      apply aliasLookup_mergeAliases
      rw [hk.aliases]; exact hp
    | err e' => rw [hl] at h; simp at h
    | panic w' => rw [hl] at h; simp at h

/-- the spec depends on the kind of the container only, not on where it sits -/
theorem specOf_addr (env : Env) (a a' : Addr) (k : ContKind) : specOf env ⟨a, k⟩ = specOf env ⟨a', k⟩ := rfl

theorem givenSpec_addr (env : Env) (a a' : Addr) (k : ContKind) : givenSpec env ⟨a, k⟩ = givenSpec env ⟨a', k⟩ := rfl

end J5V.Walker
