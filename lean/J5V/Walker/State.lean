import J5V.Walker.Types
/-!
# The message being built, as an abstract tree (core only) — walker-semantics §5

Go: `j5reflect` wrappers (`propSet`, `property.value`, array / map / scalar fields) around a proto
message. Model: one immutable `Node` tree, containers and fields are ADDRESSES (`Addr`, child indices
from the root) into it, every mutation is a functional update (`Node.set`).

Two notions of "set" are kept apart, as in Go:
* **touched** (`property.value != nil`, per propSet instance): the `touched` flags of a `.msg` node;
* **populated** (proto presence; what `WhichOneof`, `Length()` and the dump read): `Node.populated`.

A FRESH propSet (nothing touched) is built whenever Go wraps a message anew: a new message, an existing
message reached through a property touched for the first time (the stub's `package`), and EVERY visit
of a container-typed map element (`mutableMapField.wrapValue`).

Flattened parents (`protoPath` with several elements) are invisible: the properties of a flattened
message are slots of the outer `.msg` node; the intermediate proto messages only matter for the
oneof rule, which `Property.oneofGroup` scopes to one intermediate message.

Partial operations of Go are `.panic` arms: `ObjectField.Schema()` = `Ref.To.(*ObjectSchema)` /
`OneofField.Schema()` = `Ref.To.(*OneofSchema)` (type assertions), the `default: panic("invalid schema
for …")` arms of `newMessageFieldFactory` / `newFieldFactory`. Arms prefixed `model:` are not Go
behaviour: they guard the model's own addressing (an address that does not lead to a node of the
expected shape); Go holds a pointer there.
-/
namespace J5V.Walker

/-- a stored proto scalar -/
inductive Scalar where
  | str (s : Str)            -- string, key, bytes
  | bool (b : Bool)
  | int (v : Int)            -- int32, int64
  | uint (v : Nat)           -- uint32, uint64
  | f32 (bits : Nat)
  | f64 (bits : Nat)
  | enum (number : Int)
  deriving Repr, DecidableEq, Inhabited

/-- the proto3 zero value (BCL has no negative literals: −0.0 cannot be stored) -/
def Scalar.isZero : Scalar → Bool
  | .str s => s.isEmpty
  | .bool b => !b
  | .int v => v == 0
  | .uint v => v == 0
  | .f32 b => b == 0
  | .f64 b => b == 0
  | .enum n => n == 0

/-- the tree. `msg`: one slot per client property of the schema, in schema order (`touched[i]` and
`props[i]` belong together); `map`: `keys[i] ↦ vals[i]` in insertion order. `absent` = unpopulated. -/
inductive Node where
  | absent
  | scalar (v : Scalar)
  | msg (touched : List Bool) (props : List Node)
  | list (items : List Node)
  | map (keys : List Str) (vals : List Node)
  deriving Repr, Inhabited

/-- address of a node: child indices from the root message -/
abbrev Addr := List Nat

def Node.children : Node → List Node
  | .msg _ ps => ps
  | .list xs => xs
  | .map _ vs => vs
  | _ => []

def Node.withChildren : Node → List Node → Node
  | .msg t _, cs => .msg t cs
  | .list _, cs => .list cs
  | .map k _, cs => .map k cs
  | n, _ => n

def Node.get? : Node → Addr → Option Node
  | n, [] => some n
  | n, i :: rest =>
    match n.children[i]? with
    | some c => c.get? rest
    | none => none

/-- apply `f` to the `i`-th element (none: unchanged) -/
def modifyNth (f : Node → Node) : List Node → Nat → List Node
  | [], _ => []
  | c :: cs, 0 => f c :: cs
  | c :: cs, i + 1 => c :: modifyNth f cs i

/-- functional update; an address outside the tree changes nothing. (Written by cases on the node so
that the compiled code updates a uniquely referenced tree in place.) -/
def Node.set : Node → Addr → Node → Node
  | _, [], v => v
  | .msg t ps, i :: rest, v => .msg t (modifyNth (fun c => c.set rest v) ps i)
  | .list xs, i :: rest, v => .list (modifyNth (fun c => c.set rest v) xs i)
  | .map ks vs, i :: rest, v => .map ks (modifyNth (fun c => c.set rest v) vs i)
  | n, _ :: _, _ => n

/-- proto presence of a value (lists and maps: non-empty; a scalar without presence holding the
zero value is stored as `absent`, see `storeScalar`) -/
def Node.populated : Node → Bool
  | .absent => false
  | .scalar _ => true
  | .msg _ _ => true
  | .list xs => !xs.isEmpty
  | .map ks _ => !ks.isEmpty

/-! ## The state monad of the walk -/

/-- a computation over the tree that may fail (`error`) or panic -/
def M (α : Type) := Node → Res (α × Node)

namespace M
def pure {α} (a : α) : M α := fun st => .ok (a, st)
def bind {α β} (m : M α) (f : α → M β) : M β := fun st =>
  match m st with
  | .ok (a, st1) => f a st1
  | .err e => .err e
  | .panic w => .panic w
instance : Monad M where
  pure := M.pure
  bind := M.bind
def err {α} (e : WErr) : M α := fun _ => .err e
def panic {α} (why : String) : M α := fun _ => .panic why
def lift {α} : Res α → M α
  | .ok a => M.pure a
  | .err e => M.err e
  | .panic w => M.panic w
/-- apply `h` to the error of `m`, if any -/
def mapErr {α} (m : M α) (h : WErr → WErr) : M α := fun st =>
  match m st with
  | .ok r => .ok r
  | .err e => .err (h e)
  | .panic w => .panic w
/-- `errpos.AddPosition(err, pos)` on the result -/
def addPosition {α} (m : M α) (p : J5V.Bcl.Span) : M α := m.mapErr (·.addPosition p)
end M

def getNode (a : Addr) : M Node := fun root =>
  match root.get? a with
  | some n => .ok (n, root)
  | none => .panic "model: dangling address"

def setNode (a : Addr) (n : Node) : M Unit := fun root => .ok ((), root.set a n)

/-! ## Containers and fields -/

/-- a `j5PropSet`: a property set over a message, or a `mapContainer` -/
inductive ContKind where
  | msg (schema : Schema)
  /-- `name` = `mapNode.FullTypeName()` -/
  | map (name : Str) (item : FieldType)
  deriving Repr, Inhabited

structure Cont where
  addr : Addr
  kind : ContKind
  deriving Repr, Inhabited

/-- `SchemaName()` -/
def Cont.schemaName (c : Cont) : Str :=
  match c.kind with
  | .msg s => s.name
  | .map n _ => n

/-- what a `j5reflect.Field` wrapper is (the table of `As…` answers, semantics §5.2) -/
inductive FieldKind where
  | container (schema : Schema)                 -- object field, oneof field
  | arrayOfContainer (schema : Schema)          -- array of object / oneof
  | arrayOfScalar (item : FieldType)            -- array of scalar / enum
  | map (name : Str) (item : FieldType)         -- all four map kinds; name = FullTypeName()
  | scalar (type : FieldType) (presence : Bool) -- scalar, enum; `presence`: a stored zero value stays populated
  | any
  deriving Repr, Inhabited

/-- a field wrapper: where its value lives, and its kind -/
structure Field where
  addr : Addr
  kind : FieldKind
  deriving Repr, Inhabited

def findProp (name : Str) : Nat → List Property → Option (Nat × Property)
  | _, [] => none
  | i, p :: rest => if p.name = name then some (i, p) else findProp name (i + 1) rest

def findKey (k : Str) : Nat → List Str → Option Nat
  | _, [] => none
  | i, k' :: rest => if k' = k then some i else findKey k (i + 1) rest

/-- `propSet.HasProperty` -/
def Schema.hasProperty (s : Schema) (name : Str) : Bool := (findProp name 0 s.props).isSome

/-- `HasProperty` of a `j5PropSet`: a `mapContainer` answers true for every name -/
def Cont.hasProperty (c : Cont) (name : Str) : Bool :=
  match c.kind with
  | .msg s => s.hasProperty name
  | .map _ _ => true

/-- `ObjectField.Schema()` / `OneofField.Schema()`: `Ref.To.(*ObjectSchema)` / `.(*OneofSchema)` -/
def resolveRef (env : Env) (wantOneof : Bool) (ref : Str) : Res Schema :=
  let s := env.schemaOf ref
  if s.isOneof = wantOneof then .ok s
  else .panic (if wantOneof then "type assertion Ref.To.(*OneofSchema)" else "type assertion Ref.To.(*ObjectSchema)")

/-- a new, empty message of schema `s` with a fresh propSet -/
def freshMsg (s : Schema) : Node :=
  .msg (List.replicate s.props.length false) (List.replicate s.props.length .absent)

/-- `buildProperty` without its effects: the wrapper kind of property `p` of schema `owner`, or the
error / panic of the factories (`newMessageArrayField`, `newMessageMapField`, `newLeafArrayField`,
`newLeafMapField`, `newMessageFieldFactory`, `newFieldFactory`) -/
def classify (env : Env) (owner : Str) (p : Property) : Res FieldKind :=
  match p.type with
  | .array item =>
    match item with
    | .object r => match resolveRef env false r with
      | .ok s => .ok (.arrayOfContainer s) | .err e => .err e | .panic w => .panic w
    | .oneof r => match resolveRef env true r with
      | .ok s => .ok (.arrayOfContainer s) | .err e => .err e | .panic w => .panic w
    | .scalar _ => .ok (.arrayOfScalar item)
    | .enum _ => .ok (.arrayOfScalar item)
    | .any => .err (.mk0 "unsupported array item schema")
    | _ => .panic "invalid schema for message field"
  | .map item =>
    let name := owner ++ [46] ++ p.name
    match item with
    | .object r => match resolveRef env false r with
      | .ok _ => .ok (.map name item) | .err e => .err e | .panic w => .panic w
    | .oneof r => match resolveRef env true r with
      | .ok _ => .ok (.map name item) | .err e => .err e | .panic w => .panic w
    | .scalar _ => .ok (.map name item)
    | .enum _ => .ok (.map name item)
    | .any => .err (.mk0 "unsupported schema type (map item)")
    | _ => .panic "invalid schema for message field"
  | .object r => match resolveRef env false r with
    | .ok s => .ok (.container s) | .err e => .err e | .panic w => .panic w
  | .oneof r => match resolveRef env true r with
    | .ok s => .ok (.container s) | .err e => .err e | .panic w => .panic w
  | .any => .ok .any
  | .scalar _ => .ok (.scalar p.type p.presence)
  | .enum _ => .ok (.scalar p.type p.presence)
  | .unknown => .panic "invalid schema for leaf field"

/-- `walkMessage.WhichOneof(oneof)` names another member: some property `j ≠ i` of the same real
proto oneof (in the same intermediate message) is populated -/
def oneofConflict (g : Str × List Nat) (i : Nat) : Nat → List Property → List Node → Bool
  | _, [], _ => false
  | _, _, [] => false
  | j, p :: ps, v :: vs =>
    (j != i && p.oneofGroup == some g && v.populated) || oneofConflict g i (j + 1) ps vs

/-- the value a property has right after its wrapper was built (step 3 of `buildValue`):
`Mutable(list / map)` leaves an empty container unpopulated; `Mutable(message)` makes the message
present, and an existing message gets a FRESH propSet -/
def builtValue (kind : FieldKind) (cur : Node) : Node :=
  match kind with
  | .arrayOfContainer _ => match cur with | .list xs => .list xs | _ => .list []
  | .arrayOfScalar _ => match cur with | .list xs => .list xs | _ => .list []
  | .map _ _ => match cur with | .map ks vs => .map ks vs | _ => .map [] []
  | .container s => match cur with
    | .msg _ ps => .msg (List.replicate ps.length false) ps
    | _ => freshMsg s
  | .any => match cur with | .msg t ps => .msg t ps | _ => .msg [] []
  | .scalar _ _ => cur

/-- `propSet.buildValue(prop, create = true)` for property `i` = `p` of the message at `c` -/
def buildValue (env : Env) (c : Addr) (s : Schema) (i : Nat) (p : Property) : M Field := do
  let n ← getNode c
  match n with
  | .msg touched vals =>
    let conflict := match p.oneofGroup with
      | some g => oneofConflict g i 0 s.props vals
      | none => false
    if conflict then M.err (.mk0 "oneof-conflict: another member of the proto oneof is already set")
    else
      let kind ← M.lift (classify env s.name p)
      match vals[i]? with
      | none => M.panic "model: property index outside the message"
      | some cur =>
        setNode c (.msg (touched.set i true) (vals.set i (builtValue kind cur)))
        pure ⟨c ++ [i], kind⟩
  | _ => M.panic "model: container address is not a message"

/-- `propSet.GetOrCreateValue(name)` (`mustBeNew = false`) and `propSet.NewValue(name)`
(`mustBeNew = true`) -/
def propSetValue (env : Env) (c : Addr) (s : Schema) (name : Str) (mustBeNew : Bool) : M Field :=
  match findProp name 0 s.props with
  | none => M.err (.mk0 "has no property")
  | some (i, p) => do
    let n ← getNode c
    match n with
    | .msg touched _ =>
      if touched[i]? = some true then
        if mustBeNew then M.err (.mk0 "already-set: field is already set")
        else do
          -- the cached wrapper: no oneof check, nothing rebuilt
          let kind ← M.lift (classify env s.name p)
          pure ⟨c ++ [i], kind⟩
      else buildValue env c s i p
    | _ => M.panic "model: container address is not a message"

/-- `protoreflect.Map.NewValue()` of a leaf map: the zero value of the item type -/
def zeroOf : FieldType → Node
  | .scalar .bool => .scalar (.bool false)
  | .scalar .string => .scalar (.str [])
  | .scalar .key => .scalar (.str [])
  | .scalar .bytes => .scalar (.str [])
  | .scalar .int32 => .scalar (.int 0)
  | .scalar .int64 => .scalar (.int 0)
  | .scalar .uint32 => .scalar (.uint 0)
  | .scalar .uint64 => .scalar (.uint 0)
  | .scalar .float32 => .scalar (.f32 0)
  | .scalar .float64 => .scalar (.f64 0)
  | .enum _ => .scalar (.enum 0)
  | _ => .msg [] []       -- timestamp, date, decimal: an empty message

/-- `MapField.NewElement(key)` (`mustBeNew = true`) / `GetOrCreateElement(key)` of the map at `c` -/
def mapElement (env : Env) (c : Addr) (item : FieldType) (key : Str) (mustBeNew : Bool) : M Field := do
  let n ← getNode c
  match n with
  | .map keys vals =>
    let container (wantOneof : Bool) (r : Str) : M Field := do
      let s ← M.lift (resolveRef env wantOneof r)
      match findKey key 0 keys with
      | some j =>
        if mustBeNew then M.err (.mk0 "map-key-exists: key already exists in map")
        else
          match vals[j]? with
          | none => M.panic "model: map entry index"
          | some cur =>
            -- `wrapValue`: a fresh propSet over the existing message, on every visit
            setNode c (.map keys (vals.set j (builtValue (.container s) cur)))
            pure ⟨c ++ [j], .container s⟩
      | none =>
        setNode c (.map (keys ++ [key]) (vals ++ [freshMsg s]))
        pure ⟨c ++ [keys.length], .container s⟩
    let leaf : M Field :=
      match findKey key 0 keys with
      | some j =>
        if mustBeNew then M.err (.mk0 "map-key-exists: key already exists in map")
        else pure ⟨c ++ [j], .scalar item true⟩
      | none => do
        setNode c (.map (keys ++ [key]) (vals ++ [zeroOf item]))
        pure ⟨c ++ [keys.length], .scalar item true⟩
    match item with
    | .object r => container false r
    | .oneof r => container true r
    | .scalar _ => leaf
    | .enum _ => leaf
    | _ => M.panic "model: map wrapper over an unsupported item type"
  | _ => M.panic "model: map address is not a map"

/-- `j5PropSet.GetOrCreateValue(name)` / `j5PropSet.NewValue(name)` -/
def Cont.value (env : Env) (c : Cont) (name : Str) (mustBeNew : Bool) : M Field :=
  match c.kind with
  | .msg s => propSetValue env c.addr s name mustBeNew
  | .map _ item => mapElement env c.addr item name mustBeNew

/-- `ArrayOfContainerField.NewContainerElement()`: `AppendMutable()`, a new populated empty message
at index `Len()` with a fresh propSet -/
def newContainerElement (f : Addr) (s : Schema) : M Cont := do
  let n ← getNode f
  match n with
  | .list xs =>
    setNode f (.list (xs ++ [freshMsg s]))
    pure ⟨f ++ [xs.length], .msg s⟩
  | _ => M.panic "model: array address is not a list"

/-- `ArrayField.Length()` -/
def listLength (f : Addr) : M Nat := do
  let n ← getNode f
  match n with
  | .list xs => pure xs.length
  | _ => M.panic "model: array address is not a list"

/-- `leafArrayField.appendProtoValue` -/
def appendScalar (f : Addr) (v : Scalar) : M Unit := do
  let n ← getNode f
  match n with
  | .list xs => setNode f (.list (xs ++ [.scalar v]))
  | _ => M.panic "model: array address is not a list"

/-- `protoPair.setValue` / `protoMapValue.setValue`: storing the zero value into a field without
presence leaves it unpopulated -/
def storeScalar (f : Addr) (presence : Bool) (v : Scalar) : M Unit :=
  setNode f (if presence || !v.isZero then .scalar v else .absent)

end J5V.Walker
