import J5V.Walker.WFj5a
import J5V.Walker.WFj5b
/-!
# `j5Env.WF = true`, checked by the kernel

`j5Env` is slow to reduce in the kernel: `str` goes through `String.toList`, which the kernel unfolds
through UTF-8 DECODING of the literal (well-founded recursion over a byte array, ~0.25 s per schema
name), and every conjunct of `Env.WF` forces every name. So a NORMAL FORM is proved once:
`j5EnvNF` is the value of `j5Env` written out as a literal — the literal is produced by elaborators
(`WFj5Lit.lean`) and `j5Env_nf : j5Env = j5EnvNF` is checked by the kernel (`decide +kernel`, in chunks of
27 schemas, `WFj5a.lean` / `WFj5b.lean`). Nothing here is copied by hand: when the facts are regenerated,
the literal follows. `j5EnvNF.WF = true` then reduces in a few seconds.
-/
namespace J5V.Walker

def j5EnvNF : Env :=
  ⟨j5_root_lit%,
   j5_chunk_lit% 0 ++ (j5_chunk_lit% 27 ++ (j5_chunk_lit% 54 ++ (j5_chunk_lit% 81 ++ j5_rest_lit% 108))),
   j5_enums_lit%, j5_given_lit%⟩

theorem map_split (f : J5V.Generated.Walkerschema.Schema → Schema) (l : List _) (a : Nat) :
    (l.drop a).map f = ((l.drop a).take 27).map f ++ (l.drop (a + 27)).map f := by
  rw [← List.map_append, ← List.drop_drop, List.take_append_drop]

theorem j5_schemas_nf : j5Env.schemas = j5EnvNF.schemas := by
  show (J5V.Generated.Walkerschema.schemas.drop 0).map convSchema = _
  rw [map_split _ _ 0, map_split _ _ 27, map_split _ _ 54, map_split _ _ 81]
  show j5Chunk 0 ++ (j5Chunk 27 ++ (j5Chunk 54 ++ (j5Chunk 81 ++ _))) = _
  rw [j5_chunk0_nf, j5_chunk1_nf, j5_chunk2_nf, j5_chunk3_nf, j5_rest_nf]
  rfl

theorem j5Env_nf : j5Env = j5EnvNF := by
  show (⟨j5Env.root, j5Env.schemas, j5Env.enums, j5Env.given⟩ : Env) = _
  rw [j5_root_nf, j5_schemas_nf, j5_enums_nf, j5_given_nf]
  rfl

theorem j5EnvNF_WF : j5EnvNF.WF = true := by decide +kernel

/-- the j5 environment is well formed -/
theorem j5Env_WF : j5Env.WF = true := by rw [j5Env_nf]; exact j5EnvNF_WF

end J5V.Walker
