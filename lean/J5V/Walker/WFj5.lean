import J5V.Walker.WF
import J5V.Walker.Facts
namespace J5V.Walker

theorem j5Env_closed : j5Env.closed = true := by decide +kernel
theorem j5Env_typesOK : j5Env.typesOK = true := by decide +kernel
theorem j5Env_rootOK : j5Env.rootOK = true := by decide +kernel
theorem j5Env_stubOK : j5Env.stubOK = true := by decide +kernel
theorem j5Env_splitOK : j5Env.splitOK = true := by decide +kernel

end J5V.Walker
