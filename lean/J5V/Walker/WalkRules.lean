import J5V.Walker.SplitProofs
import J5V.Walker.LiteralProofs
import J5V.Walker.StubProofs
import J5V.Walker.Walk
/-!
# Rules for the combinators of `Walk.lean` and the first two functions (`walkScope`, `buildScope`)

`MSpec.tryCatch`, `MSpec.errAt`, `wrapErr`; `walkScope_spec` (the `(nil, nil)` arm is dead because a valid
scope has a block) and `buildScope_spec`, as worked examples of the two proof styles: RAW (a function
written as `fun st => match … st with`, verified through `MSpec.ok` / `MSpec.err` / `MSpec.no_panic`) and
RULES (`do` blocks, verified with `MSpec.bind` / `MSpec.ite` / `MSpec.of_pre` …).

Positions: `S : Span → Prop` is "a span of the input tree"; the functions below a statement raise errors
with `PosIn S` (no position, or one of `S`); `doStatement` adds the statement span (`PosIn.addPosition`:
`HasPosIn S`).
-/
namespace J5V.Walker
open J5V.Bcl

theorem M.tryCatch_apply {α : Type} (m : M α) (h : WErr → M α) (st : Node) :
    m.tryCatch h st = match m st with
      | .ok r => .ok r
      | .err e => h e st
      | .panic w => .panic w := rfl

/-- the handler runs in the INITIAL state (the state of a failed computation is dropped) -/
theorem MSpec.tryCatch {env : Env} {α : Type} {m : M α} {h : WErr → M α} {pre : Node → Prop}
    {post : α → Node → Node → Prop} {e1 e2 : WErr → Prop}
    (hm : MSpec env m pre post e1) (hh : ∀ e, e1 e → MSpec env (h e) pre post e2) :
    MSpec env (m.tryCatch h) pre post e2 := by
  intro st hst hp
  have h1 := hm st hst hp
  rw [M.tryCatch_apply]
  cases hr : m st with
  | ok r => obtain ⟨a, st'⟩ := r; rw [hr] at h1; exact h1
  | err e => rw [hr] at h1; exact hh e h1 st hst hp
  | panic w => rw [hr] at h1; exact h1

@[simp] theorem wrapErr_some {α : Type} (e : WErr) (pos : Span) :
    (wrapErr (some e) pos : Res α) = .err (e.wrapped.addPosition pos) := rfl

theorem errAt_eq {α : Type} (what : String) (pos : Span) :
    (errAt what pos : M α) = M.err ⟨some pos, .plain, what⟩ := rfl

/-- `errAt what pos` raises an error AT `pos` -/
theorem MSpec.errAt {env : Env} {α : Type} {what : String} {pos : Span} {pre : Node → Prop}
    {post : α → Node → Node → Prop} {epost : WErr → Prop} (h : epost ⟨some pos, .plain, what⟩) :
    MSpec env (J5V.Walker.errAt what pos : M α) pre post epost := by
  rw [errAt_eq]; exact MSpec.throw h

/-- `M.lift (wrapErr (some e) pos)` -/
theorem MSpec.wrapErr {env : Env} {α : Type} {e : WErr} {pos : Span} {pre : Node → Prop}
    {post : α → Node → Node → Prop} {epost : WErr → Prop} (h : epost (e.wrapped.addPosition pos)) :
    MSpec env (M.lift (J5V.Walker.wrapErr (some e) pos) : M α) pre post epost :=
  MSpec.throw h

/-- an error at a position of `S` -/
theorem HasPosIn.mk {S : Span → Prop} {pos : Span} (h : S pos) (k : ErrKind) (what : String) :
    HasPosIn S ⟨some pos, k, what⟩ := ⟨pos, rfl, h⟩

/-! ## A necessary hypothesis on the statements

`walkSchema` DOES panic on a block whose type reference has no ident (`buildScope … .resetScope` with an
empty path returns `tailScope`, whose `root` is `none`; a description statement in the body then
dereferences it — `WalkCex.lean`). The parser never builds such a reference (`newReference`). -/

mutual
/-- every block type reference of the statement has at least one ident -/
def statementTypesOK : Statement → Bool
  | .block h body => !h.type.idents.isEmpty && bodyTypesOK body
  | .assign _ => true
  | .desc _ => true
/-- every block type reference of the body has at least one ident -/
def bodyTypesOK : List Statement → Bool
  | [] => true
  | s :: rest => statementTypesOK s && bodyTypesOK rest
end

/-! ## `walkScope` (raw style) -/

/-- `walkScope`: the scope reached is valid; after at least one step it is a one-block scope with a
root; an error has no position or the position of an element of the path -/
theorem walkScope_spec {env : Env} (hwf : env.WF = true) (S : Span → Prop) :
    ∀ (path : List PathElement) (scope : Scope),
      (∀ el, el ∈ path → ∀ p, el.position = some p → S p) →
      MSpec env (walkScope env scope path) (fun st => ScopeOK env st scope)
        (fun sc _ st' => ScopeOK env st' sc ∧ (path = [] → sc = scope) ∧
          (path ≠ [] → sc = Scope.newChild sc.leaf))
        (PosIn S) := by
  intro path
  induction path with
  | nil =>
    intro scope _
    exact MSpec.pure (fun _ _ h => ⟨h, fun _ => rfl, fun h => absurd rfl h⟩)
  | cons ident rest ih =>
    intro scope hS st hst hpre
    have hcb := childBlock_spec hwf scope ident.name
    show (walkScope env scope (ident :: rest) st).Sat _ _
    simp only [walkScope]
    cases hr : childBlock env scope ident.name st with
    | panic w => exact absurd hr (hcb.no_panic hst hpre)
    | ok r =>
      obtain ⟨next, st1⟩ := r
      obtain ⟨ht1, he1, hsc1, hnew, _⟩ := hcb.ok hst hpre hr
      have := ih next (fun el hel => hS el (List.mem_cons_of_mem _ hel)) st1 ht1 hsc1
      refine this.imp ?_ (fun _ h => h)
      rintro sc st' ⟨h1, h2, h3, h4, h5⟩
      refine ⟨h1, he1.trans h2, h3, fun h => (by cases h), fun _ => ?_⟩
      by_cases hrest : rest = []
      · rw [h4 hrest]; exact hnew
      · exact h5 hrest
    | err werr =>
      have hnp : NoPos werr := hcb.err hst hpre hr
      simp only
      cases hpos : ident.position with
      | none => exact hnp.wrapped.posIn S
      | some pos =>
        simp only
        split
        · rename_i hc
          have := hpre.1
          simp at hc
          exact absurd hc.2 this
        · exact (HasPosIn.mk (hS ident List.mem_cons_self pos hpos) _ _).posIn

/-! ## `buildScope` (rules style) -/

theorem combinePath_positions {S : Span → Prop} {path : PathSpec} {ref : List Ident}
    (h : ∀ i, i ∈ ref → S i.span) :
    ∀ el, el ∈ combinePath path ref → ∀ p, el.position = some p → S p := by
  intro el hel p hp
  simp only [combinePath, List.mem_append, List.mem_map] at hel
  rcases hel with ⟨n, _, rfl⟩ | ⟨i, hi, rfl⟩
  · cases hp
  · simp only [Option.some.injEq] at hp; subst hp; exact h i hi

/-- `BuildScope`: the scope built is valid. (`.resetScope` with an empty path gives `tailScope`, whose
`root` is `none`: the caller of `setDescription` must know the path is not empty.) -/
theorem buildScope_spec {env : Env} (hwf : env.WF = true) (S : Span → Prop) (sc : Scope)
    (schemaPath : PathSpec) (userPath : List Ident) (flag : ScopeFlag)
    (hS : ∀ i, i ∈ userPath → S i.span) :
    MSpec env (buildScope env sc schemaPath userPath flag) (fun st => ScopeOK env st sc)
      (fun res _ st' => ScopeOK env st' res ∧
        (flag = .keepScope → res.root = sc.root) ∧
        (flag = .resetScope → combinePath schemaPath userPath ≠ [] → res = Scope.newChild res.leaf))
      (PosIn S) := by
  unfold buildScope
  simp only
  apply MSpec.ite
  · intro hempty
    have hempty' : combinePath schemaPath userPath = [] := by simpa using hempty
    cases flag with
    | keepScope => exact MSpec.pure (fun _ _ h => ⟨h, fun _ => rfl, fun h => by cases h⟩)
    | resetScope =>
      exact MSpec.pure (fun _ _ h => ⟨h.tailScope, fun h => (by cases h), fun _ hne => absurd hempty' hne⟩)
  · intro hne
    have hne' : combinePath schemaPath userPath ≠ [] := by simpa using hne
    apply MSpec.bind (walkScope_spec hwf S _ sc (combinePath_positions hS))
    intro container st0
    cases flag with
    | resetScope =>
      exact MSpec.pure (fun _ _ h => ⟨h.2.2.2.1, fun h => (by cases h), fun _ _ => h.2.2.2.2.2 hne'⟩)
    | keepScope =>
      apply MSpec.pure
      intro st _ h
      exact ⟨(h.2.1.ext h.2.2.1).mergeScope h.2.2.2.1, fun _ => rfl, fun h => by cases h⟩

end J5V.Walker
