import J5V.Walker.TextOKField
/-!
# `toBcl ast` satisfies `BodyTextOK` on the supported fragment (core only)

`toBcl_textOK`: for every classifier that agrees with ASCII on ASCII, the tree of a supported file
has well-shaped headers and assignments (identifier literals that lex as one IDENT, non-empty
references, STRING / INT / BOOL values), a block without `{` has no body, and there is no stand-alone
description: the hypotheses of the text round trip of `J5V/Bcl/TreeText.lean`.
-/
namespace J5V.Walker
open J5V.Bcl

variable {cls : Cls}

theorem open_true {body : List Statement} : true = false → body = [] := fun h => by cases h

/-! ## enums, objects, oneofs, nested schemas -/

theorem enumBcl_ok (hc : ClsAscii cls) {e : J5V.Compile.EnumDecl} (h : enumDeclOk true e = true) :
    StmtTextOK cls (enumBcl e) := by
  simp only [enumDeclOk, if_true, Bool.and_eq_true] at h
  unfold enumBcl
  exact stmtOK_block hc (by decide) (forall_mem_one (tagWF_nameTag hc h.1.1)) (forall_mem_nil _) open_true
    (bodyOK_append (bodyOK_ite' _ (bodyOK_assign hc (KeyOK.one (by decide)) (topWF_str cls _)))
      (optsBcl_ok hc h.2))

mutual
theorem objectBcl_ok (hc : ClsAscii cls) (env : Env) : ∀ (kw pkw : Str) (o : J5V.Compile.ObjDecl),
    isIdent kw = true → isIdent pkw = true → ∀ isOneof : Bool, objDeclOk env isOneof o = true →
    StmtTextOK cls (objectBcl kw pkw o)
  | kw, pkw, .mk name props nested psm, hkw, hpkw, isOneof, h => by
    simp only [objDeclOk, Bool.and_eq_true] at h
    simp only [objectBcl]
    refine stmtOK_block hc hkw (forall_mem_one (tagWF_nameTag hc h.1.1.1)) (forall_mem_nil _) open_true
      (bodyOK_append (propsBcl_ok hc env pkw props hpkw h.1.2) ?_)
    have h2 := h.2
    cases isOneof with
    | true =>
      cases nested with
      | nil => simp only [nestedBcl]; exact bodyOK_nil cls
      | cons a rest => simp at h2
    | false =>
      simp only [Bool.false_eq_true, if_false] at h2
      exact nestedBcl_ok hc env true nested h2

theorem nestedBcl_ok (hc : ClsAscii cls) (env : Env) : ∀ (inObject : Bool) (l : List J5V.Compile.Nested),
    nestedOk env inObject l = true → BodyTextOK cls (nestedBcl l)
  | _, [], _ => by
    simp only [nestedBcl]; exact bodyOK_nil cls
  | inObject, .object o :: rest, h => by
    simp only [nestedOk, Bool.and_eq_true] at h
    simp only [nestedBcl]
    exact bodyOK_cons (objectBcl_ok hc env wObject wField o (by decide) (by decide) false h.1)
      (nestedBcl_ok hc env inObject rest h.2)
  | inObject, .oneof o :: rest, h => by
    simp only [nestedOk, Bool.and_eq_true] at h
    simp only [nestedBcl]
    exact bodyOK_cons (objectBcl_ok hc env wOneof wOption o (by decide) (by decide) true h.1.2)
      (nestedBcl_ok hc env inObject rest h.2)
  | inObject, .enum e :: rest, h => by
    simp only [nestedOk, Bool.and_eq_true] at h
    simp only [nestedBcl]
    exact bodyOK_cons (enumBcl_ok hc h.1.2) (nestedBcl_ok hc env inObject rest h.2)
end

/-! ## services -/

theorem anonBcl_ok (hc : ClsAscii cls) (env : Env) {kw : Str} (hkw : isIdent kw = true)
    {props : List CProperty} (h : propsOk env props = true) : StmtTextOK cls (anonBcl kw props) :=
  stmtOK_block hc hkw (forall_mem_nil _) (forall_mem_nil _) open_true
    (propsBcl_ok hc env wField props (by decide) h)

theorem methodBcl_ok (hc : ClsAscii cls) (env : Env) (m : J5V.Compile.Method) (h : methodOk env m = true) :
    StmtTextOK cls (methodBcl m) := by
  obtain ⟨name, verb, path, request, response, mopt⟩ := m
  simp only [methodOk, Bool.and_eq_true] at h
  obtain ⟨⟨⟨⟨⟨hn, _⟩, _⟩, _⟩, hreq⟩, hres⟩ := h
  simp only [methodBcl]
  cases request with
  | none => simp at hreq
  | some ps =>
    refine stmtOK_block hc (by decide) (forall_mem_one (tagWF_nameTag hc hn)) (forall_mem_nil _) open_true ?_
    refine bodyOK_append (bodyOK_cons (stmtOK_assign hc (KeyOK.one (by decide)) (topWF_str cls _))
      (bodyOK_cons (stmtOK_assign hc (KeyOK.one (by decide)) (topWF_str cls _))
        (bodyOK_one (anonBcl_ok hc env (by decide) hreq)))) ?_
    cases response with
    | none => exact bodyOK_nil cls
    | some rs => exact bodyOK_one (anonBcl_ok hc env (by decide) hres)

theorem serviceOk_methods {env : Env} {named : Bool} {s : J5V.Compile.Service}
    (h : serviceOk env named s = true) : s.methods.all (methodOk env) = true := by
  simp only [serviceOk, Bool.and_eq_true] at h
  exact h.2

theorem serviceBody_ok (hc : ClsAscii cls) (env : Env) (named : Bool) (s : J5V.Compile.Service)
    (h : s.methods.all (methodOk env) = true) : BodyTextOK cls (serviceBody named s) := by
  unfold serviceBody
  refine bodyOK_append (bodyOK_append
    (bodyOK_ite' _ (bodyOK_assign hc (KeyOK.one (by decide)) (topWF_str cls _))) ?_)
    (bodyOK_map _ _ (fun m hm => methodBcl_ok hc env m (List.all_eq_true.1 h m hm)))
  split
  · exact bodyOK_nil cls
  · exact bodyOK_assign hc (KeyOK.one (by decide)) (topWF_str cls _)

theorem serviceBcl_ok (hc : ClsAscii cls) (env : Env) (s : J5V.Compile.Service)
    (h : serviceOk env true s = true) : StmtTextOK cls (serviceBcl s) := by
  have hm := serviceOk_methods h
  have hn : isIdent (s.name.getD []) = true := by
    simp only [serviceOk, Bool.and_eq_true] at h
    have h2 := h.1.1.2
    cases hs : s.name with
    | none => rw [hs] at h2; simp at h2
    | some n => rw [hs] at h2; simpa using h2
  unfold serviceBcl
  exact stmtOK_block hc (by decide) (forall_mem_one (tagWF_nameTag hc hn)) (forall_mem_nil _) open_true
    (serviceBody_ok hc env true s hm)

theorem commandBcl_ok (hc : ClsAscii cls) (env : Env) (s : J5V.Compile.Service)
    (h : serviceOk env false s = true) : StmtTextOK cls (commandBcl s) :=
  stmtOK_block hc (by decide) (forall_mem_nil _) (forall_mem_nil _) open_true
    (serviceBody_ok hc env false s (serviceOk_methods h))

/-! ## topics -/

theorem topicMsgBcl_ok (hc : ClsAscii cls) (env : Env) {kw : Str} (hkw : isIdent kw = true)
    (m : J5V.Compile.TopicMsg) (h : topicMsgOk env m = true) : StmtTextOK cls (topicMsgBcl kw m) := by
  obtain ⟨name, props⟩ := m
  simp only [topicMsgOk, Bool.and_eq_true] at h
  simp only [topicMsgBcl]
  refine stmtOK_block hc hkw ?_ (forall_mem_nil _) open_true (propsBcl_ok hc env wField props (by decide) h.2)
  cases name with
  | none => exact forall_mem_nil _
  | some n => exact forall_mem_one (tagWF_nameTag hc h.1)

theorem topicMsgs_ok (hc : ClsAscii cls) (env : Env) {kw : Str} (hkw : isIdent kw = true)
    (l : List J5V.Compile.TopicMsg) (h : l.all (topicMsgOk env) = true) :
    BodyTextOK cls (l.map (topicMsgBcl kw)) :=
  bodyOK_map _ _ (fun m hm => topicMsgBcl_ok hc env hkw m (List.all_eq_true.1 h m hm))

theorem topicKindWord_ident (t : J5V.Compile.TopicType) : isIdent (topicKindWord t) = true := by
  cases t <;> rfl

theorem topicBcl_ok (hc : ClsAscii cls) (env : Env) (t : J5V.Compile.Topic) (h : topicOk env t = true) :
    StmtTextOK cls (topicBcl t) := by
  obtain ⟨name, type⟩ := t
  simp only [topicOk, Bool.and_eq_true] at h
  simp only [topicBcl]
  refine stmtOK_block hc (by decide)
    (forall_mem_two (tagWF_nameTag hc h.1) (tagWF_word hc _ (topicKindWord_ident type))) (forall_mem_nil _)
    open_true ?_
  have h2 := h.2
  cases type with
  | publish msgs =>
    simp only [topicBody]
    exact topicMsgs_ok hc env (by decide) msgs h2
  | reqres reqs reps =>
    simp only [Bool.and_eq_true] at h2
    simp only [topicBody]
    exact bodyOK_append (topicMsgs_ok hc env (by decide) reqs h2.1) (topicMsgs_ok hc env (by decide) reps h2.2)
  | upsert en msg =>
    simp only [Bool.and_eq_true] at h2
    simp only [topicBody]
    exact bodyOK_one (topicMsgBcl_ok hc env (by decide) msg h2.2)
  | event en msg => simp at h2

/-! ## entities -/

theorem keyBcl_ok (hc : ClsAscii cls) (env : Env) (k : J5V.Compile.EntityKeyDecl) (h : keyOk env k = true) :
    StmtTextOK cls (keyBcl k) := by
  obtain ⟨prop, shard⟩ := k
  cases prop with
  | mk name required optional f =>
    simp only [keyOk, propOk, Bool.and_eq_true] at h
    simp only [keyBcl]
    refine stmtOK_block hc (by decide)
      (forall_mem_two (tagWF_nameTag hc h.1) (tagWF_word hc _ (fieldKind_ident f)))
      (fieldQuals_ok hc env f h.2) (open_body _ _) ?_
    exact bodyOK_append
      (bodyOK_append (bodyOK_ite _ (bodyOK_assign hc (KeyOK.one (by decide)) (topWF_bool hc _)))
        (bodyOK_ite _ (bodyOK_assign hc (KeyOK.one (by decide)) (topWF_bool hc _))))
      (fieldBody_ok hc env f [] true h.2 PfxOK.nil)

theorem summaryBcl_ok (hc : ClsAscii cls) (env : Env) (s : J5V.Compile.Summary)
    (h : propsOk env s.props = true) : StmtTextOK cls (summaryBcl s) :=
  stmtOK_block hc (by decide) (forall_mem_nil _) (forall_mem_nil _) open_true
    (bodyOK_append (bodyOK_ite' _ (bodyOK_assign hc (KeyOK.one (by decide)) (topWF_str cls _)))
      (propsBcl_ok hc env wField s.props (by decide) h))

theorem queryBcl_ok (hc : ClsAscii cls) (q : J5V.Compile.EntityQuery) : StmtTextOK cls (queryBcl q) :=
  stmtOK_block hc (by decide) (forall_mem_nil _) (forall_mem_nil _) open_true
    (bodyOK_append (bodyOK_ite _ (bodyOK_assign hc (KeyOK.one (by decide)) (topWF_bool hc _)))
      (bodyOK_ite' _ (bodyOK_assign hc (KeyOK.one (by decide)) (topWF_strs cls _))))

theorem statusBcl_ok (hc : ClsAscii cls) {s : Str} (h : isIdent s = true) : StmtTextOK cls (statusBcl s) :=
  stmtOK_block hc (by decide) (forall_mem_one (tagWF_nameTag hc h)) (forall_mem_nil _) (fun _ => rfl)
    (bodyOK_nil cls)

theorem entityBcl_ok (hc : ClsAscii cls) (env : Env) (e : J5V.Compile.Entity) (h : entityOk env e = true) :
    StmtTextOK cls (entityBcl e) := by
  simp only [entityOk, Bool.and_eq_true] at h
  obtain ⟨⟨⟨⟨⟨⟨⟨⟨⟨hn, _⟩, hkeys⟩, hdata⟩, hst⟩, hev⟩, hcmd⟩, hsum⟩, _⟩, hnest⟩ := h
  unfold entityBcl
  refine stmtOK_block hc (by decide) (forall_mem_one (tagWF_nameTag hc hn)) (forall_mem_nil _) open_true ?_
  refine bodyOK_append (bodyOK_append (bodyOK_append (bodyOK_append (bodyOK_append (bodyOK_append
    (bodyOK_append (bodyOK_append ?_ ?_) ?_) ?_) ?_) ?_) ?_) ?_) ?_
  · exact bodyOK_ite' _ (bodyOK_assign hc (KeyOK.one (by decide)) (topWF_str cls _))
  · exact bodyOK_map _ _ (fun k hk => keyBcl_ok hc env k (List.all_eq_true.1 hkeys k hk))
  · exact propsBcl_ok hc env _ e.data (by decide) hdata
  · exact bodyOK_map _ _ (fun s hs => statusBcl_ok hc (List.all_eq_true.1 hst s hs))
  · exact bodyOK_map _ _ (fun o ho =>
      objectBcl_ok hc env _ _ o (by decide) (by decide) false (List.all_eq_true.1 hev o ho))
  · exact bodyOK_map _ _ (fun s hs => commandBcl_ok hc env s (List.all_eq_true.1 hcmd s hs))
  · refine bodyOK_map _ _ (fun s hs => summaryBcl_ok hc env s ?_)
    have := List.all_eq_true.1 hsum s hs
    simp only [Bool.and_eq_true] at this
    exact this.2
  · split
    · exact bodyOK_nil cls
    · exact bodyOK_one (queryBcl_ok hc _)
  · exact nestedBcl_ok hc env false e.nested hnest

/-! ## the file -/

theorem elemBcl_ok (hc : ClsAscii cls) (env : Env) : ∀ el : J5V.Compile.Elem, elemOk env el = true →
    StmtTextOK cls (elemBcl el)
  | .object o, h => objectBcl_ok hc env _ _ o (by decide) (by decide) false h
  | .oneof o, h => objectBcl_ok hc env _ _ o (by decide) (by decide) true h
  | .enum e, h => enumBcl_ok hc h
  | .service s, h => serviceBcl_ok hc env s h
  | .topic t, h => topicBcl_ok hc env t h
  | .entity e, h => entityBcl_ok hc env e h

theorem importBcl_ok (hc : ClsAscii cls) (i : J5V.Compile.Import) (h : importOk i = true) :
    StmtTextOK cls (importBcl i) := by
  unfold importBcl
  unfold importOk at h
  split
  · exact stmtOK_block hc (by decide) (forall_mem_one (tagWF_tagStr cls _)) (forall_mem_nil _)
      (fun _ => rfl) (bodyOK_nil cls)
  · rename_i hs
    rw [if_neg hs] at h
    simp only [Bool.and_eq_true, Bool.or_eq_true, decide_eq_true_eq] at h
    split
    · exact stmtOK_block hc (by decide) (forall_mem_one (tagWF_tagRef .none (refWF_dottedRef hc h.1)))
        (forall_mem_nil _) (fun _ => rfl) (bodyOK_nil cls)
    · rename_i ha
      exact stmtOK_block hc (by decide) (forall_mem_one (tagWF_tagRef .none (refWF_dottedRef hc h.1)))
        (forall_mem_one (tagWF_word hc _ (h.2.resolve_left ha))) (fun _ => rfl) (bodyOK_nil cls)

theorem packageBcl_ok (hc : ClsAscii cls) {decl : Str} (h : isDotted decl = true) :
    StmtTextOK cls (packageBcl decl) :=
  stmtOK_block hc (by decide) (forall_mem_one (tagWF_tagRef .none (refWF_dottedRef hc h))) (forall_mem_nil _)
    (fun _ => rfl) (bodyOK_nil cls)

theorem toBcl_textOK_env (hc : ClsAscii cls) (env : Env) : ∀ ast : J5V.Compile.SrcFile,
    supportedEnv env ast = true → BodyTextOK cls (toBcl ast)
  | .j5s _ imports elems decl, h => by
    simp only [supportedEnv, Bool.and_eq_true] at h
    simp only [toBcl]
    exact bodyOK_cons (packageBcl_ok hc h.1.1)
      (bodyOK_append (bodyOK_map _ _ (fun i hi => importBcl_ok hc i (List.all_eq_true.1 h.1.2 i hi)))
        (bodyOK_map _ _ (fun el hel => elemBcl_ok hc env el (List.all_eq_true.1 h.2 el hel))))
  | .proto .., h => by simp [supportedEnv] at h

/-- the tree of a supported file has the shape the text round trip needs -/
theorem toBcl_textOK (cls : Cls) (hcls : ClsAscii cls) (ast : J5V.Compile.SrcFile)
    (h : supported ast = true) : J5V.Bcl.BodyTextOK cls (toBcl ast) :=
  toBcl_textOK_env hcls j5Env ast h

/-- in particular for the ASCII classifier -/
theorem toBcl_textOK_ascii (ast : J5V.Compile.SrcFile) (h : supported ast = true) :
    J5V.Bcl.BodyTextOK asciiCls (toBcl ast) :=
  toBcl_textOK asciiCls asciiCls_clsAscii ast h

end J5V.Walker
