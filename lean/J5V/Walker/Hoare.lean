import J5V.Walker.Typing
/-!
# A Hoare triple for the state monad `M` of the walk

`MSpec env m pre post epost`: from a well-typed state (`TreeOK`) satisfying `pre`, the computation `m`
does not panic; a result `a` comes with a well-typed final state that extends the initial one (`Ext`)
and satisfies `post a initial final`; an error satisfies `epost`. Rules: `pure`, `throw`, `panic`
(dead arm), `lift`, `bind` (ghost initial state), `bind_from` (= weaken the precondition, then `bind`),
`conseq` / `weaken_pre` / `weaken_err`, `and`, `keep_pre`, `frame` / `inv` (predicates stable along
`Ext`), `assume`, `of_pre` (a state-independent fact drawn from the precondition), `mapErr`,
`addPosition`, `getNode`, `setNode`, `ite`; eliminations `ok`, `err`, `no_panic`; introduction `intro`.
(`tryCatch`, `errAt`, `wrapErr`: `WalkRules.lean`.)
`NoPos e`: the error carries no position; `PosIn S e`: no position or one of `S`; `HasPosIn S e`: a
position of `S`.
-/
namespace J5V.Walker

/-! ## The triple -/

/-- the outcome of a run: a result satisfies `ok`, an error `err`, and there is no panic. (A
definition of its own so that `split` / `simp` on a goal `(m st).Sat …` work on `m st`.) -/
def Res.Sat {α : Type} (r : Res (α × Node)) (ok : α → Node → Prop) (err : WErr → Prop) : Prop :=
  match r with
  | .ok (a, st') => ok a st'
  | .err e => err e
  | .panic _ => False

@[simp] theorem Res.Sat_ok {α : Type} (a : α) (st' : Node) (ok : α → Node → Prop) (err : WErr → Prop) :
    (Res.ok (a, st')).Sat ok err ↔ ok a st' := Iff.rfl
@[simp] theorem Res.Sat_err {α : Type} (e : WErr) (ok : α → Node → Prop) (err : WErr → Prop) :
    (Res.err e : Res (α × Node)).Sat ok err ↔ err e := Iff.rfl
@[simp] theorem Res.Sat_panic {α : Type} (w : String) (ok : α → Node → Prop) (err : WErr → Prop) :
    (Res.panic w : Res (α × Node)).Sat ok err ↔ False := Iff.rfl

/-- from a well-typed state satisfying `pre`, `m` does not panic; a result comes with a well-typed
state that extends the initial one and satisfies `post result initial final`; an error satisfies
`epost`. Unfolded:
`∀ st, TreeOK env st → pre st → match m st with | .ok (a, st') => TreeOK env st' ∧ Ext env st st' ∧
post a st st' | .err e => epost e | .panic _ => False`. -/
def MSpec {α : Type} (env : Env) (m : M α) (pre : Node → Prop) (post : α → Node → Node → Prop)
    (epost : WErr → Prop) : Prop :=
  ∀ st, TreeOK env st → pre st →
    (m st).Sat (fun a st' => TreeOK env st' ∧ Ext env st st' ∧ post a st st') epost

theorem MSpec_iff {α : Type} (env : Env) (m : M α) (pre : Node → Prop) (post : α → Node → Node → Prop)
    (epost : WErr → Prop) :
    MSpec env m pre post epost ↔ ∀ st, TreeOK env st → pre st →
      match m st with
      | .ok (a, st') => TreeOK env st' ∧ Ext env st st' ∧ post a st st'
      | .err e => epost e
      | .panic _ => False := Iff.rfl

theorem Res.Sat.imp {α : Type} {r : Res (α × Node)} {ok ok' : α → Node → Prop} {err err' : WErr → Prop}
    (h : r.Sat ok err) (hok : ∀ a st', ok a st' → ok' a st') (herr : ∀ e, err e → err' e) :
    r.Sat ok' err' := by
  cases r with
  | ok x => obtain ⟨a, st'⟩ := x; exact hok a st' h
  | err e => exact herr e h
  | panic w => exact h

theorem M.ite_apply {α : Type} (c : Prop) [Decidable c] (m1 m2 : M α) (st : Node) :
    (if c then m1 else m2) st = if c then m1 st else m2 st := by
  split <;> rfl

@[simp] theorem M.pure_apply {α : Type} (a : α) (st : Node) : (Pure.pure a : M α) st = .ok (a, st) := rfl

theorem M.bind_apply {α β : Type} (m : M α) (f : α → M β) (st : Node) :
    (m >>= f) st = match m st with
      | .ok (a, st1) => f a st1
      | .err e => .err e
      | .panic w => .panic w := rfl

@[simp] theorem M.err_apply {α : Type} (e : WErr) (st : Node) : (M.err e : M α) st = .err e := rfl
@[simp] theorem M.panic_apply {α : Type} (w : String) (st : Node) : (M.panic w : M α) st = .panic w := rfl

@[simp] theorem M.lift_ok {α : Type} (a : α) : M.lift (.ok a) = (Pure.pure a : M α) := rfl
@[simp] theorem M.lift_err {α : Type} (e : WErr) : (M.lift (.err e) : M α) = M.err e := rfl
@[simp] theorem M.lift_panic {α : Type} (w : String) : (M.lift (.panic w) : M α) = M.panic w := rfl

theorem M.mapErr_apply {α : Type} (m : M α) (h : WErr → WErr) (st : Node) :
    m.mapErr h st = match m st with
      | .ok r => .ok r
      | .err e => .err (h e)
      | .panic w => .panic w := rfl

theorem getNode_apply (a : Addr) (st : Node) :
    getNode a st = match st.get? a with
      | some n => .ok (n, st)
      | none => .panic "model: dangling address" := rfl

@[simp] theorem setNode_apply (a : Addr) (n st : Node) : setNode a n st = .ok ((), st.set a n) := rfl

namespace MSpec
variable {env : Env} {α β : Type}

/-- elimination: an `.ok` run -/
theorem ok {m : M α} {pre post epost} (h : MSpec env m pre post epost) {st st' : Node} {a : α}
    (hst : TreeOK env st) (hpre : pre st) (hr : m st = .ok (a, st')) :
    TreeOK env st' ∧ Ext env st st' ∧ post a st st' := by
  have := h st hst hpre; rw [hr] at this; exact this

/-- elimination: an `.err` run -/
theorem err {m : M α} {pre post epost} (h : MSpec env m pre post epost) {st : Node} {e : WErr}
    (hst : TreeOK env st) (hpre : pre st) (hr : m st = .err e) : epost e := by
  have := h st hst hpre; rw [hr] at this; exact this

/-- elimination: no panic -/
theorem no_panic {m : M α} {pre post epost} (h : MSpec env m pre post epost) {st : Node} {w : String}
    (hst : TreeOK env st) (hpre : pre st) : m st ≠ .panic w := by
  intro hr; have := h st hst hpre; rw [hr] at this; exact this

/-- introduction from the three cases -/
theorem intro {m : M α} {pre post epost}
    (h : ∀ st, TreeOK env st → pre st →
      (∀ a st', m st = .ok (a, st') → TreeOK env st' ∧ Ext env st st' ∧ post a st st') ∧
      (∀ e, m st = .err e → epost e) ∧ (∀ w, m st ≠ .panic w)) :
    MSpec env m pre post epost := by
  intro st hst hpre
  obtain ⟨h1, h2, h3⟩ := h st hst hpre
  cases hr : m st with
  | ok r => obtain ⟨a, st'⟩ := r; exact h1 a st' hr
  | err e => exact h2 e hr
  | panic w => exact h3 w hr

theorem pure {a : α} {pre : Node → Prop} {post : α → Node → Node → Prop} {epost}
    (h : ∀ st, TreeOK env st → pre st → post a st st) :
    MSpec env (Pure.pure a : M α) pre post epost :=
  fun st hst hpre => ⟨hst, Ext.refl env st, h st hst hpre⟩

theorem throw {e : WErr} {pre : Node → Prop} {post : α → Node → Node → Prop} {epost : WErr → Prop}
    (h : epost e) : MSpec env (M.err e : M α) pre post epost :=
  fun _ _ _ => h

/-- `M.err` under a precondition that may be needed to justify `epost` -/
theorem throw' {e : WErr} {pre : Node → Prop} {post : α → Node → Node → Prop} {epost : WErr → Prop}
    (h : ∀ st, TreeOK env st → pre st → epost e) : MSpec env (M.err e : M α) pre post epost :=
  fun st hst hpre => h st hst hpre

/-- a panic arm is fine when the precondition is contradictory -/
theorem panic {w : String} {pre : Node → Prop} {post : α → Node → Node → Prop} {epost : WErr → Prop}
    (h : ∀ st, TreeOK env st → pre st → False) : MSpec env (M.panic w : M α) pre post epost :=
  fun st hst hpre => h st hst hpre

/-- a pure, state-independent result -/
theorem lift {r : Res α} {pre : Node → Prop} {post : α → Node → Node → Prop} {epost : WErr → Prop}
    (hok : ∀ a, r = .ok a → ∀ st, TreeOK env st → pre st → post a st st)
    (herr : ∀ e, r = .err e → epost e)
    (hpanic : ∀ w, r ≠ .panic w) : MSpec env (M.lift r) pre post epost := by
  cases r with
  | ok a => exact MSpec.pure (hok a rfl)
  | err e => exact MSpec.throw (herr e rfl)
  | panic w => exact absurd rfl (hpanic w)

/-- sequencing. The continuation is verified from any intermediate state `st1` reached from an
initial state `st0` (a ghost): it may use `pre st0`, `Ext env st0 st1` and the first postcondition;
its postcondition is relative to `st0`. -/
theorem bind {m : M α} {f : α → M β} {pre : Node → Prop} {post1 : α → Node → Node → Prop}
    {post2 : β → Node → Node → Prop} {epost : WErr → Prop}
    (hm : MSpec env m pre post1 epost)
    (hf : ∀ a st0, MSpec env (f a)
      (fun st1 => TreeOK env st0 ∧ pre st0 ∧ Ext env st0 st1 ∧ post1 a st0 st1)
      (fun b _ st2 => post2 b st0 st2) epost) :
    MSpec env (m >>= f) pre post2 epost := by
  intro st hst hpre
  have h1 := hm st hst hpre
  rw [M.bind_apply]
  cases hr : m st with
  | ok r =>
    obtain ⟨a, st1⟩ := r
    rw [hr] at h1
    obtain ⟨ht1, he1, hp1⟩ := h1
    have h2 := hf a st st1 ht1 ⟨hst, hpre, he1, hp1⟩
    show (f a st1).Sat _ _
    cases hr2 : f a st1 with
    | ok r2 =>
      obtain ⟨b, st2⟩ := r2
      rw [hr2] at h2
      exact ⟨h2.1, he1.trans h2.2.1, h2.2.2⟩
    | err e => rw [hr2] at h2; exact h2
    | panic w => rw [hr2] at h2; exact h2
  | err e => rw [hr] at h1; exact h1
  | panic w => rw [hr] at h1; exact h1

/-- consequence: weaker precondition, stronger postconditions -/
theorem conseq {m : M α} {pre pre' : Node → Prop} {post post' : α → Node → Node → Prop}
    {epost epost' : WErr → Prop}
    (h : MSpec env m pre post epost)
    (hpre : ∀ st, TreeOK env st → pre' st → pre st)
    (hpost : ∀ a st st', TreeOK env st → pre' st → TreeOK env st' → Ext env st st' → post a st st' →
      post' a st st')
    (hepost : ∀ e, epost e → epost' e) :
    MSpec env m pre' post' epost' := by
  intro st hst hp
  have h1 := h st hst (hpre st hst hp)
  cases hr : m st with
  | ok r =>
    obtain ⟨a, st'⟩ := r
    rw [hr] at h1
    exact ⟨h1.1, h1.2.1, hpost a st st' hst hp h1.1 h1.2.1 h1.2.2⟩
  | err e => rw [hr] at h1; exact hepost e h1
  | panic w => rw [hr] at h1; exact h1

/-- only the precondition -/
theorem weaken_pre {m : M α} {pre pre' : Node → Prop} {post : α → Node → Node → Prop} {epost}
    (h : MSpec env m pre post epost) (hpre : ∀ st, TreeOK env st → pre' st → pre st) :
    MSpec env m pre' post epost :=
  h.conseq hpre (fun _ _ _ _ _ _ _ hp => hp) (fun _ he => he)

/-- only the error postcondition -/
theorem weaken_err {m : M α} {pre : Node → Prop} {post : α → Node → Node → Prop} {epost epost' : WErr → Prop}
    (h : MSpec env m pre post epost) (he : ∀ e, epost e → epost' e) :
    MSpec env m pre post epost' :=
  h.conseq (fun _ _ hp => hp) (fun _ _ _ _ _ _ _ hp => hp) he

/-- sequencing after weakening the precondition to what the first part needs (`pre0`); the
continuation then starts from `pre0 st0`, `Ext env st0 st1` and the first postcondition -/
theorem bind_from {m : M α} {f : α → M β} {pre pre0 : Node → Prop} {post1 : α → Node → Node → Prop}
    {post2 : β → Node → Node → Prop} {epost : WErr → Prop}
    (hpre : ∀ st, TreeOK env st → pre st → pre0 st)
    (hm : MSpec env m pre0 post1 epost)
    (hf : ∀ a st0, MSpec env (f a)
      (fun st1 => TreeOK env st0 ∧ pre0 st0 ∧ Ext env st0 st1 ∧ post1 a st0 st1)
      (fun b _ st2 => post2 b st0 st2) epost) :
    MSpec env (m >>= f) pre post2 epost :=
  (bind hm hf).weaken_pre hpre

/-- conjunction of two specs of the same computation -/
theorem and {m : M α} {pre1 pre2 : Node → Prop} {post1 post2 : α → Node → Node → Prop}
    {epost1 epost2 : WErr → Prop}
    (h1 : MSpec env m pre1 post1 epost1) (h2 : MSpec env m pre2 post2 epost2) :
    MSpec env m (fun st => pre1 st ∧ pre2 st) (fun a st st' => post1 a st st' ∧ post2 a st st')
      (fun e => epost1 e ∧ epost2 e) := by
  intro st hst hp
  have a1 := h1 st hst hp.1
  have a2 := h2 st hst hp.2
  cases hr : m st with
  | ok r =>
    obtain ⟨a, st'⟩ := r
    rw [hr] at a1 a2
    exact ⟨a1.1, a1.2.1, a1.2.2, a2.2.2⟩
  | err e => rw [hr] at a1 a2; exact ⟨a1, a2⟩
  | panic w => rw [hr] at a1; exact a1

/-- the precondition is available in the postcondition, and what is stable along `Ext` can be framed
(`frame`) -/
theorem keep_pre {m : M α} {pre : Node → Prop} {post : α → Node → Node → Prop} {epost}
    (h : MSpec env m pre post epost) :
    MSpec env m pre (fun a st st' => pre st ∧ post a st st') epost :=
  h.conseq (fun _ _ hp => hp) (fun _ _ _ _ hp _ _ hq => ⟨hp, hq⟩) (fun _ he => he)

/-- frame: a predicate preserved along `Ext` (`ContOK.ext`, `FieldOK.ext`, `ScopeOK.ext`) survives -/
theorem frame {m : M α} {pre : Node → Prop} {post : α → Node → Node → Prop} {epost} {R : Node → Prop}
    (h : MSpec env m pre post epost) (hR : ∀ st st', R st → Ext env st st' → R st') :
    MSpec env m (fun st => pre st ∧ R st) (fun a st st' => post a st st' ∧ R st') epost :=
  h.conseq (fun _ _ hp => hp.1) (fun _ _ _ _ hp _ he hq => ⟨hq, hR _ _ hp.2 he⟩) (fun _ he => he)

/-- an invariant stable along `Ext` holds again afterwards -/
theorem inv {m : M α} {Inv : Node → Prop} {post : α → Node → Node → Prop} {epost}
    (h : MSpec env m Inv post epost) (hI : ∀ st st', Inv st → Ext env st st' → Inv st') :
    MSpec env m Inv (fun a st st' => post a st st' ∧ Inv st') epost :=
  h.conseq (fun _ _ hp => hp) (fun _ _ _ _ hp _ he hq => ⟨hq, hI _ _ hp he⟩) (fun _ he => he)

/-- the precondition may assume a pure fact -/
theorem assume {m : M α} {P : Prop} {pre : Node → Prop} {post : α → Node → Node → Prop} {epost}
    (h : P → MSpec env m pre post epost) : MSpec env m (fun st => P ∧ pre st) post epost :=
  fun st hst hp => h hp.1 st hst hp.2

theorem mapErr {m : M α} {g : WErr → WErr} {pre : Node → Prop} {post : α → Node → Node → Prop}
    {epost epost' : WErr → Prop}
    (h : MSpec env m pre post epost) (hg : ∀ e, epost e → epost' (g e)) :
    MSpec env (m.mapErr g) pre post epost' := by
  intro st hst hp
  have h1 := h st hst hp
  rw [M.mapErr_apply]
  cases hr : m st with
  | ok r => obtain ⟨a, st'⟩ := r; rw [hr] at h1; exact h1
  | err e => rw [hr] at h1; exact hg e h1
  | panic w => rw [hr] at h1; exact h1

theorem addPosition {m : M α} {p : J5V.Bcl.Span} {pre : Node → Prop} {post : α → Node → Node → Prop}
    {epost epost' : WErr → Prop}
    (h : MSpec env m pre post epost) (hg : ∀ e, epost e → epost' (e.addPosition p)) :
    MSpec env (m.addPosition p) pre post epost' :=
  MSpec.mapErr h hg

/-- `getNode` at an address known to be valid -/
theorem getNode {a : Addr} {pre : Node → Prop} {post : Node → Node → Node → Prop} {epost : WErr → Prop}
    (h : ∀ st, TreeOK env st → pre st → ∃ n, st.get? a = some n ∧ post n st st) :
    MSpec env (J5V.Walker.getNode a) pre post epost := by
  intro st hst hp
  obtain ⟨n, hn, hq⟩ := h st hst hp
  rw [getNode_apply, hn]
  exact ⟨hst, Ext.refl env st, hq⟩

/-- `setNode` of a value of the slot's type that extends the old node -/
theorem setNode {a : Addr} {v : Node} {pre : Node → Prop} {post : Unit → Node → Node → Prop}
    {epost : WErr → Prop}
    (h : ∀ st, TreeOK env st → pre st → ∃ t old, env.typeAt a = some t ∧ st.get? a = some old ∧
      VOK env t true v ∧ ExtFrom env t old v ∧ post () st (st.set a v)) :
    MSpec env (J5V.Walker.setNode a v) pre post epost := by
  intro st hst hp
  obtain ⟨t, old, ht, hold, hv, hext, hq⟩ := h st hst hp
  exact ⟨hst.set ht hv, Ext.set hold ht hext, hq⟩

/-- a state-independent fact that follows from the precondition may be used to verify `m` -/
theorem of_pre {m : M α} {P : Prop} {pre : Node → Prop} {post : α → Node → Node → Prop} {epost}
    (h1 : ∀ st, TreeOK env st → pre st → P) (h2 : P → MSpec env m pre post epost) :
    MSpec env m pre post epost :=
  fun st hst hp => h2 (h1 st hst hp) st hst hp

/-- case split on a decidable condition -/
theorem ite {c : Prop} [Decidable c] {m1 m2 : M α} {pre : Node → Prop}
    {post : α → Node → Node → Prop} {epost}
    (h1 : c → MSpec env m1 pre post epost) (h2 : ¬ c → MSpec env m2 pre post epost) :
    MSpec env (if c then m1 else m2) pre post epost := by
  split
  · exact h1 ‹_›
  · exact h2 ‹_›

end MSpec

/-- errors raised in `State.lean`, `Spec.lean`, `Scope.lean`, `Literal.lean` carry no position -/
def NoPos (e : WErr) : Prop := e.pos = none

@[simp] theorem NoPos_mk0 (what : String) (kind : ErrKind) : NoPos (.mk0 what kind) := rfl

theorem NoPos.withKind {e : WErr} (h : NoPos e) (k : ErrKind) : NoPos { e with kind := k } := h

theorem NoPos.wrapped {e : WErr} (h : NoPos e) : NoPos e.wrapped := h

/-- after `addPosition p`, an error without position sits at `p` -/
theorem NoPos.addPosition {e : WErr} (h : NoPos e) (p : J5V.Bcl.Span) : (e.addPosition p).pos = some p := by
  unfold NoPos at h
  simp [WErr.addPosition, h]

/-- if the error carries a position, it is one of `S` (the spans of the input tree) -/
def PosIn (S : J5V.Bcl.Span → Prop) (e : WErr) : Prop := ∀ p, e.pos = some p → S p

/-- the error carries a position of `S` -/
def HasPosIn (S : J5V.Bcl.Span → Prop) (e : WErr) : Prop := ∃ p, e.pos = some p ∧ S p

theorem NoPos.posIn {e : WErr} (h : NoPos e) (S : J5V.Bcl.Span → Prop) : PosIn S e := by
  intro p hp; unfold NoPos at h; rw [h] at hp; cases hp

theorem HasPosIn.posIn {S : J5V.Bcl.Span → Prop} {e : WErr} (h : HasPosIn S e) : PosIn S e := by
  obtain ⟨p, hp, hs⟩ := h
  intro q hq; rw [hp] at hq; cases hq; exact hs

theorem PosIn.wrapped {S : J5V.Bcl.Span → Prop} {e : WErr} (h : PosIn S e) : PosIn S e.wrapped := h

theorem PosIn.withKind {S : J5V.Bcl.Span → Prop} {e : WErr} (h : PosIn S e) (k : ErrKind) :
    PosIn S { e with kind := k } := h

/-- `addPosition p` with `p` of `S` turns "maybe a position of `S`" into "a position of `S`" -/
theorem PosIn.addPosition {S : J5V.Bcl.Span → Prop} {e : WErr} (h : PosIn S e) {p : J5V.Bcl.Span}
    (hp : S p) : HasPosIn S (e.addPosition p) := by
  unfold WErr.addPosition
  cases he : e.pos with
  | none => exact ⟨p, rfl, hp⟩
  | some q => exact ⟨q, he, h q he⟩

theorem HasPosIn.addPosition {S : J5V.Bcl.Span → Prop} {e : WErr} (h : HasPosIn S e) (p : J5V.Bcl.Span) :
    HasPosIn S (e.addPosition p) := by
  obtain ⟨q, hq, hs⟩ := h
  unfold WErr.addPosition
  simp only [hq]
  exact ⟨q, hq, hs⟩

theorem HasPosIn.wrapped {S : J5V.Bcl.Span → Prop} {e : WErr} (h : HasPosIn S e) : HasPosIn S e.wrapped := h

theorem PosIn.mono {S T : J5V.Bcl.Span → Prop} {e : WErr} (h : PosIn S e) (hst : ∀ p, S p → T p) :
    PosIn T e := fun p hp => hst p (h p hp)

theorem HasPosIn.mono {S T : J5V.Bcl.Span → Prop} {e : WErr} (h : HasPosIn S e) (hst : ∀ p, S p → T p) :
    HasPosIn T e := by
  obtain ⟨p, hp, hs⟩ := h; exact ⟨p, hp, hst p hs⟩

/-- `addPosition` keeps an existing position -/
theorem WErr.addPosition_pos (e : WErr) (p : J5V.Bcl.Span) :
    (e.addPosition p).pos = some p ∨ ((e.addPosition p).pos = e.pos ∧ e.pos ≠ none) := by
  unfold WErr.addPosition
  cases h : e.pos with
  | none => simp
  | some q => simp [h]

end J5V.Walker
