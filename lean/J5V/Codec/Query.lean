import J5V.Codec.Decode
/-!
# URL-query decoding: mirror of `/repo/internal/codec/query.go`

`url.Values` is a Go map; the harness hands the keys over in the order the model must process
them (and only generates multi-key queries whose result does not depend on that order).

State across keys: the root message and the `hasValue` flags of every property set reached so
far. A property set is identified by the JSON-name trail from the root (`seen` holds
`trail ++ [name]` for every property whose flag is set). Flags of property sets nested two or
more levels inside a JSON-valued parameter are not recorded (they are observable only by a later
key that walks into the same container, which the harness never generates).

Partial Go operations: `values[0]` stays as a `.panic` arm of `queryLeaf`, unreachable from
`decodeQuery` since 036c15b rejects an empty value list first (`C06_query_no_panic`); the nil
root (37cbe90) and `List.Append` of an invalid value (1330ca4) are errors now.
-/
namespace J5V.Codec
open J5V.Go J5V.Json

/-! ## `strings.TrimSpace` and `strcase.ToLowerCamel` (v0.3.0) -/

/-- `unicode.IsSpace` -/
def isUniSpace (r : Nat) : Bool :=
  (0x09 ≤ r && r ≤ 0x0D) || r = 0x20 || r = 0x85 || r = 0xA0 || r = 0x1680 ||
  (0x2000 ≤ r && r ≤ 0x200A) || r = 0x2028 || r = 0x2029 || r = 0x202F || r = 0x205F || r = 0x3000

def trimLeft : Nat → Bytes → Bytes
  | 0, s => s
  | _, [] => []
  | fuel + 1, s =>
    let rn := decodeRune s
    if rn.2 ≥ 1 ∧ ¬ (rn.1 = runeError ∧ rn.2 = 1) ∧ isUniSpace rn.1 then trimLeft fuel (s.drop rn.2)
    else s

/-- reversed UTF-8 encodings of the space runes, for trimming on the right -/
def spaceSuffixesRev : List Bytes :=
  [[0x09], [0x0A], [0x0B], [0x0C], [0x0D], [0x20], [0x85, 0xC2], [0xA0, 0xC2], [0x80, 0x9A, 0xE1],
   [0x80, 0x80, 0xE2], [0x81, 0x80, 0xE2], [0x82, 0x80, 0xE2], [0x83, 0x80, 0xE2], [0x84, 0x80, 0xE2],
   [0x85, 0x80, 0xE2], [0x86, 0x80, 0xE2], [0x87, 0x80, 0xE2], [0x88, 0x80, 0xE2], [0x89, 0x80, 0xE2],
   [0x8A, 0x80, 0xE2], [0xA8, 0x80, 0xE2], [0xA9, 0x80, 0xE2], [0xAF, 0x80, 0xE2], [0x9F, 0x81, 0xE2],
   [0x80, 0x80, 0xE3]]

def trimRightRev : Nat → Bytes → Bytes
  | 0, r => r
  | fuel + 1, r =>
    match spaceSuffixesRev.findSome? fun p => stripPrefix p r with
    | some r' => trimRightRev fuel r'
    | none => r

def trimSpace (s : Bytes) : Bytes :=
  let l := trimLeft s.length s
  (trimRightRev l.length l.reverse).reverse

def isUpper (c : UInt8) : Bool := 0x41 ≤ c.toNat && c.toNat ≤ 0x5A
def isLower (c : UInt8) : Bool := 0x61 ≤ c.toNat && c.toNat ≤ 0x7A

/-- the byte loop of `toCamelInitCase(s, false)` (no acronyms are configured in j5) -/
def camelLoop : Bytes → (first capNext prevIsCap : Bool) → Bytes
  | [], _, _, _ => []
  | v :: rest, first, capNext, prevIsCap =>
    let vIsCap := isUpper v
    let vIsLow := isLower v
    let v' : UInt8 :=
      if capNext then (if vIsLow then v - 32 else v)
      else if first then (if vIsCap then v + 32 else v)
      else if prevIsCap && vIsCap then v + 32
      else v
    if vIsCap || vIsLow then v' :: camelLoop rest false false vIsCap
    else if isDigit v then v' :: camelLoop rest false true vIsCap
    else camelLoop rest false (v = 0x5F || v = 0x20 || v = 0x2D || v = 0x2E) vIsCap

/-- `strcase.ToLowerCamel` -/
def toLowerCamel (s : Bytes) : Bytes := camelLoop (trimSpace s) true false false

/-- `propertyName(root, part)`: the name as written if the property set has it, else camel-cased -/
def propertyName (props : List PropDef) (part : Bytes) : Bytes :=
  if (findProp props part).isSome then part else toLowerCamel part

/-- `queryGoValue`: the text of a query parameter as the Go value handed to `SetGoValue` /
`AppendGoValue` — `true` / `false` become Go bools for bool fields (and bool array items) -/
def queryGoValue (k : ScalarKind) (v : Bytes) : GoTok :=
  if k = .bool then
    (if v = ascii "true" then .bool true else if v = ascii "false" then .bool false else .str v)
  else .str v

/-- `strings.Split(s, ".")` -/
def splitDot : Bytes → List Bytes
  | [] => [[]]
  | c :: rest =>
    match splitDot rest with
    | [] => [[]]
    | h :: t => if c = 0x2E then [] :: h :: t else (c :: h) :: t

/-! ## state -/

structure QS where
  m : Fields
  seen : List (List Bytes)
  deriving Inhabited

/-- apply `f` to the message at proto location `loc` (all messages on the way exist or are
created, as `Mutable` does) -/
def updAt : List Nat → (Fields → Fields) → Fields → Fields
  | [], f, m => f m
  | k :: rest, f, m => aset k (.msg (updAt rest f (PVal.asMsg (aget k m)))) m

/-- the leaf of `decodeQuery` for one key, after `prop.CreateField()` succeeded -/
def queryLeaf (c : Cfg) (props : List PropDef) (p : PropDef) (loc : List Nat) (trail : List Bytes)
    (values : List Bytes) (st : QS) : Outcome QS :=
  let setv (v : Option PVal) : QS := { st with m := updAt loc (updPath props p v) st.m }
  match p.field with
  | .scalar k =>
    match values with
    | _ :: _ :: _ => .err "multiple values provided for non-repeated field"
    | [] => .panic "index out of range [0] with length 0 (values[0])"
    | [v] =>
      match decodeScalar c.O k (queryGoValue k v) with
      | .ok x => .ok (setv x)
      | .err e => .err e
      | .panic w => .panic w
  | .enum ref =>
    match values with
    | _ :: _ :: _ => .err "multiple values provided for non-repeated field"
    | [] => .panic "index out of range [0] with length 0 (values[0])"
    | [v] =>
      match c.env.find ref with
      | some (.enum pfx opts) =>
        match enumOptionByName pfx opts v with
        | some n => .ok (setv (some (.enum n)))
        | none => .err "invalid value"
      | _ => .err "enum ref"
  | .array (.scalar k) =>
    let r : Outcome (List PVal) := values.foldl (fun acc v =>
      match acc with
      | .ok l =>
        match decodeScalar c.O k (queryGoValue k v) with
        | .ok (some pv) => .ok (l ++ [pv])
        | .ok none => .err "cannot append a nil value"
        | .err e => .err e
        | .panic w => .panic w
      | other => other) (.ok [])
    match r with
    | .ok l => .ok (setv (some (.list l)))
    | .err e => .err e
    | .panic w => .panic w
  | .array (.enum ref) =>
    match c.env.find ref with
    | some (.enum pfx opts) =>
      let r : Outcome (List PVal) := values.foldl (fun acc v =>
        match acc with
        | .ok l =>
          match enumOptionByName pfx opts v with
          | some n => .ok (l ++ [.enum n])
          | none => .err "invalid value"
        | other => other) (.ok [])
      match r with
      | .ok l => .ok (setv (some (.list l)))
      | .err e => .err e
      | .panic w => .panic w
    | _ => if values.isEmpty then .ok st else .err "enum ref"
  | .object ref =>
    match values with
    | _ :: _ :: _ => .err "multiple values provided for non-repeated field"
    | [] => .panic "index out of range [0] with length 0 (values[0])"
    | [v] =>
      let val := trimSpace v
      if val.head? ≠ some 0x7B then .err "invalid value" else
      match c.env.find ref with
      | some (.object sub) =>
        -- CreateField made the message; decodeRoot → decodeObject on its (fresh) property set
        let m1 := updAt loc (updPath props p (some (.msg (PVal.asMsg (getPath (msgAt loc st.m) p.path))))) st.m
        let start := PVal.asMsg (getPath (msgAt loc m1) p.path)
        match readDoc val with
        | .obj ms =>
          match decObjMembers c sub ms { m := start, seen := [] } with
          | .ok (r, term) =>
            if closeOk term then
              .ok { m := updAt loc (updPath props p (some (.msg r.m))) m1,
                    seen := r.seen.map (fun n => trail ++ [n]) ++ st.seen }
            else .err "token"
          | .err e => .err e
          | .panic w => .panic w
        | _ => .err "unexpected token, expected {"
      | _ => .err "object ref"
  | .oneof ref =>
    match values with
    | _ :: _ :: _ => .err "multiple values provided for non-repeated field"
    | [] => .panic "index out of range [0] with length 0 (values[0])"
    | [v] =>
      let val := trimSpace v
      if val.head? ≠ some 0x7B then .err "invalid value" else
      match c.env.find ref with
      | some (.oneof ops) =>
        let cur := msgAt loc st.m
        let m1 := if p.path.isEmpty then st.m
                  else updAt loc (updPath props p (some (.msg (PVal.asMsg (getPath cur p.path))))) st.m
        let start := if p.path.isEmpty then cur else PVal.asMsg (getPath (msgAt loc m1) p.path)
        match readDoc val with
        | .obj ms =>
          match decOneofMembers c ops ms { m := start, seen := [] } [] none with
          | .ok (r, found, ct, term) =>
            if term == .errIn then .err "token" else
            match oneofPost ops found ct r.m with
            | .ok tp =>
              if closeOk term then
                let rm := applyPost ops tp r.m
                .ok { m := if p.path.isEmpty then updAt loc (fun _ => rm) m1
                           else updAt loc (updPath props p (some (.msg rm))) m1,
                      seen := r.seen.map (fun n => trail ++ [n]) ++ st.seen }
              else .err "token"
            | .err e => .err e
            | .panic w => .panic w
          | .err e => .err e
          | .panic w => .panic w
        | _ => .err "unexpected token, expected {"
      | _ => .err "oneof ref"
  | _ => .err "field is not supported for query"

/-- `prop.CreateField()` for a property of the property set `props` at `trail`, whose message is
at proto location `loc`: flag check, empty path, proto-oneof check (25c97b7), `buildProperty` -/
def qCreate (props : List PropDef) (p : PropDef) (loc : List Nat) (trail : List Bytes) (st : QS) :
    Outcome QS :=
  if st.seen.contains (trail ++ [p.jsonName]) then .err "already set"
  else if groupBusy props p (msgAt loc st.m) then
    .err "another member of the proto oneof is already set"
  else
    match p.path, p.field with
    | [], .oneof _ => .ok { st with seen := (trail ++ [p.jsonName]) :: st.seen }
    | [], _ => .err "Reflection Bug: no proto field and not a oneof"
    | _, .array (.array _) => .panic "invalid schema for leaf field"
    | _, .array (.map _) => .panic "invalid schema for leaf field"
    | _, .array (.any _) => .err "unsupported array item schema"
    | _, .map (.array _) => .panic "invalid schema for leaf field"
    | _, .map (.map _) => .panic "invalid schema for leaf field"
    | _, .map (.any _) => .err "unsupported schema type"
    | _, _ => .ok { st with seen := (trail ++ [p.jsonName]) :: st.seen }

/-- one step of `propertyAtPath` into the container property `p`: `prop.Field()` if it is set,
else `prop.CreateField()` (whose `Mutable` walk creates the container message) -/
def qEnter (props : List PropDef) (p : PropDef) (loc : List Nat) (trail : List Bytes) (st : QS) :
    Outcome QS :=
  if st.seen.contains (trail ++ [p.jsonName]) then .ok st
  else
    (qCreate props p loc trail st).bind fun s =>
      if p.path.isEmpty then .ok s
      else if p.field.mutable then
        .ok { s with m := updAt loc (fun m =>
                updPath props p (some (.msg (PVal.asMsg (getPath m p.path)))) m) s.m }
      else .ok s

/-- `propertyAtPath` followed by the body of the `for key, values` loop -/
def queryKey (c : Cfg) : List Bytes → List PropDef → List Nat → List Bytes → List Bytes → QS →
    Outcome QS
  | [], _, _, _, _, _ => .err "empty path"   -- `strings.Split` never returns an empty slice
  | [tail], props, loc, trail, values, st =>
    match findProp props (propertyName props tail) with
    | none => .err "no property"
    | some p =>
      match qCreate props p loc trail st with
      | .ok st1 => queryLeaf c props p loc trail values st1
      | .err e => .err e
      | .panic w => .panic w
  | part :: rest, props, loc, trail, values, st =>
    match findProp props (propertyName props part) with
    | none => .err "unknown property"
    | some p =>
      let trail' := trail ++ [p.jsonName]
      match qEnter props p loc trail st with
      | .ok s =>
        match p.field with
        | .object ref =>
          match c.env.find ref with
          | some (.object sub) => queryKey c rest sub (loc ++ p.path) trail' values s
          | _ => .err "object ref"
        | .oneof ref =>
          match c.env.find ref with
          | some (.oneof ops) => queryKey c rest ops (loc ++ p.path) trail' values s
          | _ => .err "oneof ref"
        | _ => .err "property is not a container"
      | .err e => .err e
      | .panic w => .panic w

/-- `Codec.QueryToProto(values, fresh message of root)` -/
def decodeQuery (c : Cfg) (root : String) (kvs : List (Bytes × List Bytes)) : Outcome Fields :=
  match c.env.find root with
  | some (.object props) | some (.oneof props) =>
    let r : Outcome QS := kvs.foldl (fun (acc : Outcome QS) kv =>
      match acc with
      | .ok st =>
        if kv.2.isEmpty then .err "no value provided for field"
        else queryKey c (splitDot kv.1) props [] [] kv.2 st
      | other => other) (.ok { m := [], seen := [] })
    match r with
    | .ok st => .ok st.m
    | .err e => .err e
    | .panic w => .panic w
  | _ => .err "NewRoot: no schema"

end J5V.Codec
