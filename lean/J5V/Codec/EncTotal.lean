import J5V.Codec.RoundtripInd
import J5V.Codec.DecodeProofs
/-!
# The encoder model never panics (C08): fuel exhaustion is unreachable

`encValue / encObjectBody / encOneofBody / encField / encRoot` recurse on fuel; `.panic "fuel"` is the
only panic the encoder model can originate. For every environment whose oneof roots have members
with proto paths (`Env.oneofsPlain`: a oneof wrapper's members are fields of the wrapper — always so
for reflected schemas; every `Env.flat` environment), EVERY message (representable or not), the fuel
`encFuel` suffices: five levels of the mutual recursion per nesting level of the message.
-/
namespace J5V.Codec
open J5V.Go J5V.Json

/-- every member of every oneof root has a proto path (no exposed oneof directly inside a oneof) -/
def Env.oneofsPlain (env : Env) : Bool :=
  env.defs.all fun d =>
    match d.2 with
    | .oneof ps => ps.all fun p => !p.path.isEmpty
    | _ => true

theorem oneofsPlain_find (env : Env) (h : env.oneofsPlain = true) (ref : String) (ops : List PropDef)
    (hf : env.find ref = some (.oneof ops)) : ∀ q ∈ ops, q.path ≠ [] := by
  obtain ⟨d, hm, hd⟩ := find_mem env ref _ hf
  unfold Env.oneofsPlain at h
  have := List.all_eq_true.mp h d hm
  rw [hd] at this
  intro q hq e
  have := List.all_eq_true.mp this q hq
  rw [e] at this
  cases this

theorem depth_getPath : ∀ (path : List Nat) (fs : Fields) (v : PVal),
    getPath fs path = some v → v.depth ≤ depthFields fs
  | [], fs, v, h => by simp [getPath] at h
  | [k], fs, v, h => by
    simp only [getPath] at h
    exact depthFields_mem fs k v (aget_mem k v fs h)
  | k :: k2 :: rest, fs, v, h => by
    simp only [getPath] at h
    split at h
    · next sub hs =>
      have h1 := depth_getPath (k2 :: rest) sub v h
      have h2 := depthFields_mem fs k _ (aget_mem k _ fs hs)
      simp only [PVal.depth] at h2
      omega
    · cases h

/-! ## helpers never originate a panic -/

theorem np_strNode (s : Bytes) : NP (strNode s) := by
  unfold strNode
  cases hx : appendString s with
  | ok lit => exact NP_ok _
  | err e => exact NP_err _
  | panic w => exact absurd hx ((appendString_total s).1 w)

theorem np_encodeScalar (O : Oracle) (k : ScalarKind) (v : PVal) : NP (encodeScalar O k v) := by
  intro w h
  unfold encodeScalar at h
  repeat' (split at h) <;> cases h

theorem np_scalarNode (O : Oracle) (k : ScalarKind) (v : PVal) : NP (scalarNode O k v) := by
  unfold scalarNode
  cases hx : encodeScalar O k v with
  | ok out =>
    cases out with
    | quoted s => exact np_strNode s
    | bare t => exact NP_ok _
  | err e => exact NP_err _
  | panic w => exact absurd hx (np_encodeScalar O k v w)

theorem np_member (name : Bytes) (v : Outcome PTree) (hv : NP v) : NP (member name v) := by
  unfold member
  cases hx : appendString name with
  | ok lit =>
    cases v with
    | ok t => exact NP_ok _
    | err e => exact NP_err _
    | panic w => exact absurd rfl (hv w)
  | err e => exact NP_err _
  | panic w => exact absurd hx ((appendString_total name).1 w)

theorem np_consMember (r : Outcome (Option (Bytes × Bytes × PTree))) (rest : Outcome PMembers)
    (hr : NP r) (hrest : NP rest) : NP (consMember r rest) := by
  unfold consMember
  cases r with
  | ok o =>
    cases o with
    | none => exact hrest
    | some e =>
      obtain ⟨k, kraw, v⟩ := e
      cases rest with
      | ok ms => exact NP_ok _
      | err e => exact NP_err _
      | panic w => exact absurd rfl (hrest w)
  | err e => exact NP_err _
  | panic w => exact absurd rfl (hr w)

theorem np_consElem (r : Outcome PTree) (rest : Outcome PElems) (hr : NP r) (hrest : NP rest) :
    NP (consElem r rest) := by
  unfold consElem
  cases r with
  | ok v =>
    cases rest with
    | ok xs => exact NP_ok _
    | err e => exact NP_err _
    | panic w => exact absurd rfl (hrest w)
  | err e => exact NP_err _
  | panic w => exact absurd rfl (hr w)

theorem np_foldr_members {α : Type} (g : α → Outcome (Option (Bytes × Bytes × PTree))) (xs : List α)
    (hg : ∀ x ∈ xs, NP (g x)) :
    NP (xs.foldr (fun x acc => consMember (g x) acc) (.ok (.nil .closed))) := by
  induction xs with
  | nil => exact NP_ok _
  | cons x t ih =>
    simp only [List.foldr_cons]
    exact np_consMember _ _ (hg x List.mem_cons_self) (ih fun y hy => hg y (List.mem_cons_of_mem _ hy))

theorem np_foldr_elems {α : Type} (g : α → Outcome PTree) (xs : List α) (hg : ∀ x ∈ xs, NP (g x)) :
    NP (xs.foldr (fun x acc => consElem (g x) acc) (.ok (.nil .closed))) := by
  induction xs with
  | nil => exact NP_ok _
  | cons x t ih =>
    simp only [List.foldr_cons]
    exact np_consElem _ _ (hg x List.mem_cons_self) (ih fun y hy => hg y (List.mem_cons_of_mem _ hy))

/-- a `match r with | .ok x => .ok (g x) | .err e => .err e | .panic w => .panic w` never
originates a panic -/
theorem np_map {α β : Type} (r : Outcome α) (g : α → Outcome β) (hr : NP r) (hg : ∀ a, NP (g a)) :
    NP (match r with
      | .ok a => g a
      | .err e => .err e
      | .panic w => .panic w) := by
  cases r with
  | ok a => exact hg a
  | err e => exact NP_err _
  | panic w => exact absurd rfl (hr w)

/-! ## the induction -/

structure ENP (env : Env) (O : Oracle) (f : Nat) : Prop where
  val : ∀ fld v, 5 * v.depth + 1 ≤ f → NP (encValue env O f fld v)
  obj : ∀ props fs, 5 * depthFields fs + 5 ≤ f → NP (encObjectBody env O f props fs)
  one : ∀ ops fs, (∀ q ∈ ops, q.path ≠ []) → 5 * depthFields fs + 3 ≤ f →
    NP (encOneofBody env O f ops fs)
  fldE : ∀ p fs, p.path = [] → 5 * depthFields fs + 4 ≤ f → NP (encField env O f p fs)
  fldP : ∀ p fs, p.path ≠ [] → 5 * depthFields fs + 2 ≤ f → NP (encField env O f p fs)
  root : ∀ r v, 5 * v.depth + 1 ≤ f → NP (encRoot env O f r v)

theorem ENP_fldP (env : Env) (O : Oracle) (f : Nat) (ih : ENP env O f) :
    ∀ p fs, p.path ≠ [] → 5 * depthFields fs + 2 ≤ f + 1 → NP (encField env O (f + 1) p fs) := by
  intro p fs hp hd
  unfold encField
  split
  · next h => exact absurd h hp
  · next path hne =>
    cases hg : getPath fs p.path with
    | none => exact NP_ok _
    | some v =>
      have hv := depth_getPath p.path fs v hg
      simp only []
      cases hx : encValue env O f p.field v with
      | ok t => exact NP_ok _
      | err e => exact NP_err _
      | panic w => exact absurd hx (ih.val p.field v (by omega) w)

theorem ENP_fldE (env : Env) (O : Oracle) (hE : env.oneofsPlain = true) (f : Nat) (ih : ENP env O f) :
    ∀ p fs, p.path = [] → 5 * depthFields fs + 4 ≤ f + 1 → NP (encField env O (f + 1) p fs) := by
  intro p fs hp hd
  unfold encField
  rw [hp]
  simp only []
  cases hf : p.field with
  | oneof ref =>
    simp only []
    cases hfind : env.find ref with
    | none => exact NP_err _
    | some r =>
      cases r with
      | oneof ops =>
        simp only []
        split
        · cases hx : encOneofBody env O f ops fs with
          | ok t => exact NP_ok _
          | err e => exact NP_err _
          | panic w =>
            exact absurd hx (ih.one ops fs (oneofsPlain_find env hE ref ops hfind) (by omega) w)
        · exact NP_ok _
      | _ => exact NP_err _
  | _ => exact NP_err _

theorem ENP_fld (env : Env) (O : Oracle) (f : Nat) (ih : ENP env O f) (p : PropDef) (fs : Fields)
    (hd : 5 * depthFields fs + 4 ≤ f) : NP (encField env O f p fs) := by
  cases hp : p.path with
  | nil => exact ih.fldE p fs hp hd
  | cons a b => exact ih.fldP p fs (by rw [hp]; simp) (by omega)

theorem ENP_obj (env : Env) (O : Oracle) (f : Nat) (ih : ENP env O f) :
    ∀ props fs, 5 * depthFields fs + 5 ≤ f + 1 → NP (encObjectBody env O (f + 1) props fs) := by
  intro props fs hd
  unfold encObjectBody
  simp only []
  have hms : NP (props.foldr (fun p acc =>
      consMember
        (match findProp props p.jsonName with
         | none => .err "no property"
         | some q =>
           match encField env O f q fs with
           | .ok none => .ok none
           | .ok (some t) => member q.jsonName (.ok t)
           | .err e => .err e
           | .panic w => .panic w) acc) (.ok (.nil .closed))) := by
    apply np_foldr_members
    intro p _
    cases hq : findProp props p.jsonName with
    | none => exact NP_err _
    | some q =>
      simp only []
      cases hx : encField env O f q fs with
      | ok o =>
        cases o with
        | none => exact NP_ok _
        | some t => exact np_member _ _ (NP_ok _)
      | err e => exact NP_err _
      | panic w => exact absurd hx (ENP_fld env O f ih q fs (by omega) w)
  revert hms
  generalize (props.foldr _ _) = ms
  intro hms
  cases ms with
  | ok m => exact NP_ok _
  | err e => exact NP_err _
  | panic w => exact absurd rfl (hms w)

theorem ENP_one (env : Env) (O : Oracle) (f : Nat) (ih : ENP env O f) :
    ∀ ops fs, (∀ q ∈ ops, q.path ≠ []) → 5 * depthFields fs + 3 ≤ f + 1 →
      NP (encOneofBody env O (f + 1) ops fs) := by
  intro ops fs hops hd
  unfold encOneofBody
  split
  · exact NP_ok _
  · next q0 _ =>
    cases hq : findProp ops q0.jsonName with
    | none => exact NP_err _
    | some q =>
      simp only []
      cases hs : strNode q.jsonName with
      | ok nameNode =>
        simp only []
        cases ht : appendString typeKey with
        | ok typeLit =>
          simp only []
          cases hx : encField env O f q fs with
          | ok o =>
            cases o with
            | none => exact NP_err _
            | some t =>
              simp only []
              cases hm : member q.jsonName (.ok t) with
              | ok r =>
                cases r with
                | none => exact NP_err _
                | some e =>
                  obtain ⟨k, kraw, v⟩ := e
                  exact NP_ok _
              | err e => exact NP_err _
              | panic w => exact absurd hm (np_member _ _ (NP_ok _) w)
          | err e => exact NP_err _
          | panic w =>
            exact absurd hx (ih.fldP q fs (hops q (findProp_mem ops _ q hq)) (by omega) w)
        | err e => exact NP_err _
        | panic w => exact absurd ht ((appendString_total typeKey).1 w)
      | err e => exact NP_err _
      | panic w => exact absurd hs (np_strNode _ w)
  · exact NP_err _

theorem ENP_root (env : Env) (O : Oracle) (hE : env.oneofsPlain = true) (f : Nat) (ih : ENP env O f) :
    ∀ r v, 5 * v.depth + 1 ≤ f + 1 → NP (encRoot env O (f + 1) r v) := by
  intro r v hd
  unfold encRoot
  split
  · next props fs hfind =>
    simp only [PVal.depth] at hd
    exact ih.obj props fs (by omega)
  · next ops fs hfind =>
    simp only [PVal.depth] at hd
    exact ih.one ops fs (oneofsPlain_find env hE r ops hfind) (by omega)
  · exact NP_err _

theorem ENP_val (env : Env) (O : Oracle) (hE : env.oneofsPlain = true) (f : Nat) (ih : ENP env O f) :
    ∀ fld v, 5 * v.depth + 1 ≤ f + 1 → NP (encValue env O (f + 1) fld v) := by
  intro fld v hd
  unfold encValue
  cases fld with
  | scalar k => exact np_scalarNode O k v
  | «enum» ref =>
    simp only []
    split
    · split
      · exact np_strNode _
      · exact NP_err _
    · exact NP_err _
  | object ref =>
    simp only []
    split
    · next props fs hfind =>
      simp only [PVal.depth] at hd
      exact ih.obj props fs (by omega)
    · exact NP_err _
  | oneof ref =>
    simp only []
    split
    · next ops fs hfind =>
      simp only [PVal.depth] at hd
      exact ih.one ops fs (oneofsPlain_find env hE ref ops hfind) (by omega)
    · exact NP_err _
  | array item =>
    simp only []
    split
    · exact NP_err _
    · exact NP_err _
    · exact NP_err _
    · next xs _ _ _ =>
      simp only [PVal.depth] at hd
      have hes : NP (xs.foldr (fun x acc => consElem (encValue env O f item x) acc) (.ok (.nil .closed))) := by
        apply np_foldr_elems
        intro x hx
        have := depthList_mem xs x hx
        exact ih.val item x (by omega)
      revert hes
      generalize (xs.foldr _ _) = es
      intro hes
      cases es with
      | ok m => exact NP_ok _
      | err e => exact NP_err _
      | panic w => exact absurd rfl (hes w)
    · exact NP_err _
  | map item =>
    simp only []
    split
    · exact NP_err _
    · exact NP_err _
    · exact NP_err _
    · next kvs _ _ _ =>
      simp only [PVal.depth] at hd
      have hms : NP (kvs.foldr (fun kv acc =>
          consMember (member kv.1 (encValue env O f item kv.2)) acc) (.ok (.nil .closed))) := by
        apply np_foldr_members
        intro kv hkv
        have := depthMap_mem kvs kv.1 kv.2 hkv
        exact np_member _ _ (ih.val item kv.2 (by omega))
      revert hms
      generalize (kvs.foldr _ _) = ms
      intro hms
      cases ms with
      | ok m => exact NP_ok _
      | err e => exact NP_err _
      | panic w => exact absurd rfl (hms w)
    · exact NP_err _
  | any pb =>
    cases v with
    | anyJ5 tn proto j5 ik iroot inner =>
      simp only [PVal.depth] at hd
      simp only []
      split
      · split
        · exact NP_ok _
        · exact absurd ‹appendString typeKey = Outcome.panic _› ((appendString_total typeKey).1 _)
        · exact absurd ‹strNode _ = Outcome.panic _› (np_strNode _ _)
        · exact absurd ‹appendString valueKey = Outcome.panic _› ((appendString_total valueKey).1 _)
        · exact NP_err _
      · exact NP_err _
      · next w heq =>
        exfalso
        split at heq
        · cases heq
        · split at heq
          · cases ik with
            | none => cases heq
            | bad => cases heq
            | inn => exact ih.root iroot inner (by omega) w heq
          · cases heq
    | anyPb url val ik iroot inner =>
      simp only [PVal.depth] at hd
      simp only []
      split
      · split
        · exact NP_ok _
        · exact absurd ‹appendString typeKey = Outcome.panic _› ((appendString_total typeKey).1 _)
        · exact absurd ‹strNode _ = Outcome.panic _› (np_strNode _ _)
        · exact absurd ‹appendString valueKey = Outcome.panic _› ((appendString_total valueKey).1 _)
        · exact NP_err _
      · exact NP_err _
      · next w heq =>
        exfalso
        split at heq
        · cases heq
        · split at heq
          · cases ik with
            | none => cases heq
            | bad => cases heq
            | inn => exact ih.root iroot inner (by omega) w heq
          · cases heq
    | _ => exact NP_err _

theorem ENP_all (env : Env) (O : Oracle) (hE : env.oneofsPlain = true) : ∀ f, ENP env O f := by
  intro f
  induction f with
  | zero =>
    refine ⟨?_, ?_, ?_, ?_, ?_, ?_⟩
    · intro _ _ h; omega
    · intro _ _ h; omega
    · intro _ _ _ h; omega
    · intro _ _ _ h; omega
    · intro _ _ _ h; omega
    · intro _ _ h; omega
  | succ f ih =>
    exact ⟨ENP_val env O hE f ih, ENP_obj env O f ih, ENP_one env O f ih, ENP_fldE env O hE f ih,
      ENP_fldP env O f ih, ENP_root env O hE f ih⟩

/-- **the encoder model never panics**: every message, every root, at the fuel `encodeTree` uses -/
theorem encodeTree_np (env : Env) (O : Oracle) (hE : env.oneofsPlain = true) (root : String)
    (v : PVal) : NP (encodeTree env O root v) := by
  unfold encodeTree encFuel
  exact (ENP_all env O hE _).root root v (by omega)

theorem encodeBytes_np (env : Env) (O : Oracle) (hE : env.oneofsPlain = true) (root : String)
    (v : PVal) : NP (encodeBytes env O root v) := by
  unfold encodeBytes
  cases hx : encodeTree env O root v with
  | ok t => exact NP_ok _
  | err e => exact NP_err _
  | panic w => exact absurd hx (encodeTree_np env O hE root v w)

/-- flat environments qualify -/
theorem oneofsPlain_of_flat (env : Env) (h : env.flat = true) : env.oneofsPlain = true := by
  unfold Env.flat at h
  simp only [Bool.and_eq_true] at h
  unfold Env.oneofsPlain
  apply List.all_eq_true.mpr
  intro d hd
  have hr := List.all_eq_true.mp h.1 d hd
  cases hd2 : d.2 with
  | oneof ps =>
    rw [hd2] at hr
    simp only [rootFlat] at hr
    obtain ⟨hsimple, _, _, _⟩ := oneof_root_facts ps hr
    apply List.all_eq_true.mpr
    intro p hp
    obtain ⟨k, hk⟩ := propSimple_path p (hsimple p hp)
    rw [hk]; rfl
  | _ => rfl

end J5V.Codec
