import J5V.Codec.Wire
/-!
# Representable values and the laws assumed of the oracle functions

`scalarRepr` is the decidable "representable in the documented wire format" predicate of C01 for
one scalar; `OracleLaws` states what is assumed (never as an axiom: always as a hypothesis) of
`strconv.FormatFloat/ParseFloat`, `time.Format/Parse` and `shopspring/decimal`.
-/
namespace J5V.Codec
open J5V.Json

/-- exponent field not all ones (the bit pattern is `< 2 ^ 64` by type in Go) -/
def finite64 (b : Nat) : Bool := (b / 2 ^ 52) % 2048 != 2047
def finite32 (b : Nat) : Bool := (b / 2 ^ 23) % 256 != 255

/-- seconds of 0001-01-01T00:00:00Z and 9999-12-31T23:59:59Z -/
def tsMin : Int := -62135596800
def tsMax : Int := 253402300799

def tsRepr (s n : Int) : Bool := decide (tsMin ≤ s ∧ s ≤ tsMax ∧ 0 ≤ n ∧ n < 1000000000)

theorem tsRepr_iff (s n : Int) :
    tsRepr s n = true ↔ (-62135596800 ≤ s ∧ s ≤ 253402300799 ∧ 0 ≤ n ∧ n < 1000000000) := by
  unfold tsRepr tsMin tsMax
  exact decide_eq_true_iff

structure OracleLaws (O : Oracle) : Prop where
  /-- `ParseFloat(FormatFloat(v,'g',-1,64),64) = v` on finite values, and the text is a JSON number -/
  f64 : ∀ b, finite64 b = true →
    Wire.isJsonNumber (O.fmtF64 b) = true ∧ ∃ b32, O.parseFloat (O.fmtF64 b) = some (b, b32)
  /-- `float32(ParseFloat(FormatFloat(float64(v),'g',-1,32),64)) = v` on finite float32 values -/
  f32 : ∀ b, finite32 b = true →
    Wire.isJsonNumber (O.fmtF32 b) = true ∧ ∃ b64, O.parseFloat (O.fmtF32 b) = some (b64, some b)
  /-- `time.Parse(RFC3339, t.UTC().Format(RFC3339Nano)) = t` for years 0001–9999 -/
  time : ∀ s n, tsRepr s n = true → O.parseTime (O.fmtTime s n) = some (s, n)
  /-- `decimal.String()` is a fixpoint of `NewFromString(..).String()` -/
  dec : ∀ s norm, O.parseDec s = some norm → O.parseDec norm = some norm
  /-- the formatted timestamp is valid UTF-8 (it is ASCII) -/
  timeUtf8 : ∀ s n, tsRepr s n = true → isValidUtf8 (O.fmtTime s n) = true

/-- shape of the formatted texts (needed only by the wire-format theorems of C08) -/
structure OracleWire (O : Oracle) : Prop where
  /-- `t.UTC().Format(RFC3339Nano)` has the RFC 3339 shape with the `Z` offset for years 0001–9999 -/
  time : ∀ s n, tsRepr s n = true → Wire.isRfc3339Utc (O.fmtTime s n) = true

/-- representable scalar values (C01's quantifier), for the proto kind the schema prescribes -/
def scalarRepr (O : Oracle) (k : ScalarKind) (v : PVal) : Bool :=
  match k, v with
  | .string, .str _ => true
  | .key, .str _ => true
  | .bool, .bool _ => true
  | .int32, .int i => decide (-(2 ^ 31 : Int) ≤ i) && decide (i < 2 ^ 31)
  | .int64, .int i => decide (-(2 ^ 63 : Int) ≤ i) && decide (i < 2 ^ 63)
  | .uint32, .uint n => decide (n < 2 ^ 32)
  | .uint64, .uint n => decide (n < 2 ^ 64)
  | .float32, .f32 b => finite32 b
  | .float64, .f64 b => finite64 b
  | .bytes, .bytes _ => true
  | .timestamp, .ts s n => tsRepr s n
  | .date, .date y m d =>
    decide (1 ≤ y ∧ y ≤ 9999 ∧ 1 ≤ m ∧ m ≤ 12 ∧ 1 ≤ d ∧ d ≤ daysInMonth y m)
  | .decimal, .dec s => (O.parseDec s).isSome
  | _, _ => false

/-- how the JSON reader hands back what `encodeScalar` wrote: a string, a number, or a bool -/
def scalarTok : ScalarOut → GoTok
  | .quoted s => .str s
  | .bare t => if t = ascii "true" then .bool true else if t = ascii "false" then .bool false else .num t

/-- decimals are compared numerically: the decoder stores the normalised text -/
def canonScalar (O : Oracle) : PVal → PVal
  | .dec s => .dec ((O.parseDec s).getD s)
  | v => v

end J5V.Codec
