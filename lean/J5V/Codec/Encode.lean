import J5V.Codec.Scalar
import J5V.Json.Tree
/-!
# Encoder: mirror of `/repo/internal/codec/{encoder,structure_encode}.go` over
`lib/j5reflect` (`propSet.RangeValues/GetValue/GetOne/buildValue`, array / map `Range`).

The Go encoder appends to a `bytes.Buffer` and discards the buffer on error; the model builds the
JSON tree (`PTree`, strings with the literal `appendString` produced) and `encodeBytes` renders
it — the bytes are the same concatenation. Recursion is on `fuel` (a message nests finitely; the
value at a proto path is found by lookup, so it is not a syntactic sub-term); running out of fuel
is `.panic "fuel"`, proved unreachable for `fuel ≥ PVal.depth`.
-/
namespace J5V.Codec
open J5V.Go J5V.Json

/-- `addString` -/
def strNode (s : Bytes) : Outcome PTree :=
  match appendString s with
  | .ok lit => .ok (.str s lit)
  | .err e => .err e
  | .panic w => .panic w

/-- a bare literal: `true` / `false` (`addBool`) or number text -/
def bareNode (t : Bytes) : PTree :=
  if t = ascii "true" then .bool true else if t = ascii "false" then .bool false else .num t

/-- `encodeScalarField`: the JSON node written for a scalar -/
def scalarNode (O : Oracle) (k : ScalarKind) (v : PVal) : Outcome PTree :=
  match encodeScalar O k v with
  | .ok (.quoted s) => strNode s
  | .ok (.bare t) => .ok (bareNode t)
  | .err e => .err e
  | .panic w => .panic w

/-- first failure in document order wins -/
def consMember (r : Outcome (Option (Bytes × Bytes × PTree))) (rest : Outcome PMembers) :
    Outcome PMembers :=
  match r with
  | .ok none => rest
  | .ok (some (k, kraw, v)) =>
    match rest with
    | .ok ms => .ok (.cons k kraw v ms)
    | .err e => .err e
    | .panic w => .panic w
  | .err e => .err e
  | .panic w => .panic w

def consElem (r : Outcome PTree) (rest : Outcome PElems) : Outcome PElems :=
  match r with
  | .ok v =>
    match rest with
    | .ok xs => .ok (.cons v xs)
    | .err e => .err e
    | .panic w => .panic w
  | .err e => .err e
  | .panic w => .panic w

/-- `fieldLabel(name)` + value -/
def member (name : Bytes) (v : Outcome PTree) : Outcome (Option (Bytes × Bytes × PTree)) :=
  match appendString name with
  | .ok lit =>
    match v with
    | .ok t => .ok (some (name, lit, t))
    | .err e => .err e
    | .panic w => .panic w
  | .err e => .err e
  | .panic w => .panic w

def anyPrefix : Bytes := ascii "type.googleapis.com/"
def typeKey : Bytes := ascii "!type"
def valueKey : Bytes := ascii "value"

/-- `propSet.GetValue(name)` reports `has` — for a property with a proto path: every field on the
path is populated; for an exposed oneof (empty path): `GetOne` finds exactly one set member. -/
def hasProp (env : Env) : Nat → PropDef → Fields → Bool
  | 0, _, _ => false
  | f + 1, p, m =>
    match p.path with
    | [] =>
      match p.field with
      | .oneof ref =>
        match env.find ref with
        | some (.oneof ops) =>
          (ops.filter fun q =>
            match findProp ops q.jsonName with
            | some q' => hasProp env f q' m
            | none => false).length == 1
        | _ => false
      | _ => false
    | path => (getPath m path).isSome

/-- `GetOne`'s test: is member `q` of the oneof set in message `m`? (`GetValue` goes through the
name map, so for a duplicated JSON name the last property answers) -/
def oneofSet (env : Env) (f : Nat) (ops : List PropDef) (m : Fields) (q : PropDef) : Bool :=
  match findProp ops q.jsonName with
  | some q' => hasProp env f q' m
  | none => false

mutual
/-- `GetValue(p)` then `encodeValue`: `none` = not set (the member is omitted) -/
def encField (env : Env) (O : Oracle) : Nat → PropDef → Fields → Outcome (Option PTree)
  | 0, _, _ => .panic "fuel"
  | f + 1, p, m =>
    match p.path with
    | [] =>
      -- exposed oneof: a oneof over the same message
      match p.field with
      | .oneof ref =>
        match env.find ref with
        | some (.oneof ops) =>
          if hasProp env (f + 1) p m then
            match encOneofBody env O f ops m with
            | .ok t => .ok (some t)
            | .err e => .err e
            | .panic w => .panic w
          else .ok none
        | _ => .err "oneof ref"
      | _ => .err "Reflection Bug: no proto field and not a oneof"
    | path =>
      match getPath m path with
      | none => .ok none
      | some v =>
        match encValue env O f p.field v with
        | .ok t => .ok (some t)
        | .err e => .err e
        | .panic w => .panic w

/-- `encodeObjectBody` = `RangeValues` over the property list -/
def encObjectBody (env : Env) (O : Oracle) : Nat → List PropDef → Fields → Outcome PTree
  | 0, _, _ => .panic "fuel"
  | f + 1, props, m =>
    let ms := props.foldr (fun p acc =>
      consMember
        (match findProp props p.jsonName with
         | none => .err "no property"
         | some q =>
           match encField env O f q m with
           | .ok none => .ok none
           | .ok (some t) => member q.jsonName (.ok t)
           | .err e => .err e
           | .panic w => .panic w) acc) (.ok (.nil .closed))
    match ms with
    | .ok ms => .ok (.obj ms)
    | .err e => .err e
    | .panic w => .panic w

/-- `encodeOneofBody`: `GetOne`, then `{}` or `{"!type":name,name:value}` -/
def encOneofBody (env : Env) (O : Oracle) : Nat → List PropDef → Fields → Outcome PTree
  | 0, _, _ => .panic "fuel"
  | f + 1, ops, m =>
    match ops.filter (oneofSet env (f + 1) ops m) with
    | [] => .ok (.obj (.nil .closed))
    | [q0] =>
      match findProp ops q0.jsonName with
      | none => .err "no property"
      | some q =>
        match strNode q.jsonName with
        | .ok nameNode =>
          match appendString typeKey with
          | .ok typeLit =>
            match encField env O f q m with
            | .ok (some t) =>
              (match member q.jsonName (.ok t) with
               | .ok (some (k, kraw, v)) =>
                 .ok (.obj (.cons typeKey typeLit nameNode (.cons k kraw v (.nil .closed))))
               | .ok none => .err "unreachable"
               | .err e => .err e
               | .panic w => .panic w)
            | .ok none => .err "value vanished"
            | .err e => .err e
            | .panic w => .panic w
          | .err e => .err e
          | .panic w => .panic w
        | .err e => .err e
        | .panic w => .panic w
    | _ => .err "multiple values set for oneof"

/-- `encodeValue` on the `Field` built for the value -/
def encValue (env : Env) (O : Oracle) : Nat → Field → PVal → Outcome PTree
  | 0, _, _ => .panic "fuel"
  | f + 1, fld, v =>
    match fld with
    | .scalar k => scalarNode O k v
    | .enum ref =>
      match env.find ref, v with
      | some (.enum _ opts), .enum n =>
        match optionByNumber opts n with
        | some name => strNode name
        | none => .err "enum value not found"
      | _, _ => .err "enum"
    | .object ref =>
      match env.find ref, v with
      | some (.object props), .msg fs => encObjectBody env O f props fs
      | _, _ => .err "object"
    | .oneof ref =>
      match env.find ref, v with
      | some (.oneof ops), .msg fs => encOneofBody env O f ops fs
      | _, _ => .err "oneof"
    | .array item =>
      match item, v with
      | .array _, _ => .err "unsupported array item schema"
      | .map _, _ => .err "unsupported array item schema"
      | .any _, _ => .err "unsupported array item schema"
      | _, .list xs =>
        match xs.foldr (fun x acc => consElem (encValue env O f item x) acc) (.ok (.nil .closed)) with
        | .ok es => .ok (.arr es)
        | .err e => .err e
        | .panic w => .panic w
      | _, _ => .err "array"
    | .map item =>
      match item, v with
      | .array _, _ => .err "unsupported schema type"
      | .map _, _ => .err "unsupported schema type"
      | .any _, _ => .err "unsupported schema type"
      | _, .map kvs =>
        match kvs.foldr (fun kv acc =>
            consMember (member kv.1 (encValue env O f item kv.2)) acc) (.ok (.nil .closed)) with
        | .ok ms => .ok (.obj ms)
        | .err e => .err e
        | .panic w => .panic w
      | _, _ => .err "map"
    | .any _ =>
      -- `GetJ5Any`: (typeName, J5Json, Proto) of either flavour
      -- (typeName, J5Json, `Proto != nil`, …); a pb Any's `Proto` is never nil (691a6dd)
      let parts : Option (Bytes × Bytes × Bool × InnerKind × String × PVal) :=
        match v with
        | .anyJ5 tn proto j5 ik iroot inner => some (tn, j5, !proto.isEmpty, ik, iroot, inner)
        | .anyPb url _ ik iroot inner => some (trimPrefix url anyPrefix, [], true, ik, iroot, inner)
        | _ => none
      match parts with
      | none => .err "any"
      | some (tn, j5, hasProto, ik, iroot, inner) =>
        let jsonData : Outcome PTree :=
          if !j5.isEmpty then .ok (chunkNode O j5)
          else if hasProto then
            match ik with
            | .none => .err "resolver: not found"
            | .bad => .err "proto.Unmarshal"
            | .inn => encRoot env O f iroot inner
          else .err "any has neither j5_json nor proto content"
        match jsonData with
        | .ok data =>
          match appendString typeKey, strNode tn, appendString valueKey with
          | .ok typeLit, .ok tnNode, .ok valueLit =>
            .ok (.obj (.cons typeKey typeLit tnNode (.cons valueKey valueLit data (.nil .closed))))
          | .panic w, _, _ => .panic w
          | _, .panic w, _ => .panic w
          | _, _, .panic w => .panic w
          | _, _, _ => .err "invalid UTF-8"
        | .err e => .err e
        | .panic w => .panic w

/-- `Codec.encode(msg)`: `NewRoot` + `encodeObject` / `encodeOneofBody` -/
def encRoot (env : Env) (O : Oracle) : Nat → String → PVal → Outcome PTree
  | 0, _, _ => .panic "fuel"
  | f + 1, root, v =>
    match env.find root, v with
    | some (.object props), .msg fs => encObjectBody env O f props fs
    | some (.oneof ops), .msg fs => encOneofBody env O f ops fs
    | _, _ => .err "unsupported root schema type"
end

mutual
def PVal.depth : PVal → Nat
  | .msg fs => depthFields fs + 1
  | .list xs => depthList xs + 1
  | .map kvs => depthMap kvs + 1
  | .anyJ5 _ _ _ _ _ inner => inner.depth + 1
  | .anyPb _ _ _ _ inner => inner.depth + 1
  | _ => 0
def depthFields : List (Nat × PVal) → Nat
  | [] => 0
  | (_, v) :: rest => max v.depth (depthFields rest)
def depthList : List PVal → Nat
  | [] => 0
  | v :: rest => max v.depth (depthList rest)
def depthMap : List (Bytes × PVal) → Nat
  | [] => 0
  | (_, v) :: rest => max v.depth (depthMap rest)
end

/-- enough fuel for any message: at most five levels of the mutual recursion per nesting level (exposed oneof) -/
def encFuel (v : PVal) : Nat := 6 * v.depth + 10

def encodeTree (env : Env) (O : Oracle) (root : String) (v : PVal) : Outcome PTree :=
  encRoot env O (encFuel v) root v

/-- `Codec.ProtoToJSON` -/
def encodeBytes (env : Env) (O : Oracle) (root : String) (v : PVal) : Outcome Bytes :=
  match encodeTree env O root v with
  | .ok t => .ok t.render
  | .err e => .err e
  | .panic w => .panic w

end J5V.Codec
