import J5V.Codec.RoundtripProofs
import J5V.Codec.DecodeProofs
import J5V.Codec.FlattenStore
/-!
# Shape of the encoder's tree for values without `j5_json`: nesting depth ≤ fuel, complete

(Placed before the round-trip induction: the protobuf-`Any` case of `RTP_val` needs it for
`popValueAsBytes`.)
-/
namespace J5V.Codec
open J5V.Go J5V.Json

theorem allEnc_mem {α : Type} (g : α → Outcome PTree) :
    ∀ (xs : List α) (ts : List PTree), AllEnc g xs ts → ∀ t ∈ ts, ∃ x ∈ xs, g x = .ok t := by
  intro xs
  induction xs with
  | nil => intro ts h t ht; cases ts with
    | nil => cases ht
    | cons a b => exact absurd h (by simp [AllEnc])
  | cons x xs ih =>
    intro ts h t ht
    cases ts with
    | nil => cases ht
    | cons a b =>
      obtain ⟨hx, hr⟩ := h
      rcases List.mem_cons.mp ht with rfl | ht'
      · exact ⟨x, List.mem_cons_self, hx⟩
      · obtain ⟨y, hy, hg⟩ := ih b hr t ht'
        exact ⟨y, List.mem_cons_of_mem _ hy, hg⟩

theorem allEncMap_mem (g : PVal → Outcome PTree) :
    ∀ (kvs : List (Bytes × PVal)) (es : List (Bytes × Bytes × PTree)), AllEncMap g kvs es →
      ∀ e ∈ es, ∃ kv ∈ kvs, e.1 = kv.1 ∧ appendString kv.1 = .ok e.2.1 ∧ g kv.2 = .ok e.2.2 := by
  intro kvs
  induction kvs with
  | nil => intro es h e he; cases es with
    | nil => cases he
    | cons a b => obtain ⟨x, y, z⟩ := a; exact absurd h (by simp [AllEncMap])
  | cons kv kvs ih =>
    intro es h e he
    obtain ⟨k, v⟩ := kv
    cases es with
    | nil => cases he
    | cons a b =>
      obtain ⟨k', lit, t⟩ := a
      obtain ⟨hk, ha, hg, hr⟩ := h
      rcases List.mem_cons.mp he with rfl | he'
      · exact ⟨(k, v), List.mem_cons_self, hk, ha, hg⟩
      · obtain ⟨kv', hkv', h3⟩ := ih b hr e he'
        exact ⟨kv', List.mem_cons_of_mem _ hkv', h3⟩

theorem allEncProps_mem (g : PropDef → Outcome (Option (Bytes × Bytes × PTree))) :
    ∀ (ps : List PropDef) (es : List (Bytes × Bytes × PTree)), AllEncProps g ps es →
      ∀ e ∈ es, ∃ p ∈ ps, g p = .ok (some e) := by
  intro ps
  induction ps with
  | nil => intro es h e he; simp only [AllEncProps] at h; subst h; cases he
  | cons p ps ih =>
    intro es h e he
    rcases h with ⟨_, hr⟩ | ⟨e0, es', rfl, hg, hr⟩
    · obtain ⟨q, hq, h3⟩ := ih es hr e he
      exact ⟨q, List.mem_cons_of_mem _ hq, h3⟩
    · rcases List.mem_cons.mp he with rfl | he'
      · exact ⟨p, List.mem_cons_self, hg⟩
      · obtain ⟨q, hq, h3⟩ := ih es' hr e he'
        exact ⟨q, List.mem_cons_of_mem _ hq, h3⟩


/-! ## a bound on the nesting depth of the encoder's tree (for `popValueAsBytes`)

The encoder's recursion spends at least one unit of fuel per level of the tree it builds, except
for the `j5_json` chunk of an `Any`, which is inserted as it is. So for a value that holds no
`j5_json` the tree is nested at most as deep as the fuel. -/

mutual
/-- no `j5_json` anywhere in the value -/
def PVal.noJ5 : PVal → Bool
  | .anyJ5 _ _ j5 _ _ inner => j5.isEmpty && inner.noJ5
  | .anyPb _ _ _ _ inner => inner.noJ5
  | .msg fs => noJ5F fs
  | .list xs => noJ5L xs
  | .map kvs => noJ5M kvs
  | _ => true
def noJ5F : List (Nat × PVal) → Bool
  | [] => true
  | (_, v) :: rest => v.noJ5 && noJ5F rest
def noJ5L : List PVal → Bool
  | [] => true
  | v :: rest => v.noJ5 && noJ5L rest
def noJ5M : List (Bytes × PVal) → Bool
  | [] => true
  | (_, v) :: rest => v.noJ5 && noJ5M rest
end

theorem noJ5_aget : ∀ (m : Fields) (k : Nat) (v : PVal), noJ5F m = true → aget k m = some v →
    v.noJ5 = true
  | [], _, _, _, h => by simp [aget] at h
  | (k', v') :: rest, k, v, hm, h => by
    simp only [noJ5F, Bool.and_eq_true] at hm
    simp only [aget] at h
    split at h
    · cases h; exact hm.1
    · exact noJ5_aget rest k v hm.2 h

theorem noJ5_getPath : ∀ (path : List Nat) (m : Fields) (v : PVal), noJ5F m = true →
    getPath m path = some v → v.noJ5 = true
  | [], _, _, _, h => by simp [getPath] at h
  | [k], m, v, hm, h => by simp only [getPath] at h; exact noJ5_aget m k v hm h
  | k :: k2 :: r, m, v, hm, h => by
    rw [getPath_cons2] at h
    split at h
    · next sub hsub =>
      have := noJ5_aget m k _ hm hsub
      simp only [PVal.noJ5] at this
      exact noJ5_getPath (k2 :: r) sub v this h
    · cases h

theorem noJ5_mem_list : ∀ (xs : List PVal) (x : PVal), noJ5L xs = true → x ∈ xs → x.noJ5 = true
  | [], _, _, h => by cases h
  | a :: r, x, hx, h => by
    simp only [noJ5L, Bool.and_eq_true] at hx
    rcases List.mem_cons.mp h with rfl | h'
    · exact hx.1
    · exact noJ5_mem_list r x hx.2 h'

theorem noJ5_mem_map : ∀ (kvs : List (Bytes × PVal)) (kv : Bytes × PVal), noJ5M kvs = true →
    kv ∈ kvs → kv.2.noJ5 = true
  | [], _, _, h => by cases h
  | (k, v) :: r, x, hx, h => by
    simp only [noJ5M, Bool.and_eq_true] at hx
    rcases List.mem_cons.mp h with rfl | h'
    · exact hx.1
    · exact noJ5_mem_map r x hx.2 h'

/-- nested at most `f` deep and complete -/
def Good (t : PTree) (f : Nat) : Prop := t.depth ≤ f ∧ t.complete = true

theorem good_succ {t : PTree} {f : Nat} (h : Good t f) : Good t (f + 1) :=
  ⟨Nat.le_succ_of_le h.1, h.2⟩

theorem membersOf_good (n : Nat) : ∀ (es : List (Bytes × Bytes × PTree)),
    (∀ e ∈ es, Good e.2.2 n) → (membersOf es).depth ≤ n ∧ (membersOf es).complete = true
  | [], _ => by simp [membersOf, PMembers.depth, PMembers.complete]
  | (k, kr, v) :: t, h => by
    have h1 := h (k, kr, v) List.mem_cons_self
    have h2 := membersOf_good n t (fun e he => h e (List.mem_cons_of_mem _ he))
    simp only [membersOf, PMembers.depth, PMembers.complete, Bool.and_eq_true]
    exact ⟨Nat.max_le.mpr ⟨h1.1, h2.1⟩, h1.2, h2.2⟩

theorem elemsOf_good (n : Nat) : ∀ (ts : List PTree), (∀ t ∈ ts, Good t n) →
    (elemsOf ts).depth ≤ n ∧ (elemsOf ts).complete = true
  | [], _ => by simp [elemsOf, PElems.depth, PElems.complete]
  | a :: t, h => by
    have h1 := h a List.mem_cons_self
    have h2 := elemsOf_good n t (fun e he => h e (List.mem_cons_of_mem _ he))
    simp only [elemsOf, PElems.depth, PElems.complete, Bool.and_eq_true]
    exact ⟨Nat.max_le.mpr ⟨h1.1, h2.1⟩, h1.2, h2.2⟩

theorem strNode_good (s : Bytes) (t : PTree) (h : strNode s = .ok t) :
    t.depth = 0 ∧ t.complete = true := by
  unfold strNode at h
  split at h
  · cases h; exact ⟨rfl, rfl⟩
  · cases h
  · cases h

theorem scalarNode_good (O : Oracle) (k : ScalarKind) (v : PVal) (t : PTree)
    (h : scalarNode O k v = .ok t) : t.depth = 0 ∧ t.complete = true := by
  unfold scalarNode at h
  split at h
  · exact strNode_good _ t h
  · cases h
    unfold bareNode
    split
    · exact ⟨rfl, rfl⟩
    · split <;> exact ⟨rfl, rfl⟩
  · cases h
  · cases h

theorem member_depth (name : Bytes) (t : PTree) (e : Bytes × Bytes × PTree)
    (h : member name (.ok t) = .ok (some e)) : e.2.2 = t := by
  obtain ⟨lit, t', _, ht', hr⟩ := member_ok_inv _ _ _ h
  cases ht'; cases hr; rfl

/-- `{k1: a, k2: b}` with a leaf `a` -/
theorem pair_good (k1 l1 k2 l2 : Bytes) (a b : PTree) (f : Nat)
    (ha : a.depth = 0 ∧ a.complete = true) (hb : Good b f) :
    Good (.obj (.cons k1 l1 a (.cons k2 l2 b (.nil .closed)))) (f + 1) := by
  refine ⟨?_, ?_⟩
  · simp only [PTree.depth, PMembers.depth]
    have := hb.1
    omega
  · simp [PTree.complete, PMembers.complete, ha.2, hb.2]

/-- the facts at fuel `f` -/
structure TD (env : Env) (O : Oracle) (f : Nat) : Prop where
  val : ∀ fld v t, v.noJ5 = true → encValue env O f fld v = .ok t → Good t f
  fld : ∀ p m t, noJ5F m = true → encField env O f p m = .ok (some t) → Good t f
  obj : ∀ props m t, noJ5F m = true → encObjectBody env O f props m = .ok t → Good t f
  one : ∀ ops m t, noJ5F m = true → encOneofBody env O f ops m = .ok t → Good t f
  root : ∀ r v t, v.noJ5 = true → encRoot env O f r v = .ok t → Good t f

theorem TD_all (env : Env) (O : Oracle) : ∀ f, TD env O f := by
  intro f
  induction f with
  | zero =>
    refine ⟨?_, ?_, ?_, ?_, ?_⟩
    · intro fld v t _ h; simp [encValue] at h
    · intro p m t _ h; simp [encField] at h
    · intro props m t _ h; simp [encObjectBody] at h
    · intro ops m t _ h; simp [encOneofBody] at h
    · intro r v t _ h; simp [encRoot] at h
  | succ f ih =>
    refine ⟨?_, ?_, ?_, ?_, ?_⟩
    · -- values
      intro fld v t hn h
      cases fld with
      | scalar k =>
        simp only [encValue] at h
        obtain ⟨h1, h2⟩ := scalarNode_good O k v t h
        exact ⟨by rw [h1]; exact Nat.zero_le _, h2⟩
      | «enum» ref =>
        simp only [encValue] at h
        split at h
        · split at h
          · obtain ⟨h1, h2⟩ := strNode_good _ t h
            exact ⟨by rw [h1]; exact Nat.zero_le _, h2⟩
          · cases h
        · cases h
      | object ref =>
        simp only [encValue] at h
        split at h
        · next props fs hfind =>
          exact good_succ (ih.obj props fs t (by simpa [PVal.noJ5] using hn) h)
        · cases h
      | oneof ref =>
        simp only [encValue] at h
        split at h
        · next ops fs hfind =>
          exact good_succ (ih.one ops fs t (by simpa [PVal.noJ5] using hn) h)
        · cases h
      | any pb =>
        simp only [encValue] at h
        cases v <;> simp only [] at h <;> try (cases h)
        case anyJ5 tn proto j5 ik iroot inner =>
          simp only [PVal.noJ5, Bool.and_eq_true] at hn
          split at h
          · next data hdata =>
            have hde : Good data f := by
              split at hdata
              · next hj => simp [hn.1] at hj
              · split at hdata
                · split at hdata
                  · cases hdata
                  · cases hdata
                  · exact ih.root iroot inner data hn.2 hdata
                · cases hdata
            split at h
            · next typeLit tnNode valueLit h1 h2 h3 =>
              cases h
              exact pair_good _ _ _ _ _ _ f (strNode_good _ _ h2) hde
            all_goals cases h
          · cases h
          · cases h
        case anyPb url val ik iroot inner =>
          simp only [PVal.noJ5] at hn
          split at h
          · next data hdata =>
            have hde : Good data f := by
              split at hdata
              · next hj => simp at hj
              · split at hdata
                · split at hdata
                  · cases hdata
                  · cases hdata
                  · exact ih.root iroot inner data hn hdata
                · cases hdata
            split at h
            · next typeLit tnNode valueLit h1 h2 h3 =>
              cases h
              exact pair_good _ _ _ _ _ _ f (strNode_good _ _ h2) hde
            all_goals cases h
          · cases h
          · cases h
      | array item =>
        simp only [encValue] at h
        split at h
        · cases h
        · cases h
        · cases h
        · next xs _ _ _ =>
          cases hr : xs.foldr (fun x acc => consElem (encValue env O f item x) acc)
              (.ok (.nil .closed)) with
          | err e => simp [hr] at h
          | panic w => simp [hr] at h
          | ok es =>
            simp only [hr] at h; cases h
            obtain ⟨ts, hall, rfl⟩ := foldr_consElem_inv _ xs es hr
            have := elemsOf_good f ts (by
              intro t' ht'
              obtain ⟨x, hx, hgx⟩ := allEnc_mem _ xs ts hall t' ht'
              exact ih.val item x t' (noJ5_mem_list xs x (by simpa [PVal.noJ5] using hn) hx) hgx)
            exact ⟨by simp only [PTree.depth]; exact Nat.succ_le_succ this.1,
              by simp only [PTree.complete]; exact this.2⟩
        · cases h
      | map item =>
        simp only [encValue] at h
        split at h
        · cases h
        · cases h
        · cases h
        · next kvs _ _ _ =>
          cases hr : kvs.foldr (fun kv acc =>
              consMember (member kv.1 (encValue env O f item kv.2)) acc) (.ok (.nil .closed)) with
          | err e => simp [hr] at h
          | panic w => simp [hr] at h
          | ok ms =>
            simp only [hr] at h; cases h
            obtain ⟨es, hall, rfl⟩ := foldr_consMember_map_inv _ kvs ms hr
            have := membersOf_good f es (by
              intro e he
              obtain ⟨kv, hkv, _, _, hgx⟩ := allEncMap_mem _ kvs es hall e he
              exact ih.val item kv.2 e.2.2
                (noJ5_mem_map kvs kv (by simpa [PVal.noJ5] using hn) hkv) hgx)
            exact ⟨by simp only [PTree.depth]; exact Nat.succ_le_succ this.1,
              by simp only [PTree.complete]; exact this.2⟩
        · cases h
    · -- a property
      intro p m t hn h
      simp only [encField] at h
      split at h
      · split at h
        · split at h
          · next ops hfind =>
            split at h
            · split at h
              · next t' ht' =>
                cases h
                exact good_succ (ih.one ops m _ hn ht')
              · cases h
              · cases h
            · cases h
          · cases h
        · cases h
      · next path hpath =>
        split at h
        · cases h
        · next v hv =>
          split at h
          · next t' ht' =>
            cases h
            exact good_succ (ih.val p.field v _ (noJ5_getPath _ m v hn hv) ht')
          · cases h
          · cases h
    · -- object body
      intro props m t hn h
      simp only [encObjectBody] at h
      split at h
      · next ms hr =>
        cases h
        obtain ⟨es, hall, rfl⟩ := foldr_consMember_inv _ props ms hr
        have := membersOf_good f es (by
          intro e he
          obtain ⟨p, hp, hgp⟩ := allEncProps_mem _ props es hall e he
          split at hgp
          · cases hgp
          · next q hq =>
            split at hgp
            · cases hgp
            · next t' ht' =>
              rw [member_depth q.jsonName t' e hgp]
              exact ih.fld q m t' hn ht'
            · cases hgp
            · cases hgp)
        exact ⟨by simp only [PTree.depth]; exact Nat.succ_le_succ this.1,
          by simp only [PTree.complete]; exact this.2⟩
      · cases h
      · cases h
    · -- oneof body
      intro ops m t hn h
      simp only [encOneofBody] at h
      split at h
      · cases h
        exact ⟨by simp [PTree.depth, PMembers.depth], by simp [PTree.complete, PMembers.complete]⟩
      · next q0 _ =>
        split at h
        · cases h
        · next q hq =>
          split at h
          · next nameNode hnn =>
            split at h
            · next typeLit htl =>
              split at h
              · next t' ht' =>
                split at h
                · next k kraw v hmem =>
                  cases h
                  have hv : v = t' := member_depth q.jsonName t' (k, kraw, v) hmem
                  rw [hv]
                  exact pair_good _ _ _ _ _ _ f (strNode_good _ _ hnn) (ih.fld q m t' hn ht')
                · cases h
                · cases h
                · cases h
              · cases h
              · cases h
              · cases h
            · cases h
            · cases h
          · cases h
          · cases h
      · cases h
    · -- root
      intro r v t hn h
      simp only [encRoot] at h
      split at h
      · next props fs hfind =>
        exact good_succ (ih.obj props fs t (by simpa [PVal.noJ5] using hn) h)
      · next ops fs hfind =>
        exact good_succ (ih.one ops fs t (by simpa [PVal.noJ5] using hn) h)
      · cases h

mutual
/-- a value a codec `WithProtoToAny` can decode holds no `j5_json` -/
theorem modeOk_noJ5 (F : Nat) : (v : PVal) → (d : Nat) → modeOk true F d v = true → v.noJ5 = true
  | .anyJ5 .., _, h => by simp [modeOk] at h
  | .anyPb a b c e inner, d, h => by
    simp only [modeOk, Bool.and_eq_true] at h
    simp only [PVal.noJ5]
    exact modeOk_noJ5 F inner (d + 1) h.2
  | .msg fs, d, h => by simp only [modeOk] at h; simp only [PVal.noJ5]; exact modeOkF_noJ5 F d fs h
  | .list xs, d, h => by simp only [modeOk] at h; simp only [PVal.noJ5]; exact modeOkL_noJ5 F d xs h
  | .map kvs, d, h => by simp only [modeOk] at h; simp only [PVal.noJ5]; exact modeOkM_noJ5 F d kvs h
  | .bool _, _, _ => rfl
  | .int _, _, _ => rfl
  | .uint _, _, _ => rfl
  | .f32 _, _, _ => rfl
  | .f64 _, _, _ => rfl
  | .str _, _, _ => rfl
  | .bytes _, _, _ => rfl
  | .enum _, _, _ => rfl
  | .ts _ _, _, _ => rfl
  | .date _ _ _, _, _ => rfl
  | .dec _, _, _ => rfl
theorem modeOkF_noJ5 (F d : Nat) : (fs : List (Nat × PVal)) → modeOkF true F d fs = true →
    noJ5F fs = true
  | [], _ => rfl
  | (_, v) :: rest, h => by
    simp only [modeOkF, Bool.and_eq_true] at h
    simp only [noJ5F, Bool.and_eq_true]
    exact ⟨modeOk_noJ5 F v d h.1, modeOkF_noJ5 F d rest h.2⟩
theorem modeOkL_noJ5 (F d : Nat) : (xs : List PVal) → modeOkL true F d xs = true → noJ5L xs = true
  | [], _ => rfl
  | v :: rest, h => by
    simp only [modeOkL, Bool.and_eq_true] at h
    simp only [noJ5L, Bool.and_eq_true]
    exact ⟨modeOk_noJ5 F v d h.1, modeOkL_noJ5 F d rest h.2⟩
theorem modeOkM_noJ5 (F d : Nat) : (kvs : List (Bytes × PVal)) → modeOkM true F d kvs = true →
    noJ5M kvs = true
  | [], _ => rfl
  | (_, v) :: rest, h => by
    simp only [modeOkM, Bool.and_eq_true] at h
    simp only [noJ5M, Bool.and_eq_true]
    exact ⟨modeOk_noJ5 F v d h.1, modeOkM_noJ5 F d rest h.2⟩
end

end J5V.Codec
