import J5V.Codec.Scalar
import J5V.Json.Tree
/-!
# Decoder: mirror of `/repo/internal/codec/decoder.go` over `lib/j5reflect`
(`property.CreateField`, `propSet.GetProperty/NewValue/buildValue`, `scalarField.SetGoValue`,
`enumField.SetFromString`, `arrayOf…Field.AppendGoValue/NewObjectElement`,
`mapOf…Field.SetGoValue/SetEnum/NewObjectElement`, `anyField.SetJ5Any`).

The Go decoder is a recursive descent over `json.Decoder.Token()/More()`; the model is the same
descent over the partial tree `readDoc bytes` (`J5V.Json.Tree`), which presents the token stream
in the order the decoder consumes it, so every function is **structurally recursive** on the tree:
termination and the step bound of C06 hold by construction.

Partial Go operations on the way are explicit `.panic` arms. After the repairs da8a625
(`foundKeys[0]`), 1330ca4 (`List.Append` / `Map.Set` of an invalid `protoreflect.Value`) and
b7a2948 (integer string arms) the only one left is `newFieldFactory`'s
`panic("invalid schema for leaf field")` for an array / map whose item is itself an array or map
(excluded by `Env.WF`: proto has no such fields).

The decoder state of one property set is the message being filled (`Fields`) and `seen`, the JSON
names whose `property.hasValue` flag is set (`CreateField` fails with "already set" on the second).
-/
namespace J5V.Codec
open J5V.Go J5V.Json

structure Cfg where
  env : Env
  O : Oracle
  /-- `WithProtoToAny()` -/
  protoToAny : Bool := false
  /-- `decoder.anyDepth`: the number of `Any` values this document is nested inside (309b762) -/
  anyDepth : Nat := 0

/-- `maxAnyDepth` (309b762): with `WithProtoToAny` an `Any` nested this deep is rejected instead of
being expanded (the expansion costs time cubic in the nesting depth) -/
def maxAnyDepth : Nat := 100

/-- one property set being decoded -/
structure PS where
  m : Fields
  seen : List Bytes
  deriving Inhabited

/-- `json.Token` of a scalar tree node -/
def goTok : PTree → Option GoTok
  | .str s _ => some (.str s)
  | .num t => some (.num t)
  | .bool b => some (.bool b)
  | .null => some .null
  | _ => none

/-- `property.CreateField()`: the `hasValue` flag check, then `buildValue(create = true)`'s check
that no other member of the final field's proto oneof is set (25c97b7). The remaining checks of
`buildValue` / `buildProperty` (empty path, item schema) follow at the call sites, in Go's order. -/
def createField (props : List PropDef) (p : PropDef) (st : PS) : Outcome PS :=
  if st.seen.contains p.jsonName then .err "already set"
  else if groupBusy props p st.m then .err "another member of the proto oneof is already set"
  else .ok { st with seen := p.jsonName :: st.seen }

/-- `expectDelim(closer)` after a member / element loop -/
def closeOk (t : Term) : Bool := t == .closed

/-- `oneof.NewValue(name)` → `buildOrCreate`: the `Mutable` walk of `buildValue(create = true)`.
Messages on the way are created; a message-valued final field (object / oneof / any) is created
empty (which also selects it in its proto oneof); a scalar or enum final field is not touched. -/
def touchProp (props : List PropDef) (p : PropDef) (m : Fields) : Fields :=
  let rec go (pfx : List Nat) : List Nat → Fields → Fields
    | [], m => m
    | [k], m =>
      match p.field with
      | .object _ | .oneof _ =>
        setLeaf p.pres k (.msg (PVal.asMsg (aget k m))) (clearGroup props pfx p.group k m)
      | .any pb =>
        match aget k m with
        | some _ => m
        | none =>
          setLeaf p.pres k (if pb then .anyPb [] [] .none "" (.msg []) else .anyJ5 [] [] [] .none "" (.msg []))
            (clearGroup props pfx p.group k m)
      | _ => m
    | k :: rest, m => aset k (.msg (go (pfx ++ [k]) rest (PVal.asMsg (aget k m)))) m
  go [] p.path m

/-- the oneof post-checks of `decodeOneofInner` (after the member loop); `some p` = the arm that
`"!type"` alone selected (`oneof.NewValue`) -/
def oneofPost (ops : List PropDef) (found : List Bytes) (ct : Option Bytes) (m : Fields) :
    Outcome (Option PropDef) :=
  match found with
  | [] =>
    match ct with
    | none => .ok none
    | some name =>
      match findProp ops name with
      | none => .err "no such key"
      | some p =>
        match p.path, p.field with
        | [], .oneof _ => .ok none
        | [], _ => .err "no such key"
        | _, _ =>
          -- `oneof.NewValue` → `buildValue(create = true)`: the proto-oneof check (25c97b7)
          if groupBusy ops p m then .err "no such key" else .ok (some p)
  | [k] =>
    match ct with
    | some name => if k = name then .ok none else .err "key does not match type"
    | none => .ok none
  | _ => .err "multiple keys found in oneof"

/-- apply the outcome of `oneofPost` to the oneof's message -/
def applyPost (ops : List PropDef) (t : Option PropDef) (m : Fields) : Fields :=
  match t with
  | some p => touchProp ops p m
  | none => m

/-- accumulator of `decodeAny`'s member loop -/
structure AnyAcc where
  valueBytes : Option Bytes := none
  /-- mode `p`: the outcome of decoding the value into the type named by the final `"!type"` -/
  inner : Outcome (Option (String × Fields)) := .ok none
  ct : Option Bytes := none

/-- the `"!type"` the loop ends with, if all `"!type"` members are strings (otherwise the loop
fails anyway) -/
def finalType : PMembers → Option Bytes → Option Bytes
  | .nil _, acc => acc
  | .cons k _ v rest, acc =>
    if k = typeKeyB then
      match v with
      | .str s _ => finalType rest (some s)
      | _ => finalType rest acc
    else finalType rest acc
where typeKeyB : Bytes := ascii "!type"

/-- the tail of `decodeObject` after the member loop: `expectDelim('}')` -/
def finishObject (r : Outcome (PS × Term)) : Outcome Fields :=
  match r with
  | .ok (r, term) => if closeOk term then .ok r.m else .err "token"
  | .err e => .err e
  | .panic w => .panic w

/-- the tail of `decodeOneof` after the member loop: post-checks, then `expectDelim('}')` -/
def finishOneof (ops : List PropDef)
    (r : Outcome (PS × List Bytes × Option Bytes × Term)) : Outcome Fields :=
  match r with
  | .ok (r, found, ct, term) =>
    if term == .errIn then .err "token" else
    match oneofPost ops found ct r.m with
    | .ok tp => if closeOk term then .ok (applyPost ops tp r.m) else .err "token"
    | .err e => .err e
    | .panic w => .panic w
  | .err e => .err e
  | .panic w => .panic w

def anyPrefixB : Bytes := ascii "type.googleapis.com/"

def pathErr : String := "Reflection Bug: no proto field and not a oneof"

/-- `decodeScalar(prop)` -/
def decScalarProp (c : Cfg) (props : List PropDef) (p : PropDef) (k : ScalarKind) (t : PTree)
    (st : PS) : Outcome PS :=
  match t with
  | .bad => .err "token"
  | .raw _ => .err "token"
  | .null => .ok st
  | _ =>
    (createField props p st).bind fun st1 =>
      if p.path.isEmpty then .err pathErr else
      match goTok t with
      | none => .err "unexpected token, expected scalar"
      | some tok =>
        (decodeScalar c.O k tok).bind fun v => .ok { st1 with m := updPath props p v st1.m }

/-- `decodeEnum(prop)` -/
def decEnumProp (c : Cfg) (props : List PropDef) (p : PropDef) (ref : String) (t : PTree)
    (st : PS) : Outcome PS :=
  match t with
  | .bad => .err "token"
  | .raw _ => .err "token"
  | .null => .ok st
  | _ =>
    (createField props p st).bind fun st1 =>
      if p.path.isEmpty then .err pathErr else
      match t, c.env.find ref with
      | .str s _, some (.enum pfx opts) =>
        match enumOptionByName pfx opts s with
        | some n => .ok { st1 with m := updPath props p (some (.enum n)) st1.m }
        | none => .err "enum value not found"
      | _, _ => .err "unexpected token, expected string"

/-- the message a nested object / wrapper oneof is decoded into (`Mutable` of the field) -/
def subStart (p : PropDef) (st1 : PS) : PS := { m := PVal.asMsg (getPath st1.m p.path), seen := [] }

/-- tail of `decodeObjectProperty` after the member loop -/
def finishObjectProp (props : List PropDef) (p : PropDef) (st1 : PS) (r : Outcome (PS × Term)) :
    Outcome PS :=
  r.bind fun (r, term) =>
    if closeOk term then .ok { st1 with m := updPath props p (some (.msg r.m)) st1.m }
    else .err "token"

/-- an exposed oneof (empty path) is a view of the same message -/
def oneofStart (p : PropDef) (st1 : PS) : PS :=
  { m := if p.path.isEmpty then st1.m else PVal.asMsg (getPath st1.m p.path), seen := [] }

/-- tail of `decodeOneofProperty` after the member loop: post-checks, closer, store -/
def finishOneofProp (ops props : List PropDef) (p : PropDef) (st1 : PS)
    (r : Outcome (PS × List Bytes × Option Bytes × Term)) : Outcome PS :=
  r.bind fun (r, found, ct, term) =>
    if term == .errIn then .err "token" else
    (oneofPost ops found ct r.m).bind fun tp =>
      if closeOk term then
        let rm := applyPost ops tp r.m
        .ok { st1 with m := if p.path.isEmpty then rm else updPath props p (some (.msg rm)) st1.m }
      else .err "token"

/-- tail of `decodeAny` after the member loop -/
def finishAnyProp (c : Cfg) (props : List PropDef) (p : PropDef) (pb : Bool) (st1 : PS)
    (r : Outcome (AnyAcc × Term)) : Outcome PS :=
  r.bind fun (acc, term) =>
    if term == .errIn then .err "token" else
    match acc.ct, acc.valueBytes with
    | none, _ => .err "no type found in Any"
    | some _, none => .err "no value found in Any"
    | some tn, some vb =>
      (if c.protoToAny then acc.inner else .ok none).bind fun inner =>
        let (ik, iroot, ival) : InnerKind × String × PVal :=
          match inner with
          | some (r, fs) => if fs.isEmpty then (.none, "", .msg []) else (.inn, r, .msg fs)
          | none => (.none, "", .msg [])
        if pb then
          -- pbAnyImpl.setAny: "proto is required"
          if inner.isNone then .err "proto is required for PB Any type"
          else if closeOk term then
            let av : PVal := .anyPb (anyPrefixB ++ tn) [] ik iroot ival
            .ok { st1 with m := updPath props p (some av) st1.m }
          else .err "token"
        else if closeOk term then
          .ok { st1 with m := updPath props p (some (.anyJ5 tn [] vb ik iroot ival)) st1.m }
        else .err "token"

/-- `buildProperty` for an array / map: which item schemas `newLeaf…Field` / `newMessage…Field` /
`newFieldFactory` accept -/
def itemCheck (item : Field) : Outcome Unit :=
  match item with
  | .array _ => .panic "invalid schema for leaf field"
  | .map _ => .panic "invalid schema for leaf field"
  | .any _ => .err "unsupported item schema"
  | _ => .ok ()

def listStart (p : PropDef) (st1 : PS) : List PVal :=
  match getPath st1.m p.path with
  | some (.list l) => l
  | _ => []

def mapStart (p : PropDef) (st1 : PS) : List (Bytes × PVal) :=
  match getPath st1.m p.path with
  | some (.map l) => l
  | _ => []

def finishArrayProp (props : List PropDef) (p : PropDef) (st1 : PS)
    (r : Outcome (List PVal × Term)) : Outcome PS :=
  r.bind fun (l, term) =>
    if closeOk term then .ok { st1 with m := updPath props p (some (.list l)) st1.m }
    else .err "token"

def finishMapProp (props : List PropDef) (p : PropDef) (st1 : PS)
    (r : Outcome (List (Bytes × PVal) × Term)) : Outcome PS :=
  r.bind fun (l, term) =>
    if closeOk term then .ok { st1 with m := updPath props p (some (.map l)) st1.m }
    else .err "token"

mutual
/-- `decodeValue(prop)` for property `p` of the property set `props`, at tree `t` -/
def decProp (c : Cfg) (props : List PropDef) (p : PropDef) (t : PTree) (st : PS) : Outcome PS :=
  match p.field with
  | .scalar k => decScalarProp c props p k t st
  | .enum ref => decEnumProp c props p ref t st
  | .object ref =>
    -- decodeObjectProperty
    match t with
    | .null => .ok st
    | .obj ms =>
      (createField props p st).bind fun st1 =>
        if p.path.isEmpty then .err pathErr else
        match c.env.find ref with
        | some (.object sub) => finishObjectProp props p st1 (decObjMembers c sub ms (subStart p st1))
        | _ => .err "object ref"
    | _ => .err "unexpected token, expected {"
  | .oneof ref =>
    -- decodeOneofProperty
    match t with
    | .null => .ok st
    | .obj ms =>
      (createField props p st).bind fun st1 =>
        match c.env.find ref with
        | some (.oneof ops) =>
          finishOneofProp ops props p st1 (decOneofMembers c ops ms (oneofStart p st1) [] none)
        | _ => .err "oneof ref"
    | _ => .err "unexpected token, expected {"
  | .any pb =>
    -- decodeAny
    match t with
    | .null => .ok st
    | .obj ms =>
      (createField props p st).bind fun st1 =>
        if p.path.isEmpty then .err pathErr else
        finishAnyProp c props p pb st1 (decAnyMembers c (finalType ms none) ms {})
    | _ => .err "unexpected token, expected {"
  | .array item =>
    -- decodeArrayProperty
    match t with
    | .null => .ok st
    | .arr xs =>
      (createField props p st).bind fun st1 =>
        if p.path.isEmpty then .err pathErr else
        (itemCheck item).bind fun _ =>
          finishArrayProp props p st1 (decElems c item xs (listStart p st1))
    | _ => .err "unexpected token, expected ["
  | .map item =>
    -- decodeMapProperty
    match t with
    | .null => .ok st
    | .obj ms =>
      (createField props p st).bind fun st1 =>
        if p.path.isEmpty then .err pathErr else
        (itemCheck item).bind fun _ =>
          finishMapProp props p st1 (decMapMembers c item ms (mapStart p st1))
    | _ => .err "unexpected token, expected {"

/-- `decodeObjectInner`: the `jsonObjectBody` loop over the members of an object -/
def decObjMembers (c : Cfg) (props : List PropDef) (ms : PMembers) (st : PS) :
    Outcome (PS × Term) :=
  match ms with
  | .nil term => if term == .errIn then .err "token" else .ok (st, term)
  | .cons k _ v rest =>
    match findProp props k with
    | none => .err "no such field"
    | some p =>
      match decProp c props p v st with
      | .ok st1 => decObjMembers c props rest st1
      | .err e => .err e
      | .panic w => .panic w

/-- the member loop of `decodeOneofInner`; `found` = `foundKeys` (in order), `ct` = `constrainType`.
An `errIn` terminator is reported to the caller (it fails before the post-checks). -/
def decOneofMembers (c : Cfg) (ops : List PropDef) (ms : PMembers) (st : PS)
    (found : List Bytes) (ct : Option Bytes) : Outcome (PS × List Bytes × Option Bytes × Term) :=
  match ms with
  | .nil term => .ok (st, found, ct, term)
  | .cons k _ v rest =>
    if k = ascii "!type" then
      match v with
      | .str s _ => decOneofMembers c ops rest st found (some s)
      | _ => .err "unexpected token, expected string"
    else
      match findProp ops k with
      | none => .err "no such key"
      | some p =>
        match decProp c ops p v st with
        | .ok st1 => decOneofMembers c ops rest st1 (found ++ [k]) ct
        | .err e => .err e
        | .panic w => .panic w

/-- the member loop of `decodeAny`. `ftype` is the `"!type"` the loop will end with (needed to
decode the value when it is met, which keeps the recursion structural; the outcome is only used
after the loop, as in Go). -/
def decAnyMembers (c : Cfg) (ftype : Option Bytes) (ms : PMembers) (acc : AnyAcc) :
    Outcome (AnyAcc × Term) :=
  match ms with
  | .nil term => .ok (acc, term)
  | .cons k _ v rest =>
    if k = ascii "!type" then
      match v with
      | .str s _ => decAnyMembers c ftype rest { acc with ct := some s }
      | _ => .err "unexpected token, expected string"
    else if k ≠ ascii "value" then .err "no such field"
    else if acc.valueBytes.isSome then .err "multiple keys found in Any"
    else
      match popValueAsBytes v with
      | none => .err "value"
      | some vb =>
        let inner : Outcome (Option (String × Fields)) :=
          match ftype with
          | none => .ok none
          | some tn =>
            if c.anyDepth ≥ maxAnyDepth then .err "Any values are nested too deeply" else
            match c.env.resolve tn with
            | none => .err "no type in registry"
            | some root =>
              match decRootTree { c with anyDepth := c.anyDepth + 1 } root v with
              | .ok fs => .ok (some (root, fs))
              | .err e => .err e
              | .panic w => .panic w
        decAnyMembers c ftype rest { acc with valueBytes := some vb, inner := inner }

/-- the element loop of `decodeArrayProperty` (`decodeArrayFieldValue` per element) -/
def decElems (c : Cfg) (item : Field) (xs : PElems) (acc : List PVal) :
    Outcome (List PVal × Term) :=
  match xs with
  | .nil term => if term == .errIn then .err "token" else .ok (acc, term)
  | .cons v rest =>
    match item with
    | .scalar k =>
      match goTok v with
      | none => .err "unexpected token, expected scalar"
      | some tok =>
        match decodeScalar c.O k tok with
        | .ok (some pv) => decElems c item rest (acc ++ [pv])
        | .ok none => .err "cannot append a nil value"
        | .err e => .err e
        | .panic w => .panic w
    | .enum ref =>
      match v, c.env.find ref with
      | .str s _, some (.enum pfx opts) =>
        match enumOptionByName pfx opts s with
        | some n => decElems c item rest (acc ++ [.enum n])
        | none => .err "enum value not found"
      | _, _ => .err "cannot set enum value"
    | .object ref =>
      match c.env.find ref with
      | some (.object sub) =>
        match decObject c sub v with
        | .ok fs => decElems c item rest (acc ++ [.msg fs])
        | .err e => .err e
        | .panic w => .panic w
      | _ => .err "object ref"
    | .oneof ref =>
      match c.env.find ref with
      | some (.oneof ops) =>
        match decOneof c ops v with
        | .ok fs => decElems c item rest (acc ++ [.msg fs])
        | .err e => .err e
        | .panic w => .panic w
      | _ => .err "oneof ref"
    | _ => .err "unknown array schema type"

/-- the member loop of `decodeMapField` -/
def decMapMembers (c : Cfg) (item : Field) (ms : PMembers) (acc : List (Bytes × PVal)) :
    Outcome (List (Bytes × PVal) × Term) :=
  match ms with
  | .nil term => if term == .errIn then .err "token" else .ok (acc, term)
  | .cons k _ v rest =>
    match item with
    | .scalar sk =>
      match goTok v with
      | none => .err "unexpected token, expected scalar"
      | some tok =>
        match decodeScalar c.O sk tok with
        | .ok (some pv) =>
          if (mget k acc).isSome then .err "key already exists in map"
          else decMapMembers c item rest (mset k pv acc)
        | .ok none => .err "cannot set a nil value"
        | .err e => .err e
        | .panic w => .panic w
    | .enum ref =>
      match v, c.env.find ref with
      | .str s _, some (.enum pfx opts) =>
        match enumOptionByName pfx opts s with
        | some n =>
          if (mget k acc).isSome then .err "key already exists in map"
          else decMapMembers c item rest (mset k (.enum n) acc)
        | none => .err "enum value not found"
      | _, _ => .err "unexpected token, expected string"
    | .object ref =>
      if (mget k acc).isSome then .err "key already exists in map" else
      match c.env.find ref with
      | some (.object sub) =>
        match decObject c sub v with
        | .ok fs => decMapMembers c item rest (mset k (.msg fs) acc)
        | .err e => .err e
        | .panic w => .panic w
      | _ => .err "object ref"
    | .oneof ref =>
      if (mget k acc).isSome then .err "key already exists in map" else
      match c.env.find ref with
      | some (.oneof ops) =>
        match decOneof c ops v with
        | .ok fs => decMapMembers c item rest (mset k (.msg fs) acc)
        | .err e => .err e
        | .panic w => .panic w
      | _ => .err "oneof ref"
    | _ => .err "unknown map schema type"

/-- `decodeObject`: `expectDelim('{')`, `decodeObjectInner`, `expectDelim('}')` into a fresh message -/
def decObject (c : Cfg) (props : List PropDef) (t : PTree) : Outcome Fields :=
  match t with
  | .obj ms => finishObject (decObjMembers c props ms { m := [], seen := [] })
  | _ => .err "unexpected token, expected {"

/-- `decodeOneof` into a fresh message -/
def decOneof (c : Cfg) (ops : List PropDef) (t : PTree) : Outcome Fields :=
  match t with
  | .obj ms => finishOneof ops (decOneofMembers c ops ms { m := [], seen := [] } [] none)
  | _ => .err "unexpected token, expected {"

/-- `Codec.decode` = `NewRoot` + `decodeRoot` on a fresh message -/
def decRootTree (c : Cfg) (root : String) (t : PTree) : Outcome Fields :=
  match c.env.find root with
  | some (.object props) =>
    match t with
    | .obj ms => finishObject (decObjMembers c props ms { m := [], seen := [] })
    | _ => .err "unexpected token, expected {"
  | some (.oneof ops) =>
    match t with
    | .obj ms => finishOneof ops (decOneofMembers c ops ms { m := [], seen := [] } [] none)
    | _ => .err "unexpected token, expected {"
  | _ => .err "unsupported root schema type"
end

/-- `Codec.JSONToProto(bytes, fresh message of root)` -/
def decodeBytes (c : Cfg) (root : String) (bs : Bytes) : Outcome Fields :=
  decRootTree c root (readDoc bs)

end J5V.Codec
