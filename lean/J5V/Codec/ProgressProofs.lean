import J5V.Codec.EncTreeProofs
/-!
# Encoding a representable message succeeds (C01, first half of the statement)
-/
namespace J5V.Codec
open J5V.Go J5V.Json

/-! ## depth bounds -/

theorem depthFields_mem (fs : List (Nat × PVal)) (k : Nat) (v : PVal) (h : (k, v) ∈ fs) :
    v.depth ≤ depthFields fs := by
  induction fs with
  | nil => cases h
  | cons kv t ih =>
    obtain ⟨k', v'⟩ := kv
    simp only [depthFields]
    rcases List.mem_cons.mp h with heq | h'
    · cases heq; exact Nat.le_max_left _ _
    · exact Nat.le_trans (ih h') (Nat.le_max_right _ _)

theorem depthList_mem (xs : List PVal) (v : PVal) (h : v ∈ xs) : v.depth ≤ depthList xs := by
  induction xs with
  | nil => cases h
  | cons a t ih =>
    simp only [depthList]
    rcases List.mem_cons.mp h with rfl | h'
    · exact Nat.le_max_left _ _
    · exact Nat.le_trans (ih h') (Nat.le_max_right _ _)

theorem depthMap_mem (kvs : List (Bytes × PVal)) (k : Bytes) (v : PVal) (h : (k, v) ∈ kvs) :
    v.depth ≤ depthMap kvs := by
  induction kvs with
  | nil => cases h
  | cons kv t ih =>
    obtain ⟨k', v'⟩ := kv
    simp only [depthMap]
    rcases List.mem_cons.mp h with heq | h'
    · cases heq; exact Nat.le_max_left _ _
    · exact Nat.le_trans (ih h') (Nat.le_max_right _ _)

/-! ## folds of successes succeed -/

theorem foldr_consElem_ok {α : Type} (g : α → Outcome PTree) (xs : List α)
    (h : ∀ x ∈ xs, ∃ t, g x = .ok t) :
    ∃ es, xs.foldr (fun x acc => consElem (g x) acc) (.ok (.nil .closed)) = .ok es := by
  induction xs with
  | nil => exact ⟨_, rfl⟩
  | cons x xs ih =>
    obtain ⟨t, ht⟩ := h x List.mem_cons_self
    obtain ⟨es, hes⟩ := ih (fun y hy => h y (List.mem_cons_of_mem _ hy))
    exact ⟨.cons t es, by rw [List.foldr_cons, hes, ht]; rfl⟩

theorem foldr_consMember_ok {α : Type} (g : α → Outcome (Option (Bytes × Bytes × PTree)))
    (xs : List α) (h : ∀ x ∈ xs, ∃ r, g x = .ok r) :
    ∃ ms, xs.foldr (fun x acc => consMember (g x) acc) (.ok (.nil .closed)) = .ok ms := by
  induction xs with
  | nil => exact ⟨_, rfl⟩
  | cons x xs ih =>
    obtain ⟨r, hr⟩ := h x List.mem_cons_self
    obtain ⟨ms, hms⟩ := ih (fun y hy => h y (List.mem_cons_of_mem _ hy))
    cases r with
    | none => exact ⟨ms, by rw [List.foldr_cons, hms, hr]; rfl⟩
    | some e =>
      obtain ⟨k, kr, t⟩ := e
      exact ⟨.cons k kr t ms, by rw [List.foldr_cons, hms, hr]; rfl⟩

theorem member_ok (name : Bytes) (t : PTree) (h : isValidUtf8 name = true) :
    ∃ e, member name (.ok t) = .ok (some e) := by
  obtain ⟨lit, hl⟩ := (appendString_total name).2.1 h
  exact ⟨(name, lit, t), by simp [member, hl]⟩

theorem mapOk_mem (env : Env) (O : Oracle) (item : Field) :
    ∀ (kvs : List (Bytes × PVal)) (seen : List Bytes), mapOk env O item seen kvs = true →
      ∀ kv ∈ kvs, isValidUtf8 kv.1 = true ∧ valOk env O item kv.2 = true := by
  intro kvs
  induction kvs with
  | nil => intro _ _ kv h; cases h
  | cons a t ih =>
    intro seen hok kv hkv
    obtain ⟨k, v⟩ := a
    obtain ⟨_, hu, hv, hrest⟩ := mapOk_cons _ _ _ _ _ _ _ hok
    rcases List.mem_cons.mp hkv with rfl | h'
    · exact ⟨hu, hv⟩
    · exact ih _ hrest kv h'

/-- encoding succeeds at every fuel that covers three levels per nesting level -/
structure PR (env : Env) (O : Oracle) (f : Nat) : Prop where
  val : ∀ fld v, fieldSimple fld = true → valOk env O fld v = true → 3 * v.depth + 1 ≤ f →
    ∃ t, encValue env O f fld v = .ok t
  obj : ∀ props fs, rootSimple (.object props) = true →
    (∀ p ∈ props, isValidUtf8 p.jsonName = true) → fieldsOk env O props fs = true →
    3 * depthFields fs + 3 ≤ f → ∃ t, encObjectBody env O f props fs = .ok t
  one : ∀ ops fs, rootSimple (.oneof ops) = true →
    (∀ p ∈ ops, isValidUtf8 p.jsonName = true) → fieldsOk env O ops fs = true → fs.length ≤ 1 →
    3 * depthFields fs + 3 ≤ f → ∃ t, encOneofBody env O f ops fs = .ok t

end J5V.Codec

namespace J5V.Codec
open J5V.Go J5V.Json

theorem itemSimple_field (item : Field) (h : itemSimple item = true) : fieldSimple item = true := by
  cases item <;> simp [itemSimple] at h <;> rfl

theorem PR_val (env : Env) (O : Oracle) (hs : env.simple = true) (L : OracleLaws O) (f : Nat)
    (ih : ∀ f' < f + 1, PR env O f') :
    ∀ fld v, fieldSimple fld = true → valOk env O fld v = true → 3 * v.depth + 1 ≤ f + 1 →
      ∃ t, encValue env O (f + 1) fld v = .ok t := by
  intro fld v hfs hok hd
  cases fld with
  | scalar k =>
    obtain ⟨t, _, ht, _⟩ := scalarNode_roundtrip O L k v (valOk_scalar _ _ k v hok)
    exact ⟨t, by simp only [encValue]; exact ht⟩
  | «enum» ref =>
    obtain ⟨n, pfx, opts, rfl, hfind, hsome⟩ := valOk_enum _ _ ref v hok
    cases hn : optionByNumber opts n with
    | none => simp [hn] at hsome
    | some name =>
      have hroot := find_rootSimple env hs ref _ hfind
      simp only [rootSimple, Bool.and_eq_true, decide_eq_true_eq] at hroot
      obtain ⟨o, hom, hon⟩ := optionByNumber_mem opts n name hn
      have hutf : isValidUtf8 name = true := by
        have := List.all_eq_true.mp hroot.2 o hom
        rw [← hon]; exact this
      obtain ⟨lit, hl⟩ := strNode_ok name hutf
      exact ⟨_, by simp only [encValue, hfind, hn]; exact hl⟩
  | object ref =>
    obtain ⟨fs, props, rfl, hfind, _, hfok⟩ := valOk_object _ _ ref v hok
    simp only [PVal.depth] at hd
    obtain ⟨t, ht⟩ := (ih f (Nat.lt_succ_self f)).obj props fs (find_rootSimple env hs ref _ hfind)
      (find_names_utf8 env hs ref props (Or.inl hfind)) hfok (by omega)
    exact ⟨t, by simp only [encValue, hfind]; exact ht⟩
  | oneof ref =>
    obtain ⟨fs, ops, rfl, hfind, _, hfok, hlen⟩ := valOk_oneof _ _ ref v hok
    simp only [PVal.depth] at hd
    obtain ⟨t, ht⟩ := (ih f (Nat.lt_succ_self f)).one ops fs (find_rootSimple env hs ref _ hfind)
      (find_names_utf8 env hs ref ops (Or.inr hfind)) hfok hlen (by omega)
    exact ⟨t, by simp only [encValue, hfind]; exact ht⟩
  | any pb => simp [fieldSimple] at hfs
  | array item =>
    obtain ⟨xs, rfl, hlok⟩ := valOk_array _ _ item v hok
    have hi : itemSimple item = true := by simpa [fieldSimple] using hfs
    simp only [PVal.depth] at hd
    obtain ⟨es, hes⟩ := foldr_consElem_ok (encValue env O f item) xs (by
      intro x hx
      have hdx := depthList_mem xs x hx
      exact (ih f (Nat.lt_succ_self f)).val item x (itemSimple_field item hi)
        (listOk_mem _ _ item xs hlok x hx) (by omega))
    refine ⟨.arr es, ?_⟩
    simp only [encValue]
    cases item <;> simp only [itemSimple, Bool.false_eq_true] at hi <;> simp only [hes]
  | map item =>
    obtain ⟨kvs, rfl, hmok⟩ := valOk_map _ _ item v hok
    have hi : itemSimple item = true := by simpa [fieldSimple] using hfs
    simp only [PVal.depth] at hd
    obtain ⟨ms, hms⟩ := foldr_consMember_ok
      (fun kv : Bytes × PVal => member kv.1 (encValue env O f item kv.2)) kvs (by
      intro kv hkv
      have hdx := depthMap_mem kvs kv.1 kv.2 hkv
      obtain ⟨hu, hv⟩ := mapOk_mem _ _ item kvs [] hmok kv hkv
      obtain ⟨t, ht⟩ := (ih f (Nat.lt_succ_self f)).val item kv.2 (itemSimple_field item hi) hv
        (by omega)
      obtain ⟨e, he⟩ := member_ok kv.1 t hu
      exact ⟨some e, by rw [ht]; exact he⟩)
    refine ⟨.obj ms, ?_⟩
    simp only [encValue]
    cases item <;> simp only [itemSimple, Bool.false_eq_true] at hi <;> simp only [hms]

theorem PR_obj (env : Env) (O : Oracle) (hs : env.simple = true) (L : OracleLaws O) (f : Nat)
    (ih : ∀ f' < f + 1, PR env O f') :
    ∀ props fs, rootSimple (.object props) = true →
      (∀ p ∈ props, isValidUtf8 p.jsonName = true) → fieldsOk env O props fs = true →
      3 * depthFields fs + 3 ≤ f + 1 → ∃ t, encObjectBody env O (f + 1) props fs = .ok t := by
  intro props fs hroot hutf hfok hd
  simp only [rootSimple, Bool.and_eq_true, decide_eq_true_eq] at hroot
  obtain ⟨⟨hall, hnames⟩, hpaths⟩ := hroot
  have hsimple : ∀ p ∈ props, propSimple p = true := by
    intro p hp
    have := List.all_eq_true.mp hall p hp
    simp only [Bool.and_eq_true] at this; exact this.1
  obtain ⟨f', rfl⟩ : ∃ f', f = f' + 1 := ⟨f - 1, by omega⟩
  obtain ⟨ms, hms⟩ := foldr_consMember_ok (objMember env O (f' + 1) props fs) props (by
    intro p hp
    obtain ⟨k, hpk⟩ := propSimple_path p (hsimple p hp)
    unfold objMember
    rw [findProp_self props hnames p hp]
    simp only []
    rw [encField_single env O f' p k fs hpk]
    cases hag : aget k fs with
    | none => exact ⟨none, rfl⟩
    | some v =>
      simp only []
      obtain ⟨p', hfp, hvok, _⟩ := fieldsOk_mem _ _ props fs hfok k v (aget_mem k v fs hag)
      have hpp : p' = p := by
        have := findPath_self props hpaths p hp
        rw [hpk] at this
        rw [this] at hfp; cases hfp; rfl
      subst hpp
      have hdv := depthFields_mem fs k v (aget_mem k v fs hag)
      obtain ⟨t, ht⟩ := (ih f' (by omega)).val p'.field v (propSimple_field p' (hsimple p' hp)) hvok
        (by omega)
      rw [ht]
      obtain ⟨e, he⟩ := member_ok p'.jsonName t (hutf p' hp)
      exact ⟨some e, he⟩)
  refine ⟨.obj ms, ?_⟩
  simp only [encObjectBody]
  show (match props.foldr (fun p acc => consMember (objMember env O (f' + 1) props fs p) acc)
        (.ok (.nil .closed)) with
      | .ok ms => Outcome.ok (PTree.obj ms)
      | .err e => .err e
      | .panic w => .panic w) = .ok (.obj ms)
  rw [hms]

theorem PR_one (env : Env) (O : Oracle) (hs : env.simple = true) (L : OracleLaws O) (f : Nat)
    (ih : ∀ f' < f + 1, PR env O f') :
    ∀ ops fs, rootSimple (.oneof ops) = true →
      (∀ p ∈ ops, isValidUtf8 p.jsonName = true) → fieldsOk env O ops fs = true → fs.length ≤ 1 →
      3 * depthFields fs + 3 ≤ f + 1 → ∃ t, encOneofBody env O (f + 1) ops fs = .ok t := by
  intro ops fs hroot hutf hfok hlen hd
  simp only [rootSimple, Bool.and_eq_true, decide_eq_true_eq, Bool.not_eq_true'] at hroot
  obtain ⟨⟨⟨hall, hnames⟩, hpaths⟩, _⟩ := hroot
  have hsimple : ∀ p ∈ ops, propSimple p = true := fun p hp => List.all_eq_true.mp hall p hp
  have hpred : ∀ q ∈ ops, oneofSet env (f + 1) ops fs q =
      (match q.path with | [k] => (aget k fs).isSome | _ => false) := by
    intro q hq
    unfold oneofSet
    rw [findProp_self ops hnames q hq]
    obtain ⟨k, hk⟩ := propSimple_path q (hsimple q hq)
    simp only [hasProp_single env f q k fs hk, hk]
  simp only [encOneofBody]
  rw [List.filter_congr hpred]
  cases fs with
  | nil =>
    have hnil : ops.filter (fun q => match q.path with | [k] => (aget k ([] : Fields)).isSome | _ => false) = [] := by
      apply List.filter_eq_nil_iff.mpr
      intro q _
      split <;> simp [aget]
    rw [hnil]
    exact ⟨_, rfl⟩
  | cons kv rest =>
    obtain ⟨k, v⟩ := kv
    have hrest : rest = [] := by
      cases rest with
      | nil => rfl
      | cons a b => simp at hlen
    subst hrest
    obtain ⟨p, hfp, hvok, _⟩ := fieldsOk_mem _ _ ops _ hfok k v List.mem_cons_self
    have hpm := List.mem_of_find?_eq_some hfp
    have hpk : p.path = [k] := by simpa using List.find?_some hfp
    have hfilt : ops.filter (fun q => match q.path with | [k'] => (aget k' [(k, v)]).isSome | _ => false) = [p] := by
      rw [← filter_unique (·.path) ops hpaths p hpm]
      apply List.filter_congr
      intro q hq
      obtain ⟨kq, hkq⟩ := propSimple_path q (hsimple q hq)
      simp only [hkq, hpk, aget]
      by_cases hk : kq = k
      · simp [hk]
      · simp [hk]
    rw [hfilt]
    simp only [findProp_self ops hnames p hpm]
    obtain ⟨nlit, hnl⟩ := strNode_ok p.jsonName (hutf p hpm)
    obtain ⟨tlit, htl⟩ := typeKey_lit
    simp only [hnl, htl]
    simp only [depthFields] at hd
    obtain ⟨f', rfl⟩ : ∃ f', f = f' + 1 := ⟨f - 1, by omega⟩
    rw [encField_single env O f' p k _ hpk]
    simp only [aget, if_true]
    obtain ⟨t', ht'⟩ := (ih f' (by omega)).val p.field v (propSimple_field p (hsimple p hpm)) hvok
      (by have := Nat.le_max_left v.depth 0; omega)
    simp only [ht']
    obtain ⟨e, he⟩ := member_ok p.jsonName t' (hutf p hpm)
    obtain ⟨ek, ekr, ev⟩ := e
    simp only [he]
    exact ⟨_, rfl⟩

theorem PR_all (env : Env) (O : Oracle) (hs : env.simple = true) (L : OracleLaws O) :
    ∀ f, PR env O f := by
  intro f
  induction f using Nat.strongRecOn with
  | _ f ih =>
    cases f with
    | zero =>
      refine ⟨?_, ?_, ?_⟩
      · intro fld v _ _ h; omega
      · intro props fs _ _ _ h; omega
      · intro ops fs _ _ _ _ h; omega
    | succ f => exact ⟨PR_val env O hs L f ih, PR_obj env O hs L f ih, PR_one env O hs L f ih⟩

/-- **encoding a representable message of a simple environment succeeds** -/
theorem encode_ok (env : Env) (O : Oracle) (hs : env.simple = true) (L : OracleLaws O)
    (root : String) (m : Fields)
    (hok : valOk env O (.object root) (.msg m) = true ∨ valOk env O (.oneof root) (.msg m) = true) :
    ∃ bs, encodeBytes env O root (.msg m) = .ok bs := by
  have key : ∃ t, encodeTree env O root (.msg m) = .ok t := by
    unfold encodeTree encFuel
    simp only [PVal.depth]
    rcases hok with hok | hok
    · obtain ⟨fs, props, hv, hfind, _, hfok⟩ := valOk_object _ _ root _ hok
      cases hv
      obtain ⟨t, ht⟩ := (PR_all env O hs L (6 * (depthFields m + 1) + 9)).obj props m
        (find_rootSimple env hs root _ hfind) (find_names_utf8 env hs root props (Or.inl hfind))
        hfok (by omega)
      exact ⟨t, by
        show encRoot env O (6 * (depthFields m + 1) + 9 + 1) root (.msg m) = .ok t
        simp only [encRoot, hfind]; exact ht⟩
    · obtain ⟨fs, ops, hv, hfind, _, hfok, hlen⟩ := valOk_oneof _ _ root _ hok
      cases hv
      obtain ⟨t, ht⟩ := (PR_all env O hs L (6 * (depthFields m + 1) + 9)).one ops m
        (find_rootSimple env hs root _ hfind) (find_names_utf8 env hs root ops (Or.inr hfind))
        hfok hlen (by omega)
      exact ⟨t, by
        show encRoot env O (6 * (depthFields m + 1) + 9 + 1) root (.msg m) = .ok t
        simp only [encRoot, hfind]; exact ht⟩
  obtain ⟨t, ht⟩ := key
  exact ⟨t.render, by simp [encodeBytes, ht]⟩

end J5V.Codec
