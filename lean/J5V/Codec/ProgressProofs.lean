import J5V.Codec.EncTreeProofs
/-!
# Encoding a representable message succeeds (C01, first half of the statement)

Progress is part of the fuel induction `RTP` (`J5V.Codec.RoundtripInd`): this file only restates it.
-/
namespace J5V.Codec
open J5V.Go J5V.Json

/-- **encoding a representable message of a flat environment succeeds** -/
theorem encode_ok (c : Cfg) (hs : c.env.flat = true) (L : OracleLaws c.O)
    (hC : c.env.noAny = true ∨ ChunkLaws c.O) (root : String) (m : Fields)
    (hok : valOk c.env c.O (.object root) (.msg m) = true ∨ valOk c.env c.O (.oneof root) (.msg m) = true)
    (hM : ∃ mode, modeOkF mode (6 * (depthFields m + 1) + 9) 0 m = true) :
    ∃ bs, encodeBytes c.env c.O root (.msg m) = .ok bs := by
  obtain ⟨mode, hM⟩ := hM
  obtain ⟨bs, hbs, _⟩ := roundtrip_bytes { c with protoToAny := mode, anyDepth := 0 } hs L hC root m hok hM
  exact ⟨bs, hbs⟩

end J5V.Codec
