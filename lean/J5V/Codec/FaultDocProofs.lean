import J5V.Codec.Doc
import J5V.Codec.FaultProofs
/-!
# A document with a fault is rejected (C03): `FaultRoot c root t → decRootTree c root t = .err _`

At any nesting position, whatever surrounds the fault.
-/
namespace J5V.Codec
open J5V.Go J5V.Json

/-- the outcome is not a success -/
def NotOk {α} (o : Outcome α) : Prop := ∀ a, o ≠ .ok a

theorem NotOk_err {α} (e : String) : NotOk (Outcome.err e : Outcome α) := by intro a h; cases h
theorem NotOk_panic {α} (w : String) : NotOk (Outcome.panic w : Outcome α) := by intro a h; cases h

theorem NotOk_bind_left {α β} (x : Outcome α) (f : α → Outcome β) (h : NotOk x) : NotOk (x.bind f) := by
  cases x with
  | ok a => exact absurd rfl (h a)
  | err e => exact NotOk_err e
  | panic w => exact NotOk_panic w

theorem NotOk_bind {α β} (x : Outcome α) (f : α → Outcome β) (h : ∀ a, x = .ok a → NotOk (f a)) :
    NotOk (x.bind f) := by
  cases x with
  | ok a => exact h a rfl
  | err e => exact NotOk_err e
  | panic w => exact NotOk_panic w

theorem err_of_notOk_np {α} (o : Outcome α) (h1 : NotOk o) (h2 : NP o) : ∃ e, o = .err e := by
  cases o with
  | ok a => exact absurd rfl (h1 a)
  | err e => exact ⟨e, rfl⟩
  | panic w => exact absurd rfl (h2 w)

/-! ## `seen` only grows, and a non-null value marks its property -/

theorem findProp_name (props : List PropDef) (k : Bytes) (p : PropDef) (h : findProp props k = some p) :
    p.jsonName = k := by
  unfold findProp at h
  simpa using List.find?_some h

theorem createField_seen (props : List PropDef) (p : PropDef) (st st1 : PS)
    (h : createField props p st = .ok st1) : st1.seen = p.jsonName :: st.seen ∧ st1.m = st.m := by
  unfold createField at h
  split at h
  · cases h
  · split at h
    · cases h
    · cases h; exact ⟨rfl, rfl⟩

/-- a successful non-null `decodeValue(prop)` leaves `prop` marked as set, and never unmarks -/
theorem decProp_seen (c : Cfg) (props : List PropDef) (p : PropDef) (t : PTree) (st st' : PS)
    (h : decProp c props p t st = .ok st') :
    (∀ x ∈ st.seen, x ∈ st'.seen) ∧ (t ≠ .null → p.jsonName ∈ st'.seen) := by
  -- every arm is: `null → ok st`, or `createField` followed by a tail that keeps `seen`
  have key : ∀ (tail : PS → Outcome PS), (∀ s1 s2, tail s1 = .ok s2 → s2.seen = s1.seen) →
      (createField props p st).bind tail = .ok st' →
      (∀ x ∈ st.seen, x ∈ st'.seen) ∧ p.jsonName ∈ st'.seen := by
    intro tail htail hb
    cases hcf : createField props p st with
    | ok st1 =>
      rw [hcf] at hb
      simp only [Outcome.bind] at hb
      obtain ⟨hs, _⟩ := createField_seen props p st st1 hcf
      have := htail st1 st' hb
      rw [this, hs]
      exact ⟨fun x hx => List.mem_cons_of_mem _ hx, List.mem_cons_self⟩
    | err e => rw [hcf] at hb; simp [Outcome.bind] at hb
    | panic w => rw [hcf] at hb; simp [Outcome.bind] at hb
  unfold decProp at h
  split at h
  · -- scalar
    unfold decScalarProp at h
    split at h
    · cases h
    · cases h
    · cases h; exact ⟨fun x hx => hx, fun hn => absurd rfl hn⟩
    · have := key _ (by
        intro s1 s2 hs
        split at hs
        · cases hs
        · split at hs
          · cases hs
          · cases hd : decodeScalar c.O _ _ with
            | ok v => rw [hd] at hs; simp only [Outcome.bind] at hs; cases hs; rfl
            | err e => rw [hd] at hs; simp [Outcome.bind] at hs
            | panic w => rw [hd] at hs; simp [Outcome.bind] at hs) h
      exact ⟨this.1, fun _ => this.2⟩
  · -- enum
    unfold decEnumProp at h
    split at h
    · cases h
    · cases h
    · cases h; exact ⟨fun x hx => hx, fun hn => absurd rfl hn⟩
    · have := key _ (by
        intro s1 s2 hs
        split at hs
        · cases hs
        · split at hs
          · split at hs
            · cases hs; rfl
            · cases hs
          · cases hs) h
      exact ⟨this.1, fun _ => this.2⟩
  · -- object
    split at h
    · cases h; exact ⟨fun x hx => hx, fun hn => absurd rfl hn⟩
    · have := key _ (by
        intro s1 s2 hs
        split at hs
        · cases hs
        · split at hs
          · unfold finishObjectProp at hs
            cases hr : decObjMembers c _ _ (subStart p s1) with
            | ok a =>
              rw [hr] at hs; simp only [Outcome.bind] at hs
              split at hs
              · cases hs; rfl
              · cases hs
            | err e => rw [hr] at hs; simp [Outcome.bind] at hs
            | panic w => rw [hr] at hs; simp [Outcome.bind] at hs
          · cases hs) h
      exact ⟨this.1, fun _ => this.2⟩
    · cases h
  · -- oneof
    split at h
    · cases h; exact ⟨fun x hx => hx, fun hn => absurd rfl hn⟩
    · have := key _ (by
        intro s1 s2 hs
        split at hs
        · unfold finishOneofProp at hs
          cases hr : decOneofMembers c _ _ (oneofStart p s1) [] none with
          | ok a =>
            rw [hr] at hs; simp only [Outcome.bind] at hs
            split at hs
            · cases hs
            · cases hpost : oneofPost _ a.2.1 a.2.2.1 a.1.m with
              | ok tp =>
                rw [hpost] at hs; simp only [Outcome.bind] at hs
                split at hs
                · cases hs; rfl
                · cases hs
              | err e => rw [hpost] at hs; simp [Outcome.bind] at hs
              | panic w => rw [hpost] at hs; simp [Outcome.bind] at hs
          | err e => rw [hr] at hs; simp [Outcome.bind] at hs
          | panic w => rw [hr] at hs; simp [Outcome.bind] at hs
        · cases hs) h
      exact ⟨this.1, fun _ => this.2⟩
    · cases h
  · -- any
    split at h
    · cases h; exact ⟨fun x hx => hx, fun hn => absurd rfl hn⟩
    · have := key _ (by
        intro s1 s2 hs
        split at hs
        · cases hs
        · unfold finishAnyProp at hs
          cases hr : decAnyMembers c _ _ ({} : AnyAcc) with
          | ok a =>
            rw [hr] at hs; simp only [Outcome.bind] at hs
            split at hs
            · cases hs
            · split at hs
              · cases hs
              · cases hs
              · cases hin : (if c.protoToAny = true then a.1.inner else Outcome.ok none) with
                | ok inner =>
                  rw [hin] at hs; simp only [Outcome.bind] at hs
                  split at hs
                  · split at hs
                    · cases hs
                    · split at hs
                      · cases hs; rfl
                      · cases hs
                  · split at hs
                    · cases hs; rfl
                    · cases hs
                | err e => rw [hin] at hs; simp [Outcome.bind] at hs
                | panic w => rw [hin] at hs; simp [Outcome.bind] at hs
          | err e => rw [hr] at hs; simp [Outcome.bind] at hs
          | panic w => rw [hr] at hs; simp [Outcome.bind] at hs) h
      exact ⟨this.1, fun _ => this.2⟩
    · cases h
  · -- array
    split at h
    · cases h; exact ⟨fun x hx => hx, fun hn => absurd rfl hn⟩
    · have := key _ (by
        intro s1 s2 hs
        split at hs
        · cases hs
        · cases hic : itemCheck _ with
          | ok u =>
            rw [hic] at hs; simp only [Outcome.bind] at hs
            unfold finishArrayProp at hs
            cases hr : decElems c _ _ (listStart p s1) with
            | ok a =>
              rw [hr] at hs; simp only [Outcome.bind] at hs
              split at hs
              · cases hs; rfl
              · cases hs
            | err e => rw [hr] at hs; simp [Outcome.bind] at hs
            | panic w => rw [hr] at hs; simp [Outcome.bind] at hs
          | err e => rw [hic] at hs; simp [Outcome.bind] at hs
          | panic w => rw [hic] at hs; simp [Outcome.bind] at hs) h
      exact ⟨this.1, fun _ => this.2⟩
    · cases h
  · -- map
    split at h
    · cases h; exact ⟨fun x hx => hx, fun hn => absurd rfl hn⟩
    · have := key _ (by
        intro s1 s2 hs
        split at hs
        · cases hs
        · cases hic : itemCheck _ with
          | ok u =>
            rw [hic] at hs; simp only [Outcome.bind] at hs
            unfold finishMapProp at hs
            cases hr : decMapMembers c _ _ (mapStart p s1) with
            | ok a =>
              rw [hr] at hs; simp only [Outcome.bind] at hs
              split at hs
              · cases hs; rfl
              · cases hs
            | err e => rw [hr] at hs; simp [Outcome.bind] at hs
            | panic w => rw [hr] at hs; simp [Outcome.bind] at hs
          | err e => rw [hic] at hs; simp [Outcome.bind] at hs
          | panic w => rw [hic] at hs; simp [Outcome.bind] at hs) h
      exact ⟨this.1, fun _ => this.2⟩
    · cases h

end J5V.Codec
