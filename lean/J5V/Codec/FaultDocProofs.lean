import J5V.Codec.Doc
import J5V.Codec.FaultProofs
/-!
# A document with a fault is rejected (C03): `FaultRoot c root t → decRootTree c root t = .err _`

At any nesting position, whatever surrounds the fault.
-/
namespace J5V.Codec
open J5V.Go J5V.Json

/-- the outcome is not a success -/
def NotOk {α} (o : Outcome α) : Prop := ∀ a, o ≠ .ok a

theorem NotOk_err {α} (e : String) : NotOk (Outcome.err e : Outcome α) := by intro a h; cases h
theorem NotOk_panic {α} (w : String) : NotOk (Outcome.panic w : Outcome α) := by intro a h; cases h

theorem NotOk_bind_left {α β} (x : Outcome α) (f : α → Outcome β) (h : NotOk x) : NotOk (x.bind f) := by
  cases x with
  | ok a => exact absurd rfl (h a)
  | err e => exact NotOk_err e
  | panic w => exact NotOk_panic w

theorem NotOk_bind {α β} (x : Outcome α) (f : α → Outcome β) (h : ∀ a, x = .ok a → NotOk (f a)) :
    NotOk (x.bind f) := by
  cases x with
  | ok a => exact h a rfl
  | err e => exact NotOk_err e
  | panic w => exact NotOk_panic w

theorem err_of_notOk_np {α} (o : Outcome α) (h1 : NotOk o) (h2 : NP o) : ∃ e, o = .err e := by
  cases o with
  | ok a => exact absurd rfl (h1 a)
  | err e => exact ⟨e, rfl⟩
  | panic w => exact absurd rfl (h2 w)

/-! ## `seen` only grows, and a non-null value marks its property -/

theorem findProp_name (props : List PropDef) (k : Bytes) (p : PropDef) (h : findProp props k = some p) :
    p.jsonName = k := by
  unfold findProp at h
  simpa using List.find?_some h

theorem createField_seen (props : List PropDef) (p : PropDef) (st st1 : PS)
    (h : createField props p st = .ok st1) : st1.seen = p.jsonName :: st.seen ∧ st1.m = st.m := by
  unfold createField at h
  split at h
  · cases h
  · split at h
    · cases h
    · cases h; exact ⟨rfl, rfl⟩

/-- a successful non-null `decodeValue(prop)` leaves `prop` marked as set, and never unmarks -/
theorem decProp_seen (c : Cfg) (props : List PropDef) (p : PropDef) (t : PTree) (st st' : PS)
    (h : decProp c props p t st = .ok st') :
    (∀ x ∈ st.seen, x ∈ st'.seen) ∧ (t ≠ .null → p.jsonName ∈ st'.seen) := by
  -- every arm is: `null → ok st`, or `createField` followed by a tail that keeps `seen`
  have key : ∀ (tail : PS → Outcome PS), (∀ s1 s2, tail s1 = .ok s2 → s2.seen = s1.seen) →
      (createField props p st).bind tail = .ok st' →
      (∀ x ∈ st.seen, x ∈ st'.seen) ∧ p.jsonName ∈ st'.seen := by
    intro tail htail hb
    cases hcf : createField props p st with
    | ok st1 =>
      rw [hcf] at hb
      simp only [Outcome.bind] at hb
      obtain ⟨hs, _⟩ := createField_seen props p st st1 hcf
      have := htail st1 st' hb
      rw [this, hs]
      exact ⟨fun x hx => List.mem_cons_of_mem _ hx, List.mem_cons_self⟩
    | err e => rw [hcf] at hb; simp [Outcome.bind] at hb
    | panic w => rw [hcf] at hb; simp [Outcome.bind] at hb
  unfold decProp at h
  split at h
  · -- scalar
    unfold decScalarProp at h
    split at h
    · cases h
    · cases h
    · cases h; exact ⟨fun x hx => hx, fun hn => absurd rfl hn⟩
    · have := key _ (by
        intro s1 s2 hs
        split at hs
        · cases hs
        · split at hs
          · cases hs
          · cases hd : decodeScalar c.O _ _ with
            | ok v => rw [hd] at hs; simp only [Outcome.bind] at hs; cases hs; rfl
            | err e => rw [hd] at hs; simp [Outcome.bind] at hs
            | panic w => rw [hd] at hs; simp [Outcome.bind] at hs) h
      exact ⟨this.1, fun _ => this.2⟩
  · -- enum
    unfold decEnumProp at h
    split at h
    · cases h
    · cases h
    · cases h; exact ⟨fun x hx => hx, fun hn => absurd rfl hn⟩
    · have := key _ (by
        intro s1 s2 hs
        split at hs
        · cases hs
        · split at hs
          · split at hs
            · cases hs; rfl
            · cases hs
          · cases hs) h
      exact ⟨this.1, fun _ => this.2⟩
  · -- object
    split at h
    · cases h; exact ⟨fun x hx => hx, fun hn => absurd rfl hn⟩
    · have := key _ (by
        intro s1 s2 hs
        split at hs
        · cases hs
        · split at hs
          · unfold finishObjectProp at hs
            cases hr : decObjMembers c _ _ (subStart p s1) with
            | ok a =>
              rw [hr] at hs; simp only [Outcome.bind] at hs
              split at hs
              · cases hs; rfl
              · cases hs
            | err e => rw [hr] at hs; simp [Outcome.bind] at hs
            | panic w => rw [hr] at hs; simp [Outcome.bind] at hs
          · cases hs) h
      exact ⟨this.1, fun _ => this.2⟩
    · cases h
  · -- oneof
    split at h
    · cases h; exact ⟨fun x hx => hx, fun hn => absurd rfl hn⟩
    · have := key _ (by
        intro s1 s2 hs
        split at hs
        · unfold finishOneofProp at hs
          cases hr : decOneofMembers c _ _ (oneofStart p s1) [] none with
          | ok a =>
            rw [hr] at hs; simp only [Outcome.bind] at hs
            split at hs
            · cases hs
            · cases hpost : oneofPost _ a.2.1 a.2.2.1 a.1.m with
              | ok tp =>
                rw [hpost] at hs; simp only [Outcome.bind] at hs
                split at hs
                · cases hs; rfl
                · cases hs
              | err e => rw [hpost] at hs; simp [Outcome.bind] at hs
              | panic w => rw [hpost] at hs; simp [Outcome.bind] at hs
          | err e => rw [hr] at hs; simp [Outcome.bind] at hs
          | panic w => rw [hr] at hs; simp [Outcome.bind] at hs
        · cases hs) h
      exact ⟨this.1, fun _ => this.2⟩
    · cases h
  · -- any
    split at h
    · cases h; exact ⟨fun x hx => hx, fun hn => absurd rfl hn⟩
    · have := key _ (by
        intro s1 s2 hs
        split at hs
        · cases hs
        · unfold finishAnyProp at hs
          cases hr : decAnyMembers c _ _ ({} : AnyAcc) with
          | ok a =>
            rw [hr] at hs; simp only [Outcome.bind] at hs
            split at hs
            · cases hs
            · split at hs
              · cases hs
              · cases hs
              · cases hin : (if c.protoToAny = true then a.1.inner else Outcome.ok none) with
                | ok inner =>
                  rw [hin] at hs; simp only [Outcome.bind] at hs
                  split at hs
                  · split at hs
                    · cases hs
                    · split at hs
                      · cases hs; rfl
                      · cases hs
                  · split at hs
                    · cases hs; rfl
                    · cases hs
                | err e => rw [hin] at hs; simp [Outcome.bind] at hs
                | panic w => rw [hin] at hs; simp [Outcome.bind] at hs
          | err e => rw [hr] at hs; simp [Outcome.bind] at hs
          | panic w => rw [hr] at hs; simp [Outcome.bind] at hs) h
      exact ⟨this.1, fun _ => this.2⟩
    · cases h
  · -- array
    split at h
    · cases h; exact ⟨fun x hx => hx, fun hn => absurd rfl hn⟩
    · have := key _ (by
        intro s1 s2 hs
        split at hs
        · cases hs
        · cases hic : itemCheck _ with
          | ok u =>
            rw [hic] at hs; simp only [Outcome.bind] at hs
            unfold finishArrayProp at hs
            cases hr : decElems c _ _ (listStart p s1) with
            | ok a =>
              rw [hr] at hs; simp only [Outcome.bind] at hs
              split at hs
              · cases hs; rfl
              · cases hs
            | err e => rw [hr] at hs; simp [Outcome.bind] at hs
            | panic w => rw [hr] at hs; simp [Outcome.bind] at hs
          | err e => rw [hic] at hs; simp [Outcome.bind] at hs
          | panic w => rw [hic] at hs; simp [Outcome.bind] at hs) h
      exact ⟨this.1, fun _ => this.2⟩
    · cases h
  · -- map
    split at h
    · cases h; exact ⟨fun x hx => hx, fun hn => absurd rfl hn⟩
    · have := key _ (by
        intro s1 s2 hs
        split at hs
        · cases hs
        · cases hic : itemCheck _ with
          | ok u =>
            rw [hic] at hs; simp only [Outcome.bind] at hs
            unfold finishMapProp at hs
            cases hr : decMapMembers c _ _ (mapStart p s1) with
            | ok a =>
              rw [hr] at hs; simp only [Outcome.bind] at hs
              split at hs
              · cases hs; rfl
              · cases hs
            | err e => rw [hr] at hs; simp [Outcome.bind] at hs
            | panic w => rw [hr] at hs; simp [Outcome.bind] at hs
          | err e => rw [hic] at hs; simp [Outcome.bind] at hs
          | panic w => rw [hic] at hs; simp [Outcome.bind] at hs) h
      exact ⟨this.1, fun _ => this.2⟩
    · cases h

end J5V.Codec

namespace J5V.Codec
open J5V.Go J5V.Json

theorem decodeScalar_null_not_some (O : Oracle) (k : ScalarKind) (pv : PVal) :
    decodeScalar O k .null ≠ .ok (some pv) := by
  cases k <;> simp [decodeScalar]

/-! ## duplicate keys -/

theorem dup_rejected (c : Cfg) (props : List PropDef) (k : Bytes) :
    ∀ (rest : PMembers) (st : PS), k ∈ st.seen → hasNonNull k rest →
      NotOk (decObjMembers c props rest st)
  | .nil _, _, _, h => by simp [hasNonNull] at h
  | .cons k' kr v rest, st, hseen, h => by
    unfold decObjMembers
    cases hf : findProp props k' with
    | none => exact NotOk_err _
    | some p =>
      simp only []
      have hname := findProp_name props k' p hf
      cases hd : decProp c props p v st with
      | err e => exact NotOk_err _
      | panic w => exact NotOk_panic _
      | ok st1 =>
        simp only []
        simp only [hasNonNull] at h
        rcases h with ⟨hk, hv⟩ | h
        · exfalso
          subst hk
          obtain ⟨e, he⟩ := duplicate_key c props p v st (by rw [hname]; exact hseen) hv
          rw [he] at hd; cases hd
        · exact dup_rejected c props k rest st1 ((decProp_seen c props p v st st1 hd).1 k hseen) h
termination_by rest => sizeOf rest

/-! ## what the oneof loop hands to the post-checks -/

theorem decOneofMembers_found (c : Cfg) (ops : List PropDef) :
    ∀ (ms : PMembers) (st : PS) (found : List Bytes) (ct : Option Bytes) (st' : PS)
      (found' : List Bytes) (ct' : Option Bytes) (term : Term),
      decOneofMembers c ops ms st found ct = .ok (st', found', ct', term) →
      found' = found ++ oneofKeys ms ∧ ct' = finalType ms ct
  | .nil t, st, found, ct, st', found', ct', term, h => by
    simp only [decOneofMembers] at h; cases h
    simp [oneofKeys, finalType]
  | .cons k kr v rest, st, found, ct, st', found', ct', term, h => by
    unfold decOneofMembers at h
    by_cases hk : k = ascii "!type"
    · rw [if_pos hk] at h
      cases v with
      | str s raw =>
        simp only [] at h
        obtain ⟨h1, h2⟩ := decOneofMembers_found c ops rest _ _ _ _ _ _ _ h
        refine ⟨by rw [h1]; simp [oneofKeys, hk], ?_⟩
        rw [h2]; simp [finalType, finalType.typeKeyB, hk]
      | _ => simp at h
    · rw [if_neg hk] at h
      cases hf : findProp ops k with
      | none => simp [hf] at h
      | some p =>
        simp only [hf] at h
        cases hd : decProp c ops p v st with
        | ok st1 =>
          simp only [hd] at h
          obtain ⟨h1, h2⟩ := decOneofMembers_found c ops rest _ _ _ _ _ _ _ h
          refine ⟨by rw [h1]; simp [oneofKeys, hk], ?_⟩
          rw [h2]; simp [finalType, finalType.typeKeyB, hk]
        | err e => simp [hd] at h
        | panic w => simp [hd] at h
termination_by ms => sizeOf ms

theorem oneofPost_fault (ops : List PropDef) (ms : PMembers) (m : Fields) (h : FaultOneofPost ops ms) :
    NotOk (oneofPost ops ([] ++ oneofKeys ms) (finalType ms none) m) := by
  unfold FaultOneofPost at h
  simp only [List.nil_append]
  cases hk : oneofKeys ms with
  | nil =>
    rw [hk] at h
    cases hct : finalType ms none with
    | none => rw [hct] at h; exact absurd h (by simp)
    | some name =>
      rw [hct] at h
      obtain ⟨e, he⟩ := oneof_type_unknown ops name m h
      rw [he]; exact NotOk_err _
  | cons k t =>
    cases t with
    | nil =>
      rw [hk] at h
      cases hct : finalType ms none with
      | none => rw [hct] at h; exact absurd h (by simp)
      | some name =>
        rw [hct] at h
        obtain ⟨e, he⟩ := oneof_type_mismatch ops k name m h
        rw [he]; exact NotOk_err _
    | cons k2 t2 =>
      obtain ⟨e, he⟩ := oneof_multiple_keys ops k k2 t2 (finalType ms none) m
      rw [he]; exact NotOk_err _

end J5V.Codec

namespace J5V.Codec
open J5V.Go J5V.Json

/-! ## the fault is rejected, at any depth -/

/-- closes `NotOk` goals whose head is an error -/
macro "notok_err" : tactic => `(tactic| first | exact NotOk_err _ | exact NotOk_panic _)

mutual
/-- a faulty value is rejected as the value of a property, whatever the decoder state -/
theorem faultV_prop (c : Cfg) (props : List PropDef) (p : PropDef) (t : PTree)
    (h : FaultV c p.field t) (st : PS) : NotOk (decProp c props p t st) := by
  unfold decProp
  cases hfld : p.field with
  | scalar k =>
    simp only []
    unfold decScalarProp
    rw [hfld] at h
    cases t with
    | null => simp [FaultV] at h
    | bad => exact NotOk_err _
    | raw bs => exact NotOk_err _
    | obj ms => simp only []; apply NotOk_bind; intro st1 _; split <;> notok_err
    | arr xs => simp only []; apply NotOk_bind; intro st1 _; split <;> notok_err
    | str s raw =>
      simp only [FaultV, goTok] at h ⊢
      obtain ⟨e, he⟩ := h
      apply NotOk_bind; intro st1 _
      split
      · notok_err
      · rw [he]; exact NotOk_err _
    | num x =>
      simp only [FaultV, goTok] at h ⊢
      obtain ⟨e, he⟩ := h
      apply NotOk_bind; intro st1 _
      split
      · notok_err
      · rw [he]; exact NotOk_err _
    | bool b =>
      simp only [FaultV, goTok] at h ⊢
      obtain ⟨e, he⟩ := h
      apply NotOk_bind; intro st1 _
      split
      · notok_err
      · rw [he]; exact NotOk_err _
  | «enum» ref =>
    simp only []
    unfold decEnumProp
    rw [hfld] at h
    cases t with
    | null => simp [FaultV] at h
    | bad => exact NotOk_err _
    | raw bs => exact NotOk_err _
    | str s raw =>
      simp only [FaultV] at h ⊢
      apply NotOk_bind; intro st1 _
      split
      · notok_err
      · cases hf : c.env.find ref with
        | none => simp only []; notok_err
        | some r =>
          cases r with
          | «enum» pfx opts =>
            rw [hf] at h
            simp only [] at h ⊢
            rw [h]; exact NotOk_err _
          | _ => simp only []; notok_err
    | _ =>
      simp only []
      apply NotOk_bind; intro st1 _
      split
      · notok_err
      · notok_err
  | object ref =>
    simp only []
    rw [hfld] at h
    cases t with
    | null => simp [FaultV] at h
    | obj ms =>
      simp only [FaultV] at h ⊢
      apply NotOk_bind; intro st1 _
      split
      · notok_err
      · cases hf : c.env.find ref with
        | none => simp only []; notok_err
        | some r =>
          cases r with
          | object sub =>
            rw [hf] at h
            simp only [] at h ⊢
            unfold finishObjectProp
            apply NotOk_bind
            intro a ha
            obtain ⟨r, term⟩ := a
            simp only []
            split
            · next hc =>
              exfalso
              have : term = .closed := by simpa [closeOk] using hc
              subst this
              exact faultM_members c sub ms h _ r ha
            · notok_err
          | _ => simp only []; notok_err
    | _ => simp only []; notok_err
  | oneof ref =>
    simp only []
    rw [hfld] at h
    cases t with
    | null => simp [FaultV] at h
    | obj ms =>
      simp only [FaultV] at h ⊢
      apply NotOk_bind; intro st1 _
      cases hf : c.env.find ref with
      | none => simp only []; notok_err
      | some r =>
        cases r with
        | oneof ops =>
          rw [hf] at h
          simp only [] at h ⊢
          unfold finishOneofProp
          apply NotOk_bind
          intro a ha
          obtain ⟨r, found, ct, term⟩ := a
          simp only []
          split
          · notok_err
          · obtain ⟨hfound, hct⟩ := decOneofMembers_found c ops ms _ _ _ _ _ _ _ ha
            apply NotOk_bind
            intro tp htp
            split
            · next hc =>
              exfalso
              have hterm : term = .closed := by simpa [closeOk] using hc
              subst hterm
              rcases h with h | h
              · exact faultO_members c ops ms h _ _ _ r found ct ha
              · rw [hfound, hct] at htp
                exact oneofPost_fault ops ms r.m h tp htp
            · notok_err
        | _ => simp only []; notok_err
    | _ => simp only []; notok_err
  | any pb =>
    simp only []
    rw [hfld] at h
    cases t with
    | null => simp [FaultV] at h
    | obj ms => simp [FaultV] at h
    | _ => simp only []; notok_err
  | array item =>
    simp only []
    rw [hfld] at h
    cases t with
    | null => simp [FaultV] at h
    | arr xs =>
      simp only [FaultV] at h ⊢
      apply NotOk_bind; intro st1 _
      split
      · notok_err
      · apply NotOk_bind; intro _ _
        unfold finishArrayProp
        apply NotOk_bind
        intro a ha
        obtain ⟨l, term⟩ := a
        simp only []
        split
        · next hc =>
          exfalso
          have : term = .closed := by simpa [closeOk] using hc
          subst this
          exact faultE_elems c item xs h _ l ha
        · notok_err
    | _ => simp only []; notok_err
  | map item =>
    simp only []
    rw [hfld] at h
    cases t with
    | null => simp [FaultV] at h
    | obj ms =>
      simp only [FaultV] at h ⊢
      apply NotOk_bind; intro st1 _
      split
      · notok_err
      · apply NotOk_bind; intro _ _
        unfold finishMapProp
        apply NotOk_bind
        intro a ha
        obtain ⟨l, term⟩ := a
        simp only []
        split
        · next hc =>
          exfalso
          have : term = .closed := by simpa [closeOk] using hc
          subst this
          exact faultMap_members c item ms h _ l ha
        · notok_err
    | _ => simp only []; notok_err
termination_by sizeOf t

/-- the members of an object with a fault never end in a closed, successful loop -/
theorem faultM_members (c : Cfg) (props : List PropDef) (ms : PMembers) (h : FaultM c props ms)
    (st : PS) : ∀ r, decObjMembers c props ms st ≠ .ok (r, .closed) := by
  intro r
  cases ms with
  | nil term =>
    simp only [FaultM] at h
    unfold decObjMembers
    split
    · intro hc; cases hc
    · intro hc; cases hc; exact h rfl
  | cons k kr v rest =>
    simp only [FaultM] at h
    unfold decObjMembers
    cases hf : findProp props k with
    | none => intro hc; cases hc
    | some p =>
      simp only []
      cases hd : decProp c props p v st with
      | err e => intro hc; cases hc
      | panic w => intro hc; cases hc
      | ok st1 =>
        simp only []
        rcases h with h | ⟨p', hp', hv⟩ | ⟨hv, hdup⟩ | h
        · rw [hf] at h; cases h
        · rw [hf] at hp'; cases hp'
          exact absurd hd (faultV_prop c props p v hv st st1)
        · intro hc
          have hseen := (decProp_seen c props p v st st1 hd).2 hv
          rw [findProp_name props k p hf] at hseen
          exact dup_rejected c props k rest st1 hseen hdup _ hc
        · exact faultM_members c props rest h st1 r
termination_by sizeOf ms

theorem faultO_members (c : Cfg) (ops : List PropDef) (ms : PMembers) (h : FaultO c ops ms)
    (st : PS) (found : List Bytes) (ct : Option Bytes) :
    ∀ r f' ct', decOneofMembers c ops ms st found ct ≠ .ok (r, f', ct', .closed) := by
  intro r f' ct'
  cases ms with
  | nil term =>
    simp only [FaultO] at h
    unfold decOneofMembers
    intro hc; cases hc; exact h rfl
  | cons k kr v rest =>
    simp only [FaultO] at h
    unfold decOneofMembers
    by_cases hk : k = ascii "!type"
    · rw [if_pos hk]
      cases v with
      | str s raw =>
        simp only []
        rcases h with ⟨_, hns⟩ | ⟨hne, _⟩ | ⟨hne, _⟩ | h
        · exact absurd rfl (hns s raw)
        · exact absurd hk hne
        · exact absurd hk hne
        · exact faultO_members c ops rest h st found (some s) r f' ct'
      | _ => intro hc; cases hc
    · rw [if_neg hk]
      cases hf : findProp ops k with
      | none => intro hc; cases hc
      | some p =>
        simp only []
        cases hd : decProp c ops p v st with
        | err e => intro hc; cases hc
        | panic w => intro hc; cases hc
        | ok st1 =>
          simp only []
          rcases h with ⟨he, _⟩ | ⟨_, hnone⟩ | ⟨_, p', hp', hv⟩ | h
          · exact absurd he hk
          · rw [hf] at hnone; cases hnone
          · rw [hf] at hp'; cases hp'
            exact absurd hd (faultV_prop c ops p v hv st st1)
          · exact faultO_members c ops rest h st1 (found ++ [k]) ct r f' ct'
termination_by sizeOf ms

theorem faultE_elems (c : Cfg) (item : Field) (xs : PElems) (h : FaultE c item xs)
    (acc : List PVal) : ∀ r, decElems c item xs acc ≠ .ok (r, .closed) := by
  intro r
  cases xs with
  | nil term =>
    simp only [FaultE] at h
    unfold decElems
    split
    · intro hc; cases hc
    · intro hc; cases hc; exact h rfl
  | cons v rest =>
    simp only [FaultE] at h
    -- either the element itself is rejected, or the fault is later
    have hitem : (v = .null ∨ FaultV c item v) → decElems c item (.cons v rest) acc ≠ .ok (r, .closed) := by
      intro hv
      unfold decElems
      cases item with
      | scalar k =>
        simp only []
        cases hg : goTok v with
        | none => intro hc; cases hc
        | some tok =>
          simp only []
          rcases hv with rfl | hv
          · simp only [goTok, Option.some.injEq] at hg; subst hg
            cases hd : decodeScalar c.O k .null with
            | ok o =>
              cases o with
              | none => intro hc; cases hc
              | some pv => exact absurd hd (decodeScalar_null_not_some c.O k pv)
            | err e => intro hc; cases hc
            | panic w => intro hc; cases hc
          · have : ∃ e, decodeScalar c.O k tok = .err e := by
              cases v <;> simp only [FaultV, hg, goTok] at hv hg <;> first | (cases hg; exact hv) | exact hv | cases hg
            obtain ⟨e, he⟩ := this
            rw [he]; intro hc; cases hc
      | «enum» ref =>
        simp only []
        rcases hv with rfl | hv
        · intro hc; simp at hc
        · cases v with
          | str s raw =>
            cases hf : c.env.find ref with
            | none => intro hc; simp [hf] at hc
            | some rt =>
              cases rt with
              | «enum» pfx opts =>
                simp only [FaultV, hf] at hv
                simp only [hv]; intro hc; cases hc
              | _ => intro hc; simp at hc
          | _ => intro hc; simp at hc
      | object ref =>
        simp only []
        cases hf : c.env.find ref with
        | none => intro hc; simp at hc
        | some rt =>
          cases rt with
          | object sub =>
            simp only []
            have hno : NotOk (decObject c sub v) := faultV_decObject c ref sub v hf hv
            cases hd : decObject c sub v with
            | ok fs => exact absurd hd (hno fs)
            | err e => intro hc; cases hc
            | panic w => intro hc; cases hc
          | _ => intro hc; simp at hc
      | oneof ref =>
        simp only []
        cases hf : c.env.find ref with
        | none => intro hc; simp at hc
        | some rt =>
          cases rt with
          | oneof ops =>
            simp only []
            have hno : NotOk (decOneof c ops v) := faultV_decOneof c ref ops v hf hv
            cases hd : decOneof c ops v with
            | ok fs => exact absurd hd (hno fs)
            | err e => intro hc; cases hc
            | panic w => intro hc; cases hc
          | _ => intro hc; simp at hc
      | _ => intro hc; simp at hc
    rcases h with h | h | h
    · exact hitem (Or.inl h)
    · exact hitem (Or.inr h)
    · -- the fault is in a later element
      unfold decElems
      cases item with
      | scalar k =>
        simp only []
        cases goTok v with
        | none => intro hc; cases hc
        | some tok =>
          simp only []
          cases decodeScalar c.O k tok with
          | ok o =>
            cases o with
            | none => intro hc; cases hc
            | some pv => exact faultE_elems c (.scalar k) rest h _ r
          | err e => intro hc; cases hc
          | panic w => intro hc; cases hc
      | «enum» ref =>
        simp only []
        split
        · split
          · exact faultE_elems c (.enum ref) rest h _ r
          · intro hc; cases hc
        · intro hc; cases hc
      | object ref =>
        simp only []
        split
        · split
          · exact faultE_elems c (.object ref) rest h _ r
          · intro hc; cases hc
          · intro hc; cases hc
        · intro hc; cases hc
      | oneof ref =>
        simp only []
        split
        · split
          · exact faultE_elems c (.oneof ref) rest h _ r
          · intro hc; cases hc
          · intro hc; cases hc
        · intro hc; cases hc
      | _ => intro hc; simp at hc
termination_by sizeOf xs

theorem faultMap_members (c : Cfg) (item : Field) (ms : PMembers) (h : FaultMap c item ms)
    (acc : List (Bytes × PVal)) : ∀ r, decMapMembers c item ms acc ≠ .ok (r, .closed) := by
  intro r
  cases ms with
  | nil term =>
    simp only [FaultMap] at h
    unfold decMapMembers
    split
    · intro hc; cases hc
    · intro hc; cases hc; exact h rfl
  | cons k kr v rest =>
    simp only [FaultMap] at h
    have hitem : (v = .null ∨ FaultV c item v) →
        decMapMembers c item (.cons k kr v rest) acc ≠ .ok (r, .closed) := by
      intro hv
      unfold decMapMembers
      cases item with
      | scalar sk =>
        simp only []
        cases hg : goTok v with
        | none => intro hc; cases hc
        | some tok =>
          simp only []
          rcases hv with rfl | hv
          · simp only [goTok, Option.some.injEq] at hg; subst hg
            cases hd : decodeScalar c.O sk .null with
            | ok o =>
              cases o with
              | none => intro hc; cases hc
              | some pv => exact absurd hd (decodeScalar_null_not_some c.O sk pv)
            | err e => intro hc; cases hc
            | panic w => intro hc; cases hc
          · have : ∃ e, decodeScalar c.O sk tok = .err e := by
              cases v <;> simp only [FaultV, hg, goTok] at hv hg <;> first | (cases hg; exact hv) | exact hv | cases hg
            obtain ⟨e, he⟩ := this
            rw [he]; intro hc; cases hc
      | «enum» ref =>
        simp only []
        rcases hv with rfl | hv
        · intro hc; simp at hc
        · cases v with
          | str s raw =>
            cases hf : c.env.find ref with
            | none => intro hc; simp [hf] at hc
            | some rt =>
              cases rt with
              | «enum» pfx opts =>
                simp only [FaultV, hf] at hv
                simp only [hv]; intro hc; cases hc
              | _ => intro hc; simp at hc
          | _ => intro hc; simp at hc
      | object ref =>
        simp only []
        split
        · intro hc; cases hc
        · cases hf : c.env.find ref with
          | none => intro hc; simp at hc
          | some rt =>
            cases rt with
            | object sub =>
              simp only []
              cases hd : decObject c sub v with
              | ok fs => exact absurd hd (faultV_decObject c ref sub v hf hv fs)
              | err e => intro hc; cases hc
              | panic w => intro hc; cases hc
            | _ => intro hc; simp at hc
      | oneof ref =>
        simp only []
        split
        · intro hc; cases hc
        · cases hf : c.env.find ref with
          | none => intro hc; simp at hc
          | some rt =>
            cases rt with
            | oneof ops =>
              simp only []
              cases hd : decOneof c ops v with
              | ok fs => exact absurd hd (faultV_decOneof c ref ops v hf hv fs)
              | err e => intro hc; cases hc
              | panic w => intro hc; cases hc
            | _ => intro hc; simp at hc
      | _ => intro hc; simp at hc
    rcases h with h | h | h
    · exact hitem (Or.inl h)
    · exact hitem (Or.inr h)
    · unfold decMapMembers
      cases item with
      | scalar sk =>
        simp only []
        cases goTok v with
        | none => intro hc; cases hc
        | some tok =>
          simp only []
          cases decodeScalar c.O sk tok with
          | ok o =>
            cases o with
            | none => intro hc; cases hc
            | some pv =>
              simp only []
              split
              · intro hc; cases hc
              · exact faultMap_members c (.scalar sk) rest h _ r
          | err e => intro hc; cases hc
          | panic w => intro hc; cases hc
      | «enum» ref =>
        simp only []
        split
        · split
          · split
            · intro hc; cases hc
            · exact faultMap_members c (.enum ref) rest h _ r
          · intro hc; cases hc
        · intro hc; cases hc
      | object ref =>
        simp only []
        split
        · intro hc; cases hc
        · split
          · split
            · exact faultMap_members c (.object ref) rest h _ r
            · intro hc; cases hc
            · intro hc; cases hc
          · intro hc; cases hc
      | oneof ref =>
        simp only []
        split
        · intro hc; cases hc
        · split
          · split
            · exact faultMap_members c (.oneof ref) rest h _ r
            · intro hc; cases hc
            · intro hc; cases hc
          · intro hc; cases hc
      | _ => intro hc; simp at hc
termination_by sizeOf ms

/-- a faulty (or `null`) value is rejected as an array element / map value of object type -/
theorem faultV_decObject (c : Cfg) (ref : String) (sub : List PropDef) (v : PTree)
    (hf : c.env.find ref = some (.object sub)) (hv : v = .null ∨ FaultV c (.object ref) v) :
    NotOk (decObject c sub v) := by
  unfold decObject
  rcases hv with rfl | hv
  · exact NotOk_err _
  · cases v with
    | obj ms =>
      simp only [FaultV, hf] at hv
      simp only []
      unfold finishObject
      cases hr : decObjMembers c sub ms { m := [], seen := [] } with
      | ok a =>
        obtain ⟨r', term⟩ := a
        simp only []
        split
        · next hcl =>
          exfalso
          have : term = .closed := by simpa [closeOk] using hcl
          subst this
          exact faultM_members c sub ms hv _ r' hr
        · exact NotOk_err _
      | err e => exact NotOk_err _
      | panic w => exact NotOk_panic _
    | _ => exact NotOk_err _
termination_by sizeOf v

theorem faultV_decOneof (c : Cfg) (ref : String) (ops : List PropDef) (v : PTree)
    (hf : c.env.find ref = some (.oneof ops)) (hv : v = .null ∨ FaultV c (.oneof ref) v) :
    NotOk (decOneof c ops v) := by
  unfold decOneof
  rcases hv with rfl | hv
  · exact NotOk_err _
  · cases v with
    | obj ms =>
      simp only [FaultV, hf] at hv
      simp only []
      unfold finishOneof
      cases hr : decOneofMembers c ops ms { m := [], seen := [] } [] none with
      | ok a =>
        obtain ⟨r', found, ct, term⟩ := a
        simp only []
        split
        · exact NotOk_err _
        · obtain ⟨hfound, hct⟩ := decOneofMembers_found c ops ms _ _ _ _ _ _ _ hr
          cases hpost : oneofPost ops found ct r'.m with
          | ok tp =>
            simp only []
            split
            · next hcl =>
              exfalso
              have hterm : term = .closed := by simpa [closeOk] using hcl
              subst hterm
              rcases hv with hv | hv
              · exact faultO_members c ops ms hv _ _ _ r' found ct hr
              · rw [hfound, hct] at hpost
                exact oneofPost_fault ops ms r'.m hv tp hpost
            · exact NotOk_err _
          | err e => exact NotOk_err _
          | panic w => exact NotOk_panic _
      | err e => exact NotOk_err _
      | panic w => exact NotOk_panic _
    | _ => exact NotOk_err _
termination_by sizeOf v

end

end J5V.Codec

namespace J5V.Codec
open J5V.Go J5V.Json

theorem faultRoot_notOk (c : Cfg) (root : String) (t : PTree) (h : FaultRoot c root t) :
    NotOk (decRootTree c root t) := by
  unfold decRootTree
  unfold FaultRoot at h
  cases hf : c.env.find root with
  | none => exact NotOk_err _
  | some r =>
    rw [hf] at h
    cases r with
    | object props =>
      simp only [] at h ⊢
      cases t with
      | obj ms =>
        simp only [] at h ⊢
        unfold finishObject
        cases hr : decObjMembers c props ms { m := [], seen := [] } with
        | ok a =>
          obtain ⟨r', term⟩ := a
          simp only []
          split
          · next hcl =>
            exfalso
            have : term = .closed := by simpa [closeOk] using hcl
            subst this
            exact faultM_members c props ms h _ r' hr
          · exact NotOk_err _
        | err e => exact NotOk_err _
        | panic w => exact NotOk_panic _
      | _ => exact NotOk_err _
    | oneof ops =>
      simp only [] at h ⊢
      cases t with
      | obj ms =>
        simp only [] at h ⊢
        unfold finishOneof
        cases hr : decOneofMembers c ops ms { m := [], seen := [] } [] none with
        | ok a =>
          obtain ⟨r', found, ct, term⟩ := a
          simp only []
          split
          · exact NotOk_err _
          · obtain ⟨hfound, hct⟩ := decOneofMembers_found c ops ms _ _ _ _ _ _ _ hr
            cases hpost : oneofPost ops found ct r'.m with
            | ok tp =>
              simp only []
              split
              · next hcl =>
                exfalso
                have hterm : term = .closed := by simpa [closeOk] using hcl
                subst hterm
                rcases h with h | h
                · exact faultO_members c ops ms h _ _ _ r' found ct hr
                · rw [hfound, hct] at hpost
                  exact oneofPost_fault ops ms r'.m h tp hpost
              · exact NotOk_err _
            | err e => exact NotOk_err _
            | panic w => exact NotOk_panic _
        | err e => exact NotOk_err _
        | panic w => exact NotOk_panic _
      | _ => exact NotOk_err _
    | _ => exact NotOk_err _

/-- **a document with a fault is rejected with an error** — not accepted, not partially accepted,
no panic -/
theorem fault_rejected (c : Cfg) (hc : c.env.itemsOk = true) (root : String) (t : PTree)
    (h : FaultRoot c root t) : ∃ e, decRootTree c root t = .err e :=
  err_of_notOk_np _ (faultRoot_notOk c root t h) (decRootTree_np c hc root t)

end J5V.Codec
