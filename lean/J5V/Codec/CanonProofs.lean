import J5V.Codec.Same
import J5V.Codec.EncTreeProofs
/-!
# The encoder ignores empty flattened sub-objects (C01: "treated as absent")

`enc_same`: messages with the same leaves (`Same`) have the same encoding, at every fuel. With the
round trip for representable messages this gives `decode (encode m) = m'` for every message `m`
and every representable `m'` with the same leaves (`roundtrip_same`), in particular for
`m' = restrictP (leaf paths) m` (`roundtrip_canon`: the message without its empty flattened
sub-messages).
-/
namespace J5V.Codec
open J5V.Go J5V.Json

theorem all2_refl {α : Type} (R : α → α → Prop) (h : ∀ a, R a a) : ∀ l : List α, all2 R l l
  | [] => trivial
  | a :: l => ⟨h a, all2_refl R h l⟩

theorem sameV_refl (env : Env) (n : Nat) (fld : Field) (v : PVal) : SameV env n fld v v := by
  cases n with
  | zero => simp [SameV]
  | succ n => simp [SameV]

theorem same_refl (env : Env) (fld : Field) (v : PVal) : Same env fld v v :=
  fun n => sameV_refl env n fld v

theorem optRel_refl (R : PVal → PVal → Prop) (h : ∀ a, R a a) (x : Option PVal) : optRel R x x := by
  cases x with
  | none => trivial
  | some a => exact h a

theorem optRel_forall (R : Nat → PVal → PVal → Prop) (a b : Option PVal)
    (h : ∀ n, optRel (R n) a b) : optRel (fun x y => ∀ n, R n x y) a b := by
  cases a with
  | none => cases b with
    | none => trivial
    | some y => exact h 0
  | some x => cases b with
    | none => exact h 0
    | some y => exact fun n => h n

theorem all2_forall {α : Type} (R : Nat → α → α → Prop) (hr : ∀ n a, R n a a) :
    ∀ (xs ys : List α), (∀ n, xs = ys ∨ all2 (R n) xs ys) → all2 (fun a b => ∀ n, R n a b) xs ys
  | [], [], _ => trivial
  | [], b :: bs, h => by rcases h 0 with h1 | h1 <;> cases h1
  | a :: as, [], h => by rcases h 0 with h1 | h1 <;> cases h1
  | a :: as, b :: bs, h => by
    refine ⟨?_, all2_forall R hr as bs ?_⟩
    · intro n
      rcases h n with h1 | h1
      · cases h1; exact hr n a
      · exact h1.1
    · intro n
      rcases h n with h1 | h1
      · cases h1; exact Or.inl rfl
      · exact Or.inr h1.2

/-- what `Same` says about two object values -/
theorem same_object (env : Env) (ref : String) (props : List PropDef) (v v' : PVal)
    (hfind : env.find ref = some (.object props)) (h : Same env (.object ref) v v') :
    v = v' ∨ ∃ fs fs', v = .msg fs ∧ v' = .msg fs' ∧ SameM env props fs fs' := by
  by_cases he : v = v'
  · exact Or.inl he
  right
  have key : ∀ n, ∃ fs fs', v = .msg fs ∧ v' = .msg fs' ∧
      ∀ e ∈ leafEntries env props, optRel (SameV env n e.2.1) (getPath fs e.1) (getPath fs' e.1) := by
    intro n
    have := h (n + 1)
    simp only [SameV, hfind] at this
    rcases this with h1 | h1
    · exact absurd h1 he
    · exact h1
  obtain ⟨fs, fs', hv, hv', _⟩ := key 0
  refine ⟨fs, fs', hv, hv', ?_⟩
  intro e he'
  apply optRel_forall
  intro n
  obtain ⟨fs1, fs1', hv1, hv1', h1⟩ := key n
  rw [hv] at hv1; rw [hv'] at hv1'
  cases hv1; cases hv1'
  exact h1 e he'

theorem same_oneof (env : Env) (ref : String) (ops : List PropDef) (v v' : PVal)
    (hfind : env.find ref = some (.oneof ops)) (h : Same env (.oneof ref) v v') :
    v = v' ∨ ∃ fs fs', v = .msg fs ∧ v' = .msg fs' ∧ SameM env ops fs fs' := by
  by_cases he : v = v'
  · exact Or.inl he
  right
  have key : ∀ n, ∃ fs fs', v = .msg fs ∧ v' = .msg fs' ∧
      ∀ e ∈ leafEntries env ops, optRel (SameV env n e.2.1) (getPath fs e.1) (getPath fs' e.1) := by
    intro n
    have := h (n + 1)
    simp only [SameV, hfind] at this
    rcases this with h1 | h1
    · exact absurd h1 he
    · exact h1
  obtain ⟨fs, fs', hv, hv', _⟩ := key 0
  refine ⟨fs, fs', hv, hv', ?_⟩
  intro e he'
  apply optRel_forall
  intro n
  obtain ⟨fs1, fs1', hv1, hv1', h1⟩ := key n
  rw [hv] at hv1; rw [hv'] at hv1'
  cases hv1; cases hv1'
  exact h1 e he'

theorem same_array (env : Env) (item : Field) (v v' : PVal) (h : Same env (.array item) v v') :
    v = v' ∨ ∃ xs xs', v = .list xs ∧ v' = .list xs' ∧ all2 (Same env item) xs xs' := by
  by_cases he : v = v'
  · exact Or.inl he
  right
  have key : ∀ n, ∃ xs xs', v = .list xs ∧ v' = .list xs' ∧ all2 (SameV env n item) xs xs' := by
    intro n
    have := h (n + 1)
    simp only [SameV] at this
    rcases this with h1 | h1
    · exact absurd h1 he
    · exact h1
  obtain ⟨xs, xs', hv, hv', _⟩ := key 0
  refine ⟨xs, xs', hv, hv', ?_⟩
  apply all2_forall (fun n => SameV env n item) (fun n a => sameV_refl env n item a)
  intro n
  obtain ⟨xs1, xs1', hv1, hv1', h1⟩ := key n
  rw [hv] at hv1; rw [hv'] at hv1'
  cases hv1; cases hv1'
  exact Or.inr h1

/-- regroup `∀ n, (a.1 = b.1 ∧ …)` into `a.1 = b.1 ∧ ∀ n, …` -/
theorem all2_regroup (env : Env) (item : Field) : ∀ (kvs kvs' : List (Bytes × PVal)),
    all2 (fun a b => ∀ n, a.1 = b.1 ∧ SameV env n item a.2 b.2) kvs kvs' →
    all2 (fun a b => a.1 = b.1 ∧ Same env item a.2 b.2) kvs kvs'
  | [], [], _ => trivial
  | [], _ :: _, h => h
  | _ :: _, [], h => h
  | a :: as, b :: bs, h => ⟨⟨(h.1 0).1, fun n => (h.1 n).2⟩, all2_regroup env item as bs h.2⟩

theorem same_map (env : Env) (item : Field) (v v' : PVal) (h : Same env (.map item) v v') :
    v = v' ∨ ∃ kvs kvs', v = .map kvs ∧ v' = .map kvs' ∧
      all2 (fun a b => a.1 = b.1 ∧ Same env item a.2 b.2) kvs kvs' := by
  by_cases he : v = v'
  · exact Or.inl he
  right
  have key : ∀ n, ∃ kvs kvs', v = .map kvs ∧ v' = .map kvs' ∧
      all2 (fun a b => a.1 = b.1 ∧ SameV env n item a.2 b.2) kvs kvs' := by
    intro n
    have := h (n + 1)
    simp only [SameV] at this
    rcases this with h1 | h1
    · exact absurd h1 he
    · exact h1
  obtain ⟨kvs, kvs', hv, hv', _⟩ := key 0
  refine ⟨kvs, kvs', hv, hv', ?_⟩
  have := all2_forall (fun n (a b : Bytes × PVal) => a.1 = b.1 ∧ SameV env n item a.2 b.2)
    (fun n a => ⟨rfl, sameV_refl env n item a.2⟩) kvs kvs' (by
      intro n
      obtain ⟨k1, k1', hv1, hv1', h1⟩ := key n
      rw [hv] at hv1; rw [hv'] at hv1'
      cases hv1; cases hv1'
      exact Or.inr h1)
  exact all2_regroup env item kvs kvs' this

theorem same_leaf (env : Env) (fld : Field) (v v' : PVal) (h : Same env fld v v')
    (hf : match fld with | .scalar _ | .enum _ | .any _ => True | _ => False) : v = v' := by
  have := h 1
  cases fld <;> simp only [SameV] at this hf <;> first | (rcases this with h1 | h1 <;> first | exact h1 | cases h1) | cases hf

/-! ## the encoder reads a message only through the leaves of its properties -/

/-- `m` and `m'` hold the same leaves at the entries `L` -/
def RelOn (env : Env) (L : List (List Nat × Field × Pres)) (m m' : Fields) : Prop :=
  ∀ e ∈ L, optRel (Same env e.2.1) (getPath m e.1) (getPath m' e.1)

/-- the members of every exposed oneof of the property set have one-element paths -/
def ExpSingle (env : Env) (props : List PropDef) : Prop :=
  ∀ q ∈ props, q.path = [] → ∀ q' ∈ exposedOps env q, ∃ k, q'.path = [k]

theorem hasProp_leaf (env : Env) (L : List (List Nat × Field × Pres)) (m m' : Fields)
    (hr : RelOn env L m m') (f : Nat) (q : PropDef) (hq : q.path ≠ [])
    (he : (q.path, q.field, q.pres) ∈ L) : hasProp env f q m = hasProp env f q m' := by
  cases f with
  | zero => rfl
  | succ f =>
    unfold hasProp
    cases hp : q.path with
    | nil => exact absurd hp hq
    | cons a b =>
      simp only []
      have := hr _ he
      simp only [] at this
      rw [hp] at this
      cases h1 : getPath m (a :: b) <;> cases h2 : getPath m' (a :: b) <;>
        simp [h1, h2, optRel] at this ⊢

theorem foldr_elem_congr (env : Env) (item : Field) (g g' : PVal → Outcome PTree)
    (hg : ∀ x x', Same env item x x' → g x = g' x') :
    ∀ (xs xs' : List PVal), all2 (Same env item) xs xs' →
      xs.foldr (fun x acc => consElem (g x) acc) (.ok (.nil .closed)) =
      xs'.foldr (fun x acc => consElem (g' x) acc) (.ok (.nil .closed))
  | [], [], _ => rfl
  | [], _ :: _, h => by cases h
  | _ :: _, [], h => by cases h
  | a :: as, b :: bs, h => by
    simp only [List.foldr_cons]
    rw [hg a b h.1, foldr_elem_congr env item g g' hg as bs h.2]

theorem foldr_map_congr (env : Env) (item : Field) (g g' : PVal → Outcome PTree)
    (hg : ∀ x x', Same env item x x' → g x = g' x') :
    ∀ (xs xs' : List (Bytes × PVal)), all2 (fun a b => a.1 = b.1 ∧ Same env item a.2 b.2) xs xs' →
      xs.foldr (fun kv acc => consMember (member kv.1 (g kv.2)) acc) (.ok (.nil .closed)) =
      xs'.foldr (fun kv acc => consMember (member kv.1 (g' kv.2)) acc) (.ok (.nil .closed))
  | [], [], _ => rfl
  | [], _ :: _, h => by cases h
  | _ :: _, [], h => by cases h
  | a :: as, b :: bs, h => by
    simp only [List.foldr_cons]
    rw [hg a.2 b.2 h.1.2, h.1.1, foldr_map_congr env item g g' hg as bs h.2]

/-- the encoder functions at fuel `f` give the same result on messages with the same leaves -/
structure EQ (env : Env) (O : Oracle) (f : Nat) : Prop where
  val : ∀ fld v v', Same env fld v v' → encValue env O f fld v = encValue env O f fld v'
  fld : ∀ L m m', RelOn env L m m' → ∀ p, p.path ≠ [] → (p.path, p.field, p.pres) ∈ L →
    encField env O f p m = encField env O f p m'
  xfld : ∀ props m m', SameM env props m m' → ExpSingle env props → ∀ q ∈ props, q.path = [] →
    encField env O f q m = encField env O f q m'
  one : ∀ L m m', RelOn env L m m' → ∀ ops,
    (∀ q ∈ ops, q.path ≠ [] ∧ (q.path, q.field, q.pres) ∈ L) →
    encOneofBody env O f ops m = encOneofBody env O f ops m'
  obj : ∀ props m m', SameM env props m m' → ExpSingle env props →
    encObjectBody env O f props m = encObjectBody env O f props m'

/-- an object root of a flat environment: exposed oneofs have one-element member paths -/
theorem expSingle_of_flat (env : Env) (hflat : env.flat = true) (props : List PropDef)
    (h : rootFlat env (.object props) = true) : ExpSingle env props := by
  obtain ⟨hall, _, _, _⟩ := object_root_facts env props h
  intro q hq hpe q' hq'
  rcases hall q hq with hf | hx
  · simp [propFlat, hpe] at hf
  · obtain ⟨_, _, ref, ops, hfld, hfind⟩ := propExposed_inv env q hx
    have hops : exposedOps env q = ops := by
      unfold exposedOps; rw [hpe, hfld]; simp [hfind]
    rw [hops] at hq'
    obtain ⟨hsimple, _, _, _⟩ := oneof_root_facts ops (rootFlat_oneof env ops (find_rootFlat env hflat ref _ hfind))
    exact propSimple_path q' (hsimple q' hq')

/-- the members of a oneof root of a flat environment are leaf entries of it -/
theorem oneof_entries (env : Env) (ops : List PropDef) (h : rootSimple (.oneof ops) = true) :
    ∀ q ∈ ops, q.path ≠ [] ∧ (q.path, q.field, q.pres) ∈ leafEntries env ops := by
  obtain ⟨hsimple, _, _, _⟩ := oneof_root_facts ops h
  intro q hq
  obtain ⟨k, hk⟩ := propSimple_path q (hsimple q hq)
  have hne : q.path ≠ [] := by rw [hk]; simp
  exact ⟨hne, List.mem_flatMap.mpr ⟨q, hq, by rw [propLeaves_nonempty env q hne]; simp⟩⟩

theorem EQ_all (env : Env) (O : Oracle) (hflat : env.flat = true) : ∀ f, EQ env O f := by
  intro f
  induction f with
  | zero =>
    refine ⟨?_, ?_, ?_, ?_, ?_⟩
    · intro fld v v' _; simp [encValue]
    · intro L m m' _ p _ _; simp [encField]
    · intro props m m' _ _ q _ _; simp [encField]
    · intro L m m' _ ops _; simp [encOneofBody]
    · intro props m m' _ _; simp [encObjectBody]
  | succ f ih =>
    refine ⟨?_, ?_, ?_, ?_, ?_⟩
    · -- values
      intro fld v v' h
      cases fld with
      | scalar k => rw [same_leaf env _ v v' h trivial]
      | «enum» ref => rw [same_leaf env _ v v' h trivial]
      | any pb => rw [same_leaf env _ v v' h trivial]
      | object ref =>
        cases hfind : env.find ref with
        | none => have := h 1; simp [SameV, hfind] at this; rw [this]
        | some r =>
          cases r with
          | object props =>
            rcases same_object env ref props v v' hfind h with rfl | ⟨fs, fs', rfl, rfl, hs⟩
            · rfl
            · simp only [encValue, hfind]
              exact ih.obj props fs fs' hs
                (expSingle_of_flat env hflat props (find_rootFlat env hflat ref _ hfind))
          | oneof ops => have := h 1; simp [SameV, hfind] at this; rw [this]
          | «enum» a b => have := h 1; simp [SameV, hfind] at this; rw [this]
          | noschema => have := h 1; simp [SameV, hfind] at this; rw [this]
      | oneof ref =>
        cases hfind : env.find ref with
        | none => have := h 1; simp [SameV, hfind] at this; rw [this]
        | some r =>
          cases r with
          | oneof ops =>
            rcases same_oneof env ref ops v v' hfind h with rfl | ⟨fs, fs', rfl, rfl, hs⟩
            · rfl
            · simp only [encValue, hfind]
              exact ih.one _ fs fs' hs ops
                (oneof_entries env ops (rootFlat_oneof env ops (find_rootFlat env hflat ref _ hfind)))
          | object ops => have := h 1; simp [SameV, hfind] at this; rw [this]
          | «enum» a b => have := h 1; simp [SameV, hfind] at this; rw [this]
          | noschema => have := h 1; simp [SameV, hfind] at this; rw [this]
      | array item =>
        rcases same_array env item v v' h with rfl | ⟨xs, xs', rfl, rfl, hs⟩
        · rfl
        · simp only [encValue]
          cases item <;> first
            | rfl
            | (simp only []
               rw [foldr_elem_congr env _ _ _ (fun x x' hx => ih.val _ x x' hx) xs xs' hs])
      | map item =>
        rcases same_map env item v v' h with rfl | ⟨xs, xs', rfl, rfl, hs⟩
        · rfl
        · simp only [encValue]
          cases item <;> first
            | rfl
            | (simp only []
               rw [foldr_map_congr env _ _ _ (fun x x' hx => ih.val _ x x' hx) xs xs' hs])
    · -- a property with a proto path
      intro L m m' hr p hp he
      unfold encField
      cases hpp : p.path with
      | nil => exact absurd hpp hp
      | cons a b =>
        simp only []
        have := hr _ he
        simp only [] at this
        rw [hpp] at this
        cases h1 : getPath m (a :: b) <;> cases h2 : getPath m' (a :: b) <;>
          simp only [h1, h2, optRel] at this ⊢
        all_goals first
          | rw [ih.val p.field _ _ this]
          | cases this
          | rfl
    · -- an exposed oneof
      intro props m m' hs hX q hq hqe
      unfold encField
      simp only [hqe]
      cases hfl : q.field with
      | oneof ref =>
        simp only []
        cases hfind : env.find ref with
        | none => rfl
        | some r =>
          cases r with
          | oneof ops =>
            simp only []
            have hops : exposedOps env q = ops := by
              unfold exposedOps; rw [hqe, hfl]; simp [hfind]
            have hent : ∀ q' ∈ ops, q'.path ≠ [] ∧
                (q'.path, q'.field, q'.pres) ∈ leafEntries env props := by
              intro q' hq'
              obtain ⟨k, hk⟩ := hX q hq hqe q' (by rw [hops]; exact hq')
              refine ⟨by rw [hk]; simp, ?_⟩
              rw [hk]
              exact List.mem_flatMap.mpr ⟨q, hq,
                propLeaves_exposed_mem env q q' k hqe (by rw [hops]; exact hq') hk⟩
            have hhas : hasProp env (f + 1) q m = hasProp env (f + 1) q m' := by
              unfold hasProp
              simp only [hqe, hfl, hfind]
              congr 2
              apply List.filter_congr
              intro q1 _
              cases hfp : findProp ops q1.jsonName with
              | none => rfl
              | some q' =>
                simp only []
                exact hasProp_leaf env _ m m' hs f q' (hent q' (findProp_mem ops _ q' hfp)).1
                  (hent q' (findProp_mem ops _ q' hfp)).2
            rw [hhas, ih.one _ m m' hs ops hent]
          | object a => rfl
          | «enum» a b => rfl
          | noschema => rfl
      | scalar k => rfl
      | «enum» r => rfl
      | object r => rfl
      | any pb => rfl
      | array i => rfl
      | map i => rfl
    · -- oneof body
      intro L m m' hr ops hent
      unfold encOneofBody
      have hfilt : ops.filter (oneofSet env (f + 1) ops m) = ops.filter (oneofSet env (f + 1) ops m') := by
        congr 1
        funext q
        unfold oneofSet
        cases hfp : findProp ops q.jsonName with
        | none => rfl
        | some q' =>
          simp only []
          exact hasProp_leaf env L m m' hr (f + 1) q' (hent q' (findProp_mem ops _ q' hfp)).1
            (hent q' (findProp_mem ops _ q' hfp)).2
      rw [hfilt]
      cases ops.filter (oneofSet env (f + 1) ops m') with
      | nil => rfl
      | cons q0 t =>
        cases t with
        | nil =>
          simp only []
          cases hfp : findProp ops q0.jsonName with
          | none => rfl
          | some q =>
            simp only []
            rw [ih.fld L m m' hr q (hent q (findProp_mem ops _ q hfp)).1
              (hent q (findProp_mem ops _ q hfp)).2]
        | cons _ _ => rfl
    · -- object body
      intro props m m' hs hX
      unfold encObjectBody
      have key : ∀ q, q ∈ props → encField env O f q m = encField env O f q m' := by
        intro q hq
        by_cases hqe : q.path = []
        · exact ih.xfld props m m' hs hX q hq hqe
        · exact ih.fld _ m m' hs q hqe
            (List.mem_flatMap.mpr ⟨q, hq, by rw [propLeaves_nonempty env q hqe]; simp⟩)
      simp only []
      congr 1
      congr 1
      funext p acc
      cases hfp : findProp props p.jsonName with
      | none => rfl
      | some q => simp only []; rw [key q (findProp_mem props _ q hfp)]

/-! ## messages with the same leaves have the same encoding; the round trip up to `Same` -/

theorem encRoot_same (env : Env) (O : Oracle) (hflat : env.flat = true) (root : String)
    (m m' : Fields)
    (hs : Same env (.object root) (.msg m) (.msg m') ∨ Same env (.oneof root) (.msg m) (.msg m')) :
    ∀ f, encRoot env O f root (.msg m) = encRoot env O f root (.msg m')
  | 0 => rfl
  | f + 1 => by
    unfold encRoot
    cases hfind : env.find root with
    | none => rfl
    | some r =>
      cases r with
      | object props =>
        simp only []
        rcases hs with h | h
        · rcases same_object env root props _ _ hfind h with he | ⟨fs, fs', hv, hv', hsm⟩
          · cases he; rfl
          · cases hv; cases hv'
            exact (EQ_all env O hflat f).obj props m m' hsm
              (expSingle_of_flat env hflat props (find_rootFlat env hflat root _ hfind))
        · have := h 1
          simp [SameV, hfind] at this
          rw [this]
      | oneof ops =>
        simp only []
        rcases hs with h | h
        · have := h 1
          simp [SameV, hfind] at this
          rw [this]
        · rcases same_oneof env root ops _ _ hfind h with he | ⟨fs, fs', hv, hv', hsm⟩
          · cases he; rfl
          · cases hv; cases hv'
            exact (EQ_all env O hflat f).one _ m m' hsm ops
              (oneof_entries env ops (rootFlat_oneof env ops (find_rootFlat env hflat root _ hfind)))
      | «enum» a b => rfl
      | noschema => rfl

/-- `encodeTree_enc'` at any fuel -/
theorem encRoot_enc (env : Env) (O : Oracle) (hO : FloatTextOk O) (root : String) (v : PVal)
    (t : PTree) (hg : env.noAny = true ∨ (ChunkLaws O ∧ v.chunksOk O = true)) (f : Nat)
    (h : encRoot env O f root v = .ok t) : t.Enc := by
  cases f with
  | zero => simp [encRoot] at h
  | succ f =>
    simp only [encRoot] at h
    split at h
    · next props fs hfind =>
      refine (ET_all env O hO f).obj props fs t ?_ h
      rcases hg with hna | ⟨hC, hc⟩
      · exact Or.inl ⟨hna, find_noAny env hna root props (Or.inl hfind)⟩
      · exact Or.inr ⟨hC, by simpa [PVal.chunksOk] using hc⟩
    · next ops fs hfind =>
      refine (ET_all env O hO f).one ops fs t ?_ h
      rcases hg with hna | ⟨hC, hc⟩
      · exact Or.inl ⟨hna, find_noAny env hna root ops (Or.inr hfind)⟩
      · exact Or.inr ⟨hC, by simpa [PVal.chunksOk] using hc⟩
    · cases h

/-- **C01 up to empty flattened sub-objects**: if `m'` is representable and holds the same leaves
as `m` (`Same`), then `Codec.ProtoToJSON m` succeeds with the bytes it writes for `m'`, and
`Codec.JSONToProto` maps them to `m'`. (`hd`: `m'` is not nested deeper than `m`, so the fuel the
encoder model takes for `m` is enough for `m'`.) -/
theorem roundtrip_same (c : Cfg) (hs : c.env.flat = true) (L : OracleLaws c.O)
    (hC : c.env.noAny = true ∨ ChunkLaws c.O)
    (root : String) (m m' : Fields)
    (hsame : Same c.env (.object root) (.msg m) (.msg m') ∨
      Same c.env (.oneof root) (.msg m) (.msg m'))
    (hok : valOk c.env c.O (.object root) (.msg m') = true ∨
      valOk c.env c.O (.oneof root) (.msg m') = true)
    (hd : depthFields m' ≤ depthFields m)
    (hM : modeOkF c.protoToAny (6 * (depthFields m + 1) + 9) c.anyDepth m' = true) :
    ∃ bs, encodeBytes c.env c.O root (.msg m) = .ok bs ∧ decodeBytes c root bs = .ok m' := by
  obtain ⟨t, ht, hdec⟩ := roundtrip_tree_flat_fuel c hs L root m' hok
    (6 * (depthFields m + 1) + 9) (by omega) hM
  have henc : encodeTree c.env c.O root (.msg m) = .ok t := by
    unfold encodeTree encFuel
    simp only [PVal.depth]
    rw [encRoot_same c.env c.O hs root m m' hsame]
    exact ht
  have hch : (PVal.msg m').chunksOk c.O = true := by
    rcases hok with hok | hok
    · exact valOk_chunksOk _ _ _ _ hok
    · exact valOk_chunksOk _ _ _ _ hok
  have htE : t.Enc := encRoot_enc c.env c.O (floatTextOk_of_laws c.O L) root (.msg m') t
    (hC.elim Or.inl (fun h => Or.inr ⟨h, hch⟩)) _ ht
  refine ⟨t.render, by simp [encodeBytes, henc], ?_⟩
  unfold decodeBytes
  rw [readDoc_render t htE]
  exact hdec

/-! ## the concrete canonical form: the message without its empty flattened sub-messages -/

/-- the leaf paths of a property set -/
def leafPaths (env : Env) (props : List PropDef) : List (List Nat) :=
  (leafEntries env props).map (·.1)

/-- the message restricted to the leaves of its properties: flattened sub-messages that hold no
leaf are dropped (recursively through nested flattened sub-messages), everything else is kept -/
def canonFlat (env : Env) (props : List PropDef) (m : Fields) : Fields :=
  restrictP (leafPaths env props) m

theorem restrictE_depth (S : List (List Nat)) (k : Nat) (v v' : PVal)
    (ih : ∀ sub, v = .msg sub → ∀ S', depthFields (restrictP S' sub) ≤ depthFields sub)
    (h : restrictE S k v = some v') : v'.depth ≤ v.depth := by
  cases v with
  | msg sub =>
    rw [restrictE.eq_def] at h
    simp only [] at h
    split at h
    · cases h; exact Nat.le_refl _
    · split at h
      · cases h
      · cases h
        simp only [PVal.depth]
        have := ih sub rfl (tailsAt k S)
        omega
  | _ =>
    rw [restrictE.eq_def] at h
    simp only [] at h
    split at h
    · cases h; exact Nat.le_refl _
    · cases h

theorem depthFields_restrictP : ∀ (fs : Fields) (S : List (List Nat)),
    depthFields (restrictP S fs) ≤ depthFields fs
  | [], S => by rw [restrictP.eq_def]; exact Nat.le_refl _
  | (k, v) :: rest, S => by
    have hrest := depthFields_restrictP rest S
    rw [restrictP.eq_def]
    simp only []
    cases hE : restrictE S k v with
    | none =>
      simp only [depthFields]
      exact Nat.le_trans hrest (Nat.le_max_right _ _)
    | some v' =>
      simp only [depthFields]
      have hv := restrictE_depth S k v v'
        (fun sub hv S' => depthFields_restrictP sub S') hE
      exact Nat.max_le.mpr ⟨Nat.le_trans hv (Nat.le_max_left _ _),
        Nat.le_trans hrest (Nat.le_max_right _ _)⟩
termination_by fs => sizeOf fs
decreasing_by
  all_goals simp_wf
  all_goals (try subst hv)
  all_goals (try simp)
  all_goals omega

theorem sortedDeepF_aget : ∀ (fs : Fields) (k : Nat) (v : PVal), sortedDeepF fs = true →
    aget k fs = some v → v.sortedDeep = true
  | [], _, _, _, h => by simp [aget] at h
  | (k', v') :: rest, k, v, hs, h => by
    simp only [sortedDeepF, Bool.and_eq_true] at hs
    simp only [aget] at h
    split at h
    · cases h; exact hs.1
    · exact sortedDeepF_aget rest k v hs.2 h

theorem sortedAlong_of_deep : ∀ (path : List Nat) (fs : Fields), asorted fs = true →
    sortedDeepF fs = true → SortedAlong path fs
  | [], _, h, _ => h
  | [_], _, h, _ => h
  | k :: k2 :: r, fs, h, hd => by
    refine ⟨h, ?_⟩
    intro sub hag
    have := sortedDeepF_aget fs k _ hd hag
    simp only [PVal.sortedDeep, Bool.and_eq_true] at this
    exact sortedAlong_of_deep (k2 :: r) sub this.1 this.2

/-- the message and its canonical form hold the same leaves -/
theorem same_canonFlat (env : Env) (root : String) (props : List PropDef)
    (hfind : env.find root = some (.object props)) (m : Fields)
    (hsort : ∀ e ∈ leafEntries env props, SortedAlong e.1 m) :
    Same env (.object root) (.msg m) (.msg (canonFlat env props m)) := by
  intro n
  cases n with
  | zero => simp [SameV]
  | succ n =>
    simp only [SameV, hfind]
    right
    refine ⟨m, canonFlat env props m, rfl, rfl, ?_⟩
    intro e he
    unfold canonFlat
    rw [getPath_restrictP_mem e.1 (leafPaths env props) m (hsort e he)
      (List.mem_map.mpr ⟨e, he, rfl⟩)]
    exact optRel_refl _ (fun a => sameV_refl env n e.2.1 a) _

/-- **C01, "an empty flattened sub-object is treated as absent"**: for an object root of a flat
environment and ANY message `m` of it whose canonical form `canonFlat m` (= `m` without the
flattened sub-messages that hold no leaf) is representable: encoding `m` succeeds and decoding the
bytes yields exactly `canonFlat m`. (`hsort`: the stores on the way to the leaves have strictly
increasing field numbers — what a protobuf message is.) -/
theorem roundtrip_canon (c : Cfg) (hs : c.env.flat = true) (L : OracleLaws c.O)
    (hC : c.env.noAny = true ∨ ChunkLaws c.O)
    (root : String) (props : List PropDef) (hfind : c.env.find root = some (.object props))
    (m : Fields) (hsort : ∀ e ∈ leafEntries c.env props, SortedAlong e.1 m)
    (hok : valOk c.env c.O (.object root) (.msg (canonFlat c.env props m)) = true)
    (hM : modeOkF c.protoToAny (6 * (depthFields m + 1) + 9) c.anyDepth
      (canonFlat c.env props m) = true) :
    ∃ bs, encodeBytes c.env c.O root (.msg m) = .ok bs ∧
      decodeBytes c root bs = .ok (canonFlat c.env props m) :=
  roundtrip_same c hs L hC root m (canonFlat c.env props m)
    (Or.inl (same_canonFlat c.env root props hfind m hsort)) (Or.inl hok)
    (depthFields_restrictP m _) hM

end J5V.Codec
