import J5V.Codec.Decode
import J5V.Codec.Query
/-!
# Documents with a fault (C03, second sentence), declaratively

`FaultV c fld t`: the JSON value `t`, read for a field of schema `fld`, contains — at the value
itself or at *any* nesting position below it (member of a nested object, array element, map value,
oneof arm) — a member that cannot be represented in its target field:

* wrong JSON type (an object / array where a scalar is expected and vice versa, a non-string enum),
* a scalar token `scalarReflectFromGo` rejects (unparsable or out-of-range number, invalid base64 /
  date / decimal / timestamp text — the scalar-level theorems of `Props/C03.lean` list the classes),
* an unknown enum name, an unknown key,
* more than one key in a oneof, a `"!type"` that contradicts the key present,
* a `null` array element / map value,
* (also rejected, though not in the property's list: a duplicate key with two non-null values, a
  truncated container).

Everything *around* the fault is arbitrary: other members may be anything. The definitions recurse
on the tree only (never on decoder state).
-/
namespace J5V.Codec
open J5V.Go J5V.Json

/-- a later member with key `k` and a non-null value -/
def hasNonNull (k : Bytes) : PMembers → Prop
  | .nil _ => False
  | .cons k' _ v rest => (k' = k ∧ v ≠ .null) ∨ hasNonNull k rest

/-- the keys of a oneof body other than `"!type"` (`foundKeys`) -/
def oneofKeys : PMembers → List Bytes
  | .nil _ => []
  | .cons k _ _ rest => if k = ascii "!type" then oneofKeys rest else k :: oneofKeys rest

/-- the terminator of a member list -/
def membersTerm : PMembers → Term
  | .nil t => t
  | .cons _ _ _ rest => membersTerm rest

/-- the post-check faults of a oneof body: more than one key, or a `"!type"` that contradicts the
key present / names no member -/
def FaultOneofPost (ops : List PropDef) (ms : PMembers) : Prop :=
  match oneofKeys ms, finalType ms none with
  | _ :: _ :: _, _ => True
  | [k], some name => k ≠ name
  | [], some name => findProp ops name = none
  | _, _ => False

mutual
/-- the value `t` of a field with schema `fld` contains a fault -/
def FaultV (c : Cfg) (fld : Field) : PTree → Prop
  | .null => False
  | .obj ms =>
    match fld with
    | .object ref =>
      match c.env.find ref with
      | some (.object sub) => FaultM c sub ms
      | _ => True
    | .oneof ref =>
      match c.env.find ref with
      | some (.oneof ops) => FaultO c ops ms ∨ FaultOneofPost ops ms
      | _ => True
    | .map item => FaultMap c item ms
    | .any _ => False
    | _ => True          -- an object where a scalar / enum / array is expected
  | .arr xs =>
    match fld with
    | .array item => FaultE c item xs
    | _ => True          -- an array where something else is expected
  | t =>
    match fld with
    | .scalar k =>
      match goTok t with
      | some tok => ∃ e, decodeScalar c.O k tok = .err e
      | none => True
    | .enum ref =>
      match t, c.env.find ref with
      | .str s _, some (.enum pfx opts) => enumOptionByName pfx opts s = none
      | _, _ => True
    | _ => True          -- a scalar where a container is expected
/-- the members of an object contain a fault -/
def FaultM (c : Cfg) (props : List PropDef) : PMembers → Prop
  | .nil term => term ≠ .closed
  | .cons k _ v rest =>
    findProp props k = none ∨
    (∃ p, findProp props k = some p ∧ FaultV c p.field v) ∨
    (v ≠ .null ∧ hasNonNull k rest) ∨
    FaultM c props rest
/-- the body of a oneof contains a fault (a fault of the key / value itself; the post-checks are
in `FaultOneof`) -/
def FaultO (c : Cfg) (ops : List PropDef) : PMembers → Prop
  | .nil term => term ≠ .closed
  | .cons k _ v rest =>
    (k = ascii "!type" ∧ (∀ s raw, v ≠ .str s raw)) ∨
    (k ≠ ascii "!type" ∧ findProp ops k = none) ∨
    (k ≠ ascii "!type" ∧ ∃ p, findProp ops k = some p ∧ FaultV c p.field v) ∨
    FaultO c ops rest
/-- the elements of an array contain a fault -/
def FaultE (c : Cfg) (item : Field) : PElems → Prop
  | .nil term => term ≠ .closed
  | .cons v rest => v = .null ∨ FaultV c item v ∨ FaultE c item rest
/-- the values of a map contain a fault -/
def FaultMap (c : Cfg) (item : Field) : PMembers → Prop
  | .nil term => term ≠ .closed
  | .cons _ _ v rest => v = .null ∨ FaultV c item v ∨ FaultMap c item rest
end

/-- the document `t` for root `root` contains a fault -/
def FaultRoot (c : Cfg) (root : String) (t : PTree) : Prop :=
  match c.env.find root with
  | some (.object props) =>
    match t with
    | .obj ms => FaultM c props ms
    | _ => True
  | some (.oneof ops) =>
    match t with
    | .obj ms => FaultO c ops ms ∨ FaultOneofPost ops ms
    | _ => True
  | _ => True

/-! # Documents that spell a message (C03, first sentence), declaratively

`SpellsRoot c root m t`: the document `t` is one of the admissible ways to write the message `m`:

* the members of an object may come in **any order**; a property the message holds is given
  exactly once; **explicit `null` members** may appear anywhere (for absent and for present
  properties); properties of flattened objects are members of the parent; an exposed oneof is a
  oneof object over the same message;
* a oneof object is `{}` (nothing set), or its one member with the `"!type"` member before it,
  after it, or **left out**;
* array elements and map values in order; a j5 `Any` is `"!type"` and `"value"` in either order;
* a scalar is **any** token `scalarReflectFromGo` maps to the stored value — the canonical one and
  the documented alternates (quoted / bare numbers, URL-safe or unpadded base64, RFC 3339 at any
  offset, float respellings; `Props/C03.lean` lists them as theorems); an enum is the short or the
  prefixed option name.

The definitions recurse on the document only. -/

/-- the token denotes the scalar value `vv` of kind `k` -/
def scalarSpells (O : Oracle) (k : ScalarKind) (vv : PVal) (t : PTree) : Prop :=
  t ≠ .null ∧ ∃ tok, goTok t = some tok ∧ decodeScalar O k tok = .ok (some vv)

/-- the members spell a j5 `Any` that holds `j5_json` only: `"!type"` and `"value"` in either
order, the value any complete JSON value whose compact rendering is the stored `j5_json` -/
def SpellsAny (pb : Bool) (vv : PVal) (ms : PMembers) : Prop :=
  pb = false ∧ ∃ (tn : Bytes) (V : PTree) (l1 l2 l3 : Bytes),
    vv = .anyJ5 tn [] V.render .none "" (.msg []) ∧ V.complete = true ∧ V.depth ≤ 10000 ∧
    (ms = .cons (ascii "!type") l1 (.str tn l2) (.cons (ascii "value") l3 V (.nil .closed)) ∨
     ms = .cons (ascii "value") l3 V (.cons (ascii "!type") l1 (.str tn l2) (.nil .closed)))

mutual
/-- the tree `t` spells the value `vv` of a field with schema `fld` -/
def SpellsV (c : Cfg) (fld : Field) (vv : PVal) : PTree → Prop
  | .obj ms =>
    match fld, vv with
    | .object ref, .msg fs =>
      match c.env.find ref with
      | some (.object sub) => SpellsM c sub fs [] ms
      | _ => False
    | .oneof ref, .msg fs =>
      match c.env.find ref with
      | some (.oneof ops) => SpellsO c ops fs ms
      | _ => False
    | .map item, .map kvs => SpellsMap c item kvs ms
    | .any pb, v => SpellsAny pb v ms
    | _, _ => False
  | .arr xs =>
    match fld, vv with
    | .array item, .list vs => SpellsE c item vs xs
    | _, _ => False
  | t =>
    match fld with
    | .scalar k => scalarSpells c.O k vv t
    | .enum ref =>
      match t, c.env.find ref, vv with
      | .str s _, some (.enum pfx opts), .enum n => enumOptionByName pfx opts s = some n
      | _, _, _ => False
    | _ => False
/-- the members spell the object message `fs`; `used` = JSON names of the properties given so far -/
def SpellsM (c : Cfg) (props : List PropDef) (fs : Fields) (used : List Bytes) : PMembers → Prop
  | .nil term =>
    term = .closed ∧ ∀ p ∈ props, p.jsonName ∉ used →
      (p.path ≠ [] → getPath fs p.path = none) ∧
      (p.path = [] → ∀ q ∈ exposedOps c.env p, getPath fs q.path = none)
  | .cons k _ v rest =>
    ∃ p, findProp props k = some p ∧
      ((v = .null ∧ SpellsM c props fs used rest) ∨
       (k ∉ used ∧ p.path ≠ [] ∧
         (∃ vv, getPath fs p.path = some vv ∧ SpellsV c p.field vv v) ∧
         SpellsM c props fs (k :: used) rest) ∨
       (k ∉ used ∧ p.path = [] ∧ SpellsX c (exposedOps c.env p) fs v ∧
         SpellsM c props fs (k :: used) rest))
/-- the value of an exposed-oneof member: a oneof object over the enclosing message -/
def SpellsX (c : Cfg) (ops : List PropDef) (fs : Fields) : PTree → Prop
  | .obj ms' => SpellsO c ops fs ms'
  | _ => False
/-- the members spell a oneof over the message `fs` -/
def SpellsO (c : Cfg) (ops : List PropDef) (fs : Fields) : PMembers → Prop
  | .nil term => term = .closed ∧ ∀ q ∈ ops, getPath fs q.path = none
  | .cons k1 _ v1 (.nil term) =>
    term = .closed ∧ k1 ≠ ascii "!type" ∧
      ∃ q kk vv, findProp ops k1 = some q ∧ q.path = [kk] ∧ aget kk fs = some vv ∧
        (∀ q' ∈ ops, q'.path ≠ [kk] → getPath fs q'.path = none) ∧ SpellsV c q.field vv v1
  | .cons k1 _ v1 (.cons k2 _ v2 (.nil term)) =>
    term = .closed ∧
      ((k1 = ascii "!type" ∧ k2 ≠ ascii "!type" ∧ (∃ raw, v1 = .str k2 raw) ∧
        ∃ q kk vv, findProp ops k2 = some q ∧ q.path = [kk] ∧ aget kk fs = some vv ∧
          (∀ q' ∈ ops, q'.path ≠ [kk] → getPath fs q'.path = none) ∧ SpellsV c q.field vv v2) ∨
       (k2 = ascii "!type" ∧ k1 ≠ ascii "!type" ∧ (∃ raw, v2 = .str k1 raw) ∧
        ∃ q kk vv, findProp ops k1 = some q ∧ q.path = [kk] ∧ aget kk fs = some vv ∧
          (∀ q' ∈ ops, q'.path ≠ [kk] → getPath fs q'.path = none) ∧ SpellsV c q.field vv v1))
  | _ => False
/-- the elements spell the list, position by position -/
def SpellsE (c : Cfg) (item : Field) (vs : List PVal) : PElems → Prop
  | .nil term => term = .closed ∧ vs = []
  | .cons t rest => ∃ v vs', vs = v :: vs' ∧ SpellsV c item v t ∧ SpellsE c item vs' rest
/-- the members spell the map, entry by entry, in the stored order -/
def SpellsMap (c : Cfg) (item : Field) (kvs : List (Bytes × PVal)) : PMembers → Prop
  | .nil term => term = .closed ∧ kvs = []
  | .cons k _ t rest => ∃ v kvs', kvs = (k, v) :: kvs' ∧ SpellsV c item v t ∧ SpellsMap c item kvs' rest
end

/-- the document `t` spells the message `m` of root `root` -/
def SpellsRoot (c : Cfg) (root : String) (m : Fields) (t : PTree) : Prop :=
  match c.env.find root, t with
  | some (.object props), .obj ms => SpellsM c props m [] ms
  | some (.oneof ops), .obj ms => SpellsO c ops m ms
  | _, _ => False

/-! # What a successfully decoded document stored (C03, "stores exactly the value the document
denotes")

`StoredRoot c root m t`: every non-null member of the document `t` — at every depth: nested
objects, array elements, map values, oneof arms — is found in the message `m`, at the proto path
of its property (array elements by position, map values by key), with exactly a value its token
denotes (`scalarSpells`: a value `scalarReflectFromGo` maps the token to; enums: the number of the
named option). A value protobuf does not store (the zero value of an implicit-presence field, an
empty list or map) counts as stored when the path is unset (`storedAt`). Conversely **nothing
else is stored**: a property of an object (at every depth) is set only if the document has a
non-null member for it (`OnlyM`; oneofs with an arm member: `OnlyO`), a stored list has exactly
one value per element and a stored map exactly the document's keys, in order. The content of an
`Any` is not examined. The definitions recurse on the document only. -/

/-- `(k, v)` is a member of the object body -/
def isMember (k : Bytes) (v : PTree) : PMembers → Prop
  | .nil _ => False
  | .cons k' _ v' rest => (k' = k ∧ v' = v) ∨ isMember k v rest

/-- the keys of a member list, in order -/
def memberKeys : PMembers → List Bytes
  | .nil _ => []
  | .cons k _ _ rest => k :: memberKeys rest

/-- the leaves a property owns in the message of its object: its own proto path, or — exposed
oneof (empty path) — the paths of the members of the oneof -/
def leavesOf (env : Env) (p : PropDef) : List PropDef :=
  if p.path = [] then exposedOps env p else [p]

/-- **nothing else is stored** (object): a property one of whose leaves is set has a non-null
member -/
def OnlyM (env : Env) (props : List PropDef) (fs : Fields) (ms : PMembers) : Prop :=
  ∀ p ∈ props, (∃ q ∈ leavesOf env p, (getPath fs q.path).isSome = true) →
    ∃ v, isMember p.jsonName v ms ∧ v ≠ .null

/-- **nothing else is stored** (oneof with an arm member; a body that consists of `"!type"`
members only selects the named arm with an empty value, which is not described here) -/
def OnlyO (ops : List PropDef) (fs : Fields) (ms : PMembers) : Prop :=
  oneofKeys ms ≠ [] →
    ∀ q ∈ ops, (getPath fs q.path).isSome = true → ∃ v, isMember q.jsonName v ms ∧ v ≠ .null

/-- the value is found at the property's path — or it is a value `Message.Set` does not keep (zero
value with implicit presence, empty list / map) and the path is unset -/
def storedAt (fs : Fields) (p : PropDef) (vv : PVal) : Prop :=
  getPath fs p.path = some vv ∨
    (((p.pres == .imp && vv.isZero) || vv.isEmptyColl) = true ∧ getPath fs p.path = none)

mutual
/-- the (non-null) tree `t`, read as a value of schema `fld`, is stored as `vv` -/
def StoredV (c : Cfg) (fld : Field) (vv : PVal) : PTree → Prop
  | .obj ms =>
    match fld, vv with
    | .object ref, .msg fs =>
      match c.env.find ref with
      | some (.object sub) => StoredM c sub fs ms ∧ OnlyM c.env sub fs ms
      | _ => False
    | .oneof ref, .msg fs =>
      match c.env.find ref with
      | some (.oneof ops) => StoredO c ops fs ms ∧ OnlyO ops fs ms
      | _ => False
    | .map item, .map kvs => StoredMap c item kvs ms ∧ kvs.map (·.1) = memberKeys ms
    | .any _, _ => True
    | _, _ => False
  | .arr xs =>
    match fld, vv with
    | .array item, .list vs => StoredE c item vs xs
    | _, _ => False
  | t =>
    match fld with
    | .scalar k => scalarSpells c.O k vv t
    | .enum ref =>
      match t, c.env.find ref, vv with
      | .str s _, some (.enum pfx opts), .enum n => enumOptionByName pfx opts s = some n
      | _, _, _ => False
    | _ => False
/-- every non-null member of an object body is stored in `fs` at its property's path -/
def StoredM (c : Cfg) (props : List PropDef) (fs : Fields) : PMembers → Prop
  | .nil _ => True
  | .cons k _ v rest =>
    (v = .null ∨
      (∃ p vv, findProp props k = some p ∧ p.path ≠ [] ∧ StoredV c p.field vv v ∧ storedAt fs p vv) ∨
      (∃ p, findProp props k = some p ∧ p.path = [] ∧ StoredX c (exposedOps c.env p) fs v)) ∧
      StoredM c props fs rest
/-- the value of an exposed-oneof member: a oneof object over the *same* message -/
def StoredX (c : Cfg) (ops : List PropDef) (fs : Fields) : PTree → Prop
  | .obj ms' => StoredO c ops fs ms' ∧ OnlyO ops fs ms'
  | _ => False
/-- every non-null arm member of a oneof body is stored in `fs` (the `"!type"` member is framing) -/
def StoredO (c : Cfg) (ops : List PropDef) (fs : Fields) : PMembers → Prop
  | .nil _ => True
  | .cons k _ v rest =>
    (k = ascii "!type" ∨ v = .null ∨
      ∃ p vv, findProp ops k = some p ∧ StoredV c p.field vv v ∧ storedAt fs p vv) ∧
      StoredO c ops fs rest
/-- the stored list holds one value per element, in order -/
def StoredE (c : Cfg) (item : Field) (vs : List PVal) : PElems → Prop
  | .nil _ => vs = []
  | .cons t rest => ∃ v vs', vs = v :: vs' ∧ StoredV c item v t ∧ StoredE c item vs' rest
/-- every member of a map body is stored under its key -/
def StoredMap (c : Cfg) (item : Field) (kvs : List (Bytes × PVal)) : PMembers → Prop
  | .nil _ => True
  | .cons k _ t rest => (∃ v, mget k kvs = some v ∧ StoredV c item v t) ∧ StoredMap c item kvs rest
end

/-- the message `m` holds everything the document `t` says -/
def StoredRoot (c : Cfg) (root : String) (m : Fields) (t : PTree) : Prop :=
  match c.env.find root, t with
  | some (.object props), .obj ms => StoredM c props m ms ∧ OnlyM c.env props m ms
  | some (.oneof ops), .obj ms => StoredO c ops m ms ∧ OnlyO ops m ms
  | _, _ => False

/-- the values the elements of a scalar array denote, position by position -/
def elemsDenote (O : Oracle) (k : ScalarKind) : List PVal → PElems → Prop
  | vs, .nil _ => vs = []
  | [], .cons _ _ => False
  | v :: vs, .cons t rest =>
    (∃ tok, goTok t = some tok ∧ decodeScalar O k tok = .ok (some v)) ∧ elemsDenote O k vs rest

/-! # The document equivalent to a scalar query parameter (C03: "scalar values supplied as URL
query parameters produce the same message as the canonical spelling")

`a.b.c=v` is the document `{"a":{"b":{"c":V}}}` where `V` is `true` / `false` for a boolean
field given as `true` / `false` (`queryGoValue`) and the string `"v"` otherwise; the segments are
the JSON names as written. -/

/-- the JSON value of a scalar query parameter -/
def queryLeafTree (k : ScalarKind) (s : Bytes) : PTree :=
  match queryGoValue k s with
  | .bool b => .bool b
  | _ => .str s []

/-- the value tree for the path `segs` below the property set `props`; `none` when the path does
not lead through object / oneof containers to a scalar or enum property -/
def queryValueTree (c : Cfg) : List Bytes → List PropDef → Bytes → Option (Bytes × PTree)
  | [], _, _ => none
  | [seg], props, s =>
    match findProp props seg with
    | some p =>
      match p.field with
      | .scalar k => some (seg, queryLeafTree k s)
      | .enum _ => some (seg, .str s [])
      | _ => none
    | none => none
  | seg :: seg2 :: rest, props, s =>
    match findProp props seg with
    | some p =>
      match p.field with
      | .object ref =>
        match c.env.find ref with
        | some (.object sub) =>
          (queryValueTree c (seg2 :: rest) sub s).map fun kv =>
            (seg, .obj (.cons kv.1 [] kv.2 (.nil .closed)))
        | _ => none
      | .oneof ref =>
        match c.env.find ref with
        | some (.oneof ops) =>
          (queryValueTree c (seg2 :: rest) ops s).map fun kv =>
            (seg, .obj (.cons kv.1 [] kv.2 (.nil .closed)))
        | _ => none
      | _ => none
    | none => none

/-- the document equivalent to the query `segs.join(".") = s` -/
def queryDoc (c : Cfg) (segs : List Bytes) (props : List PropDef) (s : Bytes) : Option PTree :=
  (queryValueTree c segs props s).map fun kv => .obj (.cons kv.1 [] kv.2 (.nil .closed))

end J5V.Codec
