import J5V.Codec.Decode
/-!
# Documents with a fault (C03, second sentence), declaratively

`FaultV c fld t`: the JSON value `t`, read for a field of schema `fld`, contains — at the value
itself or at *any* nesting position below it (member of a nested object, array element, map value,
oneof arm) — a member that cannot be represented in its target field:

* wrong JSON type (an object / array where a scalar is expected and vice versa, a non-string enum),
* a scalar token `scalarReflectFromGo` rejects (unparsable or out-of-range number, invalid base64 /
  date / decimal / timestamp text — the scalar-level theorems of `Props/C03.lean` list the classes),
* an unknown enum name, an unknown key,
* more than one key in a oneof, a `"!type"` that contradicts the key present,
* a `null` array element / map value,
* (also rejected, though not in the property's list: a duplicate key with two non-null values, a
  truncated container).

Everything *around* the fault is arbitrary: other members may be anything. The definitions recurse
on the tree only (never on decoder state).
-/
namespace J5V.Codec
open J5V.Go J5V.Json

/-- a later member with key `k` and a non-null value -/
def hasNonNull (k : Bytes) : PMembers → Prop
  | .nil _ => False
  | .cons k' _ v rest => (k' = k ∧ v ≠ .null) ∨ hasNonNull k rest

/-- a later member with key `k` -/
def hasKey (k : Bytes) : PMembers → Prop
  | .nil _ => False
  | .cons k' _ _ rest => k' = k ∨ hasKey k rest

/-- the keys of a oneof body other than `"!type"` (`foundKeys`) -/
def oneofKeys : PMembers → List Bytes
  | .nil _ => []
  | .cons k _ _ rest => if k = ascii "!type" then oneofKeys rest else k :: oneofKeys rest

/-- the terminator of a member list -/
def membersTerm : PMembers → Term
  | .nil t => t
  | .cons _ _ _ rest => membersTerm rest

/-- the post-check faults of a oneof body: more than one key, or a `"!type"` that contradicts the
key present / names no member -/
def FaultOneofPost (ops : List PropDef) (ms : PMembers) : Prop :=
  match oneofKeys ms, finalType ms none with
  | _ :: _ :: _, _ => True
  | [k], some name => k ≠ name
  | [], some name => findProp ops name = none
  | _, _ => False

mutual
/-- the value `t` of a field with schema `fld` contains a fault -/
def FaultV (c : Cfg) (fld : Field) : PTree → Prop
  | .null => False
  | .obj ms =>
    match fld with
    | .object ref =>
      match c.env.find ref with
      | some (.object sub) => FaultM c sub ms
      | _ => True
    | .oneof ref =>
      match c.env.find ref with
      | some (.oneof ops) => FaultO c ops ms ∨ FaultOneofPost ops ms
      | _ => True
    | .map item => FaultMap c item ms
    | .any _ => False
    | _ => True          -- an object where a scalar / enum / array is expected
  | .arr xs =>
    match fld with
    | .array item => FaultE c item xs
    | _ => True          -- an array where something else is expected
  | t =>
    match fld with
    | .scalar k =>
      match goTok t with
      | some tok => ∃ e, decodeScalar c.O k tok = .err e
      | none => True
    | .enum ref =>
      match t, c.env.find ref with
      | .str s _, some (.enum pfx opts) => enumOptionByName pfx opts s = none
      | _, _ => True
    | _ => True          -- a scalar where a container is expected
/-- the members of an object contain a fault -/
def FaultM (c : Cfg) (props : List PropDef) : PMembers → Prop
  | .nil term => term ≠ .closed
  | .cons k _ v rest =>
    findProp props k = none ∨
    (∃ p, findProp props k = some p ∧ FaultV c p.field v) ∨
    (v ≠ .null ∧ hasNonNull k rest) ∨
    FaultM c props rest
/-- the body of a oneof contains a fault (a fault of the key / value itself; the post-checks are
in `FaultOneof`) -/
def FaultO (c : Cfg) (ops : List PropDef) : PMembers → Prop
  | .nil term => term ≠ .closed
  | .cons k _ v rest =>
    (k = ascii "!type" ∧ (∀ s raw, v ≠ .str s raw)) ∨
    (k ≠ ascii "!type" ∧ findProp ops k = none) ∨
    (k ≠ ascii "!type" ∧ ∃ p, findProp ops k = some p ∧ FaultV c p.field v) ∨
    FaultO c ops rest
/-- the elements of an array contain a fault -/
def FaultE (c : Cfg) (item : Field) : PElems → Prop
  | .nil term => term ≠ .closed
  | .cons v rest => v = .null ∨ FaultV c item v ∨ FaultE c item rest
/-- the values of a map contain a fault -/
def FaultMap (c : Cfg) (item : Field) : PMembers → Prop
  | .nil term => term ≠ .closed
  | .cons k _ v rest => v = .null ∨ FaultV c item v ∨ hasKey k rest ∨ FaultMap c item rest
end

/-- the document `t` for root `root` contains a fault -/
def FaultRoot (c : Cfg) (root : String) (t : PTree) : Prop :=
  match c.env.find root with
  | some (.object props) =>
    match t with
    | .obj ms => FaultM c props ms
    | _ => True
  | some (.oneof ops) =>
    match t with
    | .obj ms => FaultO c ops ms ∨ FaultOneofPost ops ms
    | _ => True
  | _ => True

end J5V.Codec
