import J5V.Codec.RoundtripFlat
import J5V.Codec.WireProofs
import J5V.Codec.AnyProofs
import J5V.Codec.TreeDepth
/-!
# The induction on the encoder's fuel (C01, environments with flattened objects, exposed oneofs,
proto oneofs — `Env.flat`)

`RTP c f`: at fuel `f` (enough for the value at hand: five levels of the encoder's mutual
recursion per nesting level) the encoder **succeeds** on every representable value and the decoder
reads the tree back to exactly that value.
-/
namespace J5V.Codec
open J5V.Go J5V.Json

/-! ## depth bounds -/

theorem depthList_mem (xs : List PVal) (v : PVal) (h : v ∈ xs) : v.depth ≤ depthList xs := by
  induction xs with
  | nil => cases h
  | cons a t ih =>
    simp only [depthList]
    rcases List.mem_cons.mp h with rfl | h'
    · exact Nat.le_max_left _ _
    · exact Nat.le_trans (ih h') (Nat.le_max_right _ _)

theorem depthMap_mem (kvs : List (Bytes × PVal)) (k : Bytes) (v : PVal) (h : (k, v) ∈ kvs) :
    v.depth ≤ depthMap kvs := by
  induction kvs with
  | nil => cases h
  | cons kv t ih =>
    obtain ⟨k', v'⟩ := kv
    simp only [depthMap]
    rcases List.mem_cons.mp h with heq | h'
    · cases heq; exact Nat.le_max_left _ _
    · exact Nat.le_trans (ih h') (Nat.le_max_right _ _)

/-! ## folds of successes succeed -/

theorem foldr_consElem_ok {α : Type} (g : α → Outcome PTree) (xs : List α)
    (h : ∀ x ∈ xs, ∃ t, g x = .ok t) :
    ∃ es, xs.foldr (fun x acc => consElem (g x) acc) (.ok (.nil .closed)) = .ok es := by
  induction xs with
  | nil => exact ⟨_, rfl⟩
  | cons x xs ih =>
    obtain ⟨t, ht⟩ := h x List.mem_cons_self
    obtain ⟨es, hes⟩ := ih (fun y hy => h y (List.mem_cons_of_mem _ hy))
    exact ⟨.cons t es, by rw [List.foldr_cons, hes, ht]; rfl⟩

theorem foldr_consMember_ok {α : Type} (g : α → Outcome (Option (Bytes × Bytes × PTree)))
    (xs : List α) (h : ∀ x ∈ xs, ∃ r, g x = .ok r) :
    ∃ ms, xs.foldr (fun x acc => consMember (g x) acc) (.ok (.nil .closed)) = .ok ms := by
  induction xs with
  | nil => exact ⟨_, rfl⟩
  | cons x xs ih =>
    obtain ⟨r, hr⟩ := h x List.mem_cons_self
    obtain ⟨ms, hms⟩ := ih (fun y hy => h y (List.mem_cons_of_mem _ hy))
    cases r with
    | none => exact ⟨ms, by rw [List.foldr_cons, hms, hr]; rfl⟩
    | some e =>
      obtain ⟨k, kr, t⟩ := e
      exact ⟨.cons k kr t ms, by rw [List.foldr_cons, hms, hr]; rfl⟩

theorem member_ok (name : Bytes) (t : PTree) (h : isValidUtf8 name = true) :
    ∃ lit, member name (.ok t) = .ok (some (name, lit, t)) := by
  obtain ⟨lit, hl⟩ := (appendString_total name).2.1 h
  exact ⟨lit, by simp [member, hl]⟩

theorem mapOk_mem (env : Env) (O : Oracle) (item : Field) :
    ∀ (kvs : List (Bytes × PVal)) (seen : List Bytes), mapOk env O item seen kvs = true →
      ∀ kv ∈ kvs, isValidUtf8 kv.1 = true ∧ valOk env O item kv.2 = true := by
  intro kvs
  induction kvs with
  | nil => intro _ _ kv h; cases h
  | cons a t ih =>
    intro seen hok kv hkv
    obtain ⟨k, v⟩ := a
    obtain ⟨_, hu, hv, hrest⟩ := mapOk_cons _ _ _ _ _ _ _ hok
    rcases List.mem_cons.mp hkv with rfl | h'
    · exact ⟨hu, hv⟩
    · exact ih _ hrest kv h'

theorem itemSimple_field (item : Field) (h : itemSimple item = true) : fieldSimple item = true := by
  cases item <;> simp [itemSimple] at h <;> rfl

theorem typeKey_lit : ∃ lit, appendString typeKey = .ok lit :=
  (appendString_total typeKey).2.1 (by decide)

/-! ## environment facts -/

theorem nodup_map_inj {α β : Type} (f : α → β) : ∀ (l : List α), (l.map f).Nodup →
    ∀ a ∈ l, ∀ b ∈ l, f a = f b → a = b := by
  intro l
  induction l with
  | nil => intro _ a ha; cases ha
  | cons c t ih =>
    intro hnd a ha b hb hab
    simp only [List.map_cons, List.nodup_cons] at hnd
    rcases List.mem_cons.mp ha with rfl | ha'
    · rcases List.mem_cons.mp hb with rfl | hb'
      · rfl
      · exact absurd (List.mem_map.mpr ⟨b, hb', hab.symm⟩) hnd.1
    · rcases List.mem_cons.mp hb with rfl | hb'
      · exact absurd (List.mem_map.mpr ⟨a, ha', hab⟩) hnd.1
      · exact ih hnd.2 a ha' b hb' hab

theorem find_rootFlat (env : Env) (h : env.flat = true) (name : String) (r : Root)
    (hf : env.find name = some r) : rootFlat env r = true := by
  obtain ⟨d, hm, rfl⟩ := find_mem env name r hf
  unfold Env.flat at h
  simp only [Bool.and_eq_true] at h
  exact List.all_eq_true.mp h.1 d hm

theorem find_names_utf8' (env : Env) (h : env.flat = true) (name : String) (ps : List PropDef)
    (hf : env.find name = some (.object ps) ∨ env.find name = some (.oneof ps)) :
    ∀ p ∈ ps, isValidUtf8 p.jsonName = true := by
  unfold Env.flat at h
  simp only [Bool.and_eq_true] at h
  rcases hf with hf | hf
  · obtain ⟨d, hm, hd⟩ := find_mem env name _ hf
    have := List.all_eq_true.mp h.2 d hm
    rw [hd] at this
    exact fun p hp => List.all_eq_true.mp this p hp
  · obtain ⟨d, hm, hd⟩ := find_mem env name _ hf
    have := List.all_eq_true.mp h.2 d hm
    rw [hd] at this
    exact fun p hp => List.all_eq_true.mp this p hp

theorem rootFlat_oneof (env : Env) (ops : List PropDef) (h : rootFlat env (.oneof ops) = true) :
    rootSimple (.oneof ops) = true := h

theorem rootFlat_enum (env : Env) (pfx : Bytes) (opts : List (Bytes × Int))
    (h : rootFlat env (.enum pfx opts) = true) : rootSimple (.enum pfx opts) = true := h

theorem propExposed_inv (env : Env) (p : PropDef) (h : propExposed env p = true) :
    p.path = [] ∧ p.group = none ∧ ∃ ref ops, p.field = .oneof ref ∧ env.find ref = some (.oneof ops) := by
  unfold propExposed at h
  simp only [Bool.and_eq_true, List.isEmpty_iff, Option.isNone_iff_eq_none] at h
  obtain ⟨⟨h1, h2⟩, h3⟩ := h
  refine ⟨h1, h2, ?_⟩
  cases hf : p.field <;> simp only [hf, Bool.false_eq_true] at h3
  case oneof ref =>
    split at h3
    · next ops hfind => exact ⟨ref, ops, rfl, hfind⟩
    · cases h3

theorem propFlat_inv (p : PropDef) (h : propFlat p = true) : p.path ≠ [] ∧ fieldSimple p.field = true := by
  unfold propFlat at h
  simp only [Bool.and_eq_true, Bool.not_eq_true', List.isEmpty_eq_false_iff] at h
  exact h

/-- the facts about an object root of a flat environment -/
theorem object_root_facts (env : Env) (props : List PropDef) (h : rootFlat env (.object props) = true) :
    (∀ p ∈ props, propFlat p = true ∨ propExposed env p = true) ∧
    (props.map (·.jsonName)).Nodup ∧ ((leafEntries env props).map (·.1)).Nodup ∧ LeafH env props := by
  simp only [rootFlat, Bool.and_eq_true, decide_eq_true_eq] at h
  obtain ⟨⟨⟨hall, hnames⟩, hpaths⟩, hpf⟩ := h
  refine ⟨?_, hnames, hpaths, ?_⟩
  · intro p hp
    have := List.all_eq_true.mp hall p hp
    simpa using this
  · intro a ha b hb hpre
    unfold prefixFree at hpf
    have := List.all_eq_true.mp (List.all_eq_true.mp hpf a.1 (List.mem_map.mpr ⟨a, ha, rfl⟩)) b.1
      (List.mem_map.mpr ⟨b, hb, rfl⟩)
    simp only [Bool.or_eq_true, beq_iff_eq, Bool.not_eq_true'] at this
    rcases this with h1 | h1
    · exact nodup_map_inj (·.1) _ hpaths a ha b hb h1
    · have := List.isPrefixOf_iff_prefix.mpr hpre
      rw [this] at h1; cases h1

theorem simple_no_flatten (ops : List PropDef) (h : ∀ p ∈ ops, propSimple p = true) :
    ∀ p ∈ ops, p.path.length ≤ 1 := by
  intro p hp
  obtain ⟨k, hk⟩ := propSimple_path p (h p hp); rw [hk]; simp

end J5V.Codec

namespace J5V.Codec
open J5V.Go J5V.Json

/-! ## the induction -/

structure RTP (c : Cfg) (f : Nat) : Prop where
  val : ∀ fld v, fieldSimple fld = true → valOk c.env c.O fld v = true → 5 * v.depth + 1 ≤ f →
    modeOk c.protoToAny f c.anyDepth v = true →
    ∃ t, encValue c.env c.O f fld v = .ok t ∧ Dec c fld v t ∧
      (OracleWire c.O → Wire.Conforms c.env c.O fld v t)
  obj : ∀ props fs, rootFlat c.env (.object props) = true →
    (∀ p ∈ props, isValidUtf8 p.jsonName = true) → asorted fs = true →
    fieldsOk c.env c.O props fs = true → groupsOk props fs = true → exposedOk c.env props fs = true →
    5 * depthFields fs + 5 ≤ f → modeOkF c.protoToAny f c.anyDepth fs = true →
    ∃ ms S, encObjectBody c.env c.O f props fs = .ok (.obj ms) ∧
      decObjMembers c props ms { m := [], seen := [] } = .ok ({ m := fs, seen := S }, .closed) ∧
      (OracleWire c.O → Wire.MembersConform c.env c.O fs props ms)
  one : ∀ ops fs, rootSimple (.oneof ops) = true → (∀ p ∈ ops, isValidUtf8 p.jsonName = true) →
    (ops.filter (isSet fs)).length ≤ 1 →
    (∀ q ∈ ops, ∀ k v, q.path = [k] → aget k fs = some v →
      valOk c.env c.O q.field v = true ∧ (q.pres == .imp && v.isZero) = false) →
    5 * depthFields fs + 3 ≤ f → modeOkF c.protoToAny f c.anyDepth fs = true →
    OneShape c ops fs (encOneofBody c.env c.O f ops fs)

/-- the filter `encodeOneofBody` / `GetOne` applies is "the member's field is populated" -/
theorem oneofSet_eq (env : Env) (f : Nat) (ops : List PropDef) (fs : Fields)
    (hroot : rootSimple (.oneof ops) = true) :
    ops.filter (oneofSet env (f + 1) ops fs) = ops.filter (isSet fs) := by
  obtain ⟨hsimple, hnames, _, _⟩ := oneof_root_facts ops hroot
  apply List.filter_congr
  intro q hq
  unfold oneofSet
  rw [findProp_self ops hnames q hq]
  obtain ⟨k, hk⟩ := propSimple_path q (hsimple q hq)
  simp only [hasProp_single env f q k fs hk, isSet_single fs q k hk]

theorem RTP_one (c : Cfg) (f : Nat) (ih : ∀ f' < f + 1, RTP c f') :
    ∀ ops fs, rootSimple (.oneof ops) = true → (∀ p ∈ ops, isValidUtf8 p.jsonName = true) →
      (ops.filter (isSet fs)).length ≤ 1 →
      (∀ q ∈ ops, ∀ k v, q.path = [k] → aget k fs = some v →
        valOk c.env c.O q.field v = true ∧ (q.pres == .imp && v.isZero) = false) →
      5 * depthFields fs + 3 ≤ f + 1 → modeOkF c.protoToAny (f + 1) c.anyDepth fs = true →
      OneShape c ops fs (encOneofBody c.env c.O (f + 1) ops fs) := by
  intro ops fs hroot hutf hle hvals hd hM
  obtain ⟨hsimple, hnames, _, _⟩ := oneof_root_facts ops hroot
  simp only [encOneofBody]
  rw [oneofSet_eq c.env f ops fs hroot]
  rcases length_le_one_cases _ hle with hnil | ⟨q, hone⟩
  · rw [hnil]; exact OneShape.empty hnil
  · rw [hone]
    have hqf : q ∈ ops.filter (isSet fs) := by rw [hone]; exact List.mem_singleton.mpr rfl
    obtain ⟨hq, hset⟩ := List.mem_filter.mp hqf
    obtain ⟨k, hqk⟩ := propSimple_path q (hsimple q hq)
    rw [isSet_single fs q k hqk] at hset
    cases hag : aget k fs with
    | none => simp [hag] at hset
    | some v =>
      obtain ⟨hvok, hz⟩ := hvals q hq k v hqk hag
      simp only [findProp_self ops hnames q hq]
      obtain ⟨nlit, hnl⟩ := strNode_ok q.jsonName (hutf q hq)
      obtain ⟨tlit, htl⟩ := typeKey_lit
      simp only [hnl, htl]
      have hdv := depthFields_mem fs k v (aget_mem k v fs hag)
      obtain ⟨f', rfl⟩ : ∃ f', f = f' + 1 := ⟨f - 1, by omega⟩
      rw [encField_single c.env c.O f' q k fs hqk]
      simp only [hag]
      obtain ⟨tv, htv, hdec, hcf⟩ := (ih f' (by omega)).val q.field v (propSimple_field q (hsimple q hq)) hvok
        (by omega) (modeOk_anti _ _ _ (by omega) v _ (modeOk_aget _ _ _ fs k v hM hag))
      simp only [htv]
      obtain ⟨qlit, hql⟩ := member_ok q.jsonName tv (hutf q hq)
      simp only [hql]
      exact OneShape.one q k v tlit nlit qlit tv hone hq hqk hag hdec hcf hz
        (valOk_not_emptyColl _ _ _ _ hvok)

end J5V.Codec

namespace J5V.Codec
open J5V.Go J5V.Json

/-! ## owners of leaf keys -/

/-! ## a wrapper oneof holds at most one field -/

theorem filter_length_le_one {α β : Type} (f : α → β) (P : α → Bool) (c : β) (l : List α)
    (hnd : (l.map f).Nodup) (h : ∀ a ∈ l.filter P, f a = c) : (l.filter P).length ≤ 1 := by
  have hsub : ((l.filter P).map f).Nodup :=
    List.Nodup.sublist (List.Sublist.map f List.filter_sublist) hnd
  cases hl : l.filter P with
  | nil => simp
  | cons a t =>
    cases t with
    | nil => simp
    | cons b r =>
      exfalso
      rw [hl] at hsub h
      have ha := h a List.mem_cons_self
      have hb := h b (List.mem_cons_of_mem _ List.mem_cons_self)
      simp only [List.map_cons, List.nodup_cons, List.mem_cons, not_or] at hsub
      exact hsub.1.1 (by rw [ha, hb])

theorem single_store (fs : Fields) (k : Nat) (v : PVal) (hlen : fs.length ≤ 1)
    (h : aget k fs = some v) : fs = [(k, v)] := by
  rcases length_le_one_cases fs hlen with rfl | ⟨⟨k0, v0⟩, rfl⟩
  · simp [aget] at h
  · simp only [aget] at h
    by_cases hk : k = k0
    · rw [if_pos hk] at h; cases h; rw [hk]
    · rw [if_neg hk] at h; simp [aget] at h

/-- the members of a wrapper oneof: values are representable, at most one is set -/
theorem oneof_store_facts (c : Cfg) (ops : List PropDef) (fs : Fields)
    (hroot : rootSimple (.oneof ops) = true) (hfok : fieldsOk c.env c.O ops fs = true) :
    (∀ q ∈ ops, ∀ k v, q.path = [k] → aget k fs = some v →
      valOk c.env c.O q.field v = true ∧ (q.pres == .imp && v.isZero) = false) := by
  obtain ⟨hsimple, _, hpaths, _⟩ := oneof_root_facts ops hroot
  intro q hq k v hqk hag
  obtain ⟨p, hfp, hvok, hz⟩ := fieldsOk_mem _ _ ops fs (simple_no_flatten ops hsimple) hfok k v
    (aget_mem k v fs hag)
  obtain ⟨hp, hpk⟩ := leafProp_simple c.env ops k p hsimple hfp
  have : p = q := nodup_map_inj (·.path) ops hpaths p hp q hq (by rw [hpk, hqk])
  subst this
  exact ⟨hvok, hz⟩

theorem oneof_store_le (ops : List PropDef) (fs : Fields) (hroot : rootSimple (.oneof ops) = true)
    (hlen : fs.length ≤ 1) : (ops.filter (isSet fs)).length ≤ 1 := by
  obtain ⟨hsimple, _, hpaths, _⟩ := oneof_root_facts ops hroot
  rcases length_le_one_cases fs hlen with rfl | ⟨⟨k0, v0⟩, rfl⟩
  · have : ops.filter (isSet ([] : Fields)) = [] := by
      apply List.filter_eq_nil_iff.mpr
      intro q hq
      obtain ⟨k, hk⟩ := propSimple_path q (hsimple q hq)
      rw [isSet_single _ q k hk]; simp [aget]
    rw [this]; simp
  · apply filter_length_le_one (·.path) _ [k0] ops hpaths
    intro q hq
    obtain ⟨hqm, hset⟩ := List.mem_filter.mp hq
    obtain ⟨k, hk⟩ := propSimple_path q (hsimple q hqm)
    rw [isSet_single _ q k hk] at hset
    simp only [aget] at hset
    by_cases hkk : k = k0
    · rw [hk, hkk]
    · rw [if_neg hkk] at hset; simp [aget] at hset

/-! ## values -/

/-- the members of a oneof that are not the one set are unset, as paths -/
theorem others_unset_paths (ops : List PropDef) (fs : Fields) (q : PropDef) (k : Nat)
    (hroot : rootSimple (.oneof ops) = true) (hone : ops.filter (isSet fs) = [q]) (hqk : q.path = [k]) :
    ∀ q' ∈ ops, q'.path ≠ q.path → getPath fs q'.path = none := by
  obtain ⟨hsimple, _, _, _⟩ := oneof_root_facts ops hroot
  intro q' hq' hne
  obtain ⟨k', hk'⟩ := propSimple_path q' (hsimple q' hq')
  rw [hk']
  have hkk : k' ≠ k := by intro e; apply hne; rw [hk', hqk, e]
  simpa [getPath] using filter_one_others ops fs q k hone hqk q' hq' k' hk' hkk

theorem oneofConforms_of_shape (c : Cfg) (ops : List PropDef) (fs : Fields) (r : Outcome PTree)
    (hroot : rootSimple (.oneof ops) = true) (W : OracleWire c.O) (h : OneShape c ops fs r) :
    ∃ t, r = .ok t ∧ Wire.OneofConforms c.env c.O fs ops t := by
  obtain ⟨hsimple, _, _, _⟩ := oneof_root_facts ops hroot
  cases h with
  | empty hnil =>
    refine ⟨_, rfl, Wire.OneofConforms.empty fs ops ?_⟩
    intro q hq
    obtain ⟨k, hk⟩ := propSimple_path q (hsimple q hq)
    rw [hk]; simpa [getPath] using filter_nil_unset ops fs hnil q hq k hk
  | one q k v tlit nlit qlit tv hone hq hqk hag hdec hcf hz hec =>
    exact ⟨_, rfl, Wire.OneofConforms.set fs ops q v tv tlit nlit qlit hq
      (by rw [hqk]; simpa [getPath] using hag) (others_unset_paths ops fs q k hroot hone hqk) (hcf W)⟩

theorem elemsConform_of_all (env : Env) (O : Oracle) (item : Field) (g : PVal → Outcome PTree) :
    ∀ (xs : List PVal) (ts : List PTree), AllEnc g xs ts →
      (∀ x ∈ xs, ∀ t, g x = .ok t → Wire.Conforms env O item x t) →
      Wire.ElemsConform env O item xs (elemsOf ts) := by
  intro xs
  induction xs with
  | nil =>
    intro ts h _
    cases ts with
    | nil => exact Wire.ElemsConform.nil item
    | cons a b => exact absurd h (by simp [AllEnc])
  | cons x xs ih =>
    intro ts h hc
    cases ts with
    | nil => exact absurd h (by simp [AllEnc])
    | cons t ts =>
      obtain ⟨hx, hr⟩ := h
      exact Wire.ElemsConform.cons item x xs t (elemsOf ts) (hc x List.mem_cons_self t hx)
        (ih ts hr (fun y hy => hc y (List.mem_cons_of_mem _ hy)))

theorem mapConform_of_all (env : Env) (O : Oracle) (item : Field) (g : PVal → Outcome PTree) :
    ∀ (kvs : List (Bytes × PVal)) (es : List (Bytes × Bytes × PTree)), AllEncMap g kvs es →
      (∀ kv ∈ kvs, ∀ t, g kv.2 = .ok t → Wire.Conforms env O item kv.2 t) →
      Wire.MapConform env O item kvs (membersOf es) := by
  intro kvs
  induction kvs with
  | nil =>
    intro es h _
    cases es with
    | nil => exact Wire.MapConform.nil item
    | cons a b => obtain ⟨x, y, z⟩ := a; exact absurd h (by simp [AllEncMap])
  | cons kv kvs ih =>
    intro es h hc
    obtain ⟨k, v⟩ := kv
    cases es with
    | nil => exact absurd h (by simp [AllEncMap])
    | cons e es =>
      obtain ⟨k', lit, t⟩ := e
      obtain ⟨rfl, _, hg, hr⟩ := h
      exact Wire.MapConform.cons item k' v kvs t lit (membersOf es) (hc (k', v) List.mem_cons_self t hg)
        (ih es hr (fun y hy => hc y (List.mem_cons_of_mem _ hy)))

/-- the round trip of a root message, given the induction's facts at fuel `F` -/
theorem root_of_RTP' (c : Cfg) (hs : c.env.flat = true) (root : String) (m : Fields)
    (hok : valOk c.env c.O (.object root) (.msg m) = true ∨ valOk c.env c.O (.oneof root) (.msg m) = true)
    (F : Nat) (R : RTP c F) (hF : 5 * depthFields m + 5 ≤ F)
    (hM : modeOkF c.protoToAny F c.anyDepth m = true) :
    ∃ t, encRoot c.env c.O (F + 1) root (.msg m) = .ok t ∧ decRootTree c root t = .ok m ∧
      (OracleWire c.O → Wire.RootConforms c.env c.O root m t) := by
  rcases hok with hok | hok
  · obtain ⟨fs, props, hv, hfind, hsort, hfok, hgrp, hexp⟩ := valOk_object _ _ root _ hok
    cases hv
    obtain ⟨ms, S, henc, hdec, hcf⟩ := R.obj props m
      (find_rootFlat c.env hs root _ hfind) (find_names_utf8' c.env hs root props (Or.inl hfind))
      hsort hfok hgrp hexp (by omega) hM
    refine ⟨.obj ms, ?_, ?_, fun W => Or.inl ⟨props, ms, hfind, rfl, hcf W⟩⟩
    · show encRoot c.env c.O (F + 1) root (.msg m) = .ok (.obj ms)
      simp only [encRoot, hfind]; exact henc
    · simp [decRootTree, hfind, hdec, finishObject, closeOk]
  · obtain ⟨fs, ops, hv, hfind, hsort, hfok, hlen⟩ := valOk_oneof _ _ root _ hok
    cases hv
    have hroot := rootFlat_oneof c.env ops (find_rootFlat c.env hs root _ hfind)
    have hshape := R.one ops m hroot
      (find_names_utf8' c.env hs root ops (Or.inr hfind)) (oneof_store_le ops m hroot hlen)
      (oneof_store_facts c ops m hroot hfok) (by omega) hM
    have henc : encRoot c.env c.O (F + 1) root (.msg m) =
        encOneofBody c.env c.O F ops m := by
      simp only [encRoot, hfind]
    show ∃ t, encRoot c.env c.O (F + 1) root (.msg m) = .ok t ∧ _
    rw [henc]
    have hconf : OracleWire c.O → ∀ t, encOneofBody c.env c.O F ops m = .ok t →
        Wire.RootConforms c.env c.O root m t := by
      intro W t ht
      obtain ⟨t', ht', hoc⟩ := oneofConforms_of_shape c ops m _ hroot W hshape
      rw [ht] at ht'; cases ht'
      exact Or.inr ⟨ops, hfind, hoc⟩
    generalize encOneofBody c.env c.O F ops m = r at hshape hconf
    cases hshape with
    | empty hnil =>
      have hfs : m = [] := by
        rcases length_le_one_cases m hlen with h | ⟨⟨k0, v0⟩, h⟩
        · exact h
        · exfalso
          subst h
          obtain ⟨hsimple, _, _, _⟩ := oneof_root_facts ops hroot
          obtain ⟨p, hfp, _, _⟩ := fieldsOk_mem _ _ ops _ (simple_no_flatten ops hsimple) hfok k0 v0
            List.mem_cons_self
          obtain ⟨hp, hpk⟩ := leafProp_simple c.env ops k0 p hsimple hfp
          have := filter_nil_unset ops _ hnil p hp k0 hpk
          simp [aget] at this
      subst hfs
      exact ⟨_, rfl, by simp [decRootTree, hfind, decOneofMembers, finishOneof, oneofPost, closeOk, applyPost],
        fun W => hconf W _ rfl⟩
    | one q k v tlit nlit qlit tv hone hq hqk hag hdec hcf hz hec =>
      have hfs : m = [(k, v)] := single_store m k v hlen hag
      obtain ⟨hloop, hpost⟩ := decOneof_one c ops hroot q k v tlit nlit qlit tv [] hq hqk hdec hz hec rfl
        (fun _ _ _ _ _ => rfl)
      refine ⟨_, rfl, ?_, fun W => hconf W _ rfl⟩
      have : aset k v ([] : Fields) = m := by rw [hfs]; rfl
      rw [this] at hloop hpost
      simp [decRootTree, hfind, hloop, finishOneof, closeOk, hpost, applyPost]

/-- the round trip of a root message, given the induction's facts at fuel `F` -/
theorem root_of_RTP (c : Cfg) (hs : c.env.flat = true) (root : String) (m : Fields)
    (hok : valOk c.env c.O (.object root) (.msg m) = true ∨ valOk c.env c.O (.oneof root) (.msg m) = true)
    (F : Nat) (R : RTP c F) (hF : 5 * depthFields m + 5 ≤ F)
    (hM : modeOkF c.protoToAny F c.anyDepth m = true) :
    ∃ t, encRoot c.env c.O (F + 1) root (.msg m) = .ok t ∧ decRootTree c root t = .ok m := by
  obtain ⟨t, h1, h2, _⟩ := root_of_RTP' c hs root m hok F R hF hM
  exact ⟨t, h1, h2⟩


theorem RTP_val (c : Cfg) (hs : c.env.flat = true) (L : OracleLaws c.O) (f : Nat)
    (ih : ∀ f' < f + 1, RTP c f')
    (ihD : ∀ f' < f + 1, RTP { c with anyDepth := c.anyDepth + 1 } f') :
    ∀ fld v, fieldSimple fld = true → valOk c.env c.O fld v = true → 5 * v.depth + 1 ≤ f + 1 →
      modeOk c.protoToAny (f + 1) c.anyDepth v = true →
      ∃ t, encValue c.env c.O (f + 1) fld v = .ok t ∧ Dec c fld v t ∧
        (OracleWire c.O → Wire.Conforms c.env c.O fld v t) := by
  intro fld v hfs hok hd hM
  cases fld with
  | scalar k =>
    have hsok := valOk_scalar _ _ k v hok
    obtain ⟨t, _, ht, _⟩ := scalarNode_roundtrip c.O L k v hsok
    refine ⟨t, by simp only [encValue]; exact ht, Dec_scalar c L k v t hsok ht, ?_⟩
    intro W
    obtain ⟨t', ht', hc⟩ := scalar_conforms c.O L k (fun _ => W) v hsok
    rw [ht] at ht'; cases ht'
    exact Wire.Conforms.scalar k v t hc
  | «enum» ref =>
    obtain ⟨n, pfx, opts, rfl, hfind, hsome⟩ := valOk_enum _ _ ref v hok
    cases hn : optionByNumber opts n with
    | none => simp [hn] at hsome
    | some name =>
      have hroot := rootFlat_enum c.env pfx opts (find_rootFlat c.env hs ref _ hfind)
      simp only [rootSimple, Bool.and_eq_true, decide_eq_true_eq] at hroot
      obtain ⟨o, hom, hon⟩ := optionByNumber_mem opts n name hn
      have hutf : isValidUtf8 name = true := by
        have := List.all_eq_true.mp hroot.2 o hom
        rw [← hon]; exact this
      obtain ⟨lit, hl⟩ := strNode_ok name hutf
      have hmem : (name, n) ∈ opts := by
        unfold optionByNumber at hn
        cases hf : opts.find? (fun o => o.2 == n) with
        | none => simp [hf] at hn
        | some o' =>
          simp only [hf, Option.map_some, Option.some.injEq] at hn
          have h1 := List.mem_of_find?_eq_some hf
          have h2 : o'.2 = n := by simpa using List.find?_some hf
          have : o' = (name, n) := Prod.ext hn h2
          rw [← this]; exact h1
      exact ⟨_, by simp only [encValue, hfind, hn]; exact hl,
        Dec_enum c ref pfx opts n name lit hfind (enum_roundtrip pfx opts hroot.1.1 n name hn),
        fun _ => Wire.Conforms.enum ref pfx opts n name lit hfind hmem⟩
  | object ref =>
    obtain ⟨fs, props, rfl, hfind, hsort, hfok, hgrp, hexp⟩ := valOk_object _ _ ref v hok
    simp only [PVal.depth] at hd
    obtain ⟨ms, S, henc, hdec, hcf⟩ := (ih f (Nat.lt_succ_self f)).obj props fs
      (find_rootFlat c.env hs ref _ hfind) (find_names_utf8' c.env hs ref props (Or.inl hfind))
      hsort hfok hgrp hexp (by omega)
      (modeOkF_anti c.protoToAny (f + 1) f (Nat.le_succ f) fs _ (by simpa [modeOk] using hM))
    exact ⟨.obj ms, by simp only [encValue, hfind]; exact henc, Dec_object c ref props fs ms S hfind hdec,
      fun W => Wire.Conforms.object ref props fs ms hfind (hcf W)⟩
  | oneof ref =>
    obtain ⟨fs, ops, rfl, hfind, hsort, hfok, hlen⟩ := valOk_oneof _ _ ref v hok
    simp only [PVal.depth] at hd
    have hroot := rootFlat_oneof c.env ops (find_rootFlat c.env hs ref _ hfind)
    have hvals := oneof_store_facts c ops fs hroot hfok
    have hshape := (ih f (Nat.lt_succ_self f)).one ops fs hroot
      (find_names_utf8' c.env hs ref ops (Or.inr hfind)) (oneof_store_le ops fs hroot hlen) hvals (by omega)
      (modeOkF_anti c.protoToAny (f + 1) f (Nat.le_succ f) fs _ (by simpa [modeOk] using hM))
    have henc : encValue c.env c.O (f + 1) (.oneof ref) (.msg fs) = encOneofBody c.env c.O f ops fs := by
      simp only [encValue, hfind]
    rw [henc]
    have hconf : OracleWire c.O → ∀ t, encOneofBody c.env c.O f ops fs = .ok t →
        Wire.Conforms c.env c.O (.oneof ref) (.msg fs) t := by
      intro W t ht
      obtain ⟨t', ht', hoc⟩ := oneofConforms_of_shape c ops fs _ hroot W hshape
      rw [ht] at ht'; cases ht'
      exact Wire.Conforms.oneof ref ops fs t hfind hoc
    generalize encOneofBody c.env c.O f ops fs = r at hshape hconf
    cases hshape with
    | empty hnil =>
      have hfs : fs = [] := by
        rcases length_le_one_cases fs hlen with h | ⟨⟨k0, v0⟩, h⟩
        · exact h
        · exfalso
          subst h
          obtain ⟨hsimple, _, _, _⟩ := oneof_root_facts ops hroot
          obtain ⟨p, hfp, _, _⟩ := fieldsOk_mem _ _ ops _ (simple_no_flatten ops hsimple) hfok k0 v0
            List.mem_cons_self
          obtain ⟨hp, hpk⟩ := leafProp_simple c.env ops k0 p hsimple hfp
          have := filter_nil_unset ops _ hnil p hp k0 hpk
          simp [aget] at this
      subst hfs
      exact ⟨_, rfl, Dec_oneof c ref ops [] (.nil .closed) { m := [], seen := [] } [] none hfind
        (by simp [decOneofMembers]) rfl (by simp [oneofPost]), fun W => hconf W _ rfl⟩
    | one q k v tlit nlit qlit tv hone hq hqk hag hdec hcf hz hec =>
      have hfs : fs = [(k, v)] := single_store fs k v hlen hag
      obtain ⟨hloop, hpost⟩ := decOneof_one c ops hroot q k v tlit nlit qlit tv [] hq hqk hdec hz hec rfl
        (fun _ _ _ _ _ => rfl)
      refine ⟨_, rfl, Dec_oneof c ref ops fs _ _ _ _ hfind hloop ?_ ?_, fun W => hconf W _ rfl⟩
      · rw [hfs]; rfl
      · rw [hfs]; exact hpost
  | any pb =>
    cases pb with
    | false =>
      obtain ⟨tn, j5, V, rfl, hna, hu, hj, hch, hr, hc, hd'⟩ := valOk_any _ _ v hok
      have hmode : c.protoToAny = false := by simpa [modeOk] using hM
      obtain ⟨tlit, nlit, vlit, he⟩ := enc_any_j5 c.env c.O f tn [] j5 .none "" (.msg []) hj hu
      rw [chunkNode_some c.O j5 V hch hr] at he
      refine ⟨_, he, ?_, fun _ => Wire.Conforms.anyJ5 tn [] j5 .none "" (.msg []) tlit nlit vlit V
        hj hr⟩
      have := Dec_any c hmode tn tlit nlit vlit V hc hd'
      rw [hr] at this; exact this
    | true =>
      obtain ⟨tn, iroot, fs, rfl, hne, hu, hres, hiok⟩ := valOk_anyPb _ _ v hok
      simp only [PVal.depth] at hd
      simp only [modeOk, Bool.and_eq_true, decide_eq_true_eq] at hM
      obtain ⟨⟨⟨hmode, hdepth⟩, hcap⟩, hMi⟩ := hM
      obtain ⟨F, rfl⟩ : ∃ F, f = F + 1 := ⟨f - 1, by omega⟩
      have hMi' : modeOkF c.protoToAny F (c.anyDepth + 1) fs = true :=
        modeOkF_anti c.protoToAny (F + 1 + 1) F (by omega) fs _ (by simpa [modeOk] using hMi)
      obtain ⟨data, henc, hdec, hrc⟩ := root_of_RTP' { c with anyDepth := c.anyDepth + 1 } hs iroot fs hiok F
        (ihD F (by omega)) (by omega) hMi'
      have hn5 : (PVal.msg fs).noJ5 = true := by
        have hMt : modeOkF true F (c.anyDepth + 1) fs = true := by
          have h := hMi'
          rw [hmode] at h
          exact h
        have := modeOkF_noJ5 F (c.anyDepth + 1) fs hMt
        simpa [PVal.noJ5] using this
      obtain ⟨hdd, hcc⟩ := (TD_all c.env c.O (F + 1)).root iroot (.msg fs) data hn5 henc
      obtain ⟨tlit, nlit, vlit, he⟩ := enc_any_pb c.env c.O F (anyPrefixB ++ tn) [] iroot (.msg fs) data
        henc (by rw [show anyPrefixB = anyPrefix from rfl, trimPrefix_append]; exact hu)
      rw [show anyPrefixB = anyPrefix from rfl, trimPrefix_append] at he
      refine ⟨_, he, ?_, fun W => ?_⟩
      · exact Dec_anyPb c hmode hdepth tn tlit nlit vlit data iroot fs hcc (by omega) hres hdec hne
      · rcases hrc W with ⟨props, ms, hfind, rfl, hmc⟩ | ⟨ops, hfind, hoc⟩
        · exact Wire.Conforms.anyPbObj [] tn iroot fs props tlit nlit vlit ms hres hfind hmc
        · exact Wire.Conforms.anyPbOne [] tn iroot fs ops tlit nlit vlit data hres hfind hoc
  | array item =>
    obtain ⟨xs, rfl, hlok⟩ := valOk_array _ _ item v hok
    have hi : itemSimple item = true := by simpa [fieldSimple] using hfs
    simp only [PVal.depth] at hd
    have hall : ∀ x ∈ xs, ∃ t, encValue c.env c.O f item x = .ok t ∧ Dec c item x t ∧
        (OracleWire c.O → Wire.Conforms c.env c.O item x t) := by
      intro x hx
      have hdx := depthList_mem xs x hx
      exact (ih f (Nat.lt_succ_self f)).val item x (itemSimple_field item hi)
        (listOk_mem _ _ item xs hlok x hx) (by omega)
        (modeOk_anti c.protoToAny (f + 1) f (Nat.le_succ f) x _
          (modeOk_mem_list _ _ _ xs x (by simpa [modeOk] using hM) hx))
    obtain ⟨es, hes⟩ := foldr_consElem_ok (encValue c.env c.O f item) xs
      (fun x hx => by obtain ⟨t, ht, _⟩ := hall x hx; exact ⟨t, ht⟩)
    obtain ⟨ts, hts, rfl⟩ := foldr_consElem_inv _ xs es hes
    have hdec := decElems_all c item hi (encValue c.env c.O f item) xs ts []
      (fun x hx t' ht' => by
        obtain ⟨t, ht, hd', _⟩ := hall x hx
        rw [ht] at ht'; cases ht'; exact hd') hts
    simp only [List.nil_append] at hdec
    refine ⟨.arr (elemsOf ts), ?_, Dec_array c item hi xs ts hdec, ?_⟩
    · simp only [encValue]
      cases item <;> simp only [itemSimple, Bool.false_eq_true] at hi <;> simp only [hes]
    · intro W
      exact Wire.Conforms.array item xs _ (elemsConform_of_all c.env c.O item _ xs ts hts
        (fun x hx t' ht' => by
          obtain ⟨t, ht, _, hc⟩ := hall x hx
          rw [ht] at ht'; cases ht'; exact hc W))
  | map item =>
    obtain ⟨kvs, rfl, hmok⟩ := valOk_map _ _ item v hok
    have hi : itemSimple item = true := by simpa [fieldSimple] using hfs
    simp only [PVal.depth] at hd
    have hall : ∀ kv ∈ kvs, valOk c.env c.O item kv.2 = true →
        ∃ t, encValue c.env c.O f item kv.2 = .ok t ∧ Dec c item kv.2 t ∧
          (OracleWire c.O → Wire.Conforms c.env c.O item kv.2 t) := by
      intro kv hkv hv
      have hdx := depthMap_mem kvs kv.1 kv.2 hkv
      exact (ih f (Nat.lt_succ_self f)).val item kv.2 (itemSimple_field item hi) hv (by omega)
        (modeOk_anti c.protoToAny (f + 1) f (Nat.le_succ f) kv.2 _
          (modeOk_mem_map _ _ _ kvs kv.1 kv.2 (by simpa [modeOk] using hM) hkv))
    obtain ⟨ms, hms⟩ := foldr_consMember_ok
      (fun kv : Bytes × PVal => member kv.1 (encValue c.env c.O f item kv.2)) kvs (by
      intro kv hkv
      obtain ⟨hu, hv⟩ := mapOk_mem _ _ item kvs [] hmok kv hkv
      obtain ⟨t, ht, _⟩ := hall kv hkv hv
      obtain ⟨lit, hl⟩ := member_ok kv.1 t hu
      exact ⟨_, by rw [ht]; exact hl⟩)
    obtain ⟨es, hesp, rfl⟩ := foldr_consMember_map_inv _ kvs ms hms
    have hdec := decMapMembers_all c item hi (encValue c.env c.O f item) kvs es [] []
      (fun kv hkv t' hxok ht' => by
        obtain ⟨t, ht, hd', _⟩ := hall kv hkv hxok
        rw [ht] at ht'; cases ht'; exact hd')
      hesp hmok (fun _ _ => rfl)
    simp only [List.nil_append] at hdec
    refine ⟨.obj (membersOf es), ?_, Dec_map c item hi kvs es hdec, ?_⟩
    · simp only [encValue]
      cases item <;> simp only [itemSimple, Bool.false_eq_true] at hi <;> simp only [hms]
    · intro W
      exact Wire.Conforms.map item kvs _ (mapConform_of_all c.env c.O item _ kvs es hesp
        (fun kv hkv t' ht' => by
          obtain ⟨t, ht, _, hc⟩ := hall kv hkv (mapOk_mem _ _ item kvs [] hmok kv hkv).2
          rw [ht] at ht'; cases ht'; exact hc W))

end J5V.Codec

namespace J5V.Codec
open J5V.Go J5V.Json

/-! ## objects -/

/-- what one property contributes to an object body, as `encObjectBody` computes it -/
def objMember (env : Env) (O : Oracle) (f : Nat) (props : List PropDef) (fs : Fields) (p : PropDef) :
    Outcome (Option (Bytes × Bytes × PTree)) :=
  match findProp props p.jsonName with
  | none => .err "no property"
  | some q =>
    match encField env O f q fs with
    | .ok none => .ok none
    | .ok (some t) => member q.jsonName (.ok t)
    | .err e => .err e
    | .panic w => .panic w

/-- `GetValue` on an exposed oneof: exactly one member's field is populated -/
theorem hasProp_exposed (env : Env) (f : Nat) (p : PropDef) (ref : String) (ops : List PropDef)
    (fs : Fields) (hp0 : p.path = []) (hpf : p.field = .oneof ref)
    (hfind : env.find ref = some (.oneof ops)) (hroot : rootSimple (.oneof ops) = true) :
    hasProp env (f + 2) p fs = ((ops.filter (isSet fs)).length == 1) := by
  rw [hasProp, hp0]
  simp only [hpf, hfind]
  have := oneofSet_eq env f ops fs hroot
  unfold oneofSet at this
  rw [this]

theorem encField_exposed (env : Env) (O : Oracle) (f : Nat) (p : PropDef) (ref : String)
    (ops : List PropDef) (fs : Fields) (hp0 : p.path = []) (hpf : p.field = .oneof ref)
    (hfind : env.find ref = some (.oneof ops)) :
    encField env O (f + 1) p fs =
      if hasProp env (f + 1) p fs then
        match encOneofBody env O f ops fs with
        | .ok t => .ok (some t)
        | .err e => .err e
        | .panic w => .panic w
      else .ok none := by
  rw [encField, hp0]
  simp only [hpf, hfind]
  rfl

theorem encField_path (env : Env) (O : Oracle) (f : Nat) (p : PropDef) (m : Fields)
    (hp : p.path ≠ []) :
    encField env O (f + 1) p m =
      match getPath m p.path with
      | none => .ok none
      | some v =>
        match encValue env O f p.field v with
        | .ok t => .ok (some t)
        | .err e => .err e
        | .panic w => .panic w := by
  rw [encField]
  cases hpp : p.path with
  | nil => exact absurd hpp hp
  | cons a t =>
    simp only []
    cases getPath m (a :: t) <;> rfl

theorem objMember_spec (c : Cfg) (L : OracleLaws c.O) (f : Nat)
    (ih : ∀ f' < f + 3, RTP c f') (props : List PropDef) (fs : Fields)
    (hroot : rootFlat c.env (.object props) = true)
    (hutf : ∀ p ∈ props, isValidUtf8 p.jsonName = true) (hsort : asorted fs = true)
    (hfok : fieldsOk c.env c.O props fs = true) (hexp : exposedOk c.env props fs = true)
    (hd : 5 * depthFields fs + 5 ≤ f + 3)
    (hM : modeOkF c.protoToAny (f + 3) c.anyDepth fs = true)
    (hfindroot : ∀ ref ops, c.env.find ref = some (.oneof ops) →
      rootSimple (.oneof ops) = true ∧ ∀ q ∈ ops, isValidUtf8 q.jsonName = true)
    (p : PropDef) (hp : p ∈ props) :
    ∃ r, objMember c.env c.O (f + 2) props fs p = .ok r ∧ MemberSpecF c fs p r := by
  obtain ⟨hkinds, hnames, _, hLH⟩ := object_root_facts c.env props hroot
  unfold objMember
  rw [findProp_self props hnames p hp]
  simp only []
  rcases hkinds p hp with hflat | hexposed
  · -- an ordinary or flattened property
    obtain ⟨hpne, hfs⟩ := propFlat_inv p hflat
    rw [encField_path c.env c.O (f + 1) p fs hpne]
    cases hget : getPath fs p.path with
    | none => exact ⟨none, rfl, MemberSpecF.unset hpne hget⟩
    | some v =>
      simp only []
      have hentry : (p.path, p.field, p.pres) ∈ leafEntries c.env props :=
        List.mem_flatMap.mpr ⟨p, hp, by rw [propLeaves_nonempty c.env p hpne]; simp⟩
      obtain ⟨hvok, hz, hdv⟩ := (fieldsOk_path c.env c.O p.path props fs p.field p.pres hLH hfok hsort
        hentry).2 v hget
      obtain ⟨t, ht, hdec, hcf⟩ := (ih (f + 1) (by omega)).val p.field v hfs hvok (by omega)
        (modeOk_anti _ _ _ (by omega) v _ (modeOk_getPath _ _ _ p.path fs v hM hget))
      rw [ht]
      obtain ⟨lit, hl⟩ := member_ok p.jsonName t (hutf p hp)
      exact ⟨_, hl, MemberSpecF.leaf v lit t hpne hget hdec hcf hz (valOk_not_emptyColl _ _ _ _ hvok)⟩
  · -- an exposed oneof
    obtain ⟨hp0, hpg, ref, ops, hpf, hfind⟩ := propExposed_inv c.env p hexposed
    obtain ⟨hopsroot, hopsutf⟩ := hfindroot ref ops hfind
    have hops : exposedOps c.env p = ops := exposedOps_eq c.env p ref ops hp0 hpf hfind
    have hle : (ops.filter (isSet fs)).length ≤ 1 := by
      have := List.all_eq_true.mp hexp p hp
      rw [hops] at this
      simpa using this
    have hmementry : ∀ q ∈ ops, ∀ k, q.path = [k] → ([k], q.field, q.pres) ∈ leafEntries c.env props :=
      fun q hq k hqk => List.mem_flatMap.mpr
        ⟨p, hp, propLeaves_exposed_mem c.env p q k hp0 (by rw [hops]; exact hq) hqk⟩
    have hvals : ∀ q ∈ ops, ∀ k v, q.path = [k] → aget k fs = some v →
        valOk c.env c.O q.field v = true ∧ (q.pres == .imp && v.isZero) = false := by
      intro q hq k v hqk hag
      obtain ⟨h1, h2, _⟩ := (fieldsOk_path c.env c.O [k] props fs q.field q.pres hLH hfok hsort
        (hmementry q hq k hqk)).2 v (by simpa [getPath] using hag)
      exact ⟨h1, h2⟩
    have hshape := (ih (f + 1) (by omega)).one ops fs hopsroot hopsutf hle hvals (by omega)
      (modeOkF_anti _ _ _ (by omega) fs _ hM)
    rw [encField_exposed c.env c.O (f + 1) p ref ops fs hp0 hpf hfind,
      hasProp_exposed c.env f p ref ops fs hp0 hpf hfind hopsroot]
    have hpaths_inv : ∀ x ∈ propPaths c.env p, ∃ q ∈ ops, ∃ k, q.path = [k] ∧ x = [k] := by
      intro x hx
      obtain ⟨b, hb, rfl⟩ := List.mem_map.mp hx
      obtain ⟨q, k, hq, hqk, rfl⟩ := propLeaves_exposed_inv c.env p b hp0 hb
      rw [hops] at hq
      exact ⟨q, hq, k, hqk, rfl⟩
    generalize encOneofBody c.env c.O (f + 1) ops fs = r at hshape
    cases hshape with
    | empty hnil =>
      refine ⟨none, by simp [hnil], MemberSpecF.exposedUnset hp0 ?_ ?_⟩
      · intro x hx
        obtain ⟨q, hq, k, hqk, rfl⟩ := hpaths_inv x hx
        simpa [getPath] using filter_nil_unset ops fs hnil q hq k hqk
      · intro q hq
        rw [hops] at hq
        obtain ⟨k, hk⟩ := propSimple_path q ((oneof_root_facts ops hopsroot).1 q hq)
        rw [hk]; simpa [getPath] using filter_nil_unset ops fs hnil q hq k hk
    | one q k v tlit nlit qlit tv hone hq hqk hag hdec hcf hz hec =>
      obtain ⟨lit, hl⟩ := member_ok p.jsonName
        (.obj (.cons typeKey tlit (.str q.jsonName nlit) (.cons q.jsonName qlit tv (.nil .closed))))
        (hutf p hp)
      refine ⟨_, by simp only [hone, List.length_singleton, beq_self_eq_true, if_true]; exact hl,
        MemberSpecF.exposedSet ref ops q k v lit tlit nlit qlit tv hp0 hpg hpf hfind hopsroot hq hqk hag
          ?_ hdec hcf hz hec⟩
      intro x hx hne
      obtain ⟨q', hq', k', hq'k, rfl⟩ := hpaths_inv x hx
      have hkk : k' ≠ k := fun e => hne (by rw [e])
      simpa [getPath] using filter_one_others ops fs q k hone hqk q' hq' k' hq'k hkk

/-- the members written for a property list conform: one member per set property, in order -/
theorem membersConform_of_specs (c : Cfg) (fs : Fields) (W : OracleWire c.O)
    (g : PropDef → Outcome (Option (Bytes × Bytes × PTree))) :
    ∀ (ps : List PropDef) (es : List (Bytes × Bytes × PTree)),
      (∀ p ∈ ps, ∀ r, g p = .ok r → MemberSpecF c fs p r) → AllEncProps g ps es →
      Wire.MembersConform c.env c.O fs ps (membersOf es) := by
  intro ps
  induction ps with
  | nil =>
    intro es _ h
    simp only [AllEncProps] at h; subst h
    exact Wire.MembersConform.nil fs
  | cons p ps ih =>
    intro es hspec h
    have hspec' : ∀ q ∈ ps, ∀ r, g q = .ok r → MemberSpecF c fs q r :=
      fun q hq => hspec q (List.mem_cons_of_mem _ hq)
    rcases h with ⟨hgn, hrest⟩ | ⟨e, es', rfl, hgs, hrest⟩
    · have hsp := hspec p List.mem_cons_self none hgn
      cases hsp with
      | unset hpne hget => exact Wire.MembersConform.skip fs p ps _ hpne hget (ih es hspec' hrest)
      | exposedUnset hp0 _ hall =>
        exact Wire.MembersConform.skipExposed fs p ps _ hp0 hall (ih es hspec' hrest)
    · have hsp := hspec p List.mem_cons_self (some e) hgs
      cases hsp with
      | leaf v lit t hpne hget hdec hcf hz hec =>
        exact Wire.MembersConform.emit fs p ps v t lit _ hpne hget (hcf W) (ih es' hspec' hrest)
      | exposedSet ref ops q k v lit tlit nlit qlit tv hp0 hpg hpf hfind hroot hq hqk hag hoth hdec hcf hz hec =>
        have hops : exposedOps c.env p = ops := exposedOps_eq c.env p ref ops hp0 hpf hfind
        obtain ⟨hsimple, _, _, _⟩ := oneof_root_facts ops hroot
        refine Wire.MembersConform.emitExposed fs p ps _ lit _ hp0
          ⟨q, by rw [hops]; exact hq, by rw [hqk]; simp [getPath, hag]⟩ ?_ (ih es' hspec' hrest)
        rw [hops]
        refine Wire.OneofConforms.set fs ops q v tv tlit nlit qlit hq
          (by rw [hqk]; simpa [getPath] using hag) ?_ (hcf W)
        intro q' hq' hne
        obtain ⟨k', hk'⟩ := propSimple_path q' (hsimple q' hq')
        rw [hk']
        apply hoth
        · unfold propPaths
          exact List.mem_map.mpr ⟨_, propLeaves_exposed_mem c.env p q' k' hp0 (by rw [hops]; exact hq') hk', rfl⟩
        · intro e; apply hne; rw [hk', hqk]; exact e

theorem RTP_obj (c : Cfg) (hs : c.env.flat = true) (L : OracleLaws c.O) (f : Nat)
    (ih : ∀ f' < f + 1, RTP c f') :
    ∀ props fs, rootFlat c.env (.object props) = true →
      (∀ p ∈ props, isValidUtf8 p.jsonName = true) → asorted fs = true →
      fieldsOk c.env c.O props fs = true → groupsOk props fs = true → exposedOk c.env props fs = true →
      5 * depthFields fs + 5 ≤ f + 1 → modeOkF c.protoToAny (f + 1) c.anyDepth fs = true →
      ∃ ms S, encObjectBody c.env c.O (f + 1) props fs = .ok (.obj ms) ∧
        decObjMembers c props ms { m := [], seen := [] } = .ok ({ m := fs, seen := S }, .closed) ∧
        (OracleWire c.O → Wire.MembersConform c.env c.O fs props ms) := by
  intro props fs hroot hutf hsort hfok hgrp hexp hd hM
  obtain ⟨hkinds, hnames, hpathsnd, hLH⟩ := object_root_facts c.env props hroot
  obtain ⟨f2, rfl⟩ : ∃ f2, f = f2 + 2 := ⟨f - 2, by omega⟩
  have hfindroot : ∀ ref ops, c.env.find ref = some (.oneof ops) →
      rootSimple (.oneof ops) = true ∧ ∀ q ∈ ops, isValidUtf8 q.jsonName = true :=
    fun ref ops hfind => ⟨rootFlat_oneof c.env ops (find_rootFlat c.env hs ref _ hfind),
      find_names_utf8' c.env hs ref ops (Or.inr hfind)⟩
  have hspec := objMember_spec c L f2 ih props fs hroot hutf hsort hfok hexp hd hM hfindroot
  have hsf : StoreFacts c.env props fs :=
    { sorted := hsort
      along := fun x hx => (fieldsOk_path c.env c.O x.1 props fs x.2.1 x.2.2 hLH hfok hsort hx).1
      leafH := hLH
      groups := groupsExclF_of_groupsOk props fs hgrp }
  obtain ⟨ms, hms⟩ := foldr_consMember_ok (objMember c.env c.O (f2 + 2) props fs) props
    (fun p hp => by obtain ⟨r, hr, _⟩ := hspec p hp; exact ⟨r, hr⟩)
  obtain ⟨es, hall, rfl⟩ := foldr_consMember_inv _ props ms hms
  have hpnd : (props.flatMap (propPaths c.env)).Nodup := by
    have : props.flatMap (propPaths c.env) = (leafEntries c.env props).map (·.1) := by
      unfold leafEntries propPaths
      rw [List.map_flatMap]
    rw [this]; exact hpathsnd
  obtain ⟨seen', hdec⟩ := decObjMembers_loopF c props fs hnames hsf
    (objMember c.env c.O (f2 + 2) props fs)
    (fun p hp r hr => by
      obtain ⟨r', hr', hsp⟩ := hspec p hp
      rw [hr'] at hr; cases hr; exact hsp)
    props es { m := [], seen := [] } [] hall (fun _ h => h) hnames hpnd
    (fun _ _ => by simp) (fun _ _ _ _ => by simp) (fun _ h => by cases h)
    (by simp [restrictP_nil])
  refine ⟨membersOf es, seen', ?_, ?_, ?_⟩
  · simp only [encObjectBody]
    show (match props.foldr (fun p acc => consMember (objMember c.env c.O (f2 + 2) props fs p) acc)
          (.ok (.nil .closed)) with
        | .ok ms => Outcome.ok (PTree.obj ms)
        | .err e => .err e
        | .panic w => .panic w) = .ok (.obj (membersOf es))
    rw [hms]
  · rw [hdec]
    have hfull : restrictP (pathsAcc c.env props []) fs = fs := by
      apply restrictP_all c.env c.O fs props _ hfok
      intro x hx
      obtain ⟨p, hp, hxp⟩ := List.mem_flatMap.mp hx
      exact mem_pathsAcc c.env props [] p x.1 hp (List.mem_map.mpr ⟨x, hxp, rfl⟩)
    rw [hfull]
  · intro W
    exact membersConform_of_specs c fs W (objMember c.env c.O (f2 + 2) props fs) props es
      (fun p hp r hr => by
        obtain ⟨r', hr', hsp⟩ := hspec p hp
        rw [hr'] at hr; cases hr; exact hsp) hall

/-- **structure-level round trip with progress**, all fuels, all codec configurations over the same
environment (the protobuf-`Any` case uses the facts at `anyDepth + 1`) -/
theorem RTP_all' (env : Env) (O : Oracle) (mode : Bool) (hs : env.flat = true) (L : OracleLaws O) :
    ∀ f d, RTP { env := env, O := O, protoToAny := mode, anyDepth := d } f := by
  intro f
  induction f using Nat.strongRecOn with
  | _ f ih =>
    intro d
    cases f with
    | zero =>
      refine ⟨?_, ?_, ?_⟩
      · intro fld v _ _ h; omega
      · intro props fs _ _ _ _ _ _ h; omega
      · intro ops fs _ _ _ _ h; omega
    | succ f =>
      exact ⟨RTP_val { env := env, O := O, protoToAny := mode, anyDepth := d } hs L f
          (fun f' h => ih f' h d) (fun f' h => ih f' h (d + 1)),
        RTP_obj { env := env, O := O, protoToAny := mode, anyDepth := d } hs L f (fun f' h => ih f' h d),
        RTP_one { env := env, O := O, protoToAny := mode, anyDepth := d } f (fun f' h => ih f' h d)⟩

theorem RTP_all (c : Cfg) (hs : c.env.flat = true) (L : OracleLaws c.O) : ∀ f, RTP c f :=
  fun f => RTP_all' c.env c.O c.protoToAny hs L f c.anyDepth

/-- **C01 on trees, flat environments**: the encoder succeeds on every representable message and
the decoder maps the tree back to exactly that message -/
theorem roundtrip_tree_flat_fuel (c : Cfg) (hs : c.env.flat = true) (L : OracleLaws c.O)
    (root : String) (m : Fields)
    (hok : valOk c.env c.O (.object root) (.msg m) = true ∨ valOk c.env c.O (.oneof root) (.msg m) = true)
    (F : Nat) (hF : 6 * (depthFields m + 1) + 9 ≤ F)
    (hM : modeOkF c.protoToAny F c.anyDepth m = true) :
    ∃ t, encRoot c.env c.O (F + 1) root (.msg m) = .ok t ∧ decRootTree c root t = .ok m :=
  root_of_RTP c hs root m hok F (RTP_all c hs L F) (by omega) hM

/-- at the fuel `encodeTree` uses -/
theorem roundtrip_tree_flat (c : Cfg) (hs : c.env.flat = true) (L : OracleLaws c.O)
    (root : String) (m : Fields)
    (hok : valOk c.env c.O (.object root) (.msg m) = true ∨ valOk c.env c.O (.oneof root) (.msg m) = true)
    (hM : modeOkF c.protoToAny (6 * (depthFields m + 1) + 9) c.anyDepth m = true) :
    ∃ t, encodeTree c.env c.O root (.msg m) = .ok t ∧ decRootTree c root t = .ok m := by
  unfold encodeTree encFuel
  simp only [PVal.depth]
  exact roundtrip_tree_flat_fuel c hs L root m hok (6 * (depthFields m + 1) + 9) (Nat.le_refl _) hM

/-- **C08 on trees, flat environments**: the tree the encoder writes for a representable message
has the documented structure -/
theorem conforms_tree_flat_aux (c : Cfg) (hs : c.env.flat = true) (L : OracleLaws c.O) (W : OracleWire c.O)
    (root : String) (m : Fields)
    (hM : modeOkF c.protoToAny (6 * (depthFields m + 1) + 9) c.anyDepth m = true)
    (hok : valOk c.env c.O (.object root) (.msg m) = true ∨ valOk c.env c.O (.oneof root) (.msg m) = true) :
    ∃ t, encodeTree c.env c.O root (.msg m) = .ok t ∧ Wire.RootConforms c.env c.O root m t := by
  unfold encodeTree encFuel
  simp only [PVal.depth]
  rcases hok with hok | hok
  · obtain ⟨fs, props, hv, hfind, hsort, hfok, hgrp, hexp⟩ := valOk_object _ _ root _ hok
    cases hv
    obtain ⟨ms, S, henc, _, hcf⟩ := (RTP_all c hs L (6 * (depthFields m + 1) + 9)).obj props m
      (find_rootFlat c.env hs root _ hfind) (find_names_utf8' c.env hs root props (Or.inl hfind))
      hsort hfok hgrp hexp (by omega) hM
    refine ⟨.obj ms, ?_, Or.inl ⟨props, ms, hfind, rfl, hcf W⟩⟩
    show encRoot c.env c.O (6 * (depthFields m + 1) + 9 + 1) root (.msg m) = .ok (.obj ms)
    simp only [encRoot, hfind]; exact henc
  · obtain ⟨fs, ops, hv, hfind, hsort, hfok, hlen⟩ := valOk_oneof _ _ root _ hok
    cases hv
    have hroot := rootFlat_oneof c.env ops (find_rootFlat c.env hs root _ hfind)
    have hshape := (RTP_all c hs L (6 * (depthFields m + 1) + 9)).one ops m hroot
      (find_names_utf8' c.env hs root ops (Or.inr hfind)) (oneof_store_le ops m hroot hlen)
      (oneof_store_facts c ops m hroot hfok) (by omega) hM
    have henc : encRoot c.env c.O (6 * (depthFields m + 1) + 9 + 1) root (.msg m) =
        encOneofBody c.env c.O (6 * (depthFields m + 1) + 9) ops m := by
      simp only [encRoot, hfind]
    show ∃ t, encRoot c.env c.O (6 * (depthFields m + 1) + 9 + 1) root (.msg m) = .ok t ∧ _
    rw [henc]
    obtain ⟨t, ht, hoc⟩ := oneofConforms_of_shape c ops m _ hroot W hshape
    exact ⟨t, ht, Or.inr ⟨ops, hfind, hoc⟩⟩

/-- conformance does not depend on the decoding mode: instantiate the induction with the codec
without `WithProtoToAny` -/
theorem conforms_tree_flat (c : Cfg) (hs : c.env.flat = true) (L : OracleLaws c.O) (W : OracleWire c.O)
    (root : String) (m : Fields)
    (hok : valOk c.env c.O (.object root) (.msg m) = true ∨ valOk c.env c.O (.oneof root) (.msg m) = true)
    (hM : ∃ mode, modeOkF mode (6 * (depthFields m + 1) + 9) 0 m = true) :
    ∃ t, encodeTree c.env c.O root (.msg m) = .ok t ∧ Wire.RootConforms c.env c.O root m t := by
  obtain ⟨mode, hM⟩ := hM
  exact conforms_tree_flat_aux { c with protoToAny := mode, anyDepth := 0 } hs L W root m hM hok

end J5V.Codec
