import J5V.Codec.Conform
/-!
# "The same message up to empty flattened sub-objects" (C01: "an empty flattened sub-object is
treated as absent")

`Same env fld v v'`: the values `v` and `v'` of a field with schema `fld` have the same leaves —
for an object / oneof: at every leaf path of its properties (`leafEntries`: the proto paths of the
properties, flattened ones with their full path, the members of exposed oneofs) both messages are
unset, or both hold values that are again `Same`; lists element by element, maps entry by entry.
Nothing is said about the interior nodes on the way to a leaf: a flattened sub-message that holds
no leaf may be present (empty) in one message and absent in the other. Defined by recursion on a
depth index (`SameV env n`: "the same down to depth n"), `Same` = for every depth.
-/
namespace J5V.Codec
open J5V.Json

/-- the lists have the same length and related elements, position by position -/
def all2 {α : Type} (R : α → α → Prop) : List α → List α → Prop
  | [], [] => True
  | a :: as, b :: bs => R a b ∧ all2 R as bs
  | _, _ => False

def optRel (R : PVal → PVal → Prop) : Option PVal → Option PVal → Prop
  | none, none => True
  | some a, some b => R a b
  | _, _ => False

/-- the same leaves down to depth `n` -/
def SameV (env : Env) : Nat → Field → PVal → PVal → Prop
  | 0, _, _, _ => True
  | n + 1, fld, v, v' =>
    v = v' ∨
    match fld with
    | .object ref =>
      match env.find ref with
      | some (.object props) => ∃ fs fs', v = .msg fs ∧ v' = .msg fs' ∧
          ∀ e ∈ leafEntries env props, optRel (SameV env n e.2.1) (getPath fs e.1) (getPath fs' e.1)
      | _ => False
    | .oneof ref =>
      match env.find ref with
      | some (.oneof ops) => ∃ fs fs', v = .msg fs ∧ v' = .msg fs' ∧
          ∀ e ∈ leafEntries env ops, optRel (SameV env n e.2.1) (getPath fs e.1) (getPath fs' e.1)
      | _ => False
    | .array item => ∃ xs xs', v = .list xs ∧ v' = .list xs' ∧ all2 (SameV env n item) xs xs'
    | .map item => ∃ kvs kvs', v = .map kvs ∧ v' = .map kvs' ∧
        all2 (fun a b => a.1 = b.1 ∧ SameV env n item a.2 b.2) kvs kvs'
    | _ => False

/-- the same leaves at every depth -/
def Same (env : Env) (fld : Field) (v v' : PVal) : Prop := ∀ n, SameV env n fld v v'

/-- two messages of a property set hold the same leaves -/
def SameM (env : Env) (props : List PropDef) (fs fs' : Fields) : Prop :=
  ∀ e ∈ leafEntries env props, optRel (Same env e.2.1) (getPath fs e.1) (getPath fs' e.1)

mutual
/-- every message store in the value (through nested messages) has strictly increasing field
numbers — what a protobuf message is -/
def PVal.sortedDeep : PVal → Bool
  | .msg fs => asorted fs && sortedDeepF fs
  | _ => true
def sortedDeepF : List (Nat × PVal) → Bool
  | [] => true
  | (_, v) :: rest => v.sortedDeep && sortedDeepF rest
end

end J5V.Codec
