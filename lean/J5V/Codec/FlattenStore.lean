import J5V.Codec.StoreProofs
/-!
# Nested stores: restriction of a message to a set of leaf paths

A property of an object addresses a leaf of the message by its proto path; flattened objects make
the paths longer than one element and the message a tree of sub-messages. `restrictP S fs` is the
message that holds exactly the leaves of `fs` at the paths in `S` (a sub-message exists iff it
holds a leaf). The decoder's state after it has processed a set of properties is such a
restriction; `updPath` adds one leaf.
-/
namespace J5V.Codec

/-- the continuations of the paths in `S` that enter field `k` -/
def tailsAt (k : Nat) (S : List (List Nat)) : List (List Nat) :=
  S.filterMap fun path =>
    match path with
    | k' :: k2 :: r => if k' = k then some (k2 :: r) else none
    | _ => none

theorem mem_tailsAt (k : Nat) (S : List (List Nat)) (r : List Nat) :
    r ∈ tailsAt k S ↔ r ≠ [] ∧ (k :: r) ∈ S := by
  unfold tailsAt
  rw [List.mem_filterMap]
  constructor
  · rintro ⟨path, hp, hr⟩
    split at hr
    · next k' k2 r' =>
      split at hr
      · next hk => cases hr; subst hk; exact ⟨by simp, hp⟩
      · cases hr
    · cases hr
  · rintro ⟨hne, hm⟩
    cases r with
    | nil => exact absurd rfl hne
    | cons k2 r' => exact ⟨k :: k2 :: r', hm, by simp⟩

theorem tailsAt_cons_same (k : Nat) (k2 : Nat) (r : List Nat) (S : List (List Nat)) :
    tailsAt k ((k :: k2 :: r) :: S) = (k2 :: r) :: tailsAt k S := by
  simp [tailsAt, List.filterMap_cons]

theorem tailsAt_cons_single (k k' : Nat) (S : List (List Nat)) :
    tailsAt k ([k'] :: S) = tailsAt k S := by
  simp [tailsAt, List.filterMap_cons]

theorem tailsAt_cons_other (k k' : Nat) (path : List Nat) (S : List (List Nat)) (h : k' ≠ k) :
    tailsAt k ((k' :: path) :: S) = tailsAt k S := by
  cases path with
  | nil => exact tailsAt_cons_single k k' S
  | cons k2 r => simp [tailsAt, List.filterMap_cons, h]

mutual
/-- what is kept of the entry `(k, v)` -/
def restrictE (S : List (List Nat)) (k : Nat) : PVal → Option PVal
  | .msg sub =>
    if [k] ∈ S then some (.msg sub)
    else if (restrictP (tailsAt k S) sub).isEmpty then none
    else some (.msg (restrictP (tailsAt k S) sub))
  | v => if [k] ∈ S then some v else none
/-- the message restricted to the leaves at the paths `S` -/
def restrictP (S : List (List Nat)) : Fields → Fields
  | [] => []
  | (k, v) :: rest =>
    match restrictE S k v with
    | some v' => (k, v') :: restrictP S rest
    | none => restrictP S rest
end

theorem restrictP_eq_mapFilter (S : List (List Nat)) (fs : Fields) :
    restrictP S fs = mapFilter (restrictE S) fs := by
  induction fs with
  | nil => rw [restrictP.eq_def]; rfl
  | cons kv t ih =>
    obtain ⟨k, v⟩ := kv
    rw [mapFilter_cons, ← ih]
    conv => lhs; rw [restrictP.eq_def]
    simp only []
    cases restrictE S k v <;> rfl

theorem restrictE_leaf (S : List (List Nat)) (k : Nat) (v : PVal) (h : [k] ∈ S) :
    restrictE S k v = some v := by
  cases v <;> (rw [restrictE.eq_def]; simp [h])

theorem restrictE_msg (S : List (List Nat)) (k : Nat) (sub : Fields) (h : [k] ∉ S) :
    restrictE S k (.msg sub) =
      if (restrictP (tailsAt k S) sub).isEmpty then none
      else some (.msg (restrictP (tailsAt k S) sub)) := by
  rw [restrictE.eq_def]; simp [h]

theorem restrictE_nonmsg_none (S : List (List Nat)) (k : Nat) (v : PVal) (h : [k] ∉ S)
    (hv : ∀ sub, v ≠ .msg sub) : restrictE S k v = none := by
  cases v <;> first | exact absurd rfl (hv _) | (rw [restrictE.eq_def]; simp [h])

theorem restrictP_nil : ∀ (fs : Fields), restrictP [] fs = []
  | [] => by rw [restrictP.eq_def]
  | (k, .msg sub) :: rest => by
    have hsub := restrictP_nil sub
    have hrest := restrictP_nil rest
    rw [restrictP.eq_def]
    simp only []
    rw [restrictE_msg [] k sub (by simp)]
    have ht : tailsAt k ([] : List (List Nat)) = [] := rfl
    rw [ht, hsub]
    exact hrest
  | (k, v) :: rest => by
    have hrest := restrictP_nil rest
    rw [restrictP.eq_def]
    simp only []
    cases v with
    | msg sub =>
      have hsub := restrictP_nil sub
      rw [restrictE_msg [] k sub (by simp)]
      have ht : tailsAt k ([] : List (List Nat)) = [] := rfl
      rw [ht, hsub]
      exact hrest
    | _ => rw [restrictE_nonmsg_none [] k _ (by simp) (by intro s h; cases h)]; exact hrest
termination_by fs => sizeOf fs
decreasing_by
  all_goals simp_wf
  all_goals omega

theorem asorted_restrictP (S : List (List Nat)) (fs : Fields) (h : asorted fs = true) :
    asorted (restrictP S fs) = true := by
  rw [restrictP_eq_mapFilter]; exact asorted_mapFilter _ fs h

theorem aget_restrictP (S : List (List Nat)) (fs : Fields) (h : asorted fs = true) (x : Nat) :
    aget x (restrictP S fs) = (aget x fs).bind (restrictE S x) := by
  rw [restrictP_eq_mapFilter]; exact aget_mapFilter _ fs h x

/-- the sub-message the `Mutable` walk finds at field `k` of a restriction -/
theorem asMsg_aget_restrictP (S : List (List Nat)) (fs : Fields) (h : asorted fs = true) (k : Nat)
    (sub : Fields) (hk : aget k fs = some (.msg sub)) (hS : [k] ∉ S) :
    PVal.asMsg (aget k (restrictP S fs)) = restrictP (tailsAt k S) sub := by
  rw [aget_restrictP S fs h k, hk]
  simp only [Option.bind_some]
  rw [restrictE_msg S k sub hS]
  split
  · next he =>
    simp only [PVal.asMsg]
    cases hr : restrictP (tailsAt k S) sub with
    | nil => rfl
    | cons a b => rw [hr] at he; simp at he
  · rfl

/-! ## sortedness along a path -/

/-- the message and the sub-messages on the way to `path` are sorted -/
def SortedAlong : List Nat → Fields → Prop
  | k :: k2 :: r, fs => asorted fs = true ∧ ∀ sub, aget k fs = some (.msg sub) → SortedAlong (k2 :: r) sub
  | _, fs => asorted fs = true

theorem SortedAlong.top {path : List Nat} {fs : Fields} (h : SortedAlong path fs) : asorted fs = true := by
  cases path with
  | nil => exact h
  | cons k t =>
    cases t with
    | nil => exact h
    | cons k2 r => exact h.1

/-! ## lookups in a restriction -/

theorem getPath_cons2 (fs : Fields) (k k2 : Nat) (r : List Nat) :
    getPath fs (k :: k2 :: r) =
      match aget k fs with
      | some (.msg sub) => getPath sub (k2 :: r)
      | _ => none := by
  rw [getPath]
  · rfl
  · intro h; cases h

/-- a leaf at a path of `S` is in the restriction -/
theorem getPath_restrictP_mem : ∀ (path : List Nat) (S : List (List Nat)) (fs : Fields),
    SortedAlong path fs → path ∈ S → getPath (restrictP S fs) path = getPath fs path := by
  intro path
  induction path with
  | nil => intro S fs _ _; rfl
  | cons k t ih =>
    intro S fs hs hm
    cases t with
    | nil =>
      simp only [getPath]
      rw [aget_restrictP S fs hs k]
      cases aget k fs with
      | none => rfl
      | some v => simp [restrictE_leaf S k v hm]
    | cons k2 r =>
      rw [getPath_cons2, getPath_cons2, aget_restrictP S fs hs.1 k]
      cases hag : aget k fs with
      | none => rfl
      | some v =>
        simp only [Option.bind_some]
        by_cases hk : [k] ∈ S
        · rw [restrictE_leaf S k v hk]
        · cases v with
          | msg sub =>
            rw [restrictE_msg S k sub hk]
            have hin : (k2 :: r) ∈ tailsAt k S := (mem_tailsAt k S _).mpr ⟨by simp, hm⟩
            have := ih (tailsAt k S) sub (hs.2 sub hag) hin
            by_cases he : (restrictP (tailsAt k S) sub).isEmpty = true
            · rw [if_pos he]
              have hnil : restrictP (tailsAt k S) sub = [] := List.isEmpty_iff.mp he
              rw [hnil] at this
              simp only []
              rw [← this]
              cases r <;> rfl
            · rw [if_neg he]; simp only []; exact this
          | _ => rw [restrictE_nonmsg_none S k _ hk (by intro sub h; cases h)]

/-- a restriction adds nothing -/
theorem getPath_restrictP_none : ∀ (path : List Nat) (S : List (List Nat)) (fs : Fields),
    SortedAlong path fs → getPath fs path = none → getPath (restrictP S fs) path = none := by
  intro path
  induction path with
  | nil => intro S fs _ _; rfl
  | cons k t ih =>
    intro S fs hs hn
    cases t with
    | nil =>
      simp only [getPath] at hn ⊢
      rw [aget_restrictP S fs hs k, hn]; rfl
    | cons k2 r =>
      rw [getPath_cons2] at hn ⊢
      rw [aget_restrictP S fs hs.1 k]
      cases hag : aget k fs with
      | none => rfl
      | some v =>
        rw [hag] at hn
        simp only [Option.bind_some]
        by_cases hk : [k] ∈ S
        · rw [restrictE_leaf S k v hk]; exact hn
        · cases v with
          | msg sub =>
            rw [restrictE_msg S k sub hk]
            by_cases he : (restrictP (tailsAt k S) sub).isEmpty = true
            · rw [if_pos he]
            · rw [if_neg he]
              simp only [] at hn ⊢
              exact ih (tailsAt k S) sub (hs.2 sub hag) hn
          | _ => rw [restrictE_nonmsg_none S k _ hk (by intro sub h; cases h)]

/-- a leaf whose path is not in `S` and is not below or above a path of `S` is absent -/
def Apart (path : List Nat) (S : List (List Nat)) : Prop :=
  ∀ s ∈ S, ¬ (s <+: path) ∧ ¬ (path <+: s)

theorem Apart.tails {k k2 : Nat} {r : List Nat} {S : List (List Nat)} (h : Apart (k :: k2 :: r) S) :
    Apart (k2 :: r) (tailsAt k S) := by
  intro s hs
  obtain ⟨_, hm⟩ := (mem_tailsAt k S s).mp hs
  obtain ⟨h1, h2⟩ := h (k :: s) hm
  constructor
  · intro hp; exact h1 (by simpa using hp)
  · intro hp; exact h2 (by simpa using hp)

theorem Apart.single_not_mem {k : Nat} {t : List Nat} {S : List (List Nat)} (h : Apart (k :: t) S) :
    [k] ∉ S := by
  intro hm
  exact (h [k] hm).1 (by simp)

theorem getPath_restrictP_apart : ∀ (path : List Nat) (S : List (List Nat)) (fs : Fields),
    SortedAlong path fs → path ≠ [] → Apart path S → getPath (restrictP S fs) path = none := by
  intro path
  induction path with
  | nil => intro S fs _ h _; exact absurd rfl h
  | cons k t ih =>
    intro S fs hs _ hap
    have hk : [k] ∉ S := hap.single_not_mem
    cases t with
    | nil =>
      simp only [getPath]
      rw [aget_restrictP S fs hs k]
      cases hag : aget k fs with
      | none => rfl
      | some v =>
        simp only [Option.bind_some]
        cases v with
        | msg sub =>
          rw [restrictE_msg S k sub hk]
          -- no path of `S` goes below `[k]`
          have hnil : tailsAt k S = [] := by
            apply List.eq_nil_iff_forall_not_mem.mpr
            intro s hsm
            obtain ⟨_, hm⟩ := (mem_tailsAt k S s).mp hsm
            exact (hap (k :: s) hm).2 (by simp)
          have := restrictP_nil sub
          rw [hnil, this]; rfl
        | _ => rw [restrictE_nonmsg_none S k _ hk (by intro sub h; cases h)]
    | cons k2 r =>
      rw [getPath_cons2, aget_restrictP S fs hs.1 k]
      cases hag : aget k fs with
      | none => rfl
      | some v =>
        simp only [Option.bind_some]
        cases v with
        | msg sub =>
          rw [restrictE_msg S k sub hk]
          by_cases he : (restrictP (tailsAt k S) sub).isEmpty = true
          · rw [if_pos he]
          · rw [if_neg he]
            simp only []
            exact ih (tailsAt k S) sub (hs.2 sub hag) (by simp) hap.tails
        | _ => rw [restrictE_nonmsg_none S k _ hk (by intro sub h; cases h)]

end J5V.Codec

namespace J5V.Codec

/-! ## adding a path to the restriction set -/

theorem restrictE_congr (S S' : List (List Nat)) (x : Nat) (v : PVal) (h1 : [x] ∈ S ↔ [x] ∈ S')
    (h2 : ∀ sub, v = .msg sub → [x] ∉ S → restrictP (tailsAt x S) sub = restrictP (tailsAt x S') sub) :
    restrictE S x v = restrictE S' x v := by
  by_cases hx : [x] ∈ S
  · rw [restrictE_leaf S x v hx, restrictE_leaf S' x v (h1.mp hx)]
  · have hx' : [x] ∉ S' := fun h => hx (h1.mpr h)
    cases v with
    | msg sub => rw [restrictE_msg S x sub hx, restrictE_msg S' x sub hx', h2 sub rfl hx]
    | _ =>
      rw [restrictE_nonmsg_none S x _ hx (by intro s h; cases h),
        restrictE_nonmsg_none S' x _ hx' (by intro s h; cases h)]

theorem restrictP_ext (S S' : List (List Nat)) (fs : Fields) (hs : asorted fs = true)
    (h : ∀ x v, aget x fs = some v → restrictE S x v = restrictE S' x v) :
    restrictP S fs = restrictP S' fs := by
  apply Store.ext _ _ (asorted_restrictP S fs hs) (asorted_restrictP S' fs hs)
  intro x
  rw [aget_restrictP S fs hs x, aget_restrictP S' fs hs x]
  cases hag : aget x fs with
  | none => rfl
  | some v => simp only [Option.bind_some]; exact h x v hag

theorem single_mem_cons_iff (x : Nat) (path : List Nat) (S : List (List Nat)) (h : path ≠ [x]) :
    [x] ∈ path :: S ↔ [x] ∈ S := by
  simp only [List.mem_cons]
  constructor
  · rintro (h' | h')
    · exact absurd h'.symm h
    · exact h'
  · exact Or.inr

/-- a path at which the message holds nothing can be added to the set -/
theorem restrictP_cons_unset : ∀ (path : List Nat) (S : List (List Nat)) (fs : Fields),
    SortedAlong path fs → path ≠ [] → getPath fs path = none →
    restrictP (path :: S) fs = restrictP S fs := by
  intro path
  induction path with
  | nil => intro S fs _ h _; exact absurd rfl h
  | cons k t ih =>
    intro S fs hs _ hn
    apply restrictP_ext _ _ fs hs.top
    intro x v hag
    cases t with
    | nil =>
      simp only [getPath] at hn
      have hxk : x ≠ k := by intro e; subst e; rw [hn] at hag; cases hag
      apply restrictE_congr
      · exact single_mem_cons_iff x [k] S (by intro e; cases e; exact hxk rfl)
      · intro sub _ _; rw [tailsAt_cons_single]
    | cons k2 r =>
      apply restrictE_congr
      · exact single_mem_cons_iff x _ S (by intro e; cases e)
      · intro sub hv hx
        by_cases hxk : x = k
        · subst hxk; subst hv
          rw [tailsAt_cons_same]
          rw [getPath_cons2, hag] at hn
          exact ih (tailsAt x S) sub (hs.2 sub hag) (by simp) hn
        · rw [tailsAt_cons_other x k (k2 :: r) S (fun e => hxk e.symm)]

/-! ## `clearGroup` / `groupBusy` at a path -/

/-- the other members of `p`'s proto oneof (same message: same path prefix) are unset in `m`, the
message that holds the final field -/
def SiblingsUnset (props : List PropDef) (p : PropDef) (k : Nat) (m : Fields) : Prop :=
  ∀ gi, p.group = some gi → ∀ q ∈ props, q.group = some gi → q.path.dropLast = p.path.dropLast →
    ∀ k', q.path.getLast? = some k' → k' ≠ k → aget k' m = none

theorem clearGroup_id_at (props : List PropDef) (p : PropDef) (k : Nat) (m : Fields)
    (h : SiblingsUnset props p k m) : clearGroup props p.path.dropLast p.group k m = m := by
  unfold clearGroup
  cases hg : p.group with
  | none => rfl
  | some gi =>
    simp only []
    have : ∀ (l : List PropDef), (∀ q ∈ l, q ∈ props) →
        l.foldl (fun acc q =>
          if q.group == some gi && q.path.dropLast == p.path.dropLast then
            match q.path.getLast? with
            | some k' => if k' == k then acc else aerase k' acc
            | none => acc
          else acc) m = m := by
      intro l
      induction l with
      | nil => intro _; rfl
      | cons q t ih =>
        intro hsub
        rw [List.foldl_cons]
        have hstep : (if q.group == some gi && q.path.dropLast == p.path.dropLast then
            match q.path.getLast? with
            | some k' => if k' == k then m else aerase k' m
            | none => m
          else m) = m := by
          split
          · next hc =>
            simp only [Bool.and_eq_true, beq_iff_eq] at hc
            split
            · next k' hk' =>
              split
              · rfl
              · next hne =>
                have hkk : k' ≠ k := by simpa using hne
                have := h gi hg q (hsub q List.mem_cons_self) hc.1 hc.2 k' hk' hkk
                apply aerase_of_not_mem
                intro hm
                obtain ⟨v, hv⟩ := aget_some_of_mem_akeys' k' m hm
                rw [this] at hv; cases hv
            · rfl
          · rfl
        rw [hstep]
        exact ih (fun x hx => hsub x (List.mem_cons_of_mem _ hx))
    exact this props (fun _ h => h)

theorem aget_msgAt : ∀ (pfx : List Nat) (k : Nat) (m : Fields),
    aget k (msgAt pfx m) = getPath m (pfx ++ [k]) := by
  intro pfx
  induction pfx with
  | nil => intro k m; rfl
  | cons a t ih =>
    intro k m
    simp only [msgAt, List.cons_append]
    have hne : t ++ [k] ≠ [] := by simp
    rw [ih k]
    obtain ⟨k2, r, hkr⟩ : ∃ k2 r, t ++ [k] = k2 :: r := by
      cases hh : t ++ [k] with
      | nil => exact absurd hh hne
      | cons k2 r => exact ⟨k2, r, rfl⟩
    rw [hkr, getPath_cons2]
    cases aget a m with
    | none => simp only [PVal.asMsg]; cases r <;> rfl
    | some v =>
      cases v <;> simp only [PVal.asMsg] <;> first | rfl | (cases r <;> rfl)

theorem groupBusy_false_at (props : List PropDef) (p : PropDef) (k : Nat) (m : Fields)
    (hk : p.path.getLast? = some k)
    (h : SiblingsUnset props p k (msgAt p.path.dropLast m)) : groupBusy props p m = false := by
  unfold groupBusy
  split
  · next gi k0 hg hl =>
    rw [hk] at hl; cases hl
    simp only [List.any_eq_false]
    intro q hq hcon
    simp only [Bool.and_eq_true, beq_iff_eq] at hcon
    obtain ⟨⟨hqg, hqd⟩, hmm⟩ := hcon
    cases hl : q.path.getLast? with
    | none => simp [hl] at hmm
    | some k' =>
      simp only [hl, Bool.and_eq_true, bne_iff_ne, ne_eq] at hmm
      have := h gi hg q hq hqg hqd k' hl hmm.1
      simp [this] at hmm
  · rfl

/-! ## `Message.Set` at a path of a restriction -/

theorem getLast_cons2 (k k2 : Nat) (r : List Nat) : (k :: k2 :: r).getLast? = (k2 :: r).getLast? := by
  simp [List.getLast?_cons_cons]

theorem updGo_restrict (props : List PropDef) (p : PropDef) (v : PVal) (kl : Nat)
    (hkl : p.path.getLast? = some kl)
    (hz : (p.pres == .imp && v.isZero) = false) (hec : v.isEmptyColl = false) :
    ∀ (rem pfx : List Nat) (S : List (List Nat)) (fs : Fields),
      pfx ++ rem = p.path → rem ≠ [] → SortedAlong rem fs → getPath fs rem = some v → Apart rem S →
      (∀ gi, p.group = some gi → ∀ q ∈ props, q.group = some gi →
        q.path.dropLast = p.path.dropLast → ∀ k', q.path.getLast? = some k' → k' ≠ kl →
        getPath fs (rem.dropLast ++ [k']) = none) →
      updPath.go props p (some v) pfx rem (restrictP S fs) = restrictP (rem :: S) fs := by
  intro rem
  induction rem with
  | nil => intro pfx S fs _ h; exact absurd rfl h
  | cons k t ih =>
    intro pfx S fs hpath _ hs hget hap hsib
    have hkS : [k] ∉ S := hap.single_not_mem
    cases t with
    | nil =>
      -- the final field
      have hpl : p.path.getLast? = some k := by rw [← hpath]; simp
      have hkk : kl = k := by rw [hkl] at hpl; exact Option.some.inj hpl
      subst hkk
      have hpfx : pfx = p.path.dropLast := by rw [← hpath]; simp
      simp only [getPath] at hget
      rw [updPath.go, hpfx]
      rw [clearGroup_id_at props p kl (restrictP S fs) (by
        intro gi hg q hq hqg hqd k' hk' hne
        have := hsib gi hg q hq hqg hqd k' hk' hne
        simp only [List.dropLast_singleton, List.nil_append, getPath] at this
        rw [aget_restrictP S fs hs k', this]; rfl)]
      have hsl : ∀ m, setLeaf p.pres kl v m = aset kl v m := by
        intro m; unfold setLeaf; simp [hz, hec]
      rw [hsl]
      apply Store.ext _ _ (asorted_aset kl v _ (asorted_restrictP S fs hs))
        (asorted_restrictP _ fs hs)
      intro x
      rw [aget_aset, aget_restrictP S fs hs x, aget_restrictP _ fs hs x]
      by_cases hx : x = kl
      · subst hx
        rw [if_pos rfl, hget]
        simp only [Option.bind_some]
        rw [restrictE_leaf _ x v (by simp)]
      · rw [if_neg hx]
        cases hag : aget x fs with
        | none => rfl
        | some v' =>
          simp only [Option.bind_some]
          apply restrictE_congr
          · exact (single_mem_cons_iff x [kl] S (by intro e; cases e; exact hx rfl)).symm
          · intro sub _ _; rw [tailsAt_cons_single]
    | cons k2 r =>
      rw [getPath_cons2] at hget
      cases hag : aget k fs with
      | none => rw [hag] at hget; cases hget
      | some vk =>
        rw [hag] at hget
        cases vk with
        | msg sub =>
          simp only [] at hget
          rw [updPath.go]
          · rw [asMsg_aget_restrictP S fs hs.1 k sub hag hkS]
            rw [ih (pfx ++ [k]) (tailsAt k S) sub (by rw [← hpath]; simp) (by simp) (hs.2 sub hag) hget
              hap.tails (by
                intro gi hg q hq hqg hqd k' hk' hne
                have := hsib gi hg q hq hqg hqd k' hk' hne
                have hdl : (k :: k2 :: r).dropLast ++ [k'] = k :: ((k2 :: r).dropLast ++ [k']) := by
                  simp [List.dropLast]
                rw [hdl] at this
                obtain ⟨a, b, hab⟩ : ∃ a b, (k2 :: r).dropLast ++ [k'] = a :: b := by
                  cases hh : (k2 :: r).dropLast ++ [k'] with
                  | nil => simp at hh
                  | cons a b => exact ⟨a, b, rfl⟩
                rw [hab, getPath_cons2, hag] at this
                rw [hab]; exact this)]
            -- put the rebuilt sub-message back
            have hs2 : getPath (restrictP ((k2 :: r) :: tailsAt k S) sub) (k2 :: r) = some v := by
              rw [getPath_restrictP_mem (k2 :: r) _ sub (hs.2 sub hag) List.mem_cons_self]; exact hget
            have hne2 : (restrictP ((k2 :: r) :: tailsAt k S) sub).isEmpty = false := by
              cases hr : restrictP ((k2 :: r) :: tailsAt k S) sub with
              | nil => rw [hr] at hs2; cases r <;> simp [getPath, aget] at hs2
              | cons a b => rfl
            apply Store.ext _ _ (asorted_aset k _ _ (asorted_restrictP S fs hs.1))
              (asorted_restrictP _ fs hs.1)
            intro x
            rw [aget_aset, aget_restrictP S fs hs.1 x, aget_restrictP _ fs hs.1 x]
            by_cases hx : x = k
            · subst hx
              rw [if_pos rfl, hag]
              simp only [Option.bind_some]
              rw [restrictE_msg _ x sub (by
                intro hm
                rcases List.mem_cons.mp hm with e | e
                · cases e
                · exact hkS e), tailsAt_cons_same]
              simp [hne2]
            · rw [if_neg hx]
              cases hagx : aget x fs with
              | none => rfl
              | some v' =>
                simp only [Option.bind_some]
                apply restrictE_congr
                · exact (single_mem_cons_iff x _ S (by intro e; cases e)).symm
                · intro sub' _ _
                  rw [tailsAt_cons_other x k (k2 :: r) S (fun e => hx e.symm)]
          · simp
        | _ => cases hget

end J5V.Codec

namespace J5V.Codec

/-! ## the restriction depends on the set of paths only -/

theorem tailsAt_congr (k : Nat) (S S' : List (List Nat)) (h : ∀ path, path ∈ S ↔ path ∈ S') :
    ∀ path, path ∈ tailsAt k S ↔ path ∈ tailsAt k S' := by
  intro path
  rw [mem_tailsAt, mem_tailsAt, h]

theorem restrictP_congr_mem : ∀ (fs : Fields) (S S' : List (List Nat)),
    (∀ path, path ∈ S ↔ path ∈ S') → restrictP S fs = restrictP S' fs
  | [], _, _, _ => by rw [restrictP.eq_def, restrictP.eq_def]
  | (k, .msg sub) :: rest, S, S', h => by
    have hrest := restrictP_congr_mem rest S S' h
    have hsub := restrictP_congr_mem sub (tailsAt k S) (tailsAt k S') (tailsAt_congr k S S' h)
    conv => lhs; rw [restrictP.eq_def]
    conv => rhs; rw [restrictP.eq_def]
    simp only []
    have : restrictE S k (.msg sub) = restrictE S' k (.msg sub) :=
      restrictE_congr S S' k _ (h [k]) (by intro s hs _; cases hs; exact hsub)
    rw [this, hrest]
  | (k, v) :: rest, S, S', h => by
    have hrest := restrictP_congr_mem rest S S' h
    conv => lhs; rw [restrictP.eq_def]
    conv => rhs; rw [restrictP.eq_def]
    simp only []
    have : restrictE S k v = restrictE S' k v := by
      cases v with
      | msg sub =>
        have hsub := restrictP_congr_mem sub (tailsAt k S) (tailsAt k S') (tailsAt_congr k S S' h)
        exact restrictE_congr S S' k _ (h [k]) (by intro s hs _; cases hs; exact hsub)
      | _ => exact restrictE_congr S S' k _ (h [k]) (by intro s hs; cases hs)
    rw [this, hrest]
termination_by fs => sizeOf fs
decreasing_by
  all_goals simp_wf
  all_goals omega

/-- storing a top-level leaf the message holds -/
theorem aset_restrictP_single (S : List (List Nat)) (fs : Fields) (hs : asorted fs = true) (k : Nat)
    (v : PVal) (hget : aget k fs = some v) :
    aset k v (restrictP S fs) = restrictP ([k] :: S) fs := by
  apply Store.ext _ _ (asorted_aset k v _ (asorted_restrictP S fs hs)) (asorted_restrictP _ fs hs)
  intro x
  rw [aget_aset, aget_restrictP S fs hs x, aget_restrictP _ fs hs x]
  by_cases hx : x = k
  · subst hx
    rw [if_pos rfl, hget]
    simp only [Option.bind_some]
    rw [restrictE_leaf _ x v (by simp)]
  · rw [if_neg hx]
    cases hag : aget x fs with
    | none => rfl
    | some v' =>
      simp only [Option.bind_some]
      apply restrictE_congr
      · exact (single_mem_cons_iff x [k] S (by intro e; cases e; exact hx rfl)).symm
      · intro sub _ _; rw [tailsAt_cons_single]

/-- paths at which the message holds nothing can be added -/
theorem restrictP_append_unset (P S : List (List Nat)) (fs : Fields)
    (h : ∀ x ∈ P, x ≠ [] ∧ SortedAlong x fs ∧ getPath fs x = none) :
    restrictP (P ++ S) fs = restrictP S fs := by
  induction P with
  | nil => rfl
  | cons x t ih =>
    obtain ⟨h1, h2, h3⟩ := h x List.mem_cons_self
    rw [List.cons_append, restrictP_cons_unset x (t ++ S) fs h2 h1 h3]
    exact ih (fun y hy => h y (List.mem_cons_of_mem _ hy))

/-- paths of which the message holds exactly the top-level leaf `[k]` -/
theorem restrictP_append_one (P S : List (List Nat)) (fs : Fields) (k : Nat) (hk : [k] ∈ P)
    (h : ∀ x ∈ P, x ≠ [k] → x ≠ [] ∧ SortedAlong x fs ∧ getPath fs x = none) :
    restrictP (P ++ S) fs = restrictP ([k] :: S) fs := by
  have h1 : restrictP (P ++ S) fs = restrictP (P ++ ([k] :: S)) fs := by
    apply restrictP_congr_mem
    intro path
    simp only [List.mem_append, List.mem_cons]
    constructor
    · rintro (h | h)
      · exact Or.inl h
      · exact Or.inr (Or.inr h)
    · rintro (h | h | h)
      · exact Or.inl h
      · exact Or.inl (h ▸ hk)
      · exact Or.inr h
  rw [h1]
  clear h1 hk
  induction P with
  | nil => rfl
  | cons x t ih =>
    rw [List.cons_append]
    by_cases hx : x = [k]
    · subst hx
      have : restrictP ([k] :: (t ++ [k] :: S)) fs = restrictP (t ++ [k] :: S) fs := by
        apply restrictP_congr_mem
        intro path
        simp only [List.mem_cons, List.mem_append]
        constructor
        · rintro (h | h)
          · exact Or.inr (Or.inl h)
          · exact h
        · exact Or.inr
      rw [this]
      exact ih (fun y hy => h y (List.mem_cons_of_mem _ hy))
    · obtain ⟨h1, h2, h3⟩ := h x List.mem_cons_self hx
      rw [restrictP_cons_unset x _ fs h2 h1 h3]
      exact ih (fun y hy => h y (List.mem_cons_of_mem _ hy))

theorem restrictP_nil_set (fs : Fields) : restrictP [] fs = [] := restrictP_nil fs

end J5V.Codec
