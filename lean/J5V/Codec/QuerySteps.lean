import J5V.Codec.StepBound
import J5V.Codec.Query
import J5V.Json.SizeProofs
/-!
# Step count of URL-query decoding (C06: "time bounded by the input size")

`decodeQueryN c root kvs` counts the steps of `decodeQuery c root kvs` in the style of `Steps.lean`:
same recursion as `queryKey` / `decodeQuery`, continuing with the decoder's own intermediate states;
one step per key, per character of the key (`strings.Split`), per path segment (`propertyAtPath`),
per value, and — for a container-valued parameter, whose value is a JSON document — the decoder
steps on that document (`decObjMembersN` / `decOneofMembersN`). Scalar conversion is one step per
value (linear in the value, as in `Steps.lean`).
-/
namespace J5V.Codec
open J5V.Go J5V.Json

/-- decoder steps on the JSON text of a container-valued query parameter (state as in `queryLeaf`) -/
def queryDocN (c : Cfg) (props : List PropDef) (p : PropDef) (loc : List Nat) (v : Bytes) (st : QS) : Nat :=
  match p.field with
  | .object ref =>
    match c.env.find ref, readDoc (trimSpace v) with
    | some (.object sub), .obj ms =>
      let m1 := updAt loc (updPath props p (some (.msg (PVal.asMsg (getPath (msgAt loc st.m) p.path))))) st.m
      decObjMembersN c sub ms { m := PVal.asMsg (getPath (msgAt loc m1) p.path), seen := [] }
    | _, _ => 0
  | .oneof ref =>
    match c.env.find ref, readDoc (trimSpace v) with
    | some (.oneof ops), .obj ms =>
      let cur := msgAt loc st.m
      let m1 := if p.path.isEmpty then st.m
                else updAt loc (updPath props p (some (.msg (PVal.asMsg (getPath cur p.path))))) st.m
      decOneofMembersN c ops ms
        { m := if p.path.isEmpty then cur else PVal.asMsg (getPath (msgAt loc m1) p.path), seen := [] }
    | _, _ => 0
  | _ => 0

/-- one step, one per value, and the document steps of a single container value -/
def queryLeafN (c : Cfg) (props : List PropDef) (p : PropDef) (loc : List Nat) (values : List Bytes)
    (st : QS) : Nat :=
  1 + values.length +
    (match values with
     | [v] => queryDocN c props p loc v st
     | _ => 0)

/-- `propertyAtPath` (one step per segment) and the loop body, following `queryKey` -/
def queryKeyN (c : Cfg) : List Bytes → List PropDef → List Nat → List Bytes → List Bytes → QS → Nat
  | [], _, _, _, _, _ => 1
  | [tail], props, loc, trail, values, st =>
    match findProp props (propertyName props tail) with
    | none => 1
    | some p =>
      match qCreate props p loc trail st with
      | .ok st1 => 1 + queryLeafN c props p loc values st1
      | _ => 1
  | part :: rest, props, loc, trail, values, st =>
    match findProp props (propertyName props part) with
    | none => 1
    | some p =>
      match qEnter props p loc trail st with
      | .ok s =>
        match p.field with
        | .object ref =>
          match c.env.find ref with
          | some (.object sub) => 1 + queryKeyN c rest sub (loc ++ p.path) (trail ++ [p.jsonName]) values s
          | _ => 1
        | .oneof ref =>
          match c.env.find ref with
          | some (.oneof ops) => 1 + queryKeyN c rest ops (loc ++ p.path) (trail ++ [p.jsonName]) values s
          | _ => 1
        | _ => 1
      | _ => 1

/-- steps of `Codec.QueryToProto`: the loop over the keys with the decoder's own states -/
def decodeQueryN (c : Cfg) (root : String) (kvs : List (Bytes × List Bytes)) : Nat :=
  match c.env.find root with
  | some (.object props) | some (.oneof props) =>
    (kvs.foldl (fun (acc : Outcome QS × Nat) kv =>
      match acc.1 with
      | .ok st =>
        if kv.2.isEmpty then (.err "no value provided for field", acc.2 + 1)
        else (queryKey c (splitDot kv.1) props [] [] kv.2 st,
              acc.2 + 1 + kv.1.length + queryKeyN c (splitDot kv.1) props [] [] kv.2 st)
      | other => (other, acc.2)) (.ok { m := [], seen := [] }, 1)).2
  | _ => 1

/-! ## bounds -/

/-- bound of the document steps of a value list: only a single value can be a document -/
def docBound (c : Cfg) (values : List Bytes) : Nat :=
  match values with
  | [v] => anyFactor c * (2 * (5 * (trimSpace v).length + 11))
  | _ => 0

theorem queryDocN_le (c : Cfg) (props : List PropDef) (p : PropDef) (loc : List Nat) (v : Bytes)
    (st : QS) : queryDocN c props p loc v st ≤ anyFactor c * (2 * (5 * (trimSpace v).length + 11)) := by
  have hsz := readDoc_size (trimSpace v)
  unfold queryDocN
  split
  · split
    · next sub ms _ hrd =>
      simp only []
      rw [hrd] at hsz
      simp only [PTree.size] at hsz
      refine Nat.le_trans (decObjMembersN_le c sub ms _) ?_
      apply Nat.mul_le_mul_left
      omega
    · exact Nat.zero_le _
  · split
    · next ops ms _ hrd =>
      simp only []
      rw [hrd] at hsz
      simp only [PTree.size] at hsz
      refine Nat.le_trans (decOneofMembersN_le c ops ms _) ?_
      apply Nat.mul_le_mul_left
      omega
    · exact Nat.zero_le _
  · exact Nat.zero_le _

theorem queryLeafN_le (c : Cfg) (props : List PropDef) (p : PropDef) (loc : List Nat)
    (values : List Bytes) (st : QS) :
    queryLeafN c props p loc values st ≤ 1 + values.length + docBound c values := by
  unfold queryLeafN docBound
  split
  · next v => exact Nat.add_le_add_left (queryDocN_le c props p loc v st) _
  · simp

theorem queryKeyN_le (c : Cfg) : ∀ (segs : List Bytes) (props : List PropDef) (loc : List Nat)
    (trail values : List Bytes) (st : QS),
    queryKeyN c segs props loc trail values st ≤ segs.length + 2 + values.length + docBound c values
  | [], _, _, _, _, _ => by unfold queryKeyN; omega
  | [tail], props, loc, trail, values, st => by
    unfold queryKeyN
    split
    · simp only [List.length_cons, List.length_nil]; omega
    · next p _ =>
      split
      · next st1 _ =>
        have := queryLeafN_le c props p loc values st1
        simp only [List.length_cons, List.length_nil]; omega
      · simp only [List.length_cons, List.length_nil]; omega
  | part :: r1 :: rest, props, loc, trail, values, st => by
    unfold queryKeyN
    split
    · simp only [List.length_cons]; omega
    · next p _ =>
      split
      · next s _ =>
        split
        · split
          · next sub _ =>
            have := queryKeyN_le c (r1 :: rest) sub (loc ++ p.path) (trail ++ [p.jsonName]) values s
            simp only [List.length_cons] at this ⊢; omega
          · simp only [List.length_cons]; omega
        · split
          · next ops _ =>
            have := queryKeyN_le c (r1 :: rest) ops (loc ++ p.path) (trail ++ [p.jsonName]) values s
            simp only [List.length_cons] at this ⊢; omega
          · simp only [List.length_cons]; omega
        · simp only [List.length_cons]; omega
      · simp only [List.length_cons]; omega

theorem splitDot_length : ∀ (s : Bytes), (splitDot s).length ≤ s.length + 1
  | [] => by simp [splitDot]
  | c :: rest => by
    have ih := splitDot_length rest
    unfold splitDot
    split
    · simp
    · next h t heq =>
      rw [heq] at ih
      split <;> simp only [List.length_cons] at ih ⊢ <;> omega

theorem trimLeft_length : ∀ (f : Nat) (s : Bytes), (trimLeft f s).length ≤ s.length
  | 0, s => by simp [trimLeft]
  | f + 1, [] => by simp [trimLeft]
  | f + 1, a :: t => by
    unfold trimLeft
    simp only []
    split
    · refine Nat.le_trans (trimLeft_length f _) ?_
      simp only [List.length_drop]
      omega
    · exact Nat.le_refl _

theorem stripPrefix_length : ∀ (p r r' : Bytes), stripPrefix p r = some r' → r'.length ≤ r.length
  | [], r, r', h => by simp [stripPrefix] at h; subst h; exact Nat.le_refl _
  | a :: p, [], r', h => by simp [stripPrefix] at h
  | a :: p, b :: r, r', h => by
    simp only [stripPrefix] at h
    split at h
    · have := stripPrefix_length p r r' h
      simp only [List.length_cons]; omega
    · cases h

theorem trimRightRev_length : ∀ (f : Nat) (r : Bytes), (trimRightRev f r).length ≤ r.length
  | 0, r => by simp [trimRightRev]
  | f + 1, r => by
    unfold trimRightRev
    split
    · next r' hfs =>
      obtain ⟨p, _, hp⟩ := List.exists_of_findSome?_eq_some hfs
      exact Nat.le_trans (trimRightRev_length f r') (stripPrefix_length p r r' hp)
    · exact Nat.le_refl _

theorem trimSpace_length (s : Bytes) : (trimSpace s).length ≤ s.length := by
  unfold trimSpace
  simp only [List.length_reverse]
  refine Nat.le_trans (trimRightRev_length _ _) ?_
  simp only [List.length_reverse]
  exact trimLeft_length _ _

/-- the cost of one key with its values -/
def queryCost (c : Cfg) (kv : Bytes × List Bytes) : Nat :=
  2 * kv.1.length + 4 + kv.2.length + docBound c kv.2

theorem decodeQueryN_le (c : Cfg) (root : String) (kvs : List (Bytes × List Bytes)) :
    decodeQueryN c root kvs ≤ 1 + (kvs.map (queryCost c)).sum := by
  unfold decodeQueryN
  have key : ∀ (props : List PropDef) (kvs : List (Bytes × List Bytes)) (acc : Outcome QS × Nat),
      (kvs.foldl (fun (acc : Outcome QS × Nat) kv =>
        match acc.1 with
        | .ok st =>
          if kv.2.isEmpty then (.err "no value provided for field", acc.2 + 1)
          else (queryKey c (splitDot kv.1) props [] [] kv.2 st,
                acc.2 + 1 + kv.1.length + queryKeyN c (splitDot kv.1) props [] [] kv.2 st)
        | other => (other, acc.2)) acc).2 ≤ acc.2 + (kvs.map (queryCost c)).sum := by
    intro props kvs
    induction kvs with
    | nil => intro acc; simp
    | cons kv t ih =>
      intro acc
      simp only [List.foldl_cons, List.map_cons, List.sum_cons]
      refine Nat.le_trans (ih _) ?_
      obtain ⟨o, n⟩ := acc
      cases o with
      | ok st =>
        simp only []
        split
        · simp only [queryCost]; omega
        · have h1 := queryKeyN_le c (splitDot kv.1) props [] [] kv.2 st
          have h2 := splitDot_length kv.1
          simp only [queryCost]; omega
      | err e => simp only []; omega
      | panic w => simp only []; omega
  split
  · next props _ => exact key props kvs _
  · next props _ => exact key props kvs _
  · omega

/-- **linear in the input**: for a fresh codec (`anyDepth = 0`) at most `1010 · |v| + 2222` decoder steps for a
container-valued parameter `v`, two per character of a key, one per value -/
theorem docBound_le (c : Cfg) (hd : c.anyDepth = 0) (values : List Bytes) :
    docBound c values ≤ 1010 * (values.map List.length).sum + 2222 := by
  have hf : anyFactor c = 101 := by unfold anyFactor maxAnyDepth; rw [hd]
  unfold docBound
  split
  · next v =>
    have := trimSpace_length v
    rw [hf]
    simp only [List.map_cons, List.map_nil, List.sum_cons, List.sum_nil]
    omega
  · omega

/-- the linear cost of one key with its values: input size = key length + value lengths -/
def queryCostLin (kv : Bytes × List Bytes) : Nat :=
  2 * kv.1.length + kv.2.length + 1010 * (kv.2.map List.length).sum + 2226

theorem decodeQueryN_linear (c : Cfg) (hd : c.anyDepth = 0) (root : String)
    (kvs : List (Bytes × List Bytes)) :
    decodeQueryN c root kvs ≤ 1 + (kvs.map queryCostLin).sum := by
  refine Nat.le_trans (decodeQueryN_le c root kvs) ?_
  apply Nat.add_le_add_left
  induction kvs with
  | nil => simp
  | cons kv t ih =>
    simp only [List.map_cons, List.sum_cons]
    have := docBound_le c hd kv.2
    simp only [queryCost, queryCostLin]
    omega

end J5V.Codec
