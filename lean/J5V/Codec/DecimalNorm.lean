import J5V.Codec.RoundtripProofs
/-!
# Decimals that are not in `decimal.String()` normal form (C01, one property in isolation)

The encoder writes the stored decimal text verbatim as a quoted string; the decoder stores
`decimal.NewFromString(token).String()` (`O.parseDec`). So a decimal member round-trips **up to
numeric normalisation**: `decode (encode (.dec s)) = .dec norm` with `parseDec s = some norm`, and the
normalised value is a fixpoint (`OracleLaws.dec`): a second round trip returns it unchanged.
-/
namespace J5V.Codec
open J5V.Go J5V.Json

/-- what the encoder writes for a decimal with valid UTF-8 text: the text itself, quoted -/
theorem enc_decimal (env : Env) (O : Oracle) (f : Nat) (s : Bytes) (hu : isValidUtf8 s = true) :
    ∃ lit, encValue env O (f + 1) (.scalar .decimal) (.dec s) = .ok (.str s lit) := by
  obtain ⟨lit, hl⟩ := strNode_ok s hu
  exact ⟨lit, by simp [encValue, scalarNode, encodeScalar, hl]⟩

/-- the decoder reading the quoted text into a decimal property stores the NORMALISED text -/
theorem dec_decimal_prop (c : Cfg) (props : List PropDef) (p : PropDef) (st : PS) (s lit norm : Bytes)
    (hf : p.field = .scalar .decimal) (hp : p.path ≠ []) (hs : p.jsonName ∉ st.seen)
    (hgb : groupBusy props p st.m = false) (hpd : c.O.parseDec s = some norm) :
    decProp c props p (.str s lit) st =
      .ok { m := updPath props p (some (.dec norm)) st.m, seen := p.jsonName :: st.seen } := by
  have hne : p.path.isEmpty = false := by
    cases hpp : p.path with
    | nil => exact absurd hpp hp
    | cons a b => rfl
  unfold decProp; rw [hf]; simp only []
  unfold decScalarProp
  simp [createField_fresh props p st hs hgb, Outcome.bind, hne, goTok, decodeScalar, hpd]

/-- … and as an array element / map value -/
theorem dec_decimal_elem (c : Cfg) (s lit norm : Bytes) (rest : PElems) (acc : List PVal)
    (hpd : c.O.parseDec s = some norm) :
    decElems c (.scalar .decimal) (.cons (.str s lit) rest) acc =
      decElems c (.scalar .decimal) rest (acc ++ [.dec norm]) := by
  conv => lhs; unfold decElems
  simp [goTok, decodeScalar, hpd]

end J5V.Codec
