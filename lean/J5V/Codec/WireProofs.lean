import J5V.Codec.RoundtripProofs
/-!
# The encoder's scalar output has the documented representation (C08)
-/
namespace J5V.Codec
open J5V.Go J5V.Json

/-! ## integers -/

theorem digitsValue_eq (s : Bytes) : Wire.digitsValue s = parseDigits s := by
  cases s with
  | nil => rfl
  | cons c t =>
    simp only [Wire.digitsValue, parseDigits]
    congr 1
    funext acc d
    cases acc with
    | none => rfl
    | some n =>
      simp only [isDigit, Bool.and_eq_true, decide_eq_true_eq]

theorem isJsonNat_digitsSpec (n : Nat) : Wire.isJsonNat (digitsSpec n) = true := by
  by_cases h10 : n < 10
  · rw [digitsSpec, dif_pos h10]
    simp only [Wire.isJsonNat, Bool.and_eq_true, decide_eq_true_eq]
    rw [digitByte_toNat n h10]; omega
  · obtain ⟨c, t, hc, hd, hz⟩ := digitsSpec_head_nonzero n (by omega)
    have hall := digitsSpec_all_digits n
    rw [hc] at hall ⊢
    have hlen : t ≠ [] := by
      intro ht
      rw [digitsSpec, dif_neg h10] at hc
      have : (digitsSpec (n / 10) ++ [digitByte (n % 10)]).length = (c :: t).length := by rw [hc]
      rw [ht] at this
      simp only [List.length_append, List.length_cons, List.length_nil] at this
      have hne := digitsSpec_ne_nil (n / 10)
      cases hq : digitsSpec (n / 10) with
      | nil => exact hne hq
      | cons a b => rw [hq] at this; simp at this
    cases t with
    | nil => exact absurd rfl hlen
    | cons t1 t2 =>
      simp only [Wire.isJsonNat, Bool.and_eq_true, decide_eq_true_eq, List.all_eq_true]
      simp only [isDigit, Bool.and_eq_true, decide_eq_true_eq] at hd
      refine ⟨⟨?_, hd.2⟩, ?_⟩
      · have : c.toNat ≠ 0x30 := by
          intro e; apply hz; apply UInt8.toNat_inj.mp; simpa using e
        omega
      · intro x hx
        have := hall x (List.mem_cons_of_mem _ hx)
        simpa [isDigit] using this

theorem jsonIntValue_fmtNat (n : Nat) : Wire.jsonIntValue (fmtNat n) = some (n : Int) := by
  rw [fmtNat_eq]
  obtain ⟨c, t, hc, hd⟩ := digitsSpec_head n
  have hne := (isDigit_not_sign c hd).2
  have h1 := isJsonNat_digitsSpec n
  have h2 : Wire.digitsValue (digitsSpec n) = some n := by
    rw [digitsValue_eq, ← fmtNat_eq, parseDigits_fmtNat]
  rw [hc] at h1 h2 ⊢
  unfold Wire.jsonIntValue
  split
  · next heq => simp at heq; exact absurd heq.1 hne
  · simp [h1, h2]

theorem jsonIntValue_fmtInt (i : Int) : Wire.jsonIntValue (fmtInt i) = some i := by
  unfold fmtInt
  split
  · next hneg =>
    have h1 := isJsonNat_digitsSpec i.natAbs
    have h2 : Wire.digitsValue (fmtNat i.natAbs) = some i.natAbs := by
      rw [digitsValue_eq, parseDigits_fmtNat]
    rw [← fmtNat_eq] at h1
    simp only [Wire.jsonIntValue, h1, h2, if_true, Option.map_some]
    have : -((i.natAbs : Nat) : Int) = i := by omega
    simp [this]
  · next hneg =>
    rw [jsonIntValue_fmtNat]
    congr 1; omega

/-! ## base64 -/

theorem isStdAlphabet_b64Char : ∀ v, v < 64 → Wire.isStdAlphabet (b64Char v) = true := by decide

theorem isPadded_b64Encode (bs : Bytes) : Wire.isPaddedStdBase64 (b64Encode bs) bs.length = true := by
  fun_induction b64Encode bs with
  | case1 => rfl
  | case2 a n =>
    have ha := a.toNat_lt
    have hn : n = a.toNat := rfl
    simp [Wire.isPaddedStdBase64, isStdAlphabet_b64Char _ (show n / 4 < 64 by omega),
      isStdAlphabet_b64Char _ (show n % 4 * 16 < 64 by omega)]
  | case3 a b n =>
    have ha := a.toNat_lt
    have hb := b.toNat_lt
    have hn : n = a.toNat * 256 + b.toNat := rfl
    simp [Wire.isPaddedStdBase64, isStdAlphabet_b64Char _ (show n / 1024 < 64 by omega),
      isStdAlphabet_b64Char _ (show n / 16 % 64 < 64 by omega),
      isStdAlphabet_b64Char _ (show n % 16 * 4 < 64 by omega)]
  | case4 a b c rest n ih =>
    have ha := a.toNat_lt
    have hb := b.toNat_lt
    have hc := c.toNat_lt
    have hn : n = a.toNat * 65536 + b.toNat * 256 + c.toNat := rfl
    simp only [List.length_cons]
    rw [show rest.length + 1 + 1 + 1 = rest.length + 3 by omega]
    simp [Wire.isPaddedStdBase64, isStdAlphabet_b64Char _ (show n / 262144 < 64 by omega),
      isStdAlphabet_b64Char _ (show n / 4096 % 64 < 64 by omega),
      isStdAlphabet_b64Char _ (show n / 64 % 64 < 64 by omega),
      isStdAlphabet_b64Char _ (show n % 64 < 64 by omega), ih]

end J5V.Codec

namespace J5V.Codec
open J5V.Go J5V.Json

/-! ## dates -/

theorem digitsSpec_length_le (k : Nat) : ∀ n, n < 10 ^ (k + 1) → (digitsSpec n).length ≤ k + 1 := by
  induction k with
  | zero =>
    intro n h
    rw [digitsSpec, dif_pos (by simpa using h)]; simp
  | succ k ih =>
    intro n h
    rw [digitsSpec]
    by_cases h10 : n < 10
    · rw [dif_pos h10]; simp
    · rw [dif_neg h10]
      have : n / 10 < 10 ^ (k + 1) := by
        rw [Nat.pow_succ] at h
        omega
      have := ih (n / 10) this
      simp only [List.length_append, List.length_cons, List.length_nil]
      omega

theorem fmtZero4_shape (y : Int) (h0 : 0 ≤ y) (h1 : y ≤ 9999) :
    (fmtZero4 y).length = 4 ∧ ∀ c ∈ fmtZero4 y, isDigit c = true := by
  rw [fmtZero4_nonneg y h0]
  have hlen : (fmtNat y.toNat).length ≤ 4 := by
    rw [fmtNat_eq]; exact digitsSpec_length_le 3 _ (by omega)
  constructor
  · simp only [List.length_append, List.length_replicate]; omega
  · intro c hc
    rcases List.mem_append.mp hc with h | h
    · rw [List.mem_replicate] at h; rw [h.2]; decide
    · rw [fmtNat_eq] at h; exact digitsSpec_all_digits _ c h

theorem fmtZero2_shape (v : Int) (h0 : 0 ≤ v) (h1 : v ≤ 99) :
    (fmtZero2 v).length = 2 ∧ ∀ c ∈ fmtZero2 v, isDigit c = true := by
  unfold fmtZero2
  by_cases hs : 0 ≤ v ∧ v < 10
  · rw [if_pos hs, fmtInt_nonneg v h0, fmtNat_eq, digitsSpec, dif_pos (by omega)]
    refine ⟨rfl, ?_⟩
    intro c hc
    simp only [List.mem_cons, List.not_mem_nil, or_false] at hc
    rcases hc with rfl | rfl
    · decide
    · exact isDigit_digitByte _ (by omega)
  · rw [if_neg hs, fmtInt_nonneg v h0, fmtNat_eq]
    have h10 : ¬ v.toNat < 10 := by omega
    refine ⟨?_, digitsSpec_all_digits _⟩
    rw [digitsSpec, dif_neg h10]
    have hq : v.toNat / 10 < 10 := by omega
    rw [digitsSpec, dif_pos hq]
    rfl

theorem isDigitB_eq (c : UInt8) : Wire.isDigitB c = isDigit c := rfl

theorem dateShape_parts (a b c : Bytes) (ha : a.length = 4) (hb : b.length = 2) (hc : c.length = 2)
    (hda : ∀ x ∈ a, isDigit x = true) (hdb : ∀ x ∈ b, isDigit x = true)
    (hdc : ∀ x ∈ c, isDigit x = true) :
    Wire.isDateShape (a ++ [0x2D] ++ b ++ [0x2D] ++ c) = true ∧
    (a ++ [0x2D] ++ b ++ [0x2D] ++ c).take 4 = a ∧
    ((a ++ [0x2D] ++ b ++ [0x2D] ++ c).drop 5).take 2 = b ∧
    ((a ++ [0x2D] ++ b ++ [0x2D] ++ c).drop 8).take 2 = c := by
  match a, ha with
  | [a1, a2, a3, a4], _ =>
    match b, hb with
    | [b1, b2], _ =>
      match c, hc with
      | [c1, c2], _ =>
        refine ⟨?_, rfl, rfl, rfl⟩
        simp only [List.cons_append, List.nil_append, Wire.isDateShape, isDigitB_eq,
          Bool.and_eq_true, beq_self_eq_true, and_true]
        simp only [List.mem_cons, List.not_mem_nil, or_false] at hda hdb hdc
        exact ⟨⟨⟨⟨⟨⟨⟨hda a1 (Or.inl rfl), hda a2 (Or.inr (Or.inl rfl))⟩,
          hda a3 (Or.inr (Or.inr (Or.inl rfl)))⟩, hda a4 (Or.inr (Or.inr (Or.inr rfl)))⟩,
          hdb b1 (Or.inl rfl)⟩, hdb b2 (Or.inr rfl)⟩, hdc c1 (Or.inl rfl)⟩, hdc c2 (Or.inr rfl)⟩

theorem parseDigits_fmtZero2 (v : Int) (h0 : 0 ≤ v) : parseDigits (fmtZero2 v) = some v.toNat := by
  unfold fmtZero2
  by_cases hs : 0 ≤ v ∧ v < 10
  · rw [if_pos hs, fmtInt_nonneg v h0]
    have := parseDigits_zeros_fmtNat 1 v.toNat
    simpa using this
  · rw [if_neg hs, fmtInt_nonneg v h0, parseDigits_fmtNat]

/-- `Date.DateString()` has the documented shape and denotes the date -/
theorem date_conforms (y m d : Int) (hy0 : 0 ≤ y) (hy : y ≤ 9999) (hm0 : 0 ≤ m) (hm : m ≤ 99)
    (hd0 : 0 ≤ d) (hd : d ≤ 99) :
    Wire.isDateShape (dateString y m d) = true ∧
    Wire.dateParts (dateString y m d) = some (y.toNat, m.toNat, d.toNat) := by
  obtain ⟨la, da⟩ := fmtZero4_shape y hy0 hy
  obtain ⟨lb, db⟩ := fmtZero2_shape m hm0 hm
  obtain ⟨lc, dc⟩ := fmtZero2_shape d hd0 hd
  obtain ⟨hshape, h1, h2, h3⟩ := dateShape_parts _ _ _ la lb lc da db dc
  unfold dateString
  refine ⟨hshape, ?_⟩
  unfold Wire.dateParts
  rw [h1, h2, h3, digitsValue_eq, digitsValue_eq, digitsValue_eq, parseDigits_fmtZero2 m hm0,
    parseDigits_fmtZero2 d hd0, fmtZero4_nonneg y hy0, parseDigits_zeros_fmtNat]

end J5V.Codec

namespace J5V.Codec
open J5V.Go J5V.Json

theorem bareNode_num (t : Bytes) (h : ∃ c r, t = c :: r ∧ (c = 0x2D ∨ isDigit c = true)) :
    bareNode t = .num t := by
  obtain ⟨c, r, rfl, hc⟩ := h
  have hne := isDigit_ne_tf c hc
  unfold bareNode
  rw [ascii_true, ascii_false]
  simp [hne.1, hne.2]

theorem daysInMonth_le (y m : Int) : daysInMonth y m ≤ 31 := by
  unfold daysInMonth
  split
  · split <;> omega
  · split <;> omega

/-- **every representable scalar is written in its documented representation** -/
theorem scalar_conforms (O : Oracle) (L : OracleLaws O) (k : ScalarKind)
    (W : k = .timestamp → OracleWire O)
    (v : PVal) (hok : scalarOk O k v = true) :
    ∃ t, scalarNode O k v = .ok t ∧ Wire.scalarConforms O k v t := by
  have hr : scalarRepr O k v = true := by
    unfold scalarOk at hok; simp only [Bool.and_eq_true] at hok; exact hok.1
  have hq := quoted_valid O L k v
  cases k <;> cases v <;> simp only [scalarRepr, Bool.false_eq_true] at hr
  case string.str s =>
    obtain ⟨lit, hl⟩ := strNode_ok s (hq s hok rfl)
    exact ⟨.str s lit, by simp [scalarNode, encodeScalar, hl], rfl⟩
  case key.str s =>
    obtain ⟨lit, hl⟩ := strNode_ok s (hq s hok rfl)
    exact ⟨.str s lit, by simp [scalarNode, encodeScalar, hl], rfl⟩
  case bool.bool b =>
    cases b
    · exact ⟨.bool false, by simp [scalarNode, encodeScalar, bareNode, ascii_true, ascii_false], rfl⟩
    · exact ⟨.bool true, by simp [scalarNode, encodeScalar, bareNode], rfl⟩
  case int32.int i =>
    exact ⟨.num (fmtInt i), by simp [scalarNode, encodeScalar, bareNode_num _ (fmtInt_head i)],
      jsonIntValue_fmtInt i⟩
  case uint32.uint n =>
    exact ⟨.num (fmtNat n), by simp [scalarNode, encodeScalar, bareNode_num _ (fmtNat_head n)],
      jsonIntValue_fmtNat n⟩
  case int64.int i =>
    obtain ⟨lit, hl⟩ := strNode_ok _ (hq (fmtInt i) hok rfl)
    exact ⟨.str (fmtInt i) lit, by simp [scalarNode, encodeScalar, hl], jsonIntValue_fmtInt i⟩
  case uint64.uint n =>
    obtain ⟨lit, hl⟩ := strNode_ok _ (hq (fmtNat n) hok rfl)
    exact ⟨.str (fmtNat n) lit, by simp [scalarNode, encodeScalar, hl], jsonIntValue_fmtNat n⟩
  case float32.f32 b =>
    obtain ⟨hnum, b64, hp⟩ := L.f32 b hr
    refine ⟨.num (O.fmtF32 b), ?_, hnum, b64, hp⟩
    simp [scalarNode, encodeScalar, finite32_exp b hr, nonFinite_finite,
      bareNode_num _ (isJsonNumber_head _ hnum)]
  case float64.f64 b =>
    obtain ⟨hnum, b32, hp⟩ := L.f64 b hr
    refine ⟨.num (O.fmtF64 b), ?_, hnum, b32, hp⟩
    simp [scalarNode, encodeScalar, finite64_exp b hr, nonFinite_finite,
      bareNode_num _ (isJsonNumber_head _ hnum)]
  case bytes.bytes b =>
    obtain ⟨lit, hl⟩ := strNode_ok _ (hq (b64Encode b) hok rfl)
    exact ⟨.str (b64Encode b) lit, by simp [scalarNode, encodeScalar, hl], isPadded_b64Encode b, b64_inv b⟩
  case timestamp.ts s n =>
    obtain ⟨lit, hl⟩ := strNode_ok _ (hq (O.fmtTime s n) hok rfl)
    exact ⟨.str (O.fmtTime s n) lit, by simp [scalarNode, encodeScalar, hl], (W rfl).time s n hr, L.time s n hr⟩
  case date.date y m d =>
    simp only [decide_eq_true_eq] at hr
    obtain ⟨lit, hl⟩ := strNode_ok _ (hq (dateString y m d) hok rfl)
    have hd31 := daysInMonth_le y m
    obtain ⟨h1, h2⟩ := date_conforms y m d (by omega) (by omega) (by omega) (by omega) (by omega)
      (by omega)
    exact ⟨.str (dateString y m d) lit, by simp [scalarNode, encodeScalar, hl], h1, h2, by omega, by omega, by omega⟩
  case decimal.dec s =>
    obtain ⟨lit, hl⟩ := strNode_ok _ (hq s hok rfl)
    exact ⟨.str s lit, by simp [scalarNode, encodeScalar, hl], rfl⟩

end J5V.Codec

namespace J5V.Codec
open J5V.Go J5V.Json

/-! ## an oracle with the documented timestamp shape (non-vacuity of `OracleLaws ∧ OracleWire`) -/

def wireTimePrefix : Bytes := ascii "0000-00-00T00:00:00."

/-- like `toyOracle`, but timestamps are written in RFC 3339 shape: a fixed date-time followed by
a fraction that carries the value -/
def wireOracle : Oracle :=
  { toyOracle with
    fmtTime := fun s n => wireTimePrefix ++ toyOracle.fmtTime s n ++ [0x5A]
    parseTime := fun t => toyOracle.parseTime ((t.drop 20).dropLast) }

theorem wireOracle_fmt_parse (s n : Int) :
    ((wireOracle.fmtTime s n).drop 20).dropLast = toyOracle.fmtTime s n := by
  show (((wireTimePrefix ++ toyOracle.fmtTime s n ++ [0x5A]).drop 20).dropLast) = _
  have h20 : wireTimePrefix.length = 20 := by decide
  rw [List.append_assoc, List.drop_append_of_le_length (by omega), ← h20, List.drop_length,
    List.nil_append, List.dropLast_concat]

theorem wireOracle_laws : OracleLaws wireOracle where
  f64 := toyOracle_laws.f64
  f32 := toyOracle_laws.f32
  time s n h := by
    show toyOracle.parseTime (((wireOracle.fmtTime s n).drop 20).dropLast) = some (s, n)
    rw [wireOracle_fmt_parse]; exact toyOracle_laws.time s n h
  dec := toyOracle_laws.dec
  timeUtf8 s n h := by
    show isValidUtf8 (wireTimePrefix ++ toyOracle.fmtTime s n ++ [0x5A]) = true
    apply isValidUtf8_ascii
    intro c hc
    simp only [List.mem_append, List.mem_singleton] at hc
    rcases hc with (hc | hc) | hc
    · revert c; decide
    · exact fmtNat_ascii _ c hc
    · subst hc; decide

theorem wireOracle_wire : OracleWire wireOracle where
  time s n _ := by
    show Wire.isRfc3339Utc (wireTimePrefix ++ toyOracle.fmtTime s n ++ [0x5A]) = true
    have hd : toyOracle.fmtTime s n = digitsSpec ((s - tsMin).toNat * 1000000000 + n.toNat) := fmtNat_eq _
    obtain ⟨d0, dt, hdd, hd0⟩ := digitsSpec_head ((s - tsMin).toNat * 1000000000 + n.toNat)
    have hall := digitsSpec_all_digits ((s - tsMin).toNat * 1000000000 + n.toNat)
    rw [hd, hdd] at *
    have hallt : ∀ c ∈ dt, isDigit c = true := fun c hc => hall c (List.mem_cons_of_mem _ hc)
    simp only [Wire.isRfc3339Utc, wireTimePrefix, ascii]
    -- the fixed part is evaluated; the fraction is `d0 :: dt ++ "Z"`
    simp [Wire.isDateShape, Wire.isDigitB, List.dropLast_concat, hd0, isDigit] at hd0 hallt ⊢
    have hdl : (d0 :: (dt ++ [0x5A])).dropLast = d0 :: dt := by
      rw [← List.cons_append, List.dropLast_concat]
    have hgl : (d0 :: (dt ++ [0x5A])).getLast? = some 0x5A := by
      rw [← List.cons_append, List.getLast?_concat]
    refine ⟨?_, ?_⟩
    · intro x hx
      rw [hdl] at hx
      rcases List.mem_cons.mp hx with rfl | hx
      · exact hd0
      · exact hallt x hx
    · exact hgl

end J5V.Codec
