import J5V.Json.Utf8
/-!
# Reflected J5 schema, as the codec sees it

Exactly the information `lib/j5reflect` takes from `lib/j5schema` and from the proto descriptors
(`ObjectSchema.ClientProperties()`, `OneofSchema.Properties`, `EnumSchema.{NamePrefix,Options}`,
`ObjectProperty.{JSONName,ProtoField,Schema}`, `protoreflect.Message.Has` class of the final field,
index of the real proto oneof that contains it). Schema *reflection* itself is on the Go side: the
harness dumps the reflected schema into every op (`PROTOCOL-codec.md` §3).

`Env` maps root names to definitions, so recursive message types need no cyclic data.
-/
namespace J5V.Codec
open J5V.Json

inductive ScalarKind where
  | string | key | bool | int32 | int64 | uint32 | uint64 | float32 | float64
  | bytes | timestamp | date | decimal
  deriving Repr, DecidableEq, Inhabited

/-- `j5schema.FieldSchema` -/
inductive Field where
  | scalar (k : ScalarKind)
  | enum (ref : String)
  | object (ref : String)
  | oneof (ref : String)
  | any (pb : Bool)
  | array (item : Field)
  | map (item : Field)
  deriving Repr, DecidableEq, Inhabited

/-- how `protoreflect.Message.Has` behaves on the final field of a property's proto path -/
inductive Pres where
  | imp | opt | msg | list | map | none
  deriving Repr, DecidableEq, Inhabited

/-- `j5schema.ObjectProperty` (client view) -/
structure PropDef where
  jsonName : Bytes
  path : List Nat
  pres : Pres
  field : Field
  /-- index of the real (non-synthetic) proto oneof containing the final field -/
  group : Option Nat := none
  deriving Repr, DecidableEq, Inhabited

inductive Root where
  | object (props : List PropDef)
  | oneof (props : List PropDef)
  | enum (pfx : Bytes) (opts : List (Bytes × Int))
  | noschema
  deriving Repr, DecidableEq, Inhabited

structure Env where
  defs : List (String × Root)
  /-- the resolver: proto message full name → root -/
  res : List (Bytes × String) := []
  deriving Repr, Inhabited

def Env.find (env : Env) (name : String) : Option Root :=
  (env.defs.find? fun d => d.1 == name).map (·.2)

def Env.resolve (env : Env) (protoName : Bytes) : Option String :=
  (env.res.find? fun d => d.1 == protoName).map (·.2)

/-- the members of the oneof behind an exposed-oneof property (empty path: the oneof is a view of
the same message); `[]` for every other property -/
def exposedOps (env : Env) (p : PropDef) : List PropDef :=
  match p.path, p.field with
  | [], .oneof ref =>
    match env.find ref with
    | some (.oneof ops) => ops
    | _ => []
  | _, _ => []

/-- `propSet.asMap[name]` (`GetProperty`): properties are registered in order into a Go map, so
for a duplicated JSON name the **last** one wins. -/
def findProp (props : List PropDef) (name : Bytes) : Option PropDef :=
  props.reverse.find? fun p => p.jsonName == name

/-- `PropertyType()` classes used by `decodeValue` -/
inductive PropType where
  | map | array | object | oneof | enum | scalar | any
  deriving Repr, DecidableEq

def Field.propType : Field → PropType
  | .scalar _ => .scalar
  | .enum _ => .enum
  | .object _ => .object
  | .oneof _ => .oneof
  | .any _ => .any
  | .array _ => .array
  | .map _ => .map

/-- `FieldSchema.Mutable()`: message-valued schemas -/
def Field.mutable : Field → Bool
  | .object _ | .oneof _ | .any _ => true
  | _ => false

end J5V.Codec
