import J5V.Codec.Value
/-!
# Sorted association lists: get / set / erase / restriction lemmas (generic in the value type)
-/
namespace J5V.Codec

variable {α : Type}

def akeys (m : List (Nat × α)) : List Nat := m.map (·.1)

/-- restriction of a store to a set of keys -/
def filterKeys (S : List Nat) (m : List (Nat × α)) : List (Nat × α) :=
  m.filter fun kv => decide (kv.1 ∈ S)

theorem aget_none_of_not_mem (k : Nat) (m : List (Nat × α)) (h : k ∉ akeys m) : aget k m = none := by
  induction m with
  | nil => rfl
  | cons kv t ih =>
    obtain ⟨k', v'⟩ := kv
    simp only [akeys, List.map_cons, List.mem_cons, not_or] at h
    simp only [aget, if_neg h.1]
    exact ih h.2

theorem mem_akeys_of_aget (k : Nat) (v : α) (m : List (Nat × α)) (h : aget k m = some v) :
    k ∈ akeys m := by
  induction m with
  | nil => simp [aget] at h
  | cons kv t ih =>
    obtain ⟨k', v'⟩ := kv
    simp only [aget] at h
    simp only [akeys, List.map_cons, List.mem_cons]
    by_cases hk : k = k'
    · exact Or.inl hk
    · rw [if_neg hk] at h; exact Or.inr (ih h)

theorem aerase_of_not_mem (k : Nat) (m : List (Nat × α)) (h : k ∉ akeys m) : aerase k m = m := by
  induction m with
  | nil => rfl
  | cons kv t ih =>
    obtain ⟨k', v'⟩ := kv
    simp only [akeys, List.map_cons, List.mem_cons, not_or] at h
    simp only [aerase, if_neg h.1]
    rw [ih h.2]

theorem akeys_filterKeys_subset (S : List Nat) (m : List (Nat × α)) (k : Nat)
    (h : k ∈ akeys (filterKeys S m)) : k ∈ S ∧ k ∈ akeys m := by
  simp only [akeys, filterKeys, List.mem_map, List.mem_filter] at h
  obtain ⟨kv, ⟨hm, hs⟩, rfl⟩ := h
  exact ⟨by simpa using hs, List.mem_map.mpr ⟨kv, hm, rfl⟩⟩

/-- all keys of a sorted store that follow the head are larger -/
theorem asorted_tail (kv : Nat × α) (t : List (Nat × α)) (h : asorted (kv :: t) = true) :
    asorted t = true ∧ ∀ k ∈ akeys t, kv.1 < k := by
  induction t generalizing kv with
  | nil => exact ⟨rfl, by intro k hk; simp [akeys] at hk⟩
  | cons kv2 t2 ih =>
    obtain ⟨k1, v1⟩ := kv
    obtain ⟨k2, v2⟩ := kv2
    simp only [asorted, Bool.and_eq_true, decide_eq_true_eq] at h
    refine ⟨h.2, ?_⟩
    intro k hk
    simp only [akeys, List.map_cons, List.mem_cons] at hk
    rcases hk with rfl | hk
    · exact h.1
    · have := (ih (k2, v2) h.2).2 k (by simpa [akeys] using hk)
      simp only [] at this ⊢
      omega

/-- inserting the entry `m` holds for `k` into the restriction of `m` to `S` gives the
restriction to `k :: S` -/
theorem aset_filterKeys (S : List Nat) (m : List (Nat × α)) (k : Nat) (v : α)
    (hs : asorted m = true) (hg : aget k m = some v) (hk : k ∉ S) :
    aset k v (filterKeys S m) = filterKeys (k :: S) m := by
  induction m with
  | nil => simp [aget] at hg
  | cons kv t ih =>
    obtain ⟨k', v'⟩ := kv
    have hst := asorted_tail (k', v') t hs
    simp only [aget] at hg
    by_cases hkk : k = k'
    · -- this is the entry; nothing later in `t` has key `k`, and everything kept is larger
      subst hkk
      rw [if_pos rfl] at hg; cases hg
      have hnot : k ∉ akeys t := by
        intro hm; have := hst.2 k hm; simp at this
      have hfilt : filterKeys (k :: S) t = filterKeys S t := by
        unfold filterKeys
        apply List.filter_congr
        intro kv hkv
        have : kv.1 ≠ k := by
          intro e; exact hnot (e ▸ List.mem_map.mpr ⟨kv, hkv, rfl⟩)
        simp [this]
      have hhead : filterKeys S ((k, v) :: t) = filterKeys S t := by
        unfold filterKeys
        rw [List.filter_cons]
        simp [hk]
      have hhead2 : filterKeys (k :: S) ((k, v) :: t) = (k, v) :: filterKeys (k :: S) t := by
        unfold filterKeys
        rw [List.filter_cons]; simp
      rw [hhead, hhead2, hfilt]
      -- aset k v into a list whose keys are all > k
      have hall : ∀ x ∈ akeys (filterKeys S t), k < x := by
        intro x hx; exact hst.2 x (akeys_filterKeys_subset S t x hx).2
      cases hf : filterKeys S t with
      | nil => rfl
      | cons kv2 t2 =>
        obtain ⟨k2, v2⟩ := kv2
        have : k < k2 := hall k2 (by rw [hf]; simp [akeys])
        simp [aset, this]
    · rw [if_neg hkk] at hg
      have ih' := ih hst.1 hg
      have hlt : k' < k := hst.2 k (mem_akeys_of_aget k v t hg)
      by_cases hin : k' ∈ S
      · have h1 : filterKeys S ((k', v') :: t) = (k', v') :: filterKeys S t := by
          unfold filterKeys; rw [List.filter_cons]; simp [hin]
        have h2 : filterKeys (k :: S) ((k', v') :: t) = (k', v') :: filterKeys (k :: S) t := by
          unfold filterKeys; rw [List.filter_cons]; simp [hin]
        rw [h1, h2, ← ih']
        have h3 : ¬ k < k' := by omega
        simp [aset, h3, hkk]
      · have hne : ¬ k' = k := fun e => hkk e.symm
        have h1 : filterKeys S ((k', v') :: t) = filterKeys S t := by
          unfold filterKeys; rw [List.filter_cons]; simp [hin]
        have h2 : filterKeys (k :: S) ((k', v') :: t) = filterKeys (k :: S) t := by
          unfold filterKeys; rw [List.filter_cons]; simp [hin, hne]
        rw [h1, h2, ih']

theorem filterKeys_all (S : List Nat) (m : List (Nat × α)) (h : ∀ k ∈ akeys m, k ∈ S) :
    filterKeys S m = m := by
  unfold filterKeys
  apply List.filter_eq_self.mpr
  intro kv hkv
  have := h kv.1 (List.mem_map.mpr ⟨kv, hkv, rfl⟩)
  simpa using this

theorem filterKeys_nil (m : List (Nat × α)) : filterKeys [] m = [] := by
  unfold filterKeys
  apply List.filter_eq_nil_iff.mpr
  intro kv _; simp

end J5V.Codec

namespace J5V.Codec

variable {α : Type}

/-! ## extensionality of sorted stores, `aset` -/

theorem aget_cons_self (k : Nat) (v : α) (t : List (Nat × α)) : aget k ((k, v) :: t) = some v := by
  simp [aget]

theorem aget_cons_ne (k k' : Nat) (v : α) (t : List (Nat × α)) (h : k ≠ k') :
    aget k ((k', v) :: t) = aget k t := by
  simp [aget, h]

theorem aget_some_of_mem_akeys' (k : Nat) (m : List (Nat × α)) (h : k ∈ akeys m) :
    ∃ v, aget k m = some v := by
  induction m with
  | nil => simp [akeys] at h
  | cons kv t ih =>
    obtain ⟨k', v'⟩ := kv
    by_cases hk : k = k'
    · exact ⟨v', by simp [aget, hk]⟩
    · simp only [akeys, List.map_cons, List.mem_cons] at h
      rcases h with h | h
      · exact absurd h hk
      · obtain ⟨v, hv⟩ := ih (by simpa [akeys] using h)
        exact ⟨v, by simp [aget, hk, hv]⟩

/-- two sorted stores with the same lookups are equal (`proto.Equal` is extensional) -/
theorem Store.ext : ∀ (a b : List (Nat × α)), asorted a = true → asorted b = true →
    (∀ k, aget k a = aget k b) → a = b := by
  intro a
  induction a with
  | nil =>
    intro b _ _ h
    cases b with
    | nil => rfl
    | cons kv t =>
      obtain ⟨k, v⟩ := kv
      have := h k
      simp [aget] at this
  | cons kv ta ih =>
    intro b ha hb h
    obtain ⟨k, v⟩ := kv
    cases b with
    | nil => have := h k; simp [aget] at this
    | cons kv' tb =>
      obtain ⟨k', v'⟩ := kv'
      have hta := asorted_tail (k, v) ta ha
      have htb := asorted_tail (k', v') tb hb
      have hkk : k = k' := by
        -- each head key occurs in the other list, and is its minimum
        have h1 := h k
        rw [aget_cons_self] at h1
        have h2 := h k'
        rw [aget_cons_self] at h2
        by_cases e : k = k'
        · exact e
        · exfalso
          rw [aget_cons_ne k k' v' tb e] at h1
          rw [aget_cons_ne k' k v ta (fun x => e x.symm)] at h2
          have m1 := htb.2 k (mem_akeys_of_aget k v tb h1.symm)
          have m2 := hta.2 k' (mem_akeys_of_aget k' v' ta h2)
          simp only [] at m1 m2
          omega
      subst hkk
      have hv : v = v' := by
        have := h k
        rw [aget_cons_self, aget_cons_self] at this
        exact Option.some.inj this
      subst hv
      congr 1
      apply ih tb hta.1 htb.1
      intro x
      by_cases hx : x = k
      · subst hx
        have n1 : x ∉ akeys ta := fun hm => by have := hta.2 x hm; simp at this
        have n2 : x ∉ akeys tb := fun hm => by have := htb.2 x hm; simp at this
        rw [aget_none_of_not_mem x ta n1, aget_none_of_not_mem x tb n2]
      · have := h x
        rw [aget_cons_ne x k v ta hx, aget_cons_ne x k v tb hx] at this
        exact this

theorem aget_aset (k k' : Nat) (x : α) (m : List (Nat × α)) :
    aget k' (aset k x m) = if k' = k then some x else aget k' m := by
  induction m with
  | nil => simp [aset, aget]
  | cons kv t ih =>
    obtain ⟨k2, v2⟩ := kv
    simp only [aset]
    split
    · -- inserted in front
      by_cases h : k' = k
      · simp [aget, h]
      · simp [aget, h]
    · split
      · next hk => -- replaced
        subst hk
        by_cases h : k' = k
        · simp [aget, h]
        · simp [aget, h]
      · next hlt hne =>
        by_cases h : k' = k
        · subst h
          have : k' ≠ k2 := hne
          simp [aget, this, ih]
        · by_cases h2 : k' = k2
          · simp [aget, h2, h]
            intro e; exact absurd (e ▸ h2) h
          · simp [aget, h2, ih, h]

theorem asorted_cons_of (k : Nat) (v : α) (t : List (Nat × α)) (ht : asorted t = true)
    (h : ∀ x ∈ akeys t, k < x) : asorted ((k, v) :: t) = true := by
  cases t with
  | nil => rfl
  | cons kv t' =>
    obtain ⟨k', v'⟩ := kv
    simp only [asorted, Bool.and_eq_true, decide_eq_true_eq]
    exact ⟨h k' (by simp [akeys]), ht⟩

theorem akeys_aset (k : Nat) (x : α) (m : List (Nat × α)) (y : Nat) (h : y ∈ akeys (aset k x m)) :
    y = k ∨ y ∈ akeys m := by
  obtain ⟨v, hv⟩ := aget_some_of_mem_akeys' y _ h
  rw [aget_aset] at hv
  by_cases e : y = k
  · exact Or.inl e
  · rw [if_neg e] at hv
    exact Or.inr (mem_akeys_of_aget y v m hv)

theorem asorted_aset (k : Nat) (x : α) (m : List (Nat × α)) (h : asorted m = true) :
    asorted (aset k x m) = true := by
  induction m with
  | nil => rfl
  | cons kv t ih =>
    obtain ⟨k2, v2⟩ := kv
    have ht := asorted_tail (k2, v2) t h
    simp only [aset]
    split
    · next hlt =>
      apply asorted_cons_of k x _ h
      intro y hy
      simp only [akeys, List.map_cons, List.mem_cons] at hy
      rcases hy with rfl | hy
      · exact hlt
      · have := ht.2 y (by simpa [akeys] using hy); simp only [] at this; omega
    · split
      · next hk =>
        subst hk
        exact asorted_cons_of k x t ht.1 (fun y hy => ht.2 y hy)
      · next hlt hne =>
        apply asorted_cons_of k2 v2 _ (ih ht.1)
        intro y hy
        rcases akeys_aset k x t y hy with rfl | hy'
        · omega
        · exact ht.2 y hy'

/-! ## entry-wise partial maps of a store -/

/-- keep / rewrite / drop every entry independently -/
def mapFilter (g : Nat → α → Option α) (m : List (Nat × α)) : List (Nat × α) :=
  m.filterMap fun kv => (g kv.1 kv.2).map fun v => (kv.1, v)

theorem mapFilter_cons (g : Nat → α → Option α) (k : Nat) (v : α) (t : List (Nat × α)) :
    mapFilter g ((k, v) :: t) =
      match g k v with
      | some v' => (k, v') :: mapFilter g t
      | none => mapFilter g t := by
  unfold mapFilter
  rw [List.filterMap_cons]
  cases g k v <;> rfl

theorem akeys_mapFilter_subset (g : Nat → α → Option α) (m : List (Nat × α)) (x : Nat)
    (h : x ∈ akeys (mapFilter g m)) : x ∈ akeys m := by
  induction m with
  | nil => simp [mapFilter, akeys] at h
  | cons kv t ih =>
    obtain ⟨k, v⟩ := kv
    rw [mapFilter_cons] at h
    simp only [akeys, List.map_cons, List.mem_cons]
    cases hg : g k v with
    | none => rw [hg] at h; exact Or.inr (ih h)
    | some v' =>
      rw [hg] at h
      simp only [akeys, List.map_cons, List.mem_cons] at h
      rcases h with h | h
      · exact Or.inl h
      · exact Or.inr (ih (by simpa [akeys] using h))

theorem asorted_mapFilter (g : Nat → α → Option α) (m : List (Nat × α)) (h : asorted m = true) :
    asorted (mapFilter g m) = true := by
  induction m with
  | nil => rfl
  | cons kv t ih =>
    obtain ⟨k, v⟩ := kv
    have ht := asorted_tail (k, v) t h
    rw [mapFilter_cons]
    cases g k v with
    | none => exact ih ht.1
    | some v' =>
      exact asorted_cons_of k v' _ (ih ht.1)
        (fun y hy => ht.2 y (akeys_mapFilter_subset g t y hy))

theorem aget_mapFilter (g : Nat → α → Option α) (m : List (Nat × α)) (h : asorted m = true) (x : Nat) :
    aget x (mapFilter g m) = (aget x m).bind (g x) := by
  induction m with
  | nil => rfl
  | cons kv t ih =>
    obtain ⟨k, v⟩ := kv
    have ht := asorted_tail (k, v) t h
    rw [mapFilter_cons]
    by_cases hx : x = k
    · subst hx
      rw [aget_cons_self]
      simp only [Option.bind_some]
      cases hg : g x v with
      | none =>
        simp only []
        apply aget_none_of_not_mem
        intro hm
        have := ht.2 x (akeys_mapFilter_subset g t x hm)
        simp at this
      | some v' => simp [aget]
    · rw [aget_cons_ne x k v t hx]
      cases g k v with
      | none => exact ih ht.1
      | some v' => simp only []; rw [aget_cons_ne x k v' _ hx]; exact ih ht.1

end J5V.Codec
