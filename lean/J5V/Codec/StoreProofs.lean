import J5V.Codec.Value
/-!
# Sorted association lists: get / set / erase / restriction lemmas (generic in the value type)
-/
namespace J5V.Codec

variable {α : Type}

def akeys (m : List (Nat × α)) : List Nat := m.map (·.1)

/-- restriction of a store to a set of keys -/
def filterKeys (S : List Nat) (m : List (Nat × α)) : List (Nat × α) :=
  m.filter fun kv => decide (kv.1 ∈ S)

theorem aget_none_of_not_mem (k : Nat) (m : List (Nat × α)) (h : k ∉ akeys m) : aget k m = none := by
  induction m with
  | nil => rfl
  | cons kv t ih =>
    obtain ⟨k', v'⟩ := kv
    simp only [akeys, List.map_cons, List.mem_cons, not_or] at h
    simp only [aget, if_neg h.1]
    exact ih h.2

theorem mem_akeys_of_aget (k : Nat) (v : α) (m : List (Nat × α)) (h : aget k m = some v) :
    k ∈ akeys m := by
  induction m with
  | nil => simp [aget] at h
  | cons kv t ih =>
    obtain ⟨k', v'⟩ := kv
    simp only [aget] at h
    simp only [akeys, List.map_cons, List.mem_cons]
    by_cases hk : k = k'
    · exact Or.inl hk
    · rw [if_neg hk] at h; exact Or.inr (ih h)

theorem aerase_of_not_mem (k : Nat) (m : List (Nat × α)) (h : k ∉ akeys m) : aerase k m = m := by
  induction m with
  | nil => rfl
  | cons kv t ih =>
    obtain ⟨k', v'⟩ := kv
    simp only [akeys, List.map_cons, List.mem_cons, not_or] at h
    simp only [aerase, if_neg h.1]
    rw [ih h.2]

theorem akeys_filterKeys_subset (S : List Nat) (m : List (Nat × α)) (k : Nat)
    (h : k ∈ akeys (filterKeys S m)) : k ∈ S ∧ k ∈ akeys m := by
  simp only [akeys, filterKeys, List.mem_map, List.mem_filter] at h
  obtain ⟨kv, ⟨hm, hs⟩, rfl⟩ := h
  exact ⟨by simpa using hs, List.mem_map.mpr ⟨kv, hm, rfl⟩⟩

/-- all keys of a sorted store that follow the head are larger -/
theorem asorted_tail (kv : Nat × α) (t : List (Nat × α)) (h : asorted (kv :: t) = true) :
    asorted t = true ∧ ∀ k ∈ akeys t, kv.1 < k := by
  induction t generalizing kv with
  | nil => exact ⟨rfl, by intro k hk; simp [akeys] at hk⟩
  | cons kv2 t2 ih =>
    obtain ⟨k1, v1⟩ := kv
    obtain ⟨k2, v2⟩ := kv2
    simp only [asorted, Bool.and_eq_true, decide_eq_true_eq] at h
    refine ⟨h.2, ?_⟩
    intro k hk
    simp only [akeys, List.map_cons, List.mem_cons] at hk
    rcases hk with rfl | hk
    · exact h.1
    · have := (ih (k2, v2) h.2).2 k (by simpa [akeys] using hk)
      simp only [] at this ⊢
      omega

/-- inserting the entry `m` holds for `k` into the restriction of `m` to `S` gives the
restriction to `k :: S` -/
theorem aset_filterKeys (S : List Nat) (m : List (Nat × α)) (k : Nat) (v : α)
    (hs : asorted m = true) (hg : aget k m = some v) (hk : k ∉ S) :
    aset k v (filterKeys S m) = filterKeys (k :: S) m := by
  induction m with
  | nil => simp [aget] at hg
  | cons kv t ih =>
    obtain ⟨k', v'⟩ := kv
    have hst := asorted_tail (k', v') t hs
    simp only [aget] at hg
    by_cases hkk : k = k'
    · -- this is the entry; nothing later in `t` has key `k`, and everything kept is larger
      subst hkk
      rw [if_pos rfl] at hg; cases hg
      have hnot : k ∉ akeys t := by
        intro hm; have := hst.2 k hm; simp at this
      have hfilt : filterKeys (k :: S) t = filterKeys S t := by
        unfold filterKeys
        apply List.filter_congr
        intro kv hkv
        have : kv.1 ≠ k := by
          intro e; exact hnot (e ▸ List.mem_map.mpr ⟨kv, hkv, rfl⟩)
        simp [this]
      have hhead : filterKeys S ((k, v) :: t) = filterKeys S t := by
        unfold filterKeys
        rw [List.filter_cons]
        simp [hk]
      have hhead2 : filterKeys (k :: S) ((k, v) :: t) = (k, v) :: filterKeys (k :: S) t := by
        unfold filterKeys
        rw [List.filter_cons]; simp
      rw [hhead, hhead2, hfilt]
      -- aset k v into a list whose keys are all > k
      have hall : ∀ x ∈ akeys (filterKeys S t), k < x := by
        intro x hx; exact hst.2 x (akeys_filterKeys_subset S t x hx).2
      cases hf : filterKeys S t with
      | nil => rfl
      | cons kv2 t2 =>
        obtain ⟨k2, v2⟩ := kv2
        have : k < k2 := hall k2 (by rw [hf]; simp [akeys])
        simp [aset, this]
    · rw [if_neg hkk] at hg
      have ih' := ih hst.1 hg
      have hlt : k' < k := hst.2 k (mem_akeys_of_aget k v t hg)
      by_cases hin : k' ∈ S
      · have h1 : filterKeys S ((k', v') :: t) = (k', v') :: filterKeys S t := by
          unfold filterKeys; rw [List.filter_cons]; simp [hin]
        have h2 : filterKeys (k :: S) ((k', v') :: t) = (k', v') :: filterKeys (k :: S) t := by
          unfold filterKeys; rw [List.filter_cons]; simp [hin]
        rw [h1, h2, ← ih']
        have h3 : ¬ k < k' := by omega
        simp [aset, h3, hkk]
      · have hne : ¬ k' = k := fun e => hkk e.symm
        have h1 : filterKeys S ((k', v') :: t) = filterKeys S t := by
          unfold filterKeys; rw [List.filter_cons]; simp [hin]
        have h2 : filterKeys (k :: S) ((k', v') :: t) = filterKeys (k :: S) t := by
          unfold filterKeys; rw [List.filter_cons]; simp [hin, hne]
        rw [h1, h2, ih']

theorem filterKeys_all (S : List Nat) (m : List (Nat × α)) (h : ∀ k ∈ akeys m, k ∈ S) :
    filterKeys S m = m := by
  unfold filterKeys
  apply List.filter_eq_self.mpr
  intro kv hkv
  have := h kv.1 (List.mem_map.mpr ⟨kv, hkv, rfl⟩)
  simpa using this

theorem filterKeys_nil (m : List (Nat × α)) : filterKeys [] m = [] := by
  unfold filterKeys
  apply List.filter_eq_nil_iff.mpr
  intro kv _; simp

end J5V.Codec
