import J5V.Codec.Steps
/-!
# The decoder's step count is linear in the size of the document (C06)
-/
namespace J5V.Codec
open J5V.Go J5V.Json

/-- the factor: one pass, plus one more for every level of `Any` that may still be expanded -/
def anyFactor (c : Cfg) : Nat := (maxAnyDepth - c.anyDepth) + 1

theorem anyFactor_pos (c : Cfg) : 1 ≤ anyFactor c := by unfold anyFactor; omega

theorem anyFactor_succ (c : Cfg) (h : c.anyDepth < maxAnyDepth) :
    anyFactor { c with anyDepth := c.anyDepth + 1 } + 1 = anyFactor c := by
  unfold anyFactor; simp only []; omega

/-! ## arithmetic -/

theorem bound_leaf (K n : Nat) (hK : 1 ≤ K) (hn : 1 ≤ n) : 1 ≤ K * (2 * n) := by
  have : 1 * (2 * 1) ≤ K * (2 * n) := Nat.mul_le_mul hK (Nat.mul_le_mul_left 2 hn)
  omega

theorem bound_node (K a x : Nat) (hK : 1 ≤ K) (hx : x ≤ K * (2 * a)) : 1 + x ≤ K * (2 * (a + 1)) := by
  have h1 : K * (2 * (a + 1)) = K * (2 * a) + K * 2 := by rw [Nat.mul_add 2 a 1, Nat.mul_add]
  rw [h1]; omega

theorem bound_cons (K a b x y : Nat) (hK : 1 ≤ K) (hx : x ≤ K * (2 * a)) (hy : y ≤ K * (2 * b)) :
    1 + x + y ≤ K * (2 * (a + b + 1)) := by
  have h1 : K * (2 * (a + b + 1)) = K * (2 * a) + K * (2 * b) + K * 2 := by
    rw [Nat.mul_add 2 (a + b) 1, Nat.mul_add 2 a b, Nat.mul_add, Nat.mul_add]
  rw [h1]; omega

theorem size_pos (t : PTree) : 1 ≤ t.size := by
  cases t <;> simp [PTree.size] <;> omega

theorem msize_pos (ms : PMembers) : 1 ≤ ms.size := by
  cases ms <;> simp [PMembers.size] <;> omega

theorem esize_pos (xs : PElems) : 1 ≤ xs.size := by
  cases xs <;> simp [PElems.size] <;> omega

/-- the value of an `Any`: re-scan + (optionally) decode again one level deeper -/
theorem bound_any (K K' s b y z : Nat) (hK' : K' + 1 ≤ K) (hy : y ≤ K' * (2 * s))
    (hz : z ≤ K * (2 * b)) : 1 + 2 * s + y + z ≤ K * (2 * (s + b + 1)) := by
  have h1 : K * (2 * (s + b + 1)) = K * (2 * s) + K * (2 * b) + K * 2 := by
    rw [Nat.mul_add 2 (s + b) 1, Nat.mul_add 2 s b, Nat.mul_add, Nat.mul_add]
  have h2 : (K' + 1) * (2 * s) ≤ K * (2 * s) := Nat.mul_le_mul_right _ hK'
  have h3 : (K' + 1) * (2 * s) = K' * (2 * s) + 2 * s := by rw [Nat.add_mul]; omega
  rw [h1]; omega

/-! ## the bound -/

mutual
theorem decPropN_le (c : Cfg) (props : List PropDef) (p : PropDef) (t : PTree) (st : PS) :
    decPropN c props p t st ≤ anyFactor c * (2 * t.size) := by
  have hK := anyFactor_pos c
  have hleaf : 1 ≤ anyFactor c * (2 * t.size) := bound_leaf _ _ hK (size_pos t)
  unfold decPropN
  split
  · exact hleaf
  · exact hleaf
  · split
    · next ms =>
      split
      · split
        · next sub _ =>
          simp only [PTree.size]
          exact bound_node _ _ _ hK (decObjMembersN_le c sub ms _)
        · exact hleaf
      · exact hleaf
    · exact hleaf
  · split
    · next ms =>
      split
      · split
        · next ops _ =>
          simp only [PTree.size]
          exact bound_node _ _ _ hK (decOneofMembersN_le c ops ms _)
        · exact hleaf
      · exact hleaf
    · exact hleaf
  · split
    · next ms =>
      simp only [PTree.size]
      exact bound_node _ _ _ hK (decAnyMembersN_le c _ ms)
    · exact hleaf
  · split
    · next xs =>
      simp only [PTree.size]
      exact bound_node _ _ _ hK (decElemsN_le c _ xs)
    · exact hleaf
  · split
    · next ms =>
      simp only [PTree.size]
      exact bound_node _ _ _ hK (decMapMembersN_le c _ ms)
    · exact hleaf
termination_by sizeOf t

theorem decObjMembersN_le (c : Cfg) (props : List PropDef) (ms : PMembers) (st : PS) :
    decObjMembersN c props ms st ≤ anyFactor c * (2 * ms.size) := by
  have hK := anyFactor_pos c
  cases ms with
  | nil term => unfold decObjMembersN; exact bound_leaf _ _ hK (by simp [PMembers.size])
  | cons k kr v rest =>
    unfold decObjMembersN
    split
    · exact bound_leaf _ _ hK (msize_pos _)
    · next p _ =>
      simp only [PMembers.size]
      apply bound_cons _ _ _ _ _ hK (decPropN_le c props p v st)
      split
      · exact decObjMembersN_le c props rest _
      · exact Nat.zero_le _
termination_by sizeOf ms

theorem decOneofMembersN_le (c : Cfg) (ops : List PropDef) (ms : PMembers) (st : PS) :
    decOneofMembersN c ops ms st ≤ anyFactor c * (2 * ms.size) := by
  have hK := anyFactor_pos c
  cases ms with
  | nil term => unfold decOneofMembersN; exact bound_leaf _ _ hK (by simp [PMembers.size])
  | cons k kr v rest =>
    unfold decOneofMembersN
    split
    · simp only [PMembers.size]
      have := decOneofMembersN_le c ops rest st
      have h0 : (0 : Nat) ≤ anyFactor c * (2 * v.size) := Nat.zero_le _
      have := bound_cons _ _ _ _ _ hK h0 this
      omega
    · split
      · exact bound_leaf _ _ hK (msize_pos _)
      · next p _ =>
        simp only [PMembers.size]
        apply bound_cons _ _ _ _ _ hK (decPropN_le c ops p v st)
        split
        · exact decOneofMembersN_le c ops rest _
        · exact Nat.zero_le _
termination_by sizeOf ms

theorem decAnyMembersN_le (c : Cfg) (ftype : Option Bytes) (ms : PMembers) :
    decAnyMembersN c ftype ms ≤ anyFactor c * (2 * ms.size) := by
  have hK := anyFactor_pos c
  cases ms with
  | nil term => unfold decAnyMembersN; exact bound_leaf _ _ hK (by simp [PMembers.size])
  | cons k kr v rest =>
    unfold decAnyMembersN
    split
    · simp only [PMembers.size]
      have := decAnyMembersN_le c ftype rest
      have h0 : (0 : Nat) ≤ anyFactor c * (2 * v.size) := Nat.zero_le _
      have := bound_cons _ _ _ _ _ hK h0 this
      omega
    · split
      · exact bound_leaf _ _ hK (msize_pos _)
      · simp only [PMembers.size]
        -- the inner decode, if any, happens one level deeper
        have hinner : ∃ K', K' + 1 ≤ anyFactor c ∧
            (match ftype with
             | none => 0
             | some tn =>
               if c.protoToAny && decide (c.anyDepth < maxAnyDepth) then
                 match c.env.resolve tn with
                 | none => 0
                 | some root => decRootTreeN { c with anyDepth := c.anyDepth + 1 } root v
               else 0) ≤ K' * (2 * v.size) := by
          cases ftype with
          | none => exact ⟨0, by omega, Nat.zero_le _⟩
          | some tn =>
            simp only []
            split
            · next hcond =>
              simp only [Bool.and_eq_true, decide_eq_true_eq] at hcond
              refine ⟨anyFactor { c with anyDepth := c.anyDepth + 1 },
                by rw [anyFactor_succ c hcond.2]; exact Nat.le_refl _, ?_⟩
              split
              · exact Nat.zero_le _
              · next root _ => exact decRootTreeN_le { c with anyDepth := c.anyDepth + 1 } root v
            · exact ⟨0, by omega, Nat.zero_le _⟩
        obtain ⟨K', hK', hy⟩ := hinner
        exact bound_any _ K' _ _ _ _ hK' hy (decAnyMembersN_le c ftype rest)
termination_by sizeOf ms

theorem decElemsN_le (c : Cfg) (item : Field) (xs : PElems) :
    decElemsN c item xs ≤ anyFactor c * (2 * xs.size) := by
  have hK := anyFactor_pos c
  cases xs with
  | nil term => unfold decElemsN; exact bound_leaf _ _ hK (by simp [PElems.size])
  | cons v rest =>
    unfold decElemsN
    simp only [PElems.size]
    have hv : (match item with
         | .object ref =>
           match c.env.find ref with
           | some (.object sub) => decObjectN c sub v
           | _ => 0
         | .oneof ref =>
           match c.env.find ref with
           | some (.oneof ops) => decOneofN c ops v
           | _ => 0
         | _ => 1) ≤ anyFactor c * (2 * v.size) := by
      split
      · split
        · next sub _ => exact decObjectN_le c sub v
        · exact Nat.zero_le _
      · split
        · next ops _ => exact decOneofN_le c ops v
        · exact Nat.zero_le _
      · exact bound_leaf _ _ hK (size_pos v)
    exact bound_cons _ _ _ _ _ hK hv (decElemsN_le c item rest)
termination_by sizeOf xs

theorem decMapMembersN_le (c : Cfg) (item : Field) (ms : PMembers) :
    decMapMembersN c item ms ≤ anyFactor c * (2 * ms.size) := by
  have hK := anyFactor_pos c
  cases ms with
  | nil term => unfold decMapMembersN; exact bound_leaf _ _ hK (by simp [PMembers.size])
  | cons k kr v rest =>
    unfold decMapMembersN
    simp only [PMembers.size]
    have hv : (match item with
         | .object ref =>
           match c.env.find ref with
           | some (.object sub) => decObjectN c sub v
           | _ => 0
         | .oneof ref =>
           match c.env.find ref with
           | some (.oneof ops) => decOneofN c ops v
           | _ => 0
         | _ => 1) ≤ anyFactor c * (2 * v.size) := by
      split
      · split
        · next sub _ => exact decObjectN_le c sub v
        · exact Nat.zero_le _
      · split
        · next ops _ => exact decOneofN_le c ops v
        · exact Nat.zero_le _
      · exact bound_leaf _ _ hK (size_pos v)
    exact bound_cons _ _ _ _ _ hK hv (decMapMembersN_le c item rest)
termination_by sizeOf ms

theorem decObjectN_le (c : Cfg) (props : List PropDef) (t : PTree) :
    decObjectN c props t ≤ anyFactor c * (2 * t.size) := by
  have hK := anyFactor_pos c
  unfold decObjectN
  split
  · next ms =>
    simp only [PTree.size]
    exact bound_node _ _ _ hK (decObjMembersN_le c props ms _)
  · exact bound_leaf _ _ hK (size_pos t)
termination_by sizeOf t

theorem decOneofN_le (c : Cfg) (ops : List PropDef) (t : PTree) :
    decOneofN c ops t ≤ anyFactor c * (2 * t.size) := by
  have hK := anyFactor_pos c
  unfold decOneofN
  split
  · next ms =>
    simp only [PTree.size]
    exact bound_node _ _ _ hK (decOneofMembersN_le c ops ms _)
  · exact bound_leaf _ _ hK (size_pos t)
termination_by sizeOf t

theorem decRootTreeN_le (c : Cfg) (root : String) (t : PTree) :
    decRootTreeN c root t ≤ anyFactor c * (2 * t.size) := by
  have hK := anyFactor_pos c
  have hleaf : 1 ≤ anyFactor c * (2 * t.size) := bound_leaf _ _ hK (size_pos t)
  unfold decRootTreeN
  split
  · next props _ =>
    split
    · next ms =>
      simp only [PTree.size]
      exact bound_node _ _ _ hK (decObjMembersN_le c props ms _)
    · exact hleaf
  · next ops _ =>
    split
    · next ms =>
      simp only [PTree.size]
      exact bound_node _ _ _ hK (decOneofMembersN_le c ops ms _)
    · exact hleaf
  · exact hleaf
termination_by sizeOf t
end

end J5V.Codec
