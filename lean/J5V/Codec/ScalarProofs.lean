import J5V.Codec.Scalar
import J5V.Codec.Repr
/-!
# Lemmas about the scalar codecs (inverse pairs and rejections)
-/
namespace J5V.Codec
open J5V.Go J5V.Json

/-! ## decimal digits -/

def digitByte (d : Nat) : UInt8 := UInt8.ofNat (48 + d)

theorem digitByte_toNat (d : Nat) (h : d < 10) : (digitByte d).toNat = 48 + d := by
  unfold digitByte; rw [UInt8.toNat_ofNat']; omega

theorem isDigit_digitByte (d : Nat) (h : d < 10) : isDigit (digitByte d) = true := by
  unfold isDigit; rw [digitByte_toNat d h]; simp; omega

/-- specification of `fmtNat` -/
def digitsSpec (n : Nat) : Bytes :=
  if h : n < 10 then [digitByte n] else digitsSpec (n / 10) ++ [digitByte (n % 10)]
termination_by n
decreasing_by omega

theorem natDigitsAux_eq (fuel n : Nat) (acc : Bytes) (h : n < fuel) :
    natDigitsAux fuel n acc = digitsSpec n ++ acc := by
  induction fuel generalizing n acc with
  | zero => omega
  | succ f ih =>
    unfold natDigitsAux
    by_cases h10 : n < 10
    · rw [if_pos h10, digitsSpec, dif_pos h10]; rfl
    · rw [if_neg h10, ih (n / 10) _ (by omega)]
      conv => rhs; rw [digitsSpec, dif_neg h10]
      simp [digitByte]

theorem fmtNat_eq (n : Nat) : fmtNat n = digitsSpec n := by
  unfold fmtNat; rw [natDigitsAux_eq _ _ _ (by omega)]; simp

theorem digitsSpec_ne_nil (n : Nat) : digitsSpec n ≠ [] := by
  rw [digitsSpec]; split <;> simp

/-- one step of the `parseDigits` fold -/
def pdStep (acc : Option Nat) (c : UInt8) : Option Nat :=
  match acc with
  | none => none
  | some n => if isDigit c then some (n * 10 + (c.toNat - 48)) else none

theorem parseDigits_eq (s : Bytes) (h : s ≠ []) : parseDigits s = s.foldl pdStep (some 0) := by
  cases s with
  | nil => exact absurd rfl h
  | cons c t => rfl

theorem foldl_pdStep_digits (n a : Nat) :
    ∃ k, (digitsSpec n).foldl pdStep (some a) = some (a * 10 ^ k + n) ∧ n < 10 ^ k ∧
      k = (digitsSpec n).length := by
  induction n using Nat.strongRecOn with
  | _ n ih =>
    rw [digitsSpec]
    by_cases h10 : n < 10
    · rw [dif_pos h10]
      refine ⟨1, ?_, by omega, rfl⟩
      simp [pdStep, isDigit_digitByte n h10, digitByte_toNat n h10]
    · rw [dif_neg h10]
      obtain ⟨k, hk, hlt, hlen⟩ := ih (n / 10) (by omega)
      refine ⟨k + 1, ?_, ?_, by simp [hlen]⟩
      · rw [List.foldl_append, hk]
        have hd : n % 10 < 10 := Nat.mod_lt _ (by omega)
        simp only [List.foldl_cons, List.foldl_nil, pdStep, isDigit_digitByte _ hd,
          digitByte_toNat _ hd, if_true]
        congr 1
        rw [Nat.pow_succ]
        have : n = n / 10 * 10 + n % 10 := by omega
        generalize 10 ^ k = p at *
        have e : (a * p + n / 10) * 10 = a * (p * 10) + n / 10 * 10 := by
          rw [Nat.add_mul, Nat.mul_assoc]
        omega
      · rw [Nat.pow_succ]; omega

theorem parseDigits_fmtNat (n : Nat) : parseDigits (fmtNat n) = some n := by
  rw [fmtNat_eq, parseDigits_eq _ (digitsSpec_ne_nil n)]
  obtain ⟨k, hk, _, _⟩ := foldl_pdStep_digits n 0
  simpa using hk

theorem parseUint_fmtNat (n bits : Nat) (h : n < 2 ^ bits) : parseUint (fmtNat n) bits = some n := by
  unfold parseUint; rw [parseDigits_fmtNat]; simp [h]

/-- the first byte of a decimal rendering is a digit, hence neither `+` nor `-` -/
theorem digitsSpec_head (n : Nat) : ∃ c t, digitsSpec n = c :: t ∧ isDigit c = true := by
  induction n using Nat.strongRecOn with
  | _ n ih =>
    rw [digitsSpec]
    by_cases h10 : n < 10
    · rw [dif_pos h10]; exact ⟨_, _, rfl, isDigit_digitByte n h10⟩
    · rw [dif_neg h10]
      obtain ⟨c, t, hc, hd⟩ := ih (n / 10) (by omega)
      exact ⟨c, t ++ [digitByte (n % 10)], by rw [hc]; rfl, hd⟩

theorem isDigit_not_sign (c : UInt8) (h : isDigit c = true) : c ≠ 0x2B ∧ c ≠ 0x2D := by
  unfold isDigit at h
  simp only [Bool.and_eq_true, decide_eq_true_eq] at h
  constructor <;> intro e <;> subst e <;> simp at h

theorem parseInt_neg (body : Bytes) (bits : Nat) :
    parseInt (0x2D :: body) bits =
      match parseDigits body with
      | none => none
      | some n => if n ≤ 2 ^ (bits - 1) then some (-(n : Int)) else none := by
  cases h : parseDigits body <;> simp [parseInt, h]

theorem parseInt_nosign (c : UInt8) (t : Bytes) (bits : Nat) (h1 : c ≠ 0x2B) (h2 : c ≠ 0x2D) :
    parseInt (c :: t) bits =
      match parseDigits (c :: t) with
      | none => none
      | some n => if n < 2 ^ (bits - 1) then some (n : Int) else none := by
  cases h : parseDigits (c :: t) <;> simp [parseInt, if_neg h1, if_neg h2, h]

theorem parseInt_fmtInt (v : Int) (bits : Nat)
    (hlo : -(2 ^ (bits - 1) : Int) ≤ v) (hhi : v < 2 ^ (bits - 1)) :
    parseInt (fmtInt v) bits = some v := by
  unfold fmtInt
  by_cases hneg : v < 0
  · rw [if_pos hneg, parseInt_neg, parseDigits_fmtNat]
    have h1 : v.natAbs ≤ 2 ^ (bits - 1) := by
      have : ((v.natAbs : Nat) : Int) ≤ ((2 ^ (bits - 1) : Nat) : Int) := by
        push_cast; omega
      exact_mod_cast this
    simp only [h1, if_true]
    congr 1; omega
  · rw [if_neg hneg]
    obtain ⟨c, t, hc, hd⟩ := digitsSpec_head v.toNat
    have hs := isDigit_not_sign c hd
    have hfm : fmtNat v.toNat = c :: t := by rw [fmtNat_eq, hc]
    rw [hfm, parseInt_nosign c t bits hs.1 hs.2, ← hfm, parseDigits_fmtNat]
    have h1 : v.toNat < 2 ^ (bits - 1) := by
      have : ((v.toNat : Nat) : Int) < ((2 ^ (bits - 1) : Nat) : Int) := by
        push_cast; omega
      exact_mod_cast this
    simp only [h1, if_true]
    congr 1; omega

/-! ## base64 -/

theorem b64Val_b64Char : ∀ v, v < 64 → b64Val (b64Char v) = some v := by decide
theorem b64Val_pad : b64Val 0x3D = none := by decide
theorem isNl_pad : isNl 0x3D = false := by decide

theorem ofNat_toNat_of_eq (a : UInt8) (n : Nat) (h : n = a.toNat) : UInt8.ofNat n = a := by
  subst h; exact UInt8.ofNat_toNat

theorem b64_inv1 (a : UInt8) : b64Decode (b64Encode [a]) [] = some [a] := by
  have ha := a.toNat_lt
  have h1 : a.toNat / 4 < 64 := by omega
  have h2 : a.toNat % 4 * 16 < 64 := by omega
  simp only [b64Encode]
  simp only [b64Decode, b64Val_b64Char _ h1, b64Val_b64Char _ h2, List.nil_append,
    List.cons_append, b64Val_pad, isNl_pad, skipNl]
  simp
  refine ⟨rfl, ?_⟩
  apply ofNat_toNat_of_eq; omega

theorem b64_inv2 (a b : UInt8) : b64Decode (b64Encode [a, b]) [] = some [a, b] := by
  have ha := a.toNat_lt
  have hb := b.toNat_lt
  have h1 : (a.toNat * 256 + b.toNat) / 1024 < 64 := by omega
  have h2 : (a.toNat * 256 + b.toNat) / 16 % 64 < 64 := by omega
  have h3 : (a.toNat * 256 + b.toNat) % 16 * 4 < 64 := by omega
  simp only [b64Encode]
  simp only [b64Decode, b64Val_b64Char _ h1, b64Val_b64Char _ h2, b64Val_b64Char _ h3,
    List.nil_append, List.cons_append, b64Val_pad, isNl_pad, skipNl]
  simp
  constructor <;> apply ofNat_toNat_of_eq <;> omega

theorem b64Decode_quantum (x y z w : Nat) (hx : x < 64) (hy : y < 64) (hz : z < 64) (hw : w < 64)
    (rest : Bytes) :
    b64Decode (b64Char x :: b64Char y :: b64Char z :: b64Char w :: rest) [] =
      match b64Decode rest [] with
      | some out =>
        let n := x * 262144 + y * 4096 + z * 64 + w
        some (UInt8.ofNat (n / 65536) :: UInt8.ofNat (n / 256 % 256) :: UInt8.ofNat (n % 256) :: out)
      | none => none := by
  simp only [b64Decode, b64Val_b64Char _ hx, b64Val_b64Char _ hy, b64Val_b64Char _ hz,
    b64Val_b64Char _ hw, List.nil_append, List.cons_append]
  cases b64Decode rest [] <;> rfl

/-- `StdEncoding.DecodeString(StdEncoding.EncodeToString(b)) = b` -/
theorem b64_inv (bs : Bytes) : b64Decode (b64Encode bs) [] = some bs := by
  fun_induction b64Encode bs with
  | case1 => rfl
  | case2 a => exact b64_inv1 a
  | case3 a b => exact b64_inv2 a b
  | case4 a b c rest n ih =>
    have ha := a.toNat_lt
    have hb := b.toNat_lt
    have hc := c.toNat_lt
    have hn : n = a.toNat * 65536 + b.toNat * 256 + c.toNat := rfl
    rw [b64Decode_quantum _ _ _ _ (by omega) (by omega) (by omega) (by omega), ih]
    simp only []
    congr 2
    · apply ofNat_toNat_of_eq; omega
    · congr 1
      · apply ofNat_toNat_of_eq; omega
      · congr 1; apply ofNat_toNat_of_eq; omega

/-! ## dates -/

theorem digitsSpec_all_digits (n : Nat) : ∀ c ∈ digitsSpec n, isDigit c = true := by
  induction n using Nat.strongRecOn with
  | _ n ih =>
    rw [digitsSpec]
    by_cases h10 : n < 10
    · rw [dif_pos h10]; intro c hc; simp at hc; subst hc; exact isDigit_digitByte n h10
    · rw [dif_neg h10]; intro c hc
      rcases List.mem_append.mp hc with h | h
      · exact ih (n / 10) (by omega) c h
      · simp at h; subst h; exact isDigit_digitByte _ (Nat.mod_lt _ (by omega))

theorem isDigit_ne_dash (c : UInt8) (h : isDigit c = true) : c ≠ 0x2D := (isDigit_not_sign c h).2

theorem splitDash_ne_nil (s : Bytes) : splitDash s ≠ [] := by
  induction s with
  | nil => simp [splitDash]
  | cons c t ih =>
    unfold splitDash
    split
    · simp
    · split <;> simp

theorem splitDash_cons (c : UInt8) (t : Bytes) (h : Bytes) (tl : List Bytes)
    (hs : splitDash t = h :: tl) :
    splitDash (c :: t) = if c = 0x2D then [] :: h :: tl else (c :: h) :: tl := by
  rw [splitDash, hs]

theorem splitDash_nodash (s : Bytes) (h : ∀ c ∈ s, c ≠ 0x2D) : splitDash s = [s] := by
  induction s with
  | nil => rfl
  | cons c t ih =>
    have := ih (fun x hx => h x (List.mem_cons_of_mem _ hx))
    rw [splitDash_cons _ _ _ _ this]
    simp [h c (List.mem_cons_self)]

theorem splitDash_append (a rest : Bytes) (h : ∀ c ∈ a, c ≠ 0x2D) :
    splitDash (a ++ 0x2D :: rest) = a :: splitDash rest := by
  induction a with
  | nil =>
    simp only [List.nil_append]
    cases hs : splitDash rest with
    | nil => exact absurd hs (splitDash_ne_nil rest)
    | cons x y => rw [splitDash_cons _ _ _ _ hs]; simp
  | cons c t ih =>
    have := ih (fun x hx => h x (List.mem_cons_of_mem _ hx))
    simp only [List.cons_append]
    rw [splitDash_cons _ _ _ _ this]
    simp [h c (List.mem_cons_self)]

theorem fmtNat_nodash (n : Nat) : ∀ c ∈ fmtNat n, c ≠ 0x2D := by
  intro c hc; rw [fmtNat_eq] at hc
  exact isDigit_ne_dash c (digitsSpec_all_digits n c hc)

theorem fmtInt_nonneg (v : Int) (h : 0 ≤ v) : fmtInt v = fmtNat v.toNat := by
  unfold fmtInt; rw [if_neg (by omega)]

theorem foldl_pdStep_zeros (k : Nat) :
    (List.replicate k (0x30 : UInt8)).foldl pdStep (some 0) = some 0 := by
  induction k with
  | zero => rfl
  | succ k ih =>
    rw [List.replicate_succ, List.foldl_cons]
    have : pdStep (some 0) 0x30 = some 0 := by decide
    rw [this, ih]

theorem parseDigits_zeros_fmtNat (k n : Nat) :
    parseDigits (List.replicate k 0x30 ++ fmtNat n) = some n := by
  have hne : List.replicate k (0x30 : UInt8) ++ fmtNat n ≠ [] := by
    rw [fmtNat_eq]; intro h
    exact digitsSpec_ne_nil n (List.append_eq_nil_iff.mp h).2
  rw [parseDigits_eq _ hne, List.foldl_append, foldl_pdStep_zeros, fmtNat_eq]
  obtain ⟨_, hk, _, _⟩ := foldl_pdStep_digits n 0
  simpa using hk

theorem zeros_fmtNat_head (k n : Nat) :
    ∃ c t, List.replicate k (0x30 : UInt8) ++ fmtNat n = c :: t ∧ isDigit c = true := by
  cases k with
  | zero =>
    obtain ⟨c, t, hc, hd⟩ := digitsSpec_head n
    exact ⟨c, t, by rw [fmtNat_eq, hc]; rfl, hd⟩
  | succ k => exact ⟨0x30, _, by rw [List.replicate_succ]; rfl, by decide⟩

theorem parseInt_zeros_fmtNat (k n : Nat) (h : n < 2 ^ 63) :
    parseInt (List.replicate k 0x30 ++ fmtNat n) 64 = some (n : Int) := by
  obtain ⟨c, t, hc, hd⟩ := zeros_fmtNat_head k n
  have hs := isDigit_not_sign c hd
  rw [hc, parseInt_nosign c t 64 hs.1 hs.2, ← hc, parseDigits_zeros_fmtNat]
  simp [h]

theorem fmtZero4_nonneg (y : Int) (h : 0 ≤ y) :
    fmtZero4 y = List.replicate (4 - (fmtNat y.toNat).length) 0x30 ++ fmtNat y.toNat := by
  unfold fmtZero4; rw [if_neg (by omega)]

theorem fmtZero4_nodash (y : Int) (h : 0 ≤ y) : ∀ c ∈ fmtZero4 y, c ≠ 0x2D := by
  rw [fmtZero4_nonneg y h]
  intro c hc
  rcases List.mem_append.mp hc with h1 | h1
  · rw [List.mem_replicate] at h1; rw [h1.2]; decide
  · exact fmtNat_nodash _ c h1

theorem parseInt_zero2 (v : Int) (h0 : 0 ≤ v) (h : v < 2 ^ 63) :
    parseInt (fmtZero2 v) 64 = some v := by
  unfold fmtZero2
  by_cases hs : 0 ≤ v ∧ v < 10
  · rw [if_pos hs, parseInt_nosign _ _ _ (by decide) (by decide)]
    rw [fmtInt_nonneg v h0, fmtNat_eq, digitsSpec, dif_pos (by omega)]
    have hd : v.toNat < 10 := by omega
    have h57 : 48 + v.toNat ≤ 57 := by omega
    simp [parseDigits, isDigit, digitByte_toNat _ hd, h57]
    omega
  · rw [if_neg hs]; exact parseInt_fmtInt v 64 (by omega) (by simpa using h)

theorem fmtZero2_nodash (v : Int) (h0 : 0 ≤ v) : ∀ c ∈ fmtZero2 v, c ≠ 0x2D := by
  unfold fmtZero2
  intro c hc
  split at hc
  · rcases List.mem_cons.mp hc with rfl | hc
    · decide
    · rw [fmtInt_nonneg v h0] at hc; exact fmtNat_nodash _ c hc
  · rw [fmtInt_nonneg v h0] at hc; exact fmtNat_nodash _ c hc

/-- `DateFromString(DateString(d)) = d` for every calendar date with a non-negative year -/
theorem date_inv (y m d : Int) (hy : 0 ≤ y) (hy2 : y < 2 ^ 31) (hm : 1 ≤ m) (hm2 : m ≤ 12)
    (hd : 1 ≤ d) (hd2 : d ≤ daysInMonth y m) :
    dateFromString (dateString y m d) = some (y, m, d) := by
  have hd31 : d ≤ 31 := by
    unfold daysInMonth at hd2
    split at hd2
    · split at hd2 <;> omega
    · split at hd2 <;> omega
  unfold dateFromString dateString
  simp only [List.append_assoc, List.cons_append, List.nil_append]
  have e0 := splitDash_append (fmtZero4 y) (fmtZero2 m ++ 0x2D :: fmtZero2 d) (fmtZero4_nodash y hy)
  rw [e0, splitDash_append _ _ (fmtZero2_nodash m (by omega)),
    splitDash_nodash _ (fmtZero2_nodash d (by omega))]
  simp only []
  have e1 : parseInt (fmtZero4 y) 64 = some y := by
    rw [fmtZero4_nonneg y hy, parseInt_zeros_fmtNat _ _ (by omega)]
    congr 1; omega
  rw [e1, parseInt_zero2 m (by omega) (by omega), parseInt_zero2 d (by omega) (by omega)]
  simp only []
  rw [if_neg (by omega), if_neg (by omega), if_neg (by omega)]

/-! ## base64 alternate alphabets -/

def urlToStd (c : UInt8) : UInt8 := if c = 0x2D then 0x2B else if c = 0x5F then 0x2F else c

theorem urlToStd_b64Char : ∀ v, v < 64 → urlToStd (b64Char v) = b64Char v := by decide

theorem b64Encode_length (bs : Bytes) : (b64Encode bs).length % 4 = 0 := by
  fun_induction b64Encode bs with
  | case1 => rfl
  | case2 a => simp
  | case3 a b => simp
  | case4 a b c rest n ih => simp only [List.length_cons]; omega

theorem b64Encode_urlToStd (bs : Bytes) : (b64Encode bs).map urlToStd = b64Encode bs := by
  fun_induction b64Encode bs with
  | case1 => rfl
  | case2 a =>
    have ha := a.toNat_lt
    simp only [List.map_cons, List.map_nil]
    rw [urlToStd_b64Char _ (by omega), urlToStd_b64Char _ (by omega)]; rfl
  | case3 a b =>
    have ha := a.toNat_lt
    have hb := b.toNat_lt
    simp only [List.map_cons, List.map_nil]
    rw [urlToStd_b64Char _ (by omega), urlToStd_b64Char _ (by omega), urlToStd_b64Char _ (by omega)]; rfl
  | case4 a b c rest n ih =>
    have ha := a.toNat_lt
    have hb := b.toNat_lt
    have hc := c.toNat_lt
    have hn : n = a.toNat * 65536 + b.toNat * 256 + c.toNat := rfl
    simp only [List.map_cons, ih]
    rw [urlToStd_b64Char _ (by omega), urlToStd_b64Char _ (by omega), urlToStd_b64Char _ (by omega),
      urlToStd_b64Char _ (by omega)]

theorem byteValueFromString_eq (s : Bytes) : byteValueFromString s =
    b64Decode (let s1 := s.map urlToStd
      if s1.length % 4 ≠ 0 then s1 ++ List.replicate (4 - s1.length % 4) 0x3D else s1) [] := rfl

theorem byteValueFromString_encode (bs : Bytes) : byteValueFromString (b64Encode bs) = some bs := by
  rw [byteValueFromString_eq]
  simp only [b64Encode_urlToStd]
  rw [if_neg (by simp [b64Encode_length])]
  exact b64_inv bs

/-! ## the per-scalar inverse pair -/

theorem ascii_true : ascii "true" = [0x74, 0x72, 0x75, 0x65] := by decide
theorem ascii_false : ascii "false" = [0x66, 0x61, 0x6C, 0x73, 0x65] := by decide

theorem scalarTok_bare_num (c : UInt8) (r : Bytes) (h1 : c ≠ 0x74) (h2 : c ≠ 0x66) :
    scalarTok (.bare (c :: r)) = .num (c :: r) := by
  unfold scalarTok
  rw [ascii_true, ascii_false]
  simp [h1, h2]

theorem scanInt_head (c : UInt8) (r : Bytes) (h : (scanInt (c :: r)).isSome) : isDigit c = true := by
  unfold scanInt at h
  by_cases h0 : c = 0x30
  · subst h0; decide
  · by_cases hd : isDigit c = true
    · exact hd
    · simp [h0, hd] at h

theorem isJsonNumber_head (t : Bytes) (h : Wire.isJsonNumber t = true) :
    ∃ c r, t = c :: r ∧ (c = 0x2D ∨ isDigit c = true) := by
  cases t with
  | nil => simp [Wire.isJsonNumber, scanNumber, scanSign, scanInt] at h
  | cons c r =>
    refine ⟨c, r, rfl, ?_⟩
    by_cases hc : c = 0x2D
    · exact Or.inl hc
    · right
      apply scanInt_head c r
      unfold Wire.isJsonNumber scanNumber at h
      have hs : scanSign (c :: r) = ([], c :: r) := by
        unfold scanSign; split
        · next heq => simp at heq; exact absurd heq.1 hc
        · rfl
      rw [hs] at h
      cases hi : scanInt (c :: r) with
      | none => simp [hi] at h
      | some x => rfl

theorem isDigit_ne_tf (c : UInt8) (h : c = 0x2D ∨ isDigit c = true) : c ≠ 0x74 ∧ c ≠ 0x66 := by
  rcases h with h | h
  · subst h; decide
  · unfold isDigit at h
    simp only [Bool.and_eq_true, decide_eq_true_eq] at h
    constructor <;> intro e <;> subst e <;> simp at h

theorem fmtInt_head (v : Int) : ∃ c r, fmtInt v = c :: r ∧ (c = 0x2D ∨ isDigit c = true) := by
  unfold fmtInt
  split
  · exact ⟨_, _, rfl, Or.inl rfl⟩
  · obtain ⟨c, t, hc, hd⟩ := digitsSpec_head v.toNat
    exact ⟨c, t, by rw [fmtNat_eq, hc], Or.inr hd⟩

theorem fmtNat_head (n : Nat) : ∃ c r, fmtNat n = c :: r ∧ (c = 0x2D ∨ isDigit c = true) := by
  obtain ⟨c, t, hc, hd⟩ := digitsSpec_head n
  exact ⟨c, t, by rw [fmtNat_eq, hc], Or.inr hd⟩

theorem nonFinite_finite (a c : Bool) (t : Bytes) : nonFinite a false c t = .bare t := by
  simp [nonFinite]

theorem finite32_exp (b : Nat) (h : finite32 b = true) : decide (b / 2 ^ 23 % 256 = 255) = false := by
  simp only [finite32, bne_iff_ne, ne_eq] at h
  simp [h]

theorem finite64_exp (b : Nat) (h : finite64 b = true) : decide (b / 2 ^ 52 % 2048 = 2047) = false := by
  simp only [finite64, bne_iff_ne, ne_eq] at h
  simp [h]

theorem scalarTok_num_of_head (t : Bytes) (h : ∃ c r, t = c :: r ∧ (c = 0x2D ∨ isDigit c = true)) :
    scalarTok (.bare t) = .num t := by
  obtain ⟨c, r, rfl, hc⟩ := h
  have := isDigit_ne_tf c hc
  exact scalarTok_bare_num c r this.1 this.2

/-- per-scalar inverse pair -/
theorem scalar_roundtrip (O : Oracle) (L : OracleLaws O) (k : ScalarKind) (v : PVal)
    (h : scalarRepr O k v = true) :
    ∃ out, encodeScalar O k v = .ok out ∧
      decodeScalar O k (scalarTok out) = .ok (some (canonScalar O v)) := by
  cases k <;> cases v <;> simp only [scalarRepr, Bool.false_eq_true] at h
  case string.str s => exact ⟨_, rfl, rfl⟩
  case key.str s => exact ⟨_, rfl, rfl⟩
  case bool.bool b =>
    refine ⟨_, rfl, ?_⟩
    cases b <;> simp [scalarTok, ascii_true, ascii_false, decodeScalar, canonScalar]
  case int32.int i =>
    simp only [Bool.and_eq_true, decide_eq_true_eq] at h
    refine ⟨_, rfl, ?_⟩
    rw [scalarTok_num_of_head _ (fmtInt_head i)]
    simp only [decodeScalar]
    rw [parseInt_fmtInt i 64 (by omega) (by omega)]
    simp only []
    rw [if_neg (by omega)]; rfl
  case int64.int i =>
    simp only [Bool.and_eq_true, decide_eq_true_eq] at h
    refine ⟨_, rfl, ?_⟩
    simp only [scalarTok, decodeScalar]
    rw [parseInt_fmtInt i 64 (by simpa using h.1) (by simpa using h.2)]; rfl
  case uint32.uint n =>
    simp only [decide_eq_true_eq] at h
    refine ⟨_, rfl, ?_⟩
    rw [scalarTok_num_of_head _ (fmtNat_head n)]
    simp only [decodeScalar]
    have := parseInt_fmtInt (n : Int) 64 (by omega) (by omega)
    rw [fmtInt_nonneg _ (by omega)] at this
    simp only [Int.toNat_natCast] at this
    rw [this]
    simp only []
    rw [if_neg (by omega)]; simp [canonScalar]
  case uint64.uint n =>
    simp only [decide_eq_true_eq] at h
    refine ⟨_, rfl, ?_⟩
    simp only [scalarTok, decodeScalar]
    rw [parseUint_fmtNat n 64 h]; rfl
  case float32.f32 b =>
    obtain ⟨hnum, b64, hp⟩ := L.f32 b h
    refine ⟨_, rfl, ?_⟩
    rw [finite32_exp b h, nonFinite_finite, scalarTok_num_of_head _ (isJsonNumber_head _ hnum)]
    simp only [decodeScalar, hp]; rfl
  case float64.f64 b =>
    obtain ⟨hnum, b32, hp⟩ := L.f64 b h
    refine ⟨_, rfl, ?_⟩
    rw [finite64_exp b h, nonFinite_finite, scalarTok_num_of_head _ (isJsonNumber_head _ hnum)]
    simp only [decodeScalar, hp]; rfl
  case bytes.bytes b =>
    refine ⟨_, rfl, ?_⟩
    simp only [scalarTok, decodeScalar, byteValueFromString_encode]; rfl
  case timestamp.ts s n =>
    have hp := L.time s n h
    refine ⟨_, rfl, ?_⟩
    simp only [scalarTok, decodeScalar, hp]; rfl
  case date.date y m d =>
    simp only [decide_eq_true_eq] at h
    refine ⟨_, rfl, ?_⟩
    simp only [scalarTok, decodeScalar]
    rw [date_inv y m d (by omega) (by omega) h.2.2.1 h.2.2.2.1 h.2.2.2.2.1 h.2.2.2.2.2]; rfl
  case decimal.dec s =>
    refine ⟨_, rfl, ?_⟩
    simp only [scalarTok, decodeScalar, canonScalar]
    cases hp : O.parseDec s with
    | none => simp [hp] at h
    | some norm => rfl

/-! ## integers are JSON numbers -/

/-- the rest of the input cannot continue a number's digit run -/
def noDigitHead : Bytes → Prop
  | [] => True
  | c :: _ => isDigit c = false

theorem spanDigits_append (t rest : Bytes) (ht : ∀ c ∈ t, isDigit c = true) (hr : noDigitHead rest) :
    spanDigits (t ++ rest) = (t, rest) := by
  induction t with
  | nil =>
    cases rest with
    | nil => rfl
    | cons c r => simp only [List.nil_append, spanDigits]; simp [noDigitHead] at hr; simp [hr]
  | cons c t ih =>
    have h1 := ht c (List.mem_cons_self)
    have h2 := ih (fun x hx => ht x (List.mem_cons_of_mem _ hx))
    simp only [List.cons_append, spanDigits, h1, h2, if_true]

theorem digitsSpec_head_nonzero (n : Nat) (h : 0 < n) :
    ∃ c t, digitsSpec n = c :: t ∧ isDigit c = true ∧ c ≠ 0x30 := by
  induction n using Nat.strongRecOn with
  | _ n ih =>
    rw [digitsSpec]
    by_cases h10 : n < 10
    · rw [dif_pos h10]
      refine ⟨_, _, rfl, isDigit_digitByte n h10, ?_⟩
      intro e
      have := congrArg UInt8.toNat e
      rw [digitByte_toNat n h10] at this
      simp at this; omega
    · rw [dif_neg h10]
      obtain ⟨c, t, hc, hd, hz⟩ := ih (n / 10) (by omega) (by omega)
      exact ⟨c, t ++ [digitByte (n % 10)], by rw [hc]; rfl, hd, hz⟩

/-- what may follow a complete number literal: nothing that the scanner would take as part of it -/
def numberEnd : Bytes → Prop
  | [] => True
  | c :: _ => isDigit c = false ∧ c ≠ 0x2E ∧ c ≠ 0x65 ∧ c ≠ 0x45

theorem scanFrac_end (rest : Bytes) (h : numberEnd rest) : scanFrac rest = some ([], rest) := by
  cases rest with
  | nil => rfl
  | cons c r =>
    unfold scanFrac
    split
    · next heq => simp at heq; exact absurd heq.1 h.2.1
    · rfl

theorem scanExp_end (rest : Bytes) (h : numberEnd rest) : scanExp rest = some ([], rest) := by
  cases rest with
  | nil => rfl
  | cons c r =>
    have hne : ¬ (c = 0x65 ∨ c = 0x45) := by
      intro e; rcases e with e | e
      · exact h.2.2.1 e
      · exact h.2.2.2 e
    simp only [scanExp, if_neg hne]

theorem numberEnd_noDigit (rest : Bytes) (h : numberEnd rest) : noDigitHead rest := by
  cases rest with
  | nil => trivial
  | cons c r => exact h.1

theorem scanInt_digitsSpec (n : Nat) (rest : Bytes) (h : numberEnd rest) :
    scanInt (digitsSpec n ++ rest) = some (digitsSpec n, rest) := by
  by_cases h0 : n = 0
  · subst h0
    have : digitsSpec 0 = [0x30] := by rw [digitsSpec]; rfl
    rw [this]; rfl
  · obtain ⟨c, t, hc, hd, hz⟩ := digitsSpec_head_nonzero n (by omega)
    have hall := digitsSpec_all_digits n
    rw [hc] at hall ⊢
    simp only [List.cons_append, scanInt, if_neg hz, hd, if_true]
    rw [spanDigits_append t rest (fun x hx => hall x (List.mem_cons_of_mem _ hx))
      (numberEnd_noDigit rest h)]

theorem scanNumber_fmtNat (n : Nat) (rest : Bytes) (h : numberEnd rest) :
    scanNumber (fmtNat n ++ rest) = some (fmtNat n, rest) := by
  rw [fmtNat_eq]
  obtain ⟨c, t, hc, hd⟩ := digitsSpec_head n
  have hsign : scanSign (digitsSpec n ++ rest) = ([], digitsSpec n ++ rest) := by
    rw [hc]; simp only [List.cons_append]
    unfold scanSign; split
    · next heq => simp at heq; exact absurd heq.1 (isDigit_not_sign c hd).2
    · rfl
  unfold scanNumber
  rw [hsign]
  simp only [scanInt_digitsSpec n rest h, scanFrac_end rest h, scanExp_end rest h]
  simp

theorem scanNumber_fmtInt (v : Int) (rest : Bytes) (h : numberEnd rest) :
    scanNumber (fmtInt v ++ rest) = some (fmtInt v, rest) := by
  unfold fmtInt
  split
  · rw [fmtNat_eq]
    unfold scanNumber
    simp only [List.cons_append, scanSign, scanInt_digitsSpec _ rest h, scanFrac_end rest h,
      scanExp_end rest h]
    simp
  · exact scanNumber_fmtNat _ rest h

theorem isJsonNumber_fmtInt (v : Int) : Wire.isJsonNumber (fmtInt v) = true := by
  have := scanNumber_fmtInt v [] trivial
  simp only [List.append_nil] at this
  simp [Wire.isJsonNumber, this]

theorem isJsonNumber_fmtNat (n : Nat) : Wire.isJsonNumber (fmtNat n) = true := by
  have := scanNumber_fmtNat n [] trivial
  simp only [List.append_nil] at this
  simp [Wire.isJsonNumber, this]

/-! ## ASCII texts are valid UTF-8 -/

theorem validUtf8_ascii : ∀ (fuel : Nat) (s : Bytes), s.length ≤ fuel → (∀ c ∈ s, c.toNat < 0x80) →
    validUtf8 fuel s = true := by
  intro fuel
  induction fuel with
  | zero => intro s hs _; have : s = [] := List.eq_nil_of_length_eq_zero (by omega); subst this; rfl
  | succ f ih =>
    intro s hs ha
    cases s with
    | nil => rfl
    | cons c t =>
      have hc := ha c List.mem_cons_self
      have hd : decodeRune (c :: t) = (c.toNat, 1) := by simp [decodeRune, hc]
      simp only [validUtf8, hd]
      have : ¬ (c.toNat = runeError ∧ True) := by unfold runeError; omega
      simp only [this, if_false, List.drop_succ_cons, List.drop_zero]
      exact ih t (by simp only [List.length_cons] at hs; omega) (fun x hx => ha x (List.mem_cons_of_mem _ hx))

theorem isValidUtf8_ascii (s : Bytes) (h : ∀ c ∈ s, c.toNat < 0x80) : isValidUtf8 s = true :=
  validUtf8_ascii s.length s (Nat.le_refl _) h

theorem isDigit_ascii (c : UInt8) (h : isDigit c = true) : c.toNat < 0x80 := by
  simp only [isDigit, Bool.and_eq_true, decide_eq_true_eq] at h; omega

theorem fmtNat_ascii (n : Nat) : ∀ c ∈ fmtNat n, c.toNat < 0x80 := by
  intro c hc; rw [fmtNat_eq] at hc
  exact isDigit_ascii c (digitsSpec_all_digits n c hc)

theorem fmtInt_ascii (v : Int) : ∀ c ∈ fmtInt v, c.toNat < 0x80 := by
  unfold fmtInt
  split
  · intro c hc
    rcases List.mem_cons.mp hc with rfl | hc
    · decide
    · exact fmtNat_ascii _ c hc
  · exact fmtNat_ascii _

theorem b64Char_ascii : ∀ v, v < 64 → (b64Char v).toNat < 0x80 := by decide

theorem b64Encode_ascii (bs : Bytes) : ∀ c ∈ b64Encode bs, c.toNat < 0x80 := by
  fun_induction b64Encode bs with
  | case1 => intro c hc; cases hc
  | case2 a n =>
    have ha := a.toNat_lt
    have hn : n = a.toNat := rfl
    intro c hc
    simp only [List.mem_cons, List.not_mem_nil, or_false] at hc
    rcases hc with rfl | rfl | rfl | rfl
    · exact b64Char_ascii _ (by omega)
    · exact b64Char_ascii _ (by omega)
    · decide
    · decide
  | case3 a b n =>
    have ha := a.toNat_lt
    have hb := b.toNat_lt
    have hn : n = a.toNat * 256 + b.toNat := rfl
    intro c hc
    simp only [List.mem_cons, List.not_mem_nil, or_false] at hc
    rcases hc with rfl | rfl | rfl | rfl
    · exact b64Char_ascii _ (by omega)
    · exact b64Char_ascii _ (by omega)
    · exact b64Char_ascii _ (by omega)
    · decide
  | case4 a b c rest n ih =>
    have ha := a.toNat_lt
    have hb := b.toNat_lt
    have hc := c.toNat_lt
    have hn : n = a.toNat * 65536 + b.toNat * 256 + c.toNat := rfl
    intro x hx
    simp only [List.mem_cons] at hx
    rcases hx with rfl | rfl | rfl | rfl | hx
    · exact b64Char_ascii _ (by omega)
    · exact b64Char_ascii _ (by omega)
    · exact b64Char_ascii _ (by omega)
    · exact b64Char_ascii _ (by omega)
    · exact ih x hx

theorem fmtZero2_ascii (v : Int) : ∀ c ∈ fmtZero2 v, c.toNat < 0x80 := by
  unfold fmtZero2
  split
  · intro c hc
    rcases List.mem_cons.mp hc with rfl | hc
    · decide
    · exact fmtInt_ascii _ c hc
  · exact fmtInt_ascii _

theorem fmtZero4_ascii (v : Int) : ∀ c ∈ fmtZero4 v, c.toNat < 0x80 := by
  unfold fmtZero4
  split
  · intro c hc
    rcases List.mem_cons.mp hc with rfl | hc
    · decide
    · rcases List.mem_append.mp hc with h | h
      · rw [List.mem_replicate] at h; rw [h.2]; decide
      · exact fmtNat_ascii _ c h
  · intro c hc
    rcases List.mem_append.mp hc with h | h
    · rw [List.mem_replicate] at h; rw [h.2]; decide
    · exact fmtNat_ascii _ c h

theorem dateString_ascii (y m d : Int) : ∀ c ∈ dateString y m d, c.toNat < 0x80 := by
  unfold dateString
  intro c hc
  simp only [List.mem_append, List.mem_cons, List.not_mem_nil, or_false] at hc
  rcases hc with (((h | rfl) | h) | rfl) | h
  · exact fmtZero4_ascii y c h
  · decide
  · exact fmtZero2_ascii m c h
  · decide
  · exact fmtZero2_ascii d c h

/-! ## a lawful oracle exists (non-vacuity of `OracleLaws`) -/

/-- not Go's functions: any injective text codec satisfies the laws the theorems assume -/
def toyOracle : Oracle where
  fmtF64 b := fmtNat b
  fmtF32 b := fmtNat b
  parseFloat t := (parseDigits t).map fun n => (n, some n)
  fmtTime s n := fmtNat ((s - tsMin).toNat * 1000000000 + n.toNat)
  parseTime t := (parseDigits t).map fun p =>
    (((p / 1000000000 : Nat) : Int) + tsMin, ((p % 1000000000 : Nat) : Int))
  parseDec t := if (parseDigits t).isSome then some t else none

theorem toyOracle_laws : OracleLaws toyOracle where
  f64 b _ := ⟨isJsonNumber_fmtNat b, b, by simp [toyOracle, parseDigits_fmtNat]⟩
  f32 b _ := ⟨isJsonNumber_fmtNat b, b, by simp [toyOracle, parseDigits_fmtNat]⟩
  time s n h := by
    rw [tsRepr_iff] at h
    simp only [toyOracle, parseDigits_fmtNat, Option.map_some, tsMin]
    congr 1
    refine Prod.ext ?_ ?_ <;> simp only [] <;> omega
  dec s norm h := by
    simp only [toyOracle] at h ⊢
    split at h
    · cases h; simp [*]
    · cases h
  timeUtf8 s n _ := isValidUtf8_ascii _ (fmtNat_ascii _)

end J5V.Codec
