import J5V.Codec.Doc
import J5V.Codec.FaultDocProofs
/-!
# A scalar query parameter decodes like the equivalent document (C03)

`decodeQuery c root [(key, [s])]` and `decRootTree c root (queryDoc …)` have the same outcome
class and, on success, the same message — for every environment, dotted paths through object /
wrapper-oneof / exposed-oneof containers of any proto path, every scalar kind and enums.
-/
namespace J5V.Codec
open J5V.Go J5V.Json

/-- same outcome class, same value on success -/
def Sim {α} (a b : Outcome α) : Prop :=
  (∃ x, a = .ok x ∧ b = .ok x) ∨ (∃ e e', a = .err e ∧ b = .err e') ∨ (∃ w w', a = .panic w ∧ b = .panic w')

/-- the message that holds `X` at proto location `loc` and nothing else -/
def wrapAt : List Nat → Fields → Fields
  | [], X => X
  | k :: rest, X => [(k, .msg (wrapAt rest X))]

theorem updAt_wrap (f : Fields → Fields) : ∀ (loc : List Nat) (X : Fields),
    updAt loc f (wrapAt loc X) = wrapAt loc (f X) := by
  intro loc
  induction loc with
  | nil => intro X; rfl
  | cons k rest ih =>
    intro X
    simp only [updAt, wrapAt, aget, if_true, PVal.asMsg, ih]
    simp [aset]

theorem msgAt_wrap : ∀ (loc : List Nat) (X : Fields), msgAt loc (wrapAt loc X) = X := by
  intro loc
  induction loc with
  | nil => intro X; rfl
  | cons k rest ih => intro X; simp [msgAt, wrapAt, aget, PVal.asMsg, ih]

theorem wrapAt_append : ∀ (loc path : List Nat) (X : Fields),
    wrapAt (loc ++ path) X = wrapAt loc (wrapAt path X) := by
  intro loc
  induction loc with
  | nil => intro path X; rfl
  | cons k rest ih => intro path X; simp [wrapAt, ih]

theorem getPath_nil (path : List Nat) : getPath [] path = none := by
  cases path with
  | nil => rfl
  | cons k t => cases t <;> simp [getPath, aget]

theorem msgAt_nil : ∀ (loc : List Nat), msgAt loc [] = [] := by
  intro loc
  induction loc with
  | nil => rfl
  | cons k rest ih => simp [msgAt, aget, PVal.asMsg, ih]

theorem groupBusy_empty (props : List PropDef) (p : PropDef) : groupBusy props p [] = false := by
  unfold groupBusy
  split
  · simp only [msgAt_nil, List.any_eq_false]
    intro q _
    split <;> simp [aget]
  · rfl

theorem clearGroup_empty (props : List PropDef) (pfx : List Nat) (g : Option Nat) (k : Nat) :
    clearGroup props pfx g k [] = [] := by
  unfold clearGroup
  cases g with
  | none => rfl
  | some gi =>
    simp only []
    have : ∀ (l : List PropDef), l.foldl (fun acc p =>
        if p.group == some gi && p.path.dropLast == pfx then
          match p.path.getLast? with
          | some k' => if k' == k then acc else aerase k' acc
          | none => acc
        else acc) ([] : Fields) = [] := by
      intro l
      induction l with
      | nil => rfl
      | cons q t ih =>
        rw [List.foldl_cons]
        have : (if q.group == some gi && q.path.dropLast == pfx then
            match q.path.getLast? with
            | some k' => if k' == k then ([] : Fields) else aerase k' []
            | none => []
          else []) = [] := by
          split
          · split
            · split <;> rfl
            · rfl
          · rfl
        rw [this]; exact ih
    exact this props

/-- storing a message at a path of the empty message builds the chain of sub-messages -/
theorem updGo_msg_nil (props : List PropDef) (p : PropDef) (X : Fields) :
    ∀ (path pfx : List Nat), path ≠ [] →
      updPath.go props p (some (.msg X)) pfx path [] = wrapAt path X := by
  intro path
  induction path with
  | nil => intro pfx h; exact absurd rfl h
  | cons k t ih =>
    intro pfx _
    cases t with
    | nil =>
      rw [updPath.go, clearGroup_empty]
      simp [setLeaf, PVal.isZero, PVal.isEmptyColl, aset, wrapAt]
    | cons k2 r =>
      rw [updPath.go]
      · simp only [aget, PVal.asMsg]
        rw [ih (pfx ++ [k]) (by simp)]
        simp [aset, wrapAt]
      · simp

theorem updPath_msg_nil (props : List PropDef) (p : PropDef) (X : Fields) (h : p.path ≠ []) :
    updPath props p (some (.msg X)) [] = wrapAt p.path X :=
  updGo_msg_nil props p X p.path [] h

theorem propertyName_found (props : List PropDef) (seg : Bytes) (p : PropDef)
    (h : findProp props seg = some p) : propertyName props seg = seg := by
  unfold propertyName; simp [h]

theorem goTok_queryLeafTree (k : ScalarKind) (s : Bytes) :
    goTok (queryLeafTree k s) = some (queryGoValue k s) := by
  unfold queryLeafTree
  cases h : queryGoValue k s with
  | bool b => rfl
  | str v =>
    simp only [goTok]
    -- `queryGoValue` returns the text unchanged when it is not a boolean
    unfold queryGoValue at h
    split at h
    · split at h
      · cases h
      · split at h
        · cases h
        · cases h; rfl
    · cases h; rfl
  | num x => unfold queryGoValue at h; split at h <;> (try split at h) <;> (try split at h) <;> cases h
  | null => unfold queryGoValue at h; split at h <;> (try split at h) <;> (try split at h) <;> cases h

end J5V.Codec

namespace J5V.Codec
open J5V.Go J5V.Json

theorem not_seen_of_short (seen : List (List Bytes)) (trail : List Bytes) (name : Bytes)
    (h : ∀ x ∈ seen, x.length ≤ trail.length) : seen.contains (trail ++ [name]) = false := by
  cases hc : seen.contains (trail ++ [name]) with
  | false => rfl
  | true =>
    have hm : trail ++ [name] ∈ seen := by simpa using hc
    have := h _ hm
    simp only [List.length_append, List.length_singleton] at this
    omega

theorem Sim_err {α} (e e' : String) : Sim (Outcome.err e : Outcome α) (Outcome.err e') :=
  Or.inr (Or.inl ⟨e, e', rfl, rfl⟩)

theorem Sim_ok {α} (x : α) : Sim (Outcome.ok x) (Outcome.ok x) := Or.inl ⟨x, rfl, rfl⟩

theorem Sim_panic {α} (w w' : String) : Sim (Outcome.panic w : Outcome α) (Outcome.panic w') :=
  Or.inr (Or.inr ⟨w, w', rfl, rfl⟩)

/-- `qCreate` on a fresh location: the flag check and the oneof check pass -/
theorem qCreate_fresh_ok (props : List PropDef) (p : PropDef) (loc : List Nat) (trail : List Bytes)
    (seen : List (List Bytes)) (h : ∀ x ∈ seen, x.length ≤ trail.length) (hne : p.path ≠ [])
    (hf : (∃ k, p.field = .scalar k) ∨ (∃ r, p.field = .enum r) ∨ (∃ r, p.field = .object r) ∨
      (∃ r, p.field = .oneof r)) :
    qCreate props p loc trail { m := wrapAt loc [], seen := seen } =
      .ok { m := wrapAt loc [], seen := (trail ++ [p.jsonName]) :: seen } := by
  unfold qCreate
  simp only [not_seen_of_short seen trail p.jsonName h, Bool.false_eq_true, if_false, msgAt_wrap,
    groupBusy_empty]
  cases hp : p.path with
  | nil => exact absurd hp hne
  | cons a t =>
    rcases hf with ⟨k, hk⟩ | ⟨r, hk⟩ | ⟨r, hk⟩ | ⟨r, hk⟩ <;> rw [hk]

theorem qCreate_fresh_exposed (props : List PropDef) (p : PropDef) (loc : List Nat)
    (trail : List Bytes) (seen : List (List Bytes)) (h : ∀ x ∈ seen, x.length ≤ trail.length)
    (hp : p.path = []) (r : String) (hf : p.field = .oneof r) :
    qCreate props p loc trail { m := wrapAt loc [], seen := seen } =
      .ok { m := wrapAt loc [], seen := (trail ++ [p.jsonName]) :: seen } := by
  unfold qCreate
  simp only [not_seen_of_short seen trail p.jsonName h, Bool.false_eq_true, if_false, msgAt_wrap,
    groupBusy_empty]
  rw [hp, hf]

theorem qCreate_fresh_nopath (props : List PropDef) (p : PropDef) (loc : List Nat)
    (trail : List Bytes) (seen : List (List Bytes)) (h : ∀ x ∈ seen, x.length ≤ trail.length)
    (hp : p.path = []) (hf : (∃ k, p.field = .scalar k) ∨ (∃ r, p.field = .enum r) ∨ (∃ r, p.field = .object r)) :
    ∃ e, qCreate props p loc trail { m := wrapAt loc [], seen := seen } = .err e := by
  unfold qCreate
  simp only [not_seen_of_short seen trail p.jsonName h, Bool.false_eq_true, if_false, msgAt_wrap,
    groupBusy_empty]
  rcases hf with ⟨k, hk⟩ | ⟨r, hk⟩ | ⟨r, hk⟩ <;> (rw [hp, hk]; exact ⟨_, rfl⟩)

theorem createField_empty (props : List PropDef) (p : PropDef) :
    createField props p { m := [], seen := [] } = .ok { m := [], seen := [p.jsonName] } := by
  unfold createField
  simp [groupBusy_empty]

end J5V.Codec

namespace J5V.Codec
open J5V.Go J5V.Json

/-- message part of a query state / wrapped message of a decoder state -/
def qOut (r : Outcome QS) : Outcome Fields := r.bind fun x => .ok x.m
def dOut (loc : List Nat) (r : Outcome PS) : Outcome Fields := r.bind fun x => .ok (wrapAt loc x.m)

/-! ## the document side, one member at a time -/

theorem leaf_scalar (c : Cfg) (props : List PropDef) (p : PropDef) (k : ScalarKind) (s : Bytes) :
    decScalarProp c props p k (queryLeafTree k s) { m := [], seen := [] } =
      if p.path.isEmpty then .err pathErr
      else (decodeScalar c.O k (queryGoValue k s)).bind fun v =>
        .ok { m := updPath props p v [], seen := [p.jsonName] } := by
  have hg := goTok_queryLeafTree k s
  unfold queryLeafTree at hg ⊢
  unfold decScalarProp
  cases hq : queryGoValue k s with
  | bool b => simp [createField_empty, Outcome.bind, goTok]
  | str v =>
    rw [hq] at hg
    simp only [goTok, Option.some.injEq, GoTok.str.injEq] at hg
    subst hg
    simp [createField_empty, Outcome.bind, goTok]
  | num x => rw [hq] at hg; simp [goTok] at hg
  | null => rw [hq] at hg; simp [goTok] at hg

theorem leaf_enum (c : Cfg) (props : List PropDef) (p : PropDef) (ref : String) (s : Bytes) :
    decEnumProp c props p ref (.str s []) { m := [], seen := [] } =
      if p.path.isEmpty then .err pathErr
      else
        match c.env.find ref with
        | some (.enum pfx opts) =>
          match enumOptionByName pfx opts s with
          | some n => .ok { m := updPath props p (some (.enum n)) [], seen := [p.jsonName] }
          | none => .err "enum value not found"
        | _ => .err "unexpected token, expected string" := by
  unfold decEnumProp
  simp only [createField_empty, Outcome.bind]
  split
  · rfl
  · cases c.env.find ref with
    | none => rfl
    | some r => cases r <;> rfl

/-- a container property holding the single member `seg2 : tree` -/
theorem dec_object_single (c : Cfg) (props : List PropDef) (p : PropDef) (ref : String)
    (sub : List PropDef) (seg2 : Bytes) (tree : PTree) (p2 : PropDef) (hfld : p.field = .object ref)
    (hf : c.env.find ref = some (.object sub)) (hfp2 : findProp sub seg2 = some p2)
    (hne : p.path ≠ []) :
    decProp c props p (.obj (.cons seg2 [] tree (.nil .closed))) { m := [], seen := [] } =
      (decProp c sub p2 tree { m := [], seen := [] }).bind fun st2 =>
        .ok { m := wrapAt p.path st2.m, seen := [p.jsonName] } := by
  have hem : p.path.isEmpty = false := by
    cases hpp : p.path with
    | nil => exact absurd hpp hne
    | cons a t => rfl
  have hsub : subStart p { m := [], seen := [p.jsonName] } = { m := [], seen := [] } := by
    unfold subStart; rw [getPath_nil]; rfl
  conv => lhs; unfold decProp
  rw [hfld]
  simp only [createField_empty, Outcome.bind, hem, Bool.false_eq_true, if_false, hf, hsub,
    decObjMembers, hfp2]
  cases decProp c sub p2 tree { m := [], seen := [] } with
  | ok st2 =>
    simp only [show (Term.closed == Term.errIn) = false from rfl, Bool.false_eq_true, if_false,
      finishObjectProp, Outcome.bind, closeOk, beq_self_eq_true, if_true]
    rw [updPath_msg_nil props p st2.m hne]
  | err e => simp [finishObjectProp, Outcome.bind]
  | panic w => simp [finishObjectProp, Outcome.bind]

theorem dec_oneof_single (c : Cfg) (props : List PropDef) (p : PropDef) (ref : String)
    (ops : List PropDef) (seg2 : Bytes) (tree : PTree) (p2 : PropDef) (hfld : p.field = .oneof ref)
    (hf : c.env.find ref = some (.oneof ops)) (hfp2 : findProp ops seg2 = some p2)
    (hseg2 : seg2 ≠ ascii "!type") :
    decProp c props p (.obj (.cons seg2 [] tree (.nil .closed))) { m := [], seen := [] } =
      (decProp c ops p2 tree { m := [], seen := [] }).bind fun st2 =>
        .ok { m := wrapAt p.path st2.m, seen := [p.jsonName] } := by
  have hstart : oneofStart p { m := [], seen := [p.jsonName] } = { m := [], seen := [] } := by
    unfold oneofStart
    split
    · rfl
    · rw [getPath_nil]; rfl
  conv => lhs; unfold decProp
  rw [hfld]
  simp only [createField_empty, Outcome.bind, hf, hstart, decOneofMembers, hseg2, if_false, hfp2]
  cases decProp c ops p2 tree { m := [], seen := [] } with
  | ok st2 =>
    simp only [finishOneofProp, Outcome.bind, show (Term.closed == Term.errIn) = false from rfl,
      Bool.false_eq_true, if_false, List.nil_append, oneofPost, closeOk, beq_self_eq_true, if_true,
      applyPost]
    cases hpp : p.path with
    | nil => simp [wrapAt]
    | cons a t =>
      have hne : p.path ≠ [] := by rw [hpp]; simp
      simp only [List.isEmpty_cons, Bool.false_eq_true, if_false]
      rw [← hpp, updPath_msg_nil props p st2.m hne]
  | err e => simp [finishOneofProp, Outcome.bind]
  | panic w => simp [finishOneofProp, Outcome.bind]

/-! ## the query side, one segment at a time -/

theorem query_enter (c : Cfg) (props : List PropDef) (p : PropDef) (loc : List Nat)
    (trail : List Bytes) (seen : List (List Bytes)) (hseen : ∀ x ∈ seen, x.length ≤ trail.length)
    (hok : (p.path ≠ [] ∧ ((∃ r, p.field = .object r) ∨ (∃ r, p.field = .oneof r))) ∨
      (p.path = [] ∧ ∃ r, p.field = .oneof r)) :
    qEnter props p loc trail { m := wrapAt loc [], seen := seen } =
      .ok { m := wrapAt (loc ++ p.path) [], seen := (trail ++ [p.jsonName]) :: seen } := by
  unfold qEnter
  simp only [not_seen_of_short seen trail p.jsonName hseen, Bool.false_eq_true, if_false]
  rcases hok with ⟨hne, hk⟩ | ⟨hp0, r, hk⟩
  · rw [qCreate_fresh_ok props p loc trail seen hseen hne (Or.inr (Or.inr hk))]
    have hem : p.path.isEmpty = false := by
      cases hpp : p.path with
      | nil => exact absurd hpp hne
      | cons a t => rfl
    have hmut : p.field.mutable = true := by
      rcases hk with ⟨r, hk⟩ | ⟨r, hk⟩ <;> rw [hk] <;> rfl
    simp only [Outcome.bind, hem, Bool.false_eq_true, if_false, hmut, if_true]
    rw [updAt_wrap, getPath_nil]
    simp only [PVal.asMsg]
    rw [updPath_msg_nil props p [] hne, wrapAt_append]
  · rw [qCreate_fresh_exposed props p loc trail seen hseen hp0 r hk]
    simp [Outcome.bind, hp0]

theorem qvt_key (c : Cfg) (seg : Bytes) (rest : List Bytes) (props : List PropDef) (s : Bytes)
    (kv : Bytes × PTree) (h : queryValueTree c (seg :: rest) props s = some kv) : kv.1 = seg := by
  cases rest with
  | nil =>
    simp only [queryValueTree] at h
    split at h
    · split at h <;> first | (cases h; rfl) | cases h
    · cases h
  | cons s3 r3 =>
    simp only [queryValueTree] at h
    split at h
    · split at h
      · split at h
        · simp only [Option.map_eq_some_iff] at h
          obtain ⟨_, _, rfl⟩ := h; rfl
        · cases h
      · split at h
        · simp only [Option.map_eq_some_iff] at h
          obtain ⟨_, _, rfl⟩ := h; rfl
        · cases h
      · cases h
    · cases h

/-- lifting the induction hypothesis through a container -/
theorem Sim_lift (loc path : List Nat) (name : Bytes) (X : Outcome QS) (Y : Outcome PS)
    (h : Sim (qOut X) (dOut (loc ++ path) Y)) :
    Sim (qOut X) (dOut loc (Y.bind fun st2 => .ok { m := wrapAt path st2.m, seen := [name] })) := by
  cases Y with
  | ok st2 =>
    simp only [dOut, Outcome.bind] at h ⊢
    rw [← wrapAt_append]; exact h
  | err e => simpa [dOut, Outcome.bind] using h
  | panic w => simpa [dOut, Outcome.bind] using h

theorem queryKey_fresh (c : Cfg) : ∀ (segs : List Bytes) (props : List PropDef) (loc : List Nat)
    (trail : List Bytes) (s : Bytes) (kv : Bytes × PTree) (seen : List (List Bytes)),
    queryValueTree c segs props s = some kv → ascii "!type" ∉ segs →
    (∀ x ∈ seen, x.length ≤ trail.length) →
    ∃ p, findProp props kv.1 = some p ∧
      Sim (qOut (queryKey c segs props loc trail [s] { m := wrapAt loc [], seen := seen }))
          (dOut loc (decProp c props p kv.2 { m := [], seen := [] })) := by
  intro segs
  induction segs with
  | nil => intro props loc trail s kv seen h; simp [queryValueTree] at h
  | cons seg rest ih =>
    intro props loc trail s kv seen h hnt hseen
    have hkey := qvt_key c seg rest props s kv h
    cases rest with
    | nil =>
      simp only [queryValueTree] at h
      cases hfp : findProp props seg with
      | none => simp [hfp] at h
      | some p =>
        simp only [hfp] at h
        have hpn := propertyName_found props seg p hfp
        refine ⟨p, by rw [hkey]; exact hfp, ?_⟩
        simp only [queryKey, hpn, hfp]
        cases hfld : p.field with
        | scalar k =>
          simp only [hfld, Option.some.injEq] at h
          subst h
          unfold decProp; rw [hfld]; simp only []
          rw [leaf_scalar]
          cases hpp : p.path with
          | nil =>
            obtain ⟨e, he⟩ := qCreate_fresh_nopath props p loc trail seen hseen hpp (Or.inl ⟨k, hfld⟩)
            rw [he]
            simp only [List.isEmpty_nil, if_true, qOut, dOut, Outcome.bind]
            exact Sim_err _ _
          | cons a t =>
            have hne : p.path ≠ [] := by rw [hpp]; simp
            rw [← hpp, qCreate_fresh_ok props p loc trail seen hseen hne (Or.inl ⟨k, hfld⟩)]
            have hem : p.path.isEmpty = false := by rw [hpp]; rfl
            simp only [queryLeaf, hfld, hem, Bool.false_eq_true, if_false]
            cases decodeScalar c.O k (queryGoValue k s) with
            | ok x =>
              simp only [qOut, dOut, Outcome.bind, updAt_wrap]
              exact Sim_ok _
            | err e => simp only [qOut, dOut, Outcome.bind]; exact Sim_err _ _
            | panic w => simp only [qOut, dOut, Outcome.bind]; exact Sim_panic _ _
        | «enum» ref =>
          simp only [hfld, Option.some.injEq] at h
          subst h
          unfold decProp; rw [hfld]; simp only []
          rw [leaf_enum]
          cases hpp : p.path with
          | nil =>
            obtain ⟨e, he⟩ := qCreate_fresh_nopath props p loc trail seen hseen hpp
              (Or.inr (Or.inl ⟨ref, hfld⟩))
            rw [he]
            simp only [List.isEmpty_nil, if_true, qOut, dOut, Outcome.bind]
            exact Sim_err _ _
          | cons a t =>
            have hne : p.path ≠ [] := by rw [hpp]; simp
            rw [← hpp, qCreate_fresh_ok props p loc trail seen hseen hne (Or.inr (Or.inl ⟨ref, hfld⟩))]
            have hem : p.path.isEmpty = false := by rw [hpp]; rfl
            simp only [queryLeaf, hfld, hem, Bool.false_eq_true, if_false]
            cases c.env.find ref with
            | none => simp only [qOut, dOut, Outcome.bind]; exact Sim_err _ _
            | some rt =>
              cases rt with
              | «enum» pfx opts =>
                simp only []
                cases enumOptionByName pfx opts s with
                | none => simp only [qOut, dOut, Outcome.bind]; exact Sim_err _ _
                | some n =>
                  simp only [qOut, dOut, Outcome.bind, updAt_wrap]
                  exact Sim_ok _
              | _ => simp only [qOut, dOut, Outcome.bind]; exact Sim_err _ _
        | _ => simp [hfld] at h
    | cons seg2 rest2 =>
      simp only [queryValueTree] at h
      cases hfp : findProp props seg with
      | none => simp [hfp] at h
      | some p =>
        simp only [hfp] at h
        have hpn := propertyName_found props seg p hfp
        have hnt2 : ascii "!type" ∉ seg2 :: rest2 := fun hm => hnt (List.mem_cons_of_mem _ hm)
        have hseg2 : seg2 ≠ ascii "!type" := fun e => hnt (by rw [← e]; simp)
        have hseen' : ∀ x ∈ (trail ++ [p.jsonName]) :: seen, x.length ≤ (trail ++ [p.jsonName]).length := by
          intro x hx
          rcases List.mem_cons.mp hx with rfl | hx'
          · exact Nat.le_refl _
          · have := hseen x hx'
            simp only [List.length_append, List.length_singleton]; omega
        refine ⟨p, by rw [hkey]; exact hfp, ?_⟩
        cases hfld : p.field with
        | object ref =>
          simp only [hfld] at h
          cases hf : c.env.find ref with
          | none => simp [hf] at h
          | some rt =>
            cases rt with
            | object sub =>
              simp only [hf, Option.map_eq_some_iff] at h
              obtain ⟨kv', hkv', rfl⟩ := h
              have hk2 := qvt_key c seg2 rest2 sub s kv' hkv'
              obtain ⟨p2, hfp2, hsim⟩ := ih sub (loc ++ p.path) (trail ++ [p.jsonName]) s kv' _ hkv' hnt2 hseen'
              rw [hk2] at hfp2
              simp only [queryKey, hpn, hfp]
              cases hpp : p.path with
              | nil =>
                -- an object property without a proto path: both sides fail
                unfold qEnter
                simp only [not_seen_of_short seen trail p.jsonName hseen, Bool.false_eq_true, if_false]
                obtain ⟨e, he⟩ := qCreate_fresh_nopath props p loc trail seen hseen hpp
                  (Or.inr (Or.inr ⟨ref, hfld⟩))
                rw [he]
                unfold decProp; rw [hfld]
                simp only [createField_empty, Outcome.bind, hpp, List.isEmpty_nil, if_true, qOut, dOut]
                exact Sim_err _ _
              | cons a t =>
                have hne : p.path ≠ [] := by rw [hpp]; simp
                rw [← hpp, query_enter c props p loc trail seen hseen (Or.inl ⟨hne, Or.inl ⟨ref, hfld⟩⟩)]
                simp only [hfld, hf]
                rw [dec_object_single c props p ref sub kv'.1 kv'.2 p2 hfld hf (by rw [hk2]; exact hfp2) hne]
                exact Sim_lift loc p.path p.jsonName _ _ hsim
            | _ => simp [hf] at h
        | oneof ref =>
          simp only [hfld] at h
          cases hf : c.env.find ref with
          | none => simp [hf] at h
          | some rt =>
            cases rt with
            | oneof ops =>
              simp only [hf, Option.map_eq_some_iff] at h
              obtain ⟨kv', hkv', rfl⟩ := h
              have hk2 := qvt_key c seg2 rest2 ops s kv' hkv'
              obtain ⟨p2, hfp2, hsim⟩ := ih ops (loc ++ p.path) (trail ++ [p.jsonName]) s kv' _ hkv' hnt2 hseen'
              simp only [queryKey, hpn, hfp]
              have hok : (p.path ≠ [] ∧ ((∃ r, p.field = .object r) ∨ (∃ r, p.field = .oneof r))) ∨
                  (p.path = [] ∧ ∃ r, p.field = .oneof r) := by
                cases hpp : p.path with
                | nil => exact Or.inr ⟨rfl, ref, hfld⟩
                | cons a t => exact Or.inl ⟨by simp, Or.inr ⟨ref, hfld⟩⟩
              rw [query_enter c props p loc trail seen hseen hok]
              simp only [hfld, hf]
              rw [dec_oneof_single c props p ref ops kv'.1 kv'.2 p2 hfld hf hfp2 (by rw [hk2]; exact hseg2)]
              exact Sim_lift loc p.path p.jsonName _ _ hsim
            | _ => simp [hf] at h
        | _ => simp [hfld] at h

end J5V.Codec

namespace J5V.Codec
open J5V.Go J5V.Json

/-- **a scalar query parameter decodes like the equivalent document** -/
theorem query_scalar_doc (c : Cfg) (root : String) (props : List PropDef) (key s : Bytes)
    (doc : PTree)
    (hroot : c.env.find root = some (.object props) ∨ c.env.find root = some (.oneof props))
    (hnt : ascii "!type" ∉ splitDot key) (hdoc : queryDoc c (splitDot key) props s = some doc) :
    Sim (decodeQuery c root [(key, [s])]) (decRootTree c root doc) := by
  unfold queryDoc at hdoc
  simp only [Option.map_eq_some_iff] at hdoc
  obtain ⟨kv, hkv, rfl⟩ := hdoc
  obtain ⟨p, hfp, hsim⟩ := queryKey_fresh c (splitDot key) props [] [] s kv [] hkv hnt
    (fun _ h => by cases h)
  simp only [wrapAt] at hsim
  have hq : decodeQuery c root [(key, [s])] =
      qOut (queryKey c (splitDot key) props [] [] [s] { m := [], seen := [] }) := by
    unfold decodeQuery
    rcases hroot with hr | hr <;>
    · rw [hr]
      simp only [List.foldl_cons, List.foldl_nil, List.isEmpty_cons, Bool.false_eq_true, if_false]
      unfold qOut
      cases queryKey c (splitDot key) props [] [] [s] { m := [], seen := [] } <;> rfl
  have hk1 : kv.1 ≠ ascii "!type" := by
    cases hsp : splitDot key with
    | nil => rw [hsp] at hkv; simp [queryValueTree] at hkv
    | cons seg rest =>
      rw [hsp] at hkv hnt
      rw [qvt_key c seg rest props s kv hkv]
      intro e; exact hnt (by rw [← e]; simp)
  have hd : decRootTree c root (.obj (.cons kv.1 [] kv.2 (.nil .closed))) =
      dOut [] (decProp c props p kv.2 { m := [], seen := [] }) := by
    unfold decRootTree
    rcases hroot with hr | hr
    · rw [hr]
      simp only [decObjMembers, hfp]
      cases decProp c props p kv.2 { m := [], seen := [] } with
      | ok st1 =>
        simp [finishObject, closeOk, dOut, Outcome.bind, wrapAt]
      | err e => simp [finishObject, dOut, Outcome.bind]
      | panic w => simp [finishObject, dOut, Outcome.bind]
    · rw [hr]
      simp only [decOneofMembers, hk1, if_false, hfp]
      cases decProp c props p kv.2 { m := [], seen := [] } with
      | ok st1 =>
        simp [finishOneof, closeOk, oneofPost, applyPost, dOut, Outcome.bind, wrapAt]
      | err e => simp [finishOneof, dOut, Outcome.bind]
      | panic w => simp [finishOneof, dOut, Outcome.bind]
  rw [hq, hd]
  exact hsim

end J5V.Codec
