import J5V.Codec.EncTreeProofs
import J5V.Codec.CanonProofs
/-!
# `google.protobuf.Any` with `WithProtoToAny` (C01, one property, under an explicit depth hypothesis)

A protobuf `Any` can only be decoded by a codec built `WithProtoToAny`: reading
`{"!type": tn, "value": V}` it resolves `tn`, decodes `V` into a fresh message of that type (with
`anyDepth + 1`), marshals it and stores the bytes. In the model the bytes are represented by what
they unmarshal to (`ik / iroot / inner`), so no marshal / unmarshal law is needed beyond the
modelling assumption (trusted base: "proto.Marshal / Unmarshal for the bytes inside Any values").
-/
namespace J5V.Codec
open J5V.Go J5V.Json

theorem fieldNoJ5_of_noAny (fld : Field) (h : fieldNoAny fld = true) : fieldNoJ5 fld = true := by
  induction fld with
  | any pb => simp [fieldNoAny] at h
  | array i ih => simp only [fieldNoAny] at h; simp only [fieldNoJ5]; exact ih h
  | map i ih => simp only [fieldNoAny] at h; simp only [fieldNoJ5]; exact ih h
  | _ => rfl

/-- an environment without any `Any` field has no j5 `Any` field -/
theorem noJ5Any_of_noAny (env : Env) (h : env.noAny = true) : env.noJ5Any = true := by
  unfold Env.noAny at h
  unfold Env.noJ5Any
  apply List.all_eq_true.mpr
  intro d hd
  have := List.all_eq_true.mp h d hd
  obtain ⟨name, r⟩ := d
  cases r with
  | object ps =>
    simp only [] at this ⊢
    exact List.all_eq_true.mpr fun p hp => fieldNoJ5_of_noAny _ (List.all_eq_true.mp this p hp)
  | oneof ps =>
    simp only [] at this ⊢
    exact List.all_eq_true.mpr fun p hp => fieldNoJ5_of_noAny _ (List.all_eq_true.mp this p hp)
  | «enum» a b => rfl
  | noschema => rfl

/-- what the encoder writes for a protobuf `Any` whose content unmarshals to `inner` -/
theorem enc_any_pb (env : Env) (O : Oracle) (F : Nat) (url val : Bytes) (iroot : String)
    (inner : PVal) (data : PTree) (hroot : encRoot env O (F + 1) iroot inner = .ok data)
    (hu : isValidUtf8 (trimPrefix url anyPrefix) = true) :
    ∃ tlit nlit vlit, encValue env O (F + 2) (.any true) (.anyPb url val .inn iroot inner) =
      .ok (.obj (.cons typeKey tlit (.str (trimPrefix url anyPrefix) nlit)
        (.cons valueKey vlit data (.nil .closed)))) := by
  obtain ⟨tlit, htl⟩ := (appendString_total typeKey).2.1 (by decide)
  obtain ⟨vlit, hvl⟩ := (appendString_total valueKey).2.1 (by decide)
  obtain ⟨nlit, hnl⟩ := strNode_ok _ hu
  refine ⟨tlit, nlit, vlit, ?_⟩
  simp [encValue, hroot, htl, hvl, hnl]

/-- the decoder built `WithProtoToAny` reading the framed value into a protobuf `Any` property -/
theorem dec_any_pb (c : Cfg) (hmode : c.protoToAny = true) (hdepth : c.anyDepth < maxAnyDepth)
    (props : List PropDef) (p : PropDef) (st : PS) (tn tlit nlit vlit : Bytes) (data : PTree)
    (iroot : String) (fs : Fields)
    (hf : p.field = .any true) (hp : p.path ≠ []) (hs : p.jsonName ∉ st.seen)
    (hgb : groupBusy props p st.m = false) (hc : data.complete = true) (hd : data.depth ≤ 10000)
    (hres : c.env.resolve tn = some iroot)
    (hdec : decRootTree { c with anyDepth := c.anyDepth + 1 } iroot data = .ok fs)
    (hne : fs ≠ []) :
    decProp c props p
        (.obj (.cons typeKey tlit (.str tn nlit) (.cons valueKey vlit data (.nil .closed)))) st =
      .ok { m := updPath props p (some (.anyPb (anyPrefixB ++ tn) [] .inn iroot (.msg fs))) st.m,
            seen := p.jsonName :: st.seen } := by
  have hpe : p.path.isEmpty = false := by
    cases hpp : p.path with
    | nil => exact absurd hpp hp
    | cons a b => rfl
  have hpop : popValueAsBytes data = some data.render := by
    unfold popValueAsBytes; simp [hc, hd]
  have hvk : ascii "value" ≠ ascii "!type" := by decide
  have hfe : fs.isEmpty = false := by
    cases fs with
    | nil => exact absurd rfl hne
    | cons a b => rfl
  have hnd : ¬ (c.anyDepth ≥ maxAnyDepth) := Nat.not_le.mpr hdepth
  unfold decProp; rw [hf]
  simp only [createField_fresh props p st hs hgb, Outcome.bind, hpe, Bool.false_eq_true, if_false]
  simp only [finalType, finalType.typeKeyB, decAnyMembers, typeKey, valueKey, if_true, hvk, if_false,
    ne_eq, not_true_eq_false, Option.isSome_none, Bool.false_eq_true, hpop, hnd, hres, hdec]
  simp [finishAnyProp, Outcome.bind, hmode, closeOk, hfe]

theorem stripPrefix_append : ∀ (pfx s : Bytes), stripPrefix pfx (pfx ++ s) = some s
  | [], s => by simp [stripPrefix]
  | p :: ps, s => by simp [stripPrefix, stripPrefix_append ps s]

theorem trimPrefix_append (pfx s : Bytes) : trimPrefix (pfx ++ s) pfx = s := by
  unfold trimPrefix; rw [stripPrefix_append]

/-- **protobuf `Any`, one property, both directions**: for a codec built `WithProtoToAny` over a
flat environment without j5 `Any` fields, not yet nested 100 `Any` values deep: a protobuf `Any`
whose type URL is `type.googleapis.com/` + a resolvable name and whose content is a non-empty
representable message `fs` of the resolved root is written as `{"!type": name, "value": data}` with
`data` the codec's encoding of `fs`, and — provided that encoding is nested at most 10000 deep
(`maxNestingDepth` of `encoding/json`, which `popValueAsBytes` runs into) — the decoder reading
that value into a protobuf `Any` property stores `Any{type_url, content = fs}` again. -/
theorem any_pb_roundtrip (c : Cfg) (hs : c.env.flat = true) (L : OracleLaws c.O)
    (hC : c.env.noAny = true ∨ ChunkLaws c.O)
    (hmode : c.protoToAny = true) (hj : c.env.noJ5Any = true) (hdepth : c.anyDepth < maxAnyDepth)
    (props : List PropDef) (p : PropDef) (st : PS) (tn val : Bytes) (iroot : String) (fs : Fields)
    (hf : p.field = .any true) (hp : p.path ≠ []) (hseen : p.jsonName ∉ st.seen)
    (hgb : groupBusy props p st.m = false) (hu : isValidUtf8 tn = true)
    (hres : c.env.resolve tn = some iroot) (hne : fs ≠ [])
    (hok : valOk c.env c.O (.object iroot) (.msg fs) = true ∨
      valOk c.env c.O (.oneof iroot) (.msg fs) = true) :
    ∃ tlit nlit vlit data,
      encValue c.env c.O (6 * (depthFields fs + 1) + 9 + 2) (.any true)
          (.anyPb (anyPrefix ++ tn) val .inn iroot (.msg fs)) =
        .ok (.obj (.cons typeKey tlit (.str tn nlit) (.cons valueKey vlit data (.nil .closed)))) ∧
      (data.depth ≤ 10000 →
        decProp c props p
            (.obj (.cons typeKey tlit (.str tn nlit) (.cons valueKey vlit data (.nil .closed)))) st =
          .ok { m := updPath props p (some (.anyPb (anyPrefixB ++ tn) [] .inn iroot (.msg fs))) st.m,
                seen := p.jsonName :: st.seen }) := by
  obtain ⟨data, henc, hdec⟩ := roundtrip_tree_flat_fuel { c with anyDepth := c.anyDepth + 1 } hs L
    (Or.inr hj) iroot fs hok (6 * (depthFields fs + 1) + 9) (Nat.le_refl _)
  have hch : (PVal.msg fs).chunksOk c.O = true := by
    rcases hok with hok | hok
    · exact valOk_chunksOk _ _ _ _ hok
    · exact valOk_chunksOk _ _ _ _ hok
  have hE : data.Enc := encRoot_enc c.env c.O (floatTextOk_of_laws c.O L) iroot (.msg fs) data
    (hC.elim Or.inl (fun h => Or.inr ⟨h, hch⟩)) _ henc
  obtain ⟨tlit, nlit, vlit, he⟩ := enc_any_pb c.env c.O (6 * (depthFields fs + 1) + 9)
    (anyPrefix ++ tn) val iroot (.msg fs) data henc (by rw [trimPrefix_append]; exact hu)
  rw [trimPrefix_append] at he
  refine ⟨tlit, nlit, vlit, data, he, ?_⟩
  intro hd
  exact dec_any_pb c hmode hdepth props p st tn tlit nlit vlit data iroot fs hf hp hseen hgb
    (enc_complete data hE) hd hres hdec hne

/-! ## a bound on the nesting depth of the encoder's tree (for `popValueAsBytes`)

The encoder's recursion spends at least one unit of fuel per level of the tree it builds, except
for the `j5_json` chunk of an `Any`, which is inserted as it is. So for a value that holds no
`j5_json` the tree is nested at most as deep as the fuel. -/

mutual
/-- no `j5_json` anywhere in the value -/
def PVal.noJ5 : PVal → Bool
  | .anyJ5 _ _ j5 _ _ inner => j5.isEmpty && inner.noJ5
  | .anyPb _ _ _ _ inner => inner.noJ5
  | .msg fs => noJ5F fs
  | .list xs => noJ5L xs
  | .map kvs => noJ5M kvs
  | _ => true
def noJ5F : List (Nat × PVal) → Bool
  | [] => true
  | (_, v) :: rest => v.noJ5 && noJ5F rest
def noJ5L : List PVal → Bool
  | [] => true
  | v :: rest => v.noJ5 && noJ5L rest
def noJ5M : List (Bytes × PVal) → Bool
  | [] => true
  | (_, v) :: rest => v.noJ5 && noJ5M rest
end

theorem noJ5_aget : ∀ (m : Fields) (k : Nat) (v : PVal), noJ5F m = true → aget k m = some v →
    v.noJ5 = true
  | [], _, _, _, h => by simp [aget] at h
  | (k', v') :: rest, k, v, hm, h => by
    simp only [noJ5F, Bool.and_eq_true] at hm
    simp only [aget] at h
    split at h
    · cases h; exact hm.1
    · exact noJ5_aget rest k v hm.2 h

theorem noJ5_getPath : ∀ (path : List Nat) (m : Fields) (v : PVal), noJ5F m = true →
    getPath m path = some v → v.noJ5 = true
  | [], _, _, _, h => by simp [getPath] at h
  | [k], m, v, hm, h => by simp only [getPath] at h; exact noJ5_aget m k v hm h
  | k :: k2 :: r, m, v, hm, h => by
    rw [getPath_cons2] at h
    split at h
    · next sub hsub =>
      have := noJ5_aget m k _ hm hsub
      simp only [PVal.noJ5] at this
      exact noJ5_getPath (k2 :: r) sub v this h
    · cases h

theorem noJ5_mem_list : ∀ (xs : List PVal) (x : PVal), noJ5L xs = true → x ∈ xs → x.noJ5 = true
  | [], _, _, h => by cases h
  | a :: r, x, hx, h => by
    simp only [noJ5L, Bool.and_eq_true] at hx
    rcases List.mem_cons.mp h with rfl | h'
    · exact hx.1
    · exact noJ5_mem_list r x hx.2 h'

theorem noJ5_mem_map : ∀ (kvs : List (Bytes × PVal)) (kv : Bytes × PVal), noJ5M kvs = true →
    kv ∈ kvs → kv.2.noJ5 = true
  | [], _, _, h => by cases h
  | (k, v) :: r, x, hx, h => by
    simp only [noJ5M, Bool.and_eq_true] at hx
    rcases List.mem_cons.mp h with rfl | h'
    · exact hx.1
    · exact noJ5_mem_map r x hx.2 h'

theorem membersOf_depth (n : Nat) : ∀ (es : List (Bytes × Bytes × PTree)),
    (∀ e ∈ es, e.2.2.depth ≤ n) → (membersOf es).depth ≤ n
  | [], _ => by simp [membersOf, PMembers.depth]
  | (k, kr, v) :: t, h => by
    simp only [membersOf, PMembers.depth]
    exact Nat.max_le.mpr ⟨h (k, kr, v) List.mem_cons_self,
      membersOf_depth n t (fun e he => h e (List.mem_cons_of_mem _ he))⟩

theorem elemsOf_depth (n : Nat) : ∀ (ts : List PTree), (∀ t ∈ ts, t.depth ≤ n) →
    (elemsOf ts).depth ≤ n
  | [], _ => by simp [elemsOf, PElems.depth]
  | a :: t, h => by
    simp only [elemsOf, PElems.depth]
    exact Nat.max_le.mpr ⟨h a List.mem_cons_self,
      elemsOf_depth n t (fun e he => h e (List.mem_cons_of_mem _ he))⟩

theorem strNode_depth (s : Bytes) (t : PTree) (h : strNode s = .ok t) : t.depth = 0 := by
  unfold strNode at h
  split at h
  · cases h; rfl
  · cases h
  · cases h

theorem scalarNode_depth (O : Oracle) (k : ScalarKind) (v : PVal) (t : PTree)
    (h : scalarNode O k v = .ok t) : t.depth = 0 := by
  unfold scalarNode at h
  split at h
  · exact strNode_depth _ t h
  · cases h
    unfold bareNode
    split
    · rfl
    · split <;> rfl
  · cases h
  · cases h

theorem member_depth (name : Bytes) (t : PTree) (e : Bytes × Bytes × PTree)
    (h : member name (.ok t) = .ok (some e)) : e.2.2 = t := by
  obtain ⟨lit, t', _, ht', hr⟩ := member_ok_inv _ _ _ h
  cases ht'; cases hr; rfl

/-- the depth facts at fuel `f` -/
structure TD (env : Env) (O : Oracle) (f : Nat) : Prop where
  val : ∀ fld v t, v.noJ5 = true → encValue env O f fld v = .ok t → t.depth ≤ f
  fld : ∀ p m t, noJ5F m = true → encField env O f p m = .ok (some t) → t.depth ≤ f
  obj : ∀ props m t, noJ5F m = true → encObjectBody env O f props m = .ok t → t.depth ≤ f
  one : ∀ ops m t, noJ5F m = true → encOneofBody env O f ops m = .ok t → t.depth ≤ f
  root : ∀ r v t, v.noJ5 = true → encRoot env O f r v = .ok t → t.depth ≤ f

theorem TD_all (env : Env) (O : Oracle) : ∀ f, TD env O f := by
  intro f
  induction f with
  | zero =>
    refine ⟨?_, ?_, ?_, ?_, ?_⟩
    · intro fld v t _ h; simp [encValue] at h
    · intro p m t _ h; simp [encField] at h
    · intro props m t _ h; simp [encObjectBody] at h
    · intro ops m t _ h; simp [encOneofBody] at h
    · intro r v t _ h; simp [encRoot] at h
  | succ f ih =>
    refine ⟨?_, ?_, ?_, ?_, ?_⟩
    · -- values
      intro fld v t hn h
      cases fld with
      | scalar k =>
        simp only [encValue] at h
        rw [scalarNode_depth O k v t h]; exact Nat.zero_le _
      | «enum» ref =>
        simp only [encValue] at h
        split at h
        · split at h
          · rw [strNode_depth _ t h]; exact Nat.zero_le _
          · cases h
        · cases h
      | object ref =>
        simp only [encValue] at h
        split at h
        · next props fs hfind =>
          exact Nat.le_succ_of_le (ih.obj props fs t (by simpa [PVal.noJ5] using hn) h)
        · cases h
      | oneof ref =>
        simp only [encValue] at h
        split at h
        · next ops fs hfind =>
          exact Nat.le_succ_of_le (ih.one ops fs t (by simpa [PVal.noJ5] using hn) h)
        · cases h
      | any pb =>
        simp only [encValue] at h
        cases v <;> simp only [] at h <;> try (cases h)
        case anyJ5 tn proto j5 ik iroot inner =>
          simp only [PVal.noJ5, Bool.and_eq_true] at hn
          split at h
          · next data hdata =>
            have hde : data.depth ≤ f := by
              split at hdata
              · next hj => simp [hn.1] at hj
              · split at hdata
                · split at hdata
                  · cases hdata
                  · cases hdata
                  · exact ih.root iroot inner data hn.2 hdata
                · cases hdata
            split at h
            · next typeLit tnNode valueLit h1 h2 h3 =>
              cases h
              simp only [PTree.depth, PMembers.depth]
              have := strNode_depth _ _ h2
              omega
            all_goals cases h
          · cases h
          · cases h
        case anyPb url val ik iroot inner =>
          simp only [PVal.noJ5] at hn
          split at h
          · next data hdata =>
            have hde : data.depth ≤ f := by
              split at hdata
              · next hj => simp at hj
              · split at hdata
                · split at hdata
                  · cases hdata
                  · cases hdata
                  · exact ih.root iroot inner data hn hdata
                · cases hdata
            split at h
            · next typeLit tnNode valueLit h1 h2 h3 =>
              cases h
              simp only [PTree.depth, PMembers.depth]
              have := strNode_depth _ _ h2
              omega
            all_goals cases h
          · cases h
          · cases h
      | array item =>
        simp only [encValue] at h
        split at h
        · cases h
        · cases h
        · cases h
        · next xs _ _ _ =>
          cases hr : xs.foldr (fun x acc => consElem (encValue env O f item x) acc)
              (.ok (.nil .closed)) with
          | err e => simp [hr] at h
          | panic w => simp [hr] at h
          | ok es =>
            simp only [hr] at h; cases h
            obtain ⟨ts, hall, rfl⟩ := foldr_consElem_inv _ xs es hr
            simp only [PTree.depth]
            apply Nat.succ_le_succ
            apply elemsOf_depth
            intro t' ht'
            obtain ⟨x, hx, hgx⟩ := allEnc_mem _ xs ts hall t' ht'
            exact ih.val item x t' (noJ5_mem_list xs x (by simpa [PVal.noJ5] using hn) hx) hgx
        · cases h
      | map item =>
        simp only [encValue] at h
        split at h
        · cases h
        · cases h
        · cases h
        · next kvs _ _ _ =>
          cases hr : kvs.foldr (fun kv acc =>
              consMember (member kv.1 (encValue env O f item kv.2)) acc) (.ok (.nil .closed)) with
          | err e => simp [hr] at h
          | panic w => simp [hr] at h
          | ok ms =>
            simp only [hr] at h; cases h
            obtain ⟨es, hall, rfl⟩ := foldr_consMember_map_inv _ kvs ms hr
            simp only [PTree.depth]
            apply Nat.succ_le_succ
            apply membersOf_depth
            intro e he
            obtain ⟨kv, hkv, _, _, hgx⟩ := allEncMap_mem _ kvs es hall e he
            exact ih.val item kv.2 e.2.2 (noJ5_mem_map kvs kv (by simpa [PVal.noJ5] using hn) hkv) hgx
        · cases h
    · -- a property
      intro p m t hn h
      simp only [encField] at h
      split at h
      · split at h
        · split at h
          · next ops hfind =>
            split at h
            · split at h
              · next t' ht' =>
                cases h
                exact Nat.le_succ_of_le (ih.one ops m _ hn ht')
              · cases h
              · cases h
            · cases h
          · cases h
        · cases h
      · next path hpath =>
        split at h
        · cases h
        · next v hv =>
          split at h
          · next t' ht' =>
            cases h
            exact Nat.le_succ_of_le (ih.val p.field v _ (noJ5_getPath _ m v hn hv) ht')
          · cases h
          · cases h
    · -- object body
      intro props m t hn h
      simp only [encObjectBody] at h
      split at h
      · next ms hr =>
        cases h
        obtain ⟨es, hall, rfl⟩ := foldr_consMember_inv _ props ms hr
        simp only [PTree.depth]
        apply Nat.succ_le_succ
        apply membersOf_depth
        intro e he
        obtain ⟨p, hp, hgp⟩ := allEncProps_mem _ props es hall e he
        split at hgp
        · cases hgp
        · next q hq =>
          split at hgp
          · cases hgp
          · next t' ht' =>
            rw [member_depth q.jsonName t' e hgp]
            exact ih.fld q m t' hn ht'
          · cases hgp
          · cases hgp
      · cases h
      · cases h
    · -- oneof body
      intro ops m t hn h
      simp only [encOneofBody] at h
      split at h
      · cases h; simp [PTree.depth, PMembers.depth]
      · next q0 _ =>
        split at h
        · cases h
        · next q hq =>
          split at h
          · next nameNode hnn =>
            split at h
            · next typeLit htl =>
              split at h
              · next t' ht' =>
                split at h
                · next k kraw v hmem =>
                  cases h
                  have hv : v = t' := member_depth q.jsonName t' (k, kraw, v) hmem
                  have h0 := strNode_depth _ _ hnn
                  have := ih.fld q m t' hn ht'
                  simp only [PTree.depth, PMembers.depth, hv]
                  omega
                · cases h
                · cases h
                · cases h
              · cases h
              · cases h
              · cases h
            · cases h
            · cases h
          · cases h
          · cases h
      · cases h
    · -- root
      intro r v t hn h
      simp only [encRoot] at h
      split at h
      · next props fs hfind =>
        exact Nat.le_succ_of_le (ih.obj props fs t (by simpa [PVal.noJ5] using hn) h)
      · next ops fs hfind =>
        exact Nat.le_succ_of_le (ih.one ops fs t (by simpa [PVal.noJ5] using hn) h)
      · cases h

/-! ## a representable message of an environment without j5 `Any` holds no `j5_json` -/

mutual
theorem valOk_noJ5 (env : Env) (O : Oracle) (hj : env.noJ5Any = true) : (v : PVal) → (fld : Field) →
    valOk env O fld v = true → v.noJ5 = true
  | .msg fs, fld, h => by
    simp only [PVal.noJ5]
    cases fld with
    | object ref =>
      obtain ⟨fs', props, hv, _, _, hfok, _, _⟩ := valOk_object env O ref _ h
      cases hv
      exact fieldsOk_noJ5 env O hj fs props hfok
    | oneof ref =>
      obtain ⟨fs', ops, hv, _, _, hfok, _⟩ := valOk_oneof env O ref _ h
      cases hv
      exact fieldsOk_noJ5 env O hj fs ops hfok
    | _ => simp [valOk] at h
  | .list xs, fld, h => by
    simp only [PVal.noJ5]
    cases fld with
    | array item =>
      obtain ⟨xs', hv, hl⟩ := valOk_array env O item _ h
      cases hv
      exact listOk_noJ5 env O hj xs item hl
    | _ => simp [valOk] at h
  | .map kvs, fld, h => by
    simp only [PVal.noJ5]
    cases fld with
    | map item =>
      obtain ⟨kvs', hv, hm⟩ := valOk_map env O item _ h
      cases hv
      exact mapOk_noJ5 env O hj kvs item [] hm
    | _ => simp [valOk] at h
  | .anyJ5 tn proto j5 ik iroot inner, fld, h => by
    cases fld with
    | any pb =>
      cases pb with
      | true => simp [valOk] at h
      | false =>
        obtain ⟨_, _, _, _, hna, _⟩ := valOk_any env O _ h
        rw [hj] at hna; cases hna
    | _ => simp [valOk] at h
  | .anyPb a b c d e, fld, h => by
    cases fld with
    | scalar k =>
      have := scalarOk_not_any O k (.anyPb a b c d e) (Or.inl ⟨a, b, c, d, e, rfl⟩)
      simp [valOk, this] at h
    | _ => simp [valOk] at h
  | .bool _, _, _ => rfl
  | .int _, _, _ => rfl
  | .uint _, _, _ => rfl
  | .f32 _, _, _ => rfl
  | .f64 _, _, _ => rfl
  | .str _, _, _ => rfl
  | .bytes _, _, _ => rfl
  | .enum _, _, _ => rfl
  | .ts _ _, _, _ => rfl
  | .date _ _ _, _, _ => rfl
  | .dec _, _, _ => rfl
termination_by v => sizeOf v

theorem fieldsOk_noJ5 (env : Env) (O : Oracle) (hj : env.noJ5Any = true) : (fs : Fields) →
    (props : List PropDef) → fieldsOk env O props fs = true → noJ5F fs = true
  | [], _, _ => rfl
  | (k, v) :: rest, props, h => by
    rw [fieldsOk_cons] at h
    simp only [Bool.and_eq_true] at h
    simp only [noJ5F, Bool.and_eq_true]
    refine ⟨?_, fieldsOk_noJ5 env O hj rest props h.2⟩
    have h1 := h.1
    split at h1
    · next p _ =>
      simp only [Bool.and_eq_true] at h1
      exact valOk_noJ5 env O hj v p.field h1.1
    · cases v with
      | msg sub =>
        simp only [Bool.and_eq_true] at h1
        simp only [PVal.noJ5]
        exact fieldsOk_noJ5 env O hj sub _ h1.2
      | _ => cases h1
termination_by fs => sizeOf fs

theorem listOk_noJ5 (env : Env) (O : Oracle) (hj : env.noJ5Any = true) : (xs : List PVal) →
    (item : Field) → listOk env O item xs = true → noJ5L xs = true
  | [], _, _ => rfl
  | x :: rest, item, h => by
    simp only [listOk, Bool.and_eq_true] at h
    simp only [noJ5L, Bool.and_eq_true]
    exact ⟨valOk_noJ5 env O hj x item h.1, listOk_noJ5 env O hj rest item h.2⟩
termination_by xs => sizeOf xs

theorem mapOk_noJ5 (env : Env) (O : Oracle) (hj : env.noJ5Any = true) :
    (kvs : List (Bytes × PVal)) → (item : Field) → (seen : List Bytes) →
    mapOk env O item seen kvs = true → noJ5M kvs = true
  | [], _, _, _ => rfl
  | (k, v) :: rest, item, seen, h => by
    simp only [mapOk, Bool.and_eq_true] at h
    simp only [noJ5M, Bool.and_eq_true]
    exact ⟨valOk_noJ5 env O hj v item h.1.2, mapOk_noJ5 env O hj rest item _ h.2⟩
termination_by kvs => sizeOf kvs
end

/-- **protobuf `Any`, one property, with the depth hypothesis on the message**: as
`any_pb_roundtrip`, the nesting bound of `encoding/json` discharged by the tree-depth bound
(`TD_all`): it suffices that the content is nested at most 1664 messages deep
(`6 · (depth + 1) + 10 ≤ 10000`). -/
theorem any_pb_roundtrip' (c : Cfg) (hs : c.env.flat = true) (L : OracleLaws c.O)
    (hC : c.env.noAny = true ∨ ChunkLaws c.O)
    (hmode : c.protoToAny = true) (hj : c.env.noJ5Any = true) (hdepth : c.anyDepth < maxAnyDepth)
    (props : List PropDef) (p : PropDef) (st : PS) (tn val : Bytes) (iroot : String) (fs : Fields)
    (hf : p.field = .any true) (hp : p.path ≠ []) (hseen : p.jsonName ∉ st.seen)
    (hgb : groupBusy props p st.m = false) (hu : isValidUtf8 tn = true)
    (hres : c.env.resolve tn = some iroot) (hne : fs ≠ [])
    (hok : valOk c.env c.O (.object iroot) (.msg fs) = true ∨
      valOk c.env c.O (.oneof iroot) (.msg fs) = true)
    (hD : 6 * (depthFields fs + 1) + 10 ≤ 10000) :
    ∃ t, encValue c.env c.O (6 * (depthFields fs + 1) + 9 + 2) (.any true)
          (.anyPb (anyPrefix ++ tn) val .inn iroot (.msg fs)) = .ok t ∧
      decProp c props p t st =
        .ok { m := updPath props p (some (.anyPb (anyPrefixB ++ tn) [] .inn iroot (.msg fs))) st.m,
              seen := p.jsonName :: st.seen } := by
  obtain ⟨data, henc, hdec⟩ := roundtrip_tree_flat_fuel { c with anyDepth := c.anyDepth + 1 } hs L
    (Or.inr hj) iroot fs hok (6 * (depthFields fs + 1) + 9) (Nat.le_refl _)
  have hch : (PVal.msg fs).chunksOk c.O = true := by
    rcases hok with hok | hok
    · exact valOk_chunksOk _ _ _ _ hok
    · exact valOk_chunksOk _ _ _ _ hok
  have hn5 : (PVal.msg fs).noJ5 = true := by
    rcases hok with hok | hok
    · exact valOk_noJ5 c.env c.O hj _ _ hok
    · exact valOk_noJ5 c.env c.O hj _ _ hok
  have hE : data.Enc := encRoot_enc c.env c.O (floatTextOk_of_laws c.O L) iroot (.msg fs) data
    (hC.elim Or.inl (fun h => Or.inr ⟨h, hch⟩)) _ henc
  have hdd : data.depth ≤ 10000 :=
    Nat.le_trans ((TD_all c.env c.O _).root iroot (.msg fs) data hn5 henc) hD
  obtain ⟨tlit, nlit, vlit, he⟩ := enc_any_pb c.env c.O (6 * (depthFields fs + 1) + 9)
    (anyPrefix ++ tn) val iroot (.msg fs) data henc (by rw [trimPrefix_append]; exact hu)
  rw [trimPrefix_append] at he
  exact ⟨_, he, dec_any_pb c hmode hdepth props p st tn tlit nlit vlit data iroot fs hf hp hseen hgb
    (enc_complete data hE) hdd hres hdec hne⟩

end J5V.Codec
